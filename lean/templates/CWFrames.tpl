-- imports: Generated.CWMean Model.CW
/-!
Object model of the Hill frames and Clohessy-Wiltshire propagators of ONE process (beyond/frames/frames.py `HillFrame`,
beyond/propagators/cw.py `ClohessyWiltshire.__init__ / copy / n`).

Every `HillFrame(orientation, center)` call allocates a NEW frame object that keeps the orientation and the centre it was given;
a propagator keeps a reference to the frame object it was given (`frame="Hill"` resolves to `dynamic["Hill"]`, the frame created
last) and its semi major axis; `copy()` shares the frame and the semi major axis.  The model is memo-free: the mean motion of a
propagator is `meanMotionSrc` (translated from the source) of the CURRENT gravitational parameter of its frame's centre and of its
semi major axis, whenever it is read (the real `n` memoises it in `_n`, every propagated point gets a `copy()` that recomputes it).
-/

structure HillF where
  tnw : Bool
  mu : R

structure CWP where
  frame : Nat
  sma : R

/-- all the Hill frames and propagators created so far, in creation order -/
structure World where
  frames : List HillF
  props : List CWP

inductive Op where
  /-- `HillFrame(orientation, center)` -/
  | newFrame (tnw : Bool) (mu : R)
  /-- `ClohessyWiltshire(sma, frame=<frame object>)` -/
  | newProp (frame : Nat) (sma : R)
  /-- `ClohessyWiltshire(sma)`: `frame="Hill"` is `get_frame("Hill")` = `dynamic["Hill"]`, the frame created last -/
  | newPropHill (sma : R)
  /-- `prop.copy()` -/
  | copyProp (p : Nat)
  /-- reading `prop.n`, propagating with it: no effect on the objects -/
  | read (p : Nat)

/-- the state at import: the module-level `frames.Hill` (or whatever `dynamic["Hill"]` is when the history starts) -/
def World.init (tnw0 : Bool) (mu0 : R) : World := ⟨[⟨tnw0, mu0⟩], []⟩

def World.step (w : World) : Op → World
  | .newFrame tnw mu => { w with frames := w.frames ++ [⟨tnw, mu⟩] }
  | .newProp f sma => { w with props := w.props ++ [⟨f, sma⟩] }
  | .newPropHill sma => { w with props := w.props ++ [⟨w.frames.length - 1, sma⟩] }
  | .copyProp p =>
    match w.props[p]? with
    | some pr => { w with props := w.props ++ [pr] }
    | none => w
  | .read _ => w

def World.run (w : World) (ops : List Op) : World := ops.foldl World.step w

/-- `prop.n` -/
def World.n (w : World) (p : Nat) : Option R :=
  match w.props[p]? with
  | some pr =>
    match w.frames[pr.frame]? with
    | some f => some (meanMotionSrc f.mu pr.sma)
    | none => none
  | none => none

/-- `prop.frame.orientation != "QSW"` -/
def World.tnw (w : World) (p : Nat) : Option Bool :=
  match w.props[p]? with
  | some pr =>
    match w.frames[pr.frame]? with
    | some f => some f.tnw
    | none => none
  | none => none

/-- `Orbit(x, t0, "cartesian", frame, prop).propagate(t)` with the maneuver list `mans` -/
def World.propagate (w : World) (p : Nat) (mans : List Man) (t t0 : R) (x : List R) : Option (List R) :=
  match w.n p, w.tnw p with
  | some n, some tnw => some (cwPropagate tnw n mans t t0 x)
  | _, _ => none

/-- one propagator object of the CURRENT code seen through its mean motion: `mu` = `self.frame.center.body.mu` and `sma` = `self.sma`
(current values of plain attributes), `memo` = `self._n` (absent until the first read of `n`) -/
structure Memo where
  mu : R
  sma : R
  memo : Option R

/-- `prop.n`: the value returned and the object afterwards (`nMemoised`, read from the source, tells whether `_n` is kept) -/
def Memo.read (m : Memo) : R × Memo :=
  if nMemoised then
    match m.memo with
    | some v => (v, m)
    | none => (meanMotionSrc m.mu m.sma, { m with memo := some (meanMotionSrc m.mu m.sma) })
  else (meanMotionSrc m.mu m.sma, m)

/-- `prop.sma = sma` and / or `prop.frame = <Hill frame about a centre of parameter mu>`: plain attribute writes, `_n` is not touched -/
def Memo.write (m : Memo) (mu sma : R) : Memo := { m with mu := mu, sma := sma }

/-- `copy()`: a new object built by `__init__` from the current values: no `_n` -/
def Memo.copy (m : Memo) : Memo := ⟨m.mu, m.sma, none⟩

/-- the read of proposed_fixes/C16-mean-motion-memo.diff -/
def Memo.readFixed (m : Memo) : R := meanMotionSrc m.mu m.sma
