-- imports: Model.Forms =Model.NodeSpec =Generated.Graphs =Generated.FormTables =Generated.SVTables
/-!
State machine of one `StateVector` / `Orbit` object (beyond/orbits/statevector.py) as far as property C01 is
concerned: the state is the six numbers, the form, the frame (an identifier) with the `mu` of the body of its
centre, and the slot `_data["infos"]` holding the `Infos` helper with its memoised keplerian / spherical views.

Operations = what a caller can do to the object in place: element assignment by index / slice / name, in-place
arithmetic on a slice, `sv.form = …`, `sv.frame = …`, `sv.copy(frame=…, form=…)` (continuing on the copy) and the
read access `sv.infos.*`.

Tied to the source on every run (harness/props/C01.py `sv_tables`):
* the ORDER of the effects inside the `form` and `frame` setters and inside `copy` is read from the AST
  (`Generated.formSetterSteps`, `Generated.frameSetterSteps`, `Generated.copySteps`) and *interpreted* here,
* the key under which the `infos` property looks for an existing helper and the key under which it stores the helper
  (`Generated.infosGuardKey`, `Generated.infosStoreKey`): the stored helper is found again iff the two are equal,
* routing of a conversion = `Node.path` (C20's model) on the regenerated forms graph; names, aliases and accepted
  form names = the regenerated tables of Generated/FormTables.lean,
* `Infos.kep / sphe / mu / r`, `Form.__call__`, `Frame.transform` (its form handling) are checked to have exactly the
  modelled shape.
-/
namespace SV

/-- the `Infos` helper: its memoised views `_kep` (keplerian) and `_sphe` (spherical) of the object it is bound to -/
structure Handle where
  kep : Option (List R)
  sphe : Option (List R)

structure St where
  /-- the six numbers (the ndarray buffer) -/
  c : List R
  /-- `_data["form"].name` -/
  form : String
  /-- `_data["frame"]` (identifier) -/
  frame : Nat
  /-- `frame.center.body.mu` -/
  mu : R
  /-- `_data[infosStoreKey]` -/
  slot : Option Handle

/-- an affine map of the cartesian state: `m @ x + offset` of `Frame.transform` (6×6 matrix by rows, offset) -/
structure Affine where
  m : List (List R)
  off : List R

inductive Op where
  /-- `sv[i] = v` -/
  | setIdx (i : Nat) (v : R)
  /-- `sv.<name> = v` / `sv["<name>"] = v` (aliases of `Form.alt` included) -/
  | setName (name : String) (v : R)
  /-- `sv[lo:hi] *= k` -/
  | mulSlice (lo hi : Nat) (k : R)
  /-- `sv[lo:hi] += k` -/
  | addSlice (lo hi : Nat) (k : R)
  /-- `sv[lo:lo+len] = vs` -/
  | setSlice (lo : Nat) (vs : List R)
  /-- `sv.form = name` -/
  | setForm (name : String)
  /-- `sv.frame = f` where `f` has identifier `id`, its centre's body has `mu`, and `A` is the map from the CURRENT
  frame of the object to `f` at the object's date -/
  | setFrame (id : Nat) (mu : R) (A : Affine)
  /-- `sv = sv.copy(frame=f, form=name)` (history continues on the copy); `none` = argument not given -/
  | copyTo (fr : Option (Nat × R × Affine)) (form : Option String)
  /-- read `sv.infos.<every quantity>` -/
  | infos

inductive Out where
  /-- returned normally, nothing to report -/
  | done
  /-- `AttributeError` / `KeyError`: the name belongs to another form -/
  | attrError
  /-- `UnknownFormError` -/
  | unknownForm
  /-- `[r, energy, n, period, apocenter, pericenter, v, va, vp, vinf, dinf, cos_fpa, sin_fpa, fpa]` -/
  | infos (xs : List R)

/-! ### routing and conversion (`Form.__call__`) -/

def nameOf (i : Nat) : String := Generated.formsNames.getD i ""

def edgeName (p : Nat × Nat) : String := nameOf p.1 ++ "_to_" ++ nameOf p.2

def formIdx (n : String) : Option Nat :=
  let i := Generated.formsNames.findIdx (· == n)
  if i < Generated.formsNames.length then some i else none

/-- `self.steps(new_form)` as pairs of node indices: `Node.path` on the graph built from the regenerated history -/
def routePairs (src dst : String) : Option (List (Nat × Nat)) :=
  match formIdx src, formIdx dst, Node.build (Generated.formsN + 2) Generated.formsHist with
  | some s, some t, some g =>
    match Node.path (Generated.formsN + 2) g s t with
    | .ok p => some (Node.steps p)
    | _ => none
  | _, _, _ => none

/-- the method names `_a_to_b` (without the underscore) applied by `Form.__call__`; none at all when the form is
already the requested one (`if new_form != orbit.form.name`) -/
def routeNames (src dst : String) : Option (List String) :=
  if dst = src then some [] else (routePairs src dst).map (fun ps => ps.map edgeName)

/-- `form(orbit, new_form)` with `mu = orbit.frame.center.body.mu` -/
def convert (fuel : Nat) (mu : R) (src dst : String) (c : List R) : Option (List R) :=
  (routeNames src dst).bind (fun ns => walk fuel mu ns c)

/-! ### the `form` setter: its effects in the order found in the source -/

def formStep (fuel : Nat) (target : String) (s : St) (step : String) : Option St :=
  if step = "convert" then
    -- `self.view(np.ndarray)[:] = self._data["form"](self, new_form)`
    (convert fuel s.mu s.form target s.c).map (fun c' => { s with c := c' })
  else if step = "commit" then
    -- `self._data["form"] = new_form`
    some { s with form := target }
  else none

def runSteps {σ : Type} (f : σ → String → Option σ) : List String → σ → Option σ
  | [], s => some s
  | x :: xs, s => (f s x).bind (runSteps f xs)

/-- `sv.form = target` (`target` already canonical) -/
def setFormSt (fuel : Nat) (s : St) (target : String) : Option St :=
  runSteps (formStep fuel target) Generated.formSetterSteps s

/-! ### the `frame` setter -/

def dot (r x : List R) : R := (List.zipWith (· * ·) r x).foldl (· + ·) 0

def Affine.apply (A : Affine) (x : List R) : List R :=
  List.zipWith (· + ·) (A.m.map (fun r => dot r x)) A.off

/-- `self.frame.transform(self, new_frame)`: cartesian copy, `m @ x + offset`, back to the form of `self` — all with
the frame (hence the `mu`) the object carries at that moment; the identity map when that frame is the target -/
def transformSt (fuel : Nat) (s : St) (id : Nat) (A : Affine) : Option (List R) :=
  (convert fuel s.mu s.form "cartesian" s.c).bind (fun x =>
    convert fuel s.mu "cartesian" s.form (if id = s.frame then x else A.apply x))

/-- local state of the setter: the object, `old_form`, and `new_coord` once computed -/
structure FrameLocal where
  s : St
  oldForm : String
  newCoord : Option (List R)

def frameStep (fuel : Nat) (id : Nat) (mu : R) (A : Affine) (l : FrameLocal) (step : String) : Option FrameLocal :=
  if step = "toCart" then
    -- `self.form = "cartesian"`
    (setFormSt fuel l.s "cartesian").map (fun s' => { l with s := s' })
  else if step = "transform" then
    -- `new_coord = self.frame.transform(self, new_frame)`
    (transformSt fuel l.s id A).map (fun x => { l with newCoord := some x })
  else if step = "store" then
    -- `self.view(np.ndarray)[:] = new_coord`
    l.newCoord.map (fun x => { l with s := { l.s with c := x } })
  else if step = "commit" then
    -- `self._data["frame"] = new_frame`
    some { l with s := { l.s with frame := id, mu := mu } }
  else if step = "restore" then
    -- `self.form = old_form`
    (setFormSt fuel l.s l.oldForm).map (fun s' => { l with s := s' })
  else none

/-- `sv.frame = f`.  The covariance tail of the setter (`if self.cov is not None and self.cov.frame == old_frame: …`, with
its branch that puts coordinates and frame back when the covariance cannot follow) is unreachable for this machine: its
objects carry no covariance (`St` has no such field); the extractor checks the guard and refuses an unknown tail. -/
def setFrameSt (fuel : Nat) (s : St) (id : Nat) (mu : R) (A : Affine) : Option St :=
  if id = s.frame then some s   -- `if new_frame != self.frame`
  else (runSteps (frameStep fuel id mu A) Generated.frameSetterSteps ⟨s, s.form, none⟩).map (·.s)

/-! ### element access by name -/

/-- `Form.alt.get(name, name)` -/
def canonParam (name : String) : String := (Generated.formsAlt.lookup name).getD name

def paramIdx (form name : String) : Option Nat :=
  match Generated.formsParamNames.lookup form with
  | some ps =>
    let i := ps.findIdx (· == canonParam name)
    if i < ps.length then some i else none
  | none => none

/-- `name in _cache_param_names` -/
def isParam (name : String) : Bool := Generated.formsParamNames.any (fun p => p.2.contains (canonParam name))

def setAt (c : List R) (i : Nat) (v : R) : List R := if i < c.length then c.set i v else c

def mapSlice (c : List R) (lo hi : Nat) (f : R → R) : List R :=
  (List.zip (List.range c.length) c).map (fun p => if lo ≤ p.1 ∧ p.1 < hi then f p.2 else p.2)

def setSliceAt (c : List R) (lo : Nat) (vs : List R) : List R :=
  (List.zip (List.range c.length) c).map (fun p => if lo ≤ p.1 ∧ p.1 < lo + vs.length then vs.getD (p.1 - lo) p.2 else p.2)

/-! ### `sv.infos` -/

/-- does the `infos` property find the helper it stored on an earlier access? (it looks under `infosGuardKey`,
it stores under `infosStoreKey`) -/
def slotVisible : Bool := Generated.infosGuardKey == Generated.infosStoreKey

/-- the `infos` property: the helper to use, and the object with the helper stored -/
def accessInfos (s : St) : St × Handle :=
  match (if slotVisible then s.slot else none) with
  | some h => (s, h)
  | none => ({ s with slot := some ⟨none, none⟩ }, ⟨none, none⟩)

/-- every quantity of the helper `h` bound to the object `s`: `kep` / `sphe` are memoised in the helper, `mu` is read
from the object's frame each time -/
def infosVia (fuel : Nat) (s : St) (h : Handle) : Option (Handle × List R) :=
  let kep := match h.kep with
    | some k => some k
    | none => convert fuel s.mu s.form "keplerian" s.c
  let sphe := match h.sphe with
    | some k => some k
    | none => convert fuel s.mu s.form "spherical" s.c
  match kep, sphe with
  | some [a, e, i, Ω, ω, nu], some (r :: rest) =>
    some (⟨some [a, e, i, Ω, ω, nu], some (r :: rest)⟩, r :: infosAll s.mu r a e nu)
  | _, _ => none

/-- `sv.infos.<all quantities>` -/
def readInfos (fuel : Nat) (s : St) : Option (St × List R) :=
  let (s1, h) := accessInfos s
  (infosVia fuel s1 h).map (fun (h', xs) => ({ s1 with slot := some h' }, xs))

/-- what a freshly constructed object with these six numbers, form and `mu` reports -/
def infosPure (fuel : Nat) (c : List R) (form : String) (mu : R) : Option (List R) :=
  match convert fuel mu form "keplerian" c, convert fuel mu form "spherical" c with
  | some [a, e, _, _, _, nu], some (r :: _) => some (r :: infosAll mu r a e nu)
  | _, _ => none

/-! ### `copy(frame=…, form=…)` -/

/-- `get_form(name)`: `_cache[name.lower()]` -/
def canonForm (name : String) : Option String := Generated.formsCache.lookup name.toLower

def copyStep (fuel : Nat) (fr : Option (Nat × R × Affine)) (form : Option String) (s : St) (step : String) : Option (St × Out) :=
  if step = "frame" then
    match fr with
    | some (id, mu, A) => (setFrameSt fuel s id mu A).map (fun s' => (s', Out.done))
    | none => some (s, Out.done)
  else if step = "form" then
    match form with
    | some n =>
      match canonForm n with
      | some t => if t = s.form then some (s, Out.done) else (setFormSt fuel s t).map (fun s' => (s', Out.done))
      | none => some (s, Out.unknownForm)
    | none => some (s, Out.done)
  else none

def runCopy (fuel : Nat) (fr : Option (Nat × R × Affine)) (form : Option String) : List String → St → Option (St × Out)
  | [], s => some (s, Out.done)
  | x :: xs, s =>
    match copyStep fuel fr form s x with
    | some (s', Out.done) => runCopy fuel fr form xs s'
    | r => r

/-! ### one operation, a history -/

def applyOp (fuel : Nat) (s : St) : Op → Option (St × Out)
  | .setIdx i v => some ({ s with c := setAt s.c i v }, Out.done)
  | .setName name v =>
    match paramIdx s.form name with
    | some i => some ({ s with c := setAt s.c i v }, Out.done)
    | none => some (s, if isParam name then Out.attrError else Out.done)
  | .mulSlice lo hi k => some ({ s with c := mapSlice s.c lo hi (· * k) }, Out.done)
  | .addSlice lo hi k => some ({ s with c := mapSlice s.c lo hi (· + k) }, Out.done)
  | .setSlice lo vs => some ({ s with c := setSliceAt s.c lo vs }, Out.done)
  | .setForm name =>
    match canonForm name with
    | some t => (setFormSt fuel s t).map (fun s' => (s', Out.done))
    | none => some (s, Out.unknownForm)
  | .setFrame id mu A => (setFrameSt fuel s id mu A).map (fun s' => (s', Out.done))
  | .copyTo fr form => runCopy fuel fr form Generated.copySteps s
  | .infos => (readInfos fuel s).map (fun (s', xs) => (s', Out.infos xs))

/-- a history of operations: final state and the list of (state after the operation, what it reported) -/
def run (fuel : Nat) : List Op → St → Option (St × List (List R × Out))
  | [], s => some (s, [])
  | op :: ops, s =>
    (applyOp fuel s op).bind (fun (s1, o) =>
      (run fuel ops s1).map (fun (s2, outs) => (s2, (s1.c, o) :: outs)))

def Op.isRead : Op → Bool
  | .infos => true
  | _ => false

end SV
