-- imports: =Model.NodeSpec
/-!
Model of beyond/env/jpl.py (`create_frames`, `JplPropagator.propagate`, `get_orbit`) together with
`Center.convert_to` (beyond/frames/center.py) and `Frame.transform` (beyond/frames/frames.py) between
frames created from an SPK kernel.

* Bodies are NAIF integer codes (the Python code keys everything by the title-cased `target_names`
  entry; distinct codes are assumed to have distinct names).
* The kernel is `Bsp().pairs`: the list of `(center, target)` keys in dict order.
* The values of the segments (`segment.compute_and_differentiate(date.jd)` of jplephem, km and km/day at
  the TDB Julian date) are a parameter `seg : center → target → V6`.
* All these frames share the orientation of EME2000, so `orientation.convert_to` is the identity
  (`np.identity(6)`) and does not appear.
* Routing between centres is the model of `Node` (`Model/Node.lean`), the same one C20 is about.
-/
namespace Jpl
open BeyondVerif.Node

abbrev V6 := Fin 6 → R
def vzero : V6 := fun _ => (0 : R)
def vadd (a b : V6) : V6 := fun i => a i + b i
def vneg (a : V6) : V6 := fun i => - a i

/-- `Bsp().pairs` keys: (center, target) in dict order -/
abbrev Pairs := List (Nat × Nat)

inductive Res where
  | ok (v : V6)
  | unknownBody      -- UnknownBodyError: no propagator of that name
  | unknownFrame     -- UnknownFrameError: no frame of that name
  | noRoute          -- ValueError("Unknown ...") from Node.path
  | keyError         -- KeyError (missing segment / broken routing table)
  | noProvider       -- ValueError("Unknown transformation a <-> b")
  | fuel             -- the model ran out of fuel (Python would not terminate)

/-- unit handling of `JplPropagator.propagate` for a length-3 position:
`pv = np.concatenate((pos, vel / S_PER_DAY))` then `sign * pv * 1000` -/
def toSI (sign : R) (raw : V6) : V6 :=
  fun i => if i.val < 3 then sign * raw i * 1000 else sign * (raw i / 86400) * 1000

/-- `JplPropagator.propagate` of body `obj` whose propagator was created with the frame centred on `cen`:
the segment stored the other way round is negated, the direct one is used as it is -/
def propagate (ps : Pairs) (seg : Nat → Nat → V6) (obj cen : Nat) : Res :=
  if ps.contains (obj, cen) then .ok (toSI (-1) (seg obj cen))
  else if ps.contains (cen, obj) then .ok (toSI 1 (seg cen obj))
  else .keyError

/-- `_propagator_cache[target.name]` is filled only at the first pair that has `t` as target,
with the frame of that pair's centre -/
def propCenter (ps : Pairs) (t : Nat) : Option Nat :=
  (ps.find? (fun p => p.2 = t)).map (·.1)

/-- the cached propagator of `t`, called -/
def provide (ps : Pairs) (seg : Nat → Nat → V6) (t : Nat) : Res :=
  match propCenter ps t with
  | none => .keyError
  | some c => propagate ps seg t c

def negRes : Res → Res
  | .ok v => .ok (vneg v)
  | e => e

/-- one step of `Center.convert_to`: the class attribute `<a>_to_<b>` exists iff the pair (b, a) was
processed by `create_frames` (it is the bound `_to_parent` of the centre of `a`, whose offset is the cached
propagator of `a`); otherwise the reverse attribute `<b>_to_<a>` is used with a minus sign -/
def stepOffset (ps : Pairs) (seg : Nat → Nat → V6) (a b : Nat) : Res :=
  if ps.contains (b, a) then provide ps seg a
  else if ps.contains (a, b) then negRes (provide ps seg b)
  else .noProvider

/-- the loop of `Center.convert_to`: `out = zeros(6)`, `out += offset` along `Node.steps` -/
def sumSteps (ps : Pairs) (seg : Nat → Nat → V6) : V6 → List Nat → Res
  | acc, a :: b :: rest =>
    match stepOffset ps seg a b with
    | .ok o => sumSteps ps seg (vadd acc o) (b :: rest)
    | e => e
  | acc, _ => .ok acc

/-- `create_frames`: every pair executes `target.node + center.node` -/
def linkHist (ps : Pairs) : List (Nat × Nat) := ps.map (fun p => (p.2, p.1))

/-- `a.center.convert_to(date, b.center, orientation)`: offset of centre `a` relative to centre `b` -/
def centerTo (fuel : Nat) (ps : Pairs) (seg : Nat → Nat → V6) (a b : Nat) : Res :=
  match build fuel (linkHist ps) with
  | none => .fuel
  | some g =>
    match path fuel g a b with
    | .ok p => sumSteps ps seg vzero p
    | .unknown => .noRoute
    | .keyError => .keyError
    | .loop => .fuel

/-- a frame exists for every body that occurs in some pair -/
def hasFrame (ps : Pairs) (x : Nat) : Bool := ps.any (fun p => p.1 == x || p.2 == x)

/-- a state vector `x` given in the frame of body `a`, `.copy(frame=b)`:
`Frame.transform` = identity rotation, plus the offset of centre a relative to centre b
(nothing happens when the frame is unchanged) -/
def reframe (fuel : Nat) (ps : Pairs) (seg : Nat → Nat → V6) (a b : Nat) (x : V6) : Res :=
  if !hasFrame ps a || !hasFrame ps b then .unknownFrame
  else if a = b then .ok x
  else match centerTo fuel ps seg a b with
    | .ok off => .ok (vadd x off)
    | e => e

/-- the zero state vector of the frame of `a` seen from the frame of `b`: body a relative to body b -/
def offsetIn (fuel : Nat) (ps : Pairs) (seg : Nat → Nat → V6) (a b : Nat) : Res :=
  reframe fuel ps seg a b vzero

/-- `jpl.get_orbit(a, date).copy(frame=b)` -/
def orbitIn (fuel : Nat) (ps : Pairs) (seg : Nat → Nat → V6) (a b : Nat) : Res :=
  match propCenter ps a with
  | none => .unknownBody
  | some c =>
    match propagate ps seg a c with
    | .ok x0 => reframe fuel ps seg c b x0
    | e => e

/-! ## Frames attached to an orbit (`Orbit.as_frame` / `orbit2frame`) -/

/-- `orbit2frame(x, ref_orbit)` for an orbit that a `JplPropagator(obj, frame of cen)` returned:
`Center(x).add_link(ref_orbit.frame.center, ref_orbit.frame.orientation, ref_orbit)`.
The new centre `x` hangs below `link`, the centre of the frame the orbit is expressed in when `as_frame` is
called (`cen` as long as the orbit was not re-framed) and remembers that frame (`offset_frame`); its offset is
`ref_orbit.propagate(date)`, i.e. the propagator of the orbit called again — body `obj` relative to `cen` — expressed in
the remembered frame. -/
structure Att where
  x : Nat
  link : Nat
  obj : Nat
  cen : Nat

/-- the class attribute `<u>_to_<v>` set by `add_link` of an attached centre -/
def attFind (att : List Att) (u v : Nat) : Option Att :=
  att.find? (fun t => t.x == u && t.link == v)

/-- `create_frames` followed by the `add_link` of every attached centre, in order of creation -/
def linkHistA (ps : Pairs) (att : List Att) : List (Nat × Nat) := linkHist ps ++ att.map (fun t => (t.x, t.link))

/-- the loop of `Center.convert_to`, the offset of one step being given as a function -/
def sumWith (stepf : Nat → Nat → Res) : V6 → List Nat → Res
  | acc, a :: b :: rest =>
    match stepf a b with
    | .ok o => sumWith stepf (vadd acc o) (b :: rest)
    | e => e
  | acc, _ => .ok acc

/-- `Center.convert_to` over the graph of kernel links and attached centres, with a given step function -/
def centerWith (fuel : Nat) (ps : Pairs) (att : List Att) (stepf : Nat → Nat → Res) (a b : Nat) : Res :=
  match build fuel (linkHistA ps att) with
  | none => .fuel
  | some g =>
    match path fuel g a b with
    | .ok p => sumWith stepf vzero p
    | .unknown => .noRoute
    | .keyError => .keyError
    | .loop => .fuel

/-- `Center._to_parent` of an attached centre: `res = ref_orbit.propagate(date)` — `obj` relative to `cen`, in the
frame of the propagator — then `res.copy(form="cartesian", frame=self.offset_frame)`: expressed in the frame of the
link, which is a frame conversion of its own (`convert`) unless the two frames coincide -/
def attOffset (ps : Pairs) (seg : Nat → Nat → V6) (convert : Nat → Nat → Res) (t : Att) : Res :=
  match propagate ps seg t.obj t.cen with
  | .ok v =>
    if t.cen = t.link then .ok v
    else match convert t.cen t.link with
      | .ok off => .ok (vadd v off)
      | e => e
  | e => e

/-- one step of `Center.convert_to` when attached frames exist: `hasattr(self, direct)` first (a kernel link or
an attached centre), then the reverse attribute with a minus sign.  The offset of an attached centre may itself need a
frame conversion, through frames that existed before it: `d` bounds that nesting (the Python recursion ends because
every centre only hangs below older ones). -/
def stepOffsetD (fuel : Nat) (ps : Pairs) (att : List Att) (seg : Nat → Nat → V6) : Nat → Nat → Nat → Res
  | 0, _, _ => .fuel
  | d + 1, a, b =>
    if ps.contains (b, a) then provide ps seg a
    else match attFind att a b with
      | some t => attOffset ps seg (centerWith fuel ps att (stepOffsetD fuel ps att seg d)) t
      | none =>
        if ps.contains (a, b) then negRes (provide ps seg b)
        else match attFind att b a with
          | some t => negRes (attOffset ps seg (centerWith fuel ps att (stepOffsetD fuel ps att seg d)) t)
          | none => .noProvider

def stepOffsetA (fuel : Nat) (ps : Pairs) (att : List Att) (seg : Nat → Nat → V6) (a b : Nat) : Res :=
  stepOffsetD fuel ps att seg (att.length + 1) a b

def centerToA (fuel : Nat) (ps : Pairs) (att : List Att) (seg : Nat → Nat → V6) (a b : Nat) : Res :=
  centerWith fuel ps att (stepOffsetA fuel ps att seg) a b

def hasFrameA (ps : Pairs) (att : List Att) (x : Nat) : Bool := hasFrame ps x || att.any (fun t => t.x == x)

/-- `Frame.transform` between two frames (kernel bodies or attached ones) that share the EME2000 orientation -/
def reframeA (fuel : Nat) (ps : Pairs) (att : List Att) (seg : Nat → Nat → V6) (a b : Nat) (x : V6) : Res :=
  if !hasFrameA ps att a || !hasFrameA ps att b then .unknownFrame
  else if a = b then .ok x
  else match centerToA fuel ps att seg a b with
    | .ok off => .ok (vadd x off)
    | e => e

/-! ## Histories: objects handed out to the caller, modified in place, asked again

The code has NO memory between requests: every `propagate` reads the segments again and builds a new object.
The model makes that explicit: a world is the list of objects the caller owns (which he may modify in place) and the
list of frames he created from orbits; requests read the kernel and the attached frames only, never the objects. -/

/-- an `Orbit` owned by the caller: its date (index into the dates of the run), the body its frame is centred on,
its six cartesian values, and the propagator it carries (`obj` relative to `cen`) -/
structure Obj where
  date : Nat
  frame : Nat
  vec : V6
  obj : Nat
  cen : Nat

structure World where
  objs : List Obj
  att : List Att

inductive Op where
  /-- `o = jpl.get_orbit(a, date k)` (also `Body.propagate`, `get_propagator(a).propagate`) -/
  | get (k a : Nat)
  /-- `o = JplPropagator(centre of o, frame of c).propagate(date k)` — either direction of a segment -/
  | hand (k o c : Nat)
  /-- `objs[i].frame = b`, in place -/
  | setFrame (i b : Nat)
  /-- `objs[i][j] = x`, in place -/
  | setVal (i j : Nat) (x : R)
  /-- look at `objs[i]` -/
  | read (i : Nat)
  /-- `o = objs[i].copy(frame=b)` -/
  | copyTo (i b : Nat)
  /-- zero state vector in the frame of a at date k, `.copy(frame=b)` -/
  | offset (k a b : Nat)
  /-- `frame(a).center.convert_to(date k, frame(b).center, orientation)` -/
  | center (k a b : Nat)
  /-- `objs[i].as_frame(x)` -/
  | asFrame (i x : Nat)
  /-- `objs[i].ephem(dates=…).as_frame(x)`: the Ephem holds what the propagator returns, in the propagator's frame,
  whatever frame `objs[i]` is expressed in now; its offset at a node of the Ephem is the propagated state -/
  | asFrameEph (i x : Nat)

def emit (w : World) (k o c : Nat) : Res → World × Res
  | .ok v => ({ w with objs := w.objs ++ [⟨k, c, v, o, c⟩] }, .ok v)
  | e => (w, e)

/-- one request; `none` = an index that does not exist (never sent by the harness). `seg k` are the raw segment
values at date number `k`. -/
def step (fuel : Nat) (ps : Pairs) (seg : Nat → Nat → Nat → V6) (w : World) : Op → Option (World × Res)
  | .get k a =>
    match propCenter ps a with
    | none => some (w, .unknownBody)
    | some c => some (emit w k a c (propagate ps (seg k) a c))
  | .hand k o c => some (emit w k o c (propagate ps (seg k) o c))
  | .setFrame i b =>
    match w.objs[i]? with
    | none => none
    | some o =>
      match reframeA fuel ps w.att (seg o.date) o.frame b o.vec with
      | .ok v => some ({ w with objs := w.objs.set i { o with frame := b, vec := v } }, .ok v)
      | e => some (w, e)
  | .setVal i j x =>
    match w.objs[i]? with
    | none => none
    | some o =>
      let v : V6 := fun m => if m.val = j then x else o.vec m
      some ({ w with objs := w.objs.set i { o with vec := v } }, .ok v)
  | .read i =>
    match w.objs[i]? with
    | none => none
    | some o => some (w, .ok o.vec)
  | .copyTo i b =>
    match w.objs[i]? with
    | none => none
    | some o =>
      match reframeA fuel ps w.att (seg o.date) o.frame b o.vec with
      | .ok v => some ({ w with objs := w.objs ++ [{ o with frame := b, vec := v }] }, .ok v)
      | e => some (w, e)
  | .offset k a b => some (w, reframeA fuel ps w.att (seg k) a b vzero)
  | .center k a b => some (w, centerToA fuel ps w.att (seg k) a b)
  | .asFrame i x =>
    match w.objs[i]? with
    | none => none
    | some o => some ({ w with att := w.att ++ [⟨x, o.frame, o.obj, o.cen⟩] }, .ok o.vec)
  | .asFrameEph i x =>
    match w.objs[i]? with
    | none => none
    | some o => some ({ w with att := w.att ++ [⟨x, o.cen, o.obj, o.cen⟩] }, .ok o.vec)

/-- a whole history: the answers in order -/
def run (fuel : Nat) (ps : Pairs) (seg : Nat → Nat → Nat → V6) : World → List Op → Option (World × List Res)
  | w, [] => some (w, [])
  | w, op :: rest =>
    match step fuel ps seg w op with
    | none => none
    | some (w1, r) =>
      match run fuel ps seg w1 rest with
      | none => none
      | some (w2, rs) => some (w2, r :: rs)

/-- physical constants of a body as `Pck.__getitem__` builds them from the PCK text files
(all zero when no PCK file is configured) -/
structure BodyConst where
  radius : R
  flattening : R
  mass : R

/-- what `create_frames` leaves behind: the links/providers (determined by the pairs) and, on every
`JplCenter`, the `body` built from the PCK files -/
structure Frames where
  pairs : Pairs
  body : Nat → BodyConst

def createFrames (ps : Pairs) (pck : Nat → BodyConst) : Frames := ⟨ps, pck⟩

def Frames.orbitIn (F : Frames) (fuel : Nat) (seg : Nat → Nat → V6) (a b : Nat) : Res :=
  Jpl.orbitIn fuel F.pairs seg a b

def Frames.offsetIn (F : Frames) (fuel : Nat) (seg : Nat → Nat → V6) (a b : Nat) : Res :=
  Jpl.offsetIn fuel F.pairs seg a b

end Jpl
