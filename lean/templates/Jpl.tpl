-- imports: =Model.NodeSpec
/-!
Model of beyond/env/jpl.py (`create_frames`, `JplPropagator.propagate`, `get_orbit`) together with
`Center.convert_to` (beyond/frames/center.py) and `Frame.transform` (beyond/frames/frames.py) between
frames created from an SPK kernel.

* Bodies are NAIF integer codes (the Python code keys everything by the title-cased `target_names`
  entry; distinct codes are assumed to have distinct names).
* The kernel is `Bsp().pairs`: the list of `(center, target)` keys in dict order.
* The values of the segments (`segment.compute_and_differentiate(date.jd)` of jplephem, km and km/day at
  the TDB Julian date) are a parameter `seg : center → target → V6`.
* All these frames share the orientation of EME2000, so `orientation.convert_to` is the identity
  (`np.identity(6)`) and does not appear.
* Routing between centres is the model of `Node` (`Model/Node.lean`), the same one C20 is about.
-/
namespace Jpl
open BeyondVerif.Node

abbrev V6 := Fin 6 → R
def vzero : V6 := fun _ => (0 : R)
def vadd (a b : V6) : V6 := fun i => a i + b i
def vneg (a : V6) : V6 := fun i => - a i

/-- `Bsp().pairs` keys: (center, target) in dict order -/
abbrev Pairs := List (Nat × Nat)

inductive Res where
  | ok (v : V6)
  | unknownBody      -- UnknownBodyError: no propagator of that name
  | unknownFrame     -- UnknownFrameError: no frame of that name
  | noRoute          -- ValueError("Unknown ...") from Node.path
  | keyError         -- KeyError (missing segment / broken routing table)
  | noProvider       -- ValueError("Unknown transformation a <-> b")
  | fuel             -- the model ran out of fuel (Python would not terminate)

/-- unit handling of `JplPropagator.propagate` for a length-3 position:
`pv = np.concatenate((pos, vel / S_PER_DAY))` then `sign * pv * 1000` -/
def toSI (sign : R) (raw : V6) : V6 :=
  fun i => if i.val < 3 then sign * raw i * 1000 else sign * (raw i / 86400) * 1000

/-- `JplPropagator.propagate` of body `obj` whose propagator was created with the frame centred on `cen`:
the segment stored the other way round is negated, the direct one is used as it is -/
def propagate (ps : Pairs) (seg : Nat → Nat → V6) (obj cen : Nat) : Res :=
  if ps.contains (obj, cen) then .ok (toSI (-1) (seg obj cen))
  else if ps.contains (cen, obj) then .ok (toSI 1 (seg cen obj))
  else .keyError

/-- `_propagator_cache[target.name]` is filled only at the first pair that has `t` as target,
with the frame of that pair's centre -/
def propCenter (ps : Pairs) (t : Nat) : Option Nat :=
  (ps.find? (fun p => p.2 = t)).map (·.1)

/-- the cached propagator of `t`, called -/
def provide (ps : Pairs) (seg : Nat → Nat → V6) (t : Nat) : Res :=
  match propCenter ps t with
  | none => .keyError
  | some c => propagate ps seg t c

def negRes : Res → Res
  | .ok v => .ok (vneg v)
  | e => e

/-- one step of `Center.convert_to`: the class attribute `<a>_to_<b>` exists iff the pair (b, a) was
processed by `create_frames` (it is the bound `_to_parent` of the centre of `a`, whose offset is the cached
propagator of `a`); otherwise the reverse attribute `<b>_to_<a>` is used with a minus sign -/
def stepOffset (ps : Pairs) (seg : Nat → Nat → V6) (a b : Nat) : Res :=
  if ps.contains (b, a) then provide ps seg a
  else if ps.contains (a, b) then negRes (provide ps seg b)
  else .noProvider

/-- the loop of `Center.convert_to`: `out = zeros(6)`, `out += offset` along `Node.steps` -/
def sumSteps (ps : Pairs) (seg : Nat → Nat → V6) : V6 → List Nat → Res
  | acc, a :: b :: rest =>
    match stepOffset ps seg a b with
    | .ok o => sumSteps ps seg (vadd acc o) (b :: rest)
    | e => e
  | acc, _ => .ok acc

/-- `create_frames`: every pair executes `target.node + center.node` -/
def linkHist (ps : Pairs) : List (Nat × Nat) := ps.map (fun p => (p.2, p.1))

/-- `a.center.convert_to(date, b.center, orientation)`: offset of centre `a` relative to centre `b` -/
def centerTo (fuel : Nat) (ps : Pairs) (seg : Nat → Nat → V6) (a b : Nat) : Res :=
  match build fuel (linkHist ps) with
  | none => .fuel
  | some g =>
    match path fuel g a b with
    | .ok p => sumSteps ps seg vzero p
    | .unknown => .noRoute
    | .keyError => .keyError
    | .loop => .fuel

/-- a frame exists for every body that occurs in some pair -/
def hasFrame (ps : Pairs) (x : Nat) : Bool := ps.any (fun p => p.1 == x || p.2 == x)

/-- a state vector `x` given in the frame of body `a`, `.copy(frame=b)`:
`Frame.transform` = identity rotation, plus the offset of centre a relative to centre b
(nothing happens when the frame is unchanged) -/
def reframe (fuel : Nat) (ps : Pairs) (seg : Nat → Nat → V6) (a b : Nat) (x : V6) : Res :=
  if !hasFrame ps a || !hasFrame ps b then .unknownFrame
  else if a = b then .ok x
  else match centerTo fuel ps seg a b with
    | .ok off => .ok (vadd x off)
    | e => e

/-- the zero state vector of the frame of `a` seen from the frame of `b`: body a relative to body b -/
def offsetIn (fuel : Nat) (ps : Pairs) (seg : Nat → Nat → V6) (a b : Nat) : Res :=
  reframe fuel ps seg a b vzero

/-- `jpl.get_orbit(a, date).copy(frame=b)` -/
def orbitIn (fuel : Nat) (ps : Pairs) (seg : Nat → Nat → V6) (a b : Nat) : Res :=
  match propCenter ps a with
  | none => .unknownBody
  | some c =>
    match propagate ps seg a c with
    | .ok x0 => reframe fuel ps seg c b x0
    | e => e

/-- physical constants of a body as `Pck.__getitem__` builds them from the PCK text files
(all zero when no PCK file is configured) -/
structure BodyConst where
  radius : R
  flattening : R
  mass : R

/-- what `create_frames` leaves behind: the links/providers (determined by the pairs) and, on every
`JplCenter`, the `body` built from the PCK files -/
structure Frames where
  pairs : Pairs
  body : Nat → BodyConst

def createFrames (ps : Pairs) (pck : Nat → BodyConst) : Frames := ⟨ps, pck⟩

def Frames.orbitIn (F : Frames) (fuel : Nat) (seg : Nat → Nat → V6) (a b : Nat) : Res :=
  Jpl.orbitIn fuel F.pairs seg a b

def Frames.offsetIn (F : Frames) (fuel : Nat) (seg : Nat → Nat → V6) (a b : Nat) : Res :=
  Jpl.offsetIn fuel F.pairs seg a b

end Jpl
