-- imports: Generated.StationGeo
/-!
Model of the ground-station geometry of beyond (frames/stations.py, frames/orient.py,
frames/center.py, frames/frames.py `Frame.transform`, utils/matrix.py `expand`, utils/measures.py)
on top of the formulas translated from the source (Generated/StationGeo*.lean):
`geodeticToCartesian`, `rot2`, `rot3`, `topoM`, `sphericalOf`, `measRange …`, `earthR/F/E`.

Hand-written here (tied to the code by the correspondence run): how `Frame.transform` combines
them, the scan loop of `get_mask`, and `expand`.
-/

/-- entry (i, j) of a matrix given as a list of rows -/
def mAt (m : List (List R)) (i j : Nat) : R := (m.getD i []).getD j 0

/-- `m @ v` for a 3x3 matrix and a 3-vector -/
def mulVec3 (m : List (List R)) (v : List R) : List R :=
  [0, 1, 2].map (fun i => mAt m i 0 * v.getD 0 0 + mAt m i 1 * v.getD 1 0 + mAt m i 2 * v.getD 2 0)

/-- `mᵀ @ v` -/
def mulVecT3 (m : List (List R)) (v : List R) : List R :=
  [0, 1, 2].map (fun j => mAt m 0 j * v.getD 0 0 + mAt m 1 j * v.getD 1 0 + mAt m 2 j * v.getD 2 0)

def sub3 (a b : List R) : List R := [a.getD 0 0 - b.getD 0 0, a.getD 1 0 - b.getD 1 0, a.getD 2 0 - b.getD 2 0]
def add3 (a b : List R) : List R := [a.getD 0 0 + b.getD 0 0, a.getD 1 0 + b.getD 1 0, a.getD 2 0 + b.getD 2 0]

/-- `create_station`: the centre of the station frame is linked to the Earth's centre with the offset
`_geodetic_to_cartesian(lat, lon, alt)` expressed in the parent (ITRF) orientation -/
def stationPos (lat lon alt : R) : List R := geodeticToCartesian lat lon alt

/-- `create_station(name, (lat_deg, lon_deg, alt))`: latitude and longitude are converted by `stationRadians` (translated from the
source), the altitude is used as given; result: the offset of the centre link, the orientation matrix, the stored `latlonalt` -/
def createStation (latd lond alt : R) : List R × List (List R) × List R :=
  let lat := stationRadians latd
  let lon := stationRadians lond
  (stationPos lat lon alt, topoM lat lon, [lat, lon, alt])

/-- `Frame.transform` from the parent (Earth-fixed) frame to the station frame, cartesian state
`[x, y, z, vx, vy, vz]`: `m @ orb + offset` with `m = inv(expand(_m))` (block diagonal, no rate; the inverse of
the rotation is its transpose) and `offset = -(m @ [station position, 0, 0, 0])`. -/
def toStation (lat lon alt : R) (st : List R) : List R :=
  let m := topoM lat lon
  let p := mulVecT3 m (st.take 3)
  let v := mulVecT3 m (st.drop 3)
  let o := mulVecT3 m (stationPos lat lon alt)
  sub3 p o ++ v

/-- `Frame.transform` from the station frame to its parent: `expand(_m) @ orb + [station position, 0, 0, 0]` -/
def fromStation (lat lon alt : R) (st : List R) : List R :=
  let m := topoM lat lon
  add3 (mulVec3 m (st.take 3)) (stationPos lat lon alt) ++ mulVec3 m (st.drop 3)

/-- `Frame.transform` from the frame of station A to the frame of station B (cartesian state given in A's frame), both stations
created under the same Earth-fixed parent: `m @ orb + offset` where `m = Orientation.convert_to` walks the orientation graph
A -> parent -> B (`inv(expand(_m_B)) @ expand(_m_A)`, the inverse of a rotation being its transpose) and `offset = Center.convert_to`
walks the centre graph A -> Earth -> B, every link offset being turned into B's orientation
(`A_to_Earth` gives `m_Bᵀ s_A`, `B_to_Earth` taken backwards gives `-(m_Bᵀ s_B)`); stations are at rest: no velocity offset. -/
def stationToStation (latA lonA altA latB lonB altB : R) (st : List R) : List R :=
  let mA := topoM latA lonA
  let mB := topoM latB lonB
  let p := mulVecT3 mB (mulVec3 mA (st.take 3))
  let v := mulVecT3 mB (mulVec3 mA (st.drop 3))
  let oA := mulVecT3 mB (stationPos latA lonA altA)
  let oB := mulVecT3 mB (stationPos latB lonB altB)
  add3 p (sub3 oA oB) ++ v

/-- `np.linalg.norm` of a 3-vector -/
def norm3 (x y z : R) : R := sqrt (x * x + y * y + z * z)

/-- `cartesian -> spherical` applied to a cartesian state -/
def toSpherical (c : List R) : List R :=
  let x := c.getD 0 0
  let y := c.getD 1 0
  let z := c.getD 2 0
  sphericalOf x y z (c.getD 3 0) (c.getD 4 0) (c.getD 5 0) (norm3 x y z)

/-- `orb.copy(frame=station, form="spherical")` for an orbit given in the Earth-fixed parent frame:
`[r, θ, φ, ṙ, θ̇, φ̇]` -/
def stationSpherical (lat lon alt : R) (st : List R) : List R :=
  toSpherical (toStation lat lon alt st)

/-- the four station measures (`kind`: 0 Range, 1 Azimut, 2 Elevation, 3 Doppler); `npath = len(path)` -/
def stationMeasure (kind : Nat) (npath : R) (lat lon alt : R) (st : List R) : R :=
  let s := stationSpherical lat lon alt st
  let r := s.getD 0 0
  let th := s.getD 1 0
  let ph := s.getD 2 0
  let rd := s.getD 3 0
  match kind with
  | 0 => measRange r th ph rd npath
  | 1 => measAzimut r th ph rd npath
  | 2 => measElevation r th ph rd npath
  | _ => measDoppler r th ph rd npath

/-- `expand(m, rate) @ [r, v]` (utils/matrix.py): position `m r`, velocity `m v - R m r`
where `R = [[0, -ρ₂, ρ₁], [ρ₂, 0, -ρ₀], [-ρ₁, ρ₀, 0]]` is the cross-product matrix of `rate` -/
def expandApply (m : List (List R)) (rate : List R) (st : List R) : List R :=
  let p := mulVec3 m (st.take 3)
  let v := mulVec3 m (st.drop 3)
  let r0 := rate.getD 0 0
  let r1 := rate.getD 1 0
  let r2 := rate.getD 2 0
  let px := p.getD 0 0
  let py := p.getD 1 0
  let pz := p.getD 2 0
  p ++ [v.getD 0 0 - (-(r2 * py) + r1 * pz), v.getD 1 0 - (r2 * px - r0 * pz), v.getD 2 0 - (-(r1 * px) + r0 * py)]

/-! ## `get_mask`

The formulas — `maskReduce` (`azim %= 2 * np.pi`), `maskStops` (the test that ends the scan), `maskWrapX0`, `maskInterp` (the returned
expression) — are translated from the source on every run (Generated/StationGeo*.lean); the control flow around them is written
here, statement for statement (the extraction refuses a `get_mask` whose statements have another shape). -/

/-- `if azim in self.mask[0, :]: return self.mask[1, np.where(azim == self.mask[0, :])[0][0]]`:
the elevation of the first table entry whose azimuth equals `az` (float equality written `≤ ∧ ≥`) -/
def maskHit (az : R) : List (R × R) → Option R
  | [] => none
  | p :: rest => if az ≤ p.1 ∧ p.1 ≤ az then some p.2 else maskHit az rest

/-- the `for next_i, mask_azim in enumerate(...)` loop: stops at the first entry for which `maskStops mask_azim azim` (`mask_azim > azim`);
returns that entry together with the entry before it (`none` when it stopped at index 0);
`none` when the loop ran to its end (the `else: next_i = 0` branch) -/
def maskScan (az : R) : Option (R × R) → List (R × R) → Option (Option (R × R) × (R × R))
  | _, [] => none
  | prev, p :: rest => if maskStops p.1 az then some (prev, p) else maskScan az (some p) rest

/-- `TopocentricFrame.get_mask(azim)` for the table `tbl = [(azimuth, elevation), …]` (the columns of
`self.mask`).  `none` = the code raises (empty table: indexing fails). -/
def getMask (tbl : List (R × R)) (azim : R) : Option R :=
  match tbl with
  | [] => none
  | first :: rest =>
    let az := maskReduce azim
    match maskHit az tbl with
    | some y => some y
    | none =>
      let last := (first :: rest).getLast (List.cons_ne_nil first rest)
      -- (entry next_i - 1, entry next_i); index -1 is the last entry and then `x0 = maskWrapX0`
      let sel : Option (R × R) × (R × R) := (maskScan az none tbl).getD (none, first)
      let p0 : R × R := match sel.1 with
        | some q => q
        | none => (maskWrapX0, last.2)
      let p1 := sel.2
      some (maskInterp p0.1 p0.2 p1.1 p1.2 az)

/-! ## the life of `station.mask`: given at construction, assigned, modified in place, read

`self.mask` is a plain attribute (checked on the source by the extraction): written by `TopocentricFrame.__init__`
(`initMask`, translated from the source) and by the caller, read by `get_mask` only, which keeps nothing between two calls. -/

/-- what a caller does with a station after its creation -/
inductive MaskOp where
  /-- `station.mask = np.array([[az…], [el…]])` -/
  | assign (tbl : List (R × R))
  /-- `station.mask = None` -/
  | clear
  /-- `station.mask[:, i] = (az, el)` — in place -/
  | poke (i : Nat) (p : R × R)
  /-- `station.get_mask(azim)` -/
  | query (azim : R)

inductive MaskReply where
  | done
  | value (v : R)
  /-- `IndexError` -/
  | indexError
  /-- `ValueError("No mask defined …")` -/
  | noMask
  /-- `TypeError` (item assignment on `None`) -/
  | typeError

/-- `get_mask(azim)` on what `self.mask` currently holds -/
def storeGet : MaskStore → R → MaskReply
  | .none, _ => .noMask
  | .junk, _ => .indexError
  | .table tbl, azim =>
    match getMask tbl azim with
    | some v => .value v
    | none => .indexError

def maskStep (s : MaskStore) : MaskOp → MaskStore × MaskReply
  | .assign tbl => (.table tbl, .done)
  | .clear => (.none, .done)
  | .poke i p =>
    match s with
    | .table tbl => if i < tbl.length then (.table (tbl.set i p), .done) else (s, .indexError)
    | .none => (s, .typeError)
    | .junk => (s, .indexError)
  | .query azim => (s, storeGet s azim)

/-- a history of operations on one station object: final content of `self.mask` and the replies, in order -/
def maskRun (s : MaskStore) : List MaskOp → MaskStore × List MaskReply
  | [] => (s, [])
  | op :: rest =>
    let r := maskStep s op
    let t := maskRun r.1 rest
    (t.1, r.2 :: t.2)

/-- `create_station(..., mask=arg)` (or `TopocentricFrame(name, o, c, mask=arg)`) followed by a history; `none` = the constructor raises -/
def stationMaskRun (arg : MaskArg) (ops : List MaskOp) : Option (MaskStore × MaskStore × List MaskReply) :=
  match createStationMask arg with
  | .raises => none
  | .stored s => let t := maskRun s ops; some (s, t.1, t.2)

/-! ## station names: creation, re-creation, use

Everything the frame machinery keeps about a station — the hook `<name>_to_<parent>` on `Orientation` and on `Center`, the graph links,
`frames.dynamic[name]` — is keyed by the NAME, and `create_station` installs all of it anew at each call ("A frame with the name … is
already registered. Overriding").  So a name stands for the coordinates of its LAST creation. -/

/-- name ↦ (latitude deg, longitude deg, altitude m) of the creations so far, most recent first -/
abbrev Registry := List (String × (R × R × R))

inductive RegOp where
  /-- `create_station(name, (latd, lond, alt))` -/
  | create (name : String) (latd lond alt : R)
  /-- `StateVector(st, date, "cartesian", parent).copy(frame=name)` -/
  | use (name : String) (st : List R)

def regLookup (reg : Registry) (name : String) : Option (R × R × R) :=
  (reg.find? (fun e => e.1 == name)).map (fun e => e.2)

/-- cartesian then spherical coordinates, in the frame of the station created from `c`, of the parent-frame state `st` -/
def stationView (c : R × R × R) (st : List R) : List R :=
  let cart := toStation (stationRadians c.1) (stationRadians c.2.1) c.2.2 st
  cart ++ toSpherical cart

def regStep (reg : Registry) : RegOp → Registry × Option (Option (List R))
  | .create n a b c => ((n, (a, b, c)) :: reg, none)
  | .use n st => (reg, some ((regLookup reg n).map (fun c => stationView c st)))

/-- the registry after a history, and the replies of its `use` operations in order (`none`: unknown frame) -/
def regRun (reg : Registry) : List RegOp → Registry × List (Option (List R))
  | [] => (reg, [])
  | op :: rest =>
    let r := regStep reg op
    let t := regRun r.1 rest
    (t.1, match r.2 with
          | some rep => rep :: t.2
          | none => t.2)
