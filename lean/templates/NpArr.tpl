/-!
The handful of numpy operations that `Interp._lagrange` (beyond/utils/interp.py) is written with, on
1-D arrays (`List R`), 2-D arrays (`List (List R)`, one inner list per row) and 2-D boolean masks.

The formula of `_lagrange` itself is NOT written here: it is translated from the Python AST on every run into
`Generated/InterpLag{F,R}.lean` (`lagrangeFormula`, a chain of these operations in the `Option` monad), by
`harness/props/C09.py: formula_source`, which refuses every shape it does not know.  What IS hand-written
(and tied to numpy by the correspondence run only) is the meaning of each operation below.

Every operation returns `Option`: `none` is numpy refusing the shapes (`ValueError`).  Shapes that the
translated formula cannot reach (negative repetition counts …) are refused as well rather than defaulted.
-/

/-- the columns of a table of rows -/
def columns (ys : List (List R)) : List (List R) :=
  (List.range (ys.headD []).length).map (fun c => ys.map (fun row => row.getD c (0 : R)))

/-- `np.tile(v, k)` on a 1-D array -/
def npTile (v : List R) (k : Int) : Option (List R) :=
  if k < 0 then none else some ((List.replicate k.toNat v).flatten)

/-- `v.reshape(r, c)` of a 1-D array (row-major); refused unless `len(v) = r * c` -/
def npReshape2 (v : List R) (r c : Int) : Option (List (List R)) :=
  if r < 0 ∨ c < 0 ∨ (v.length : Int) ≠ r * c then none
  else some ((List.range r.toNat).map (fun i => (v.drop (i * c.toNat)).take c.toNat))

/-- `np.diag(m)` of a 2-D array -/
def npDiag (m : List (List R)) : Option (List R) :=
  some ((List.range m.length).map (fun i => (m.getD i []).getD i (0 : R)))

/-- `np.repeat(v, k, axis=0)` on a 1-D array: every element `k` times -/
def npRepeat0 (v : List R) (k : Int) : Option (List R) :=
  if k < 0 then none else some (v.flatMap (fun a => List.replicate k.toNat a))

/-- `np.identity(k, dtype=bool)` -/
def npIdentityBool (k : Int) : Option (List (List Bool)) :=
  if k < 0 then none else some ((List.range k.toNat).map (fun i => (List.range k.toNat).map (fun j => i == j)))

/-- `~mask` -/
def npNotB (m : List (List Bool)) : Option (List (List Bool)) := some (m.map (fun row => row.map (fun b => !b)))

/-- the entries of one row selected by one row of a mask -/
def maskRow (row : List R) (mr : List Bool) : List R := ((row.zip mr).filter (fun p => p.2)).map (fun p => p.1)

/-- `m[mask]` with a boolean mask of the same shape: the selected entries, row-major, as a 1-D array -/
def npMask2 (m : List (List R)) (mask : List (List Bool)) : Option (List R) :=
  if m.length = mask.length ∧ (List.zipWith (fun (a : List R) (b : List Bool) => a.length == b.length) m mask).all id = true
  then some ((List.zipWith maskRow m mask).flatten) else none

/-- `x - v`, scalar minus 1-D array -/
def npSubSV (x : R) (v : List R) : Option (List R) := some (v.map (fun a => x - a))

/-- `v - x`, 1-D array minus scalar -/
def npSubVS (v : List R) (x : R) : Option (List R) := some (v.map (fun a => a - x))

/-- `a - b` on 1-D arrays of equal length -/
def npSubVV (a b : List R) : Option (List R) :=
  if a.length = b.length then some (List.zipWith (fun p q => p - q) a b) else none

/-- `a / b` on 1-D arrays of equal length -/
def npDivVV (a b : List R) : Option (List R) :=
  if a.length = b.length then some (List.zipWith (fun p q => p / q) a b) else none

/-- `a * b` on 1-D arrays of equal length -/
def npMulVV (a b : List R) : Option (List R) :=
  if a.length = b.length then some (List.zipWith (fun p q => p * q) a b) else none

/-- `m.prod(axis=1)`: the product of every row, taken left to right -/
def npProdAxis1 (m : List (List R)) : Option (List R) :=
  some (m.map (fun row => row.foldl (fun acc a => acc * a) (1 : R)))

/-- `m.prod(axis=0)`: the product of every column -/
def npProdAxis0 (m : List (List R)) : Option (List R) :=
  some ((columns m).map (fun col => col.foldl (fun acc a => acc * a) (1 : R)))

/-- `l @ ys`, 1-D times 2-D -/
def npVecMat (l : List R) (ys : List (List R)) : Option (List R) :=
  if l.length = ys.length
  then some ((columns ys).map (fun col => (l.zip col).foldl (fun acc p => acc + p.1 * p.2) (0 : R)))
  else none
