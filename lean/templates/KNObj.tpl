-- imports: Model.RK
/-!
One `KeplerNum` object through a history of attribute assignments and calls
(beyond/propagators/keplernum.py: `__init__`, `copy`, the `butcher` property, `_make_step`).

`method`, `step`, `tol`, `bodies` are plain public attributes: user code (and the library's own tests) assign them on a
live object.  The code keeps nothing derived from them between two calls — `butcher` is looked up in `BUTCHER` with the
CURRENT `self.method` at every access, `_make_step` reads `self.step`, `self.tol` at every pass and `_accel` walks the
CURRENT `self.bodies` — so the model's object state is exactly the attribute values (`Cfg`): there is no cache field to
go stale.  The correspondence run drives real objects through the same histories.

Bodies are (µ, state [x, y, z, vx, vy, vz] of the body in the frame of the orbit at the date of the bound orbit) in uniform motion:
`body.propagate(date)` is `position + (date − epoch) · velocity` (the correspondence uses duck-typed bodies doing exactly that), so
that the stage dates `y_n_prime.date += step * c` of `_make_step` — the `c` column of the tableau — are part of what is compared.
Maneuvers are not in this model (C17 / oracle family `reuse`).

The `frame` attribute and the bound orbit ARE in the state: `prop.orbit = orb` stores a COPY of `orb` converted to cartesian
coordinates in the frame `self.frame` names AT THAT MOMENT (`self._orbit = orbit.copy(form="cartesian", frame=self.frame)`);
`Orbit.propagate` / `Orbit.iter` re-bind at EVERY call (`if self.propagator.orbit is not self` always holds: what is stored is a
copy).  The frame conversion itself belongs to C02: here the caller's orbit is given as its cartesian state in each frame it
may be converted to (`views`, computed by the real code in the correspondence run), and the model says WHICH view is stored,
under which frame name, and from which stored state the next step is made.
-/
namespace KN

/-- the attributes of a `KeplerNum` object that the integration reads -/
structure Cfg where
  method : String
  step : R
  tol : R
  bodies : List (R × List R)
  /-- `self.frame`: the name of the frame the integration runs in -/
  frame : String := "EME2000"
  /-- `self._orbit`: (name of the frame it was converted to, cartesian state in that frame); `none` = never bound -/
  bound : Option (String × List R) := none

/-- `str.lower()` on ASCII names -/
def lowerAscii (s : String) : String := String.ofList (s.toList.map Char.toLower)

/-- `KeplerNum(step, bodies, method=method, tol=tol)`: `self.method = method.lower()` -/
def Cfg.init (step : R) (bodies : List (R × List R)) (method : String) (tol : R) (frame : String := "EME2000") : Cfg :=
  { method := lowerAscii method, step := step, tol := tol, bodies := bodies, frame := frame, bound := none }

/-- `body.propagate(date)` for a body in uniform motion, `t` seconds after the date of the orbit -/
def bodyAt (t : R) (b : R × List R) : R × List R :=
  (b.1, vadd (b.2.take 3) (smul t (b.2.drop 3)) ++ b.2.drop 3)

/-- the right-hand side the object integrates NOW: `_accel` over the CURRENT `self.bodies`, each at the date of the stage -/
def Cfg.field (c : Cfg) : R → List R → List R := fun t y => accel (c.bodies.map (bodyAt t)) y

/-- the view of the caller's orbit in the frame `f` (`orbit.copy(form="cartesian", frame=f)`), `none` = UnknownFrameError -/
def viewIn (f : String) : List (String × List R) → Option (List R)
  | [] => none
  | (g, y) :: rest => if g = f then some y else viewIn f rest

/-- what user code does with the object between two calls, and the calls themselves -/
inductive Op where
  /-- `prop.method = m` (a plain attribute: stored as given, NOT lower-cased) -/
  | setMethod (m : String)
  /-- `prop.step = timedelta(seconds=h)` -/
  | setStep (h : R)
  /-- `prop.tol = t` -/
  | setTol (t : R)
  /-- `prop.bodies = [...]` -/
  | setBodies (bs : List (R × List R))
  /-- `prop.bodies.append(b)` — the list object is modified in place -/
  | addBody (b : R × List R)
  /-- `prop.bodies.pop()` -/
  | dropBody
  /-- `prop = prop.copy()` : `self.__class__(self.step, self.bodies, method=self.method, frame=self.frame, tol=self.tol)` -/
  | copy
  /-- `prop._make_step(orb, timedelta(seconds=h))` with `orb` = `y` -/
  | makeStep (y : List R) (h : R)
  /-- `prop.butcher` -/
  | readButcher
  /-- `prop.frame = f` -/
  | setFrame (f : String)
  /-- `prop.orbit = orb` (what `Orbit.propagate` / `Orbit.iter` do first, at every call); `views` = `orb` as cartesian state in
  each candidate frame -/
  | bind (views : List (String × List R))
  /-- `prop._make_step(prop.orbit, timedelta(seconds=h))`: one step from the BOUND orbit -/
  | stepBound (h : R)
  /-- `prop.orbit` -/
  | readOrbit

/-- what a call returns (`quiet` for the assignments) -/
inductive Out where
  | quiet
  /-- `self.BUTCHER[self.method]` raised KeyError -/
  | keyError
  /-- `_make_step`: `some (real step, next state)`; `none` = RuntimeError "No convergence in step size" -/
  | stepped (r : Option (R × List R))
  | tableau (tb : Tableau)
  /-- `[].pop()` raised IndexError -/
  | indexError
  /-- `orbit.copy(frame=self.frame)` raised UnknownFrameError -/
  | unknownFrame
  /-- `_make_step(None, …)`: AttributeError (no orbit bound) -/
  | attrError
  /-- `prop.orbit`: `none` = `None` -/
  | orbit (b : Option (String × List R))

/-- the object after an operation -/
def Cfg.next (c : Cfg) : Op → Cfg
  | .setMethod m => { c with method := m }
  | .setStep h => { c with step := h }
  | .setTol t => { c with tol := t }
  | .setBodies bs => { c with bodies := bs }
  | .addBody b => { c with bodies := c.bodies ++ [b] }
  | .dropBody => { c with bodies := c.bodies.dropLast }
  | .copy => Cfg.init c.step c.bodies c.method c.tol c.frame
  | .makeStep _ _ => c
  | .readButcher => c
  | .setFrame f => { c with frame := f }
  | .bind views =>
    match viewIn c.frame views with
    | some y => { c with bound := some (c.frame, y) }
    | none => c                     -- the setter raised before assigning: `_orbit` keeps its former value
  | .stepBound _ => c
  | .readOrbit => c

/-- what an operation returns on an object whose attributes are `c`: the tableau is selected by the CURRENT method,
the field is that of the CURRENT bodies, the step bound and the tolerance are the CURRENT ones -/
def Cfg.out (c : Cfg) : Op → Out
  | .makeStep y h =>
    match butcher c.method with
    | none => .keyError
    | some tb => .stepped (makeStep c.field tb c.step c.tol 0 y maxIter h)
  | .readButcher =>
    match butcher c.method with
    | none => .keyError
    | some tb => .tableau tb
  | .dropBody => if c.bodies.isEmpty then .indexError else .quiet
  | .bind views => if (viewIn c.frame views).isSome then .quiet else .unknownFrame
  | .stepBound h =>
    -- `_make_step` looks the tableau up first (`self.butcher["a"]`: KeyError), then copies the orbit (`None.copy()`: AttributeError)
    match butcher c.method with
    | none => .keyError
    | some tb =>
      match c.bound with
      | none => .attrError
      | some (_, y) => .stepped (makeStep c.field tb c.step c.tol 0 y maxIter h)
  | .readOrbit => .orbit c.bound
  | _ => .quiet

/-- the object after a history -/
def Cfg.after (c : Cfg) (ops : List Op) : Cfg := ops.foldl Cfg.next c

/-- the outputs of a history, one per operation -/
def runOps : Cfg → List Op → List Out
  | _, [] => []
  | c, op :: ops => c.out op :: runOps (c.next op) ops

end KN
