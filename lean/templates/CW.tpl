-- imports: Generated.CWMat
/-!
Model of beyond/propagators/cw.py on top of the matrices translated from the source
(`cwMats`, Generated/CWMat*.lean).  Times are seconds relative to the epoch of the initial
state; states are lists `[x, y, z, vx, vy, vz]`, accelerations `[ax, ay, az]`.
-/

def dot : List R → List R → R
  | x :: a, y :: b => x * y + dot a b
  | _, _ => 0

def matVec (m : List (List R)) (v : List R) : List R := m.map (fun row => dot row v)

def vadd : List R → List R → List R
  | x :: a, y :: b => (x + y) :: vadd a b
  | _, _ => []

def transpose3 (m : List (List R)) : List (List R) :=
  [0, 1, 2].map (fun j => m.map (fun row => row.getD j 0))

def transpose6 (m : List (List R)) : List (List R) :=
  [0, 1, 2, 3, 4, 5].map (fun j => m.map (fun row => row.getD j 0))

def matMul (a b : List (List R)) (bt : List (List R)) : List (List R) :=
  a.map (fun row => bt.map (fun col => dot row col))

/-- `QSW2TNW` (class attribute of ClohessyWiltshire) -/
def qsw2tnw : List (List R) := [[0, 1, 0], [-1, 0, 0], [0, 0, 1]]

/-- `expand(QSW2TNW)` with no rate: block diagonal -/
def qsw2tnw6 : List (List R) :=
  [[0, 1, 0, 0, 0, 0], [-1, 0, 0, 0, 0, 0], [0, 0, 1, 0, 0, 0],
   [0, 0, 0, 0, 1, 0], [0, 0, 0, -1, 0, 0], [0, 0, 0, 0, 0, 1]]

/-- `_propagate` in the computational (QSW) orientation: `evol_mat @ orb + accel_mat @ accel` -/
def cwStepQSW (n t : R) (x acc : List R) : List R :=
  let m := cwMats n t
  vadd (matVec m.1 x) (matVec m.2 acc)

/-- `_propagate` when the frame orientation is TNW: both matrices are rotated first -/
def cwStepTNW (n t : R) (x acc : List R) : List R :=
  let m := cwMats n t
  let evol := matMul (matMul qsw2tnw6 m.1 (transpose6 m.1)) (transpose6 qsw2tnw6) qsw2tnw6
  let top := m.2.take 3
  let bot := m.2.drop 3
  let top' := matMul (matMul qsw2tnw top (transpose3 top)) (transpose3 qsw2tnw) qsw2tnw
  let bot' := matMul (matMul qsw2tnw bot (transpose3 bot)) (transpose3 qsw2tnw) qsw2tnw
  vadd (matVec evol x) (matVec (top' ++ bot') acc)

def cwStep (tnw : Bool) (n t : R) (x acc : List R) : List R :=
  if tnw then cwStepTNW n t x acc else cwStepQSW n t x acc

/-- maneuvers expressed in the frame of the orbit (`frame=None`) -/
inductive Man where
  | imp (tm : R) (dv : List R)
  | cont (ts te : R) (acc : List R)

def addDv (x dv : List R) : List R :=
  x.take 3 ++ vadd (x.drop 3) dv

def zero3 : List R := [0, 0, 0]

/-- `propagate(date)`: the loop over `self.orbit.maneuvers`; state is (time of `orb`, `orb`).
`t0` is the date of the initial orbit (`self.orbit.date`); returns the state at time `t`.
An impulse is applied iff `t0 < tm ≤ t`; a continuous maneuver is considered iff it stops after
`t0` and starts at or before `t`, its thrust phase starting at `max ts t0`. -/
def cwPropagate (tnw : Bool) (n : R) (mans : List Man) (t : R) (t0 : R) (x0 : List R) : List R :=
  let rec go : List Man → R → List R → List R
    | [], tc, x => cwStep tnw n (t - tc) x zero3
    | Man.imp tm dv :: rest, tc, x =>
      if t0 < tm ∧ tm ≤ t then
        let x1 := cwStep tnw n (tm - tc) x zero3
        go rest tm (addDv x1 dv)
      else go rest tc x
    | Man.cont ts te a :: rest, tc, x =>
      if te > t0 ∧ t ≥ ts then
        let s := if ts ≥ t0 then ts else t0
        let x1 := cwStep tnw n (s - tc) x zero3
        if ts ≤ t ∧ t < te then cwStep tnw n (t - s) x1 a
        else go rest te (cwStep tnw n (te - s) x1 a)
      else go rest tc x
  go mans t0 x0

/-- right-hand side of Hill's equations with a constant thrust acceleration -/
def hillRhs (n : R) (s acc : List R) : List R :=
  match s, acc with
  | [x, _, z, vx, vy, vz], [ax, ay, az] =>
    [vx, vy, vz, 3 * powi n 2 * x + 2 * n * vy + ax, -(2 * n * vx) + ay, -(powi n 2 * z) + az]
  | _, _ => []
