-- imports: Generated.CWMat
/-!
Model of beyond/propagators/cw.py on top of the matrices translated from the source
(`cwMats`, Generated/CWMat*.lean).  Times are seconds relative to the epoch of the initial
state; states are lists `[x, y, z, vx, vy, vz]`, accelerations `[ax, ay, az]`.
-/

def dot : List R → List R → R
  | x :: a, y :: b => x * y + dot a b
  | _, _ => 0

def matVec (m : List (List R)) (v : List R) : List R := m.map (fun row => dot row v)

def vadd : List R → List R → List R
  | x :: a, y :: b => (x + y) :: vadd a b
  | _, _ => []

def transpose3 (m : List (List R)) : List (List R) :=
  [0, 1, 2].map (fun j => m.map (fun row => row.getD j 0))

def transpose6 (m : List (List R)) : List (List R) :=
  [0, 1, 2, 3, 4, 5].map (fun j => m.map (fun row => row.getD j 0))

def matMul (a b : List (List R)) (bt : List (List R)) : List (List R) :=
  a.map (fun row => bt.map (fun col => dot row col))

/-- `QSW2TNW` (class attribute of ClohessyWiltshire) -/
def qsw2tnw : List (List R) := [[0, 1, 0], [-1, 0, 0], [0, 0, 1]]

/-- `expand(QSW2TNW)` with no rate: block diagonal -/
def qsw2tnw6 : List (List R) :=
  [[0, 1, 0, 0, 0, 0], [-1, 0, 0, 0, 0, 0], [0, 0, 1, 0, 0, 0],
   [0, 0, 0, 0, 1, 0], [0, 0, 0, -1, 0, 0], [0, 0, 0, 0, 0, 1]]

/-- `_propagate` in the computational (QSW) orientation: `evol_mat @ orb + accel_mat @ accel` -/
def cwStepQSW (n t : R) (x acc : List R) : List R :=
  let m := cwMats n t
  vadd (matVec m.1 x) (matVec m.2 acc)

/-- `_propagate` when the frame orientation is TNW: both matrices are rotated first -/
def cwStepTNW (n t : R) (x acc : List R) : List R :=
  let m := cwMats n t
  let evol := matMul (matMul qsw2tnw6 m.1 (transpose6 m.1)) (transpose6 qsw2tnw6) qsw2tnw6
  let top := m.2.take 3
  let bot := m.2.drop 3
  let top' := matMul (matMul qsw2tnw top (transpose3 top)) (transpose3 qsw2tnw) qsw2tnw
  let bot' := matMul (matMul qsw2tnw bot (transpose3 bot)) (transpose3 qsw2tnw) qsw2tnw
  vadd (matVec evol x) (matVec (top' ++ bot') acc)

def cwStep (tnw : Bool) (n t : R) (x acc : List R) : List R :=
  if tnw then cwStepTNW n t x acc else cwStepQSW n t x acc

/-- numpy broadcasting of a scalar over a 3-vector, in the three forms cwhelper.py uses: `v * s`, `s * v`, `v / s` -/
def vmuls (v : List R) (s : R) : List R := v.map (fun c => c * s)
def smulv (s : R) (v : List R) : List R := v.map (fun c => s * c)
def vdivs (v : List R) (s : R) : List R := v.map (fun c => c / s)

/-- `np.sign` -/
def signR (x : R) : R := if x > 0 then 1 else if x < 0 then -1 else 0

/-- `_mat3` / `_mat6` of a propagator in the default (QSW) orientation -/
def id3 : List (List R) := [[1, 0, 0], [0, 1, 0], [0, 0, 1]]
def id6 : List (List R) :=
  [[1, 0, 0, 0, 0, 0], [0, 1, 0, 0, 0, 0], [0, 0, 1, 0, 0, 0],
   [0, 0, 0, 1, 0, 0], [0, 0, 0, 0, 1, 0], [0, 0, 0, 0, 0, 1]]

/-- maneuvers expressed in the frame of the orbit (`frame=None`) -/
inductive Man where
  | imp (tm : R) (dv : List R)
  | cont (ts te : R) (acc : List R)

def addDv (x dv : List R) : List R :=
  x.take 3 ++ vadd (x.drop 3) dv

def zero3 : List R := [0, 0, 0]

/-- `propagate(date)`: the loop over `self.orbit.maneuvers`; state is (time of `orb`, `orb`).
`t0` is the date of the initial orbit (`self.orbit.date`); returns the state at time `t`.
An impulse is applied iff `t0 < tm ≤ t`; a continuous maneuver is considered iff it stops after
`t0` and starts at or before `t`, its thrust phase starting at `max ts t0`. -/
def cwPropagate (tnw : Bool) (n : R) (mans : List Man) (t : R) (t0 : R) (x0 : List R) : List R :=
  let rec go : List Man → R → List R → List R
    | [], tc, x => cwStep tnw n (t - tc) x zero3
    | Man.imp tm dv :: rest, tc, x =>
      if t0 < tm ∧ tm ≤ t then
        let x1 := cwStep tnw n (tm - tc) x zero3
        go rest tm (addDv x1 dv)
      else go rest tc x
    | Man.cont ts te a :: rest, tc, x =>
      if te > t0 ∧ t ≥ ts then
        let s := if ts ≥ t0 then ts else t0
        let x1 := cwStep tnw n (s - tc) x zero3
        if ts ≤ t ∧ t < te then cwStep tnw n (t - s) x1 a
        else go rest te (cwStep tnw n (te - s) x1 a)
      else go rest tc x
  go mans t0 x0

/-! ## The reference solution (specification), independent of the order of the list

`hillSol` is the closed form (variation of constants) of the solution of Hill's equations that passes through `x0` at
`t0`, forced by the SUM of the thrusts active at each instant (a burn is active on `[ts, te)`) and jumping by `dv` at
every impulse date (right-continuous: the state AT `tm` contains the jump).  It is a sum of one term per maneuver — so
it does not depend on the order of the list and superposes by construction — and it is defined for dates before `t0`
as well (the maneuvers between `t` and `t0` are undone).  Props/C16Seq.lean proves that it is a solution
(`state_solves_hill_piecewise_thrust`) and when `cwPropagate` equals it. -/

def zero6 : List R := [0, 0, 0, 0, 0, 0]

/-- the 6-vector `(0, dv)` -/
def kick (dv : List R) : List R := 0 :: 0 :: 0 :: dv

def vneg (v : List R) : List R := v.map (fun c => -c)

/-- contribution of one maneuver to the state at date `t` of the solution through `(t0, x0)` -/
def hillTerm (n t t0 : R) : Man → List R
  | Man.imp tm dv =>
    if t0 < tm ∧ tm ≤ t then cwStepQSW n (t - tm) (kick dv) zero3
    else if t < tm ∧ tm ≤ t0 then cwStepQSW n (t - tm) (kick (vneg dv)) zero3
    else zero6
  | Man.cont ts te a =>
    if t0 ≤ t then
      if te > t0 ∧ t ≥ ts then
        let s := if ts ≥ t0 then ts else t0
        if t < te then cwStepQSW n (t - s) zero6 a
        else cwStepQSW n (t - te) (cwStepQSW n (te - s) zero6 a) zero3
      else zero6
    else
      if ts < t0 ∧ t < te then
        let b := if te ≤ t0 then te else t0
        if ts ≤ t then cwStepQSW n (t - b) zero6 a
        else cwStepQSW n (t - ts) (cwStepQSW n (ts - b) zero6 a) zero3
      else zero6

def hillSol (n : R) (mans : List Man) (t t0 : R) (x0 : List R) : List R :=
  mans.foldr (fun m acc => vadd (hillTerm n t t0 m) acc) (cwStepQSW n (t - t0) x0 zero3)

/-- sum of the thrust accelerations of the burns active at date `t` (`ts ≤ t < te`) -/
def thrustAt (t : R) : List Man → List R
  | [] => zero3
  | Man.imp _ _ :: rest => thrustAt t rest
  | Man.cont ts te a :: rest => if ts ≤ t ∧ t < te then vadd a (thrustAt t rest) else thrustAt t rest

/-- The sequencing of proposed_fixes/C16-maneuver-superposition.diff: no early return from inside a burn (the thrust
leg stops at `min te t` and the loop goes on), and a propagation to a date before `t0` undoes the maneuvers lying
between the two dates.  `cwPropagateFixed_eq_hillSol` (Props/C16Seq.lean) proves it equal to `hillSol` for EVERY list. -/
def cwPropagateFixed (n : R) (mans : List Man) (t : R) (t0 : R) (x0 : List R) : List R :=
  let rec go : List Man → R → List R → List R
    | [], tc, x => cwStepQSW n (t - tc) x zero3
    | Man.imp tm dv :: rest, tc, x =>
      if t0 < tm ∧ tm ≤ t then go rest tm (addDv (cwStepQSW n (tm - tc) x zero3) dv)
      else if t < tm ∧ tm ≤ t0 then go rest tm (addDv (cwStepQSW n (tm - tc) x zero3) (vneg dv))
      else go rest tc x
    | Man.cont ts te a :: rest, tc, x =>
      if t0 ≤ t then
        if te > t0 ∧ t ≥ ts then
          let s := if ts ≥ t0 then ts else t0
          let e := if t < te then t else te
          go rest e (cwStepQSW n (e - s) (cwStepQSW n (s - tc) x zero3) a)
        else go rest tc x
      else
        if ts < t0 ∧ t < te then
          let b := if te ≤ t0 then te else t0
          let e := if ts ≤ t then t else ts
          go rest e (cwStepQSW n (e - b) (cwStepQSW n (b - tc) x zero3) a)
        else go rest tc x
  go mans t0 x0

/-- right-hand side of Hill's equations with a constant thrust acceleration -/
def hillRhs (n : R) (s acc : List R) : List R :=
  match s, acc with
  | [x, _, z, vx, vy, vz], [ax, ay, az] =>
    [vx, vy, vz, 3 * powi n 2 * x + 2 * n * vy + ax, -(2 * n * vx) + ay, -(powi n 2 * z) + az]
  | _, _ => []
