-- imports: Generated.SunMoon
/-!
Model of `_DiffPropagator.propagate` (beyond/env/solarsystem.py) on top of the two position series translated
from the source (`sunSeries`, `moonSeries`, Generated/SunMoon*.lean).

`tm t0 tp` are the Julian centuries, in the time scale the series is written in (UT1 for the Sun, TDB for
the Moon), of `date - step`, `date`, `date + step` (computed by `Date`, which belongs to C03/C04 and is a
parameter here); `dt` is `step.total_seconds()`.
-/
namespace Solar

/-- `x = _propagate(date); x0 = _propagate(date - step); x1 = _propagate(date + step);
x[3:] = (x1[:3] - x0[:3]) / (2 * step.total_seconds())` -/
def diffState (series : R → List R) (tm t0 tp dt : R) : List R :=
  let x := series t0
  let x0 := series tm
  let x1 := series tp
  x.take 3 ++ [(x1.getD 0 0 - x0.getD 0 0) / (2 * dt), (x1.getD 1 0 - x0.getD 1 0) / (2 * dt),
    (x1.getD 2 0 - x0.getD 2 0) / (2 * dt)]

/-- `SunPropagator.propagate` (MOD frame), `_diff_step` read from the class -/
def sunState (tm t0 tp : R) : List R := diffState sunSeries tm t0 tp sunStep

/-- `MoonPropagator.propagate` (EME2000 frame) -/
def moonState (tm t0 tp : R) : List R := diffState moonSeries tm t0 tp moonStep

/-- `AnalyticalPropagator._iter` as the Sun / Moon propagators inherit it — `for date in dates: yield self.propagate(date)`,
the dates being the caller's (`dates=`) or `Date.range(start, stop, step, inclusive=True)` —: a tabulation is the list of
the single propagations.  `args` = the Julian centuries of (date − step, date, date + step) of each requested date; the
public routes `Orbit.iter`, `Orbit.ephemeris`, `Orbit.ephem`, `propagator.iter` hand these states on unchanged. -/
def table (state : R → R → R → List R) (args : List (R × R × R)) : List (List R) :=
  args.map fun a => state a.1 a.2.1 a.2.2

/-- a tabulation of the Sun through any of the routes -/
def sunTable (args : List (R × R × R)) : List (List R) := table sunState args

/-- a tabulation of the Moon through any of the routes -/
def moonTable (args : List (R × R × R)) : List (List R) := table moonState args

end Solar
