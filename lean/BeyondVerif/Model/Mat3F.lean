/- GENERATED from lean/templates/Mat3.tpl by harness/instantiate.py — edit the template. Float instantiation. -/
import BeyondVerif.NumFloat
namespace BeyondVerif.F
open BeyondVerif.NumFloat
set_option linter.unusedVariables false

/-!
3-vectors, 3×3 matrices and the 6×6 state matrices of `beyond/utils/matrix.py: expand`.

`expand(m, rate)` builds `[[m, 0], [-(rate×)·m, m]]`; products and inverses of such matrices keep the shape
`[[r, 0], [b, r]]`, so a 6×6 matrix is held as the pair `T6 = (r, b)` (the correspondence run checks on the
real 6×6 numpy arrays that the upper-right block is 0 and both diagonal blocks are equal).
`np.linalg.inv` is modelled by the exact inverse (adjugate / determinant for the 3×3 block).
-/

@[ext] structure V3 where
  x : R
  y : R
  z : R

@[ext] structure M3 where
  a11 : R
  a12 : R
  a13 : R
  a21 : R
  a22 : R
  a23 : R
  a31 : R
  a32 : R
  a33 : R

namespace V3
def zero : V3 := ⟨0, 0, 0⟩
def add (u v : V3) : V3 := ⟨u.x + v.x, u.y + v.y, u.z + v.z⟩
def sub (u v : V3) : V3 := ⟨u.x - v.x, u.y - v.y, u.z - v.z⟩
def neg (u : V3) : V3 := ⟨-u.x, -u.y, -u.z⟩
def smul (k : R) (u : V3) : V3 := ⟨k * u.x, k * u.y, k * u.z⟩
/-- `u / k` (numpy: a 3-vector divided by a scalar) -/
def divS (u : V3) (k : R) : V3 := ⟨u.x / k, u.y / k, u.z / k⟩
def dot (u v : V3) : R := u.x * v.x + u.y * v.y + u.z * v.z
def cross (u v : V3) : V3 := ⟨u.y * v.z - u.z * v.y, u.z * v.x - u.x * v.z, u.x * v.y - u.y * v.x⟩
def norm (u : V3) : R := sqrt (dot u u)
def toList (u : V3) : List R := [u.x, u.y, u.z]
end V3

namespace M3
def one : M3 := ⟨1, 0, 0, 0, 1, 0, 0, 0, 1⟩
def zero : M3 := ⟨0, 0, 0, 0, 0, 0, 0, 0, 0⟩
def mul (a b : M3) : M3 :=
  ⟨a.a11 * b.a11 + a.a12 * b.a21 + a.a13 * b.a31, a.a11 * b.a12 + a.a12 * b.a22 + a.a13 * b.a32, a.a11 * b.a13 + a.a12 * b.a23 + a.a13 * b.a33,
   a.a21 * b.a11 + a.a22 * b.a21 + a.a23 * b.a31, a.a21 * b.a12 + a.a22 * b.a22 + a.a23 * b.a32, a.a21 * b.a13 + a.a22 * b.a23 + a.a23 * b.a33,
   a.a31 * b.a11 + a.a32 * b.a21 + a.a33 * b.a31, a.a31 * b.a12 + a.a32 * b.a22 + a.a33 * b.a32, a.a31 * b.a13 + a.a32 * b.a23 + a.a33 * b.a33⟩
def add (a b : M3) : M3 :=
  ⟨a.a11 + b.a11, a.a12 + b.a12, a.a13 + b.a13, a.a21 + b.a21, a.a22 + b.a22, a.a23 + b.a23, a.a31 + b.a31, a.a32 + b.a32, a.a33 + b.a33⟩
def neg (a : M3) : M3 := ⟨-a.a11, -a.a12, -a.a13, -a.a21, -a.a22, -a.a23, -a.a31, -a.a32, -a.a33⟩
def smul (k : R) (a : M3) : M3 := ⟨k * a.a11, k * a.a12, k * a.a13, k * a.a21, k * a.a22, k * a.a23, k * a.a31, k * a.a32, k * a.a33⟩
/-- transpose -/
def tr (a : M3) : M3 := ⟨a.a11, a.a21, a.a31, a.a12, a.a22, a.a32, a.a13, a.a23, a.a33⟩
def det (a : M3) : R :=
  a.a11 * (a.a22 * a.a33 - a.a23 * a.a32) - a.a12 * (a.a21 * a.a33 - a.a23 * a.a31) + a.a13 * (a.a21 * a.a32 - a.a22 * a.a31)
/-- adjugate -/
def adj (a : M3) : M3 :=
  ⟨a.a22 * a.a33 - a.a23 * a.a32, a.a13 * a.a32 - a.a12 * a.a33, a.a12 * a.a23 - a.a13 * a.a22,
   a.a23 * a.a31 - a.a21 * a.a33, a.a11 * a.a33 - a.a13 * a.a31, a.a13 * a.a21 - a.a11 * a.a23,
   a.a21 * a.a32 - a.a22 * a.a31, a.a12 * a.a31 - a.a11 * a.a32, a.a11 * a.a22 - a.a12 * a.a21⟩
/-- `np.linalg.inv` of a 3×3 block: the exact inverse -/
def inv (a : M3) : M3 := smul (1 / det a) (adj a)
def apply (a : M3) (v : V3) : V3 :=
  ⟨a.a11 * v.x + a.a12 * v.y + a.a13 * v.z, a.a21 * v.x + a.a22 * v.y + a.a23 * v.z, a.a31 * v.x + a.a32 * v.y + a.a33 * v.z⟩
/-- the matrix `R` of `expand`: `[[0, -w2, w1], [w2, 0, -w0], [-w1, w0, 0]]`, i.e. `skew w · v = w × v` -/
def skew (w : V3) : M3 := ⟨0, -w.z, w.y, w.z, 0, -w.x, -w.y, w.x, 0⟩
def ofRows (r1 r2 r3 : V3) : M3 := ⟨r1.x, r1.y, r1.z, r2.x, r2.y, r2.z, r3.x, r3.y, r3.z⟩
def toList (a : M3) : List R := [a.a11, a.a12, a.a13, a.a21, a.a22, a.a23, a.a31, a.a32, a.a33]
end M3

/-- the 6×6 matrix `[[r, 0], [b, r]]` -/
@[ext] structure T6 where
  r : M3
  b : M3

namespace T6
def one : T6 := ⟨M3.one, M3.zero⟩
/-- `n @ m` -/
def mul (n m : T6) : T6 := ⟨n.r.mul m.r, (n.b.mul m.r).add (n.r.mul m.b)⟩
/-- `np.linalg.inv`: `[[r,0],[b,r]]⁻¹ = [[r⁻¹,0],[-r⁻¹ b r⁻¹, r⁻¹]]` -/
def inv (m : T6) : T6 :=
  let ri := m.r.inv
  ⟨ri, ((ri.mul m.b).mul ri).neg⟩
/-- `m @ [p, v]` -/
def apply (m : T6) (p v : V3) : V3 × V3 := (m.r.apply p, (m.b.apply p).add (m.r.apply v))
def toList (m : T6) : List R := m.r.toList ++ m.b.toList
end T6

/-- `expand(m, rate)` of beyond/utils/matrix.py -/
def expand (m : M3) (rate : Option V3) : T6 :=
  match rate with
  | none => ⟨m, M3.zero⟩
  | some w => ⟨m, ((M3.skew w).mul m).neg⟩

end BeyondVerif.F
