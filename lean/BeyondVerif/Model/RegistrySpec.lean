import BeyondVerif.Model.Registry
import BeyondVerif.Model.NodeSpec
/-!
Executable specification side for routing between nodes that share names: independent checks on a returned path
(no reference to the routing tables) and the enumeration of every forest history on `n` nodes under every assignment
of names.
-/
namespace BeyondVerif.Reg
open BeyondVerif.Node (PathRes linkedB chainB components mergeComp)

/-- hop distances from `s` in the graph of the history (Bellman–Ford style relaxation, `n` rounds) -/
def dists (n : Nat) (hist : List (Nat × Nat)) (s : Nat) : List (Option Nat) :=
  let init := (List.range n).map (fun v => if v = s then some 0 else none)
  (List.range n).foldl (fun d _ =>
    hist.foldl (fun d e =>
      let relax := fun (d : List (Option Nat)) (a b : Nat) =>
        match d.getD a none, d.getD b none with
        | some x, none => d.set b (some (x + 1))
        | some x, some y => if x + 1 < y then d.set b (some (x + 1)) else d
        | _, _ => d
      relax (relax d e.1 e.2) e.2 e.1) d) init

/-- For a forest history on nodes `0..n-1` named by `names`: from every node, every name carried by a connected node
is routed along a simple chain of existing links ending at a NEAREST node of that name; every other name is `unknown`. -/
def namedRoutingExact (names : List Nat) (hist : List (Nat × Nat)) : Bool :=
  let n := names.length
  let nm := fun i => names.getD i i
  match build nm (n + 2) hist with
  | none => false
  | some g =>
    (List.range n).all (fun s =>
      let d := dists n hist s
      names.eraseDups.all (fun goal =>
        let cands := (List.range n).filterMap (fun v => if nm v = goal then d.getD v none else none)
        let r := path nm (n + 2) g s goal
        if nm s = goal then r == .ok [s]
        else match cands.min? with
          | none => r == .unknown
          | some best =>
            match r with
            | .ok p => p.head? == some s && (p.getLast?.map nm) == some goal && chainB hist p && decide p.Nodup &&
                p.length == best + 1
            | _ => false))

/-- all forest histories of length ≤ `k` extending `hist` (every ordered pair joining two components), each prefix checked -/
def allNamedExtensionsOK (names : List Nat) : Nat → List (Nat × Nat) → List Nat → Bool
  | 0, _, _ => true
  | k + 1, hist, comp =>
    let n := names.length
    (List.range n).all (fun a => (List.range n).all (fun b =>
      if comp.getD a a = comp.getD b b then true
      else
        let hist' := hist ++ [(a, b)]
        namedRoutingExact names hist' && allNamedExtensionsOK names k hist' (mergeComp comp a b)))

/-- every vector of `n` names drawn from `0..k-1` -/
def nameVectors (k : Nat) : Nat → List (List Nat)
  | 0 => [[]]
  | n + 1 => (nameVectors k n).flatMap (fun v => (List.range k).map (fun x => x :: v))

/-- every insertion order and orientation of every labelled forest on `n` nodes, under every assignment of names -/
def allNamedForestsOK (n : Nat) : Bool :=
  (nameVectors n n).all (fun names => allNamedExtensionsOK names (n - 1) [] (List.range n))

end BeyondVerif.Reg
