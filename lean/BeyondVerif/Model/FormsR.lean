/- GENERATED from lean/templates/Forms.tpl by harness/instantiate.py — edit the template. Real instantiation. -/
import BeyondVerif.NumReal
import BeyondVerif.Generated.FormsR
noncomputable section
namespace BeyondVerif.R
open BeyondVerif.NumReal
open Classical
set_option linter.unusedVariables false

/-!
Model of beyond/orbits/forms.py on top of the 17 edge functions, the M2E start value / Newton update /
loop test and the Infos formulas *translated from the source* (Generated/Forms*.lean).
Hand-written here: the Newton loop of `Form.M2E` with a fuel argument (its shape is checked against the
source by `harness/props/C01.py: m2e_pieces` on every run), the 18th edge (`mean -> eccentric`, a call
of `M2E`; shape checked likewise) and the plumbing from 6-lists to the curried edge functions.
-/

/-- `while abs(X1 - X) >= tol: X = X1; X1 = next(X)` then `return X1`; `none` = fuel exhausted -/
def m2eLoop : Nat → R → R → R → R → Option R
  | 0, _, _, _, _ => none
  | fuel + 1, e, M, X, X1 => m2eContinue X1 X (m2eLoop fuel e M X1 (m2eNext X1 e M)) (some X1)

/-- `Form.M2E(e, M)`: reduce M (ellipse), choose the start value, iterate, add the revolutions back -/
def m2e (fuel : Nat) (e M : R) : Option R :=
  let Mr := m2eReduced e M
  let X := m2eStart e M
  (m2eLoop fuel e Mr X (m2eNext X e Mr)).map (fun X1 => m2eFinish e X1 (m2eExtra e M))

/-- `Form._keplerian_mean_to_keplerian_eccentric` -/
def meanToEcc (fuel : Nat) (mu a e i Ω ω M : R) : Option (List R) :=
  (m2e fuel e M).map (fun E => [a, e, i, Ω, ω, E])

/-- apply a curried edge function to a 6-list (anything else: the empty list) -/
def app6 (f : R → R → R → R → R → R → R → List R) (mu : R) : List R → List R
  | [c0, c1, c2, c3, c4, c5] => f mu c0 c1 c2 c3 c4 c5
  | _ => []

/-- the 17 translated edges by the name of the Python method (`_a_to_b` without the underscore) -/
def edgeByName : String → Option (R → R → R → R → R → R → R → List R)
  | "cartesian_to_keplerian" => some cartToKepl
  | "keplerian_to_cartesian" => some keplToCart
  | "keplerian_to_keplerian_eccentric" => some keplToEcc
  | "keplerian_eccentric_to_keplerian" => some eccToKepl
  | "keplerian_eccentric_to_keplerian_mean" => some eccToMean
  | "keplerian_circular_to_keplerian" => some circToKepl
  | "keplerian_to_keplerian_circular" => some keplToCirc
  | "tle_to_keplerian_mean" => some tleToMean
  | "keplerian_mean_to_tle" => some meanToTle
  | "cartesian_to_spherical" => some cartToSph
  | "spherical_to_cartesian" => some sphToCart
  | "keplerian_to_equinoctial" => some keplToEqui
  | "equinoctial_to_keplerian" => some equiToKepl
  | "cartesian_to_cylindrical" => some cartToCyl
  | "cylindrical_to_cartesian" => some cylToCart
  | "keplerian_mean_to_keplerian_mean_circular" => some meanToMcirc
  | "keplerian_mean_circular_to_keplerian_mean" => some mcircToMean
  | _ => none

/-- one conversion step along a link of the forms graph (`Form.__call__` loop body) -/
def step (fuel : Nat) (mu : R) (name : String) (c : List R) : Option (List R) :=
  if name = "keplerian_mean_to_keplerian_eccentric" then
    match c with
    | [a, e, i, Ω, ω, M] => meanToEcc fuel mu a e i Ω ω M
    | _ => none
  else (edgeByName name).map (fun f => app6 f mu c)

/-- a whole walk: the list of method names given by the routing (C20) -/
def walk (fuel : Nat) (mu : R) : List String → List R → Option (List R)
  | [], c => some c
  | n :: rest, c => (step fuel mu n c).bind (walk fuel mu rest)

/-- all Infos numbers of a state whose keplerian form is (a, e, _, _, _, ν) and whose radius is r -/
def infosAll (mu r a e nu : R) : List R :=
  [infosEnergy mu r a e nu, infosN mu r a e nu, infosPeriod mu r a e nu, infosApocenter mu r a e nu,
   infosPericenter mu r a e nu, infosV mu r a e nu, infosVa mu r a e nu, infosVp mu r a e nu,
   infosVinf mu r a e nu, infosDinf mu r a e nu, infosCosFpa mu r a e nu, infosSinFpa mu r a e nu,
   infosFpa mu r a e nu]

end BeyondVerif.R
