import BeyondVerif.Generated.FrameGlue
/-!
The loop shared by `Orientation.convert_to` (beyond/frames/orient.py) and `Center.convert_to`
(beyond/frames/center.py), generic in the carrier:

    m = identity
    for a, b in self.steps(new):            # Node.steps
        if hasattr(self, f"{a}_to_{b}"):   M = provider(a, b)
        elif hasattr(self, f"{b}_to_{a}"): M = inverse(provider(b, a))
        else: raise ValueError
        m = M @ m

Which element a direct / a reverse provider contributes and how the product is accumulated is NOT written here: it is read from the
AST of `Orientation.convert_to` on every run (`Generated.Glue.orientDirect / orientReverse / orientUpdate`, harness/props/C02.py `_Glue`).

No Mathlib: linked into the driver (carrier `T6` over `Float`) and used by the theorems (carrier `T6` over ℝ,
and any carrier with an associative product for the path-independence theorem).
-/
namespace BeyondVerif.Chain

/-- the element used for the step `a → b`: the direct provider if it exists, else the inverse of the reverse one -/
def stepElem {α : Type} (inv : α → α) (edge : Nat → Nat → Option α) (a b : Nat) : Option α :=
  match edge a b with
  | some M => some (Generated.Glue.orientDirect inv M)
  | none =>
    match edge b a with
    | some M => some (Generated.Glue.orientReverse inv M)
    | none => none

/-- fold of the loop body over the steps, starting from `m`; `none` = `ValueError("Unknown transformation")` -/
def chain {α : Type} (mul : α → α → α) (inv : α → α) (edge : Nat → Nat → Option α) : List (Nat × Nat) → α → Option α
  | [], m => some m
  | (a, b) :: rest, m =>
    match stepElem inv edge a b with
    | some M => chain mul inv edge rest (Generated.Glue.orientUpdate mul M m)
    | none => none

end BeyondVerif.Chain
