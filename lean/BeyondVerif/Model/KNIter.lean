import BeyondVerif.Generated.KNIterSrc
/-!
Bookkeeping of `KeplerNum._iter` (beyond/propagators/keplernum.py) over integer microseconds: which integration points
are tabulated before an `Ephem` is built, and with which interpolation order — the *padding rule*.

The loop condition of the march, the `interp` flag, the number of padding steps of the positioning phase, `DEFAULT_ORDER`
and the `order` argument handed to `Ephem(...)` are **translated from the source on every run**
(Generated/KNIterSrc.lean).  The accepted step sizes reported by `_make_step` (`real_step`, which the adaptive methods
shrink) are an input: the list `rs`, consumed one per pass; running out of it is `none` (fuel), never a normal end.

No Mathlib import: linked into the line-protocol driver.
-/
namespace BeyondVerif.KNIter
open BeyondVerif.Generated.KNIterSrc

/-- `while cond(len(ephem), date): real_step, orb = self._make_step(orb, _step); ephem.append(orb); date += real_step`
— the dates appended to `ephem` and the step sizes not consumed. `len` is `len(ephem)`. -/
def marchWith (cond : Nat → Int → Bool) : List Int → Nat → Int → Option (List Int × List Int)
  | [], len, date => if cond len date then none else some ([], [])
  | r :: rs, len, date =>
    if cond len date then
      (marchWith cond rs (len + 1) (date + r)).map (fun p => ((date + r) :: p.1, p.2))
    else some ([], r :: rs)

/-- the march over the requested span: the loop condition is the translated `marchCond` -/
def march (backward interp : Bool) (stop : Int) : List Int → Nat → Int → Option (List Int × List Int) :=
  marchWith (fun len date => marchCond backward interp date stop len)

/-- the loop condition of the positioning phase: `getattr(date, mname)(start)` with
`mname = "__lt__" if _step.total_seconds() > 0 else "__gt__"` -/
def posCond (backward : Bool) (start : Int) : Nat → Int → Bool :=
  fun _ date => if backward then decide (date > start) else decide (date < start)

/-- `for i in range(<padCount>): real_step, orb = self._make_step(orb, _step); ephem.append(orb)` — note that `date` is not
advanced here; the appended orbits carry their own dates (`last` = date of the last tabulated point) -/
def pad : Nat → List Int → Int → Option (List Int × List Int)
  | 0, rs, _ => some ([], rs)
  | _ + 1, [], _ => none
  | k + 1, r :: rs, last => (pad k rs (last + r)).map (fun p => ((last + r) :: p.1, p.2))

/-- interpolation order of an `Ephem` built with `order=arg`: `order if isinstance(order, int) else DEFAULT_ORDER` -/
def ephemOrder (arg : Option Nat) : Nat := arg.getD defaultOrder

/-- the positioning phase (`if start != orb.date:`): march from the epoch until `start` is reached or passed, then pad.
Returns the tabulation (epoch first, in integration order) and the unconsumed step sizes. -/
def position (epoch start : Int) (rs : List Int) : Option (List Int × List Int) :=
  -- `_step = sign((start - orb.date).total_seconds()) * self.step` (`start != orb.date` here)
  let backward := decide (start < epoch)
  match marchWith (posCond backward start) rs 1 epoch with
  | none => none
  | some (ds, rs1) =>
    let tab := epoch :: ds
    match pad (padCount tab.length) rs1 (tab.getLast?.getD epoch) with
    | none => none
    | some (more, rs2) => some (tab ++ more, rs2)

/-- the `order` argument of the `Ephem(...)` call of the positioning phase on `n` points -/
def posOrder (n : Nat) : Nat := ephemOrder (ephemOrderArgPos n)

/-- what `_iter` has built when it starts yielding -/
structure Tab where
  /-- tabulation of the positioning phase (`none`: `start == orb.date`) -/
  pos : Option (List Int)
  /-- tabulation of the requested span, `start` first, in integration order -/
  main : List Int
  /-- are outputs interpolated (explicit step, dates, listeners) -/
  interp : Bool
  /-- the `order` argument of the `Ephem(...)` call of the positioning phase: `none` = not passed, the class default applies -/
  posOrderArg : Option Nat
  /-- the `order` argument of the `Ephem(...)` call over the requested span -/
  orderArg : Option Nat
  /-- number of `_make_step` calls -/
  calls : Nat
deriving DecidableEq, Repr

/-- `_iter` from the point where `start`, `stop` are known (`datesGiven`: `dates is not None`; `stepGiven`: `step is not None`
after `if step is self.step: step = None`; `listening`: `bool(listeners)`) -/
def iterTab (epoch start stop : Int) (datesGiven stepGiven listening : Bool) (rs : List Int) : Option Tab :=
  let posE : Option (Option (List Int) × List Int) :=
    if start ≠ epoch then (position epoch start rs).map (fun p => (some p.1, p.2)) else some (none, rs)
  match posE with
  | none => none
  | some (pos, rs1) =>
    let backward := decide (stop < start)
    let interp := interpFlag datesGiven stepGiven listening
    match march backward interp stop rs1 1 start with
    | none => none
    | some (ds, rs2) =>
      some { pos := pos, main := start :: ds, interp := interp, orderArg := ephemOrderArg (1 + ds.length),
             posOrderArg := match pos with | some p => ephemOrderArgPos p.length | none => none,
             calls := rs.length - rs2.length }

/-! ### the object graph of an output, and interleaved requests on its points

Every point `_iter` yields is an `Orbit` carrying a propagator object (`orb.as_orbit(...)`); `propagate()` returns the single
point of such an output.  A propagator is stateful: `Orbit.iter()` / `Orbit.propagate()` bind it to the calling orbit
(`self.propagator.orbit = self`) when they are CALLED, while `NumericalPropagator.iter` is a generator that reads
`self.orbit` only when it is first CONSUMED.  Object identities are natural numbers handed out by a counter. -/

/-- identities of the propagators carried by the `n` points of one output of a receiver `recv`, `next` being the first free
identity (`pointPropId` is translated from the position of `self.copy()` relative to the yield loop) -/
def outputProps (recv next n : Nat) : List Nat := (List.range n).map (pointPropId recv next)

/-- successive outputs of the same receiver: the counter advances by what each output allocated -/
def outputsProps (recv : Nat) : Nat → List Nat → List (List Nat)
  | _, [] => []
  | next, n :: ns => outputProps recv next n :: outputsProps recv (next + propsAllocated n) ns

/-- requests on orbits `0, 1, …` (orbit `i` carries the propagator `pOf i`) -/
inductive Req where
  /-- `it_i = orbit_i.iter(...)`: binds now, integrates later -/
  | create (i : Nat)
  /-- first `next(it_i)`: the generator starts and reads `self.orbit` -/
  | consume (i : Nat)
  /-- `orbit_i.propagate(date)`: binds and integrates at once -/
  | propagate (i : Nat)
deriving DecidableEq, Repr

/-- which orbit each propagator is bound to; replies: the orbit whose trajectory a `consume` / `propagate` returns -/
def runReqs (pOf : Nat → Nat) : (Nat → Option Nat) → List Req → List (Option Nat)
  | _, [] => []
  | b, .create i :: rs => runReqs pOf (fun p => if p = pOf i then some i else b p) rs
  | b, .consume i :: rs => b (pOf i) :: runReqs pOf b rs
  | b, .propagate i :: rs => some i :: runReqs pOf (fun p => if p = pOf i then some i else b p) rs

/-- the replies a history SHOULD give: every request returns the trajectory of its own orbit -/
def ownReplies : List Req → List (Option Nat)
  | [] => []
  | .create _ :: rs => ownReplies rs
  | .consume i :: rs => some i :: ownReplies rs
  | .propagate i :: rs => some i :: ownReplies rs

/-- every `consume i` comes after a `create i` -/
def wellFormed : List Nat → List Req → Bool
  | _, [] => true
  | made, .create i :: rs => wellFormed (i :: made) rs
  | made, .consume i :: rs => made.contains i && wellFormed made rs
  | made, .propagate _ :: rs => wellFormed made rs

end BeyondVerif.KNIter
