/- GENERATED from lean/templates/Propag.tpl by harness/instantiate.py — edit the template. Float instantiation. -/
import BeyondVerif.NumFloat
import BeyondVerif.Generated.PropagF
namespace BeyondVerif.F
open BeyondVerif.NumFloat
set_option linter.unusedVariables false

/-!
Element-level model of the two analytical propagators of beyond/propagators (kepler.py, j2.py).
Both convert the orbit to the `keplerian_mean` form (orbit setter), update the six mean elements and
convert the result to `cartesian`.  The update itself is *translated from the Python source* on every
run (Generated/Propag: `meanMotion`, `keplerNewM`, `j2Delta`, the constants of beyond/constants.py);
this file only adds the glue (`new = orbit.copy(); new[5] = …` and `new = orbit[:] + delta;
new[3:] = new[3:] % (2π)`), tied by the correspondence run of harness/props/C05.py.
Of the form conversions (C01's subject) only the final `new.copy(form="cartesian")` is modelled: `meanToCart` chains
its three edges, translated from forms.py (Generated/Propag, prefix `kp`), with the Newton loop of `Form.M2E` under a
fuel argument (`none` = the loop did not exit: the code's loop exits only on convergence).
`PropObj` models the propagator *object* (`_orbit`, written by the `orbit` setter) and `orbitPropagate` the call
`Orbit.propagate`, so that call histories on one object can be compared with the real code.
-/

/-- `keplerian_mean` elements `[a, e, i, Ω, ω, M]` -/
structure Elts where
  a : R
  e : R
  i : R
  raan : R
  argp : R
  M : R

/-- `Kepler.propagate` between the two form conversions (no wrap of `M`, as in the code) -/
def keplerStep (mu : R) (x : Elts) (dt : R) : Elts :=
  { x with M := keplerNewM mu x.a x.M dt }

def twoPi : R := (2 : R) * pi

/-- `J2.propagate` between the two form conversions:
`new = orbit[:] + delta; new[3:] = new[3:] % (2 * np.pi)` -/
def j2Step (mu : R) (x : Elts) (dt : R) : Elts :=
  match j2Delta mu x.a x.e x.i dt with
  | [d0, d1, d2, d3, d4, d5] =>
    { a := x.a + d0, e := x.e + d1, i := x.i + d2,
      raan := fmod (x.raan + d3) twoPi, argp := fmod (x.argp + d4) twoPi, M := fmod (x.M + d5) twoPi }
  | _ => x

/-- `while abs(X1 - X) >= tol: X = X1; X1 = next(X)` then `return X1`; `none` = fuel exhausted -/
def kpM2eLoop : Nat → R → R → R → R → Option R
  | 0, _, _, _, _ => none
  | fuel + 1, e, M, X, X1 => kpM2eContinue X1 X (kpM2eLoop fuel e M X1 (kpM2eNext X1 e M)) (some X1)

/-- `Form.M2E(e, M)`: prelude (the anomaly the iteration works on, the offset set aside), start value, Newton loop, result -/
def kpM2e (fuel : Nat) (e M : R) : Option R :=
  let off := kpM2eOffset e M
  let Mr := kpM2eArg e M
  let X := kpM2eStart e Mr
  (kpM2eLoop fuel e Mr X (kpM2eNext X e Mr)).map (fun X1 => kpM2eResult e X1 off)

def app6 (f : R → R → R → R → R → R → R → List R) (mu : R) : List R → List R
  | [c0, c1, c2, c3, c4, c5] => f mu c0 c1 c2 c3 c4 c5
  | _ => []

/-- the final `new.copy(form="cartesian")`: keplerian_mean → keplerian_eccentric (`M2E`) → keplerian → cartesian -/
def meanToCart (fuel : Nat) (mu : R) (x : Elts) : Option (List R) :=
  (kpM2e fuel x.e x.M).map (fun E => app6 kpKeplToCart mu (app6 kpEccToKepl mu [x.a, x.e, x.i, x.raan, x.argp, E]))

/-- the propagator object: `_orbit`, the mean elements stored by the `orbit` setter (`none` before the first use) -/
structure PropObj where
  orbit : Option Elts

/-- `propagator.orbit = orb` — `self._orbit = orbit.copy(form="keplerian_mean")`: converts and overwrites,
unconditionally (`x` = the mean elements of the caller's orbit *now*) -/
def PropObj.setOrbit (p : PropObj) (x : Elts) : PropObj := { orbit := some x }

/-- `Orbit.propagate(dt)`: `if self.propagator.orbit is not self: self.propagator.orbit = self` — the getter returns the
propagator's private converted copy, never the caller's object, so the setter runs on every call; then
`propagator.propagate` works on `_orbit`.  `stepf` is `keplerStep mu` or `j2Step mu`. -/
def orbitPropagate (stepf : Elts → R → Elts) (p : PropObj) (x : Elts) (dt : R) : PropObj × Option Elts :=
  let p' := p.setOrbit x
  (p', p'.orbit.map (fun o => stepf o dt))

end BeyondVerif.F
