/- GENERATED from lean/templates/Propag.tpl by harness/instantiate.py — edit the template. Float instantiation. -/
import BeyondVerif.NumFloat
import BeyondVerif.Generated.PropagF
namespace BeyondVerif.F
open BeyondVerif.NumFloat
set_option linter.unusedVariables false

/-!
Element-level model of the two analytical propagators of beyond/propagators (kepler.py, j2.py).
Both convert the orbit to the `keplerian_mean` form (orbit setter), update the six mean elements and
convert the result to `cartesian`.  The update itself is *translated from the Python source* on every
run (Generated/Propag: `meanMotion`, `keplerNewM`, `j2Delta`, the constants of beyond/constants.py);
this file only adds the glue (`new = orbit.copy(); new[5] = …` and `new = orbit[:] + delta;
new[3:] = new[3:] % (2π)`), tied by the correspondence run of harness/props/C05.py.
Of the form conversions (C01's subject) only the final `new.copy(form="cartesian")` is modelled: `meanToCart` chains
its three edges, translated from forms.py (Generated/Propag, prefix `kp`), with the Newton loop of `Form.M2E` under a
fuel argument (`none` = the loop did not exit: the code's loop exits only on convergence).
`PropObj` models the propagator *object* (`_orbit`, written by the `orbit` setter) and `orbitPropagate` the call
`Orbit.propagate`, so that call histories on one object can be compared with the real code.
-/

/-- `keplerian_mean` elements `[a, e, i, Ω, ω, M]` -/
structure Elts where
  a : R
  e : R
  i : R
  raan : R
  argp : R
  M : R

/-- `Kepler.propagate` between the two form conversions (no wrap of `M`, as in the code) -/
def keplerStep (mu : R) (x : Elts) (dt : R) : Elts :=
  { x with M := keplerNewM mu x.a x.M dt }

def twoPi : R := (2 : R) * pi

/-- `J2.propagate` between the two form conversions:
`new = orbit[:] + delta; new[3:] = new[3:] % (2 * np.pi)` -/
def j2Step (mu : R) (x : Elts) (dt : R) : Elts :=
  match j2Delta mu x.a x.e x.i dt with
  | [d0, d1, d2, d3, d4, d5] =>
    { a := x.a + d0, e := x.e + d1, i := x.i + d2,
      raan := fmod (x.raan + d3) twoPi, argp := fmod (x.argp + d4) twoPi, M := fmod (x.M + d5) twoPi }
  | _ => x

/-- `while abs(X1 - X) >= tol: X = X1; X1 = next(X)` then `return X1`; `none` = fuel exhausted -/
def kpM2eLoop : Nat → R → R → R → R → Option R
  | 0, _, _, _, _ => none
  | fuel + 1, e, M, X, X1 => kpM2eContinue X1 X (kpM2eLoop fuel e M X1 (kpM2eNext X1 e M)) (some X1)

/-- `Form.M2E(e, M)`: prelude (the anomaly the iteration works on, the offset set aside), start value, Newton loop, result -/
def kpM2e (fuel : Nat) (e M : R) : Option R :=
  let off := kpM2eOffset e M
  let Mr := kpM2eArg e M
  let X := kpM2eStart e Mr
  (kpM2eLoop fuel e Mr X (kpM2eNext X e Mr)).map (fun X1 => kpM2eResult e X1 off)

def app6 (f : R → R → R → R → R → R → R → List R) (mu : R) : List R → List R
  | [c0, c1, c2, c3, c4, c5] => f mu c0 c1 c2 c3 c4 c5
  | _ => []

/-- the final `new.copy(form="cartesian")`: keplerian_mean → keplerian_eccentric (`M2E`) → keplerian → cartesian -/
def meanToCart (fuel : Nat) (mu : R) (x : Elts) : Option (List R) :=
  (kpM2e fuel x.e x.M).map (fun E => app6 kpKeplToCart mu (app6 kpEccToKepl mu [x.a, x.e, x.i, x.raan, x.argp, E]))

/-! ### The way IN: the orbit setter on a cartesian orbit

`propagator.orbit = orb` runs `orb.copy(form="keplerian_mean")`; for an orbit held in cartesian form that is the chain
cartesian → keplerian → keplerian_eccentric → keplerian_mean (`kpCartToKepl`, `kpKeplToEcc`, `kpEccToMean`: translated from
forms.py on every run, like the way out).  `orbitPropagateCart` is the whole of `Orbit.propagate` on a cartesian orbit:
cartesian in, cartesian out. -/

/-- `orbit.copy(form="keplerian_mean")` of a cartesian orbit -/
def cartToMean (mu : R) (c : List R) : List R :=
  app6 kpEccToMean mu (app6 kpKeplToEcc mu (app6 kpCartToKepl mu c))

def eltsOfList : List R → Option Elts
  | [a, e, i, raan, argp, M] => some ⟨a, e, i, raan, argp, M⟩
  | _ => none

/-- `Orbit.propagate` on a cartesian orbit: setter (cartesian → mean), element update `stepf` (`keplerStep mu` / `j2Step mu`),
`new.copy(form="cartesian")`; `none` = the coordinates are not six numbers, or the M2E loop did not exit -/
def orbitPropagateCart (stepf : Elts → R → Elts) (fuel : Nat) (mu : R) (c : List R) (dt : R) : Option (List R) :=
  (eltsOfList (cartToMean mu c)).bind (fun x => meanToCart fuel mu (stepf x dt))

/-- the propagator object: `_orbit`, the mean elements stored by the `orbit` setter (`none` before the first use) -/
structure PropObj where
  orbit : Option Elts

/-- `propagator.orbit = orb` — `self._orbit = orbit.copy(form="keplerian_mean")`: converts and overwrites,
unconditionally (`x` = the mean elements of the caller's orbit *now*) -/
def PropObj.setOrbit (p : PropObj) (x : Elts) : PropObj := { orbit := some x }

/-- `Orbit.propagate(dt)`: `if self.propagator.orbit is not self: self.propagator.orbit = self` — the getter returns the
propagator's private converted copy, never the caller's object, so the setter runs on every call; then
`propagator.propagate` works on `_orbit`.  `stepf` is `keplerStep mu` or `j2Step mu`. -/
def orbitPropagate (stepf : Elts → R → Elts) (p : PropObj) (x : Elts) (dt : R) : PropObj × Option Elts :=
  let p' := p.setOrbit x
  (p', p'.orbit.map (fun o => stepf o dt))

/-! ### Propagation to a DATE

`Orbit.propagate` is handed a `Date` in any of the time scales (or a `timedelta`), the orbit's epoch is a `Date` in any of
the time scales.  Dates are those of the C03 model (Model/Date.lean: the instant on the reference scale TAI, `_d`/`_s`, plus
the own scale and its offset).  `keplerDeltaT`, `j2DeltaT` (the span `delta_t`) and `keplerTdTarget`, `j2TdTarget`
(`date = self.orbit.date + date` for a timedelta) are translated from the head of both `propagate` methods on every run
(Generated/Propag). -/

/-- an orbit as a propagator holds it: mean elements and the epoch -/
structure Orb where
  elts : Elts
  date : Date.Date

/-- `Kepler.propagate(date)`, `date` a `Date`: `delta_t` from the two dates, `new.date = date` -/
def keplerTo (mu : R) (o : Orb) (date : Date.Date) : Orb :=
  { elts := keplerStep mu o.elts (keplerDeltaT date o.date), date := date }

/-- `J2.propagate(date)`, `date` a `Date` -/
def j2To (mu : R) (o : Orb) (date : Date.Date) : Orb :=
  { elts := j2Step mu o.elts (j2DeltaT date o.date), date := date }

/-- `Kepler.propagate(timedelta)`: the target date is built first (`Date.__add__`, in the epoch's own scale; it may fail as
any `Date` construction may), then as for a date -/
def keplerToTd (cfg : Date.Cfg) (env : Date.Env) (mu : R) (o : Orb) (tdUs : Int) : Except Date.Err Orb :=
  match keplerTdTarget cfg env o.date tdUs with
  | .ok d => .ok (keplerTo mu o d)
  | .error e => .error e

/-- `J2.propagate(timedelta)` -/
def j2ToTd (cfg : Date.Cfg) (env : Date.Env) (mu : R) (o : Orb) (tdUs : Int) : Except Date.Err Orb :=
  match j2TdTarget cfg env o.date tdUs with
  | .ok d => .ok (j2To mu o d)
  | .error e => .error e

/-- the propagator object holding a dated orbit (`_orbit`: the converted copy, elements AND epoch) -/
structure PropObjD where
  orbit : Option Orb

/-- `Orbit.propagate(date)` on the object level: the setter overwrites `_orbit` with the caller's orbit as it is NOW
(elements and epoch), then the propagator works on `_orbit`.  `toF` is `keplerTo mu` or `j2To mu`. -/
def orbitPropagateTo (toF : Orb → Date.Date → Orb) (p : PropObjD) (o : Orb) (date : Date.Date) : PropObjD × Option Orb :=
  let p' : PropObjD := { orbit := some o }
  (p', p'.orbit.map (fun c => toF c date))

end BeyondVerif.F
