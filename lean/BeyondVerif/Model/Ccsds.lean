import BeyondVerif.Generated.CcsdsTables
import BeyondVerif.Model.CcsdsExt
/-!
Structural model of beyond/io/ccsds (commons.py, cov.py, opm.py, oem.py, omm.py, tdm.py).

* A leaf text is a token `Txt`: an opaque string, a number at its written precision (integer of the
  last written digit) or an index list (TDM `PATH`).  Float formatting / parsing and lxml's
  serialisation are *parameters* of the model (trusted, exercised by the correspondence run).
* XML documents are element trees `Elem`; `xml2dict` is modelled exactly, including the
  promote-to-list-on-second-sibling rule.  KVN documents are lists of tokenised `Line`s;
  `kvn2dict` is modelled exactly on them (maneuver grouping, comment attached to the next line).
* Readers and writers follow the Python functions branch for branch; tables (unit names, covariance
  key matrix, frame aliases, which XML groups the readers wrap into a list) come from
  `Generated/CcsdsTables.lean`, regenerated from the source on every run.

No Mathlib import: this file is linked into the native driver.
-/
namespace BeyondVerif.Ccsds
open BeyondVerif.Generated

inductive Txt
  | s (v : String)
  | n (v : Int)
  | l (v : List Nat)
deriving DecidableEq, Repr, Inhabited

abbrev Attrib := List (String × String)

inductive Elem
  | leaf (tag : String) (attrib : Attrib) (text : Txt)
  | node (tag : String) (children : List Elem)
deriving Repr

def Elem.tag : Elem → String
  | .leaf t _ _ => t
  | .node t _ => t

/-- result of `xml2dict` / `kvn2dict`: `Field`, nested dict (insertion ordered) or list -/
inductive Val
  | field (text : Txt) (attrib : Attrib)
  | dict (kvs : List (String × Val))
  | list (xs : List Val)
deriving Repr

abbrev Dict := List (String × Val)

inductive Err
  | keyError | typeError | attrError | ccsdsError | unboundLocal | valueError | nameError
deriving DecidableEq, Repr

abbrev R := Except Err

instance [DecidableEq α] : DecidableEq (R α) := fun a b =>
  match a, b with
  | .ok x, .ok y => if h : x = y then isTrue (by rw [h]) else isFalse (fun e => h (by cases e; rfl))
  | .error x, .error y => if h : x = y then isTrue (by rw [h]) else isFalse (fun e => h (by cases e; rfl))
  | .ok _, .error _ => isFalse (fun e => by cases e)
  | .error _, .ok _ => isFalse (fun e => by cases e)

/-! ### dict primitives -/

/-- `d[k] = v` on an insertion-ordered dict -/
def setKey (d : Dict) (k : String) (v : Val) : Dict :=
  match d with
  | [] => [(k, v)]
  | (k', v') :: r => if k' = k then (k, v) :: r else (k', v') :: setKey r k v

def Val.isList : Val → Bool
  | .list _ => true
  | _ => false

/-- one iteration of the loop body of `xml2dict._recurse`: first sibling stored as is, the second one
turns the entry into a two-element list, further ones are appended -/
def addChild (d : Dict) (tag : String) (v : Val) : Dict :=
  match d.lookup tag with
  | none => d ++ [(tag, v)]
  | some (.list xs) => setKey d tag (.list (xs ++ [v]))
  | some old => setKey d tag (.list [old, v])

mutual
/-- value contributed by a sub-element; `none` = `AttributeError` on `None.strip()` (element without text) -/
def recurse : Elem → Option Val
  | .leaf _ a t => if t = .s "" then none else some (.field t a)
  | .node _ cs => if cs.isEmpty then none else (recurseKids cs []).map .dict
def recurseKids : List Elem → Dict → Option Dict
  | [], d => some d
  | e :: es, d =>
    match recurse e with
    | none => none
    | some v => recurseKids es (addChild d e.tag v)
end

/-- `xml2dict(string)`: `_recurse(root)` -/
def xml2dict : Elem → R Dict
  | .leaf _ _ _ => .ok []
  | .node _ cs => match recurseKids cs [] with
    | none => .error .attrError
    | some d => .ok d

/-! ### KVN lines and `kvn2dict` -/

inductive Line
  | blank
  | comment (text : String)
  | kv (key : String) (val : Txt) (unit : Option String)
  | word (w : String)
  | row (vals : List Txt)
  | obs (key : String) (date val : Txt)
  | ud (name : String) (val : Txt)        -- `USER_DEFINED_<name> = <val>`
deriving DecidableEq, Repr

structure KvnSt where
  data : Dict := []
  mans : List Dict := []
  prev : Option String := none      -- comment on the line just before
deriving Repr

def unitAttrib : Option String → Attrib
  | none => []
  | some u => [("units", u)]

def appendLast (ms : List Dict) (k : String) (v : Val) : Option (List Dict) :=
  match ms.reverse with
  | [] => none
  | m :: r => some ((setKey m k v :: r).reverse)

/-- the `MAN_…` keys the writers produce (`key.startswith("MAN_")` is modelled on these) -/
def manKeys : List String :=
  ["MAN_EPOCH_IGNITION", "MAN_DURATION", "MAN_DELTA_MASS", "MAN_REF_FRAME", "MAN_DV_1", "MAN_DV_2", "MAN_DV_3"]

/-- user-defined lines are kept in a sub-dict under "USER_DEFINED" (re-encoding of the key prefix
`USER_DEFINED_`, so that no string is computed; same overwrite-on-equal-name behaviour) -/
def addUd (d : Dict) (name : String) (v : Val) : Dict :=
  match d.lookup "USER_DEFINED" with
  | some (.dict u) => setKey d "USER_DEFINED" (.dict (setKey u name v))
  | _ => setKey d "USER_DEFINED" (.dict [(name, v)])

/-- loop body of `kvn2dict` -/
def kvnStep (st : KvnSt) : Line → R KvnSt
  | .blank => .ok { st with prev := none }
  | .comment c => .ok { st with prev := some c }
  | .kv key val unit =>
    let f := Val.field val (unitAttrib unit)
    if manKeys.contains key then
      if key = "MAN_EPOCH_IGNITION" then
        let data := match st.data.lookup "maneuvers" with
          | none => st.data ++ [("maneuvers", .list [])]
          | some _ => st.data
        let man : Dict := match st.prev with
          | some c => [("COMMENT", .field (.s c) [])]
          | none => []
        .ok { data := data, mans := st.mans ++ [setKey man key f], prev := none }
      else match appendLast st.mans key f with
        | none => .error .unboundLocal
        | some ms => .ok { st with mans := ms, prev := none }
    else .ok { st with data := setKey st.data key f, prev := none }
  | .word w => .ok { st with data := setKey st.data w (.field (.s "") []), prev := none }
  | .row _ => .ok { st with data := setKey st.data "<row>" (.field (.s "") []), prev := none }
  | .obs key _ v => .ok { st with data := setKey st.data key (.field v []), prev := none }
  | .ud name v => .ok { st with data := addUd st.data name (.field v []), prev := none }

def kvnFold : List Line → KvnSt → R KvnSt
  | [], st => .ok st
  | l :: ls, st => match kvnStep st l with
    | .error e => .error e
    | .ok st' => kvnFold ls st'

def kvn2dict (ls : List Line) : R Dict :=
  match kvnFold ls {} with
  | .error e => .error e
  | .ok st => .ok (if st.mans.isEmpty then st.data else setKey st.data "maneuvers" (.list (st.mans.map .dict)))

/-! ### reader helpers -/

def getItem (d : Dict) (k : String) : R Val :=
  match d.lookup k with
  | some v => .ok v
  | none => .error .keyError

/-- `x.text` -/
def Val.text : Val → R Txt
  | .field t _ => .ok t
  | _ => .error .attrError

/-- `x["key"]` where `x` should be a dict -/
def Val.item (v : Val) (k : String) : R Val :=
  match v with
  | .dict d => getItem d k
  | _ => .error .typeError

def textOf (d : Dict) (k : String) : R Txt := do (← getItem d k).text

def strOf (d : Dict) (k : String) : R String := do
  match (← textOf d k) with
  | .s v => pure v
  | _ => .error .valueError

/-- `decode_unit(data, name, default)`: the text, provided its unit is a known one -/
def decodeUnit (d : Dict) (k : String) (dflt : String) : R Txt := do
  match (← getItem d k) with
  | .field t a =>
    let u := (a.lookup "units").getD dflt
    if unitNames.contains u then pure t else .error .ccsdsError
  | _ => .error .attrError

/-- iteration over what should be a list of sub-dicts.  `wrap`: the reader first turns a lone dict
into a one-element list.  Without it a lone dict is iterated over its *keys* and a lone `Field`
over its two components, which fails with `e` at the first use. -/
def iterGroup (wrap : Bool) (e : Err) : Val → R (List Val)
  | .list xs => .ok xs
  | .dict kvs => if wrap then .ok [.dict kvs] else if kvs.isEmpty then .ok [] else .error e
  | .field t a => if wrap then .ok [.field t a] else .error e

def asDict : Val → R Dict
  | .dict d => .ok d
  | _ => .error .typeError

/-! ### covariance (cov.py) -/

structure CovM where
  frame : Option String       -- `none`: expressed in the frame of the orbit
  tri : List Txt              -- lower triangle, row by row (21 values)
deriving DecidableEq, Repr

def covKey (i j : Nat) : String := (covWriteKeys[i]!)[j]!

/-- keys in the order of the writers' double loop -/
def covKeys : List String := covWriteKeys.flatten

def aliasOut (tbl : List (String × String)) (f : String) : String := (tbl.lookup f).getD f
def aliasIn (names : List String) (target : String) (f : String) : String := if names.contains f then target else f

/-- frame text written for a covariance: nothing when it is the orbit's own frame -/
def covFrameOut (c : CovM) : Option String := c.frame.map (aliasOut covAliasOut)

/-- `load_cov(orb, data)`; the 36 reads follow the regenerated key matrix, the result keeps the lower triangle -/
def loadCov (own : String) (d : Dict) : R CovM := do
  let frame ← match d.lookup "COV_REF_FRAME" with
    | some v => v.text >>= fun t => match t with
      | .s f => pure f
      | _ => .error .valueError
    | none => pure own
  let frame := aliasIn covAliasIn.1 covAliasIn.2 frame
  let full ← covRead.mapM fun row => row.mapM fun k => textOf d k
  let tri := (List.range 6).flatMap fun i => (List.range (i + 1)).map fun j => (full[i]!)[j]!
  pure { frame := if frame = own then none else some frame, tri := tri }

/-! ### OPM -/

structure Man where
  dur : Int                   -- ms; an `ImpulsiveMan` is written with 0
  epoch : Txt
  frame : Option String       -- `None`, "QSW", "TNW", …
  comment : Option String
  dv : List Txt               -- 3 values
deriving DecidableEq, Repr

structure Opm where
  name : String
  id : String
  frame : String
  scale : String
  epoch : Txt
  state : List Txt            -- X Y Z X_DOT Y_DOT Z_DOT
  kep : Option (List Txt)     -- optional osculating elements + GM (7), ignored by the readers
  cov : Option CovM
  mans : List Man
  ud : Option (List (String × String))   -- `_data["ccsds_user_defined"]` when present
deriving DecidableEq, Repr

def svKeys : List String := ["X", "Y", "Z", "X_DOT", "Y_DOT", "Z_DOT"]
def svUnit (k : String) : String := if ["X_DOT", "Y_DOT", "Z_DOT"].contains k then "km/s" else "km"
def kepKeys : List (String × Option String) :=
  [("SEMI_MAJOR_AXIS", some "km"), ("ECCENTRICITY", none), ("INCLINATION", some "deg"), ("RA_OF_ASC_NODE", some "deg"),
   ("ARG_OF_PERICENTER", some "deg"), ("TRUE_ANOMALY", some "deg"), ("GM", some "km**3/s**2")]

def frameOut (f : String) : R (String × String) :=
  match frameTable.lookup f with
  | some cr => .ok cr
  | none => .error .valueError

def header (versKey version : String) : List Line :=
  [.kv versKey (.s version) none, .kv "CREATION_DATE" (.s "now") none, .kv "ORIGINATOR" (.s "N/A") none]

def metaKvn (tag : Bool) (name id center frame scale : String) (extras : List (String × Txt)) : List Line :=
  (if tag then [Line.word "META_START"] else []) ++
  [.kv "OBJECT_NAME" (.s name) none, .kv "OBJECT_ID" (.s id) none, .kv "CENTER_NAME" (.s center) none,
   .kv "REF_FRAME" (.s frame) none, .kv "TIME_SYSTEM" (.s scale) none] ++
  extras.map (fun (k, v) => Line.kv k v none) ++
  (if tag then [Line.word "META_STOP"] else []) ++ [.blank]

def covKvn (c : CovM) : List Line :=
  [.blank] ++ (match covFrameOut c with | some f => [Line.kv "COV_REF_FRAME" (.s f) none] | none => []) ++
  (covKeys.zip c.tri).map fun (k, v) => Line.kv k v none

/-- frame text of a maneuver: the orbit's frame when `None`, aliased otherwise -/
def manFrameOut (own : String) (m : Man) : String :=
  match m.frame with
  | none => own
  | some f => aliasOut manAliasOut f

def manKvn (own : String) (m : Man) : List Line :=
  (match m.comment with | some c => [Line.blank, .comment c] | none => [.blank]) ++
  [.kv "MAN_EPOCH_IGNITION" m.epoch none, .kv "MAN_DURATION" (.n m.dur) (some "s"), .kv "MAN_DELTA_MASS" (.s "0.000") (some "kg"),
   .kv "MAN_REF_FRAME" (.s (manFrameOut own m)) none] ++
  (["MAN_DV_1", "MAN_DV_2", "MAN_DV_3"].zip m.dv).map fun (k, v) => Line.kv k v (some "km/s")

def udKvn : Option (List (String × String)) → List Line
  | none => []
  | some kvs => [.blank] ++ kvs.map fun (k, v) => Line.ud k (.s v)

/-- `opm._dumps_kvn` -/
def opmKvn (m : Opm) : R (List Line) := do
  let (center, rframe) ← frameOut m.frame
  pure <| header "CCSDS_OPM_VERS" "2.0" ++ [.blank] ++ metaKvn true m.name m.id center rframe m.scale [] ++
    [.comment "State Vector", .kv "EPOCH" m.epoch none] ++
    (svKeys.zip m.state).map (fun (k, v) => Line.kv k v (some (svUnit k))) ++
    (match m.kep with
     | some ks => [Line.blank, .comment "Keplerian elements"] ++ (kepKeys.zip ks).map fun ((k, u), v) => Line.kv k v u
     | none => []) ++
    (match m.cov with | some c => covKvn c | none => []) ++
    m.mans.flatMap (manKvn m.frame) ++
    udKvn m.ud

def leafS (tag : String) (v : String) : Elem := .leaf tag [] (.s v)

def headerXml : Elem := .node "header" [leafS "CREATION_DATE" "now", leafS "ORIGINATOR" "N/A"]

def metaXml (name id center frame scale : String) (extras : List (String × Txt)) : Elem :=
  .node "metadata" ([leafS "OBJECT_NAME" name, leafS "OBJECT_ID" id, leafS "CENTER_NAME" center, leafS "REF_FRAME" frame,
    leafS "TIME_SYSTEM" scale] ++ extras.map fun (k, v) => Elem.leaf k [] v)

def svXml (epoch : Txt) (state : List Txt) : Elem :=
  .node "stateVector" (Elem.leaf "EPOCH" [] epoch :: (svKeys.zip state).map fun (k, v) => Elem.leaf k [("units", svUnit k)] v)

def covXml (epoch : Option Txt) (c : CovM) : Elem :=
  .node "covarianceMatrix" (
    (match epoch with | some e => [Elem.leaf "EPOCH" [] e] | none => []) ++
    (match covFrameOut c with | some f => [leafS "COV_REF_FRAME" f] | none => []) ++
    (covKeys.zip c.tri).map fun (k, v) => Elem.leaf k [] v)

def manXml (own : String) (m : Man) : Elem :=
  .node "maneuverParameters" (
    (match m.comment with | some c => if c = "" then [] else [leafS "COMMENT" c] | none => []) ++
    [Elem.leaf "MAN_EPOCH_IGNITION" [] m.epoch, .leaf "MAN_DURATION" [("units", "s")] (.n m.dur),
     .leaf "MAN_DELTA_MASS" [("units", "kg")] (.s "-0.001"), leafS "MAN_REF_FRAME" (manFrameOut own m)] ++
    (["MAN_DV_1", "MAN_DV_2", "MAN_DV_3"].zip m.dv).map fun (k, v) => Elem.leaf k [("units", "km/s")] v)

def udLeaf (kv : String × String) : Elem := .leaf "USER_DEFINED" [("parameter", kv.1)] (.s kv.2)

def udXml : Option (List (String × String)) → List Elem
  | none => []
  | some [] => if xmlUdSkipsEmpty then [] else [.node "userDefinedParameters" []]
  | some kvs => [.node "userDefinedParameters" (kvs.map udLeaf)]

def kepXml (ks : List Txt) : Elem :=
  .node "keplerianElements" ((kepKeys.zip ks).map fun ((k, u), v) => Elem.leaf k (unitAttrib u) v)

/-- `opm._dumps_xml` -/
def opmXml (m : Opm) : R Elem := do
  let (center, rframe) ← frameOut m.frame
  pure <| .node "opm" [headerXml, .node "body" [.node "segment" [
    metaXml m.name m.id center rframe m.scale [],
    .node "data" ([svXml m.epoch m.state] ++
      m.kep.toList.map kepXml ++ m.cov.toList.map (covXml none) ++
      m.mans.map (manXml m.frame) ++ udXml m.ud)]]]

/-- the centre rule of the readers: `if center.lower() != "earth": frame = center.title().replace(" ", "")`, then the frame of that
name is looked up in the registry (`frameTable`: the ten Earth-centred frames and every frame centred elsewhere that the library can
create, regenerated from the live objects); an unregistered name is `UnknownFrameError` -/
def centreRule (center frame : String) : R String :=
  if center.toList.map CcsdsExt.low = "earth".toList then .ok frame
  else match frameTable.find? (fun e => e.1.toList = CcsdsExt.centerRead center.toList) with
    | some e => .ok e.1
    | none => .error .nameError

def keyErrToCcsds : R α → R α
  | .error .keyError => .error .ccsdsError
  | x => x

def loadMan (scaleFrame : String) (raw : Dict) : R Man := do
  let epoch ← textOf raw "MAN_EPOCH_IGNITION"
  let dur ← decodeUnit raw "MAN_DURATION" "s"
  let dur ← match dur with
    | .n d => pure d
    | _ => .error .valueError
  let f ← strOf raw "MAN_REF_FRAME"
  let f := aliasIn manAliasIn.1 manAliasIn.2 f
  let frame := if f ≠ scaleFrame then some f else none
  let _ ← textOf raw "MAN_DELTA_MASS"
  let comment ← match raw.lookup "COMMENT" with
    | some v => v.text >>= fun t => match t with
      | .s c => pure (some c)
      | _ => .error .valueError
    | none => pure none
  let dv ← ["MAN_DV_1", "MAN_DV_2", "MAN_DV_3"].mapM fun k => decodeUnit raw k "km/s"
  pure { dur := dur, epoch := epoch, frame := frame, comment := comment, dv := dv }

def loadSv (sv : Dict) : R (Txt × List Txt) := do
  let epoch ← textOf sv "EPOCH"
  let vx ← decodeUnit sv "X_DOT" "km/s"
  let vy ← decodeUnit sv "Y_DOT" "km/s"
  let vz ← decodeUnit sv "Z_DOT" "km/s"
  let x ← decodeUnit sv "X" "km"
  let y ← decodeUnit sv "Y" "km"
  let z ← decodeUnit sv "Z" "km"
  pure (epoch, [x, y, z, vx, vy, vz])

def kvnUd (data : Dict) : Option (List (String × String)) :=
  match data.lookup "USER_DEFINED" with
  | some (.dict u) =>
    let kvs := u.filterMap fun (k, v) =>
      match v with
      | .field (.s t) _ => some (k, t)
      | _ => none
    if kvs.isEmpty then none else some kvs
  | _ => none

/-- `opm._loads_kvn` on the dict built by `kvn2dict` -/
def opmFromKvnDict (data : Dict) : R Opm := do
  let (name, id, scale, frame, epoch, state) ← keyErrToCcsds (do
    let name ← strOf data "OBJECT_NAME"
    let id ← strOf data "OBJECT_ID"
    let scale ← strOf data "TIME_SYSTEM"
    let frame ← strOf data "REF_FRAME"
    let center ← strOf data "CENTER_NAME"
    let frame ← centreRule center frame
    let (epoch, state) ← loadSv data
    pure (name, id, scale, frame, epoch, state))
  let raws ← match data.lookup "maneuvers" with
    | some (.list xs) => xs.mapM asDict
    | some _ => .error .typeError
    | none => pure []
  let mans ← raws.mapM (loadMan frame)
  let cov ← if (data.lookup "CX_X").isSome then some <$> loadCov frame data else pure none
  pure { name := name, id := id, frame := frame, scale := scale, epoch := epoch, state := state, kep := none,
         cov := cov, mans := mans, ud := kvnUd data }

def loadOpmKvn (ls : List Line) : R Opm := do opmFromKvnDict (← kvn2dict ls)

def segPath (data : Dict) : R (Dict × Dict) := do
  let seg ← (← (← getItem data "body").item "segment")
    |> fun v => match v with
      | .dict d => pure d
      | _ => .error .typeError
  let md ← asDict (← getItem seg "metadata")
  let dt ← asDict (← getItem seg "data")
  pure (md, dt)

/-- `ud[field.attrib["parameter"]] = field.text` -/
def readUdField : Val → R (String × String)
  | .field (.s t) a => match a.lookup "parameter" with
    | some k => .ok (k, t)
    | none => .error .keyError
  | _ => .error .attrError

/-- the `userDefinedParameters` block of the OPM / OMM XML readers -/
def xmlUd (wrap : Bool) (dt : Dict) : R (Option (List (String × String))) := do
  match dt.lookup "userDefinedParameters" with
  | none => pure none
  | some udv =>
    let ud ← asDict udv
    match ud.lookup "USER_DEFINED" with
    | none => pure none
    | some g =>
      let fields ← iterGroup wrap .attrError g
      let kvs ← fields.mapM readUdField
      pure (if kvs.isEmpty then none else some kvs)

/-- the mandatory block of `opm._loads_xml` (inside `try … except KeyError`) -/
def opmHeadFromXml (md sv : Dict) : R (String × String × String × String × Txt × List Txt) :=
  keyErrToCcsds (do
    let name ← strOf md "OBJECT_NAME"
    let id ← strOf md "OBJECT_ID"
    let scale ← strOf md "TIME_SYSTEM"
    let frame ← strOf md "REF_FRAME"
    let center ← strOf md "CENTER_NAME"
    let frame ← centreRule center frame
    let (epoch, state) ← loadSv sv
    pure (name, id, scale, frame, epoch, state))

/-- the maneuver loop of `opm._loads_xml` -/
def opmMansFromXml (frame : String) (dt : Dict) : R (List Man) := do
  let raws ← match dt.lookup "maneuverParameters" with
    | some v => iterGroup wrapOpmManeuver .typeError v >>= fun xs => xs.mapM asDict
    | none => pure []
  raws.mapM (loadMan frame)

/-- `if cov: orb.cov = load_cov(orb, cov)` of the OPM / OMM XML readers -/
def covFromXml (frame : String) (dt : Dict) : R (Option CovM) :=
  match dt.lookup "covarianceMatrix" with
  | some v => do let c ← asDict v; some <$> loadCov frame c
  | none => pure none

/-- `opm._loads_xml` on the dict built by `xml2dict` -/
def opmFromXmlDict (data : Dict) : R Opm := do
  let (md, dt) ← segPath data
  let sv ← asDict (← getItem dt "stateVector")
  let (name, id, scale, frame, epoch, state) ← opmHeadFromXml md sv
  let mans ← opmMansFromXml frame dt
  let cov ← covFromXml frame dt
  let ud ← xmlUd wrapOpmUd dt
  pure { name := name, id := id, frame := frame, scale := scale, epoch := epoch, state := state, kep := none,
         cov := cov, mans := mans, ud := ud }

def loadOpmXml (e : Elem) : R Opm := do opmFromXmlDict (← xml2dict e)

/-! ### OMM -/

structure Omm where
  name : String
  id : String
  frame : String
  scale : String
  epoch : Txt
  elems : List Txt        -- MEAN_MOTION ECCENTRICITY INCLINATION RA_OF_ASC_NODE ARG_OF_PERICENTER MEAN_ANOMALY
  tle : List Txt          -- NORAD_CAT_ID ELEMENT_SET_NO REV_AT_EPOCH BSTAR MEAN_MOTION_DOT MEAN_MOTION_DDOT
  cov : Option CovM
  ud : Option (List (String × String))
  hasTle : Bool           -- the Orbit carries the `Tle` object it was made from (`data.tle`)
deriving DecidableEq, Repr

def ommElemKeys : List (String × Option String) :=
  [("MEAN_MOTION", some "rev/day"), ("ECCENTRICITY", none), ("INCLINATION", some "deg"), ("RA_OF_ASC_NODE", some "deg"),
   ("ARG_OF_PERICENTER", some "deg"), ("MEAN_ANOMALY", some "deg")]
def ommTleKeys : List (String × Option String) :=
  [("NORAD_CAT_ID", none), ("ELEMENT_SET_NO", none), ("REV_AT_EPOCH", none), ("BSTAR", some "1/ER"),
   ("MEAN_MOTION_DOT", some "rev/day**2"), ("MEAN_MOTION_DDOT", some "rev/day**3")]

/-- `omm._dumps_kvn` (needs `data.tle`) -/
def ommKvn (m : Omm) : R (List Line) := do
  let (center, rframe) ← frameOut m.frame
  if ommKvnNeedsTle ∧ ¬ m.hasTle then .error .attrError
  pure <| header "CCSDS_OMM_VERS" "2.0" ++ [.blank] ++
    metaKvn false m.name m.id center rframe m.scale [("MEAN_ELEMENT_THEORY", .s "SGP/SGP4")] ++
    [.blank, .kv "EPOCH" m.epoch none] ++ (ommElemKeys.zip m.elems).map (fun ((k, u), v) => Line.kv k v u) ++
    [.kv "GM" (.s "398600.8") (some "km**3/s**2"), .blank, .kv "EPHEMERIS_TYPE" (.s "0") none, .kv "CLASSIFICATION_TYPE" (.s "U") none] ++
    (ommTleKeys.zip m.tle).map (fun ((k, u), v) => Line.kv k v u) ++
    (match m.cov with | some c => covKvn c | none => []) ++ udKvn m.ud

/-- `omm._dumps_xml` (the units of the TLE parameters are not written) -/
def ommXml (m : Omm) : R Elem := do
  let (center, rframe) ← frameOut m.frame
  pure <| .node "omm" [headerXml, .node "body" [.node "segment" [
    metaXml m.name m.id center rframe m.scale [("MEAN_ELEMENT_THEORY", .s "SGP/SGP4")],
    .node "data" ([Elem.node "meanElements" ([Elem.leaf "EPOCH" [] m.epoch] ++
        (ommElemKeys.zip m.elems).map (fun ((k, u), v) => Elem.leaf k (unitAttrib u) v) ++
        [Elem.leaf "GM" [("units", "km**3/s**2")] (.s "398600.8")]),
      Elem.node "tleParameters" ([leafS "EPHEMERIS_TYPE" "0", leafS "CLASSIFICATION_TYPE" "U"] ++
        (ommTleKeys.zip m.tle).map (fun ((k, _), v) => Elem.leaf k [] v))] ++
      m.cov.toList.map (covXml none) ++ udXml m.ud)]]]

def loadOmmCore (md me tp : Dict) : R (String × String × String × String × Txt × List Txt × List Txt) := do
  let (name, id, scale, frame, epoch) ← keyErrToCcsds (do
    let name ← strOf md "OBJECT_NAME"
    let id ← strOf md "OBJECT_ID"
    let scale ← strOf md "TIME_SYSTEM"
    let frame ← strOf md "REF_FRAME"
    let epoch ← textOf me "EPOCH"
    pure (name, id, scale, frame, epoch))
  let theory ← strOf md "MEAN_ELEMENT_THEORY"
  if ¬ ommTheories.contains theory then .error .ccsdsError
  let (elems, tle) ← keyErrToCcsds (do
    let n ← decodeUnit me "MEAN_MOTION" "rev/day"
    let e ← textOf me "ECCENTRICITY"
    let i ← decodeUnit me "INCLINATION" "deg"
    let Om ← decodeUnit me "RA_OF_ASC_NODE" "deg"
    let om ← decodeUnit me "ARG_OF_PERICENTER" "deg"
    let M ← decodeUnit me "MEAN_ANOMALY" "deg"
    let norad ← textOf tp "NORAD_CAT_ID"
    let rev ← textOf tp "REV_AT_EPOCH"
    let elnb ← textOf tp "ELEMENT_SET_NO"
    let bstar ← decodeUnit tp "BSTAR" "1/ER"
    let ndot ← decodeUnit tp "MEAN_MOTION_DOT" "rev/day**2"
    let nddot ← decodeUnit tp "MEAN_MOTION_DDOT" "rev/day**3"
    pure ([n, e, i, Om, om, M], [norad, elnb, rev, bstar, ndot, nddot]))
  pure (name, id, scale, frame, epoch, elems, tle)

/-- `omm._loads_kvn` -/
def ommFromKvnDict (data : Dict) : R Omm := do
  let (name, id, scale, frame, epoch, elems, tle) ← loadOmmCore data data data
  let cov ← if (data.lookup "CX_X").isSome then some <$> loadCov frame data else pure none
  pure { name := name, id := id, frame := frame, scale := scale, epoch := epoch, elems := elems, tle := tle,
         cov := cov, ud := kvnUd data, hasTle := false }

def loadOmmKvn (ls : List Line) : R Omm := do ommFromKvnDict (← kvn2dict ls)

/-- `omm._loads_xml` -/
def ommFromXmlDict (data : Dict) : R Omm := do
  let (md, dt) ← segPath data
  let me ← asDict (← getItem dt "meanElements")
  let tp ← asDict (← getItem dt "tleParameters")
  let (name, id, scale, frame, epoch, elems, tle) ← loadOmmCore md me tp
  let cov ← covFromXml frame dt
  let ud ← xmlUd wrapOmmUd dt
  pure { name := name, id := id, frame := frame, scale := scale, epoch := epoch, elems := elems, tle := tle,
         cov := cov, ud := ud, hasTle := false }

def loadOmmXml (e : Elem) : R Omm := do ommFromXmlDict (← xml2dict e)

/-! ### OEM -/

structure Point where
  epoch : Txt
  state : List Txt
  cov : Option CovM
deriving DecidableEq, Repr

structure Seg where
  name : String
  id : String
  frame : String
  scale : String
  method : String                -- upper case, as written
  order : Option Txt             -- INTERPOLATION_DEGREE, absent for LINEAR
  points : List Point
deriving DecidableEq, Repr

abbrev Oem := List Seg

def segExtras (s : Seg) : List (String × Txt) :=
  [("START_TIME", (s.points.head?.map (·.epoch)).getD (.s "?")), ("STOP_TIME", (s.points.getLast?.map (·.epoch)).getD (.s "?")),
   ("INTERPOLATION", .s s.method)] ++ (match s.order with | some o => [("INTERPOLATION_DEGREE", o)] | none => [])

def triRows (tri : List Txt) : List (List Txt) :=
  (List.range 6).map fun i => (tri.drop (i * (i + 1) / 2)).take (i + 1)

def covBlockKvn (first : Bool) (p : Point) (c : CovM) : List Line :=
  (if first then [] else [Line.blank]) ++ [.kv "EPOCH" p.epoch none] ++
  (match covFrameOut c with | some f => [Line.kv "COV_REF_FRAME" (.s f) none] | none => []) ++
  (triRows c.tri).map Line.row

def covBlocksKvn : Bool → List Point → List Line
  | _, [] => []
  | first, p :: ps => match p.cov with
    | some c => covBlockKvn first p c ++ covBlocksKvn false ps
    | none => covBlocksKvn first ps

def segKvn (s : Seg) : R (List Line) := do
  if s.points.isEmpty then .error .valueError    -- `data.start` of an empty Ephem: IndexError
  let (center, rframe) ← frameOut s.frame
  let covs := covBlocksKvn true s.points
  pure <| metaKvn true s.name s.id center rframe s.scale (segExtras s) ++
    s.points.map (fun p => Line.row (p.epoch :: p.state)) ++
    (if covs.isEmpty then [] else [Line.blank, .blank, .word "COVARIANCE_START"] ++ covs ++ [.word "COVARIANCE_STOP", .blank])

/-- `oem._dumps_kvn` -/
def oemKvn (m : Oem) : R (List Line) := do
  let segs ← m.mapM segKvn
  pure <| header "CCSDS_OEM_VERS" "2.0" ++ [.blank] ++ (segs.map (· ++ [Line.blank, .blank, .blank])).flatten

def segXml (s : Seg) : R Elem := do
  if s.points.isEmpty then .error .valueError
  let (center, rframe) ← frameOut s.frame
  pure <| .node "segment" [metaXml s.name s.id center rframe s.scale (segExtras s),
    .node "data" (s.points.map (fun p => svXml p.epoch p.state) ++
      s.points.filterMap (fun p => p.cov.map (covXml (some p.epoch))))]

/-- `oem._dumps_xml` -/
def oemXml (m : Oem) : R Elem := do
  let segs ← m.mapM segXml
  pure <| .node "oem" [headerXml, .node "body" segs]

def setCovAt : List Point → Nat → CovM → List Point
  | [], _, _ => []
  | p :: ps, 0, c => { p with cov := some c } :: ps
  | p :: ps, i + 1, c => p :: setCovAt ps i c

/-- attach a covariance to the point with that epoch (`orbit_mapping[date]`) -/
def attachCov (pts : List Point) (epoch : Txt) (c : CovM) : R (List Point) :=
  if pts.any (·.epoch = epoch) then
    -- the mapping keeps the *last* orbit with that date
    let idx := (pts.length - 1) - ((pts.reverse.findIdx? (·.epoch = epoch)).getD 0)
    .ok (setCovAt pts idx c)
  else .error .ccsdsError

structure OemSt where
  done : List Seg := []
  cur : Option (List (String × Txt) × List Point) := none    -- mt of the current segment, its points
  mode : String := ""                                          -- "", "mt", "data", "covariance"
  covEpoch : Option Txt := none
  covFrame : Option String := none
  covRows : List (List Txt) := []
deriving Repr

def metaStr (m : List (String × Txt)) (k : String) : R String :=
  match m.lookup k with
  | some (.s v) => .ok v
  | some _ => .error .valueError
  | none => .error .keyError

def finishSeg (mt : List (String × Txt)) (pts : List Point) : R Seg := do
  let method := match mt.lookup "INTERPOLATION" with
    | some (.s v) => v
    | _ => "LAGRANGE"
  pure { name := ← metaStr mt "OBJECT_NAME", id := ← metaStr mt "OBJECT_ID", frame := ← metaStr mt "REF_FRAME",
         scale := ← metaStr mt "TIME_SYSTEM", method := method, order := mt.lookup "INTERPOLATION_DEGREE", points := pts }

def setMeta (m : List (String × Txt)) (k : String) (v : Txt) : List (String × Txt) :=
  match m with
  | [] => [(k, v)]
  | (k', v') :: r => if k' = k then (k, v) :: r else (k', v') :: setMeta r k v

/-- loop body of `oem._loads_kvn` -/
def oemStep (st : OemSt) (l : Line) : R OemSt :=
  match l with
  | .blank | .comment _ => .ok st
  | .word "META_START" =>
    -- a new dict is appended; the previous one stays in the list
    match st.cur with
    | some (mt, pts) => do
      let s ← finishSeg mt pts
      .ok { st with done := st.done ++ [s], cur := some ([], []), mode := "mt" }
    | none => .ok { st with cur := some ([], []), mode := "mt" }
  | .word "META_STOP" =>
    match st.cur with
    | none => .error .unboundLocal
    | some (mt, pts) => do
      if ¬ ["REF_FRAME", "CENTER_NAME", "TIME_SYSTEM", "OBJECT_ID", "OBJECT_NAME"].all (fun k => (mt.lookup k).isSome) then
        throw Err.ccsdsError
      let center ← metaStr mt "CENTER_NAME"
      let frame ← metaStr mt "REF_FRAME"
      let frame ← centreRule center frame
      .ok { st with cur := some (setMeta mt "REF_FRAME" (.s frame), pts), mode := "data" }
  | .word "COVARIANCE_START" => .ok { st with mode := "covariance" }
  | .word "COVARIANCE_STOP" => .ok { st with mode := "" }
  | .word _ => .error .valueError
  | .kv k v _ =>
    if st.mode = "mt" then
      match st.cur with
      | some (mt, pts) => .ok { st with cur := some (setMeta mt k v, pts) }
      | none => .error .unboundLocal
    else if st.mode = "covariance" then
      if k = "EPOCH" then .ok { st with covEpoch := some v, covFrame := none, covRows := [] }
      else if k = "COV_REF_FRAME" then
        match v with
        | .s f => .ok { st with covFrame := some f }
        | _ => .error .valueError
      else .error .valueError
    else if st.mode = "" then .ok st      -- header lines before the first META_START
    else .error .valueError
  | .row vals =>
    if st.mode = "data" then
      match st.cur, vals with
      | some (mt, pts), epoch :: state => .ok { st with cur := some (mt, pts ++ [{ epoch := epoch, state := state.take 6, cov := none }]) }
      | _, _ => .error .valueError
    else if st.mode = "covariance" then
      let rows := st.covRows ++ [vals]
      if vals.length = 6 then
        match st.cur, st.covEpoch with
        | some (mt, pts), some ep => do
          -- rows are stored under the key names given by their length
          let byLen := fun n => (rows.reverse.find? (·.length = n)).getD []
          let d : Dict := (match st.covFrame with | some f => [("COV_REF_FRAME", Val.field (.s f) [])] | none => []) ++
            ((List.range 6).flatMap fun i => (oemCovRowKeys[i]!.zip (byLen (i + 1))).map fun (k, v) => (k, Val.field v []))
          let frame ← metaStr mt "REF_FRAME"
          let c ← loadCov frame d
          let pts ← attachCov pts ep c
          .ok { st with cur := some (mt, pts), covRows := rows }
        | _, _ => .error .unboundLocal
      else if vals.length > 6 then .error .ccsdsError
      else .ok { st with covRows := rows }
    else .error .valueError
  | .obs _ _ _ => .error .valueError
  | .ud _ _ => .error .valueError

def oemFold : List Line → OemSt → R OemSt
  | [], st => .ok st
  | l :: ls, st => match oemStep st l with
    | .error e => .error e
    | .ok st' => oemFold ls st'

/-- `oem._loads_kvn` -/
def loadOemKvn (ls : List Line) : R Oem := do
  let st ← oemFold ls {}
  match st.cur with
  | some (mt, pts) => do pure (st.done ++ [← finishSeg mt pts])
  | none => pure st.done

/-- body of the `for statevector in …` loop of `oem._loads_xml` -/
def loadPointXml (md : Dict) (v : Val) : R Point := do
  let d ← asDict v
  let x ← decodeUnit d "X" "km"
  let y ← decodeUnit d "Y" "km"
  let z ← decodeUnit d "Z" "km"
  let vx ← decodeUnit d "X_DOT" "km/s"
  let vy ← decodeUnit d "Y_DOT" "km/s"
  let vz ← decodeUnit d "Z_DOT" "km/s"
  let epoch ← textOf d "EPOCH"
  let _ ← strOf md "TIME_SYSTEM"
  let _ ← strOf md "OBJECT_NAME"
  let _ ← strOf md "OBJECT_ID"
  pure ({ epoch := epoch, state := [x, y, z, vx, vy, vz], cov := none } : Point)

def loadSegXml (seg : Dict) : R Seg := keyErrToCcsds do
  let md ← asDict (← getItem seg "metadata")
  let dt ← asDict (← getItem seg "data")
  let frame ← strOf md "REF_FRAME"
  let center ← strOf md "CENTER_NAME"
  let frame ← centreRule center frame
  let svs ← iterGroup wrapOemStateVector .typeError (← getItem dt "stateVector")
  let pts ← svs.mapM (loadPointXml md)
  let covs ← match dt.lookup "covarianceMatrix" with
    | some v => iterGroup wrapOemCov .typeError v
    | none => pure []
  let pts ← covs.foldlM (fun pts v => do
    let c ← asDict v
    let ep ← textOf c "EPOCH"
    let _ ← strOf md "TIME_SYSTEM"
    if pts.any (·.epoch = ep) then
      let cm ← loadCov frame c
      attachCov pts ep cm
    else .error .ccsdsError) pts
  let method := match md.lookup "INTERPOLATION" with
    | some (.field (.s v) _) => v
    | _ => "LAGRANGE"
  let order ← match md.lookup "INTERPOLATION_DEGREE" with
    | some v => some <$> v.text
    | none => pure none
  pure { name := ← strOf md "OBJECT_NAME", id := ← strOf md "OBJECT_ID", frame := frame, scale := ← strOf md "TIME_SYSTEM",
         method := method, order := order, points := pts }

/-- `oem._loads_xml` -/
def oemFromXmlDict (data : Dict) : R Oem := do
  let segsV ← (← getItem data "body").item "segment"
  let segs ← iterGroup wrapOemSegment .typeError segsV
  segs.mapM fun v => do loadSegXml (← asDict v)

def loadOemXml (e : Elem) : R Oem := do oemFromXmlDict (← xml2dict e)

/-! ### TDM -/

structure Obs where
  kind : String          -- class name: Range | Azimut | Elevation | Doppler
  path : List String
  epoch : Txt
  value : Txt
deriving DecidableEq, Repr

structure Tdm where
  scale : String
  obs : List Obs
deriving DecidableEq, Repr

/-- `PARTICIPANT_<i>`; sorting these keys as strings is sorting by `i` as long as `i ≤ 9` -/
def participantKeys : List String :=
  ["PARTICIPANT_1", "PARTICIPANT_2", "PARTICIPANT_3", "PARTICIPANT_4", "PARTICIPANT_5", "PARTICIPANT_6", "PARTICIPANT_7",
   "PARTICIPANT_8", "PARTICIPANT_9"]

def dedup [BEq α] : List α → List α
  | [] => []
  | x :: xs => x :: (dedup xs).filter (fun y => !(y == x))

def tdmName (kind : String) : R String :=
  match tdmNames.lookup kind with
  | some n => .ok n
  | none => .error .unboundLocal     -- `encode_measurement` falls through every branch

/-- `collect_metadata(path, measure_set)` -/
def tdmMeta (scale : String) (path : List String) (set : List Obs) : List (String × Txt) :=
  let parts := dedup path
  let idx := path.map fun p => (parts.idxOf p) + 1
  let types := dedup (set.map (·.kind))
  [("TIME_SYSTEM", Txt.s scale), ("START_TIME", (set.head?.map (·.epoch)).getD (.s "?")), ("STOP_TIME", (set.getLast?.map (·.epoch)).getD (.s "?"))] ++
  (participantKeys.zip parts).map (fun (k, p) => (k, Txt.s p)) ++
  [("MODE", .s "SEQUENTIAL"), ("PATH", .l idx)] ++
  (if tdmRangeTrig.any types.contains then [("RANGE_UNITS", Txt.s "km")] else []) ++
  (if tdmAngleTrig.any types.contains then [("ANGLE_TYPE", Txt.s "AZEL")] else [])

def tdmSets (m : Tdm) : List (List String × List Obs) :=
  (dedup (m.obs.map (·.path))).map fun p => (p, m.obs.filter (·.path == p))

/-- `tdm._dumps_kvn` -/
def tdmKvn (m : Tdm) : R (List Line) := do
  if (tdmSets m).any (fun ps => (dedup ps.1).length > 9) then .error .valueError   -- more participants than modelled
  let segs ← (tdmSets m).mapM fun (path, set) => do
    let obs ← set.mapM fun o => do pure (Line.obs (← tdmName o.kind) o.epoch o.value)
    pure <| [Line.word "META_START"] ++ (tdmMeta m.scale path set).map (fun (k, v) => Line.kv k v none) ++
      [.word "META_STOP", .blank, .word "DATA_START"] ++ obs ++ [.word "DATA_STOP", .blank]
  pure <| header "CCSDS_TDM_VERS" "1.0" ++ [.blank] ++ segs.flatten

/-- one `observation` element -/
def obsXml (o : Obs) : R Elem := do
  pure (Elem.node "observation" [Elem.leaf "EPOCH" [] o.epoch, Elem.leaf (← tdmName o.kind) [] o.value])

/-- `tdm._dumps_xml` -/
def tdmXml (m : Tdm) : R Elem := do
  if (tdmSets m).any (fun ps => (dedup ps.1).length > 9) then .error .valueError
  let segs ← (tdmSets m).mapM fun (path, set) => do
    let obs ← set.mapM obsXml
    pure <| Elem.node "segment" [.node "metadata" ((tdmMeta m.scale path set).map fun (k, v) => Elem.leaf k [] v), .node "data" obs]
  pure <| .node "tdm" [headerXml, .node "body" segs]

def tdmPath (mt : List (String × Txt)) : R (List String) := do
  let parts : List Txt := participantKeys.filterMap fun k => mt.lookup k
  match mt.lookup "PATH" with
  | some (.l idx) => idx.mapM fun i =>
      if i = 0 then
        match parts.getLast? with      -- participants[-1]
        | some (.s p) => pure p
        | _ => .error .valueError
      else match parts[i - 1]? with
        | some (.s p) => pure p
        | _ => .error .valueError
  | some _ => .error .valueError
  | none => .error .keyError

/-- class chosen by the readers for a data key (table regenerated from the `if key == …` chains) -/
def tdmKind (key : String) (angleType : R String) : R String :=
  match tdmReadKinds.lookup key with
  | some (cls, needsAngle) =>
    if needsAngle then do
      if (← angleType) = "AZEL" then pure cls else .error .ccsdsError
    else .ok cls
  | none => .error .ccsdsError

structure TdmSt where
  mt : List (String × Txt) := []
  sets : List (List Obs) := []
  mode : String := "mt"
  path : List String := []
  scale : String := ""
deriving Repr

/-- loop body of `tdm._loads_kvn`; `mt` is never reset between segments -/
def tdmStep (st : TdmSt) (l : Line) : R TdmSt :=
  match l with
  | .blank | .comment _ => .ok st
  | .word "DATA_START" => do
    let path ← tdmPath st.mt
    let scale ← metaStr st.mt "TIME_SYSTEM"
    .ok { st with path := path, scale := scale, mode := "data", sets := st.sets ++ [[]] }
  | .word "DATA_STOP" => .ok { st with mode := "mt" }
  | .word w => if st.mode = "mt" then .ok { st with mt := setMeta st.mt w (.s "") } else .error .valueError
  | .kv k v _ => if st.mode = "mt" then .ok { st with mt := setMeta st.mt k v } else .error .valueError
  | .obs key date v =>
    if st.mode = "mt" then .error .valueError else do
    let kind ← tdmKind key (match st.mt.lookup "ANGLE_TYPE" with
      | some (.s a) => .ok a
      | some _ => .error .valueError
      | none => .error .keyError)
    match st.sets.reverse with
    | [] => .error .unboundLocal
    | cur :: r => .ok { st with sets := ((cur ++ [{ kind := kind, path := st.path, epoch := date, value := v }]) :: r).reverse }
  | .row _ => .error .valueError
  | .ud _ _ => .error .valueError

def tdmFold : List Line → TdmSt → R TdmSt
  | [], st => .ok st
  | l :: ls, st => match tdmStep st l with
    | .error e => .error e
    | .ok st' => tdmFold ls st'

/-- `tdm._loads_kvn`: the list of measure sets (a single one is returned bare by the code) -/
def loadTdmKvn (ls : List Line) : R (String × List (List Obs)) := do
  let st ← tdmFold ls {}
  pure (st.scale, st.sets)

/-- body of the `for obs in …` loop of `tdm._loads_xml` -/
def loadObsXml (angle : Option String) (path : List String) (v : Val) : R Obs := do
  let d ← asDict v
  let date ← textOf d "EPOCH"
  match d.filter (fun kv => kv.1 ≠ "EPOCH") with
  | (key, fv) :: _ => do
    let value ← fv.text
    let kind ← tdmKind key (match angle with
      | some a => .ok a
      | none => .error .unboundLocal)
    pure ({ kind := kind, path := path, epoch := date, value := value } : Obs)
  | [] => .error .valueError

/-- one segment of `tdm._loads_xml`; `angle` is the local variable `angle_type`, which survives from
one segment to the next -/
def loadTdmSegXml (angle : Option String) (seg : Dict) : R (Option String × String × List Obs) := do
  let mdv ← asDict (← getItem seg "metadata")
  let mt ← mdv.mapM fun (k, v) => do pure (k, ← v.text)
  let path ← tdmPath mt
  let scale ← metaStr mt "TIME_SYSTEM"
  let angle ← match mt.lookup "ANGLE_TYPE" with
    | some (.s a) => pure (some a)
    | some _ => .error .valueError
    | none => pure angle
  let dt ← asDict (← getItem seg "data")
  let obsV ← iterGroup wrapTdmObservation .attrError (← getItem dt "observation")
  let obs ← obsV.mapM (loadObsXml angle path)
  pure (angle, scale, obs)

def tdmSegsXml : List Val → Option String → R (List (String × List Obs))
  | [], _ => .ok []
  | v :: vs, angle => do
    let (angle, scale, obs) ← loadTdmSegXml angle (← asDict v)
    let rest ← tdmSegsXml vs angle
    pure ((scale, obs) :: rest)

/-- `tdm._loads_xml` -/
def tdmFromXmlDict (data : Dict) : R (String × List (List Obs)) := do
  let segsV ← (← getItem data "body").item "segment"
  let segs ← iterGroup wrapTdmSegment .typeError segsV
  let sets ← tdmSegsXml segs none
  pure ((sets.getLast?.map (·.1)).getD "", sets.map (·.2))

def loadTdmXml (e : Elem) : R (String × List (List Obs)) := do tdmFromXmlDict (← xml2dict e)

/-- the loaded TDM handed to `dumps` again: a single set is a `MeasureSet`; a list of sets is accepted only
if `detect2dump` / `tdm.dumps` know about it -/
def tdmOfSets (r : String × List (List Obs)) : R Tdm :=
  match r.2 with
  | [set] => .ok { scale := r.1, obs := set }
  | sets => if tdmDumpsAcceptsList then .ok { scale := r.1, obs := sets.flatten } else .error .typeError

end BeyondVerif.Ccsds
