/- GENERATED from lean/templates/Man.tpl by harness/instantiate.py — edit the template. Float instantiation. -/
import BeyondVerif.NumFloat
import BeyondVerif.Generated.LocalF
import BeyondVerif.Generated.DkepF
import BeyondVerif.Generated.AccelSrcF
import BeyondVerif.Generated.KepPlaneF
import BeyondVerif.Generated.AccelLoopSrc
import BeyondVerif.Generated.FrameNames
namespace BeyondVerif.F
open BeyondVerif.NumFloat
set_option linter.unusedVariables false

/-!
Hand-written part of the model of beyond/frames/local.py `to_local`, beyond/orbits/man.py
`ImpulsiveMan.dv` / `ContinuousMan.accel` (projection) and of the orbit-attached frames of
beyond/frames/frames.py (`orbit2frame` + `Frame.transform` + `LocalOrbitalOrientation`), on top of
`toQsw`, `toTnw`, `dkep…` translated from the source (Generated/Local*.lean, Generated/Dkep*.lean).
-/

/-- frame tag of a maneuver after `frame.upper()`; anything that is not "QSW"/"TNW" (None, the name of
an inertial frame, "RSW", …) means: the axes of the orbit's own frame -/
inductive Tag where
  | qsw
  | tnw
  | other

/-- `to_local(frame, orbit, expanded=False)` for the two known tags (`other` raises ValueError in the
code; the projection functions below never call it with `other`) -/
def toLocal (t : Tag) (pos vel : V3) : M3 :=
  match t with
  | Tag.qsw => toQsw pos vel
  | Tag.tnw => toTnw pos vel
  | Tag.other => M3.ident

/-- `ImpulsiveMan.dv(orb)` / `ContinuousMan.accel(orb)`:
`mat = to_local(frame, orb, expanded=False).T if frame in ("QSW", "TNW") else identity; mat @ vector` -/
def manProject (t : Tag) (pos vel d : V3) : V3 :=
  match t with
  | Tag.qsw => (toQsw pos vel).tMulVec d
  | Tag.tnw => (toTnw pos vel).tMulVec d
  | Tag.other => d

/-- `ContinuousMan.__init__`: `accel = dv / duration` when `dv` is given -/
def accelOfDv (dv : V3) (duration : R) : V3 := V3.divS dv duration

/-- `KeplerianImpulsiveMan.dv`: `to_tnw(orb).T @ [dv_t, 0, dv_w]` -/
def kepManDv (pos vel : V3) (dv_t dv_w : R) : V3 := (toTnw pos vel).tMulVec ⟨dv_t, 0, dv_w⟩

/-- `KeplerianContinuousMan.accel`: `self._accel = dkep2dv(orb, …) / self.duration.total_seconds()`, then the projection of
`ContinuousMan.accel` with the forced frame TNW -/
def kepContAccel (pos vel : V3) (mu a i v da di dOmega duration : R) : V3 :=
  manProject Tag.tnw pos vel (accelOfDv ⟨dkepDvT mu a i v da di dOmega, 0, dkepDvW mu a i v da di dOmega⟩ duration)

/-- state = (position, velocity) -/
structure St where
  p : V3
  v : V3

/-- parent frame → frame attached to the state `ref` with local orientation `t`
(`Frame.transform`: `m @ orb + offset`, `m` = inverse of `expand(to_local(..).T)`, `offset = -(m @ ref)`;
no rate term: positions and velocities are rotated alike).  For `other` the attached frame keeps the
axes of the parent (orientation=None). -/
def frameTo (t : Tag) (ref x : St) : St :=
  let m := toLocal t ref.p ref.v
  ⟨m.mulVec (V3.sub x.p ref.p), m.mulVec (V3.sub x.v ref.v)⟩

/-- attached frame → parent frame: `expand(to_local(..).T) @ y + ref` -/
def frameFrom (t : Tag) (ref y : St) : St :=
  let m := toLocal t ref.p ref.v
  ⟨V3.add (m.tMulVec y.p) ref.p, V3.add (m.tMulVec y.v) ref.v⟩

/-- a maneuver of `orbit.maneuvers` as one evaluation of `_accel` sees it: `on` = `isinstance(man, ContinuousMan)
and man.check(orb.date)`, its frame tag and stated acceleration -/
structure ContMan where
  on : Bool
  tag : Tag
  acc : V3

/-- `KeplerNum._accel(orb)[3:]` for the attracting bodies `(µ, position at orb.date)` and the maneuvers of the
orbit: the regenerated loop program run by the fixed interpreter (`none`: the program reads an unbound loop variable) -/
def accelOf (pos vel : V3) (bodies : List (R × V3)) (mans : List ContMan) : Option V3 :=
  BeyondVerif.AccelLoop.run V3.add (fun b => gravTerm b.1 b.2 pos)
    (fun m => if m.on then some (manProject m.tag pos vel m.acc) else none) bodies mans V3.zero
    BeyondVerif.Generated.AccelLoopSrc.accelProg

/-! ### centres

The reference orbit is given relative to the centre of the frame it is expressed in (`cRef`), the converted state
relative to the centre of its own frame (`cX`); `cParent` is the centre of the `parent` argument.  All centres and vectors
are expressed in one common inertial frame.  `orbit2frame` hangs the centre of the new frame under one of the two centres
(`Generated/FrameNames.centreLinkedTo`, read from the `add_link` call) with the reference orbit as offset; the local
orbital axes are those of the reference orbit seen from the parent (`sv.copy(frame=self.parent)`). -/

def St.add (a b : St) : St := ⟨V3.add a.p b.p, V3.add a.v b.v⟩
def St.sub (a b : St) : St := ⟨V3.sub a.p b.p, V3.sub a.v b.v⟩

/-- the centre the new centre is linked under -/
def linkCentre (l : BeyondVerif.Generated.FrameNames.CentreLink) (cRef cParent : St) : St :=
  match l with
  | BeyondVerif.Generated.FrameNames.CentreLink.refFrameCentre => cRef
  | BeyondVerif.Generated.FrameNames.CentreLink.parentCentre => cParent

/-- origin of the frame attached to `ref`: the linked centre plus the offset `ref` -/
def frameOrigin (l : BeyondVerif.Generated.FrameNames.CentreLink) (cRef cParent ref : St) : St :=
  St.add (linkCentre l cRef cParent) ref

/-- state `x` (relative to `cX`) converted into the frame attached to `ref` (relative to `cRef`) -/
def frameToC (l : BeyondVerif.Generated.FrameNames.CentreLink) (t : Tag) (cRef cParent cX ref x : St) : St :=
  let seen := St.sub (St.add cRef ref) cParent
  let m := toLocal t seen.p seen.v
  let d := St.sub (St.add cX x) (frameOrigin l cRef cParent ref)
  ⟨m.mulVec d.p, m.mulVec d.v⟩

end BeyondVerif.F
