/- GENERATED from lean/templates/Vec3.tpl by harness/instantiate.py — edit the template. Real instantiation. -/
import BeyondVerif.NumReal
noncomputable section
namespace BeyondVerif.R
open BeyondVerif.NumReal
open Classical
set_option linter.unusedVariables false

/-!
3-vectors and 3×3 matrices given by their rows — the vocabulary the numpy vector code of
beyond/frames/local.py is translated into by `py2lean.translate_vec_function`.
`V3.norm` is `numpy.linalg.norm` of a length-3 array: the square root of the sum of squares.
-/

@[ext] structure V3 where
  x : R
  y : R
  z : R

namespace V3
def dot (a b : V3) : R := a.x * b.x + a.y * b.y + a.z * b.z
/-- `numpy.cross` -/
def cross (a b : V3) : V3 := ⟨a.y * b.z - a.z * b.y, a.z * b.x - a.x * b.z, a.x * b.y - a.y * b.x⟩
def norm (a : V3) : R := sqrt (a.x * a.x + a.y * a.y + a.z * a.z)
def divS (a : V3) (s : R) : V3 := ⟨a.x / s, a.y / s, a.z / s⟩
def smul (s : R) (a : V3) : V3 := ⟨s * a.x, s * a.y, s * a.z⟩
def add (a b : V3) : V3 := ⟨a.x + b.x, a.y + b.y, a.z + b.z⟩
def sub (a b : V3) : V3 := ⟨a.x - b.x, a.y - b.y, a.z - b.z⟩
def neg (a : V3) : V3 := ⟨-a.x, -a.y, -a.z⟩
def zero : V3 := ⟨0, 0, 0⟩
def toList (a : V3) : List R := [a.x, a.y, a.z]
end V3

/-- a 3×3 matrix as its three rows (`np.array([r0, r1, r2])`) -/
structure M3 where
  r0 : V3
  r1 : V3
  r2 : V3

namespace M3
/-- `M @ v` -/
def mulVec (m : M3) (v : V3) : V3 := ⟨V3.dot m.r0 v, V3.dot m.r1 v, V3.dot m.r2 v⟩
/-- `M.T @ v` -/
def tMulVec (m : M3) (v : V3) : V3 :=
  ⟨m.r0.x * v.x + m.r1.x * v.y + m.r2.x * v.z,
   m.r0.y * v.x + m.r1.y * v.y + m.r2.y * v.z,
   m.r0.z * v.x + m.r1.z * v.y + m.r2.z * v.z⟩
/-- determinant: r0 · (r1 × r2) -/
def det (m : M3) : R := V3.dot m.r0 (V3.cross m.r1 m.r2)
def ident : M3 := ⟨⟨1, 0, 0⟩, ⟨0, 1, 0⟩, ⟨0, 0, 1⟩⟩
def toList (m : M3) : List R := m.r0.toList ++ m.r1.toList ++ m.r2.toList
end M3

end BeyondVerif.R
