import BeyondVerif.Model.Date
/-!
`DateRange.__iter__` on full dates (C04): `date = start; while date ⋈ stop: yield date; date += step`, the comparison on
`_datetime`, the step through `Date.__add__`.  C03's `Range` is the same loop on instants only; here every yielded date
keeps its label, offset and EOP record, which is what frame conversions of the points of an ephemeris read.
No Mathlib import: linked into the driver.
-/
namespace BeyondVerif.Date

/-- the loop condition of `__iter__` on dates -/
def rangeGo (stop : Date) (stepUs : Int) (incl : Bool) (cur : Date) : Bool :=
  if stepUs > 0 then (if incl then cur.le stop else cur.lt stop) else (if incl then cur.ge stop else cur.gt stop)

/-- the dates yielded from `cur` on; `.error .fuel` = fuel exhausted -/
def rangeIter (cfg : Cfg) (env : Env) (stop : Date) (stepUs : Int) (incl : Bool) : Nat → Date → Except Err (List Date)
  | 0, _ => .error .fuel
  | fuel + 1, cur =>
    if rangeGo stop stepUs incl cur then
      match add cfg env cur stepUs with
      | .error e => .error e
      | .ok nxt =>
        match rangeIter cfg env stop stepUs incl fuel nxt with
        | .error e => .error e
        | .ok l => .ok (cur :: l)
    else .ok []

/-! ### a table indexed by dates

The tabulated points of an interpolator (`DatedInterp.dates`), a memo of earlier requests, the maneuvers of an orbit: a
list of dated values consulted with a request.  `nodeLookup key tbl q` is the Python idiom `{key(node): value}.get(key(q))`
(first node wins).  Which `key` is used decides whether the answer depends on the label: see `C04.nodeLookup_by_instant`
(key = what `Date.__hash__` / `__eq__` / `_mjd` see) and `C04W.reading_key_confuses_labels` (key = `.datetime`). -/

def nodeLookup {κ β : Type} [DecidableEq κ] (key : Date → κ) (tbl : List (Date × β)) (q : Date) : Option β :=
  (tbl.find? (fun n => decide (key n.1 = key q))).map (fun n => n.2)

end BeyondVerif.Date
