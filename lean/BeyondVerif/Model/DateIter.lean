import BeyondVerif.Model.Date
/-!
`DateRange.__iter__` on full dates (C04): `date = start; while date ⋈ stop: yield date; date += step`, the comparison on
`_datetime`, the step through `Date.__add__`.  C03's `Range` is the same loop on instants only; here every yielded date
keeps its label, offset and EOP record, which is what frame conversions of the points of an ephemeris read.
No Mathlib import: linked into the driver.
-/
namespace BeyondVerif.Date

/-- the loop condition of `__iter__` on dates -/
def rangeGo (stop : Date) (stepUs : Int) (incl : Bool) (cur : Date) : Bool :=
  if stepUs > 0 then (if incl then cur.le stop else cur.lt stop) else (if incl then cur.ge stop else cur.gt stop)

/-- the dates yielded from `cur` on; `.error .fuel` = fuel exhausted -/
def rangeIter (cfg : Cfg) (env : Env) (stop : Date) (stepUs : Int) (incl : Bool) : Nat → Date → Except Err (List Date)
  | 0, _ => .error .fuel
  | fuel + 1, cur =>
    if rangeGo stop stepUs incl cur then
      match add cfg env cur stepUs with
      | .error e => .error e
      | .ok nxt =>
        match rangeIter cfg env stop stepUs incl fuel nxt with
        | .error e => .error e
        | .ok l => .ok (cur :: l)
    else .ok []

end BeyondVerif.Date
