import BeyondVerif.Generated.FrameNames
/-!
# Maneuver objects as small state machines (property C17)

A maneuver object of `beyond/orbits/man.py` keeps a vector (`self._accel` / `self._dv`).  The plain classes write it in the
constructor only; the Keplerian ones (`KeplerianContinuousMan.accel`, `KeplerianImpulsiveMan.dv`) overwrite it at every call
with the level `dkep2dv(orb, …)` computed from the state they are called on, then project it on that state.  The statement
lists of the two Keplerian methods are regenerated from the source (`Generated.FrameNames.kepContAccelProg`, `kepImpDvProg`);
this file gives them their meaning, for any carrier (so for the Float and for the ℝ instantiation alike).
-/
namespace BeyondVerif.ManObj
open BeyondVerif.Generated.FrameNames

variable {σ α β : Type}

/-- run the statements of one call on the state `orb`: `(stored vector, returned value so far)` -/
def runStmts (level : σ → α) (proj : σ → α → β) (orb : σ) : List CallStmt → α × Option β → α × Option β
  | [], r => r
  | CallStmt.store :: rest, (_, r) => runStmts level proj orb rest (level orb, r)
  | CallStmt.ret :: _, (s, _) => (s, some (proj orb s))

/-- one call of a method whose body is `prog` on an object holding `stored` -/
def call (prog : List CallStmt) (level : σ → α) (proj : σ → α → β) (stored : α) (orb : σ) : α × Option β :=
  runStmts level proj orb prog (stored, none)

/-- the same object called on the states `orbs` in turn: what each call returns -/
def runCalls (prog : List CallStmt) (level : σ → α) (proj : σ → α → β) : α → List σ → List (Option β)
  | _, [] => []
  | s, o :: os => (call prog level proj s o).2 :: runCalls prog level proj (call prog level proj s o).1 os

/-- a plain maneuver (`ImpulsiveMan.dv`, `ContinuousMan.accel`): nothing is written, the stored vector is projected -/
def plainProg : List CallStmt := [CallStmt.ret]

end BeyondVerif.ManObj
