/- GENERATED from lean/templates/Sgp4Ref.tpl by harness/instantiate.py — edit the template. Real instantiation. -/
import BeyondVerif.NumReal
noncomputable section
namespace BeyondVerif.R
open BeyondVerif.NumReal
open Classical
set_option linter.unusedVariables false

/-!
# The reference SGP4 theory, near-Earth path — hand-written transcription

`sgp4/propagation.py` of the third-party package python-sgp4 2.27 (itself a transcription of Vallado's `sgp4unit.cpp`,
2006/2020 revision), functions `_initl`, `sgp4init`, `sgp4` for `method == 'n'` (no deep-space terms), with the variable
names of that file.  Kept in the reference's own order of evaluation and its own grouping of terms, so that

* the Float instantiation can be compared with the package field by field (`satrec.no_unkozai, a, eta, cc1, cc4, cc5,
  mdot, argpdot, nodedot, omgcof, xmcof, nodecf, t2cof … t5cof, d2 … d4, xlcof, aycof, isimp, method`, after a call
  `am, em, om, Om, mm, nm`, and the state) — correspondence "spec vs sgp4" of `harness/props/C07.py`;
* the Real instantiation is what the theorems of `Props/C07.lean` equate the native model (translated from
  `beyond/propagators/sgp4beta.py`) with, piece by piece.

Everything is a function of plain numbers; lists are used as tuples.
-/

/-! ## `getgravconst('wgs72')` -/
def w_mu : R := (398600.8 : R)
def w_re : R := (6378.135 : R)
def w_xke : R := (60.0 : R) / sqrt (w_re * w_re * w_re / w_mu)
def w_j2 : R := (0.001082616 : R)
def w_j3 : R := -(0.00000253881 : R)
def w_j4 : R := -(0.00000165597 : R)
def w_j3oj2 : R := w_j3 / w_j2

/-! ## `_initl` : un-Kozai the mean motion -/

/-- `[no_unkozai, ao]` of `_initl(xke, j2, ecco, epoch, inclo, no_kozai, …)` -/
def refInitl (ecco inclo no_kozai : R) : List R :=
  let eccsq : R := ecco * ecco
  let omeosq : R := (1.0 : R) - eccsq
  let rteosq : R := sqrt omeosq
  let cosio : R := cos inclo
  let cosio2 : R := cosio * cosio
  let ak : R := rpow (w_xke / no_kozai) ((2 : R) / (3 : R))
  let d1 : R := (0.75 : R) * w_j2 * ((3.0 : R) * cosio2 - (1.0 : R)) / (rteosq * omeosq)
  let del_ : R := d1 / (ak * ak)
  let adel : R := ak * ((1.0 : R) - del_ * del_ - del_ * ((1.0 : R) / (3.0 : R) + (134.0 : R) * del_ * del_ / (81.0 : R)))
  let del_ : R := d1 / (adel * adel)
  let no : R := no_kozai / ((1.0 : R) + del_)
  let ao : R := rpow (w_xke / no) ((2 : R) / (3 : R))
  [no, ao]

/-! ## `sgp4init`, the part common to all objects -/

/-- `[sfour, qzms24, isimp]`: the `s` and `(q0 - s)^4` constants of the density function, altered for perigees below 156 km;
`isimp = 1` (perigee below 220 km) selects the simplified drag model -/
def refS4 (ao ecco : R) : List R :=
  let rp : R := ao * ((1.0 : R) - ecco)
  let isimp : R := if rp < (220.0 : R) / w_re + (1.0 : R) then (1 : R) else (0 : R)
  let ss : R := (78.0 : R) / w_re + (1.0 : R)
  let qzms2ttemp : R := ((120.0 : R) - (78.0 : R)) / w_re
  let qzms2t : R := qzms2ttemp * qzms2ttemp * qzms2ttemp * qzms2ttemp
  let perige : R := (rp - (1.0 : R)) * w_re
  if perige < (156.0 : R) then
    let sfour : R := if perige < (98.0 : R) then (20.0 : R) else perige - (78.0 : R)
    let qzms24temp : R := ((120.0 : R) - sfour) / w_re
    [sfour / w_re + (1.0 : R), qzms24temp * qzms24temp * qzms24temp * qzms24temp, isimp]
  else
    [ss, qzms2t, isimp]

/-- the deep-space switch of `sgp4init`: `2π / no_unkozai ≥ 225` minutes -/
def refDeep (no : R) : Bool := (2 : R) * pi / no ≥ (225.0 : R)

/-- drag coefficients: `[eta, cc1, cc3, cc4, cc5, omgcof, xmcof]` (`cc3` is a local of `sgp4init`).  The two guards
`ecco > 1.0e-4` are the reference's: below that eccentricity `cc3` (hence `omgcof`) and `xmcof` stay zero. -/
def refCoefDrag (no ao sfour qzms24 ecco inclo argpo bstar : R) : List R :=
  let eccsq : R := ecco * ecco
  let omeosq : R := (1.0 : R) - eccsq
  let cosio : R := cos inclo
  let cosio2 : R := cosio * cosio
  let sinio : R := sin inclo
  let con42 : R := (1.0 : R) - (5.0 : R) * cosio2
  let con41 : R := -con42 - cosio2 - cosio2
  let tsi : R := (1.0 : R) / (ao - sfour)
  let eta : R := ao * ecco * tsi
  let etasq : R := eta * eta
  let eeta : R := ecco * eta
  let psisq : R := absR ((1.0 : R) - etasq)
  let coef : R := qzms24 * rpow tsi (4.0 : R)
  let coef1 : R := coef / rpow psisq (3.5 : R)
  let cc2 : R := coef1 * no * (ao * ((1.0 : R) + (1.5 : R) * etasq + eeta * ((4.0 : R) + etasq))
      + (0.375 : R) * w_j2 * tsi / psisq * con41 * ((8.0 : R) + (3.0 : R) * etasq * ((8.0 : R) + etasq)))
  let cc1 : R := bstar * cc2
  let cc3 : R := if ecco > (1.0e-4 : R) then -(2.0 : R) * coef * tsi * w_j3oj2 * no * sinio / ecco else (0.0 : R)
  let x1mth2 : R := (1.0 : R) - cosio2
  let cc4 : R := (2.0 : R) * no * coef1 * ao * omeosq * (eta * ((2.0 : R) + (0.5 : R) * etasq) + ecco * ((0.5 : R) + (2.0 : R) * etasq)
      - w_j2 * tsi / (ao * psisq) * (-(3.0 : R) * con41 * ((1.0 : R) - (2.0 : R) * eeta + etasq * ((1.5 : R) - (0.5 : R) * eeta))
        + (0.75 : R) * x1mth2 * ((2.0 : R) * etasq - eeta * ((1.0 : R) + etasq)) * cos ((2.0 : R) * argpo)))
  let cc5 : R := (2.0 : R) * coef1 * ao * omeosq * ((1.0 : R) + (2.75 : R) * (etasq + eeta) + eeta * etasq)
  let omgcof : R := bstar * cc3 * cos argpo
  let xmcof : R := if ecco > (1.0e-4 : R) then -((2 : R) / (3 : R)) * coef * bstar / eeta else (0.0 : R)
  [eta, cc1, cc3, cc4, cc5, omgcof, xmcof]

/-- secular rates: `[mdot, argpdot, nodedot, xhdot1]` -/
def refCoefDot (no ao ecco inclo : R) : List R :=
  let eccsq : R := ecco * ecco
  let omeosq : R := (1.0 : R) - eccsq
  let rteosq : R := sqrt omeosq
  let cosio : R := cos inclo
  let cosio2 : R := cosio * cosio
  let po : R := ao * omeosq
  let con42 : R := (1.0 : R) - (5.0 : R) * cosio2
  let con41 : R := -con42 - cosio2 - cosio2
  let posq : R := po * po
  let pinvsq : R := (1.0 : R) / posq
  let cosio4 : R := cosio2 * cosio2
  let temp1 : R := (1.5 : R) * w_j2 * pinvsq * no
  let temp2 : R := (0.5 : R) * temp1 * w_j2 * pinvsq
  let temp3 : R := -(0.46875 : R) * w_j4 * pinvsq * pinvsq * no
  let mdot : R := no + (0.5 : R) * temp1 * rteosq * con41 + (0.0625 : R) * temp2 * rteosq * ((13.0 : R) - (78.0 : R) * cosio2 + (137.0 : R) * cosio4)
  let argpdot : R := -(0.5 : R) * temp1 * con42 + (0.0625 : R) * temp2 * ((7.0 : R) - (114.0 : R) * cosio2 + (395.0 : R) * cosio4)
      + temp3 * ((3.0 : R) - (36.0 : R) * cosio2 + (49.0 : R) * cosio4)
  let xhdot1 : R := -temp1 * cosio
  let nodedot : R := xhdot1 + ((0.5 : R) * temp2 * ((4.0 : R) - (19.0 : R) * cosio2) + (2.0 : R) * temp3 * ((3.0 : R) - (7.0 : R) * cosio2)) * cosio
  [mdot, argpdot, nodedot, xhdot1]

/-- long-period coefficients `[xlcof, aycof]`, with the reference's guard against the division by zero at 180 degrees -/
def refCoefLong (inclo : R) : List R :=
  let cosio : R := cos inclo
  let sinio : R := sin inclo
  let xlcof : R := if absR (cosio + (1.0 : R)) > (1.5e-12 : R)
    then -(0.25 : R) * w_j3oj2 * sinio * ((3.0 : R) + (5.0 : R) * cosio) / ((1.0 : R) + cosio)
    else -(0.25 : R) * w_j3oj2 * sinio * ((3.0 : R) + (5.0 : R) * cosio) / (1.5e-12 : R)
  let aycof : R := -(0.5 : R) * w_j3oj2 * sinio
  [xlcof, aycof]

/-- what depends on `cc1` only: `[nodecf, t2cof, d2, d3, d4, t3cof, t4cof, t5cof]` (`d2 … t5cof` are only set — and only used —
when `isimp = 0`) -/
def refCoefD (ao sfour ecco cc1 xhdot1 : R) : List R :=
  let omeosq : R := (1.0 : R) - ecco * ecco
  let tsi : R := (1.0 : R) / (ao - sfour)
  let nodecf : R := (3.5 : R) * omeosq * xhdot1 * cc1
  let t2cof : R := (1.5 : R) * cc1
  let cc1sq : R := cc1 * cc1
  let d2 : R := (4.0 : R) * ao * tsi * cc1sq
  let temp : R := d2 * tsi * cc1 / (3.0 : R)
  let d3 : R := ((17.0 : R) * ao + sfour) * temp
  let d4 : R := (0.5 : R) * temp * ao * tsi * ((221.0 : R) * ao + (31.0 : R) * sfour) * cc1
  let t3cof : R := d2 + (2.0 : R) * cc1sq
  let t4cof : R := (0.25 : R) * ((3.0 : R) * d3 + cc1 * ((12.0 : R) * d2 + (10.0 : R) * cc1sq))
  let t5cof : R := (0.2 : R) * ((3.0 : R) * d4 + (12.0 : R) * cc1 * d3 + (6.0 : R) * d2 * d2 + (15.0 : R) * cc1sq * ((2.0 : R) * d2 + cc1sq))
  [nodecf, t2cof, d2, d3, d4, t3cof, t4cof, t5cof]

/-- all coefficients `sgp4init` stores in the satellite record, in the order
`[eta, cc1, cc3, cc4, cc5, mdot, argpdot, nodedot, omgcof, xmcof, nodecf, t2cof, xlcof, aycof, d2, d3, d4, t3cof, t4cof, t5cof]` -/
def refCoef (no ao sfour qzms24 ecco inclo argpo bstar : R) : List R :=
  match refCoefDrag no ao sfour qzms24 ecco inclo argpo bstar with
  | [eta, cc1, cc3, cc4, cc5, omgcof, xmcof] =>
    match refCoefDot no ao ecco inclo with
    | [mdot, argpdot, nodedot, xhdot1] =>
      match refCoefLong inclo with
      | [xlcof, aycof] =>
        match refCoefD ao sfour ecco cc1 xhdot1 with
        | [nodecf, t2cof, d2, d3, d4, t3cof, t4cof, t5cof] =>
          [eta, cc1, cc3, cc4, cc5, mdot, argpdot, nodedot, omgcof, xmcof, nodecf, t2cof, xlcof, aycof, d2, d3, d4, t3cof, t4cof, t5cof]
        | _ => []
      | _ => []
    | _ => []
  | _ => []

/-! ## `sgp4`, near-Earth (`method = 'n'`), full drag model (`isimp = 0`) -/

/-- "update for secular gravity and atmospheric drag": `[xmdf, argpdf, nodedf, delomg, delm]` -/
def refSecular (t mo argpo nodeo eta mdot argpdot nodedot omgcof xmcof : R) : List R :=
  let xmdf : R := mo + mdot * t
  let argpdf : R := argpo + argpdot * t
  let nodedf : R := nodeo + nodedot * t
  let delomg : R := omgcof * t
  let delmotemp : R := (1.0 : R) + eta * cos mo
  let delmo : R := delmotemp * delmotemp * delmotemp
  let delmtemp : R := (1.0 : R) + eta * cos xmdf
  let delm : R := xmcof * (delmtemp * delmtemp * delmtemp - delmo)
  [xmdf, argpdf, nodedf, delomg, delm]

/-- the mean elements at `t` before any reduction of the angles: `[mm, argpm, nodem, em, am, xlm]` where `mm` is the value
handed to `sin(mm)` (before `no_unkozai·templ` is added), `em` after the `1e-6` floor, and
`xlm = mm + no·templ + argpm + nodem` the mean longitude (the reference's error exits `em ≥ 1`, `em < -0.001` are hypotheses
of the theorems and excluded inputs of the correspondence) -/
def refMean (t mo ecco no ao bstar xmdf argpdf nodedf delomg delm cc1 cc4 cc5 nodecf t2cof d2 d3 d4 t3cof t4cof t5cof : R) : List R :=
  let t2 : R := t * t
  let nodem : R := nodedf + nodecf * t2
  let tempa : R := (1.0 : R) - cc1 * t
  let tempe : R := bstar * cc4 * t
  let templ : R := t2cof * t2
  let temp : R := delomg + delm
  let mm : R := xmdf + temp
  let argpm : R := argpdf - temp
  let t3 : R := t2 * t
  let t4 : R := t3 * t
  let tempa : R := tempa - d2 * t2 - d3 * t3 - d4 * t4
  let tempe : R := tempe + bstar * cc5 * (sin mm - sin mo)
  let templ : R := templ + t3cof * t3 + t4 * (t4cof + t * t5cof)
  let am : R := rpow (w_xke / no) ((2 : R) / (3 : R)) * tempa * tempa
  let em : R := ecco - tempe
  let em : R := if em < (1.0e-6 : R) then (1.0e-6 : R) else em
  let xlm : R := mm + no * templ + argpm + nodem
  [mm, argpm, nodem, em, am, xlm]

/-- "long period periodics": `[axnl, aynl, xl - nodep]` before the reduction modulo 2π
(`mp + argpp = xlm - nodem` modulo 2π in the reference) -/
def refLong (am em argpm xlm nodem xlcof aycof : R) : List R :=
  let axnl : R := em * cos argpm
  let temp : R := (1.0 : R) / (am * ((1.0 : R) - em * em))
  let aynl : R := em * sin argpm + temp * aycof
  let u : R := xlm - nodem + temp * xlcof * axnl
  [axnl, aynl, u]

/-- Kepler iteration of the reference: at most ten corrections, each clipped to 0.95 in absolute value; the loop is left
after a correction below 1e-12 has been applied, and the short-period terms then use the sine and cosine evaluated BEFORE
that last correction.  fuel (number of evaluations left), eo1 ↦ the `eo1` of the last evaluation -/
def refKepler (axnl aynl u : R) : Nat → R → R
  | 0, eo1 => eo1
  | fuel + 1, eo1 =>
    let tem5 : R := (1.0 : R) - cos eo1 * axnl - sin eo1 * aynl
    let tem5 : R := (u - aynl * cos eo1 + axnl * sin eo1 - eo1) / tem5
    let tem5 : R := if absR tem5 ≥ (0.95 : R) then (if tem5 > (0.0 : R) then (0.95 : R) else -(0.95 : R)) else tem5
    if absR tem5 ≥ (1.0e-12 : R) then (if fuel = 0 then eo1 else refKepler axnl aynl u fuel (eo1 + tem5)) else eo1

/-- "short period preliminary quantities" and "update for short period periodics": `[mrt, su, xnode, xinc, mvt, rvdot]`.
`sin2u`, `cos2u` are formed from `sinu`, `cosu` as they come out of the Kepler solution (unit vector only if `rl = am(1 - ecose)`). -/
def refShortTerms (am nm axnl aynl eo1 nodep inclo con41 x1mth2 x7thm1 : R) : List R :=
  let sineo1 : R := sin eo1
  let coseo1 : R := cos eo1
  let ecose : R := axnl * coseo1 + aynl * sineo1
  let esine : R := axnl * sineo1 - aynl * coseo1
  let el2 : R := axnl * axnl + aynl * aynl
  let pl : R := am * ((1.0 : R) - el2)
  let rl : R := am * ((1.0 : R) - ecose)
  let rdotl : R := sqrt am * esine / rl
  let rvdotl : R := sqrt pl / rl
  let betal : R := sqrt ((1.0 : R) - el2)
  let temp : R := esine / ((1.0 : R) + betal)
  let sinu : R := am / rl * (sineo1 - aynl - axnl * temp)
  let cosu : R := am / rl * (coseo1 - axnl + aynl * temp)
  let su : R := atan2 sinu cosu
  let sin2u : R := (cosu + cosu) * sinu
  let cos2u : R := (1.0 : R) - (2.0 : R) * sinu * sinu
  let temp : R := (1.0 : R) / pl
  let temp1 : R := (0.5 : R) * w_j2 * temp
  let temp2 : R := temp1 * temp
  let cosip : R := cos inclo
  let sinip : R := sin inclo
  let mrt : R := rl * ((1.0 : R) - (1.5 : R) * temp2 * betal * con41) + (0.5 : R) * temp1 * x1mth2 * cos2u
  let su : R := su - (0.25 : R) * temp2 * x7thm1 * sin2u
  let xnode : R := nodep + (1.5 : R) * temp2 * cosip * sin2u
  let xinc : R := inclo + (1.5 : R) * temp2 * cosip * sinip * cos2u
  let mvt : R := rdotl - nm * temp1 * x1mth2 * sin2u / w_xke
  let rvdot : R := rvdotl + nm * temp1 * (x1mth2 * cos2u + (1.5 : R) * con41) / w_xke
  [mrt, su, xnode, xinc, mvt, rvdot]

/-- "orientation vectors", "position and velocity (in km and km/sec)" -/
def refFrame (mrt su xnode xinc mvt rvdot : R) : List R :=
  let sinsu : R := sin su
  let cossu : R := cos su
  let snod : R := sin xnode
  let cnod : R := cos xnode
  let sini : R := sin xinc
  let cosi : R := cos xinc
  let xmx : R := -snod * cosi
  let xmy : R := cnod * cosi
  let ux : R := xmx * sinsu + cnod * cossu
  let uy : R := xmy * sinsu + snod * cossu
  let uz : R := sini * sinsu
  let vx : R := xmx * cossu - cnod * sinsu
  let vy : R := xmy * cossu - snod * sinsu
  let vz : R := sini * cossu
  let mr : R := mrt * w_re
  let vkmpersec : R := w_re * w_xke / (60.0 : R)
  [mr * ux, mr * uy, mr * uz, (mvt * ux + rvdot * vx) * vkmpersec, (mvt * uy + rvdot * vy) * vkmpersec, (mvt * uz + rvdot * vz) * vkmpersec]

/-- short-period periodics and orientation vectors: position (km) and velocity (km/s) -/
def refShort (am nm axnl aynl eo1 nodep inclo con41 x1mth2 x7thm1 : R) : List R :=
  match refShortTerms am nm axnl aynl eo1 nodep inclo con41 x1mth2 x7thm1 with
  | [mrt, su, xnode, xinc, mvt, rvdot] => refFrame mrt su xnode xinc mvt rvdot
  | _ => []

/-- `twoline2rv` elements ↦ `[isimp, deep, no_unkozai, ao] ++ refCoef`: everything `sgp4init` stores that the near-Earth path reads -/
def refInit (ecco inclo argpo no_kozai bstar : R) : List R :=
  match refInitl ecco inclo no_kozai with
  | [no, ao] =>
    match refS4 ao ecco with
    | [sfour, qzms24, isimp] =>
      [isimp, if refDeep no then (1 : R) else (0 : R), no, ao] ++ refCoef no ao sfour qzms24 ecco inclo argpo bstar
    | _ => []
  | _ => []

/-- `sgp4(satrec, t)` for a near-Earth object in the full drag model:
`[am, em, argpm, nodem, mm + no·templ, x, y, z, vx, vy, vz]` (angles not reduced; km, km/s) -/
def refSgp4 (ecco inclo nodeo argpo mo no_kozai bstar t : R) : List R :=
  match refInitl ecco inclo no_kozai with
  | [no, ao] =>
    match refS4 ao ecco with
    | [sfour, qzms24, isimp] =>
      match refCoef no ao sfour qzms24 ecco inclo argpo bstar with
      | [eta, cc1, cc3, cc4, cc5, mdot, argpdot, nodedot, omgcof, xmcof, nodecf, t2cof, xlcof, aycof, d2, d3, d4, t3cof, t4cof, t5cof] =>
        match refSecular t mo argpo nodeo eta mdot argpdot nodedot omgcof xmcof with
        | [xmdf, argpdf, nodedf, delomg, delm] =>
          match refMean t mo ecco no ao bstar xmdf argpdf nodedf delomg delm cc1 cc4 cc5 nodecf t2cof d2 d3 d4 t3cof t4cof t5cof with
          | [mm, argpm, nodem, emm, am, xlm] =>
            match refLong am emm argpm xlm nodem xlcof aycof with
            | [axnl, aynl, u] =>
              let u : R := fmod u ((2 : R) * pi)
              let eo1 : R := refKepler axnl aynl u 10 u
              let nm : R := w_xke / rpow am (1.5 : R)
              let cosio2 : R := cos inclo * cos inclo
              [am, emm, argpm, nodem, xlm - argpm - nodem]
                ++ refShort am nm axnl aynl eo1 nodem inclo ((3.0 : R) * cosio2 - (1.0 : R)) ((1.0 : R) - cosio2) ((7.0 : R) * cosio2 - (1.0 : R))
            | _ => []
          | _ => []
        | _ => []
      | _ => []
    | _ => []
  | _ => []

end BeyondVerif.R
