import BeyondVerif.Model.Date
/-!
The day number of a `Date` comes from a double.  `Date.__init__` computes `mjd = d + s / 86400.0`, looks the EOP record up
with `int(mjd)` / `date <= mjd`, and for every scale but UTC forms `mjd_utc = mjd + scale.offset(mjd, "UTC", eop) / 86400.0` and
looks again when `int(mjd_utc) != int(mjd)` — all in binary64.  `Model/Date.lean` does this with exact integers (ticks).  This
file is the same computation **in exact binary64 arithmetic**: a double is its exact rational value (`Rat`, core Lean), every
`+ - * /` of the code is the exact operation followed by `fl`, IEEE-754 round-to-nearest-even to 53 significant bits (normal
range only: every quantity here lies between 1e-12 and 1e5).  It decides, for every input, which record the code picks — in
particular within a microsecond of UTC midnight, where the exact-day model and the code can differ (`Lemmas/DateDbl.lean`,
`Props/C03d.lean`: they cannot differ when the UTC reading is 0.7 µs or more away from midnight).

The TDB−TT term goes through `numpy.sin`, which has no exact model: a route through TDB is `none` (out of this model).

No Mathlib import: linked into the line-protocol driver (ops `d3dbl`, `d3dbldt`).
-/
namespace BeyondVerif.Date

/-- `n / d` rounded to the nearest natural, ties to even (`d > 0`) -/
def rneNat (n d : Nat) : Nat :=
  let q := n / d
  let r := n % d
  if 2 * r < d then q else if d < 2 * r then q + 1 else if q % 2 = 0 then q else q + 1

/-- is `n / d < 2^e` ? -/
def ltPow2 (n d : Nat) (e : Int) : Bool :=
  if 0 ≤ e then decide (n < 2 ^ e.toNat * d) else decide (n * 2 ^ (-e).toNat < d)

/-- the binary exponent `e` of `n / d > 0`: `2^(e-1) ≤ n/d < 2^e` -/
def binExp (n d : Nat) : Int :=
  let e0 : Int := (n.log2 : Int) - (d.log2 : Int)
  if ltPow2 n d e0 then e0 else e0 + 1

/-- `m · 2^k` as a rational -/
def scale2 (m : Nat) (k : Int) : Rat :=
  if 0 ≤ k then ((m * 2 ^ k.toNat : Nat) : Rat) else (m : Rat) / ((2 ^ (-k).toNat : Nat) : Rat)

/-- the significand (an integer of at most 53 bits, or `2^53` after a carry) of `n/d > 0` at the unit `2^k` -/
def sig (n d : Nat) (k : Int) : Nat :=
  if 0 ≤ k then rneNat n (d * 2 ^ k.toNat) else rneNat (n * 2 ^ (-k).toNat) d

/-- IEEE-754 binary64 round-to-nearest-even of an exact value (normal numbers: no overflow, no subnormals) -/
def fl (x : Rat) : Rat :=
  if x.num = 0 then 0
  else
    let n := x.num.natAbs
    let k := binExp n x.den - 53
    let v := scale2 (sig n x.den k) k
    if x.num < 0 then -v else v

/-- the double `1e-6` -/
def c1em6 : Rat := (4722366482869645 : Rat) / 4722366482869645213696

/-- `_convert_dt`: `delta.seconds + delta.microseconds * 1e-6` -/
def sOfDt (sec us : Nat) : Rat := fl ((sec : Rat) + fl ((us : Rat) * c1em6))

/-- `mjd = d + s / 86400.0` -/
def mjdF (d : Int) (s : Rat) : Rat := fl ((d : Rat) + fl (s / 86400))

/-- `int(x)`: truncation towards zero -/
def truncR (x : Rat) : Int := Int.tdiv x.num x.den

/-- `SimpleEopDatabase.tai_utc(mjd)` for a double `mjd`: `date <= mjd` -/
def taiUtcAtR (leap : List (Int × Int)) (mjd : Rat) : Option Int :=
  (leap.reverse.find? (fun e => decide ((e.1 : Rat) ≤ mjd))).map (·.2)

def eopRawR (env : Env) (mjd : Rat) : Option Eop :=
  match env.finals (truncR mjd) with
  | none => none
  | some u =>
    match taiUtcAtR env.leap mjd with
    | none => none
    | some t => some ⟨t, u⟩

/-- `EopDb.get(mjd)` with the missing-data policy: the record or zeros; `none` = raised -/
def eopGetR (env : Env) (mjd : Rat) : Option Eop :=
  match eopRawR env mjd with
  | some e => some e
  | none =>
    match env.policy with
    | .error => none
    | _ => some ⟨0, 0⟩

/-- the double a `_scale_*` method returns: the literal / the parsed column, i.e. the double nearest to the decimal -/
def valF (k : OpKind) (eop : Eop) : Option Rat :=
  match k with
  | .const v => some (fl ((v : Rat) / 10000000))
  | .taiUtc => some (fl ((eop.taiUtc : Rat) / 10000000))
  | .ut1Utc => some (fl ((eop.ut1Utc : Rat) / 10000000))
  | .tdbTt => none

/-- `delta = 0; delta += v` / `delta -= v` along the steps, each sum rounded -/
def sumStepsF : List (Int × OpKind) → Eop → Rat → Option Rat
  | [], _, acc => some acc
  | (sg, k) :: l, eop, acc =>
    match valF k eop with
    | none => none
    | some v => sumStepsF l eop (fl (acc + (sg : Rat) * v))

inductive DblRes where
  | ok (eop : Eop) (day0 : Int) (dayU : Option Int)   -- the record, `int(mjd)`, `int(mjd_utc)` when computed
  | raised                                              -- policy "error"
  | outOfModel                                          -- the route passes TDB
deriving Repr, DecidableEq

/-- the record `Date(d, s, scale=…)` carries, computed as the code computes it (binary64) -/
def eopForF (cfg : Cfg) (env : Env) (scale : Nat) (d : Int) (s : Rat) : DblRes :=
  let mjd := mjdF d s
  match eopGetR env mjd with
  | none => .raised
  | some eop0 =>
    if scale = cfg.utc then .ok eop0 (truncR mjd) none
    else
      match signedSteps cfg scale cfg.utc with
      | .error _ => .outOfModel
      | .ok l =>
        match sumStepsF l eop0 0 with
        | none => .outOfModel
        | some offU =>
          let mjdU := fl (mjd + fl (offU / 86400))
          if truncR mjdU ≠ truncR mjd then
            match eopGetR env mjdU with
            | none => .raised
            | some eop => .ok eop (truncR mjd) (some (truncR mjdU))
          else .ok eop0 (truncR mjd) (some (truncR mjdU))

end BeyondVerif.Date
