/-
Model of the iteration contract of galactics/beyond over integer microseconds:

* `Date.range(start, stop, step, inclusive)`            beyond/dates/date.py  (DateRange.__init__, __iter__)
* `AnalyticalPropagator.iter` / `_iter`                 beyond/propagators/base.py
* `NumericalPropagator.iter`, `propagate`               beyond/propagators/base.py
* `KeplerNum._iter` (control flow only, fixed step)     beyond/propagators/keplernum.py
* `Ephem.iter`                                          beyond/orbits/ephem.py
* `Orbit.propagate` / `Orbit.iter` re-binding, `Speaker.clear_listeners`, `Listener.prev`

Dates are `Int` (µs); the states attached to dates are abstract (`V`, `f : V → Int → R`).
Unbounded Python loops carry `fuel` (= number of items that may still be yielded); running out of
fuel is reported as `Fin.fuel`, never as a normal end.

No Mathlib import: this file is linked into the line-protocol driver.
-/
namespace BeyondVerif.Iter

inductive Err | value | attr | type | index
deriving DecidableEq, Repr

inductive Fin | done | err (e : Err) | fuel
deriving DecidableEq, Repr

/-- what an iterator did: the dates it yielded, then how it ended -/
structure Run where
  dates : List Int
  fin : Fin
deriving DecidableEq, Repr

def Run.cons (d : Int) (r : Run) : Run := ⟨d :: r.dates, r.fin⟩
def Run.fail (e : Err) : Run := ⟨[], .err e⟩

/-- `date = start; while cond(date): x = propagate(date) [may raise ValueError]; yield x; date += step` -/
def loop (cond ok : Int → Bool) (step : Int) : Nat → Int → Run
  | 0, _ => ⟨[], .fuel⟩
  | f + 1, date =>
    if cond date then
      if ok date then (loop cond ok step f (date + step)).cons date else Run.fail .value
    else ⟨[], .done⟩

/-- `for date in dates: x = propagate(date); yield x` over an explicit list -/
def listRun (ok : Int → Bool) : List Int → Run
  | [] => ⟨[], .done⟩
  | d :: r => if ok d then (listRun ok r).cons d else Run.fail .value

def yes : Int → Bool := fun _ => true

/-- `DateRange._sign` : `(-1, 1)[x.total_seconds() >= 0]` -/
def pySign (x : Int) : Int := if x ≥ 0 then 1 else -1

/-- the loop condition of `DateRange.__iter__` -/
def rangeCond (stop step : Int) (incl : Bool) : Int → Bool := fun d =>
  if step > 0 then (if incl then decide (d ≤ stop) else decide (d < stop))
  else (if incl then decide (d ≥ stop) else decide (d > stop))

/-- `for date in Date.range(start, stop, step, inclusive=incl)` : constructor checks, then `__iter__` -/
def dateRange (ok : Int → Bool) (fuel : Nat) (start stop step : Int) (incl : Bool) : Run :=
  if step = 0 then Run.fail .value
  else if pySign (stop - start) ≠ pySign step then Run.fail .value
  else loop (rangeCond stop step incl) ok step fuel start

/-- `stop=` keyword: a Date or a timedelta -/
inductive Stop | at (d : Int) | delta (d : Int)
deriving DecidableEq, Repr

/-- `dates=` keyword: a list, or a `DateRange` object built by the caller -/
inductive Dates | list (l : List Int) | range (start stop step : Int) (incl : Bool)
deriving DecidableEq, Repr

/-- `Date.range(start, stop, step, inclusive=incl)` as an object: the constructor checks of `DateRange.__init__` -/
def mkRange (start stop step : Int) (incl : Bool) : Except Err Dates :=
  if step = 0 then .error .value                                   -- "Null step"
  else if pySign (stop - start) ≠ pySign step then .error .value   -- "start/stop order not coherent with step"
  else .ok (.range start stop step incl)

/-- `for date in dates: yield propagate(date)` -/
def Dates.run (ok : Int → Bool) (fuel : Nat) : Dates → Run
  | .list l => listRun ok l
  | .range s0 s1 st incl => loop (rangeCond s1 st incl) ok st fuel s0

/-- keyword arguments of `iter`; `none` = keyword absent, `some none` = passed as `None` -/
structure Args where
  start : Option (Option Int) := none
  stop : Option Stop := none
  step : Option (Option Int) := none
  dates : Option Dates := none
  strict : Bool := true
  stepSame : Bool := false       -- the object passed as `step=` is `propagator.step` itself (numerical propagators)
deriving DecidableEq, Repr

def Stop.resolve (start : Int) : Stop → Int
  | .at d => d
  | .delta d => start + d

/-! ### AnalyticalPropagator.iter -/

/-- the argument defaulting of `AnalyticalPropagator.iter` (everything before `clear_listeners`):
returns the `(start, stop, step)` handed to `_iter`. `selfStep` is `getattr(self, "step", None)`. -/
def analyticalArgs (epoch : Int) (selfStep : Option Int) (a : Args) : Except Err (Int × Int × Int) :=
  match a.stop with
  | none => .error .value                                  -- "The end of the propagation should be defined"
  | some stop =>
    let start := (a.start.getD (some epoch)).getD epoch
    match (a.step.getD selfStep) with
    | none => match selfStep with
      | none => .error .attr                               -- `self.step` on a propagator without step
      | some s =>
        let stop := stop.resolve start
        .ok (start, stop, if start > stop ∧ s > 0 then -s else s)
    | some s =>
      let stop := stop.resolve start
      .ok (start, stop, if start > stop ∧ s > 0 then -s else s)

/-- `AnalyticalPropagator._iter` -/
def analyticalIterCore (fuel : Nat) (a : Args) (sss : Option (Int × Int × Int)) : Run :=
  match a.dates, sss with
  | some ds, _ => ds.run yes fuel                                          -- `if dates is not None:` (an empty list yields nothing)
  | none, some (start, stop, step) => dateRange yes fuel start stop step true
  | none, none => Run.fail .value

/-- `AnalyticalPropagator.iter`, as a whole. The Boolean tells whether `clear_listeners` was reached. -/
def analyticalIter (fuel : Nat) (epoch : Int) (selfStep : Option Int) (a : Args) : Bool × Run :=
  match a.dates with
  | some _ => (true, analyticalIterCore fuel a none)
  | none =>
    match analyticalArgs epoch selfStep a with
    | .error e => (false, Run.fail e)
    | .ok sss => (true, analyticalIterCore fuel a (some sss))

/-! ### Ephem.iter -/

/-- `Ephem.propagate(date)` succeeds: date within the tabulated span and enough points for the order -/
def interpOk (order : Nat) (pts : List Int) : Int → Bool := fun d =>
  match pts.head?, pts.getLast? with
  | some first, some last => decide (first ≤ d) && decide (d ≤ last) && decide (order ≤ pts.length)
  | _, _ => false

/-- `for orb in self: if orb.date < start: continue; if orb.date > stop: break; yield orb.copy()` -/
def ownPts (start stop : Int) : List Int → List Int
  | [] => []
  | d :: r => if d < start then ownPts start stop r else if d > stop then [] else d :: ownPts start stop r

/-- `for orb in reversed(self._orbits): if orb.date > start: continue; if orb.date < stop: break; yield orb.copy()`
(the argument is the reversed list of points) -/
def ownPtsBack (start stop : Int) : List Int → List Int
  | [] => []
  | d :: r => if d > start then ownPtsBack start stop r else if d < stop then [] else d :: ownPtsBack start stop r

/-- `Ephem._iter_backward(start, stop, step, strict, listeners)` : `stop < start`, both given -/
def ephemIterBackward (fuel : Nat) (order : Nat) (pts : List Int) (start stop : Int) (step : Option Int) (strict : Bool) : Run :=
  match pts.head?, pts.getLast? with
  | some first, some last =>
    let clamp : Except Err (Int × Int) :=
      if start > last ∨ stop < first then
        (if strict then .error .value else .ok (min start last, max stop first))
      else .ok (start, stop)
    match clamp with
    | .error e => Run.fail e
    | .ok (start1, stop1) =>
      match step with
      | none => ⟨ownPtsBack start1 stop1 pts.reverse, .done⟩
      | some s =>
        let s := if s > 0 then -s else s
        loop (fun d => decide (d ≥ stop1)) (interpOk order pts) s fuel start1
  | _, _ => Run.fail .index

/-- `Ephem.iter(dates=, start=, stop=, step=, strict=)` on an ephemeris tabulated at `pts` (ascending) -/
def ephemIter (fuel : Nat) (order : Nat) (pts : List Int) (dates : Option Dates) (start : Option Int)
    (stop : Option Stop) (step : Option Int) (strict : Bool) : Run :=
  match dates with
  | some ds => ds.run (interpOk order pts) fuel                     -- `if dates is not None:`
  | none =>
    -- `if start is not None and stop is not None: _stop = ...; if _stop < start: yield from self._iter_backward(...)`
    let back : Option (Int × Int) :=
      match start, stop with
      | some s, some st => if st.resolve s < s then some (s, st.resolve s) else none
      | _, _ => none
    match back with
    | some (s, st) => ephemIterBackward fuel order pts s st step strict
    | none =>
    match pts.head?, pts.getLast? with
    | some first, some last =>
      -- start
      let startE : Except Err (Int × Option Int) :=
        match start with
        | none => .ok (first, none)
        | some s => if s < first then (if strict then .error .value else .ok (s, some first)) else .ok (s, none)
      match startE with
      | .error e => Run.fail e
      | .ok (start0, realStart) =>
        let stopE : Except Err Int :=
          match stop with
          | none => .ok last
          | some st =>
            let st := st.resolve start0
            if st > last then (if strict then .error .value else .ok last) else .ok st
        match stopE with
        | .error e => Run.fail e
        | .ok stop1 =>
          let start1 := realStart.getD start0
          match step with
          | none => ⟨ownPts start1 stop1 pts, .done⟩
          | some s => loop (fun d => decide (d ≤ stop1)) (interpOk order pts) s fuel start1
    | _, _ => Run.fail .index

/-! ### NumericalPropagator.iter + KeplerNum._iter -/

/-- `while ((date > stop) if backward else (date < stop)) or (interp and len(ephem) < Ephem.DEFAULT_ORDER):`
`    real_step, orb = self._make_step(orb, _step); ephem.append(orb); date += real_step` — the dates appended.
`len` is `len(ephem)`; `rs len` is the LENGTH of the integration step taken when the ephemeris holds `len` points
(`|real_step|`): `self.step` for the fixed-step methods (euler, rk4), whatever the step-size control of the adaptive methods
(rkf54, dopri54) arrives at — a parameter of the model, the integration itself is not modelled. -/
def march (backward interp : Bool) (order : Nat) (rs : Nat → Int) (stop : Int) : Nat → Nat → Int → Option (List Int)
  | 0, _, _ => none
  | f + 1, len, date =>
    if (if backward then decide (date > stop) else decide (date < stop)) || (interp && decide (len < order)) then
      let next := date + (if backward then -(rs len) else rs len)
      (march backward interp order rs stop f (len + 1) next).map (next :: ·)
    else some []

/-- `min(dates)`, `max(dates)` of a non-empty list `d :: l` -/
def listMin (d : Int) (l : List Int) : Int := l.foldl min d
def listMax (d : Int) (l : List Int) : Int := l.foldl max d

/-- `KeplerNum._iter` from the point where `start`, `stop`, `step`, `dates` are known. The positioning of the
state at `start` (extrapolation or retropolation from the epoch, padded to `order` points, then one
interpolation inside the padded span) always succeeds for the fixed-step methods and is not a date
computation; only its result date `start` enters here. `listening` = `bool(listeners)`.
Returns also whether `Ephem.iter` (and with it `clear_listeners`) was reached. -/
def numCore (fuel order : Nat) (h : Int) (rs : Nat → Int) (start stop : Int) (kstep : Option Int) (dates : Option Dates)
    (listening : Bool) : Bool × Run :=
  let backward := decide (stop < start)
  let hs := if backward then -h else h
  let interp := dates.isSome || kstep.isSome || listening
  match march backward interp order rs stop fuel 1 start with
  | none => (false, ⟨[], .fuel⟩)
  | some more =>
    -- `if backward and dates is None: dates = Date.range(start, stop, _step if step is None else step, inclusive=True)`
    let datesE : Except Err (Option Dates) :=
      if backward && dates.isNone then (mkRange start stop (kstep.getD hs) true).map some else .ok dates
    match datesE with
    | .error e => (false, Run.fail e)
    | .ok dates1 =>
      -- `Ephem(ephem)` sorts the points by date (steps > 0: a backward march is a descending list)
      let pts := if backward then (start :: more).reverse else start :: more
      -- `last = stop if dates is None and start <= stop else None`
      let last : Option Stop := if dates1.isNone && decide (start ≤ stop) then some (.at stop) else none
      (true, ephemIter fuel order pts dates1 none last kstep true)

/-- `NumericalPropagator.iter(**kwargs)` followed by `KeplerNum._iter(**kwargs)`; `h = self.step > 0` is the nominal step,
`rs` the lengths of the integration steps actually taken (see `march`). `ident`: the test by which `_iter` recognises that no
sampling of its own was requested is an IDENTITY test (`step is self.step`: only the default injected by
`NumericalPropagator.iter`, or `propagator.step` passed by the caller) and not a comparison by value — read from the source
on every run (`Generated.numStepTestIsIdentity`). -/
def numIter (fuel order : Nat) (epoch h : Int) (rs : Nat → Int) (ident : Bool) (a : Args) (listening : Bool) : Bool × Run :=
  match a.dates with
  | some (.list []) => (false, ⟨[], .done⟩)                -- `if not dates: return`
  | some (.list (d :: l)) => numCore fuel order h rs (listMin d l) (listMax d l) none (some (.list (d :: l))) listening
  | some (.range s0 s1 st incl) => numCore fuel order h rs s0 s1 none (some (.range s0 s1 st incl)) listening
  | none =>
    match a.stop with
    | none => (false, Run.fail .value)
    | some stop =>
      let startL := (a.start.getD (some epoch)).getD epoch
      let stepL := (a.step.getD (some h)).getD h
      let stop := stop.resolve startL
      let flip := startL > stop ∧ stepL > 0
      -- kwargs["step"] as `_iter` sees it, after `if step is self.step: step = None`
      let kstep : Option Int :=
        if flip then some (-stepL) else
        match a.step with
        | none => none            -- setdefault stored self.step itself
        | some none => none
        | some (some s) => if a.stepSame || (!ident && s == h) then none else some s
      match a.start with
      | some none => (false, Run.fail .attr)               -- kwargs["start"] is still None: `None != orb.date`
      | _ => numCore fuel order h rs startL stop kstep none listening

/-! ### objects, binding, listeners, histories -/

inductive Kind | sgp4 | kepler | j2 | none | num | cw | ephem
deriving DecidableEq, Repr

/-- the `orbit` setter of the propagator keeps the very object (`Sgp4`, `NonePropagator`)
rather than a converted copy (`Kepler`, `J2`, `KeplerNum`, `ClohessyWiltshire`) -/
def Kind.ident : Kind → Bool
  | .sgp4 => true
  | .none => true
  | _ => false

/-- mutable state shared by the calls of one history -/
structure St (V : Type) where
  bound : Option (Nat × V) := none     -- object the propagator was last bound to, and the value it then took
  rebinds : Nat := 0                   -- how many times the `orbit` setter ran
  prev : List (Option Int) := []       -- `Listener.prev` (date of the state it holds) per listener object
  ver : Nat → Nat × Nat := fun _ => (0, 0)   -- how many times each orbit object was modified in place by the user:
                                       -- (changes of its coordinates, changes of its drag terms bstar / ndot / ndotdot)

/-- configuration that calls never write: the value of orbit object `i` after `k = (k₁, k₂)` in-place modifications by the
user (`store i k`), the kind, the numerical set-up; `sameState a b` is `Sgp4._state(a) == Sgp4._state(b)`: the coordinates,
date, form, frame and drag terms (`bstar`, `ndot`, `ndotdot`) of the two orbit values are equal (their other attributes —
name, catalogue numbers, revolution / element counters — are not looked at) -/
structure World (V : Type) where
  kind : Kind
  store : Nat → Nat × Nat → V
  sameState : V → V → Bool
  epoch : Nat → Int
  h : Int := 60000000
  rs : Nat → Int := fun _ => h         -- lengths of the integration steps (fixed-step methods: all `h`)
  stepIdent : Bool := true             -- `KeplerNum._iter` tests `step is self.step` (not `==`)
  order : Nat := 8
  pts : List Int := []

/-- current value of orbit object `i` -/
def cur {V : Type} (w : World V) (s : St V) (i : Nat) : V := w.store i (s.ver i)

/-- `if self.propagator.orbit is not self: self.propagator.orbit = self` -/
def bind {V : Type} (w : World V) (s : St V) (i : Nat) : St V :=
  if w.kind = .ephem then s
  else if w.kind.ident && (s.bound.map (·.1) == some i) then s
  else { s with bound := some (i, cur w s i), rebinds := s.rebinds + 1 }

/-- `Sgp4.propagate`: `if self._state(self._orbit) != self._bound_to: self.orbit = self._orbit` — the satellite record is
re-derived when the bound orbit object no longer has the STATE (`World.sameState`: coordinates, date, form, frame, drag terms)
the record was computed from (the object stays the same: not a re-binding to another object) -/
def refresh {V : Type} (w : World V) (s : St V) : St V :=
  if w.kind = .sgp4 then
    match s.bound with
    | some (j, v) => if w.sameState v (cur w s j) then s else { s with bound := some (j, cur w s j) }
    | none => s
  else s

/-- value the propagation works from: what the `orbit` setter derived from the orbit when it last ran
(Sgp4: the satellite record `self.tle`; Kepler, J2, KeplerNum, CW: the converted copy), except for
`NonePropagator.propagate`, which copies the bound object itself at each call -/
def boundVal {V : Type} (w : World V) (s : St V) (i : Nat) : V :=
  if w.kind = .none then cur w s i
  else match s.bound with
    | some (_, v) => v
    | none => cur w s i

inductive Call
  | propagate (orb : Nat) (date : Int)
  | iter (orb : Nat) (a : Args) (ls : List Nat) (consume : Nat)
  | modify (orb : Nat)            -- the user changes elements of the orbit object in place (`orb[k] = x`)
  | modifyMeta (orb : Nat)        -- the user changes a drag term of the orbit object in place (`orb.bstar = x`)
deriving Repr

def Call.isModify : Call → Bool
  | .modify _ => true
  | .modifyMeta _ => true
  | _ => false

/-- the iterator of a call, and whether `clear_listeners` is reached before it ends -/
def iterRun {V : Type} (w : World V) (fuel : Nat) (i : Nat) (a : Args) (listening : Bool) : Bool × Run :=
  match w.kind with
  | .ephem => (true, ephemIter fuel w.order w.pts a.dates (a.start.getD none) a.stop (a.step.getD none) a.strict)
  | .num => numIter fuel w.order (w.epoch i) w.h w.rs w.stepIdent a listening
  | _ => analyticalIter fuel (w.epoch i) none a

def setPrev (prev : List (Option Int)) (ls : List Nat) (v : Option Int) : List (Option Int) :=
  (List.range prev.length).map (fun j => if ls.contains j then v else prev.getD j none)

/-- consecutive pairs of a date stream on which a listener fires (`Listener.check`): `prev` is the
date held when the stream starts -/
def events (cross : Int → Int → Bool) : Option Int → List Int → List (Int × Int)
  | _, [] => []
  | none, d :: r => events cross (some d) r
  | some p, d :: r => if cross p d then (p, d) :: events cross (some d) r else events cross (some d) r

/-- observable result of one call: the dates, how it ended, the states (abstractly `f v date`) and the events -/
structure Result (R : Type) where
  run : Run
  states : List R
  evs : List (List (Int × Int))     -- per passed listener

/-- one call on the shared objects. `consume` = number of items taken from the generator before it is dropped
(0 = the generator is created but never started). -/
def exec {V R : Type} (w : World V) (f : V → Int → R) (cross : V → Int → Int → Bool) (fuel : Nat)
    (s : St V) : Call → St V × Result R
  | .propagate i date =>
    let s1 := refresh w (bind w s i)
    let v := boundVal w s1 i
    let ok := match w.kind with
      | .ephem => interpOk w.order w.pts date
      | _ => true
    (s1, ⟨if ok then ⟨[date], .done⟩ else Run.fail .value, if ok then [f v date] else [], []⟩)
  | .iter i a ls consume =>
    let s1 := bind w s i
    if consume = 0 then (s1, ⟨⟨[], .fuel⟩, [], []⟩)
    else
      let (cleared, r) := iterRun w fuel i a (!ls.isEmpty)
      -- an iterator that fails before `clear_listeners` (argument errors) has not yielded anything
      let taken := if cleared then r.dates.take consume else []
      let fin := if consume ≤ r.dates.length then Fin.fuel else r.fin
      let prev0 := if cleared then setPrev s1.prev ls none else s1.prev
      let prev1 := match taken.getLast? with
        | some d => setPrev prev0 ls (some d)
        | none => prev0
      -- `propagate` (and with it the Sgp4 check of the record) runs once per date: not at all when nothing is yielded
      let s2 := if taken.isEmpty then s1 else refresh w s1
      let v := boundVal w s2 i
      -- `Speaker.listen`: each passed listener compares with the `prev` it holds when the stream starts
      let evs := ls.map (fun j => events (cross v) (prev0.getD j none) taken)
      ({ s2 with prev := prev1 }, ⟨⟨taken, fin⟩, taken.map (f v), evs⟩)
  | .modify i =>
    ({ s with ver := fun j => if j = i then ((s.ver j).1 + 1, (s.ver j).2) else s.ver j }, ⟨⟨[], .done⟩, [], []⟩)
  | .modifyMeta i =>
    ({ s with ver := fun j => if j = i then ((s.ver j).1, (s.ver j).2 + 1) else s.ver j }, ⟨⟨[], .done⟩, [], []⟩)

/-- a history of calls from a given state -/
def runHist {V R : Type} (w : World V) (f : V → Int → R) (cross : V → Int → Int → Bool) (fuel : Nat)
    (s : St V) : List Call → St V
  | [] => s
  | c :: r => runHist w f cross fuel (exec (R := R) w f cross fuel s c).1 r

/-! ### suspended iterations: generators created by `Orbit.iter`, advanced later, other calls in between

`Orbit.iter(**kw)` binds the propagator AT ONCE (`if self.propagator.orbit is not self: self.propagator.orbit = self`) and
returns a generator whose body has not started. On its first `next` the generator computes its dates (`start` defaults to
`self.orbit.date` of the orbit bound to the propagator THEN); an analytical propagator then reads `self.orbit` again at every
date (`self.propagate(date)`), the numerical one integrates everything at the first `next` from the orbit bound then.
Orbit objects are numbered; `propOf o` is the propagator OBJECT orbit `o` holds (several orbits may hold the same one: assigned
by the user, or points handed out with a shared copy). Orbit values do not change in this layer; a state is named by the orbit
object whose trajectory it lies on. A `DateRange` passed as `dates=` is an immutable description (`DateRange.__iter__` is a
generator function: every consumer gets a cursor of its own — read from the source on every run). -/

structure Iterator where
  prop : Nat                       -- the propagator object the generator runs on
  recv : Nat                       -- the orbit object `iter` was called on
  args : Args
  started : Bool := false
  remaining : List Int := []       -- dates still to come (fixed at the first `next`)
  fin : Fin := .done
  locked : Option Nat := none      -- numerical propagator: the orbit it integrated from at the first `next`

structure IWorld where
  kind : Kind
  propOf : Nat → Nat
  epoch : Nat → Int
  h : Int := 60000000
  rs : Nat → Int := fun _ => h
  order : Nat := 8

structure ISt where
  bound : Nat → Option Nat := fun _ => none       -- per propagator object: the orbit object bound to it
  its : Nat → Option Iterator := fun _ => none    -- the generators created so far
  n : Nat := 0

inductive IOp
  | create (o : Nat) (a : Args)          -- `g = orbit_o.iter(**a)` (generator number = order of creation)
  | advance (it k : Nat)                 -- `next(g)` k times (fewer when it ends)
  | propagate (o : Nat) (d : Int)        -- `orbit_o.propagate(d)`
deriving Repr

/-- the dates of an iteration whose generator starts while orbit `src` is bound -/
def iterDates (w : IWorld) (fuel : Nat) (src : Nat) (a : Args) : Run :=
  match w.kind with
  | .num => (numIter fuel w.order (w.epoch src) w.h w.rs true a false).2
  | _ => (analyticalIter fuel (w.epoch src) none a).2

def setBound (s : ISt) (p o : Nat) : ISt := { s with bound := fun q => if q = p then some o else s.bound q }

/-- one operation: the new state, the dates it returned with the orbit whose trajectory each state lies on, how it ended
(`fuel` = the generator is still suspended) -/
def istep (w : IWorld) (fuel : Nat) (s : ISt) : IOp → ISt × List (Int × Nat) × Fin
  | .create o a =>
    let s1 := setBound s (w.propOf o) o
    ({ s1 with its := fun i => if i = s.n then some { prop := w.propOf o, recv := o, args := a } else s1.its i, n := s.n + 1 }, [], .fuel)
  | .propagate o d =>
    (setBound s (w.propOf o) o, [(d, o)], .done)
  | .advance it k =>
    match s.its it with
    | none => (s, [], .err .value)
    | some I =>
      let now := (s.bound I.prop).getD I.recv
      -- first `next`: the dates, from the orbit bound now
      let I1 : Iterator := if I.started then I else
        let r := iterDates w fuel now I.args
        { I with started := true, remaining := r.dates, fin := r.fin, locked := if w.kind = .num then some now else none }
      let src := I1.locked.getD now
      let taken := I1.remaining.take k
      let I2 : Iterator := { I1 with remaining := I1.remaining.drop k }
      ({ s with its := fun i => if i = it then some I2 else s.its i }, taken.map (fun d => (d, src)),
        if k ≤ I1.remaining.length then .fuel else I1.fin)

def irun (w : IWorld) (fuel : Nat) : ISt → List IOp → ISt
  | s, [] => s
  | s, op :: r => irun w fuel (istep w fuel s op).1 r

/-! ### the object the caller passes as `dates=`

`dates=` takes any iterable. What the iterator sees depends on what `iter(x)` returns:
* `again l`: every `iter(x)` is a fresh cursor over `l` (list, tuple, array, deque, a class with `__iter__` or the sequence
  protocol, `DateRange`);
* `once l`: `iter(x) is x` — a single-use iterator that still has `l` to hand out (generator expression, `iter(list)`,
  `reversed(list)`, `map`, `filter`, `itertools.chain`, and the library's own `Ephem.dates`).
`AnalyticalPropagator._iter` and `Ephem.iter` walk the caller's object in ONE `for date in dates:`; `KeplerNum._iter` walks it
in ONE `list(dates)` and works on its own list from there. The number of walks per site is read from the source on every run
(`Generated.datesWalks`). -/

inductive Src | again (l : List Int) | once (left : List Int)
deriving DecidableEq, Repr

/-- the dates the object has to hand out -/
def Src.items : Src → List Int
  | .again l => l
  | .once l => l

/-- one complete walk (`for date in x:` run to its end, `list(x)`): the dates seen, the object afterwards -/
def Src.walk : Src → List Int × Src
  | .again l => (l, .again l)
  | .once l => (l, .once [])

/-- `n` complete walks of the same object one after the other: what the LAST one sees, the object afterwards -/
def Src.walkN : Nat → Src → List Int × Src
  | 0, s => ([], s)
  | 1, s => s.walk
  | n + 2, s => Src.walkN (n + 1) s.walk.2

/-- `iter(dates=x)` consumed to its end by an implementation that walks `x` `walks` times before / while yielding (the
dates of the last walk are the ones propagated to): the iterator's run and the caller's object afterwards -/
def iterRunSrc {V : Type} (w : World V) (walks fuel : Nat) (i : Nat) (a : Args) (x : Src) (listening : Bool) : (Bool × Run) × Src :=
  let r := x.walkN walks
  (iterRun w fuel i { a with dates := some (.list r.1) } listening, r.2)

/-! ### `for orb in self` — the cursor of an ephemeris walked over its own points

`Ephem.iter` without `step` (and every plain `for orb in ephem`) walks `for orb in self`. `Ephem.__iter__` sets `self._i = -1`
and returns the ephemeris ITSELF; `__next__` advances `self._i`: one position, stored on the object, for all consumers
(`shared = true`, the code). `shared = false`: a cursor per consumer, as `iter(self._orbits)` would give. -/

inductive CurOp | start (g : Nat) | pull (g : Nat)
deriving DecidableEq, Repr

/-- consumers `g` of one ephemeris tabulated at `pts`, interleaved: `start g` = its `for` statement begins (`iter(self)`),
`pull g` = it asks for its next point (`none`: StopIteration). `pos g` = the position consumer `g` reads next. -/
def curRun (shared : Bool) (pts : List Int) : (Nat → Nat) → List CurOp → List (Nat × Option Int)
  | _, [] => []
  | pos, .start g :: r => curRun shared pts (fun k => if shared || k = g then 0 else pos k) r
  | pos, .pull g :: r => (g, pts[pos g]?) :: curRun shared pts (fun k => if shared || k = g then pos g + 1 else pos k) r

end BeyondVerif.Iter
