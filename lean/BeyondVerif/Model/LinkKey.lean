/-
How a link method is NAMED: `f"{a}_to_{b}"` (beyond/frames/center.py, orient.py, lagrange.py, stations.py).
Names are lists of code points.  `Model/Registry.lean` keys its method table by PAIRS of names; that is the Python
dict keyed by the string exactly when this function is injective on the pairs at hand (`Props/C20LinkKey.lean`).
No Mathlib import.
-/
namespace BeyondVerif.LinkKey

/-- "_to_" -/
def sepTo : List Nat := [95, 116, 111, 95]
/-- "_to" -/
def sepPre : List Nat := [95, 116, 111]

/-- `f"{a}_to_{b}"` -/
def linkKey (a b : List Nat) : List Nat := a ++ sepTo ++ b

/-- `\w` of Python's `re` on the code points used here (ASCII letters, digits, underscore; everything ≥ 128 that is
alphanumeric counts as a word character too — only ASCII punctuation / space matter for the witnesses) -/
def isWord (c : Nat) : Bool :=
  (48 ≤ c && c ≤ 57) || (65 ≤ c && c ≤ 90) || (97 ≤ c && c ≤ 122) || c == 95 || 128 ≤ c

/-- `re.sub(r"\W", "_", f"{a}_to_{b}")`: a key function that is NOT the one of the code (seeded change C20-m7) -/
def normKey (a b : List Nat) : List Nat := (linkKey a b).map (fun c => if isWord c then c else 95)

/-- shape of a key expression as read from the AST: separator literal and optional `re.sub(pattern, repl, …)` wrapper -/
structure KeyShape where
  sep : List Nat
  norm : Option (List Nat × List Nat)
deriving Repr, DecidableEq

def KeyShape.plain (s : KeyShape) : Bool := s.sep == sepTo && s.norm.isNone

end BeyondVerif.LinkKey
