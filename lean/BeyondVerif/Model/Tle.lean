/-
Model of beyond/io/tle.py over `List Char` / `Nat` / `Int` (no Mathlib: linked into the driver).

* `checksum`, `checkValidity`       — `Tle._checksum`, `Tle._check_validity`
* `pyInt`, `pyFloat`, `tleFloat`    — `int()`, `float()` on the sub-grammar that occurs in TLE columns, `_float`
* `parseTle`                        — `Tle.__init__` (column slices from `Generated/TleColumns.lean`)
* `toRec`                           — `Tle.orbit()` followed by the numeric prelude of `Tle.from_orbit`
                                      (degrees % 360, /2, /6, day of year), every value rounded half-even to the
                                      printed unit: the float pipeline is replaced by exact decimal arithmetic
* `unfloat`                         — `_unfloat`
* `render`, `writeRec`, `fromOrbit` — the two `str.format` calls of `Tle.from_orbit` (layout from the generated
                                      `fmt1`/`fmt2`), checksums appended, result handed to `parseTle` as the code does
* `fromString`                      — `Tle.from_string(error="ignore"|"warn")`

Strings are lists of characters; a text is a list of lines (the model starts after `str.splitlines`).
Numbers read from text are exact decimals `Dec`; numbers to be written are integers of the printed unit (`Rec`).
-/
import BeyondVerif.Generated.TleColumns
namespace BeyondVerif.Tle
open BeyondVerif.Generated.Tle (Seg Fld)
namespace G
export BeyondVerif.Generated.Tle (removed minusAs ckLen lineLen ckPos pivot norad classification cosparTest cosparYear cosparPiece
  epochYear epochDay ndot ndotdot bstar elnb revs etype inc raan ecc argp ma mm fmt1 fmt2)
end G

abbrev Str := List Char

inductive Err where
  | lineCount (n : Nat)           -- TleParseError("Invalid TLE: expected 2 lines, got n.")
  | eccentricity                  -- TleParseError("Eccentricity … can not be written in a TLE")
  | lineNumber                    -- TleParseError("Line number check failed")
  | size (line len : Nat)         -- TleParseError("Invalid TLE size on line …")
  | checksum (line : Nat)         -- TleParseError("TLE checksum validation failed on line …")
  | valueError                    -- ValueError raised by int() / float()
  | indexError                    -- IndexError (no longer raised by the modelled code: `_float` refuses an empty field with ValueError since 3f7f532)
  | outOfModel                    -- the model does not describe this input (never compared)
deriving Repr, DecidableEq

/-! ## characters and strings -/

/-- whitespace removed by `str.strip()` (ASCII part; texts are assumed to be ASCII) -/
def isWs (c : Char) : Bool := c = ' ' || c = '\t' || c = '\n' || c = '\r' || c = '\x0b' || c = '\x0c' || c = '\x1c' || c = '\x1d' || c = '\x1e' || c = '\x1f'

def lstrip (s : Str) : Str := s.dropWhile isWs
def rstrip (s : Str) : Str := (s.reverse.dropWhile isWs).reverse
def strip (s : Str) : Str := rstrip (lstrip s)

/-- Python `s[a:b]` for `0 ≤ a`, `0 ≤ b` -/
def slice (s : Str) (ab : Nat × Nat) : Str := (s.take ab.2).drop ab.1

def startsWith (s p : Str) : Bool := p.isPrefixOf s

def isDigit (c : Char) : Bool := '0' ≤ c && c ≤ '9'
def digitVal (c : Char) : Nat := c.toNat - 48
def digitChar (d : Nat) : Char := Char.ofNat (48 + d)

def padLeft (fill : Char) (w : Nat) (s : Str) : Str := List.replicate (w - s.length) fill ++ s
def padRight (fill : Char) (w : Nat) (s : Str) : Str := s ++ List.replicate (w - s.length) fill

/-- decimal digits of `n`; structural in `fuel` (any `fuel ≥ n` gives the same result) so that the kernel can evaluate it -/
def natStrAux : Nat → Nat → Str
  | 0, n => [digitChar n]
  | fuel + 1, n => if n < 10 then [digitChar n] else natStrAux fuel (n / 10) ++ [digitChar (n % 10)]

/-- decimal digits of `n`, no leading zero (`str(n)`) -/
def natStr (n : Nat) : Str := natStrAux n n

/-- the last `k` decimal digits of `n`, zero padded -/
def fixedDigits : Nat → Nat → Str
  | 0, _ => []
  | k + 1, n => fixedDigits k (n / 10) ++ [digitChar (n % 10)]

def intStr (i : Int) : Str := if i < 0 then '-' :: natStr i.natAbs else natStr i.natAbs

def digitsValAux : Str → Nat → Option Nat
  | [], acc => some acc
  | c :: cs, acc => if isDigit c then digitsValAux cs (acc * 10 + digitVal c) else none

/-- value of a non-empty all-digit string -/
def digitsVal (s : Str) : Option Nat := if s.isEmpty then none else digitsValAux s 0

/-! ## checksum and validity -/

/-- contribution of one character to `Tle._checksum`: the characters of `removed` are deleted by `translate`,
`-` is replaced by `1`, every remaining character goes through `int()` -/
def ckVal (c : Char) : Option Nat :=
  if G.removed.contains c then some 0
  else if c = '-' then some G.minusAs
  else if isDigit c then some (digitVal c)
  else none

def sumVals : Str → Option Nat
  | [] => some 0
  | c :: cs => match ckVal c, sumVals cs with
    | some a, some b => some (a + b)
    | _, _ => none

/-- `Tle._checksum(line)`; `none` = `ValueError` from `int()` -/
def checksum (line : Str) : Option Nat := (sumVals (line.take G.ckLen)).map (· % 10)

/-- the body of the `for` loop of `_check_validity` for line number `i` (0-based) -/
def checkLine (i : Nat) (line : Str) : Except Err Unit :=
  let line := strip line
  if line.length ≠ G.lineLen then .error (.size (i + 1) line.length)
  else match checksum line with
    | none => .error .valueError
    | some c => if natStr c = slice line (G.ckPos, G.ckPos + 1) then .ok () else .error (.checksum (i + 1))

def checkLines : Nat → List Str → Except Err Unit
  | _, [] => .ok ()
  | i, l :: ls => do checkLine i l; checkLines (i + 1) ls

/-- `Tle._check_validity(text)` -/
def checkValidity (text : List Str) : Except Err Unit :=
  match text with
  | t0 :: t1 :: _ =>
    if !startsWith (lstrip t0) ['1', ' '] then .error .lineNumber
    else if !startsWith (lstrip t1) ['2', ' '] then .error .lineNumber
    else checkLines 0 text
  | _ => .error (.lineCount text.length)

/-! ## numbers read from text -/

/-- exact decimal `± mant · 10^(-scale)` -/
structure Dec where
  neg : Bool
  mant : Nat
  scale : Int
deriving Repr, DecidableEq

def splitSign (s : Str) : Bool × Str :=
  match s with
  | '-' :: r => (true, r)
  | '+' :: r => (false, r)
  | _ => (false, s)

/-- `int(s)`: blanks stripped, optional sign, digits (underscores and non-ASCII digits are not modelled) -/
def pyInt (s : Str) : Except Err Int :=
  let (neg, r) := splitSign (strip s)
  match digitsVal r with
  | some n => .ok (if neg then -(n : Int) else n)
  | none => .error .valueError

/-- `float(s)` without the stripping of blanks: `[sign] digits* [. digits*]` with at least one digit
(exponents, inf, nan, underscores are not modelled) -/
def pyFloatCore (s : Str) : Except Err Dec :=
  let (neg, r) := splitSign s
  let ip := r.takeWhile isDigit
  let rest := r.dropWhile isDigit
  match rest with
  | [] => match digitsVal ip with
    | some n => .ok ⟨neg, n, 0⟩
    | none => .error .valueError
  | '.' :: fp =>
    if ip.isEmpty && fp.isEmpty then .error .valueError
    else match digitsValAux (ip ++ fp) 0 with
      | some n => .ok ⟨neg, n, fp.length⟩
      | none => .error .valueError
  | _ => .error .valueError

/-- `float(s)` -/
def pyFloat (s : Str) : Except Err Dec := pyFloatCore (strip s)

/-- index of the last occurrence of `c` -/
def rfind (s : Str) (c : Char) : Option Nat :=
  match (s.reverse.findIdx? (· = c)) with
  | some i => some (s.length - 1 - i)
  | none => none

/-- second half of `_float`: `text` already carries its sign and the decimal point -/
def tleFloatSigned (text : Str) : Except Err Dec :=
  let tail := text.drop 1
  if tail.contains '+' || tail.contains '-' then
    let sep := if tail.contains '+' then '+' else '-'
    match rfind text sep with
    | none => .error .outOfModel
    | some k =>
      let value := text.take k
      let expo := text.drop (k + 1)
      -- float(f"{value}e{exp_sign}{expo}"): the string starts with a sign and ends with `expo`, nothing is stripped inside
      match pyFloatCore value, digitsVal expo with
      | .ok d, some x => .ok { d with scale := if sep = '-' then d.scale + x else d.scale - x }
      | _, _ => .error .valueError
  else pyFloat text

/-- `_float(text)`: "decimal point assumed" fields -/
def tleFloat (text : Str) : Except Err Dec :=
  match strip text with
  | [] => .error .valueError      -- `if not text: raise ValueError(...)` (3f7f532)
  | c0 :: tl => tleFloatSigned (if c0 = '-' || c0 = '+' then c0 :: '.' :: tl else '+' :: '.' :: c0 :: tl)

/-! ## `Tle.__init__` -/

structure Parsed where
  name : Str
  text : List Str
  norad : Int
  classification : Str
  cospar : Option (Nat × Str)      -- (four-digit year, launch number and piece)
  year : Nat                       -- four-digit epoch year of the field
  epochUs : Int                    -- microseconds after 1 January 00:00 of `year`
  ndot : Dec                       -- the printed field (ndot / 2)
  ndd : Dec                        -- the printed field (ndotdot / 6)
  bstar : Dec
  elnb : Int
  revs : Int
  etype : Int
  inc : Dec
  raan : Dec
  ecc : Dec
  argp : Dec
  ma : Dec
  mm : Dec
deriving Repr, DecidableEq

def century (yy : Int) : Except Err Nat :=
  if yy < 0 then .error .outOfModel else .ok (yy.toNat + (if yy.toNat ≥ G.pivot then 1900 else 2000))

/-- round half even of `num / den` (`den > 0`) -/
def roundDiv (num : Int) (den : Nat) : Int :=
  let q := num / den
  let r := num % den
  if 2 * r < den then q else if 2 * r > den then q + 1 else if q % 2 = 0 then q else q + 1

/-- `d · 10^k` rounded half even to an integer -/
def decScaled (d : Dec) (k : Nat) : Int :=
  let m : Int := if d.neg then -(d.mant : Int) else d.mant
  let e : Int := k - d.scale
  if e ≥ 0 then m * (10 : Int) ^ e.toNat else roundDiv m (10 ^ (-e).toNat)

/-- `timedelta(days=float(x) - 1)` in microseconds -/
def epochMicros (d : Dec) : Int :=
  let m : Int := if d.neg then -(d.mant : Int) else d.mant
  if d.scale ≥ 0 then roundDiv ((m - (10 : Int) ^ d.scale.toNat) * 86400000000) (10 ^ d.scale.toNat)
  else (m * (10 : Int) ^ (-d.scale).toNat - 1) * 86400000000

/-- `Tle.__init__` after the name line has been taken off: validity, then the columns -/
def parseBody (text : List Str) : Except Err Parsed := do
  checkValidity text
  -- the columns are read from the stripped lines (the ones that were validated); they are also what `str(tle)` shows
  let text := text.map strip
  match text with
  | first :: second :: _ =>
    let norad ← pyInt (slice first G.norad)
    let classification := slice first G.classification
    let cospar ← (if (strip (slice first G.cosparTest)).isEmpty then pure none
      else do
        let y ← pyInt (slice first G.cosparYear)
        let y ← century y
        pure (some (y, strip (slice first G.cosparPiece))))
    let yy ← pyInt (slice first G.epochYear)
    let year ← century yy
    let day ← pyFloat (slice first G.epochDay)
    let ndot ← pyFloat (slice first G.ndot)
    let ndd ← tleFloat (slice first G.ndotdot)
    let bstar ← tleFloat (slice first G.bstar)
    let elnb ← pyInt (slice first G.elnb)
    let revs ← pyInt (slice second G.revs)
    let etype ← pyInt (slice first G.etype)
    let inc ← pyFloat (slice second G.inc)
    let raan ← pyFloat (slice second G.raan)
    let ecc ← tleFloat (slice second G.ecc)
    let argp ← pyFloat (slice second G.argp)
    let ma ← pyFloat (slice second G.ma)
    let mm ← pyFloat (slice second G.mm)
    pure { name := [], text, norad, classification, cospar, year, epochUs := epochMicros day, ndot, ndd, bstar, elnb, revs, etype, inc, raan, ecc, argp, ma, mm }
  | _ => .error .indexError

/-- `self.name`: the first of three lines, stripped, without a leading `"0 "` -/
def nameOf (n : Str) : Str :=
  let n := strip n
  if startsWith n ['0', ' '] then n.drop 2 else n

/-- `Tle(lines)` -/
def parseTle (lines : List Str) : Except Err Parsed :=
  match lines with
  | [n, a, b] => (parseBody [a, b]).map (fun p => { p with name := nameOf n })
  | _ => parseBody lines

/-! ## what is written -/

/-- a drag-like term in the "decimal point assumed" notation: zero, or `± 0.m5 · 10^exp` with `10000 ≤ m5 ≤ 99999` -/
inductive Unfl where
  | zero
  | val (neg : Bool) (m5 : Nat) (exp : Int)
  | small (neg : Bool) (digits : Nat)     -- below 1e-10: `± 0.digits · 10^-9`, mantissa not normalised
deriving Repr, DecidableEq

/-- integers of the printed unit, as `Tle.from_orbit` formats them -/
structure Rec where
  name : Str
  norad : Int
  cospar : Str        -- two-digit year ++ launch number ++ piece ('' when absent)
  yy : Nat            -- epoch year modulo 100
  day8 : Nat          -- day of year · 10^8
  ndotNeg : Bool
  ndot8 : Nat         -- |ndot / 2| · 10^8
  ndd : Unfl
  bstar : Unfl
  elnb : Int
  inc4 : Nat
  raan4 : Nat
  ecc7 : Nat
  argp4 : Nat
  ma4 : Nat
  mm8 : Nat
  revs : Int
deriving Repr, DecidableEq

def isLeap (y : Nat) : Bool := y % 4 = 0 && (y % 100 ≠ 0 || y % 400 = 0)
def yearMicros (y : Nat) : Int := (if isLeap y then 366 else 365) * 86400000000

/-- bring `(year, µs offset)` to `0 ≤ offset < length of year` -/
def normYear : Nat → Nat → Int → Option (Nat × Int)
  | 0, _, _ => none
  | fuel + 1, y, us =>
    if us < 0 then (if y = 0 then none else normYear fuel (y - 1) (us + yearMicros (y - 1)))
    else if us ≥ yearMicros y then normYear fuel (y + 1) (us - yearMicros y)
    else some (y, us)

/-- five significant digits, half even: `m ≈ m5 · 10^shift`, `m > 0` -/
def sig5 (m : Nat) : Nat × Int :=
  if m < 10000 then
    let k := 5 - (natStr m).length
    (m * 10 ^ k, -(k : Int))
  else if m < 100000 then (m, 0)
  else
    let k := (natStr m).length - 5
    let q := (roundDiv m (10 ^ k)).toNat
    if q = 100000 then (10000, (k : Int) + 1) else (q, k)

/-- the value `_unfloat` sees, reduced to what it prints -/
def toUnfl (d : Dec) : Unfl :=
  if d.mant = 0 then .zero
  else
    let (m5, sh) := sig5 d.mant
    let exp := sh + 5 - d.scale
    -- `if exp + 1 < -9: digits = round(abs(flt) * 10 ** (9 + precision))`
    if exp < -9 then .small d.neg (decScaled ⟨false, d.mant, d.scale⟩ 14).toNat
    else .val d.neg m5 exp

/-- an angle in degrees, `% 360`, in units of 1e-4 degree -/
def angle4 (d : Dec) : Except Err Nat :=
  if d.scale < 0 then .error .outOfModel
  else
    let m : Int := if d.neg then -(d.mant : Int) else d.mant
    let modulus : Int := 360 * (10 : Int) ^ d.scale.toNat
    let r := m % modulus
    .ok (decScaled ⟨false, r.toNat, d.scale⟩ 4).toNat

def nonneg (d : Dec) (k : Nat) : Except Err Nat :=
  if d.neg && d.mant ≠ 0 then .error .outOfModel else .ok (decScaled d k).toNat

/-- `Tle.orbit()` then the numeric prelude of `Tle.from_orbit` -/
def toRec (p : Parsed) : Except Err Rec := do
  let (y, us) ← (match normYear 8 p.year p.epochUs with | some r => pure r | none => .error .outOfModel)
  let doy := us / 86400000000 + 1
  let day8 := doy * 100000000 + roundDiv (us % 86400000000 * 100000000) 86400000000
  let cospar : Str := match p.cospar with
    | none => []
    | some (cy, piece) => (natStr cy).drop 2 ++ piece
  let inc4 ← angle4 p.inc
  let raan4 ← angle4 p.raan
  let argp4 ← angle4 p.argp
  let ma4 ← angle4 p.ma
  let ecc7 ← nonneg p.ecc 7
  let mm8 ← nonneg p.mm 8
  let nd := decScaled p.ndot 8
  pure { name := p.name, norad := p.norad, cospar, yy := y % 100, day8 := day8.toNat,
         ndotNeg := p.ndot.neg, ndot8 := nd.natAbs, ndd := toUnfl p.ndd, bstar := toUnfl p.bstar, elnb := p.elnb,
         inc4, raan4, ecc7, argp4, ma4, mm8, revs := p.revs }

/-- `_unfloat` -/
def unfloat : Unfl → Str
  | .zero => ['0', '0', '0', '0', '0', '-', '0']
  | .val neg m5 exp =>
    (if neg then ['-'] else []) ++ natStr m5 ++ (if exp < 0 then '-' :: natStr exp.natAbs else '+' :: natStr exp.natAbs)
  | .small neg digits => (if neg then ['-'] else []) ++ padLeft '0' 5 (natStr digits) ++ ['-', '9']

/-- `"{:w.pf}"` of a non-negative number given in units of `10^-p` -/
def fmtFix (zero : Bool) (w p : Nat) (v : Nat) : Str :=
  padLeft (if zero then '0' else ' ') w (natStr (v / 10 ^ p) ++ '.' :: fixedDigits p v)

/-- `f"{x: 0.8f}".replace("0.", ".")` -/
def fmtNdot (neg : Bool) (v : Nat) : Str :=
  let ip := natStr (v / 100000000)
  let ip' := if ip.getLast? = some '0' then ip.dropLast else ip
  (if neg then '-' else ' ') :: ip' ++ '.' :: fixedDigits 8 v

/-- `"{:.7f}".format(e)[2:]` -/
def fmtEcc (v : Nat) : Str := (natStr (v / 10000000) ++ '.' :: fixedDigits 7 v).drop 2

def fieldStr (r : Rec) : Fld → Option Str
  | .norad_id => some (intStr r.norad)
  | .cospar_id => some r.cospar
  | .ndot => some (fmtNdot r.ndotNeg r.ndot8)
  | .ndotdot => some (unfloat r.ndd)
  | .bstar => some (unfloat r.bstar)
  | .elnb => some (intStr r.elnb)
  | .ecc => some (fmtEcc r.ecc7)
  | .revolutions => some (intStr r.revs)
  | _ => none

def fieldNum (r : Rec) : Fld → Option Nat
  | .day => some r.day8
  | .inc => some r.inc4
  | .raan => some r.raan4
  | .argp => some r.argp4
  | .ma => some r.ma4
  | .mm => some r.mm8
  | _ => none

def renderSeg (r : Rec) : Seg → Option Str
  | .lit s => some s
  | .str name fill right w => (fieldStr r name).map (fun s => if right then padLeft fill w s else padRight fill w s)
  | .fix name zero w p => (fieldNum r name).map (fmtFix zero w p)
  | .yy .date => some (fixedDigits 2 r.yy)
  | .yy _ => none

def render (r : Rec) : List Seg → Option Str
  | [] => some []
  | s :: ss => match renderSeg r s, render r ss with
    | some a, some b => some (a ++ b)
    | _, _ => none

/-- the text handed to `cls(...)` at the end of `from_orbit` (name line, line 1, line 2) -/
def writeRec (r : Rec) : Except Err (List Str) :=
  -- `if not "{:.7f}".format(e).startswith("0."): raise TleParseError`
  if natStr (r.ecc7 / 10000000) ≠ ['0'] then .error .eccentricity else
  match render r G.fmt1, render r G.fmt2 with
  | some b1, some b2 =>
    match checksum b1, checksum b2 with
    | some c1, some c2 =>
      let l1 := b1 ++ natStr c1
      let l2 := b2 ++ natStr c2
      .ok (if r.name.isEmpty then [l1, l2] else [r.name, l1, l2])
    | _, _ => .error .valueError
  | _, _ => .error .outOfModel

/-- `Tle.from_orbit(orbit)` for the orbit described by `r`: write, then construct the `Tle` (which validates) -/
def fromOrbit (r : Rec) : Except Err Parsed := do
  let t ← writeRec r
  parseTle t

/-- `str(tle)` -/
def tleStr (p : Parsed) : List Str := if p.name.isEmpty then p.text else p.name :: p.text

/-- `Tle.from_orbit(Tle(lines).orbit())` -/
def rewrite (lines : List Str) : Except Err Parsed := do
  let p ← parseTle lines
  let r ← toRec p
  fromOrbit r

/-! ## `Tle.from_string` -/

def isValueError : Err → Bool
  | .indexError => false
  | .outOfModel => false
  | _ => true

/-- state of the generator: cache, entries yielded so far, abort reason (an exception that is not a `ValueError`) -/
structure FsState where
  cache : List Str := []
  out : List Parsed := []
  abort : Option Err := none

def fsStep (st : FsState) (line : Str) : FsState :=
  if st.abort.isSome then st
  else if (strip line).isEmpty || startsWith line ['#'] then st
  else if startsWith line ['1', ' '] then
    -- `cache = [x for x in cache[-1:] if not x.startswith("1 ")]; cache.append(line)`
    { st with cache := (st.cache.getLast?.toList.filter (fun x => !startsWith x ['1', ' '])) ++ [line] }
  else if startsWith line ['2', ' '] then
    match parseTle (st.cache ++ [line]) with
    | .ok p => { st with cache := [], out := st.out ++ [p] }
    | .error e => if isValueError e then { st with cache := [] } else { st with cache := [], abort := some e }
  else { st with cache := [line] }

def fromString (lines : List Str) : FsState := lines.foldl fsStep {}

end BeyondVerif.Tle
