/- GENERATED from lean/templates/RK.tpl by harness/instantiate.py — edit the template. Float instantiation. -/
import BeyondVerif.NumFloat
import BeyondVerif.Generated.KeplerNumF
namespace BeyondVerif.F
open BeyondVerif.NumFloat
set_option linter.unusedVariables false

/-!
Model of `KeplerNum._accel` / `KeplerNum._make_step` (beyond/propagators/keplernum.py) on top of what is
translated from the source on every run (Generated/KeplerNum*.lean): the four Butcher tableaux, the
per-body attraction `bodyAccel`, the step-size update `stepScale`, `MAX_ITER`.

States are lists `[x, y, z, vx, vy, vz]`; steps and dates are seconds (the implementation keeps them
as `timedelta`/`Date` with microsecond resolution: `usRound`).  Maneuvers are not modelled (C17).
-/
namespace KN

/-- `_accel(orb)` without maneuvers: `zeros(6)`, first half ← velocity, second half accumulates the attraction of
every body; `bodies` lists (µ, state of the body at the date of `orb`, in the frame of `orb`) -/
def accel (bodies : List (R × List R)) (orb : List R) : List R :=
  accelKin orb ++ bodies.foldl (fun acc b => vadd acc (bodyAccel b.1 b.2 orb)) [0, 0, 0]

/-- the central body sits at the origin of its own frame (`EarthPropagator.propagate` returns `[0]*6`) -/
def accelCentral (mu : R) (orb : List R) : List R := accel [(mu, [0, 0, 0, 0, 0, 0])] orb

/-- `coefs @ ks` for a coefficient vector and a list of stage derivatives -/
def lincomb : List R → List (List R) → List R
  | [a], [k] => smul a k
  | a :: as, k :: ks => vadd (smul a k) (lincomb as ks)
  | _, _ => []

/-- the loop `for a, c in zip(aa[1:], cc[1:])`: every pass appends `f(t + c h, y + (a @ ks) h)` to `ks` -/
def rkStages (f : R → List R → List R) (t : R) (y : List R) (h : R) :
    List (List R) → List R → List (List R) → List (List R)
  | a :: as, c :: cs, ks => rkStages f t y h as cs (ks ++ [f (t + c * h) (vadd y (smul h (lincomb a ks)))])
  | _, _, ks => ks

/-- stage derivatives `ks` of one pass with step `h` -/
def rkKs (f : R → List R → List R) (tb : Tableau) (t : R) (y : List R) (h : R) : List (List R) :=
  rkStages f t y h (tb.a.drop 1) (tb.c.drop 1) [f t y]

/-- `y_n + step * bb @ ks` (Python parses `step * bb @ ks` as `(step * bb) @ ks`) -/
def rkCombine (b : List R) (y : List R) (h : R) (ks : List (List R)) : List R :=
  vadd y (lincomb (b.map (fun bi => h * bi)) ks)

/-- one explicit Runge–Kutta step of size `h` with the weights `b` -/
def rkOnce (f : R → List R → List R) (tb : Tableau) (t : R) (y : List R) (h : R) : List R :=
  rkCombine tb.b y h (rkKs f tb t y h)

/-- `linalg.norm((step * (bb - b_star) @ ks)[:3])` -/
def errEst (tb : Tableau) (bs : List R) (h : R) (ks : List (List R)) : R :=
  vnorm ((lincomb ((vsub tb.b bs).map (fun d => h * d)) ks).take 3)

/-- `timedelta * float` is rounded to whole microseconds -/
def usRound (x : R) : R := floorR (x * 1000000 + 0.5) / 1000000

/-- `_make_step(orb, step)` without maneuvers: `some (real step, next state)`, `none` = the `for … else` branch
(RuntimeError "No convergence in step size").  `fuel` = `MAX_ITER`. -/
def makeStep (f : R → List R → List R) (tb : Tableau) (maxStep tol t : R) (y : List R) : Nat → R → Option (R × List R)
  | 0, _ => none
  | fuel + 1, h =>
    let ks := rkKs f tb t y h
    let y1 := rkCombine tb.b y h ks
    match tb.bstar with
    | none => some (h, y1)
    | some bs =>
      let perr := errEst tb bs h ks
      if perr ≤ tol then some (h, y1)
      else makeStep f tb maxStep tol t y fuel (usRound (stepScale maxStep h tol perr tb.b))

/-- the error estimates `p_error` seen by the successive passes of `makeStep` (diagnostics of the correspondence run:
an estimate within rounding noise of `tol` makes the accept/shrink decision of the two sides incomparable) -/
def makeStepErrs (f : R → List R → List R) (tb : Tableau) (maxStep tol t : R) (y : List R) : Nat → R → List R
  | 0, _ => []
  | fuel + 1, h =>
    match tb.bstar with
    | none => []
    | some bs =>
      let perr := errEst tb bs h (rkKs f tb t y h)
      if perr ≤ tol then [perr]
      else perr :: makeStepErrs f tb maxStep tol t y fuel (usRound (stepScale maxStep h tol perr tb.b))

end KN

end BeyondVerif.F
