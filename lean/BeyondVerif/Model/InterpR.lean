/- GENERATED from lean/templates/Interp.tpl by harness/instantiate.py — edit the template. Real instantiation. -/
import BeyondVerif.NumReal
import BeyondVerif.Generated.InterpWinR
import BeyondVerif.Generated.InterpLagR
noncomputable section
namespace BeyondVerif.R
open BeyondVerif.NumReal
open Classical
set_option linter.unusedVariables false

/-!
Model of beyond/utils/interp.py (`Interp.__init__`, `__call__`, `_prev_idx`, `_linear`, `_lagrange`)
and of its use in beyond/orbits/ephem.py (`Ephem.__init__`, `interp`, `frame/form` setters with `_refresh_interp`, `interpolate`).

* abscissae `xs : List R`; ordinates `ys : List (List R)` — one row per abscissa (a 1-D `ys` is a table
  of rows of length 1);
* the window arithmetic `windowRaw` is *translated from the source* (Generated/InterpWin*.lean); so are the guard
  `lagrangeRefuses`, the Lagrange formula `lagrangeFormula` (a chain of the numpy operations of Model/NpArr), the
  slice bounds `linearSlice` and the formula `linearFormula` of `_linear`, and the range test `callRefuses` of
  `__call__` (Generated/InterpLag*.lean).  `lagWeight / lagrangeCol / lagrangeEval` below are the *specification*
  (the textbook formula) that `C09.lagrangeFormula_eq` proves the translated formula equal to;
* Python slicing `a[start:stop]` (negative indices, clamping) is `pySlice`;
* errors are the exception kinds of the real code.
-/

/-- exception kinds -/
inductive Err where
  | value
  | index
  | type
  deriving DecidableEq, Repr

inductive Method where
  | linear
  | lagrange
  deriving DecidableEq, Repr

/-- normalisation of one bound of a Python slice on a sequence of length `n` (step 1) -/
def pyBound (n : Nat) (i : Int) : Nat :=
  if i < 0 then (if i + n < 0 then 0 else (i + n).toNat) else (if i > n then n else i.toNat)

/-- Python `l[start:stop]` -/
def pySlice {α : Type} (l : List α) (start stop : Int) : List α :=
  (l.take (pyBound l.length stop)).drop (pyBound l.length start)

/-- `Interp._prev_idx`: binary search by slicing; `fuel` bounds the `while True` loop.
`none` = IndexError (`xs[k]` on an empty array) or fuel exhausted. -/
def prevIdxGo (x : R) : Nat → List R → Nat → Option Nat
  | 0, _, _ => none
  | fuel + 1, xs, acc =>
    if xs.length = 1 then some acc
    else
      match xs[xs.length / 2]? with
      | none => none
      | some xk =>
        if x > xk then prevIdxGo x fuel (xs.drop (xs.length / 2)) (acc + xs.length / 2)
        else prevIdxGo x fuel (xs.take (xs.length / 2)) acc

def prevIdx (xs : List R) (x : R) : Option Nat := prevIdxGo x (xs.length + 1) xs 0

/-- `l_j(x) = Π_{m ≠ j} (x - x_m) / (x_j - x_m)`, the product taken in increasing `m` -/
def lagWeight (xs : List R) (x : R) (j : Nat) : R :=
  ((List.range xs.length).filter (fun m => m ≠ j)).foldl
    (fun acc m => acc * ((x - xs.getD m (0 : R)) / (xs.getD j (0 : R) - xs.getD m (0 : R)))) (1 : R)

/-- one component of `l_j @ ys` -/
def lagrangeCol (xs : List R) (col : List R) (x : R) : R :=
  (List.range xs.length).foldl (fun acc j => acc + lagWeight xs x j * col.getD j (0 : R)) (0 : R)

/-- `l_j @ ys` on the selected window (specification; the executable model runs `lagrangeFormula`) -/
def lagrangeEval (xs : List R) (ys : List (List R)) (x : R) : List R :=
  (columns ys).map (fun col => lagrangeCol xs col x)

/-- `Interp._lagrange` -/
def lagrangeCall (order : Int) (xs : List R) (ys : List (List R)) (x : R) : Except Err (List R) :=
  match prevIdx xs x with
  | none => .error .index
  | some p =>
    let w := windowRaw p order ys.length
    let xw := pySlice xs w.1 w.2
    let yw := pySlice ys w.1 w.2
    if lagrangeRefuses (yw.length : Int) order then .error .value          -- "impossible to interpolate"
    else match lagrangeFormula order xw yw x with
      | none => .error .value                                   -- numpy refuses a shape (reshape(order, order) …): ValueError
      | some v => .ok v

def linRow (x x0 x1 : R) : List R → List R → List R
  | a :: y0, b :: y1 => linearFormula x x0 x1 a b :: linRow x x0 x1 y0 y1
  | _, _ => []

/-- `Interp._linear` -/
def linearCall (xs : List R) (ys : List (List R)) (x : R) : Except Err (List R) :=
  match prevIdx xs x with
  | none => .error .index
  | some p =>
    match pySlice xs (linearSlice (p : Int)).1 (linearSlice (p : Int)).2, pySlice ys (linearSlice (p : Int)).1 (linearSlice (p : Int)).2 with
    | [x0, x1], [y0, y1] => .ok (linRow x x0 x1 y0 y1)
    | _, _ => .error .value                                   -- unpacking fails

/-- `all(x0 < x1 for x0, x1 in zip(xs, xs[1:]))` -/
def increasing : List R → Bool
  | a :: b :: rest => decide (a < b) && increasing (b :: rest)
  | _ => true

/-- `Interp.__call__` -/
def interpCall (m : Method) (order : Option Int) (xs : List R) (ys : List (List R)) (x : R) : Except Err (List R) :=
  match xs.head?, xs.getLast? with
  | some x0, some xl =>
    if callRefuses x0 xl x then .error .value
    else
      match m, order with
      | .linear, _ => linearCall xs ys x
      | .lagrange, some o => lagrangeCall o xs ys x
      | .lagrange, none => .error .type
  | _, _ => .error .index

/-- `Interp(xs, ys, method, order)(x)` -/
def interp (m : Method) (order : Option Int) (xs : List R) (ys : List (List R)) (x : R) : Except Err (List R) :=
  if m = .lagrange ∧ order = none then .error .type
  else if ¬ increasing xs then .error .value
  else interpCall m order xs ys x

/-! ## Ephem -/

/-- a point of an ephemeris: date (`_mjd`), raw coordinates, form and frame names -/
structure Pt where
  mjd : R
  coord : List R
  form : String
  frame : String

/-- state of an `Ephem` object: its points (sorted by the constructor), method, order, and the ordinates
held by the cached interpolator (`none` until the first interpolation) -/
structure Eph where
  pts : List Pt
  method : Method
  order : Int
  cache : Option (List (List R))

/-- `Ephem(orbits, method, order)`: stable sort by date; default method Lagrange, default order -/
def Eph.new (pts : List Pt) (method : Option Method) (order : Option Int) : Eph :=
  { pts := pts.mergeSort (fun a b => decide (a.mjd ≤ b.mjd)),
    method := method.getD .lagrange, order := order.getD ephemDefaultOrder, cache := none }

/-- `Ephem.interpolate(date)`: builds the interpolator on first use (its ordinates are a *copy* of the points'
coordinates), interpolates, labels the result with the form and frame of the first point -/
def Eph.interpolate (e : Eph) (date : R) : Except Err Pt × Eph :=
  let ys := e.cache.getD (e.pts.map (·.coord))
  let e' := { e with cache := some ys }
  match interp e.method (some e.order) (e.pts.map (·.mjd)) ys date with
  | .error err => (.error err, e')
  | .ok v =>
    match e.pts.head? with
    | none => (.error .index, e')
    | some p0 => (.ok { mjd := date, coord := v, form := p0.form, frame := p0.frame }, e')

/-- `ephem.frame = …` / `ephem.form = …`: every point is converted in place by `conv`
(which keeps the date), then `_refresh_interp()`: if the interpolator exists already its ordinates are
rebuilt from the converted points -/
def Eph.convert (e : Eph) (conv : Pt → Pt) : Eph :=
  { e with pts := e.pts.map conv, cache := e.cache.map (fun _ => (e.pts.map conv).map (·.coord)) }

/-- `ephem.order = k`: before the first interpolation the value is kept for the construction of the
interpolator, afterwards it is written through to the live interpolator (`self.interp.order = value`);
either way the next interpolation uses it -/
def Eph.setOrder (e : Eph) (k : Int) : Eph := { e with order := k }

/-- `ephem.method = m`: same write-through as the order -/
def Eph.setMethod (e : Eph) (m : Method) : Eph := { e with method := m }

/-! ## object identity: which replies are new objects, which are the recorded points themselves

Python hands out references.  `EphH` adds to the state of an `Ephem` the identity of every recorded point
(`ids`, parallel to `pts`) and the allocation counter `next` (every object created so far has an identity
`< next`).  `interpolate` / `propagate` build a new `StateVector`; `ephem[i]` (and plain iteration, which the
frame/form setters themselves rely on) hands out the recorded point itself. -/

structure EphH where
  e : Eph
  ids : List Nat
  next : Nat

/-- `Ephem(orbits, method, order)`: the recorded points are the objects `0 … n-1` (in date order) -/
def EphH.new (pts : List Pt) (method : Option Method) (order : Option Int) : EphH :=
  { e := Eph.new pts method order, ids := List.range pts.length, next := pts.length }

/-- `Ephem.interpolate(date)` / `Ephem.propagate(date)`: the reply is a newly allocated object -/
def EphH.interpolate (h : EphH) (date : R) : Except Err (Nat × Pt) × EphH :=
  match h.e.interpolate date with
  | (.ok p, e') => (.ok (h.next, p), { h with e := e', next := h.next + 1 })
  | (.error err, e') => (.error err, { h with e := e' })

/-- `ephem[i]` with an `int` index (Python indexing, negative from the end): the recorded object itself -/
def EphH.getitem (h : EphH) (i : Int) : Except Err (Nat × Pt) :=
  let n : Int := h.e.pts.length
  let j : Int := if i < 0 then i + n else i
  if j < 0 ∨ j ≥ n then .error .index
  else match h.ids[j.toNat]?, h.e.pts[j.toNat]? with
    | some id, some p => .ok (id, p)
    | _, _ => .error .index

/-- the caller modifies in place (`o.form = …`, `o.frame = …`, `o[:] = …`) the object `oid` it holds: this changes
the ephemeris iff the object is one of the recorded points — and then the array held by an interpolator that
exists already is NOT refreshed (only the `Ephem.frame` / `Ephem.form` setters refresh it) -/
def EphH.mutate (h : EphH) (oid : Nat) (f : Pt → Pt) : EphH :=
  { h with e := { h.e with pts := List.zipWith (fun id p => if id = oid then f p else p) h.ids h.e.pts } }

def EphH.convert (h : EphH) (conv : Pt → Pt) : EphH := { h with e := h.e.convert conv }
def EphH.setOrder (h : EphH) (k : Int) : EphH := { h with e := h.e.setOrder k }
def EphH.setMethod (h : EphH) (m : Method) : EphH := { h with e := h.e.setMethod m }

end BeyondVerif.R
