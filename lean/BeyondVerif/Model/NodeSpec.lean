import BeyondVerif.Model.Node
/-!
Executable specification side for routing: independent checks on a returned path
(no reference to the routing tables), and the enumeration of all forest histories
on `n` labelled nodes.
-/
namespace BeyondVerif.Node

/-- `u`,`v` were linked at some point of the history (either orientation of the `+`) -/
def linkedB (hist : List (Nat × Nat)) (u v : Nat) : Bool :=
  hist.contains (u, v) || hist.contains (v, u)

def chainB (hist : List (Nat × Nat)) : List Nat → Bool
  | a :: b :: l => linkedB hist a b && chainB hist (b :: l)
  | _ => true

/-- `p` is a simple chain of existing links from `s` to `t` -/
def goodPath (hist : List (Nat × Nat)) (s t : Nat) (p : List Nat) : Bool :=
  p.head? == some s && p.getLast? == some t && chainB hist p && decide p.Nodup

def build (fuel : Nat) (hist : List (Nat × Nat)) : Option Graph :=
  hist.foldl (fun og e => og.bind (fun g => link fuel g e.1 e.2)) (some [])

/-- connected components by naive label propagation: `comp[i]` = representative of node i -/
def mergeComp (comp : List Nat) (a b : Nat) : List Nat :=
  let ca := comp.getD a a
  let cb := comp.getD b b
  comp.map (fun c => if c = cb then ca else c)

def components (n : Nat) (hist : List (Nat × Nat)) : List Nat :=
  hist.foldl (fun comp e => mergeComp comp e.1 e.2) (List.range n)

/-- For a forest history on nodes `0..n-1`: every connected pair gets a simple valid chain
ending at the goal, every unconnected pair is reported `unknown`. -/
def routingExact (n : Nat) (hist : List (Nat × Nat)) : Bool :=
  match build (n + 2) hist with
  | none => false
  | some g =>
    let comp := components n hist
    (List.range n).all (fun s => (List.range n).all (fun t =>
      if comp.getD s s = comp.getD t t then
        match path (n + 2) g s t with
        | .ok p => goodPath hist s t p
        | _ => false
      else path (n + 2) g s t == .unknown))

instance : BEq PathRes := ⟨fun a b => decide (a = b)⟩

/-- the history is a forest: every link joins two different components; a tree if moreover n-1 links -/
def isForestHist (n : Nat) (hist : List (Nat × Nat)) : Bool :=
  (hist.foldl (fun (st : Bool × List Nat) e =>
    let comp := st.2
    (st.1 && e.1 < n && e.2 < n && comp.getD e.1 e.1 != comp.getD e.2 e.2, mergeComp comp e.1 e.2))
    (true, List.range n)).1

/-- all forest histories of length `k` extending `hist` (every ordered pair joining two components),
each checked at every prefix -/
def allExtensionsOK (n : Nat) : Nat → List (Nat × Nat) → List Nat → Bool
  | 0, _, _ => true
  | k + 1, hist, comp =>
    (List.range n).all (fun a => (List.range n).all (fun b =>
      if comp.getD a a = comp.getD b b then true
      else
        let hist' := hist ++ [(a, b)]
        routingExact n hist' && allExtensionsOK n k hist' (mergeComp comp a b)))

/-- every insertion order and orientation of every labelled forest on n nodes (all prefixes of all trees) -/
def allForestsOK (n : Nat) : Bool := allExtensionsOK n (n - 1) [] (List.range n)

def countExtensions (n : Nat) : Nat → List Nat → Nat
  | 0, _ => 1
  | k + 1, comp =>
    ((List.range n).map (fun a => ((List.range n).map (fun b =>
      if comp.getD a a = comp.getD b b then 0 else countExtensions n k (mergeComp comp a b))).sum)).sum

end BeyondVerif.Node
