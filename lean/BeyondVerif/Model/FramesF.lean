/- GENERATED from lean/templates/Frames.tpl by harness/instantiate.py — edit the template. Float instantiation. -/
import BeyondVerif.NumFloat
import BeyondVerif.Generated.FrameFormulasF
import BeyondVerif.Model.NodeSpec
import BeyondVerif.Model.Chain
import BeyondVerif.Generated.Graphs
import BeyondVerif.Model.Memo
import BeyondVerif.Generated.FrameGlue
namespace BeyondVerif.F
open BeyondVerif.NumFloat
set_option linter.unusedVariables false

/-!
Model of the frame machinery of galactics/beyond:

* providers of `beyond/frames/orient.py` (class Orientation) on top of the formulas translated from
  `iau1980.py`, `iau2010.py`, `matrix.py`, `orient.py`, `stations.py` (Generated/FrameFormulas*.lean);
* the nutation (tab5.1) and CIO (tab5.2a/b/d) series as folds over table rows supplied by the caller;
* `Orientation.convert_to` (product of edge matrices along `Node.steps`, Model/Chain.lean + Model/Node.lean on the
  regenerated `orientHist`), `Center.convert_to` (signed sum of offsets) and `Frame.transform`.

Everything that depends on the date enters through `DateArgs` (time-scale arithmetic belongs to C03).
-/

/-- `np.deg2rad` / `np.radians` / `math.radians` : `x * (π/180)` -/
def deg2rad (x : R) : R := x * (pi / (180 : R))

structure DateArgs where
  ttt : R       -- date.change_scale("TT").julian_century
  tut1 : R      -- date.change_scale("UT1").julian_century
  jdut1 : R     -- date.change_scale("UT1").jd
  day : R       -- date.d
  xp : R        -- date.eop.x  (arcsec)
  yp : R
  dx : R        -- date.eop.dx (mas)
  dy : R
  lod : R       -- date.eop.lod (ms)
  dpsi106 : R   -- iau1980._nutation(date, False, 106)[1]  (degrees)
  deps106 : R
  dpsi4 : R     -- iau1980._nutation(date, False, 4)[1]
  deps4 : R
  x10 : R       -- iau2010._xysxy2(date)  (arcsec)
  y10 : R
  sxy10 : R
  eps106 : R    -- iau1980._nutation(date, False, 106)[0]  (degrees): part of the memoized triple, like dpsi106 / deps106
  eps4 : R      -- iau1980._nutation(date, False, 4)[0]

/-! ## IAU 1980 -/

/-- one pass of the loop of `_nutation` over a row `[a1..a5, A, B, C, D]` of tab5.1 -/
def nutStep80 (fa : List R) (ttt : R) (acc : R × R) (row : List R) : R × R :=
  match fa, row with
  | [_, m_m, m_s, u_m_m, d_s, om_m], [a1, a2, a3, a4, a5, A, B, C, D] =>
    let a_p := a1 * m_m + a2 * m_s + a3 * u_m_m + a4 * d_s + a5 * om_m
    (acc.1 + (A + B * ttt) * sin (deg2rad a_p) / (36000000.0 : R), acc.2 + (C + D * ttt) * cos (deg2rad a_p) / (36000000.0 : R))
  | _, _ => acc

/-- `_nutation(date, eop_correction=False, terms=len rows)[1:]` : (Δψ, Δε) in degrees -/
def nutSeries80 (ttt : R) (rows : List (List R)) : R × R :=
  rows.foldl (nutStep80 (nutArgs80 ttt) ttt) ((0.0 : R), (0.0 : R))

def epsBar80 (ttt : R) : R := (nutArgs80 ttt).headD 0

/-- `iau1980.nutation(date, eop_correction=False)` given the triple `_nutation` returned (degrees) -/
def nutation80 (epsbar dpsi deps : R) : M3 :=
  let epsilon_bar := deg2rad epsbar
  let delta_psi := deg2rad dpsi
  let delta_eps := deg2rad deps
  let epsilon := epsilon_bar + delta_eps
  M3.mul (M3.mul (rot1 (-epsilon_bar)) (rot3 delta_psi)) (rot1 epsilon)

/-- `iau1980.equinox` (degrees), given the (ε̄, Δψ) `_nutation` returned; the guard `equinoxKinematic` of the kinematic terms is read
from the AST (Generated/FrameFormulas*.lean) and pinned by `C02.kinematic_guard_pinned` -/
def equinox80 (ttt epsbar dpsi day : R) (kinematic : Bool) : R :=
  let equin := dpsi * (3600.0 : R) * cos (deg2rad epsbar)
  let equin :=
    if equinoxKinematic day kinematic then
      let om_m := (125.04455501 : R) - ((5 : R) * (360.0 : R) + (134.1361851 : R)) * ttt + (0.0020756 : R) * powi ttt 2 + (2.139e-6 : R) * powi ttt 3
      equin + ((0.00264 : R) * sin (deg2rad om_m) + (6.3e-5 : R) * sin (deg2rad ((2 : R) * om_m)))
    else equin
  equin / (3600.0 : R)

/-- `iau1980._sideral(date, 0.0, "apparent", False, 106)` (degrees in [0, 360)) -/
def gastDeg80 (D : DateArgs) : R :=
  let theta := gmstDeg80 D.tut1 + equinox80 D.ttt D.eps106 D.dpsi106 D.day true
  let theta := theta + (0.0 : R)
  fmod theta (360.0 : R)

def precession80 (ttt : R) : M3 :=
  match precAngles80 ttt with
  | [zeta, theta, z] => M3.mul (M3.mul (rot3 (deg2rad zeta)) (rot2 (-(deg2rad theta)))) (rot3 (deg2rad z))
  | _ => M3.one

def polar80 (D : DateArgs) : M3 :=
  M3.mul (rot1 (deg2rad (D.yp / (3600.0 : R)))) (rot2 (deg2rad (D.xp / (3600.0 : R))))

def vecOf (l : List R) : V3 := ⟨l.getD 0 0, l.getD 1 0, l.getD 2 0⟩

/-! ## IAU 2010 -/

def polar10 (D : DateArgs) : M3 :=
  let x_p := deg2rad (D.xp / (3600.0 : R))
  let y_p := deg2rad (D.yp / (3600.0 : R))
  let s_prime := deg2rad (sPrime10 D.ttt / (3600 : R))
  M3.mul (M3.mul (rot3 (-s_prime)) (rot2 x_p)) (rot1 y_p)

/-- `_planets`: the first five arguments are reduced: `radians((p / 3600) % 360)` -/
def planets10 (ttt : R) : List R :=
  let p := planetArgs10 ttt
  (p.take 5).map (fun v => deg2rad (fmod (v / (3600 : R)) (360 : R))) ++ p.drop 5

def dotL : List R → List R → R
  | x :: a, y :: b => x * y + dotL a b
  | _, _ => 0

/-- inner loop of `_xysxy2` over the rows `[As, Ac, p1 … p14]` of one `j` block -/
def cioBlock (planets : List R) (rows : List (List R)) : R :=
  rows.foldl (fun acc row =>
    match row with
    | As :: Ac :: coefs =>
      let p := dotL coefs planets
      acc + (As * sin p + Ac * cos p)
    | _ => acc) (0 : R)

/-- `_xysxy2`: blocks `(tab, j, rows)` with tab 0/1/2 = X/Y/s, in the order the code visits them; arcsec -/
def xys10 (ttt : R) (blocks : List (Nat × Nat × List (List R))) : List R :=
  let planets := planets10 ttt
  let acc := blocks.foldl (fun (acc : List R) blk =>
    let v := cioBlock planets blk.2.2 * powi ttt blk.2.1
    match acc, blk.1 with
    | [X, Y, s], 0 => [X + v, Y, s]
    | [X, Y, s], 1 => [X, Y + v, s]
    | [X, Y, s], 2 => [X, Y, s + v]
    | a, _ => a) (xysPoly10 ttt)
  acc.map (fun v => v * (1e-6 : R))

/-- `_xys` then `precesion_nutation` -/
def cio10 (D : DateArgs) : M3 :=
  let dX := D.dx / (1000.0 : R)
  let dY := D.dy / (1000.0 : R)
  let X := deg2rad ((D.x10 + dX) / (3600.0 : R))
  let Y := deg2rad ((D.y10 + dY) / (3600.0 : R))
  let s := deg2rad (D.sxy10 / (3600.0 : R)) - (X * Y / (2 : R))
  cioMat X Y s

/-! ## providers (class Orientation), in the direction in which the method exists -/

/-- names of the provider methods modelled by `edgeBuiltin`; compared with the regenerated list
`Generated.orientProviders` in Props/C02.lean -/
def providerNames : List (String × String) :=
  [("TEME", "TOD"), ("PEF", "TOD"), ("TOD", "MOD"), ("MOD", "EME2000"), ("ITRF", "PEF"), ("ITRF", "TIRF"),
   ("TIRF", "CIRF"), ("CIRF", "GCRF"), ("G50", "EME2000"), ("GCRF", "EME2000")]

def edgeBuiltin (D : DateArgs) (a b : String) : Option T6 :=
  if a = "TEME" ∧ b = "TOD" then some (expand (rot3 (-(deg2rad (equinox80 D.ttt D.eps4 D.dpsi4 D.day false)))) none)
  else if a = "PEF" ∧ b = "TOD" then some (expand (rot3 (deg2rad (-(gastDeg80 D)))) (some (vecOf (rate80 D.lod)).neg))
  else if a = "TOD" ∧ b = "MOD" then some (expand (nutation80 D.eps106 D.dpsi106 D.deps106) none)
  else if a = "MOD" ∧ b = "EME2000" then some (expand (precession80 D.ttt) none)
  else if a = "ITRF" ∧ b = "PEF" then some (expand (polar80 D) none)
  else if a = "ITRF" ∧ b = "TIRF" then some (expand (polar10 D) none)
  else if a = "TIRF" ∧ b = "CIRF" then some (expand (rot3 (-(era10 D.jdut1))) (some (vecOf (rate10 D.lod)).neg))
  else if a = "CIRF" ∧ b = "GCRF" then some (expand (cio10 D) none)
  else if a = "G50" ∧ b = "EME2000" then some (expand g50Mat none)
  else if a = "GCRF" ∧ b = "EME2000" then some (expand gcrfBiasMat none)
  else none

/-- a dynamically registered orientation (ground station, local orbital frame): node `child`, method
`child_to_parent` returning `(m, None)` -/
structure Extra where
  child : Nat
  parent : Nat
  m : M3

def edge (D : DateArgs) (names : List String) (extras : List Extra) (a b : Nat) : Option T6 :=
  match extras.find? (fun e => e.child = a ∧ e.parent = b) with
  | some e => some (expand e.m none)
  | none =>
    match names[a]?, names[b]? with
    | some na, some nb => edgeBuiltin D na nb
    | _, _ => none

/-- `Orientation.convert_to(date, new_orient)`: `hist` = the `+` operations in execution order (built-in ones first) -/
def orientConvert (D : DateArgs) (names : List String) (hist : List (Nat × Nat)) (extras : List Extra) (a b : Nat) : Option T6 :=
  let fuel := hist.length + 3
  match Node.build fuel hist with
  | none => none
  | some g =>
    match Node.path fuel g a b with
    | .ok p => Chain.chain T6.mul T6.inv (edge D names extras) (Node.steps p) T6.one
    | _ => none

/-! ## local orbital frames: `to_local(orient, sv, expanded=False).T` -/

/-- `to_local(orient, sv, expanded=False).T`; `lofQsw` / `lofTnw` are `to_qsw` / `to_tnw` of beyond/frames/local.py, translated from the
source on every run (Generated/FrameFormulas*.lean) -/
def lofMat (tnw : Bool) (pos vel : V3) : M3 :=
  (if tnw then lofTnw pos vel else lofQsw pos vel).tr

/-- Angular velocity of the local orbital frame of a reference moving with velocity `vel` and acceleration `acc`, expressed in the
axes of the local frame itself (c = pos × vel, h = |c|): QSW `(r (a·c)/h², 0, h/r²)`, TNW `((a·c)(v·p)/(h² V), −(a·c)/(h V), a·(c×v)/(h V²))`.
For an acceleration in the orbital plane (a·c = 0: any central force) this is `h/r²` resp. `a·(c×v)/(hV²)` (two-body: `μ h/(r³V²)`) along W.
The code hands NO rate to `expand` for these orientations (`LocalOrbitalOrientation._to_parent` returns `(m, None)`): this is the term it
leaves out (Props/C02Kin.lean `lof_velocity_defect`, findings C02-lof-no-rate-qsw / -tnw). -/
def lofRate (tnw : Bool) (pos vel acc : V3) : V3 :=
  let c := V3.cross pos vel
  let h := V3.norm c
  let ac := V3.dot acc c
  if tnw then
    let V := V3.norm vel
    ⟨ac * V3.dot vel pos / (h * h * V), -(ac / (h * V)), V3.dot acc (V3.cross c vel) / (h * (V * V))⟩
  else
    let r := V3.norm pos
    ⟨r * ac / (h * h), 0, h / (r * r)⟩

/-- an orbit-attached local orbital orientation as the code builds it (`LocalOrbitalOrientation._to_parent`): the reference state
(`p`, `v`: the cartesian point at the date) is given in a frame of orientation `gori` with the centre of the parent; a COPY of it is
converted to the parent (`sv.copy(form="cartesian", frame=self.parent)`), then `to_local(orient, sv).T`.  Nothing is written back:
the specification the centre link reads (`CLink`) is the same before and after. -/
structure LofSpec where
  child : Nat
  parent : Nat
  tnw : Bool
  gori : Nat
  p : V3
  v : V3
  /-- a reference WITHOUT propagator is not brought to the date of the conversion: `sv.copy(frame=parent)` converts it at ITS OWN
  date (`orbit.date` in `Frame.transform`) — the date arguments of that date; `none` = the date of the conversion (propagated reference) -/
  own : Option DateArgs

def resolveLof (D : DateArgs) (names : List String) (hist : List (Nat × Nat)) (extras : List Extra) (l : LofSpec) : Option Extra :=
  (orientConvert (l.own.getD D) names hist extras l.gori l.parent).map (fun m =>
    let x := m.apply l.p l.v
    (⟨l.child, l.parent, lofMat l.tnw x.1 x.2⟩ : Extra))

/-- the providers of all orbit-attached orientations of a request, in creation order (a later one may hang below an earlier one) -/
def resolveLofs (D : DateArgs) (names : List String) (hist : List (Nat × Nat)) : List Extra → List LofSpec → Option (List Extra)
  | ex, [] => some ex
  | ex, l :: ls =>
    match resolveLof D names hist ex l with
    | some e => resolveLofs D names hist (ex ++ [e]) ls
    | none => none

/-! ## centres and `Frame.transform` -/

/-- a state (position, velocity) as numpy's length-6 array: sum, opposite, zero, and `m @ x` -/
def S6.add (a b : V3 × V3) : V3 × V3 := (a.1.add b.1, a.2.add b.2)
def S6.neg (a : V3 × V3) : V3 × V3 := (a.1.neg, a.2.neg)
def S6.zero : V3 × V3 := (V3.zero, V3.zero)
def T6.app (m : T6) (x : V3 × V3) : V3 × V3 := m.apply x.1 x.2

/-- `Center.add_link(parent, orientation, offset)`: the offset (evaluated at the date; since 405734d the *cartesian* coordinates of
the point when the offset is a StateVector, whatever form it is held in) is expressed in orientation `ori` -/
structure CLink where
  child : Nat
  parent : Nat
  ori : Nat
  p : V3
  v : V3

/-- `Center._to_parent(date, orientation)`: `self.orientation.convert_to(date, orientation) @ offset` -/
def linkOffset (D : DateArgs) (names : List String) (hist : List (Nat × Nat)) (extras : List Extra) (target : Nat) (l : CLink) : Option (V3 × V3) :=
  (orientConvert D names hist extras l.ori target).map (fun m => Generated.Glue.centreToParent T6.app m (l.p, l.v))

/-- one pass of the loop of `Center.convert_to` over a step `a → b` of the centre route (`none` = an exception): the link
`a_to_b` if it exists, else the link `b_to_a` with the opposite sign (`Generated.Glue.centreDirect / centreReverse / centreUpdate`:
read from the AST), else `ValueError` -/
def centreStep (D : DateArgs) (names : List String) (hist : List (Nat × Nat)) (extras : List Extra) (clinks : List CLink) (target : Nat)
    (acc : Option (V3 × V3)) (st : Nat × Nat) : Option (V3 × V3) :=
  match acc with
  | none => none
  | some out =>
    match clinks.find? (fun (l : CLink) => l.child = st.1 ∧ l.parent = st.2) with
    | some l => (linkOffset D names hist extras target l).map (fun (o : V3 × V3) => Generated.Glue.centreUpdate S6.add out (Generated.Glue.centreDirect S6.neg o))
    | none =>
      match clinks.find? (fun (l : CLink) => l.child = st.2 ∧ l.parent = st.1) with
      | some l => (linkOffset D names hist extras target l).map (fun (o : V3 × V3) => Generated.Glue.centreUpdate S6.add out (Generated.Glue.centreReverse S6.neg o))
      | none => none

/-- `Center.convert_to(date, new_center, orientation)` -/
def centerConvert (D : DateArgs) (names : List String) (hist : List (Nat × Nat)) (extras : List Extra)
    (chist : List (Nat × Nat)) (clinks : List CLink) (a b : Nat) (target : Nat) : Option (V3 × V3) :=
  let fuel := chist.length + 3
  match Node.build fuel chist with
  | none => if a = b then some S6.zero else none
  | some g =>
    match Node.path fuel g a b with
    | .ok p => (Node.steps p).foldl (centreStep D names hist extras clinks target) (some S6.zero)
    | _ => none

/-- `Frame.transform`: `m @ x + offset` -/
def frameTransform (D : DateArgs) (names : List String) (hist : List (Nat × Nat)) (extras : List Extra)
    (chist : List (Nat × Nat)) (clinks : List CLink) (oa ca ob cb : Nat) (p v : V3) : Option (V3 × V3) :=
  match centerConvert D names hist extras chist clinks ca cb ob, orientConvert D names hist extras oa ob with
  | some off, some m => some (Generated.Glue.transformCombine T6.app S6.add m (p, v) off)
  | _, _ => none

/-! ## histories of calls: the memo of `iau1980._nutation_series` (beyond/utils/memoize.py, Model/Memo.lean)

The only memoized function of beyond/frames whose value depends on the date is `_nutation_series(ttt, terms)` (since deb035a; before,
`_nutation(date, eop_correction, terms)` itself was memoized, under the *text* of the date — Witness/C02.lean keeps that behaviour as a
regression witness).  The providers reach it through `_nutation(date, False, 106)` (PEF_to_TOD through `equinox`, TOD_to_MOD) and
`_nutation(date, False, 4)` (TEME_to_TOD).  Its key is `str((ttt, terms))`: the TT century of the date and the number of terms — all the
series reads (`_tab(terms)`, itself memoized under `terms`, reads the first `terms` rows of tab5.1).  Everything else a conversion reads
(UT1, polar motion, LOD, dX/dY, the CIO series, precession, the frame graph, the state) is recomputed at every call. -/

/-- the triple `_nutation(date, False, terms)` returns (degrees) -/
structure Nut where
  eps : R
  dpsi : R
  deps : R

def nut106 (D : DateArgs) : Nut := ⟨D.eps106, D.dpsi106, D.deps106⟩
def nut4 (D : DateArgs) : Nut := ⟨D.eps4, D.dpsi4, D.deps4⟩

/-- the date arguments with the two nutation triples replaced by the ones the memo handed out -/
def withNut (D : DateArgs) (a b : Nut) : DateArgs :=
  { D with eps106 := a.eps, dpsi106 := a.dpsi, deps106 := a.deps, eps4 := b.eps, dpsi4 := b.dpsi, deps4 := b.deps }

/-- `_nutation_series(ttt, terms)` computed from scratch on the first `terms` rows of tab5.1: a function of its key -/
def nutOf (rows : List (List R)) (k : R × Nat) : Nut :=
  ⟨epsBar80 k.1, (nutSeries80 k.1 (rows.take k.2)).1, (nutSeries80 k.1 (rows.take k.2)).2⟩

/-- `iau1980._nutation(date, True, terms)` : the tail `if eop_correction:` (translated from the source: `nutCorr80`) on top of the series -/
def nutCorrected (n : Nut) (dpsi_mas deps_mas : R) : Nut :=
  ⟨n.eps, n.dpsi + (nutCorr80 dpsi_mas deps_mas).getD 0 0, n.deps + (nutCorr80 dpsi_mas deps_mas).getD 1 0⟩

/-- one `Orientation.convert_to(date, new_orient)` request: `D` is what the providers read from the date — computed from the instant
and the EOP record attached to the date; its six nutation fields are placeholders filled from the series -/
structure Call where
  D : DateArgs
  hist : List (Nat × Nat)
  extras : List Extra
  a : Nat
  b : Nat

/-- what the call returns when nothing was computed before: a function of the call alone (`rows` = tab5.1, a constant of the library) -/
def callPure (names : List String) (rows : List (List R)) (c : Call) : Option T6 :=
  orientConvert (withNut c.D (nutOf rows (c.D.ttt, 106)) (nutOf rows (c.D.ttt, 4))) names c.hist c.extras c.a c.b

/-- `_nutation_series._cache`: (TT century, terms) ↦ triple -/
abbrev NutMemo := List ((R × Nat) × Nut)

/-- `memoizer` for `_nutation_series` -/
def memoGet (rows : List (List R)) (m : NutMemo) (k : R × Nat) : Nut × NutMemo := Memo.call id (nutOf rows) m k

/-- which of the two memo keys the loop of `convert_to` reaches: (`terms = 106`, `terms = 4`) — decided by the edges on the route -/
def touches (names : List String) (hist : List (Nat × Nat)) (a b : Nat) : Bool × Bool :=
  let fuel := hist.length + 3
  match Node.build fuel hist with
  | none => (false, false)
  | some g =>
    match Node.path fuel g a b with
    | .ok p =>
      let nm := fun (i : Nat) => names.getD i ""
      let has := fun (x y : String) => (Node.steps p).any (fun st => (nm st.1 == x && nm st.2 == y) || (nm st.1 == y && nm st.2 == x))
      (has "PEF" "TOD" || has "TOD" "MOD", has "TEME" "TOD")
    | _ => (false, false)

/-- one call inside a process whose `_nutation_series` memo is `m`: the triples come from the memo where the route consults it -/
def sessionStep (names : List String) (rows : List (List R)) (m : NutMemo) (c : Call) : Option T6 × NutMemo :=
  let t := touches names c.hist c.a c.b
  let r106 := if t.1 then memoGet rows m (c.D.ttt, 106) else (nutOf rows (c.D.ttt, 106), m)
  let r4 := if t.2 then memoGet rows r106.2 (c.D.ttt, 4) else (nutOf rows (c.D.ttt, 4), r106.2)
  (orientConvert (withNut c.D r106.1 r4.1) names c.hist c.extras c.a c.b, r4.2)

/-- the results of a history of calls -/
def sessionRun (names : List String) (rows : List (List R)) : NutMemo → List Call → List (Option T6)
  | _, [] => []
  | m, c :: cs => (sessionStep names rows m c).1 :: sessionRun names rows (sessionStep names rows m c).2 cs

end BeyondVerif.F
