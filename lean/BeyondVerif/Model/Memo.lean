/-!
`beyond/utils/memoize.py`, the decorator behind `iau1980._tab`, `iau2010._tab` and `iau1980._nutation`:

    cache = obj._cache = {}
    def memoizer(*args, **kwargs):
        key = str(args) + str(kwargs)
        if key not in cache:
            cache[key] = obj(*args, **kwargs)
        return cache[key]

as a state machine over a history of calls: `key` is what `str(args) + str(kwargs)` retains of the arguments, `f` the
decorated function (what it computes from *all* it reads: its arguments and whatever they carry, e.g. the EOP record
attached to a Date, which `str(date)` does not show).

`sound_iff`: the memoized function returns, after every history, what the bare function returns **iff** the key
determines the value.  No Mathlib (shared by the driver and the theorems).
-/
namespace BeyondVerif.Memo

variable {α κ β : Type} [BEq κ] [LawfulBEq κ]

/-- one call of `memoizer` -/
def call (key : α → κ) (f : α → β) (cache : List (κ × β)) (x : α) : β × List (κ × β) :=
  match cache.lookup (key x) with
  | some v => (v, cache)
  | none => (f x, (key x, f x) :: cache)

/-- the values returned along a history of calls, starting from `cache` -/
def run (key : α → κ) (f : α → β) : List (κ × β) → List α → List β
  | _, [] => []
  | c, x :: xs => (call key f c x).1 :: run key f (call key f c x).2 xs

omit [LawfulBEq κ] in
/-- a hit or a miss returns `f x` as soon as the entry under the key of `x` (if any) is `f x` -/
theorem call_fst (key : α → κ) (f : α → β) (cache : List (κ × β)) (x : α)
    (h : ∀ v, cache.lookup (key x) = some v → v = f x) : (call key f cache x).1 = f x := by
  unfold call
  split
  · next v hv => exact h v hv
  · rfl

/-- every entry of the cache after a call was there before, or is the one this call stored -/
theorem call_lookup (key : α → κ) (f : α → β) (cache : List (κ × β)) (x : α) (k : κ) (v : β)
    (h : (call key f cache x).2.lookup k = some v) : cache.lookup k = some v ∨ (k = key x ∧ v = f x) := by
  unfold call at h
  split at h
  · exact Or.inl h
  · simp only [List.lookup_cons] at h
    split at h
    · next heq =>
      right
      exact ⟨eq_of_beq heq, by cases h; rfl⟩
    · exact Or.inl h

/-- invariant of `run`: every cached entry is the value of every later call with that key -/
theorem run_eq_map_of (key : α → κ) (f : α → β) : ∀ (xs : List α) (cache : List (κ × β)),
    (∀ x ∈ xs, ∀ y ∈ xs, key x = key y → f x = f y) →
    (∀ x ∈ xs, ∀ v, cache.lookup (key x) = some v → v = f x) →
    run key f cache xs = xs.map f := by
  intro xs
  induction xs with
  | nil => intro _ _ _; rfl
  | cons x xs ih =>
    intro cache hk hc
    simp only [run, List.map_cons]
    rw [call_fst key f cache x (hc x (List.mem_cons_self ..))]
    congr 1
    apply ih
    · intro a ha b hb
      exact hk a (List.mem_cons_of_mem _ ha) b (List.mem_cons_of_mem _ hb)
    · intro y hy v hv
      rcases call_lookup key f cache x (key y) v hv with h | ⟨h1, h2⟩
      · exact hc y (List.mem_cons_of_mem _ hy) v h
      · rw [h2]
        exact hk x (List.mem_cons_self ..) y (List.mem_cons_of_mem _ hy) h1.symm

/-- **a memo whose key determines the value is invisible**: along every history, every call returns `f x` -/
theorem run_eq_map (key : α → κ) (f : α → β) (xs : List α)
    (hk : ∀ x ∈ xs, ∀ y ∈ xs, key x = key y → f x = f y) : run key f [] xs = xs.map f :=
  run_eq_map_of key f xs [] hk (by intro x _ v hv; simp at hv)

/-- **a memo whose key retains less than the value depends on answers the second call with the first call's value** -/
theorem run_stale (key : α → κ) (f : α → β) (x y : α) (h : key x = key y) : run key f [] [x, y] = [f x, f x] := by
  simp [run, call, List.lookup, h]

/-- **history independence of a memoized function ⇔ its key determines its value** -/
theorem sound_iff (key : α → κ) (f : α → β) :
    (∀ xs, run key f [] xs = xs.map f) ↔ (∀ x y, key x = key y → f x = f y) := by
  constructor
  · intro h x y hxy
    have h1 := h [x, y]
    rw [run_stale key f x y hxy] at h1
    simp only [List.map_cons, List.map_nil, List.cons.injEq, and_true] at h1
    exact h1.2
  · intro h xs
    exact run_eq_map key f xs (fun x _ y _ => h x y)

end BeyondVerif.Memo
