/-
The orbit side of `Tle.from_orbit` (no Mathlib: linked into the driver).

* `Args`, `Ident`, `effName/effNorad/effCospar` — the first three statements of `Tle.from_orbit`: explicit argument, else the
  attribute of the orbit when it has one, else the default (`""`, `"99999"`, `""`); the catalogue number is whatever
  `"{norad_id:0>5}"` makes of an `int` or a `str` (alpha-5 numbers are strings), the designator `YYYY-NNNPPP` loses its century.
* `writeRecN`, `fromOrbitN` — the writer of `Model/Tle.lean` with the catalogue number given as text.
* `OrbState`, `Op`, `step`, `run` — an orbit as a state machine: its state is exactly what `Tle.from_orbit` reads (the names in
  `Generated.Tle.orbitReads`, regenerated from the AST) plus `src`, the text of the `Tle` the orbit was made from
  (`orbit._data["tle"]`, set by `Tle.orbit()`, kept by `copy()`), which `from_orbit` must NOT read.
-/
import BeyondVerif.Model.Tle
namespace BeyondVerif.Tle
open BeyondVerif.Generated.Tle (Seg Fld)

/-- a `norad_id` as given: `int` or `str` -/
inductive IdArg where
  | int (i : Int)
  | str (s : Str)
deriving Repr, DecidableEq

/-- what `"{norad_id:0>5}"` pads: `format(int, "0>5")` and `format(str, "0>5")` both pad `str(x)` -/
def IdArg.text : IdArg → Str
  | .int i => intStr i
  | .str s => s

/-- the optional arguments of `Tle.from_orbit(orbit, name=None, norad_id=None, cospar_id=None)` -/
structure Args where
  name : Option Str := none
  norad : Option IdArg := none
  cospar : Option Str := none
deriving Repr, DecidableEq

/-- the identification entries of the orbit (`none` = `hasattr(orbit, …)` is false) -/
structure Ident where
  name : Option Str
  norad : Option IdArg
  cospar : Option Str
deriving Repr, DecidableEq

/-- `s.partition("-")` → (head, tail) -/
def partitionDash (s : Str) : Str × Str := (s.takeWhile (· ≠ '-'), (s.dropWhile (· ≠ '-')).drop 1)

/-- `y, _, i = cospar_id.partition("-"); y[2:] + i` -/
def cosparCols (s : Str) : Str := (partitionDash s).1.drop 2 ++ (partitionDash s).2

/-- `if name is not None … elif hasattr(orbit, "name") and orbit.name … else ""` (the line break is added by `writeRec`) -/
def effName (a : Args) (o : Ident) : Str :=
  match a.name with
  | some n => n
  | none => match o.name with
    | some n => n
    | none => []

/-- `if norad_id is None: norad_id = orbit.norad_id if hasattr(orbit, "norad_id") else "99999"` -/
def effNorad (a : Args) (o : Ident) : Str :=
  match a.norad with
  | some n => n.text
  | none => match o.norad with
    | some n => n.text
    | none => ['9', '9', '9', '9', '9']

/-- `cospar_id` argument, else the orbit's, else `""`; always through `partition("-")` -/
def effCospar (a : Args) (o : Ident) : Str :=
  match a.cospar with
  | some c => cosparCols c
  | none => match o.cospar with
    | some c => cosparCols c
    | none => []

/-! ## the writer with the catalogue number as text -/

def fieldStrN (norad : Str) (r : Rec) : Fld → Option Str
  | .norad_id => some norad
  | f => fieldStr r f

def renderSegN (norad : Str) (r : Rec) : Seg → Option Str
  | .lit s => some s
  | .str name fill right w => (fieldStrN norad r name).map (fun s => if right then padLeft fill w s else padRight fill w s)
  | .fix name zero w p => (fieldNum r name).map (fmtFix zero w p)
  | .yy .date => some (fixedDigits 2 r.yy)
  | .yy _ => none

def renderN (norad : Str) (r : Rec) : List Seg → Option Str
  | [] => some []
  | s :: ss => match renderSegN norad r s, renderN norad r ss with
    | some a, some b => some (a ++ b)
    | _, _ => none

/-- `writeRec` with `norad` in the catalogue-number columns of both lines -/
def writeRecN (norad : Str) (r : Rec) : Except Err (List Str) :=
  if natStr (r.ecc7 / 10000000) ≠ ['0'] then .error .eccentricity else
  match renderN norad r G.fmt1, renderN norad r G.fmt2 with
  | some b1, some b2 =>
    match checksum b1, checksum b2 with
    | some c1, some c2 =>
      let l1 := b1 ++ natStr c1
      let l2 := b2 ++ natStr c2
      .ok (if r.name.isEmpty then [l1, l2] else [r.name, l1, l2])
    | _, _ => .error .valueError
  | _, _ => .error .outOfModel

def fromOrbitN (norad : Str) (r : Rec) : Except Err Parsed := do
  let t ← writeRecN norad r
  parseTle t

/-- `Tle.from_orbit(orbit, **args)`: the record `r` holds the numeric content of the orbit -/
def fromOrbitArgs (a : Args) (o : Ident) (r : Rec) : Except Err Parsed :=
  fromOrbitN (effNorad a o) { r with name := effName a o, cospar := effCospar a o }

/-! ## an orbit as a state machine -/

inductive NumFld where
  | yy | day8 | ndot8 | inc4 | raan4 | ecc7 | argp4 | ma4 | mm8
deriving Repr, DecidableEq

def setNum (r : Rec) : NumFld → Nat → Rec
  | .yy, v => { r with yy := v }
  | .day8, v => { r with day8 := v }
  | .ndot8, v => { r with ndot8 := v }
  | .inc4, v => { r with inc4 := v }
  | .raan4, v => { r with raan4 := v }
  | .ecc7, v => { r with ecc7 := v }
  | .argp4, v => { r with argp4 := v }
  | .ma4, v => { r with ma4 := v }
  | .mm8, v => { r with mm8 := v }

/-- the orbit: what `from_orbit` reads (`ident`, `vals` — the `name/norad/cospar` fields of `vals` are not used) and the
source `Tle` it may still carry -/
structure OrbState where
  ident : Ident
  vals : Rec
  src : Option (List Str)
deriving Repr, DecidableEq

inductive Op where
  | setName (v : Option Str)           -- `orbit.name = v` / `del orbit._data["name"]`
  | setNorad (v : Option IdArg)
  | setCospar (v : Option Str)
  | setNum (f : NumFld) (v : Nat)      -- `orbit.i = …`, `orbit[2] = …`, `orbit.n = …`, `orbit.ndot = …`, `orbit.date = …`
  | setNdotNeg (b : Bool)
  | setNdd (u : Unfl)                  -- `orbit.ndotdot = …`
  | setBstar (u : Unfl)
  | setElnb (i : Int)
  | setRevs (i : Int)
  | copy                               -- `orbit = orbit.copy()`: every entry kept, the source `Tle` included
  | reread                             -- `orbit = Tle.from_orbit(orbit).orbit()` when that succeeds
  | read (a : Args)                    -- `Tle.from_orbit(orbit, **a)`
deriving Repr, DecidableEq

/-- `Tle.orbit()`: the identification of a parsed TLE as the orbit stores it -/
def identOf (p : Parsed) : Ident :=
  { name := some p.name, norad := some (.int p.norad),
    cospar := some (match p.cospar with
      | none => []
      | some (y, piece) => natStr y ++ '-' :: piece) }

/-- one operation: new state and, for a `read`, the reply -/
def step (st : OrbState) : Op → OrbState × Option (Except Err Parsed)
  | .setName v => ({ st with ident := { st.ident with name := v } }, none)
  | .setNorad v => ({ st with ident := { st.ident with norad := v } }, none)
  | .setCospar v => ({ st with ident := { st.ident with cospar := v } }, none)
  | .setNum f v => ({ st with vals := setNum st.vals f v }, none)
  | .setNdotNeg b => ({ st with vals := { st.vals with ndotNeg := b } }, none)
  | .setNdd u => ({ st with vals := { st.vals with ndd := u } }, none)
  | .setBstar u => ({ st with vals := { st.vals with bstar := u } }, none)
  | .setElnb i => ({ st with vals := { st.vals with elnb := i } }, none)
  | .setRevs i => ({ st with vals := { st.vals with revs := i } }, none)
  | .copy => (st, none)
  | .reread =>
    match fromOrbitArgs {} st.ident st.vals with
    | .ok p => (match toRec p with
      | .ok r => ({ ident := identOf p, vals := r, src := some (tleStr p) }, none)
      | .error _ => (st, none))
    | .error _ => (st, none)
  | .read a => (st, some (fromOrbitArgs a st.ident st.vals))

def run : List Op → OrbState → OrbState × List (Except Err Parsed)
  | [], st => (st, [])
  | op :: ops, st =>
    let (st', r) := step st op
    let (st'', rs) := run ops st'
    (st'', r.toList ++ rs)

end BeyondVerif.Tle
