/-
The listener classes of beyond/propagators/listeners.py as instances of the generic listener model
`Listen.Lst`.  Watched quantity, guard and label of each class come from
`Generated/ListenSrc.lean`, which is translated from the Python AST on every run.

A listener sees the trajectory through four integer "channels" (functions of the date in µs):
`phi`, `phidot`, `rdot` (spherical components of the state in the listener's own frame / station) and
`mask` (`station.get_mask(theta)`), plus the constant `elev`.  For the light, terminator and anomaly
listeners, whose `__call__` is numerical code outside the scope of this model, the watched quantity
itself is the channel `phi`.

No Mathlib import (linked into the driver).
-/
import BeyondVerif.Model.Listen
import BeyondVerif.Generated.ListenSrc
namespace BeyondVerif.Listen
open BeyondVerif.Generated.ListenSrc

structure Chan where
  phi : Int → Int
  phidot : Int → Int
  rdot : Int → Int
  mask : Int → Int
  elev : Int

inductive Kind where
  | node | apside | signal | mask | max
  | radvel (sight : Bool)
  | light (umbra : Bool)
  | terminator
  | anomaly (key : String)
deriving DecidableEq, Repr

/-- fixed-point scale of the anomaly difference `_diff` (radians × 2^20) used by the correspondence stub -/
def anomalyUnit : Int := 1048576

/-- smallest integer above `π · anomalyUnit` (π · 2^20 = 3294198.2…): for an integer `d`, `d / 2^20 < π ↔ d < piUnit` -/
def piUnit : Int := 3294199

/-- the stub keeps the anomaly difference inside (−π, π): clamp to ±3 rad -/
def clampAnom (x : Int) : Int := if x > 3 * anomalyUnit then 3 * anomalyUnit else if x < -(3 * anomalyUnit) then -(3 * anomalyUnit) else x

def assemble (unit : Int) (sight umbra : Bool) (c : Chan) (F : Int → Int)
    (G : Int → Int → Bool → Int → Int → Int → Int → Int → Bool)
    (L : Int → Bool → Bool → Int → Int → Int → Int → Int → String) : Lst where
  f := F
  guard := fun p t => G unit piUnit sight (c.phi t) (c.phidot t) (c.rdot t) (F t) (F p)
  -- `self._backward(end)`: the event state is earlier than `listener.prev`
  label := fun p te => L unit umbra (decide (te < p)) (c.phi te) (c.phidot te) (c.rdot te) (F te) (F p)

def viaF (c : Chan) (F : Int → Int → Int → Int → Int → Int → Int) : Int → Int :=
  fun t => F 1 (c.phi t) (c.phidot t) (c.rdot t) c.elev (c.mask t)

def anomalyLabel (key : String) : String :=
  match anomalyLabels.lookup key with
  | some s => s
  | none => "?"

def mkLst (k : Kind) (c : Chan) : Lst :=
  match k with
  | .node => assemble 1 false false c (viaF c nodeF) nodeGuard nodeLabel
  | .apside => assemble 1 false false c (viaF c apsideF) apsideGuard apsideLabel
  | .signal => assemble 1 false false c (viaF c signalF) signalGuard signalLabel
  | .mask => assemble 1 false false c (viaF c maskF) maskGuard maskLabel
  | .max => assemble 1 false false c (viaF c maxF) maxGuard maxLabel
  | .radvel s => assemble 1 s false c (viaF c radvelF) radvelGuard radvelLabel
  | .light u => assemble 1 false u c c.phi lightGuard lightLabel
  | .terminator => assemble 1 false false c c.phi terminatorGuard terminatorLabel
  | .anomaly key => assemble anomalyUnit false false c (fun t => clampAnom (c.phi t)) anomalyGuard
      (fun _ _ _ _ _ _ _ _ => anomalyLabel key)

end BeyondVerif.Listen
