/-
The listener classes of beyond/propagators/listeners.py as instances of the generic listener model
`Listen.Lst`.  Watched quantity, guard and label of each class come from
`Generated/ListenSrc.lean`, which is translated from the Python AST on every run.

A listener sees the trajectory through four integer "channels" (functions of the date in µs):
`phi`, `phidot`, `rdot` (spherical components of the state in the listener's own frame / station) and
`mask` (`station.get_mask(theta)`), plus the constant `elev`.  For the light, terminator and anomaly
listeners, whose `__call__` is numerical code outside the scope of this model, the watched quantity
itself is the channel `phi`.

No Mathlib import (linked into the driver).
-/
import BeyondVerif.Model.Listen
import BeyondVerif.Generated.ListenSrc
namespace BeyondVerif.Listen
open BeyondVerif.Generated.ListenSrc

structure Chan where
  phi : Int → Int
  phidot : Int → Int
  rdot : Int → Int
  mask : Int → Int
  elev : Int

inductive Kind where
  | node | apside | signal | mask | max
  | radvel (sight : Bool)
  | light (umbra : Bool)
  | terminator
  | anomaly (key : String)
deriving DecidableEq, Repr

/-- fixed-point scale of the anomaly difference `_diff` (radians × 2^20) used by the correspondence stub -/
def anomalyUnit : Int := 1048576

/-- smallest integer above `π · anomalyUnit` (π · 2^20 = 3294198.2…): for an integer `d`, `d / 2^20 < π ↔ d < piUnit` -/
def piUnit : Int := 3294199

/-- the stub keeps the anomaly difference inside (−π, π): clamp to ±3 rad -/
def clampAnom (x : Int) : Int := if x > 3 * anomalyUnit then 3 * anomalyUnit else if x < -(3 * anomalyUnit) then -(3 * anomalyUnit) else x

def assemble (unit : Int) (sight umbra : Bool) (c : Chan) (F : Int → Int)
    (G : Int → Int → Bool → Int → Int → Int → Int → Int → Bool)
    (L : Int → Bool → Bool → Int → Int → Int → Int → Int → String) : Lst where
  f := F
  guard := fun p t => G unit piUnit sight (c.phi t) (c.phidot t) (c.rdot t) (F t) (F p)
  -- `self._backward(end)`: the event state is earlier than `listener.prev`
  label := fun p te => L unit umbra (decide (te < p)) (c.phi te) (c.phidot te) (c.rdot te) (F te) (F p)

def viaF (c : Chan) (F : Int → Int → Int → Int → Int → Int → Int) : Int → Int :=
  fun t => F 1 (c.phi t) (c.phidot t) (c.rdot t) c.elev (c.mask t)

def anomalyLabel (key : String) : String :=
  match anomalyLabels.lookup key with
  | some s => s
  | none => "?"

def mkLst (k : Kind) (c : Chan) : Lst :=
  match k with
  | .node => assemble 1 false false c (viaF c nodeF) nodeGuard nodeLabel
  | .apside => assemble 1 false false c (viaF c apsideF) apsideGuard apsideLabel
  | .signal => assemble 1 false false c (viaF c signalF) signalGuard signalLabel
  | .mask => assemble 1 false false c (viaF c maskF) maskGuard maskLabel
  | .max => assemble 1 false false c (viaF c maxF) maxGuard maxLabel
  | .radvel s => assemble 1 s false c (viaF c radvelF) radvelGuard radvelLabel
  | .light u => assemble 1 false u c c.phi lightGuard lightLabel
  | .terminator => assemble 1 false false c c.phi terminatorGuard terminatorLabel
  | .anomaly key => assemble anomalyUnit false false c (fun t => clampAnom (c.phi t)) anomalyGuard
      (fun _ _ _ _ _ _ _ _ => anomalyLabel key)

end BeyondVerif.Listen

/-! ### `TopocentricFrame.visibility` (beyond/frames/stations.py) -/
namespace BeyondVerif.Listen
open BeyondVerif.Generated.ListenSrc

/-- name of the listener class in the generated tables -/
def Kind.pre : Kind → String
  | .node => "node" | .apside => "apside" | .signal => "signal" | .mask => "mask" | .max => "max"
  | .radvel _ => "radvel" | .light _ => "light" | .terminator => "terminator" | .anomaly _ => "anomaly"

def kindOfPre? : String → Option Kind
  | "signal" => some .signal | "mask" => some .mask | "max" => some .max | "node" => some .node
  | "apside" => some .apside | "terminator" => some .terminator | _ => none

/-- the event class of a listener kind, followed by its base classes -/
def eventOf (k : Kind) : List String := (eventAncestors.lookup k.pre).getD []

/-- `stations_listeners(sta)` as listener kinds -/
def stationKinds (hasMask : Bool) : List Kind :=
  (stationListeners ++ (if hasMask then stationListenersIfMask else [])).filterMap kindOfPre?

/-- `isinstance(event_of_kind_k, event_classes)` with `event_classes = tuple(l.event for l in sta_list)` -/
def passes (sta : List Kind) (k : Kind) : Bool :=
  sta.any (fun sk => match (eventOf sk).head? with | some c => (eventOf k).contains c | none => false)

/-- A listener as the caller creates it: its class and its `frame` argument.  `none` is `frame=None` ("the frame is
unchanged", the default of `NodeListener`, `ApsideListener`, `AnomalyListener`): such a listener reads every state
object in the frame THAT OBJECT has.  No state object is re-framed between the `listen` call that stores it as
`listener.prev` and the next one that reads it again (`Speaker.listen` and `_bisect` only `copy`; since fix d3db55e
`TopocentricFrame.visibility` converts a copy of each yielded point instead of the point itself), so this is always
the frame the propagator produces its states in: the components `own`. -/
abbrev Spec := Kind × Option Chan

/-- the components a listener reads, given those of the states' own frame -/
def Spec.chan (own : Chan) (s : Spec) : Chan := s.2.getD own

def Spec.lst (own : Chan) (s : Spec) : Lst := mkLst s.1 (s.chan own)

/-- `iter(listeners=specs, dates=samples)` of a propagator whose states have the components `own` in their own frame -/
def iterS (own : Chan) (specs : List Spec) (st : List (Option Int)) (samples : List Int) : List Item :=
  iter (specs.map (Spec.lst own)) st samples

/-- the listeners `TopocentricFrame.visibility` hands to `orb.iter`: a copy of the caller's `listeners=` list, followed by
the listener(s) given through `events=`, followed — when `events` is true — by `stations_listeners(self)` -/
def visListeners (user : List Spec) (sta : Chan) (hasMask events : Bool) : List Spec :=
  user ++ (if events then stationKinds hasMask else []).map (fun k => (k, some sta))

/-- `TopocentricFrame.visibility(orb, listeners=…, events=…, dates=samples)`.
`own`: the components of the states in the frame the propagator yields them in; `user`: the caller's listeners
(`listeners=` followed by those given through `events=`), with or without a frame of their own; `sta`: the components of
the state in the station's frame; `events`: truth value of the `events` argument.

    for point in orb.iter(**kwargs):
        point = point.copy(frame=self, form="spherical")
        if point.phi < 0 and not isinstance(point.event, event_classes): continue
        yield point

The copy carries the date and the `event` of the point and leaves the point itself — still `listener.prev` of every
listener — untouched, so the iteration underneath is exactly `iterS`.  Every point whose elevation `sta.phi` is negative
is dropped unless its `event` is an instance of an event class of the STATION's own listeners. -/
def visibility (own : Chan) (user : List Spec) (sta : Chan) (hasMask events : Bool) (st : List (Option Int))
    (samples : List Int) : List Item :=
  let sk := if events then stationKinds hasMask else []
  let all := visListeners user sta hasMask events
  (iterS own all st samples).filter (fun it =>
    !(decide (sta.phi it.t < 0) && !(match it.ev with
        | some (i, _) => (match all[i]? with | some kc => passes sk kc.1 | none => false)
        | none => false)))

end BeyondVerif.Listen
