/-
Model of beyond/propagators/listeners.py (`Speaker.listen`, `Speaker._bisect`, `Listener.check`,
`Listener.clear`) and of the interleaving done by `AnalyticalPropagator.iter` / `Ephem.iter`
(beyond/propagators/base.py, beyond/orbits/ephem.py).

Dates are integer microseconds.  A listener is an arbitrary watched quantity `f : Int → Int`
(only its sign and order are used by the code), a guard (the `check` overrides of the station /
anomaly listeners, evaluated at the *current* sample) and a label function (`info(end)`, which for
the apside and mask listeners also reads `listener.prev`).

No Mathlib import: this file is linked into the line-protocol driver.
-/
namespace BeyondVerif.Listen

/-- `timedelta / 2` on integer microseconds: CPython's `_divide_and_round`, i.e. round half to even. -/
def halfEven (d : Int) : Int :=
  if d % 2 = 0 then d / 2 else if (d / 2) % 2 = 0 then d / 2 else d / 2 + 1

theorem halfEven_spec (d : Int) :
    2 * halfEven d - d ≤ 1 ∧ d - 2 * halfEven d ≤ 1 ∧ (d % 2 = 0 → 2 * halfEven d = d) ∧
      (d % 2 = 1 → halfEven d % 2 = 0) := by
  unfold halfEven
  split
  · omega
  · split <;> omega

/-- `Speaker._bisect(begin, end, listener)`: returns the dates of the final `(begin, end)`; the
event is the final `end`.

    step = (end.date - begin.date) / 2
    while abs(step) >= timedelta.resolution:
        orb = self.propagate(begin.date + step)
        if listener(begin) * listener(orb) > 0: begin = orb
        else: end = orb
        step = (end.date - begin.date) / 2

This is the loop as it stands, by well-founded recursion on `|end − begin|`: the termination proof (every pass
strictly shrinks the bracket, also with round-half-even halving and for negative steps) is part of the definition. -/
def bisect2wf (f : Int → Int) (b e : Int) : Int × Int :=
  if 1 ≤ (halfEven (e - b)).natAbs then
    if 0 < f b * f (b + halfEven (e - b)) then bisect2wf f (b + halfEven (e - b)) e
    else bisect2wf f b (b + halfEven (e - b))
  else (b, e)
termination_by (e - b).natAbs
decreasing_by
  all_goals (have := halfEven_spec (e - b); omega)

/-- number of passes through the `while` loop of `_bisect` -/
def bisectStepsWf (f : Int → Int) (b e : Int) : Nat :=
  if 1 ≤ (halfEven (e - b)).natAbs then
    if 0 < f b * f (b + halfEven (e - b)) then bisectStepsWf f (b + halfEven (e - b)) e + 1
    else bisectStepsWf f b (b + halfEven (e - b)) + 1
  else 0
termination_by (e - b).natAbs
decreasing_by
  all_goals (have := halfEven_spec (e - b); omega)

/-- the same loop with an explicit bound on the number of passes (structural recursion: evaluates in the kernel
and in the driver); `Lemmas/Listen.lean` proves that with `|end − begin|` passes allowed it IS the loop above. -/
def bisectFuel : Nat → (Int → Int) → Int → Int → Int × Int
  | 0, _, b, e => (b, e)
  | n + 1, f, b, e =>
    if 1 ≤ (halfEven (e - b)).natAbs then
      if 0 < f b * f (b + halfEven (e - b)) then bisectFuel n f (b + halfEven (e - b)) e
      else bisectFuel n f b (b + halfEven (e - b))
    else (b, e)

def bisectStepsFuel : Nat → (Int → Int) → Int → Int → Nat
  | 0, _, _, _ => 0
  | n + 1, f, b, e =>
    if 1 ≤ (halfEven (e - b)).natAbs then
      if 0 < f b * f (b + halfEven (e - b)) then bisectStepsFuel n f (b + halfEven (e - b)) e + 1
      else bisectStepsFuel n f b (b + halfEven (e - b)) + 1
    else 0

/-- final `(begin, end)` of `_bisect` (`= bisect2wf`, see `bisect2_eq_wf`) -/
def bisect2 (f : Int → Int) (b e : Int) : Int × Int := bisectFuel (e - b).natAbs f b e

/-- date of the orbit returned by `_bisect` -/
def bisect (f : Int → Int) (b e : Int) : Int := (bisect2 f b e).2

/-- number of passes through the `while` loop of `_bisect` (`= bisectStepsWf`) -/
def bisectSteps (f : Int → Int) (b e : Int) : Nat := bisectStepsFuel (e - b).natAbs f b e

/-- A listener object. -/
structure Lst where
  /-- `listener(orb)` as a function of the date of `orb` -/
  f : Int → Int
  /-- the part of an overridden `check` that is evaluated before `super().check(orb)`, as a function of the date
  of `listener.prev` (read by `AnomalyListener` only) and of the date of the current sample -/
  guard : Int → Int → Bool
  /-- `listener.info(end).info` as a function of the date of `listener.prev` and of the date of `end` -/
  label : Int → Int → String

/-- An emitted event: date, index of the listener in the `listeners` list, label. -/
structure Ev where
  t : Int
  idx : Nat
  label : String
deriving DecidableEq, Repr

/-- `Listener.check(orb)` (with the guard of the overriding classes):
`self.prev is not None and np.sign(self(orb)) != np.sign(self(self.prev))` -/
def check (l : Lst) (p : Option Int) (t : Int) : Bool :=
  match p with
  | none => false
  | some b => l.guard b t && (Int.sign (l.f t) != Int.sign (l.f b))

/-- body of the `for listener in listeners` loop of `Speaker.listen` for one listener -/
def fire (l : Lst) (i : Nat) (p : Option Int) (t : Int) : Option Ev :=
  match p with
  | none => none
  | some b =>
    if l.guard b t && (Int.sign (l.f t) != Int.sign (l.f b)) then
      some ⟨bisect l.f b t, i, l.label b (bisect l.f b t)⟩
    else none

/-- `results` of `Speaker.listen` before sorting; `st` holds `listener.prev` of every listener -/
def rawEvents : List Lst → List (Option Int) → Nat → Int → List Ev
  | l :: ls, p :: ps, i, t =>
    match fire l i p t with
    | some e => e :: rawEvents ls ps (i + 1) t
    | none => rawEvents ls ps (i + 1) t
  | _, _, _, _ => []

/-- When `_bisect` returns without entering its loop it returns the *sample object itself*; every
such result is the same Python object, whose `event` attribute was last written by the last such
listener.  (Only happens when two samples are 1 µs apart.) -/
def lastAt (t : Int) : List Ev → Option Ev
  | [] => none
  | e :: es => match lastAt t es with
    | some x => some x
    | none => if e.t = t then some e else none

def applyAlias (t : Int) (evs : List Ev) : List Ev × Option (Nat × String) :=
  match lastAt t evs with
  | none => (evs, none)
  | some x => (evs.map (fun e => if e.t = t then { e with idx := x.idx, label := x.label } else e), some (x.idx, x.label))

/-- insertion into a list sorted by date, before the first element that is not earlier -/
def ins (x : Ev) : List Ev → List Ev
  | [] => [x]
  | y :: ys => if x.t ≤ y.t then x :: y :: ys else y :: ins x ys

/-- `sorted(results, key=lambda x: x.date)` — a stable sort -/
def sortEv : List Ev → List Ev
  | [] => []
  | x :: xs => ins x (sortEv xs)

def insDesc (x : Ev) : List Ev → List Ev
  | [] => [x]
  | y :: ys => if y.t ≤ x.t then x :: y :: ys else y :: insDesc x ys

/-- `sorted(results, key=lambda x: x.date, reverse=True)` — stable as well (equal dates keep their order) -/
def sortEvDesc : List Ev → List Ev
  | [] => []
  | x :: xs => insDesc x (sortEvDesc xs)

/-- `sorted(results, key=…, reverse=backward)` -/
def sortDir (backward : Bool) (evs : List Ev) : List Ev := if backward then sortEvDesc evs else sortEv evs

/-- the `backward` flag of `Speaker.listen`: some listener's `prev` is later than the current sample -/
def isBackward (st : List (Option Int)) (t : Int) : Bool :=
  st.any (fun p => match p with | some q => decide (t < q) | none => false)

/-- one element of the output stream: its date and, when its `event` attribute is set, the listener index and label -/
structure Item where
  t : Int
  ev : Option (Nat × String)
deriving DecidableEq, Repr

/-- what `iter` yields for one sample `t`: `for listen_orb in self.listen(orb, listeners): yield listen_orb` then `yield orb` -/
def listen (ls : List Lst) (st : List (Option Int)) (t : Int) : List Item :=
  let r := applyAlias t (rawEvents ls st 0 t)
  (sortDir (isBackward st t) r.1).map (fun e => ⟨e.t, some (e.idx, e.label)⟩) ++ [⟨t, r.2⟩]

/-- the `for orb in self._iter(...)` loop; after each sample every `listener.prev` is that sample -/
def go (ls : List Lst) : List (Option Int) → List Int → List Item
  | _, [] => []
  | st, t :: rest => listen ls st t ++ go ls (st.map (fun _ => some t)) rest

/-- `Listener.clear` for each listener -/
def clear (st : List (Option Int)) : List (Option Int) := st.map (fun _ => none)

/-- `iter(listeners=ls, dates=samples)`: `self.clear_listeners(listeners)` then the loop. `st` is the
state (`prev`) the listener objects happen to have when the iteration starts. -/
def iter (ls : List Lst) (st : List (Option Int)) (samples : List Int) : List Item :=
  go ls (clear st) samples

/-! ### the same with one shared `prev` (what the state is after `clear` and after every sample) -/

def rawEventsU : List Lst → Nat → Option Int → Int → List Ev
  | l :: ls, i, p, t =>
    match fire l i p t with
    | some e => e :: rawEventsU ls (i + 1) p t
    | none => rawEventsU ls (i + 1) p t
  | [], _, _, _ => []

/-- the `backward` flag when every listener has the same `prev` -/
def backwardU (p : Option Int) (t : Int) : Bool :=
  match p with | some q => decide (t < q) | none => false

def listenU (ls : List Lst) (p : Option Int) (t : Int) : List Item :=
  let r := applyAlias t (rawEventsU ls 0 p t)
  (sortDir (backwardU p t) r.1).map (fun e => ⟨e.t, some (e.idx, e.label)⟩) ++ [⟨t, r.2⟩]

def goU (ls : List Lst) : Option Int → List Int → List Item
  | _, [] => []
  | p, t :: rest => listenU ls p t ++ goU ls (some t) rest

/-! ### `events_iterator` and `find_event` (consumers of an output stream) -/

/-- `orb.event and (not events or orb.event.info in events)` -/
def wanted (events : List String) (it : Item) : Bool :=
  match it.ev with
  | some (_, lab) => events.isEmpty || events.contains lab
  | none => false

/-- `events_iterator(iterator, *events)`: the items that carry an event whose label is listed (any event when no
label is given), in stream order -/
def eventsIterator (events : List String) (s : List Item) : List Item := s.filter (wanted events)

/-- `find_event(iterator, event, offset)`: the `offset`-th (from 0) item of `events_iterator(iterator, event)`;
`none` stands for `RuntimeError("No event … found")` — raised when the stream holds too few such events, and also for a
negative `offset` (`i == offset` never holds) -/
def findEvent (s : List Item) (event : String) (offset : Int) : Option Item :=
  if offset < 0 then none else (eventsIterator [event] s)[offset.toNat]?

/-- integer polynomial, coefficients in ascending order (Horner) -/
def evalPoly (cs : List Int) (x : Int) : Int := cs.foldr (fun c acc => c + x * acc) 0

end BeyondVerif.Listen
