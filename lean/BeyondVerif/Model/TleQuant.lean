/-
The float side of `Tle.from_orbit`, as far as an exact model allows (no Mathlib: linked into the driver).

A double is its exact value `num / den` (`Q`, `den` a power of two when it comes from a float; nothing below depends on
that).  CPython formats a double with David Gay's correctly rounded conversion: `"{:.pf}"` and `"{:.4e}"` print the
decimal nearest to the EXACT binary value, ties to even.  That is `roundDiv` on the exact rational — the assumption of
this file (ASSUMPTIONS of harness/props/C12.py), checked by the exact correspondence on off-grid doubles, ties included.

* `fixQ p x`        — `"{:.pf}".format(x)` as the integer count of `10^-p` that is printed
* `magQ`, `unflQ`   — `_unfloat(x)`: five significant digits of `"{:.4e}"`, or `round(abs(x) * 10**14)` below 1e-10 (the
                      product rounded to binary64 by `fl53`, as the code computes it)
* `epochOfAbs`      — `{date:%y}`, `int("{:%j}".format(date))` and the day fraction of a naive UTC `datetime` given as
                      microseconds since 0001-01-01 (CPython's `ord2ymd`, shared with `Model/Sgp4Wrap.lean`); the
                      float sum `hour/24 + minute/1440 + second/86400 + microsecond/86400e6` is taken exactly
* `QOrb`, `quantize`, `fromOrbitQ` — the values `Tle.from_orbit` hands to `str.format`, rounded to the printed grid

The orbit's own date is `dateUs` in its own scale and `offsetUs = own scale − UTC` (what `Date.change_scale("UTC")`
subtracts: property C03/C04's model computes it); the epoch is written from `dateUs − offsetUs`.
-/
import BeyondVerif.Model.TleOrb
import BeyondVerif.Model.Sgp4Wrap
namespace BeyondVerif.Tle

/-- exact value of a double: `num / den`, `den > 0` -/
structure Q where
  num : Int
  den : Nat
deriving Repr, DecidableEq

/-- `"{:.pf}".format(x)`: the integer count of `10^-p` printed (half-even on the exact value) -/
def fixQ (p : Nat) (x : Q) : Int := roundDiv (x.num * (10 : Int) ^ p) x.den

/-- `n/d < 10^(j-400)`: decimal exponents are counted from −400, below every double, so that only natural powers occur -/
def ltPow10 (n d j : Nat) : Bool := n * 10 ^ 400 < 10 ^ j * d

/-- least `j' ≥ j` (within `fuel` steps) with `n/d < 10^(j'-400)` -/
def magUp : Nat → Nat → Nat → Nat → Nat
  | 0, j, _, _ => j
  | f + 1, j, n, d => if ltPow10 n d j then j else magUp f (j + 1) n d

/-- decimal exponent of `n/d > 0`, offset by 400: `10^(j-401) ≤ n/d < 10^(j-400)` for every value in `[1e-400, 1e400)`
(every finite non-zero double) -/
def magQ (n d : Nat) : Nat := magUp 800 0 n d

/-- `n/d · 10^(405-j)` rounded half-even: the five significant digits of `"{:.4e}"` when `j = magQ n d` -/
def sig5Q (n d j : Nat) : Nat :=
  if j ≤ 405 then (roundDiv ((n * 10 ^ (405 - j) : Nat) : Int) d).toNat else (roundDiv (n : Int) (d * 10 ^ (j - 405))).toNat

/-- `x < 2^e` for `x = num/den ≥ 0` -/
def ltPow2 (x : Q) (e : Int) : Bool :=
  if e ≥ 0 then x.num < (2 : Int) ^ e.toNat * x.den else x.num * (2 : Int) ^ (-e).toNat < x.den

/-- least `e ≥ lo` (within `fuel` steps) with `x < 2^e` -/
def mag2Up : Nat → Int → Q → Int
  | 0, e, _ => e
  | f + 1, e, x => if ltPow2 x e then e else mag2Up f (e + 1) x

/-- IEEE-754 binary64 round-to-nearest-even of the exact value `x ≥ 0` (overflow is not modelled: `x < 2^1024`):
`x = m · 2^(e-53)` with `2^52 ≤ m < 2^53` (exponent not below the subnormal one), `m` rounded half-even -/
def fl53 (x : Q) : Q :=
  if x.num ≤ 0 then ⟨0, 1⟩
  else
    let e := mag2Up 2200 (-1100) x                -- 2^(e-1) ≤ x < 2^e
    let k : Int := if e - 53 < -1074 then -1074 else e - 53      -- exponent of the unit in the last place
    if k ≥ 0 then ⟨roundDiv x.num (x.den * 2 ^ k.toNat) * (2 : Int) ^ k.toNat, 1⟩
    else ⟨roundDiv (x.num * (2 : Int) ^ (-k).toNat) x.den, 2 ^ (-k).toNat⟩

/-- `_unfloat(± x)` for the magnitude `x ≥ 0`: zero; five significant digits and the exponent of `0.ddddd × 10^exp`;
or, when that exponent is below −9, `round(abs(flt) * 10 ** 14)` — the product is the double nearest to `x · 10^14`
(`10 ** 14` is exact in binary64), `round` is half-even on that double — with the fixed exponent −9 -/
def unflQ (neg : Bool) (x : Q) : Unfl :=
  if x.num ≤ 0 then .zero
  else
    let n := x.num.toNat
    let j := magQ n x.den
    let m := sig5Q n x.den j
    let m5 := if m = 100000 then 10000 else m
    let exp : Int := ((if m = 100000 then j + 1 else j : Nat) : Int) - 400
    if exp < -9 then
      let prod := fl53 ⟨x.num * 100000000000000, x.den⟩
      .small neg (roundDiv prod.num prod.den).toNat
    else .val neg m5 exp

/-- year modulo 100, and day of year with its fraction in units of 1e-8 day, of the naive UTC `datetime` that is `t`
microseconds after 0001-01-01T00:00:00 -/
def epochOfAbs (t : Int) : Nat × Nat :=
  let day := t.toNat / 86400000000      -- whole days since 0001-01-01 (t ≥ 0)
  let us := t.toNat % 86400000000
  let yd := Sgp4Wrap.yearDay (day + 1)
  (yd.1 % 100, ((yd.2.2 + 1) * 100000000 + (roundDiv ((us * 100000000 : Nat) : Int) 86400000000).toNat))

/-- `datetime(year, 1, 1) + timedelta(microseconds=us)` as microseconds since 0001-01-01 -/
def absOfYear (year : Nat) (us : Int) : Int :=
  (((year - 1) * 365 + (year - 1) / 4 - (year - 1) / 100 + (year - 1) / 400 : Nat) : Int) * 86400000000 + us

/-- Python's `x % 360` on the exact value — floor modulo, the result has the sign of the DIVISOR: `x − 360·⌊x/360⌋`.
`np.degrees(a) % 360` is this value for `x ≥ 0` (`fmod` is exact) and within one binary64 rounding of it for `x < 0`
(`fmod(x, 360) + 360`); whatever representative of an angle the orbit holds — (−π, π] out of an `arctan2`, several
turns — the number formatted lies in one turn -/
def wrapDeg (x : Q) : Q := ⟨x.num % (360 * (x.den : Int)), x.den⟩

/-- C's `fmod(x, 360)` / `np.fmod` — truncated modulo, the result has the sign of the DIVIDEND: what the writer does not use -/
def fmodDeg (x : Q) : Q := ⟨Int.tmod x.num (360 * (x.den : Int)), x.den⟩

/-- what `Tle.from_orbit` hands to `str.format`, each number with its exact value -/
structure QOrb where
  name : Str
  norad : Int             -- `norad_id` (an integer here; other forms: `Model/TleOrb.lean`)
  cospar : Str            -- the eight designator columns (century removed)
  dateUs : Int            -- the orbit's date in its own scale, microseconds since 0001-01-01
  offsetUs : Int          -- own scale − UTC at that date
  ndotNeg : Bool          -- sign bit of `orbit.ndot / 2` (−0.0 included)
  ndot : Q                -- |orbit.ndot / 2|
  nddNeg : Bool
  ndd : Q                 -- |orbit.ndotdot / 6|
  bstarNeg : Bool
  bstar : Q               -- |orbit.bstar|
  elnb : Int
  inc : Q                 -- `np.degrees(i) % 360`
  raan : Q
  ecc : Q
  argp : Q
  ma : Q
  mm : Q                  -- `n * 86400 / (2 * np.pi)`
  revs : Int
deriving Repr, DecidableEq

/-- round every number to the grid of its format specification -/
def quantize (o : QOrb) : Rec :=
  let ep := epochOfAbs (o.dateUs - o.offsetUs)
  { name := o.name, norad := o.norad, cospar := o.cospar, yy := ep.1, day8 := ep.2,
    ndotNeg := o.ndotNeg, ndot8 := (fixQ 8 o.ndot).toNat, ndd := unflQ o.nddNeg o.ndd, bstar := unflQ o.bstarNeg o.bstar,
    elnb := o.elnb, inc4 := (fixQ 4 o.inc).toNat, raan4 := (fixQ 4 o.raan).toNat, ecc7 := (fixQ 7 o.ecc).toNat,
    argp4 := (fixQ 4 o.argp).toNat, ma4 := (fixQ 4 o.ma).toNat, mm8 := (fixQ 8 o.mm).toNat, revs := o.revs }

/-- a negative value handed to a `{:8.4f}`-like field prints a minus sign: not modelled (never produced by `% 360`, refused
for the eccentricity by the `startswith("0.")` guard) -/
def nonNegQ (o : QOrb) : Bool :=
  decide (0 ≤ o.inc.num) && decide (0 ≤ o.raan.num) && decide (0 ≤ o.ecc.num) && decide (0 ≤ o.argp.num) && decide (0 ≤ o.ma.num) &&
  decide (0 ≤ o.mm.num) && decide (0 ≤ o.ndot.num) && decide (0 ≤ o.dateUs - o.offsetUs)

/-- `Tle.from_orbit(orbit)` for the orbit whose formatted numbers are `o` -/
def fromOrbitQ (o : QOrb) : Except Err Parsed :=
  -- `"{:.7f}".format(e)` of a negative `e` starts with `-`: refused by the `startswith("0.")` guard
  if o.ecc.num < 0 then .error .eccentricity
  else if nonNegQ o then fromOrbit (quantize o) else .error .outOfModel

end BeyondVerif.Tle
