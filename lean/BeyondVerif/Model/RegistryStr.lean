/-
The method table of the frame registry AS THE CODE KEYS IT: by the attribute-name STRING `f"{a}_to_{b}"`.

`Model/Registry.lean` keys the table by PAIRS of names; that is the same thing exactly when the string determines the
pair (`Props/C20LinkKey.lean: linkKey_injective`).  This model makes no such assumption: names are strings (lists of code
points), `setattr(holder, f"{a}_to_{b}", m)` stores under the concatenated string, `convert_to` looks the concatenated
string up — so two different pairs of names CAN share one method here, as in the code (open finding
C20-link-name-collision), and the model is compared with the real classes on such names too (driver op `sreg`).

`goodName` is the decidable predicate under which the two models coincide (`Props/C20LinkKeyReg.lean`).
No Mathlib import: part of the line-protocol driver.
-/
import BeyondVerif.Model.Registry
import BeyondVerif.Model.LinkKey
namespace BeyondVerif.RegS
open BeyondVerif.Node (Graph PathRes)
open BeyondVerif.Reg (Holder World Step ConvRes Op)
open BeyondVerif.LinkKey

/-- `pat in s` -/
def containsSub (pat : List Nat) : List Nat → Bool
  | [] => pat.isEmpty
  | c :: rest => pat.isPrefixOf (c :: rest) || containsSub pat rest

/-- the decidable hypothesis of `linkKey_injective` on a (first) name: it neither contains `_to_` nor ends with `_to` -/
def goodName (a : List Nat) : Bool := !containsSub sepTo a && !sepPre.isSuffixOf a

/-- one stored attribute: holder, attribute name, bound object of the method -/
structure SAttr where
  holder : Holder
  key : List Nat
  owner : Option Nat
deriving Repr, DecidableEq

structure SState where
  g : Graph := []
  attrs : List SAttr := []      -- newest first

def findInS (attrs : List SAttr) (h : Holder) (key : List Nat) : Option SAttr :=
  attrs.find? (fun x => x.holder = h ∧ x.key = key)

/-- `getattr(o, key)`: instance dict, then the MRO of `type(o)` -/
def getattrS (w : World) (attrs : List SAttr) (o : Nat) (key : List Nat) : Option SAttr :=
  match findInS attrs (.inst o) key with
  | some x => some x
  | none => (w.mro (w.cls o)).findSome? (fun c => findInS attrs (.cls c) key)

/-- the `for a, b in self.steps(goal)` loop of `convert_to`; `str k` is the string of the name with identifier `k` -/
def resolveS (w : World) (str : Nat → List Nat) (attrs : List SAttr) (start : Nat) :
    List (Nat × Nat) → List Step → ConvRes
  | [], acc => .ok acc.reverse
  | (a, b) :: rest, acc =>
    match getattrS w attrs start (linkKey (str (w.nm a)) (str (w.nm b))) with
    | some x => resolveS w str attrs start rest (⟨a, b, true, x.owner⟩ :: acc)
    | none =>
      match getattrS w attrs start (linkKey (str (w.nm b)) (str (w.nm a))) with
      | some x => resolveS w str attrs start rest (⟨a, b, false, x.owner⟩ :: acc)
      | none => .unknownTransformation a b

def convertS (w : World) (str : Nat → List Nat) (fuel : Nat) (st : SState) (start goal : Nat) : ConvRes :=
  match Reg.path w.nm fuel st.g start goal with
  | .ok p => resolveS w str st.attrs start (p.zip p.tail) []
  | .unknown => .unknownNode
  | .keyError => .keyError
  | .loop => .loop

def applyOpS (w : World) (str : Nat → List Nat) (fuel : Nat) (st : SState) : Op → Option SState
  | .link a b => (Reg.link w.nm fuel st.g a b).map (fun g => { st with g := g })
  | .setattr h ka kb o => some { st with attrs := ⟨h, linkKey (str ka) (str kb), o⟩ :: st.attrs }

def applyOpsS (w : World) (str : Nat → List Nat) (fuel : Nat) : SState → List Op → Option SState
  | st, [] => some st
  | st, op :: rest => (applyOpS w str fuel st op).bind (fun st => applyOpsS w str fuel st rest)

end BeyondVerif.RegS
