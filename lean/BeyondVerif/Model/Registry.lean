/-
Model of the REGISTRY layer that sits on top of `beyond/utils/node.py`:

1. routing with node IDENTITY distinct from node NAME.  `Node.routes` is keyed by `name`, `Route.direction`
   is a node object, `_update`'s lock set holds node objects, `path` stops at the first node whose `name`
   equals the goal.  Two live nodes may carry one name (the analytical `Earth` centre of
   `beyond.env.solarsystem` and the JPL `Earth` centre both hang off the built-in `Earth` centre; a station
   re-created under an existing name).  `nm : Nat → Nat` gives the name of node `i`; with `nm = id` the
   definitions below are those of `Model/Node.lean` (`Props/C20Registry.lean: named_*_id`).

2. the method table.  `Center.convert_to` / `Orientation.convert_to` resolve each step `(a, b)` of the route
   by `hasattr(self, f"{a}_to_{b}")`, then `hasattr(self, f"{b}_to_{a}")`, on the START object `self`, i.e.
   in the instance dict of `self`, then along the MRO of `type(self)`.  The registration sites of the code
   (`setattr(Orientation, …)`, `setattr(self, …)`, `setattr(Center, …)`) decide where a method lands.
   Keys are pairs of names (the f-string `"<a>_to_<b>"`; names are assumed not to contain `_to_`).

No Mathlib import: this file is part of the line-protocol driver.
-/
import BeyondVerif.Model.Node
namespace BeyondVerif.Reg
open BeyondVerif.Node (Route NodeSt Graph get set lookupRoute setRoute addNbr PathRes)

/-! ## 1. named routing -/

/-- inner loop of `_update`; the two "already a direct neighbour / myself" tests compare NAMES -/
def mergeFrom (nm : Nat → Nat) (u : Nat) (unbrs : List Nat) (d : Nat) (droutes : List Route) (acc : List Route) : List Route :=
  droutes.foldl (fun acc r =>
    if r.target = nm u ∨ (unbrs.map nm).contains r.target then acc
    else match lookupRoute acc r.target with
      | some old => if old.steps ≤ r.steps then acc else setRoute acc ⟨r.target, d, r.steps + 1⟩
      | none => setRoute acc ⟨r.target, d, r.steps + 1⟩) acc

/-- `self.routes = {}; for node in self.neighbors: self.routes[node.name] = Route(node, 1); …` -/
def refreshRoutes (nm : Nat → Nat) (g : Graph) (u : Nat) : List Route :=
  let unbrs := (get g u).nbrs
  unbrs.foldl (fun acc d =>
    let acc := setRoute acc ⟨nm d, d, 1⟩
    mergeFrom nm u unbrs d (get g d).routes acc) []

def refresh (nm : Nat → Nat) (g : Graph) (u : Nat) : Graph :=
  set g u { get g u with routes := refreshRoutes nm g u }

/-- `_update(already_updated)`; the lock set holds node OBJECTS (identities) -/
def update (nm : Nat → Nat) (fuel : Nat) (g : Graph) (visited : List Nat) (u : Nat) : Option (Graph × List Nat) :=
  match fuel with
  | 0 => none
  | fuel + 1 =>
    let g := refresh nm g u
    let visited := u :: visited
    (get g u).nbrs.foldl (fun st d =>
      match st with
      | none => none
      | some (g, visited) =>
        if visited.contains d then some (g, visited) else update nm fuel g visited d) (some (g, visited))

/-- `a + b` (neighbours are keyed by object: no neighbour is ever removed) -/
def link (nm : Nat → Nat) (fuel : Nat) (g : Graph) (a b : Nat) : Option Graph :=
  let sa := get g a
  let g := set g a { sa with nbrs := addNbr sa.nbrs b }
  let sb := get g b
  let g := set g b { sb with nbrs := addNbr sb.nbrs a }
  (update nm fuel g [] a).map (·.1)

def build (nm : Nat → Nat) (fuel : Nat) (hist : List (Nat × Nat)) : Option Graph :=
  hist.foldl (fun og e => og.bind (fun g => link nm fuel g e.1 e.2)) (some [])

/-- the `while True` loop of `path`: stops at the first node whose NAME is the goal -/
def walk (nm : Nat → Nat) (g : Graph) (goal : Nat) : Nat → Nat → List Nat → PathRes
  | 0, _, _ => .loop
  | fuel + 1, cur, acc =>
    match lookupRoute (get g cur).routes goal with
    | none => .keyError
    | some r =>
      if nm r.dir = goal then .ok ((r.dir :: acc).reverse)
      else walk nm g goal fuel r.dir (r.dir :: acc)

/-- `path(goal)`, `goal` a name, `s` a node -/
def path (nm : Nat → Nat) (fuel : Nat) (g : Graph) (s goal : Nat) : PathRes :=
  if goal = nm s then .ok [s]
  else match lookupRoute (get g s).routes goal with
    | none => .unknown
    | some _ => walk nm g goal fuel s [s]

/-! ## 2. the method table and its lookup -/

/-- where an attribute lives: a class dict or an instance dict -/
inductive Holder where
  | cls (c : Nat)
  | inst (o : Nat)
deriving Repr, DecidableEq

/-- one `setattr(holder, f"{ka}_to_{kb}", owner._to_parent)`; `owner = none` for a function of the class body -/
structure Attr where
  holder : Holder
  ka : Nat
  kb : Nat
  owner : Option Nat
deriving Repr, DecidableEq

/-- the static part of a scenario: name and class of every object, MRO of every class (itself first) -/
structure World where
  nm : Nat → Nat
  cls : Nat → Nat
  mro : Nat → List Nat

structure State where
  g : Graph := []
  attrs : List Attr := []       -- newest first: a later `setattr` on the same holder and key shadows the earlier one

def findIn (attrs : List Attr) (h : Holder) (ka kb : Nat) : Option Attr :=
  attrs.find? (fun x => x.holder = h ∧ x.ka = ka ∧ x.kb = kb)

/-- `getattr(o, f"{ka}_to_{kb}")`: instance dict, then the MRO of `type(o)` -/
def getattr (w : World) (attrs : List Attr) (o : Nat) (ka kb : Nat) : Option Attr :=
  match findIn attrs (.inst o) ka kb with
  | some x => some x
  | none => (w.mro (w.cls o)).findSome? (fun c => findIn attrs (.cls c) ka kb)

/-- one resolved step of `convert_to`: the pair of nodes, `true` = direct (`a_to_b`), bound object of the method -/
structure Step where
  a : Nat
  b : Nat
  direct : Bool
  owner : Option Nat
deriving Repr, DecidableEq

inductive ConvRes where
  | ok (steps : List Step)
  | unknownNode                           -- ValueError("Unknown '<goal>'") from Node.path
  | unknownTransformation (a b : Nat)     -- ValueError("Unknown transformation a <-> b") : nodes a, b
  | keyError
  | loop
deriving Repr, DecidableEq

/-- the `for a, b in self.steps(goal)` loop of `convert_to` on start object `start` -/
def resolve (w : World) (attrs : List Attr) (start : Nat) : List (Nat × Nat) → List Step → ConvRes
  | [], acc => .ok acc.reverse
  | (a, b) :: rest, acc =>
    match getattr w attrs start (w.nm a) (w.nm b) with
    | some x => resolve w attrs start rest (⟨a, b, true, x.owner⟩ :: acc)
    | none =>
      match getattr w attrs start (w.nm b) (w.nm a) with
      | some x => resolve w attrs start rest (⟨a, b, false, x.owner⟩ :: acc)
      | none => .unknownTransformation a b

def convert (w : World) (fuel : Nat) (st : State) (start goal : Nat) : ConvRes :=
  match path w.nm fuel st.g start goal with
  | .ok p => resolve w st.attrs start (p.zip p.tail) []
  | .unknown => .unknownNode
  | .keyError => .keyError
  | .loop => .loop

/-! ## 3. operations -/

inductive Op where
  | link (a b : Nat)
  | setattr (h : Holder) (ka kb : Nat) (owner : Option Nat)
deriving Repr, DecidableEq

def applyOp (w : World) (fuel : Nat) (st : State) : Op → Option State
  | .link a b => (link w.nm fuel st.g a b).map (fun g => { st with g := g })
  | .setattr h ka kb o => some { st with attrs := ⟨h, ka, kb, o⟩ :: st.attrs }

def applyOps (w : World) (fuel : Nat) : State → List Op → Option State
  | st, [] => some st
  | st, op :: rest => (applyOp w fuel st op).bind (fun st => applyOps w fuel st rest)

/-! ## 4. registration sites, symbolically (regenerated from the source: `Generated/RegSites.lean`) -/

/-- the objects a registration site talks about: the object being registered, the node it is linked to, and any
other named thing whose name the site may put in a key (e.g. the parent FRAME of a local orbital orientation) -/
inductive Role where
  | self
  | parent
  | other
deriving Repr, DecidableEq

/-- first argument of the `setattr` call -/
inductive HolderE where
  | root                  -- the base class (`Orientation`, `Center`)
  | inst (r : Role)       -- an object
  | typeOf (r : Role)     -- `type(obj)`
deriving Repr, DecidableEq

inductive SiteOp where
  | link (a b : Role)
  | setattr (h : HolderE) (ka kb : Role) (owner : Role)
deriving Repr, DecidableEq

/-- binding of the roles for one execution of a site -/
structure Binding where
  self : Nat
  parent : Nat
  other : Nat
deriving Repr, DecidableEq

def Binding.get (β : Binding) : Role → Nat
  | .self => β.self
  | .parent => β.parent
  | .other => β.other

def SiteOp.inst (w : World) (root : Nat) (β : Binding) : SiteOp → Op
  | .link a b => .link (β.get a) (β.get b)
  | .setattr h ka kb o =>
    let hh := match h with
      | .root => Holder.cls root
      | .inst r => Holder.inst (β.get r)
      | .typeOf r => Holder.cls (w.cls (β.get r))
    .setattr hh (w.nm (β.get ka)) (w.nm (β.get kb)) (some (β.get o))

def instSite (w : World) (root : Nat) (β : Binding) (site : List SiteOp) : List Op :=
  site.map (SiteOp.inst w root β)

/-- every link the site inserts joins `self`/`parent` and comes with a method registered ON THE BASE CLASS under
the names of its two ends (either direction) -/
def registersRoot (site : List SiteOp) : Bool :=
  site.all (fun op =>
    match op with
    | .link a b =>
      a != .other && b != .other &&
      site.any (fun op' =>
        match op' with
        | .setattr .root ka kb _ => (ka == a && kb == b) || (ka == b && kb == a)
        | _ => false)
    | .setattr _ _ _ _ => true)

/-- a history: which site was executed with which objects -/
def runSites (w : World) (root : Nat) (fuel : Nat) : State → List (List SiteOp × Binding) → Option State
  | st, [] => some st
  | st, (site, β) :: rest => (applyOps w fuel st (instSite w root β site)).bind (fun st => runSites w root fuel st rest)

end BeyondVerif.Reg
