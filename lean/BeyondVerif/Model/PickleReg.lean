import BeyondVerif.Generated.HeapTables
/-!
The frame registry of `beyond.frames.frames` (`dynamic`, the table `get_frame` reads) and what a pickle of a
state vector does with the frame the state is expressed in.

A `Frame` object is described by what it IS (class, name, orientation, centre); its identity is the business of
`Model/Heap.lean` (a pickle round trip gives a clone).  The registry maps a KEY to an object.  The key is chosen by
the constructor: `Frame.__init__` registers `self` under `self.name` (overriding an older entry of that name — the
older object lives on in every state vector that holds it), `HillFrame.__init__` under the fixed key `"Hill"`
whatever its name (`"Hill" ++ orientation`), `dynamic["WGS84"] = ITRF` adds a second key for one object.

`StateVector.__reduce__` puts `self._data` — hence the Frame OBJECT — in the pickle, and `__setstate__` takes it
back as it is: loading never reads the registry.

No Mathlib import: this file is linked into the line-protocol driver.
-/
namespace BeyondVerif.PickleReg
open BeyondVerif.Generated

/-- what a Frame object is, without its identity -/
structure FrameObj where
  cls : String
  name : String
  orient : String
  centre : String
deriving DecidableEq, Repr

/-- `frames.dynamic`: key ↦ object, most recent entry first -/
abbrev Registry := List (String × FrameObj)

/-- `get_frame(key)` (`none`: `UnknownFrameError`) -/
def regGet (r : Registry) (k : String) : Option FrameObj := r.lookup k

/-- `dynamic[k] = f` -/
def regSet (r : Registry) (k : String) (f : FrameObj) : Registry := (k, f) :: r.filter (fun e => e.1 != k)

/-- `dynamic.pop(k)`; also: a process in which `k` was never registered -/
def regDel (r : Registry) (k : String) : Registry := r.filter (fun e => e.1 != k)

/-- the key a constructor registers the new object under -/
def keyOf (f : FrameObj) : String := if f.cls = "HillFrame" then "Hill" else f.name

inductive Ev
  /-- `Frame(name, orientation, centre)`, `orbit2frame`, `create_station`, `HillFrame(orientation)` -/
  | build (f : FrameObj)
  | drop (k : String)
deriving DecidableEq, Repr

def Ev.apply (r : Registry) : Ev → Registry
  | .build f => regSet r (keyOf f) f
  | .drop k => regDel r k

def run (r : Registry) (evs : List Ev) : Registry := evs.foldl Ev.apply r

/-- the registry as the package leaves it after import (regenerated from the live `frames.dynamic` on every run) -/
def registry0 : Registry :=
  FormTables.frameKeys.map (fun kn => (kn.1, ⟨"Frame", kn.2, kn.2, "Earth"⟩)) ++
  FormTables.hillFrames.map (fun kno => (kno.1, ⟨"HillFrame", kno.2.1, kno.2.2, "Earth"⟩))

/-! ### pickle of the frame slot -/

/-- what `__reduce__` puts in the pickle for `_data["frame"]`: the object -/
def dumps (f : FrameObj) : FrameObj := f

/-- what `__setstate__` makes of it, in a process whose registry is `r` -/
def loads (_r : Registry) (payload : FrameObj) : Except String FrameObj := .ok payload

/-- the alternative "as for classes and functions, only the name goes in the pickle and is looked up again when
loading" — NOT what the code does; kept to state exactly when it would be the same thing -/
def dumpsByName (f : FrameObj) : String := f.name

def loadsByName (r : Registry) (n : String) : Except String FrameObj :=
  match regGet r n with
  | some f => .ok f
  | none => .error "unknown-frame"

/-! ### the machine the correspondence drives: registry events, dumps and loads interleaved -/

structure St where
  reg : Registry := registry0
  built : List FrameObj := []
  blobs : List FrameObj := []
  outs : List String := []

def descr (f : FrameObj) : String := s!"{f.cls},{f.name},{f.orient},{f.centre}"

inductive Cmd
  | build (f : FrameObj)
  | drop (k : String)
  | dump (j : Nat)       -- pickle.dumps of a state vector expressed in the j-th frame built
  | load (b : Nat)       -- pickle.loads of the b-th blob: the frame of the state that comes back
  | get (k : String)     -- get_frame(k)

def St.step (s : St) : Cmd → St
  | .build f => { s with reg := Ev.apply s.reg (.build f), built := s.built ++ [f] }
  | .drop k => { s with reg := Ev.apply s.reg (.drop k) }
  | .dump j =>
    { s with blobs := s.blobs ++ (match s.built[j]? with | some f => [dumps f] | none => []),
             outs := s.outs ++ (match s.built[j]? with | some _ => [] | none => ["bad-index"]) }
  | .load b =>
    { s with outs := s.outs ++ [match s.blobs[b]? with
                                | some p => (match loads s.reg p with | .ok f => descr f | .error e => e)
                                | none => "bad-index"] }
  | .get k => { s with outs := s.outs ++ [match regGet s.reg k with | some f => descr f | none => "unknown-frame"] }

end BeyondVerif.PickleReg
