/-
Model of beyond/utils/node.py (class Node): incremental next-hop routing tables.

Nodes are identified by natural numbers (the Python code keys everything by
`name`).  A state holds, per node, the ordered neighbour set (OrderedDict keys)
and the routing dict `routes : name ↦ (direction, steps)`.

No Mathlib import: this file is also part of the line-protocol driver.
-/
namespace BeyondVerif.Node

/-- One entry of `Node.routes`: target name, direction (a node), number of steps. -/
structure Route where
  target : Nat
  dir : Nat
  steps : Nat
deriving Repr, DecidableEq, BEq

structure NodeSt where
  nbrs : List Nat := []          -- OrderedDict used as ordered set
  routes : List Route := []      -- dict in insertion order (keys unique)
deriving Repr, DecidableEq

/-- The whole object graph: association list `name ↦ node state`. Nodes are created
lazily with empty state, as `Node(name)` does. -/
abbrev Graph := List (Nat × NodeSt)

def get (g : Graph) (u : Nat) : NodeSt :=
  match g.lookup u with
  | some s => s
  | none => {}

def set (g : Graph) (u : Nat) (s : NodeSt) : Graph :=
  match g with
  | [] => [(u, s)]
  | (k, v) :: rest => if k = u then (u, s) :: rest else (k, v) :: set rest u s

def lookupRoute (rs : List Route) (t : Nat) : Option Route :=
  rs.find? (fun r => r.target = t)

/-- dict assignment `routes[name] = Route(dir, steps)` (keeps insertion position when the key exists) -/
def setRoute (rs : List Route) (r : Route) : List Route :=
  match rs with
  | [] => [r]
  | x :: rest => if x.target = r.target then r :: rest else x :: setRoute rest r

/-- OrderedDict key insertion: `self.neighbors[other] = None` -/
def addNbr (ns : List Nat) (v : Nat) : List Nat :=
  if ns.contains v then ns else ns ++ [v]

/-- inner loop of `_update`: merge the routes of neighbour `d` into `acc` (routes of `u`) -/
def mergeFrom (u : Nat) (unbrs : List Nat) (d : Nat) (droutes : List Route) (acc : List Route) : List Route :=
  droutes.foldl (fun acc r =>
    if r.target = u ∨ unbrs.contains r.target then acc
    else match lookupRoute acc r.target with
      | some old => if old.steps ≤ r.steps then acc else setRoute acc ⟨r.target, d, r.steps + 1⟩
      | none => setRoute acc ⟨r.target, d, r.steps + 1⟩) acc

/-- body of `_update` before the recursion: rebuild `self.routes` from the neighbours' tables -/
def refreshRoutes (g : Graph) (u : Nat) : List Route :=
  let unbrs := (get g u).nbrs
  unbrs.foldl (fun acc d =>
    let acc := setRoute acc ⟨d, d, 1⟩
    mergeFrom u unbrs d (get g d).routes acc) []

def refresh (g : Graph) (u : Nat) : Graph :=
  set g u { get g u with routes := refreshRoutes g u }

/-- `_update(already_updated)`: refresh `u`, mark it, recurse into unmarked neighbours in order.
`fuel` bounds the recursion depth; the driver reports fuel exhaustion explicitly. -/
def update (fuel : Nat) (g : Graph) (visited : List Nat) (u : Nat) : Option (Graph × List Nat) :=
  match fuel with
  | 0 => none
  | fuel + 1 =>
    let g := refresh g u
    let visited := u :: visited
    (get g u).nbrs.foldl (fun st d =>
      match st with
      | none => none
      | some (g, visited) =>
        if visited.contains d then some (g, visited) else update fuel g visited d) (some (g, visited))

/-- `a + b` -/
def link (fuel : Nat) (g : Graph) (a b : Nat) : Option Graph :=
  let sa := get g a
  let g := set g a { sa with nbrs := addNbr sa.nbrs b }
  let sb := get g b
  let g := set g b { sb with nbrs := addNbr sb.nbrs a }
  (update fuel g [] a).map (·.1)

/-- a chain `n0 + n1 + n2 + …` evaluates left to right, each `+` returning its right operand -/
def chain (fuel : Nat) (g : Graph) : List Nat → Option Graph
  | a :: b :: rest => (link fuel g a b).bind (fun g => chain fuel g (b :: rest))
  | _ => some g

def chains (fuel : Nat) (g : Graph) (cs : List (List Nat)) : Option Graph :=
  cs.foldl (fun og c => og.bind (fun g => chain fuel g c)) (some g)

inductive PathRes where
  | ok (p : List Nat)
  | unknown           -- ValueError("Unknown ...")
  | keyError          -- an intermediate node lacks a route to the goal (KeyError in Python)
  | loop              -- fuel exhausted: the Python loop would not terminate
deriving Repr, DecidableEq

/-- the `while True` loop of `path` -/
def walk (g : Graph) (goal : Nat) : Nat → Nat → List Nat → PathRes
  | 0, _, _ => .loop
  | fuel + 1, cur, acc =>
    match lookupRoute (get g cur).routes goal with
    | none => .keyError
    | some r =>
      if r.dir = goal then .ok ((r.dir :: acc).reverse)
      else walk g goal fuel r.dir (r.dir :: acc)

def path (fuel : Nat) (g : Graph) (s goal : Nat) : PathRes :=
  if goal = s then .ok [s]
  else match lookupRoute (get g s).routes goal with
    | none => .unknown
    | some _ => walk g goal fuel s [s]

def steps (p : List Nat) : List (Nat × Nat) := p.zip p.tail

end BeyondVerif.Node
