import BeyondVerif.Model.Node
/-!
Model of `beyond/dates/date.py` (classes `Timescale`, `Date`, `DateRange`) and of the lookup part of
`beyond/dates/eop.py` (`EopDb.get`, `SimpleEopDatabase.__getitem__`, missing-data policy).

Time is counted in **ticks of 10⁻⁷ s** (the resolution of the IERS UT1−UTC column; every other constant
of the code — 32.184 s, 19 s, whole leap seconds, microsecond clock readings — is a whole number of
ticks), as `Int`.  Python keeps the seconds of the day in a double; the model is the exact arithmetic
the code performs when no rounding occurs, and is compared with the real objects through their
microsecond observables (`_datetime`, `datetime`, `-`, comparisons).

No Mathlib import: this file is part of the line-protocol driver.
-/
namespace BeyondVerif.Date

/-- ticks per day: `86400.0` seconds -/
abbrev D : Int := 864000000000
/-- microseconds per day -/
abbrev DUS : Int := 86400000000

/-- what a `_scale_<hi>_minus_<lo>` method returns -/
inductive OpKind where
  | const (ticks : Int)   -- a literal such as 32.184
  | taiUtc                -- `eop.tai_utc`
  | ut1Utc                -- `eop.ut1_utc`
  | tdbTt                 -- the periodic formula (a function of the mjd argument)
deriving Repr, DecidableEq

/-- one method `_scale_<hi>_minus_<lo>` of `Timescale` (indices into the scale name list) -/
structure ScaleOp where
  hi : Nat
  lo : Nat
  kind : OpKind
deriving Repr, DecidableEq

/-- the two columns of an EOP record that time scales use, in ticks -/
structure Eop where
  taiUtc : Int
  ut1Utc : Int
deriving Repr, DecidableEq

inductive Policy where
  | pass | warn | error
deriving Repr, DecidableEq

inductive Err where
  | missingEop      -- KeyError / EopError re-raised by policy "error"
  | unknownConv     -- DateError("Unknown convertion")
  | noRoute         -- ValueError from Node.path
  | nullStep        -- ValueError("Null step")
  | incoherent      -- ValueError("start/stop order not coherent with step")
  | fuel
deriving Repr, DecidableEq

/-- static configuration: the scale graph as built at import (tables after all `+`), the `_scale_*` methods,
the index of REF_SCALE -/
structure Cfg where
  graph : Node.Graph
  n : Nat
  ops : List ScaleOp
  ref : Nat
  utc : Nat

/-- the EOP database and configuration seen by `EopDb.get`, and the TDB−TT term as a function of the
`mjd` argument (given as its numerator in ticks; a float formula in the code, a parameter here) -/
structure Env where
  finals : Int → Option Int        -- day ↦ UT1−UTC (ticks); `none` = KeyError
  leap : List (Int × Int)          -- `tai-utc.dat` in file order: (mjd, TAI−UTC in ticks)
  policy : Policy
  tdb : Int → Int

/-! ### EopDb.get -/

/-- `SimpleEopDatabase.tai_utc`: last entry (scanning the reversed list) with `date <= mjd` -/
def taiUtcAt (leap : List (Int × Int)) (num : Int) : Option Int :=
  (leap.reverse.find? (fun e => decide (e.1 * D ≤ num))).map (·.2)

/-- the loop of `TaiUtc.get_last_next` over the reversed table: `future` is overwritten until the first entry with
`mjd <= date` is met, which is `past` -/
def lastNextRev : List (Int × Int) → Int → Option (Int × Int) → Option (Int × Int) × Option (Int × Int)
  | [], _, fut => (none, fut)
  | e :: r, num, fut => if e.1 * D ≤ num then (some e, fut) else lastNextRev r num (some e)

/-- `TaiUtc.get_last_next(date)`: the last and the next leap-second events relative to a date (`(None, None)` = `none`) -/
def lastNext (leap : List (Int × Int)) (num : Int) : Option (Int × Int) × Option (Int × Int) :=
  lastNextRev leap.reverse num none

/-- `SimpleEopDatabase.__getitem__(mjd)`: `finals[int(mjd)]` (truncation) then `tai_utc(mjd)`; `none` = KeyError -/
def eopRaw (env : Env) (num : Int) : Option Eop :=
  match env.finals (Int.tdiv num D) with
  | none => none
  | some u =>
    match taiUtcAt env.leap num with
    | none => none
    | some t => some ⟨t, u⟩

inductive EopRes where
  | found (e : Eop)
  | zeroSilent          -- policy "pass"
  | zeroWarned          -- policy "warning": zeros and one log record
  | raised              -- policy "error"
deriving Repr, DecidableEq

def eopGet (env : Env) (num : Int) : EopRes :=
  match eopRaw env num with
  | some e => .found e
  | none =>
    match env.policy with
    | .pass => .zeroSilent
    | .warn => .zeroWarned
    | .error => .raised

def EopRes.value : EopRes → Option Eop
  | .found e => some e
  | .zeroSilent => some ⟨0, 0⟩
  | .zeroWarned => some ⟨0, 0⟩
  | .raised => none

/-! ### Timescale.offset -/

def opValue (k : OpKind) (num : Int) (eop : Eop) (tdb : Int → Int) : Int :=
  match k with
  | .const v => v
  | .taiUtc => eop.taiUtc
  | .ut1Utc => eop.ut1Utc
  | .tdbTt => tdb num

/-- which method serves the step `one → two`, and with which sign: `_scale_two_minus_one` (+) is looked for
first, then `_scale_one_minus_two` (−) -/
def findOp (ops : List ScaleOp) (one two : Nat) : Option (Int × OpKind) :=
  match ops.find? (fun o => o.hi = two ∧ o.lo = one) with
  | some o => some (1, o.kind)
  | none =>
    match ops.find? (fun o => o.hi = one ∧ o.lo = two) with
    | some o => some (-1, o.kind)
    | none => none

/-- the signed list of methods along `self.steps(new_scale)` -/
def signedSteps (cfg : Cfg) (frm to : Nat) : Except Err (List (Int × OpKind)) :=
  match Node.path (cfg.n + 2) cfg.graph frm to with
  | .ok p =>
    match (Node.steps p).mapM (fun st => findOp cfg.ops st.1 st.2) with
    | some l => .ok l
    | none => .error .unknownConv
  | _ => .error .noRoute

def sumSteps (l : List (Int × OpKind)) (num : Int) (eop : Eop) (tdb : Int → Int) : Int :=
  (l.map (fun st => st.1 * opValue st.2 num eop tdb)).sum

/-- `Timescale.offset(mjd, new_scale, eop)` in ticks; `num` is the numerator of `mjd` (ticks since the MJD origin) -/
def offset (cfg : Cfg) (env : Env) (frm to : Nat) (num : Int) (eop : Eop) : Except Err Int :=
  match signedSteps cfg frm to with
  | .ok l => .ok (sumSteps l num eop env.tdb)
  | .error e => .error e

/-! ### Date -/

/-- the slots of a `Date`: `_d`, `_s` (TAI day and ticks of day), `_offset`, `scale`, `eop` -/
structure Date where
  d : Int
  s : Int
  off : Int
  scale : Nat
  eop : Eop
deriving Repr, DecidableEq

/-- the instant: ticks since the MJD origin on the reference scale (TAI); `_mjd` is this divided by `D` -/
def Date.inst (x : Date) : Int := x.d * D + x.s

/-- `d += int((s + offset) // 86400); s = (s + offset) % 86400.0` -/
def normalise (d s off : Int) : Int × Int := (d + (s + off) / D, (s + off) % D)

/-- the EOP record of a new date: `EopDb.get(mjd)` with the clock reading of the date's own scale, and — since fix
fc514f7 — for every scale but UTC a second `EopDb.get(mjd_utc)` when the day number of
`mjd_utc = mjd + scale.offset(mjd, "UTC", eop)/86400` differs from that of `mjd` (`int()` truncates) -/
def eopFor (cfg : Cfg) (env : Env) (scale : Nat) (num : Int) : Except Err Eop :=
  match (eopGet env num).value with
  | none => .error .missingEop
  | some eop0 =>
    if scale = cfg.utc then .ok eop0
    else
      match offset cfg env scale cfg.utc num eop0 with
      | .error e => .error e
      | .ok offU =>
        if Int.tdiv (num + offU) D ≠ Int.tdiv num D then
          match (eopGet env (num + offU)).value with
          | none => .error .missingEop
          | some eop => .ok eop
        else .ok eop0

/-- `Date(d, s, scale=…)` (two-argument form; every other form reduces to it).  `mjd = d + s/86400`,
`eop` as in `eopFor`, `offset = scale.offset(mjd, REF_SCALE, eop)` -/
def mk (cfg : Cfg) (env : Env) (scale : Nat) (d s : Int) : Except Err Date :=
  let num := d * D + s
  match eopFor cfg env scale num with
  | .error e => .error e
  | .ok eop =>
    match offset cfg env scale cfg.ref num eop with
    | .error e => .error e
    | .ok off =>
      let ds := normalise d s off
      .ok ⟨ds.1, ds.2, off, scale, eop⟩

/-- `_convert_dt` followed by the constructor: a `datetime` given as microseconds since the MJD origin -/
def ofDatetime (cfg : Cfg) (env : Env) (scale : Nat) (us : Int) : Except Err Date :=
  mk cfg env scale (us / DUS) ((us % DUS) * 10)

/-- `_convert_to_scale`: `s = (_s - _offset) % 86400.0; d = _d - int((s + _offset) // 86400)` -/
def Date.toScale (x : Date) : Int × Int :=
  let s := (x.s - x.off) % D
  (x.d - (s + x.off) / D, s)

/-- rounding of a tick count to whole microseconds as `timedelta(seconds=float)` does (half to even) -/
def roundUs (t : Int) : Int :=
  let q := t / 10
  let r := t % 10
  if r < 5 then q else if r > 5 then q + 1 else if q % 2 = 0 then q else q + 1

/-- `_datetime`: `MJD_T0 + timedelta(days=_d, seconds=_s)`, microseconds since the MJD origin -/
def Date.datetimeRef (x : Date) : Int := x.d * DUS + roundUs x.s

/-- `datetime`: `_datetime - timedelta(seconds=_offset)` -/
def Date.datetime (x : Date) : Int := x.datetimeRef - roundUs x.off

/-- `change_scale(new_scale)` -/
def changeScale (cfg : Cfg) (env : Env) (x : Date) (new : Nat) : Except Err Date :=
  match offset cfg env x.scale new x.inst x.eop with
  | .error e => .error e
  | .ok off => ofDatetime cfg env new (x.datetime + roundUs off)

/-- `self + timedelta` (the timedelta in microseconds): `divmod(total_seconds + self.s, 86400)` -/
def add (cfg : Cfg) (env : Env) (x : Date) (tUs : Int) : Except Err Date :=
  let ds := x.toScale
  let tot := tUs * 10 + ds.2
  mk cfg env x.scale (ds.1 + tot / D) (tot % D)

/-- `self - timedelta` -/
def subTd (cfg : Cfg) (env : Env) (x : Date) (tUs : Int) : Except Err Date := add cfg env x (-tUs)

/-- `self - other` for two dates: `self._datetime - other._datetime`, microseconds -/
def subDate (x y : Date) : Int := x.datetimeRef - y.datetimeRef

/-- comparisons: `self._datetime ⋈ other._datetime` (since fix d8c716a; `_mjd`, a double, before) -/
def Date.lt (x y : Date) : Bool := decide (x.datetimeRef < y.datetimeRef)
def Date.le (x y : Date) : Bool := decide (x.datetimeRef ≤ y.datetimeRef)
def Date.eq (x y : Date) : Bool := decide (x.datetimeRef = y.datetimeRef)
def Date.gt (x y : Date) : Bool := decide (x.datetimeRef > y.datetimeRef)
def Date.ge (x y : Date) : Bool := decide (x.datetimeRef ≥ y.datetimeRef)
/-- what `__hash__` hashes: `_datetime` -/
def Date.hashKey (x : Date) : Int := x.datetimeRef

/-! ### DateRange (on instants, in microseconds)

A date enters `DateRange` only through `stop - start`, the comparisons and `date += step`; all three are
functions of the instant (`subDate`, `lt…`, and `add`, whose instant is `inst + step` — theorem
`add_instant` — in the uniform scales).  The range model is therefore written over instants. -/

structure Range where
  start : Int
  stop : Int
  step : Int
  incl : Bool
deriving Repr, DecidableEq

/-- `_sign`: `(-1, 1)[x.total_seconds() >= 0]` -/
def sign (x : Int) : Int := if x ≥ 0 then 1 else -1

/-- `DateRange.__init__` (stop already a date) -/
def Range.make (start stop step : Int) (incl : Bool) : Except Err Range :=
  if step = 0 then .error .nullStep
  else if sign (stop - start) ≠ sign step then .error .incoherent
  else .ok ⟨start, stop, step, incl⟩

/-- the loop condition of `__iter__` -/
def Range.cond (r : Range) (x : Int) : Bool :=
  if r.step > 0 then (if r.incl then decide (x ≤ r.stop) else decide (x < r.stop))
  else (if r.incl then decide (x ≥ r.stop) else decide (x > r.stop))

/-- `__iter__` from the current date; `none` = fuel exhausted -/
def Range.iterFrom (r : Range) : Nat → Int → Option (List Int)
  | 0, _ => none
  | fuel + 1, cur =>
    if r.cond cur then (r.iterFrom fuel (cur + r.step)).map (cur :: ·) else some []

def Range.iter (r : Range) (fuel : Nat) : Option (List Int) := r.iterFrom fuel r.start

/-- `__contains__` -/
def Range.contains (r : Range) (x : Int) : Bool :=
  if r.step < 0 then
    (if r.incl then decide (r.stop ≤ x) && decide (x ≤ r.start) else decide (r.stop < x) && decide (x ≤ r.start))
  else
    (if r.incl then decide (r.start ≤ x) && decide (x ≤ r.stop) else decide (r.start ≤ x) && decide (x < r.stop))

/-- `ceil(a / b)` for `b ≠ 0` (the code takes the float quotient of two timedeltas and `numpy.ceil`) -/
def ceilDiv (a b : Int) : Int := if b > 0 then -((-a) / b) else -(a / (-b))

/-- `__len__`: `int(ceil(dur / step)) + (1 if inclusive and dur % step == 0 else 0)` -/
def Range.len (r : Range) : Int :=
  let dur := r.stop - r.start
  ceilDiv dur r.step + (if r.incl ∧ dur % r.step = 0 then 1 else 0)

end BeyondVerif.Date
