/-!
Loop structure of `KeplerNum._accel` (beyond/propagators/keplernum.py) as a small program, and its interpreter.

The program itself (`Generated/AccelLoopSrc.lean: accelProg`) is read from the Python AST on every run: which
`for` loop (`for body in self.bodies` / `for man in self.orbit.maneuvers`) contains which accumulation
(`new_body[3:] += body.µ * diff / norm`, resp. `if isinstance(man, ContinuousMan) and man.check(orb.date):
new_body[3:] += man.accel(orb)`), with the nesting given by the indentation.  The interpreter below is fixed text:
it runs such a program for any list of bodies and any list of maneuvers, over any type of accelerations.
-/
namespace BeyondVerif.AccelLoop

/-- the two accumulating statements -/
inductive Leaf where
  /-- `new_body[3:] += body.µ * diff / norm` (needs the loop variable `body`) -/
  | grav
  /-- `if isinstance(man, ContinuousMan) and man.check(orb.date): new_body[3:] += man.accel(orb)` (needs `man`) -/
  | thrust
  deriving DecidableEq, Repr

/-- a statement inside a top-level loop: an accumulation, or an inner loop over accumulations -/
inductive Inner where
  | leaf (l : Leaf)
  | overBodies (ls : List Leaf)
  | overMans (ls : List Leaf)
  deriving DecidableEq, Repr

/-- a top-level statement of `_accel` after the initialisation: a loop -/
inductive Top where
  | overBodies (is : List Inner)
  | overMans (is : List Inner)
  deriving DecidableEq, Repr

section
variable {α β μ : Type} (add : α → α → α) (g : β → α) (th : μ → Option α)

/-- one accumulation; `none` = the statement reads a loop variable that is not bound (the extractor refuses
such programs; the interpreter is total anyway).  `th m = none` means: the guard of the maneuver is false. -/
def runLeaf (cb : Option β) (cm : Option μ) (acc : α) : Leaf → Option α
  | Leaf.grav => cb.map (fun b => add acc (g b))
  | Leaf.thrust => cm.map (fun m => match th m with
      | some a => add acc a
      | none => acc)

def runLeaves (cb : Option β) (cm : Option μ) : α → List Leaf → Option α
  | acc, [] => some acc
  | acc, l :: rest => (runLeaf add g th cb cm acc l).bind (fun a => runLeaves cb cm a rest)

/-- `for body in bodies: <leaves>` with `man` possibly bound outside -/
def loopBodies (cm : Option μ) (ls : List Leaf) : α → List β → Option α
  | acc, [] => some acc
  | acc, b :: bs => (runLeaves add g th (some b) cm acc ls).bind (fun a => loopBodies cm ls a bs)

/-- `for man in maneuvers: <leaves>` with `body` possibly bound outside -/
def loopMans (cb : Option β) (ls : List Leaf) : α → List μ → Option α
  | acc, [] => some acc
  | acc, m :: ms => (runLeaves add g th cb (some m) acc ls).bind (fun a => loopMans cb ls a ms)

def runInner (bodies : List β) (mans : List μ) (cb : Option β) (cm : Option μ) (acc : α) : Inner → Option α
  | Inner.leaf l => runLeaf add g th cb cm acc l
  | Inner.overBodies ls => loopBodies add g th cm ls acc bodies
  | Inner.overMans ls => loopMans add g th cb ls acc mans

def runInners (bodies : List β) (mans : List μ) (cb : Option β) (cm : Option μ) : α → List Inner → Option α
  | acc, [] => some acc
  | acc, i :: rest => (runInner add g th bodies mans cb cm acc i).bind (fun a => runInners bodies mans cb cm a rest)

def topBodies (bodies : List β) (mans : List μ) (is : List Inner) : α → List β → Option α
  | acc, [] => some acc
  | acc, b :: bs => (runInners add g th bodies mans (some b) none acc is).bind (fun a => topBodies bodies mans is a bs)

def topMans (bodies : List β) (mans : List μ) (is : List Inner) : α → List μ → Option α
  | acc, [] => some acc
  | acc, m :: ms => (runInners add g th bodies mans none (some m) acc is).bind (fun a => topMans bodies mans is a ms)

def runTop (bodies : List β) (mans : List μ) (acc : α) : Top → Option α
  | Top.overBodies is => topBodies add g th bodies mans is acc bodies
  | Top.overMans is => topMans add g th bodies mans is acc mans

/-- the acceleration part `new_body[3:]` after the whole program, starting from `acc` (= zeros) -/
def run (bodies : List β) (mans : List μ) : α → List Top → Option α
  | acc, [] => some acc
  | acc, t :: rest => (runTop add g th bodies mans acc t).bind (fun a => run bodies mans a rest)

end
end BeyondVerif.AccelLoop
