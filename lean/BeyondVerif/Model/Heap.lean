import BeyondVerif.Generated.HeapTables
/-!
Object-graph ("heap") model of `beyond.orbits.statevector.StateVector`, `orbit.Orbit`, `cov.Cov`.

A heap is a list of cells; an address is an index; allocation appends.  Cells: the ndarray
buffer of a state vector, its `_data` dict, metadata containers (list / dict / ndarray), maneuver
objects, propagators, covariance objects (their own buffer and dict are created afresh by
`Cov.__new__` and are kept inside the cell) and the StateVector / Orbit objects themselves.

Coordinate values are *symbolic*: `Val` records which initial vector they come from and which
form conversions, frame transformations and element assignments were applied, in order.  The
harness evaluates such a term with the pure conversion functions of the library and compares
bit for bit with what the stateful object holds.

No Mathlib import: this file is linked into the line-protocol driver.
-/
namespace BeyondVerif.Heap
open BeyondVerif.Generated

/-- frames: a built-in Earth-centred frame (by `Frame.name`), the Hill frame, the two local
orientations a covariance may be expressed in -/
inductive Fr
  | reg (name : String)
  | hill
  | tnw
  | qsw
deriving DecidableEq, Repr

def Fr.isReg : Fr → Bool
  | .reg _ => true
  | _ => false

/-- symbolic content of a coordinate / covariance buffer -/
inductive Val
  | init (k : Nat)
  | conv (f g : String) (v : Val)            -- `Form.__call__`: form f → form g
  | xform (a b : String) (v : Val)           -- `Frame.transform` on cartesian values, frame a → b
  | set (form : String) (i x : Nat) (v : Val) -- element i := value token x (object then in form `form`)
  | covx (cur tgt orbFrame orbFr : Fr) (orbV : Val) (v : Val)  -- `Cov.frame` setter
deriving DecidableEq, Repr

inductive Ref
  | tok (n : Nat)          -- immutable value (str, number, Date …)
  | none
  | form (name : String)   -- a Form object (module singleton)
  | frame (f : Fr)         -- a Frame object (registry singleton)
  | addr (a : Nat)         -- a mutable object
deriving DecidableEq, Repr

inductive Cell
  | buf (v : Val)
  | arr (t : Nat)
  | dict (items : List (String × Ref))
  | list (items : List Ref)
  | man (t : Nat)
  | prop (t : Nat)
  /-- `owned`: the array owns its memory (`self.base is None`), as after unpickling -/
  | sv (orbit owned : Bool) (buf data : Nat)
  /-- `ok = false`: a Cov whose `__dict__` (`_data`, `_orb_frame`) is missing, as after unpickling -/
  | cov (ok : Bool) (v : Val) (frame : Fr) (orb : Nat) (orbFrame : Fr)
deriving DecidableEq, Repr

inductive Err
  | unknownForm | unknownFrame | runtime | value | typeErr | attr
  | bad     -- malformed heap / unsupported request (never produced on well-formed input)
deriving DecidableEq, Repr

abbrev Heap := List Cell
abbrev Res (α : Type) := Heap × Except Err α

def alloc (h : Heap) (c : Cell) : Heap × Nat := (h ++ [c], h.length)
def write (h : Heap) (a : Nat) (c : Cell) : Heap := h.set a c

/-! ### dict helpers (`_data`) -/
abbrev Items := List (String × Ref)

def lookup (k : String) : Items → Option Ref
  | [] => none
  | (k', v) :: rest => if k' = k then some v else lookup k rest

/-- `d[k] = v`: in place when the key exists, appended otherwise -/
def insert (k : String) (v : Ref) : Items → Items
  | [] => [(k, v)]
  | (k', v') :: rest => if k' = k then (k, v) :: rest else (k', v') :: insert k v rest

def erase (k : String) : Items → Items
  | [] => []
  | (k', v') :: rest => if k' = k then rest else (k', v') :: erase k rest

def formOf (items : Items) : Option String :=
  match lookup "form" items with
  | some (.form f) => some f
  | _ => none

def frameOf (items : Items) : Option Fr :=
  match lookup "frame" items with
  | some (.frame f) => some f
  | _ => none

/-! ### name tables -/

/-- `get_form`: lower-cased key of `forms._cache` -/
def resolveForm (name : String) : Option String := FormTables.formKeys.lookup name

/-- `get_frame` on the built-in registry -/
def resolveFrame (name : String) : Option Fr :=
  match FormTables.frameKeys.lookup name with
  | some n => some (.reg n)
  | none => if FormTables.hillKeys.contains name then some .hill else none

def namesOf (form : String) : List String := (FormTables.paramNames.lookup form).getD []

inductive Access
  | slot (i : Nat)   -- an element of the current form
  | foreign          -- an element name of another form: AttributeError / KeyError
  | free             -- a free metadata key
deriving DecidableEq, Repr

/-- `StateVector.__getattr__` / `__setattr__` name resolution (after the property check) -/
def access (form name : String) : Access :=
  let n := (FormTables.alt.lookup name).getD name
  let i := (namesOf form).idxOf n
  if i < (namesOf form).length then .slot i
  else if FormTables.cacheParamNames.contains n then .foreign
  else .free

/-! ### reading a state vector -/

structure SV where
  orbit : Bool
  owned : Bool
  buf : Nat
  data : Nat
  val : Val
  items : Items
  form : String
  frame : Fr

def getSV (h : Heap) (a : Nat) : Option SV :=
  match h[a]? with
  | some (.sv o own b d) =>
    match h[b]?, h[d]? with
    | some (.buf v), some (.dict items) =>
      match formOf items, frameOf items with
      | some f, some fr => some ⟨o, own, b, d, v, items, f, fr⟩
      | _, _ => none
    | _, _ => none
  | _ => none

def mkConv (f g : String) (v : Val) : Val := if f = g then v else .conv f g v

/-! ### setters -/

/-- `sv.form = g` with `g` already a Form name: `self.base.setfield(self._data["form"](self, g)); self._data["form"] = g` -/
def setFormTo (h : Heap) (a : Nat) (g : String) : Res Unit :=
  match getSV h a with
  | none => (h, .error .bad)
  | some s =>
    if s.owned then (h, .error .attr)      -- `self.base` is None
    else
      let h := write h s.buf (.buf (mkConv s.form g s.val))
      (write h s.data (.dict (insert "form" (.form g) s.items)), .ok ())

def setForm (h : Heap) (a : Nat) (name : String) : Res Unit :=
  match resolveForm name with
  | none => (h, .error .unknownForm)
  | some g => setFormTo h a g

/-- the state-vector part of the frame setter (everything before the covariance is looked at);
`fr` is the resolved Frame -/
def setFrameBasic (h : Heap) (a : Nat) (fr : Fr) : Res Unit :=
  match getSV h a with
  | none => (h, .error .bad)
  | some s =>
    if s.owned then (h, .error .attr)   -- unpickled: Frame objects differ by identity, `self.form = …` needs `self.base`
    else if fr = s.frame then (h, .ok ())
    else
      let v1 := mkConv s.form "cartesian" s.val
      match s.frame, fr with
      | .reg x, .reg y =>
        let h := write h s.buf (.buf (mkConv "cartesian" s.form (.xform x y v1)))
        (write h s.data (.dict (insert "frame" (.frame fr) s.items)), .ok ())
      | .hill, _ => (write h s.buf (.buf (mkConv "cartesian" s.form v1)), .error .runtime)
      | _, .hill => (write h s.buf (.buf (mkConv "cartesian" s.form v1)), .error .value)
      | _, _ => (h, .error .bad)

/-- `Cov.frame = fr` (resolved) on the covariance object at `c` -/
def covSetFrame (h : Heap) (c : Nat) (fr : Fr) : Res Unit :=
  match h[c]? with
  | some (.cov true cv cfr orb ofr) =>
    if fr = cfr then (h, .ok ())
    else if fr = .hill then (h, .error .value)
    else if cfr = .hill ∧ ¬ (ofr = .hill ∧ (fr = .tnw ∨ fr = .qsw)) then (h, .error .attr)  -- `"QSW".convert_to`
    else if ofr = .hill ∧ fr.isReg = true then (h, .error .attr)      -- idem, parent frame → target
    else
      match getSV h orb with
      | none => (h, .error .bad)
      | some o =>
        let h := write h c (.cov true (.covx cfr fr ofr o.frame o.val cv) fr orb ofr)
        match fr with
        | .reg _ => setFrameBasic h orb fr
        | _ => (h, .ok ())
  | some (.cov false _ _ _ _) => (h, .error .attr)
  | _ => (h, .error .bad)

/-- `sv.frame = name` -/
def setFrame (h : Heap) (a : Nat) (name : String) : Res Unit :=
  match resolveFrame name with
  | none => (h, .error .unknownFrame)
  | some fr =>
    match getSV h a with
    | none => (h, .error .bad)
    | some s =>
      match setFrameBasic h a fr with
      | (h, .error e) => (h, .error e)
      | (h, .ok ()) =>
        match lookup "cov" s.items with
        | some (.addr c) =>
          match h[c]? with
          | some (.cov true _ cfr _ _) => if cfr = s.frame then covSetFrame h c fr else (h, .ok ())
          | some (.cov false _ _ _ _) => (h, .error .attr)
          | _ => (h, .error .bad)
        | _ => (h, .ok ())

/-- `sv.cov.frame = name` (`TNW` / `QSW` are kept as they are, anything else goes through `get_frame`) -/
def covFrame (h : Heap) (a : Nat) (name : String) : Res Unit :=
  match getSV h a with
  | none => (h, .error .bad)
  | some s =>
    match lookup "cov" s.items with
    | some (.addr c) =>
      match h[c]? with
      | some (.cov false _ _ _ _) => (h, .error .attr)
      | _ =>
        let fr := if name = "TNW" then some Fr.tnw else if name = "QSW" then some Fr.qsw else resolveFrame name
        match fr with
        | none => (h, .error .unknownFrame)
        | some fr => covSetFrame h c fr
    | _ => (h, .error .attr)    -- `None.frame = …`

/-- `setattr(sv, name, x)` / `sv[name] = x` for a name that is not a property -/
def setAttr (h : Heap) (a : Nat) (name : String) (x : Nat) : Res Unit :=
  match getSV h a with
  | none => (h, .error .bad)
  | some s =>
    if FormTables.propertyNames.contains name then (h, .error .bad)
    else match access s.form name with
      | .slot i => (write h s.buf (.buf (.set s.form i x s.val)), .ok ())
      | .foreign => (h, .error .attr)
      | .free => (write h s.data (.dict (insert name (.tok x) s.items)), .ok ())

/-- `sv[i] = x` -/
def setIdx (h : Heap) (a : Nat) (i x : Nat) : Res Unit :=
  match getSV h a with
  | none => (h, .error .bad)
  | some s => if i < 6 then (write h s.buf (.buf (.set s.form i x s.val)), .ok ()) else (h, .error .bad)

/-! ### copies -/

/-- the loop `new_compl[k] = v.copy() if hasattr(v, "copy") else v` -/
def copyItems (cp : Heap → Ref → Res Ref) (h : Heap) : Items → Res Items
  | [] => (h, .ok [])
  | (k, v) :: rest =>
    match cp h v with
    | (h, .error e) => (h, .error e)
    | (h, .ok v') =>
      match copyItems cp h rest with
      | (h, .error e) => (h, .error e)
      | (h, .ok rest') => (h, .ok ((k, v') :: rest'))

/-- `StateVector.copy()` given the way first-level values are copied -/
def copySVWith (cp : Heap → Ref → Res Ref) (h : Heap) (a : Nat) : Res Nat :=
  match getSV h a with
  | none => (h, .error .bad)
  | some s =>
    match copyItems cp h s.items with
    | (h, .error e) => (h, .error e)
    | (h, .ok items') =>
      if s.owned then (h, .error .typeErr)      -- `self.__class__(self.base, …)`: len(None)
      else
        let (h, b) := alloc h (.buf s.val)
        let (h, d) := alloc h (.dict items')
        let (h, n) := alloc h (.sv s.orbit false b d)
        (h, .ok n)

/-- `v.copy() if hasattr(v, "copy") else v` -/
def copyRef : Nat → Heap → Ref → Res Ref
  | 0, h, _ => (h, .error .bad)
  | fuel + 1, h, r =>
    match r with
    | .addr a =>
      match h[a]? with
      | some (.list items) => let (h, n) := alloc h (.list items); (h, .ok (.addr n))
      | some (.dict items) => let (h, n) := alloc h (.dict items); (h, .ok (.addr n))
      | some (.arr t) => let (h, n) := alloc h (.arr t); (h, .ok (.addr n))
      | some (.prop t) => let (h, n) := alloc h (.prop t); (h, .ok (.addr n))
      | some (.man _) => (h, .ok r)                      -- maneuver objects have no `copy`
      | some (.cov false _ _ _ _) => (h, .error .attr)
      | some (.cov true cv cfr orb _) =>
        -- Cov.copy(): Cov(self.orb, self.base, frame=self.frame); the `orb` setter stores
        -- `orb.copy(form="cartesian")` with its covariance removed; `_orb_frame = orb.frame`
        match getSV h orb with
        | none => (h, .error .bad)
        | some o =>
          match copySVWith (copyRef fuel) h orb with
          | (h, .error e) => (h, .error e)
          | (h, .ok o') =>
            match getSV h o' with
            | none => (h, .error .bad)
            | some s' =>
              let h := write h s'.buf (.buf (mkConv s'.form "cartesian" s'.val))
              let h := write h s'.data (.dict (insert "cov" .none (insert "form" (.form "cartesian") s'.items)))
              let (h, n) := alloc h (.cov true cv cfr o' o.frame)
              (h, .ok (.addr n))
      | some (.sv _ _ _ _) =>
        match copySVWith (copyRef fuel) h a with
        | (h, .error e) => (h, .error e)
        | (h, .ok n) => (h, .ok (.addr n))
      | _ => (h, .error .bad)
    | _ => (h, .ok r)

def copyFuel : Nat := 4

def copySV (h : Heap) (a : Nat) : Res Nat := copySVWith (copyRef copyFuel) h a

/-- `sv.copy(form=name)`: the setter runs on the new object (a string never equals a Form object) -/
def copyForm (h : Heap) (a : Nat) (name : String) : Res Nat :=
  match copySV h a with
  | (h, .error e) => (h, .error e)
  | (h, .ok n) =>
    match setForm h n name with
    | (h, .error e) => (h, .error e)
    | (h, .ok ()) => (h, .ok n)

def copyFrame (h : Heap) (a : Nat) (name : String) : Res Nat :=
  match copySV h a with
  | (h, .error e) => (h, .error e)
  | (h, .ok n) =>
    match setFrame h n name with
    | (h, .error e) => (h, .error e)
    | (h, .ok ()) => (h, .ok n)

/-- `sv.as_orbit(p)`: `Orbit(self.base, **{**self._data, "propagator": p})`; `p` is the address of the propagator -/
def asOrbit (h : Heap) (a p : Nat) : Res Nat :=
  match getSV h a with
  | none => (h, .error .bad)
  | some s =>
    if s.owned then (h, .error .typeErr)
    else
      let (h, b) := alloc h (.buf s.val)
      let (h, d) := alloc h (.dict (insert "propagator" (.addr p) s.items))
      let (h, n) := alloc h (.sv true false b d)
      (h, .ok n)

/-- `orbit.as_statevector()` -/
def asSV (h : Heap) (a : Nat) : Res Nat :=
  match getSV h a with
  | none => (h, .error .bad)
  | some s =>
    if !s.orbit then (h, .error .attr)
    else if s.owned then (h, .error .typeErr)
    else
      let (h, b) := alloc h (.buf s.val)
      let (h, d) := alloc h (.dict (erase "propagator" s.items))
      let (h, n) := alloc h (.sv false false b d)
      (h, .ok n)

/-- `sv.cov = Cov(sv, <values k>, sv.frame)` -/
def setCov (h : Heap) (a : Nat) (k : Nat) : Res Unit :=
  match getSV h a with
  | none => (h, .error .bad)
  | some s =>
    match copySV h a with
    | (h, .error e) => (h, .error e)
    | (h, .ok o) =>
      match getSV h o with
      | none => (h, .error .bad)
      | some s' =>
        let h := write h s'.buf (.buf (mkConv s'.form "cartesian" s'.val))
        let h := write h s'.data (.dict (insert "cov" .none (insert "form" (.form "cartesian") s'.items)))
        let (h, c) := alloc h (.cov true (.init k) s.frame o s.frame)
        (write h s.data (.dict (insert "cov" (.addr c) s.items)), .ok ())

/-- `sv.maneuvers.append(<maneuver t>)` (the getter creates the list when it is missing) -/
def addMan (h : Heap) (a : Nat) (t : Nat) : Res Unit :=
  match getSV h a with
  | none => (h, .error .bad)
  | some s =>
    let (h, m) := alloc h (.man t)
    match lookup "maneuvers" s.items with
    | some (.addr l) =>
      match h[l]? with
      | some (.list ms) => (write h l (.list (ms ++ [.addr m])), .ok ())
      | _ => (h, .error .bad)
    | _ =>
      let (h, l) := alloc h (.list [.addr m])
      (write h s.data (.dict (insert "maneuvers" (.addr l) s.items)), .ok ())

/-! ### pickle round trip: a deep copy that preserves sharing (pickle's memo); arrays come back
owning their memory and a Cov comes back without its `__dict__` -/

abbrev Memo := List (Nat × Nat)

def deepRef : Nat → Heap → Memo → Ref → Heap × Memo × Option Ref
  | 0, h, m, _ => (h, m, none)
  | fuel + 1, h, m, r =>
    match r with
    | .addr a =>
      match m.lookup a with
      | some a' => (h, m, some (.addr a'))
      | none =>
        let refs (h : Heap) (m : Memo) (rs : List Ref) : Heap × Memo × Option (List Ref) :=
          rs.foldl (fun (acc : Heap × Memo × Option (List Ref)) r =>
            match acc with
            | (h, m, none) => (h, m, none)
            | (h, m, some out) =>
              match deepRef fuel h m r with
              | (h, m, some r') => (h, m, some (out ++ [r']))
              | (h, m, none) => (h, m, none)) (h, m, some [])
        match h[a]? with
        | some (.buf v) => let (h, n) := alloc h (.buf v); (h, (a, n) :: m, some (.addr n))
        | some (.arr t) => let (h, n) := alloc h (.arr t); (h, (a, n) :: m, some (.addr n))
        | some (.man t) => let (h, n) := alloc h (.man t); (h, (a, n) :: m, some (.addr n))
        | some (.prop t) => let (h, n) := alloc h (.prop t); (h, (a, n) :: m, some (.addr n))
        | some (.cov _ v fr _ ofr) => let (h, n) := alloc h (.cov false v fr 0 ofr); (h, (a, n) :: m, some (.addr n))
        | some (.list items) =>
          let (h, n) := alloc h (.list [])
          match refs h ((a, n) :: m) items with
          | (h, m, some items') => (write h n (.list items'), m, some (.addr n))
          | (h, m, none) => (h, m, none)
        | some (.dict items) =>
          let (h, n) := alloc h (.dict [])
          match refs h ((a, n) :: m) (items.map (·.2)) with
          | (h, m, some vs) => (write h n (.dict ((items.map (·.1)).zip vs)), m, some (.addr n))
          | (h, m, none) => (h, m, none)
        | some (.sv o _ b d) =>
          let (h, n) := alloc h (.sv o true 0 0)
          match refs h ((a, n) :: m) [.addr b, .addr d] with
          | (h, m, some [.addr b', .addr d']) => (write h n (.sv o true b' d'), m, some (.addr n))
          | (h, m, _) => (h, m, none)
        | none => (h, m, none)
    | _ => (h, m, some r)

def pickleFuel : Nat := 12

/-- `pickle.loads(pickle.dumps(sv))` -/
def pickle (h : Heap) (a : Nat) : Res Nat :=
  match deepRef pickleFuel h [] (.addr a) with
  | (h, _, some (.addr n)) => (h, .ok n)
  | (h, _, _) => (h, .error .bad)

end BeyondVerif.Heap
