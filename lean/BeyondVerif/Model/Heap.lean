import BeyondVerif.Generated.HeapTables
/-!
Object-graph ("heap") model of `beyond.orbits.statevector.StateVector`, `orbit.Orbit`, `cov.Cov`.

A heap is a list of cells; an address is an index; allocation appends.  Cells: the ndarray
buffer of a state vector, its `_data` dict, metadata containers (list / dict / ndarray), maneuver
objects, propagators, covariance objects (their 6x6 buffer is a cell of its own, so that "two
covariances live in the same memory" is expressible; their `_data` dict is created afresh by
`Cov.__new__` and is kept inside the cell) and the StateVector / Orbit objects themselves.

Coordinate values are *symbolic*: `Val` records which initial vector they come from and which
form conversions, frame transformations and element assignments were applied, in order.  The
harness evaluates such a term with the pure conversion functions of the library and compares
bit for bit with what the stateful object holds.

No Mathlib import: this file is linked into the line-protocol driver.
-/
namespace BeyondVerif.Heap
open BeyondVerif.Generated

/-- frames: a built-in Earth-centred frame (by `Frame.name`), the Hill frame, the two local
orientations a covariance may be expressed in -/
inductive Fr
  /-- `gen = 0`: the registry object `get_frame` returns; otherwise a clone made by pickle / deepcopy
  (Frame objects compare by identity), identified by the address of a marker cell -/
  | reg (name : String) (gen : Nat)
  | hill (gen : Nat)
  | tnw
  | qsw
deriving DecidableEq, Repr

def Fr.isHill : Fr → Bool
  | .hill _ => true
  | _ => false

def Fr.isLocal : Fr → Bool
  | .tnw => true
  | .qsw => true
  | _ => false

/-- symbolic content of a coordinate / covariance buffer -/
inductive Val
  | init (k : Nat)
  | conv (f g : String) (v : Val)            -- `Form.__call__`: form f → form g
  | xform (a b : String) (v : Val)           -- `Frame.transform` on cartesian values, frame a → b
  | set (form : String) (i x : Nat) (v : Val) -- element i := value token x (object then in form `form`)
  | covx (cur tgt orbFrame orbFr : Fr) (orbV : Val) (v : Val)  -- `Cov.frame` setter
deriving DecidableEq, Repr

inductive Ref
  | tok (n : Nat)          -- immutable value (str, number, Date …)
  | none
  | form (name : String)   -- a Form object (module singleton)
  | frame (f : Fr)         -- a Frame object (registry singleton)
  | addr (a : Nat)         -- a mutable object
  /-- an `Infos` helper object (created by the `infos` getter, kept in `_data`): `owner` is the state vector its `orb` attribute is
  bound to, `gen` the address of the marker cell allocated at its creation (its identity). A WEAK reference: it is not
  followed by `refsOf`, so the separation theorems do not speak about it — what the getter hands out has its own theorem -/
  | infos (owner gen : Nat)
deriving DecidableEq, Repr

inductive Cell
  | buf (v : Val)
  | arr (t : Nat)
  | dict (items : List (String × Ref))
  | list (items : List Ref)
  | man (t : Nat)
  | prop (t : Nat)
  | sv (orbit : Bool) (buf data : Nat)
  /-- `buf`: address of the 6x6 buffer (a `.buf` cell); `orb`: the private cartesian copy of the owning state -/
  | cov (buf : Nat) (frame : Fr) (orb : Nat) (orbFrame : Fr)
  /-- marker allocated when a Frame object is cloned (its address is the clone's identity) -/
  | clone
deriving DecidableEq, Repr

inductive Err
  | unknownForm | unknownFrame | runtime | value | typeErr | attr
  | eop     -- `EopError`: a date without Earth-orientation data under the 'error' policy
  | index   -- `IndexError`
  | bad     -- malformed heap / unsupported request (never produced on well-formed input)
deriving DecidableEq, Repr

abbrev Heap := List Cell
abbrev Res (α : Type) := Heap × Except Err α

def alloc (h : Heap) (c : Cell) : Heap × Nat := (h ++ [c], h.length)
def write (h : Heap) (a : Nat) (c : Cell) : Heap := h.set a c

/-! ### dict helpers (`_data`) -/
abbrev Items := List (String × Ref)

def lookup (k : String) : Items → Option Ref
  | [] => none
  | (k', v) :: rest => if k' = k then some v else lookup k rest

/-- `d[k] = v`: in place when the key exists, appended otherwise -/
def insert (k : String) (v : Ref) : Items → Items
  | [] => [(k, v)]
  | (k', v') :: rest => if k' = k then (k, v) :: rest else (k', v') :: insert k v rest

def erase (k : String) : Items → Items
  | [] => []
  | (k', v') :: rest => if k' = k then rest else (k', v') :: erase k rest

def formOf (items : Items) : Option String :=
  match lookup "form" items with
  | some (.form f) => some f
  | _ => none

def frameOf (items : Items) : Option Fr :=
  match lookup "frame" items with
  | some (.frame f) => some f
  | _ => none

/-! ### name tables -/

/-- `get_form`: lower-cased key of `forms._cache` -/
def resolveForm (name : String) : Option String := FormTables.formKeys.lookup name

/-- `get_frame` on the built-in registry -/
def resolveFrame (name : String) : Option Fr :=
  match FormTables.frameKeys.lookup name with
  | some n => some (.reg n 0)
  | none => if FormTables.hillKeys.contains name then some (.hill 0) else none

def namesOf (form : String) : List String := (FormTables.paramNames.lookup form).getD []

inductive Access
  | slot (i : Nat)   -- an element of the current form
  | foreign          -- an element name of another form: AttributeError / KeyError
  | free             -- a free metadata key
deriving DecidableEq, Repr

/-- `StateVector.__getattr__` / `__setattr__` name resolution (after the property check) -/
def access (form name : String) : Access :=
  let n := (FormTables.alt.lookup name).getD name
  let i := (namesOf form).idxOf n
  if i < (namesOf form).length then .slot i
  else if FormTables.cacheParamNames.contains n then .foreign
  else .free

/-! ### reading a state vector -/

structure SV where
  orbit : Bool
  buf : Nat
  data : Nat
  val : Val
  items : Items
  form : String
  frame : Fr

def getSV (h : Heap) (a : Nat) : Option SV :=
  match h[a]? with
  | some (.sv o b d) =>
    match h[b]?, h[d]? with
    | some (.buf v), some (.dict items) =>
      match formOf items, frameOf items with
      | some f, some fr => some ⟨o, b, d, v, items, f, fr⟩
      | _, _ => none
    | _, _ => none
  | _ => none

def mkConv (f g : String) (v : Val) : Val := if f = g then v else .conv f g v

/-! ### setters -/

/-- `sv.form = g` with `g` already a Form name: `self.view(ndarray)[:] = self._data["form"](self, g); self._data["form"] = g` -/
def setFormTo (h : Heap) (a : Nat) (g : String) : Res Unit :=
  match getSV h a with
  | none => (h, .error .bad)
  | some s =>
    let h := write h s.buf (.buf (mkConv s.form g s.val))
    (write h s.data (.dict (insert "form" (.form g) s.items)), .ok ())

def setForm (h : Heap) (a : Nat) (name : String) : Res Unit :=
  match resolveForm name with
  | none => (h, .error .unknownForm)
  | some g => setFormTo h a g

/-! #### the form setter as the source has it: the order of its effects is read from the AST of `StateVector.form.fset` on
every run (`Generated.FormTables.formSetterSteps`) and interpreted here -/

/-- `convert`: `self._data["form"](self, new_form)` — `Form.__call__` walks the route on a COPY and may raise on any leg;
`store`: the converted values are written into the object's buffer; `commit`: `self._data["form"] = new_form` -/
inductive FStep
  | convert | store | commit
deriving DecidableEq, Repr

def FStep.ofString : String → Option FStep
  | "convert" => some .convert
  | "store" => some .store
  | "commit" => some .commit
  | _ => none

/-- the extracted order (an unknown effect name leaves the list shorter: the theorems about it then no longer check) -/
def formSteps : List FStep := FormTables.formSetterSteps.filterMap FStep.ofString

/-- interpret the effects in order on the state vector `s` read on entry; `ferr k`: does the k-th conversion raise
(a leg that needs the mu of a centre without body, a degenerate state with numpy told to raise, …) -/
def runFormSteps : List FStep → Heap → SV → String → (Nat → Option Err) → Option Val → Nat → Res Unit
  | [], h, _, _, _, _, _ => (h, .ok ())
  | .convert :: rest, h, s, g, ferr, _, k =>
    match ferr k with
    | some e => (h, .error e)
    | none => runFormSteps rest h s g ferr (some (mkConv s.form g s.val)) (k + 1)
  | .store :: rest, h, s, g, ferr, p, k =>
    match p with
    | some v => runFormSteps rest (write h s.buf (.buf v)) s g ferr p k
    | none => (h, .error .bad)
  | .commit :: rest, h, s, g, ferr, p, k =>
    runFormSteps rest (write h s.data (.dict (insert "form" (.form g) s.items))) s g ferr p k

def noFail : Nat → Option Err := fun _ => none

/-- `sv.form = name`, effects in source order, conversions failing as `ferr` says -/
def setFormX (h : Heap) (a : Nat) (name : String) (ferr : Nat → Option Err := noFail) : Res Unit :=
  match resolveForm name with
  | none => (h, .error .unknownForm)
  | some g =>
    match getSV h a with
    | none => (h, .error .bad)
    | some s => runFormSteps formSteps h s g ferr none 0

/-- the order that makes a failing form change atomic: the (one) conversion first, every write after it -/
def atomicOrder : List FStep → Bool
  | .convert :: rest => rest.all (· != .convert)
  | _ => false

/-- the environment: which rotations / offsets between two frames (given by name) raise, and with what — the centre of
the target frame cannot be reached; no Earth-orientation data for the date under the 'error' policy (which rotations
need them depends on what the Date object has cached, so this is an input of the model, not computed by it) -/
abbrev Env := String → String → Option Err

/-- nothing fails (the default configuration: missing Earth-orientation data are replaced by zeros) -/
def noEnv : Env := fun _ _ => none

/-- the state-vector part of the frame setter (everything before the covariance is looked at);
`fr` is the resolved Frame. When the environment makes `Frame.transform` raise, the `finally` clause
converts the elements back, like in the Hill cases -/
def setFrameBasic (h : Heap) (a : Nat) (fr : Fr) (env : Env := noEnv) : Res Unit :=
  match getSV h a with
  | none => (h, .error .bad)
  | some s =>
    if fr = s.frame then (h, .ok ())       -- identity of Frame objects
    else
      let v1 := mkConv s.form "cartesian" s.val
      match s.frame, fr with
      | .reg x _, .reg y _ =>
        match (if x = y then none else env x y) with     -- a clone of the same frame: no rotation, no offset to compute
        | some e => (write h s.buf (.buf (mkConv "cartesian" s.form v1)), .error e)
        | none =>
          let h := write h s.buf (.buf (mkConv "cartesian" s.form (.xform x y v1)))
          (write h s.data (.dict (insert "frame" (.frame fr) s.items)), .ok ())
      | .hill _, _ => (write h s.buf (.buf (mkConv "cartesian" s.form v1)), .error .runtime)
      | _, .hill _ => (write h s.buf (.buf (mkConv "cartesian" s.form v1)), .error .value)
      | _, _ => (h, .error .bad)

/-- which error the rotation matrices of `Cov.frame = fr` run into (Hill's orientation is the string "QSW") -/
def covRotError (cfr fr ofr : Fr) : Option Err :=
  let m1 : Option Err :=
    if cfr.isLocal then none
    else if cfr ≠ ofr then (if cfr.isHill then some .attr else if ofr.isHill then some .value else none)
    else none
  match m1 with
  | some e => some e
  | none =>
    if fr.isLocal then none
    else if ofr ≠ fr then (if ofr.isHill then some .attr else if fr.isHill then some .value else none)
    else none

/-- the rotation between two frames the covariance setter asks for: does the environment make it raise?
Local orientations (`to_local`) and clones of the same frame need no date-dependent rotation -/
def rotErr (env : Env) (a b : Fr) : Option Err :=
  match a, b with
  | .reg x _, .reg y _ => if x = y then none else env x y
  | _, _ => none

/-- `Cov.frame = fr`: first the rotation current → parent frame, then parent → target -/
def covEnvError (env : Env) (cfr fr ofr : Fr) : Option Err :=
  match rotErr env cfr ofr with
  | some e => some e
  | none => rotErr env ofr fr

/-- `Cov.frame = fr` (resolved) on the covariance object at `c`: the covariance's own buffer and its frame label
are rewritten, nothing else (`self.view(np.ndarray)[:] = cov; self._data["frame"] = frame`).
`env`: the rotations the environment makes raise (see `setFrameBasic`) -/
def covSetFrame (h : Heap) (c : Nat) (fr : Fr) (env : Env := noEnv) : Res Unit :=
  match h[c]? with
  | some (.cov b cfr orb ofr) =>
    if fr = cfr then (h, .ok ())
    else match (match covRotError cfr fr ofr with
                | some e => some e
                | none => covEnvError env cfr fr ofr) with
      | some e => (h, .error e)
      | none =>
        match getSV h orb, h[b]? with
        | some o, some (.buf cv) =>
          let h := write h b (.buf (.covx cfr fr ofr o.frame o.val cv))
          (write h c (.cov b fr orb ofr), .ok ())
        | _, _ => (h, .error .bad)
  | _ => (h, .error .bad)

/-- the `except` clause of the frame setter (/repo 45ca5d0): the covariance could not follow — the coordinates saved on
entry (`old_coord = np.array(self)`, bit for bit) are written back and `_data["frame"]` is set to the previous Frame -/
def restoreSV (h : Heap) (s : SV) : Heap :=
  let h := write h s.buf (.buf s.val)
  match h[s.data]? with
  | some (.dict items) => write h s.data (.dict (insert "frame" (.frame s.frame) items))
  | _ => h

/-- `sv.frame = <Frame object fr>` -/
def setFrameTo (h : Heap) (a : Nat) (fr : Fr) (env : Env := noEnv) : Res Unit :=
  match getSV h a with
  | none => (h, .error .bad)
  | some s =>
    match setFrameBasic h a fr env with
    | (h, .error e) => (h, .error e)
    | (h, .ok ()) =>
      match lookup "cov" s.items with
      | some (.addr c) =>
        match h[c]? with
        | some (.cov _ cfr _ _) =>
          if cfr = s.frame then
            match covSetFrame h c fr env with
            | (h, .error e) => (restoreSV h s, .error e)
            | (h, .ok ()) => (h, .ok ())
          else (h, .ok ())
        | _ => (restoreSV h s, .error .bad)
      | _ => (h, .ok ())

/-- `sv.frame = name` -/
def setFrame (h : Heap) (a : Nat) (name : String) (env : Env := noEnv) : Res Unit :=
  match resolveFrame name with
  | none => (h, .error .unknownFrame)
  | some fr => setFrameTo h a fr env

/-- `sv.cov.frame = name` (`TNW` / `QSW` are kept as they are, anything else goes through `get_frame`) -/
def covFrame (h : Heap) (a : Nat) (name : String) : Res Unit :=
  match getSV h a with
  | none => (h, .error .bad)
  | some s =>
    match lookup "cov" s.items with
    | some (.addr c) =>
      let fr := if name = "TNW" then some Fr.tnw else if name = "QSW" then some Fr.qsw else resolveFrame name
      match fr with
      | none => (h, .error .unknownFrame)
      | some fr => covSetFrame h c fr
    | _ => (h, .error .attr)    -- `None.frame = …`

/-- `setattr(sv, name, x)` / `sv[name] = x` for a name that is not a property -/
def setAttr (h : Heap) (a : Nat) (name : String) (x : Nat) : Res Unit :=
  match getSV h a with
  | none => (h, .error .bad)
  | some s =>
    if FormTables.propertyNames.contains name then (h, .error .bad)
    else match access s.form name with
      | .slot i => (write h s.buf (.buf (.set s.form i x s.val)), .ok ())
      | .foreign => (h, .error .attr)
      | .free => (write h s.data (.dict (insert name (.tok x) s.items)), .ok ())

/-- `sv[i] = x` -/
def setIdx (h : Heap) (a : Nat) (i x : Nat) : Res Unit :=
  match getSV h a with
  | none => (h, .error .bad)
  | some s => if i < 6 then (write h s.buf (.buf (.set s.form i x s.val)), .ok ()) else (h, .error .bad)

/-! ### deep copies (`copy.deepcopy` of a metadata container, `pickle` round trip): every reachable
object is duplicated, sharing inside the copied graph is preserved (memo), Frame objects are cloned -/

abbrev Memo := List (Nat × Nat)

structure DState where
  h : Heap
  m : Memo := []
  fm : List (Fr × Fr) := []

def cloneOf (f : Fr) (g : Nat) : Fr :=
  match f with
  | .reg n _ => .reg n g
  | .hill _ => .hill g
  | x => x

def cloneFr (st : DState) (f : Fr) : DState × Fr :=
  if f.isLocal then (st, f)     -- the strings "TNW" / "QSW"
  else match st.fm.lookup f with
    | some f' => (st, f')
    | none => ({ st with h := st.h ++ [.clone], fm := (f, cloneOf f st.h.length) :: st.fm }, cloneOf f st.h.length)

/-- map a function with state over a list, stopping at the first failure -/
def deepList (f : DState → Ref → DState × Option Ref) (st : DState) : List Ref → DState × Option (List Ref)
  | [] => (st, some [])
  | r :: rest =>
    match f st r with
    | (st, none) => (st, none)
    | (st, some r') =>
      match deepList f st rest with
      | (st, none) => (st, none)
      | (st, some rest') => (st, some (r' :: rest'))

/-- the copy of the object at `a` is allocated first, at `st.h.length`, as a placeholder without references,
and entered in the memo (as `copy.deepcopy` / pickle do) -/
def placeholder (st : DState) (a : Nat) : DState := { st with h := st.h ++ [.arr 0], m := (a, st.h.length) :: st.m }

def finish (st : DState) (n : Nat) (c : Cell) : DState := { st with h := write st.h n c }

def deepRef : Nat → DState → Ref → DState × Option Ref
  | 0, st, _ => (st, none)
  | fuel + 1, st, r =>
    match r with
    | .frame f => ((cloneFr st f).1, some (.frame (cloneFr st f).2))
    | .infos o g =>
      -- pickle / deepcopy duplicate the helper together with the object it is bound to (memo): the duplicate is bound to the duplicate
      -- the helper itself goes through the memo (keyed by its marker cell): the object it is bound to usually holds it too
      match st.m.lookup g with
      | some g' =>
        match deepRef fuel st (.addr o) with
        | (st2, some (.addr o')) => (st2, some (.infos o' g'))
        | (st2, _) => (st2, none)
      | none =>
        match deepRef fuel { st with h := st.h ++ [.clone], m := (g, st.h.length) :: st.m } (.addr o) with
        | (st2, some (.addr o')) => (st2, some (.infos o' st.h.length))
        | (st2, _) => (st2, none)
    | .addr a =>
      match st.m.lookup a with
      | some a' => (st, some (.addr a'))
      | none =>
        let n := st.h.length
        let st1 := placeholder st a
        match st.h[a]? with
        | some (.buf v) => (finish st1 n (.buf v), some (.addr n))
        | some (.arr t) => (finish st1 n (.arr t), some (.addr n))
        | some (.man t) => (finish st1 n (.man t), some (.addr n))
        | some (.prop t) => (finish st1 n (.prop t), some (.addr n))
        | some (.list items) =>
          match deepList (deepRef fuel) st1 items with
          | (st2, some items') => (finish st2 n (.list items'), some (.addr n))
          | (st2, none) => (st2, none)
        | some (.dict items) =>
          match deepList (deepRef fuel) st1 (items.map (·.2)) with
          | (st2, some vs) => (finish st2 n (.dict ((items.map (·.1)).zip vs)), some (.addr n))
          | (st2, none) => (st2, none)
        | some (.sv o b d) =>
          match deepList (deepRef fuel) st1 [.addr b, .addr d] with
          | (st2, some rs) =>
            match rs with
            | [.addr b', .addr d'] => (finish st2 n (.sv o b' d'), some (.addr n))
            | _ => (st2, none)
          | (st2, none) => (st2, none)
        | some (.cov b fr orb ofr) =>
          let c1 := cloneFr st1 fr
          let c2 := cloneFr c1.1 ofr
          match deepList (deepRef fuel) c2.1 [.addr b, .addr orb] with
          | (st2, some rs) =>
            match rs with
            | [.addr b', .addr orb'] => (finish st2 n (.cov b' c1.2 orb' c2.2), some (.addr n))
            | _ => (st2, none)
          | (st2, none) => (st2, none)
        | _ => (st1, none)
    | _ => (st, some r)

def deepFuel : Nat := 12

/-- `pickle.loads(pickle.dumps(sv))` -/
def pickle (h : Heap) (a : Nat) : Res Nat :=
  match deepRef deepFuel { h := h } (.addr a) with
  | (st, some r) =>
    match r with
    | .addr n => (st.h, .ok n)
    | _ => (st.h, .error .bad)
  | (st, none) => (st.h, .error .bad)

/-- `copy.deepcopy(v)` of one metadata value -/
def deepVal (h : Heap) (r : Ref) : Res Ref :=
  match deepRef deepFuel { h := h } r with
  | (st, some r') => (st.h, .ok r')
  | (st, none) => (st.h, .error .bad)

/-! ### copies -/

/-- the loop over `self._data.items()` in `copy()` -/
def copyItems (cp : Heap → String → Ref → Res Ref) (h : Heap) : Items → Res Items
  | [] => (h, .ok [])
  | (k, v) :: rest =>
    if k = "infos" then copyItems cp h rest      -- /repo a12f060: the helper bound to self is not handed over
    else
    match cp h k v with
    | (h, .error e) => (h, .error e)
    | (h, .ok v') =>
      match copyItems cp h rest with
      | (h, .error e) => (h, .error e)
      | (h, .ok rest') => (h, .ok ((k, v') :: rest'))

/-- `StateVector.copy()` given the way first-level values are copied:
`self.__class__(np.array(self), **new_compl)` -/
def copySVWith (cp : Heap → String → Ref → Res Ref) (h : Heap) (a : Nat) : Res Nat :=
  match getSV h a with
  | none => (h, .error .bad)
  | some s =>
    match copyItems cp h s.items with
    | (h, .error e) => (h, .error e)
    | (h, .ok items') =>
      let (h, b) := alloc h (.buf s.val)
      let (h, d) := alloc h (.dict items')
      let (h, n) := alloc h (.sv s.orbit b d)
      (h, .ok n)

/-- is the value a list / dict (tuple, set) — what `copy()` hands to `deepcopy` unless the key is `maneuvers` -/
def isContainer (h : Heap) (r : Ref) : Bool :=
  match r with
  | .addr a => match h[a]? with
    | some (.list _) => true
    | some (.dict _) => true
    | _ => false
  | _ => false

/-- one entry of `_data`: `deepcopy(v)` for a free metadata container, else `v.copy() if hasattr(v, "copy") else v` -/
def copyRef : Nat → Heap → String → Ref → Res Ref
  | 0, h, _, _ => (h, .error .bad)
  | fuel + 1, h, k, r =>
    if k ≠ "maneuvers" ∧ isContainer h r = true then deepVal h r
    else
    match r with
    | .addr a =>
      match h[a]? with
      | some (.list items) => let (h, n) := alloc h (.list items); (h, .ok (.addr n))   -- the maneuver list: `list.copy()`
      | some (.dict items) => let (h, n) := alloc h (.dict items); (h, .ok (.addr n))
      | some (.arr t) => let (h, n) := alloc h (.arr t); (h, .ok (.addr n))
      | some (.prop t) => let (h, n) := alloc h (.prop t); (h, .ok (.addr n))
      | some (.man _) => (h, .ok r)                      -- maneuver objects have no `copy`
      | some (.cov cb cfr orb _) =>
        -- Cov.copy(): Cov(self.orb, np.array(self), frame=self.frame): the values go into a NEW buffer; the `orb`
        -- setter stores `orb.copy(form="cartesian")` with its covariance removed; `_orb_frame = orb.frame`
        match getSV h orb, h[cb]? with
        | some o, some (.buf cv) =>
          match copySVWith (copyRef fuel) h orb with
          | (h, .error e) => (h, .error e)
          | (h, .ok o') =>
            match getSV h o' with
            | none => (h, .error .bad)
            | some s' =>
              let h := write h s'.buf (.buf (mkConv s'.form "cartesian" s'.val))
              let h := write h s'.data (.dict (insert "cov" .none (insert "form" (.form "cartesian") s'.items)))
              let (h, nb) := alloc h (.buf cv)
              let (h, n) := alloc h (.cov nb cfr o' o.frame)
              (h, .ok (.addr n))
        | _, _ => (h, .error .bad)
      | some (.sv _ _ _) =>
        match copySVWith (copyRef fuel) h a with
        | (h, .error e) => (h, .error e)
        | (h, .ok n) => (h, .ok (.addr n))
      | _ => (h, .error .bad)
    | _ => (h, .ok r)

def copyFuel : Nat := 4

def copySV (h : Heap) (a : Nat) : Res Nat := copySVWith (copyRef copyFuel) h a

/-- `sv.copy(form=name)`: the setter runs on the new object (a string never equals a Form object) -/
def copyForm (h : Heap) (a : Nat) (name : String) : Res Nat :=
  match copySV h a with
  | (h, .error e) => (h, .error e)
  | (h, .ok n) =>
    match setForm h n name with
    | (h, .error e) => (h, .error e)
    | (h, .ok ()) => (h, .ok n)

def copyFrame (h : Heap) (a : Nat) (name : String) : Res Nat :=
  match copySV h a with
  | (h, .error e) => (h, .error e)
  | (h, .ok n) =>
    match setFrame h n name with
    | (h, .error e) => (h, .error e)
    | (h, .ok ()) => (h, .ok n)

/-- `new = sv.frame.transform(sv, <Frame fr>)` called directly: `new_orb = orbit.copy(form="cartesian")`, the rotated and shifted
values are written into ITS buffer, `new_orb._frame = new_frame` (not a property of StateVector: lands in `_data` under the key
`_frame`; the `frame` entry keeps the old Frame), `new_orb.form = orbit.form` -/
def transformObj (h : Heap) (a : Nat) (fr : Fr) : Res Nat :=
  match getSV h a with
  | none => (h, .error .bad)
  | some s =>
    match s.frame with
    | .hill _ => (h, .error .runtime)          -- HillFrame.transform raises at once
    | .reg x _ =>
      match copyForm h a "cartesian" with
      | (h, .error e) => (h, .error e)
      | (h, .ok n) =>
        match fr, getSV h n with
        | .reg y _, some sn =>
          let h := write h sn.buf (.buf (.xform x y sn.val))
          let h := write h sn.data (.dict (insert "_frame" (.frame fr) sn.items))
          match setFormTo h n s.form with
          | (h, .ok ()) => (h, .ok n)
          | (h, .error e) => (h, .error e)
        | .hill _, _ => (h, .error .value)      -- orientation "QSW" is unknown to the rotation graph
        | _, _ => (h, .error .bad)
    | _ => (h, .error .bad)

/-- `sv.as_orbit(p)`: `Orbit(np.array(self), **{**StateVector.copy(self)._data, "propagator": p})`;
`p` is the address of the propagator -/
def asOrbit (h : Heap) (a p : Nat) : Res Nat :=
  match getSV h a with
  | none => (h, .error .bad)
  | some s =>
    match copySV h a with
    | (h, .error e) => (h, .error e)
    | (h, .ok c) =>
      match getSV h c with
      | none => (h, .error .bad)
      | some sc =>
        let (h, b) := alloc h (.buf s.val)
        let (h, d) := alloc h (.dict (insert "propagator" (.addr p) sc.items))
        let (h, n) := alloc h (.sv true b d)
        (h, .ok n)

/-- `orbit.as_statevector()`: `StateVector(np.array(self), **{self.copy()._data minus "propagator"})` -/
def asSV (h : Heap) (a : Nat) : Res Nat :=
  match getSV h a with
  | none => (h, .error .bad)
  | some s =>
    if !s.orbit then (h, .error .attr)
    else
      match copySV h a with
      | (h, .error e) => (h, .error e)
      | (h, .ok c) =>
        match getSV h c with
        | none => (h, .error .bad)
        | some sc =>
          let (h, b) := alloc h (.buf s.val)
          let (h, d) := alloc h (.dict (erase "propagator" sc.items))
          let (h, n) := alloc h (.sv false b d)
          (h, .ok n)

/-- `sv.cov = Cov(sv, <values cv>, <frame cfr>)`: `Cov.__new__` puts the values into a NEW buffer (`np.array(values)`),
labels it `cfr` without converting, stores a cartesian copy of the state without covariance as `orb` and the
state's frame as `_orb_frame`; the `cov` setter of the state stores the object (and refreshes `orb` the same way) -/
def attachCov (h : Heap) (a : Nat) (cv : Val) (cfr : Fr) : Res Unit :=
  match getSV h a with
  | none => (h, .error .bad)
  | some s =>
    match copySV h a with
    | (h, .error e) => (h, .error e)
    | (h, .ok o) =>
      match getSV h o with
      | none => (h, .error .bad)
      | some s' =>
        let h := write h s'.buf (.buf (mkConv s'.form "cartesian" s'.val))
        let h := write h s'.data (.dict (insert "cov" .none (insert "form" (.form "cartesian") s'.items)))
        let (h, nb) := alloc h (.buf cv)
        let (h, c) := alloc h (.cov nb cfr o s.frame)
        (write h s.data (.dict (insert "cov" (.addr c) s.items)), .ok ())

/-- `sv.cov = Cov(sv, <values k>, sv.frame)` (values given as a nested list / ndarray) -/
def setCov (h : Heap) (a : Nat) (k : Nat) : Res Unit :=
  match getSV h a with
  | none => (h, .error .bad)
  | some s => attachCov h a (.init k) s.frame

/-- `sv.cov = Cov(sv, src.cov, None)`: the constructor branch "values is a Cov" takes the values and the frame of the
source covariance. `src.cov is None` ends in `np.array(None)`, whose error message indexes an empty shape. -/
def covFrom (h : Heap) (a src : Nat) : Res Unit :=
  match getSV h a, getSV h src with
  | some _, some sb =>
    match lookup "cov" sb.items with
    | some (.addr cb) =>
      match h[cb]? with
      | some (.cov bb cfr _ _) =>
        match h[bb]? with
        | some (.buf cv) => attachCov h a cv cfr
        | _ => (h, .error .bad)
      | _ => (h, .error .bad)
    | _ => (h, .error .index)
  | _, _ => (h, .error .bad)

/-- the `maneuvers` getter: `self._data.setdefault("maneuvers", [])` — a mere read creates the (empty, mutable) list -/
def getMans (h : Heap) (a : Nat) : Res Nat :=
  match getSV h a with
  | none => (h, .error .bad)
  | some s =>
    match lookup "maneuvers" s.items with
    | some (.addr l) => (h, .ok l)
    | some _ => (h, .error .bad)
    | none =>
      let (h, l) := alloc h (.list [])
      (write h s.data (.dict (insert "maneuvers" (.addr l) s.items)), .ok l)

/-- `bool(sv.maneuvers)`: what `repr()`, `if orb.maneuvers:` and the numerical propagators do -/
def readMan (h : Heap) (a : Nat) : Res Unit :=
  match getMans h a with
  | (h, .ok _) => (h, .ok ())
  | (h, .error e) => (h, .error e)

/-- `sv.maneuvers.append(<maneuver t>)` -/
def addMan (h : Heap) (a : Nat) (t : Nat) : Res Unit :=
  match getMans h a with
  | (h, .error e) => (h, .error e)
  | (h, .ok l) =>
    match h[l]? with
    | some (.list ms) =>
      let (h, m) := alloc h (.man t)
      (write h l (.list (ms ++ [.addr m])), .ok ())
    | _ => (h, .error .bad)

/-! ### the `infos` getter: a helper object created on read access and kept in `_data` -/

/-- the cache test of the `infos` getter, read from the AST on every run: `never` — `not hasattr(self, <a name that is no attribute>)`,
always true, a new helper is created on every access; `inData` — `"infos" not in self._data`, the stored helper is handed out -/
inductive InfosTest
  | never | inData
deriving DecidableEq, Repr

def infosTest : InfosTest := if FormTables.infosCacheTest = "inData" then .inData else .never

/-- `sv.infos`: returns (heap, owner the returned helper is bound to) -/
def getInfos (t : InfosTest) (h : Heap) (a : Nat) : Heap × Option Nat :=
  match getSV h a with
  | none => (h, none)
  | some s =>
    match t, lookup "infos" s.items with
    | .inData, some (.infos o _) => (h, some o)
    | _, _ =>
      let (h, g) := alloc h .clone
      (write h s.data (.dict (insert "infos" (.infos a g) s.items)), some a)

/-- `sv.infos.kep` … : a read access -/
def readInfos (h : Heap) (a : Nat) : Res Unit :=
  match getInfos infosTest h a with
  | (h, some _) => (h, .ok ())
  | (h, none) => (h, .error .bad)

/-! ### in-place changes of free metadata containers (through `sv.<key>`, i.e. `__getattr__`) -/

/-- `sv.<key>.append(x)`: a missing key, a string, a dict, an ndarray have no `append` (AttributeError) -/
def metaAppend (h : Heap) (a : Nat) (key : String) (x : Nat) : Res Unit :=
  match getSV h a with
  | none => (h, .error .bad)
  | some s =>
    match lookup key s.items with
    | some (.addr l) =>
      match h[l]? with
      | some (.list xs) => (write h l (.list (xs ++ [.tok x])), .ok ())
      | _ => (h, .error .attr)
    | _ => (h, .error .attr)

/-- `sv.<key>["w"] = x`: a missing key raises AttributeError, a list or a string TypeError -/
def metaSetItem (h : Heap) (a : Nat) (key : String) (x : Nat) : Res Unit :=
  match getSV h a with
  | none => (h, .error .bad)
  | some s =>
    match lookup key s.items with
    | some (.addr d) =>
      match h[d]? with
      | some (.dict items) => (write h d (.dict (insert "w" (.tok x) items)), .ok ())
      | _ => (h, .error .typeErr)
    | some _ => (h, .error .typeErr)
    | none => (h, .error .attr)

/-- `sv.nested["k"].append(x)`: a container nested in a metadata container -/
def nestedAppend (h : Heap) (a : Nat) (x : Nat) : Res Unit :=
  match getSV h a with
  | none => (h, .error .bad)
  | some s =>
    match lookup "nested" s.items with
    | some (.addr d) =>
      match h[d]? with
      | some (.dict items) =>
        match lookup "k" items with
        | some (.addr l) =>
          match h[l]? with
          | some (.list xs) => (write h l (.list (xs ++ [.tok x])), .ok ())
          | _ => (h, .error .attr)
        | _ => (h, .error .attr)      -- KeyError
      | _ => (h, .error .attr)
    | _ => (h, .error .attr)

/-- `sv.arr[0] = 0.5` on an ndarray kept as metadata -/
def arrSet (h : Heap) (a : Nat) : Res Unit :=
  match getSV h a with
  | none => (h, .error .bad)
  | some s =>
    match lookup "arr" s.items with
    | some (.addr r) =>
      match h[r]? with
      | some (.arr _) => (write h r (.arr 0), .ok ())
      | _ => (h, .error .bad)
    | _ => (h, .error .attr)

/-! ### `copy.deepcopy(sv)` (/repo fd4f2bf: `StateVector.__deepcopy__`) -/

/-- the maneuver list of the state vector at `x`, if it has one -/
def mansOfSV (h : Heap) (x : Nat) : Option (SV × Nat) :=
  match getSV h x with
  | some s =>
    match lookup "maneuvers" s.items with
    | some (.addr l) => some (s, l)
    | _ => none
  | none => none

/-- `obj._data["maneuvers"] = <deep copy r>` -/
def setMans (h : Heap) (x : Nat) (r : Ref) : Heap :=
  match getSV h x with
  | some s => write h s.data (.dict (insert "maneuvers" r s.items))
  | none => h

/-- the private state of the covariance of the state vector at `n` (`new.cov.orb`), if there is a covariance -/
def covOrb (h : Heap) (n : Nat) : Option Nat :=
  match getSV h n with
  | some s =>
    match lookup "cov" s.items with
    | some (.addr c) => (match h[c]? with | some (.cov _ _ orb _) => some orb | _ => none)
    | _ => none
  | none => none

/-- `deepcopy(<the maneuver list at l>, memo)` when there is one -/
def deepMansOf (st : DState) (ol : Option Nat) : DState × Option (Option Ref) :=
  match ol with
  | some l =>
    match deepRef deepFuel st (.addr l) with
    | (st, some r) => (st, some (some r))
    | (st, none) => (st, none)
  | none => (st, some none)

def setMansOpt (h : Heap) (ox : Option Nat) (r : Option Ref) : Heap :=
  match ox, r with
  | some x, some r => setMans h x r
  | _, _ => h

/-- `copy.deepcopy(sv)`: `new = self.copy()`, then for `new` and — when there is a covariance — `new.cov.orb`:
`obj._data["maneuvers"] = deepcopy(obj._data["maneuvers"], memo)` with ONE memo (a maneuver object found in both lists
is duplicated once). The two deep copies are taken first and the two dict entries written afterwards; the code interleaves
them, which cannot be told apart: `deepcopy` of a maneuver list reads no `_data` dict. -/
def stdDeepcopy (h : Heap) (a : Nat) : Res Nat :=
  match copySV h a with
  | (h, .error e) => (h, .error e)
  | (h1, .ok n) =>
    let orb := covOrb h1 n
    let d1 := deepMansOf { h := h1 } ((mansOfSV h1 n).map (·.2))
    let d2 := deepMansOf d1.1 ((orb.bind (mansOfSV h1)).map (·.2))
    match d1.2, d2.2 with
    | some r1, some r2 => (setMansOpt (setMansOpt d2.1.h (some n) r1) orb r2, .ok n)
    | _, _ => (d2.1.h, .error .bad)

/-! ### constructors given an existing object -/

/-- the `date` entry (a Date is an immutable value) -/
def dateTok (items : Items) : Ref :=
  match lookup "date" items with
  | some (.tok t) => .tok t
  | _ => .none

/-- the `propagator` entry `Orbit.__new__` adds -/
def propItems : Option Nat → Items
  | some p => [("propagator", .addr p)]
  | none => []

/-- `StateVector(src, src.date, src.form, src.frame)` / `Orbit(src, …, p)`: the coordinates go through
`np.array([float(x) for x in coord])` into a NEW buffer; `_data` holds date, form, frame (and the propagator) only -/
def ctor (h : Heap) (a : Nat) (prop : Option Nat) : Res Nat :=
  match getSV h a with
  | none => (h, .error .bad)
  | some s =>
    let (h, b) := alloc h (.buf s.val)
    let items : Items := [("date", dateTok s.items), ("form", .form s.form), ("frame", .frame s.frame)] ++ propItems prop
    let (h, d) := alloc h (.dict items)
    let (h, n) := alloc h (.sv prop.isSome b d)
    (h, .ok n)

end BeyondVerif.Heap
