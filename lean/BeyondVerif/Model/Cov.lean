/-!
Model of the bookkeeping of `beyond/orbits/cov.py` (class `Cov`) and of the part of
`beyond/orbits/statevector.py` that drives it (`StateVector.frame` setter, `copy`).

The model is generic in the type of frames `F`, of 6×6 matrices `Mat` and of state vectors `Vec`;
everything numeric is delegated to an environment `Env` (orientation conversion matrices at the
date of the state, `to_local`, matrix product / transpose / identity, matrix-vector product).
 * the driver instantiates it with `String` frame names and `List (List Float)` matrices, the
   conversion matrices being the real ones (handed over by the harness),
 * the theorems (Props/C14.lean) instantiate it with Mathlib real matrices,
 * the counter-witness (Witness/C14.lean) with 2×2 integer matrices.
No Mathlib import: this file is linked into the native driver.
-/
namespace BeyondVerif.Cov

/-- the two local orbital frames accepted by `Cov.frame` -/
inductive Loc where
  | qsw
  | tnw
  deriving DecidableEq, Repr

/-- value of `cov.frame`: a `Frame` object or one of the strings "QSW"/"TNW" -/
inductive Tag (F : Type) where
  | frame (f : F)
  | loc (k : Loc)
  deriving DecidableEq, Repr

structure Env (F Mat Vec : Type) where
  /-- `a.orientation.convert_to(orb.date, b.orientation)` -/
  conv : F → F → Mat
  /-- `to_local(name, orb)` (6×6, `expanded=True`) -/
  toLocal : Loc → Vec → Mat
  mul : Mat → Mat → Mat
  tr : Mat → Mat
  one : Mat
  /-- `m @ x` — `Frame.transform` of the private copy: all built-in frames share the centre, offset 0 -/
  apply : Mat → Vec → Vec

/-- the fields of a `Cov` instance -/
structure St (F Mat Vec : Type) where
  /-- `_data["frame"]` -/
  tag : Tag F
  /-- `_orb_frame`: set once in `__new__`, never updated -/
  orbFrame : F
  /-- `orb.frame`: the frame the private state copy is expressed in (what `Cov.copy` reads; the
  setter never changes it any more, so it stays equal to `orbFrame` from `St.new` on) -/
  orbCur : F
  /-- `orb` (cartesian coordinates of the private copy) -/
  orb : Vec
  /-- the 6×6 values -/
  mat : Mat

variable {F Mat Vec : Type} [DecidableEq F]

/-- `Cov(orb, values, frame)` for a state `x` given in frame `f`, covariance expressed in `tag` -/
def St.new (f : F) (x : Vec) (tag : Tag F) (c : Mat) : St F Mat Vec :=
  { tag := tag, orbFrame := f, orbCur := f, orb := x, mat := c }

/-- "previous frame to parent frame" matrix `m1` of the setter -/
def m1 (E : Env F Mat Vec) (s : St F Mat Vec) : Mat :=
  match s.tag with
  | .loc k => E.tr (E.toLocal k s.orb)
  | .frame f => if f ≠ s.orbFrame then E.conv f s.orbFrame else E.one

/-- "parent frame to target frame" matrix `m2` of the setter -/
def m2 (E : Env F Mat Vec) (s : St F Mat Vec) (t : Tag F) : Mat :=
  match t with
  | .loc k => E.toLocal k s.orb
  | .frame f => if s.orbFrame ≠ f then E.conv s.orbFrame f else E.one

/-- `M = m2 @ m1` -/
def hopMat (E : Env F Mat Vec) (s : St F Mat Vec) (t : Tag F) : Mat := E.mul (m2 E s t) (m1 E s)

/-- `Cov.frame` setter, as the code is (since d229088 the private copy is never re-framed: it stays
in `_orb_frame`, the frame every conversion is routed through) -/
def setFrame (E : Env F Mat Vec) (s : St F Mat Vec) (t : Tag F) : St F Mat Vec :=
  if t = s.tag then s
  else
    let M := hopMat E s t
    { s with tag := t, mat := E.mul (E.mul M s.mat) (E.tr M) }

/-- a sequence of assignments `cov.frame = t₁; …; cov.frame = tₙ` -/
def run (E : Env F Mat Vec) (s : St F Mat Vec) (ts : List (Tag F)) : St F Mat Vec :=
  ts.foldl (setFrame E) s

/-! ### History: the setter before d229088

After a hop to a frame the old setter also executed `self.orb.frame = frame`: the private copy was
re-framed while `_orb_frame` kept naming the original frame.  Kept only so that Witness/C14.lean
can show, kernel-checked, what the regression guarded by the oracle family
`path-dependent:local-after-reframe` looks like.  Nothing else refers to these definitions. -/

/-- `self.orb.frame = frame` on the private copy (`StateVector.frame` setter → `Frame.transform`) -/
def reframeOrb (E : Env F Mat Vec) (s : St F Mat Vec) (f : F) : St F Mat Vec :=
  if f ≠ s.orbCur then { s with orbCur := f, orb := E.apply (E.conv s.orbCur f) s.orb } else s

/-- the `Cov.frame` setter as it was before d229088 -/
def setFrameOld (E : Env F Mat Vec) (s : St F Mat Vec) (t : Tag F) : St F Mat Vec :=
  if t = s.tag then s
  else
    let M := hopMat E s t
    let s' : St F Mat Vec := { s with tag := t, mat := E.mul (E.mul M s.mat) (E.tr M) }
    match t with
    | .loc _ => s'
    | .frame f => reframeOrb E s' f

def runOld (E : Env F Mat Vec) (s : St F Mat Vec) (ts : List (Tag F)) : St F Mat Vec :=
  ts.foldl (setFrameOld E) s

/-- `Cov.copy()`: `Cov(self.orb, self.base, frame=self.frame)` — `_orb_frame` of the copy is the
frame the private copy is expressed in *now* -/
def copy (s : St F Mat Vec) : St F Mat Vec :=
  { s with orbFrame := s.orbCur }

/-! ### `sv.cov = c` (StateVector.cov setter → `Cov.orb` setter)

`self._data["cov"] = value; value.orb = self`: the covariance gets a NEW private copy — the state it is
attached to, cartesian, **in the frame that state is expressed in now** (`g`, coordinates `x`) — and, since /repo
eca9727, `_orb_frame` is set to that frame by the same setter (`self._orb_frame = orb.frame`): every conversion is
routed through the frame the reference state is expressed in.  Tag and values are untouched. -/

/-- `sv.cov = c` as the code is (since eca9727): private copy and `_orb_frame` are re-seated together -/
def attach (s : St F Mat Vec) (g : F) (x : Vec) : St F Mat Vec :=
  { s with orbFrame := g, orbCur := g, orb := x }

/-- History: `sv.cov = c` before eca9727 — the private copy was re-seated, `_orb_frame` kept naming the frame given at
construction.  Kept only so that Witness/C14.lean and `attachOld_characterised` document, kernel-checked, what the oracle
family `attached-later:reframed-state:local-target` would report if the defect returned. -/
def attachOld (s : St F Mat Vec) (g : F) (x : Vec) : St F Mat Vec :=
  { s with orbCur := g, orb := x }

/-! ### What the third argument of `Cov(orb, values, frame)` may be

The docstring says `frame (str)`, io/ccsds/cov.py passes the text of COV_REF_FRAME, the tests pass a
`Frame` object or "QSW"/"TNW".  `__new__` stores the argument as it is.  A *name* other than
QSW/TNW is never resolved: every later `cov.frame = …` evaluates `self.frame.orientation` on a `str`
(AttributeError) and `sv.frame = …` compares a `str` with a `Frame` (never equal: the covariance stays
behind).  The state machine above starts from a `Tag` (a Frame object or QSW/TNW); `CtorArg` makes the
excluded case explicit. -/

/-- the `frame` argument of the constructor -/
inductive CtorArg (F : Type) where
  /-- a `Frame` object -/
  | obj (f : F)
  /-- "QSW" / "TNW" -/
  | loc (k : Loc)
  /-- any other `str`: the name of a frame, stored unresolved -/
  | name (n : String)

/-- the tag of the model for a constructor argument; `none`: outside the model (known findings
C14-frame-name-tag-*) -/
def CtorArg.tag? : CtorArg F → Option (Tag F)
  | .obj f => some (.frame f)
  | .loc k => some (.loc k)
  | .name _ => none

/-- outcome of `c = Cov(sv, values, arg); c.frame = t` as the code is: a name-tagged covariance raises
AttributeError for every target (`m1` is computed first: `self.frame.orientation`) -/
def ctorThenSet (E : Env F Mat Vec) (f : F) (x : Vec) (a : CtorArg F) (c : Mat) (t : Tag F) : Option (St F Mat Vec) :=
  (a.tag?).map (fun tag => setFrame E (St.new f x tag c) t)

/-- a state vector with an attached covariance: the frame of the state and the `Cov` -/
structure Sv (F Mat Vec : Type) where
  frame : F
  cov : St F Mat Vec

/-- `StateVector.frame` setter, covariance part: the covariance follows iff it was expressed in
the frame the state had before -/
def svSetFrame (E : Env F Mat Vec) (v : Sv F Mat Vec) (g : F) : Sv F Mat Vec :=
  { frame := g, cov := if v.cov.tag = .frame v.frame then setFrame E v.cov (.frame g) else v.cov }

/-- `StateVector.copy(frame=g)`: copy every `_data` item (`Cov.copy`), then set the frame -/
def svCopy (E : Env F Mat Vec) (v : Sv F Mat Vec) (g : Option F) : Sv F Mat Vec :=
  let w : Sv F Mat Vec := { frame := v.frame, cov := copy v.cov }
  match g with
  | none => w
  | some g => if g ≠ v.frame then svSetFrame E w g else w

end BeyondVerif.Cov
