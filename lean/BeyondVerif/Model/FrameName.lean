import BeyondVerif.Generated.FrameNames
/-!
How the *name* of a maneuver frame / of an orientation selects a matrix (beyond/orbits/man.py `ImpulsiveMan`,
`ContinuousMan`; beyond/frames/local.py `to_local`; beyond/frames/frames.py `orbit2frame`).  The tables — whether a
constructor upper-cases the name, the tuple `self.frame in (...)` tests, the `if/elif` chain of `to_local`, the
tuple `orbit2frame` tests — are regenerated from the Python AST on every run (Generated/FrameNames.lean); the
functions below are the fixed reading of those tables.  A name is the list of its characters; names are ASCII
(`str.upper` = `Char.toUpper` on every character).
-/
namespace BeyondVerif.FrameName
open BeyondVerif.Generated.FrameNames

/-- a frame name: its characters -/
abbrev Name := List Char

/-- `str.upper()` on ASCII names -/
def pyUpper (s : Name) : Name := s.map Char.toUpper

/-- what the projection multiplies the stated vector with -/
inductive Sel where
  /-- `to_qsw(orb).T` -/
  | qsw
  /-- `to_tnw(orb).T` -/
  | tnw
  /-- `np.identity(3)`: the axes of the orbit's own frame -/
  | identity
  /-- `to_local` raises `ValueError("Unknown local orbital frame")` -/
  | valueError
  deriving DecidableEq, Repr

/-- the `if/elif/else` chain of `to_local(frame, …)`: entries `(constant, compared with frame.upper()?, 0 = to_qsw | 1 = to_tnw)` -/
def toLocalSel : List (Name × Bool × Nat) → Name → Sel
  | [], _ => Sel.valueError
  | (k, up, fn) :: rest, s =>
    if (if up then pyUpper s else s) = k then (if fn = 0 then Sel.qsw else Sel.tnw) else toLocalSel rest s

/-- `__init__`: `if isinstance(frame, str): frame = frame.upper()` (when present); `self.frame = frame` -/
def ctorFrame (up : Bool) (f : Option Name) : Option Name := if up then f.map pyUpper else f

/-- `dv` / `accel`: `to_local(self.frame, orb, expanded=False).T if self.frame in tags else np.identity(3)` -/
def manSel (tags : List Name) (tab : List (Name × Bool × Nat)) : Option Name → Sel
  | none => Sel.identity
  | some s => if tags.contains s then toLocalSel tab s else Sel.identity

/-- `ImpulsiveMan(date, dv, frame=f).dv(orb)` -/
def impulsiveSel (f : Option Name) : Sel := manSel impDvTags toLocalTable (ctorFrame impCtorUpper f)

/-- `ContinuousMan(date, duration, accel=…, frame=f).accel(orb)` -/
def continuousSel (f : Option Name) : Sel := manSel contAccelTags toLocalTable (ctorFrame contCtorUpper f)

/-- `KeplerianContinuousMan`: `kwargs["frame"] = <forced>` before `ContinuousMan.__init__` -/
def keplerianContinuousSel : Sel := continuousSel (some kepContForcedFrame)

/-- `orbit2frame(name, ref, orientation=o)`: `None` keeps the axes of the reference's frame; a name whose
(upper-cased) spelling is not in the tuple raises; otherwise `LocalOrbitalOrientation` keeps the spelling as
given and `_to_parent` hands it to `to_local` -/
def orbit2frameSel : Option Name → Sel
  | none => Sel.identity
  | some s => if orbit2frameTags.contains (if orbit2frameUpper then pyUpper s else s) then toLocalSel toLocalTable s
              else Sel.valueError

def Sel.toString : Sel → String
  | Sel.qsw => "qsw"
  | Sel.tnw => "tnw"
  | Sel.identity => "identity"
  | Sel.valueError => "value-error"

end BeyondVerif.FrameName
