/-
Model of beyond/propagators/sgp4.py (class Sgp4): the wrapper around the third-party `sgp4`
package.  The package itself is a PARAMETER of the model (`twoline2rv`, `propagate`).

What the wrapper does, and what is modelled here:

* `orbit.setter`: `Tle.from_orbit(orbit).text.splitlines()` → the two lines given to
  `twoline2rv(line1, line2, wgs72)`.  The text regeneration is property C12's model; here it is
  the parameter `regen`.
* `propagate(date)`: `utc = date.change_scale("UTC")`, then
  `[float(x) for x in f"{utc:%Y %m %d %H %M %S.%f}".split()]` is handed to `satrec.propagate`,
  the result `p + v` is multiplied by 1000 (km → m).

A date enters as the integer number of microseconds of the naive UTC `datetime` since
0001-01-01T00:00:00 (CPython's own representation: proleptic Gregorian ordinal, seconds,
microseconds).  `utcFields` is CPython's `ord2ymd` (Modules/_datetimemodule.c `ord_to_ymd`,
Lib/_pydatetime.py `_ord2ymd`) followed by the split of the time of day; the seconds field is
kept as an integer number of microseconds (`SS.ffffff` read as a decimal with six places).

No Mathlib import: this file is also part of the line-protocol driver.
-/
namespace BeyondVerif.Sgp4Wrap

def usPerDay : Nat := 86400000000

/-- `_DAYS_BEFORE_MONTH[m]` (non-leap), months 1..12; index 13 = 365 is never used -/
def daysBeforeMonthTbl (m : Nat) : Nat :=
  match m with
  | 1 => 0 | 2 => 31 | 3 => 59 | 4 => 90 | 5 => 120 | 6 => 151
  | 7 => 181 | 8 => 212 | 9 => 243 | 10 => 273 | 11 => 304 | 12 => 334 | _ => 365

/-- `_DAYS_IN_MONTH[m]` (non-leap) -/
def daysInMonthTbl (m : Nat) : Nat :=
  match m with
  | 1 => 31 | 2 => 28 | 3 => 31 | 4 => 30 | 5 => 31 | 6 => 30
  | 7 => 31 | 8 => 31 | 9 => 30 | 10 => 31 | 11 => 30 | 12 => 31 | _ => 0

/-- second half of `_ord2ymd`: month and day from the 0-based day of the year -/
def monthDay (leap : Bool) (n : Nat) : Nat × Nat :=
  let month := (n + 50) / 32                      -- (n + 50) >> 5
  let preceding := daysBeforeMonthTbl month + (if month > 2 ∧ leap then 1 else 0)
  if preceding > n then
    let month' := month - 1
    let preceding' := preceding - (daysInMonthTbl month' + (if month' = 2 ∧ leap then 1 else 0))
    (month', n - preceding' + 1)
  else (month, n - preceding + 1)

/-- end of the first half of `_ord2ymd`, from the four quotients and the last remainder.
The early return `if n1 == 4 or n100 == 4: return year-1, 12, 31` is day 365 of the leap year `year-1`. -/
def yearDayCore (n400 n100 n4 n1 n : Nat) : Nat × Bool × Nat :=
  if n1 = 4 ∨ n100 = 4 then (n400 * 400 + 1 + n100 * 100 + n4 * 4 + n1 - 1, true, 365)
  else (n400 * 400 + 1 + n100 * 100 + n4 * 4 + n1, decide (n1 = 3 ∧ (n4 ≠ 24 ∨ n100 = 3)), n)

/-- first half of `_ord2ymd`: year, leap flag, 0-based day of year, from the ordinal (1 = 0001-01-01):
the `divmod` chain by 146097, 36524, 1461, 365 -/
def yearDay (ordinal : Nat) : Nat × Bool × Nat :=
  let n := ordinal - 1
  yearDayCore (n / 146097) (n % 146097 / 36524) (n % 146097 % 36524 / 1461) (n % 146097 % 36524 % 1461 / 365) (n % 146097 % 36524 % 1461 % 365)

def ord2ymd (ordinal : Nat) : Nat × Nat × Nat :=
  let yd := yearDay ordinal
  let md := monthDay yd.2.1 yd.2.2
  (yd.1, md.1, md.2)

/-- the six numbers handed to `satrec.propagate`; `secUs` is `SS.ffffff` in microseconds -/
structure Fields where
  year : Nat
  month : Nat
  day : Nat
  hour : Nat
  minute : Nat
  secUs : Nat
deriving Repr, DecidableEq

/-- `f"{utc:%Y %m %d %H %M %S.%f}"` of the datetime `us` microseconds after 0001-01-01T00:00:00 -/
def utcFields (us : Nat) : Fields :=
  let ymd := ord2ymd (us / usPerDay + 1)
  let r := us % usPerDay
  { year := ymd.1, month := ymd.2.1, day := ymd.2.2, hour := r / 3600000000, minute := r / 60000000 % 60, secUs := r % 60000000 }

/-- `float("SS.ffffff")`: the double nearest to the six-place decimal (driver only) -/
def secFloat (f : Fields) : Float := Float.ofScientific f.secUs true 6

/-- The wrapper object: `regen` = `Tle.from_orbit(orbit).text.splitlines()` (C12),
`twoline2rv` and `propagate` = the third-party library, `scale` = `x * 1000`. -/
structure Wrapper (Orbit Lines Sat K : Type) where
  regen : Orbit → Lines
  twoline2rv : Lines → Sat
  propagate : Sat → Fields → List K × List K
  scale : K → K

/-- `Sgp4.propagate(date)` for a date whose UTC datetime is `us`: `[x * 1000 for x in p + v]` -/
def Wrapper.run {Orbit Lines Sat K : Type} (w : Wrapper Orbit Lines Sat K) (orbit : Orbit) (us : Nat) : List K :=
  let sat := w.twoline2rv (w.regen orbit)
  let pv := w.propagate sat (utcFields us)
  (pv.1 ++ pv.2).map w.scale

/-- `Sgp4.propagate(timedelta)`: `date = self.orbit.date + date` first (`epochUs` = the orbit's UTC datetime) -/
def Wrapper.runDelta {Orbit Lines Sat K : Type} (w : Wrapper Orbit Lines Sat K) (orbit : Orbit) (epochUs : Nat) (deltaUs : Int) : List K :=
  w.run orbit (epochUs + deltaUs).toNat

/-! ## The requested date as an instant

A `Date` is an instant — `tai`: the reading of the TAI clock, microseconds since 0001-01-01T00:00:00 — that carries the
Earth-orientation record of its own day — `off`: TAI − UTC in microseconds on that day (0 without a database, a step
function of the day with a database that knows the inserted seconds).  `date.change_scale("UTC")` reads the UTC clock
at that instant with the date's OWN record: `tai − off`.  `Date − Date` is the elapsed time `tai − tai'`. -/

/-- `date.change_scale("UTC").datetime`, microseconds -/
def utcReading (tai off : Int) : Int := tai - off

/-- `Sgp4.propagate(date)` for the instant `tai` whose day has TAI − UTC = `off` -/
def Wrapper.runInstant {Orbit Lines Sat K : Type} (w : Wrapper Orbit Lines Sat K) (orbit : Orbit) (tai off : Int) : List K :=
  w.run orbit (utcReading tai off).toNat

/-- NOT what the wrapper does — the shortcut "UTC datetime of the epoch + (date − epoch)": the epoch's UTC reading moved by the
ELAPSED time.  `Props/C07.lean: elapsed_route_eq_iff` — it is the UTC reading of the date iff TAI − UTC is the same at the epoch
and at the date (no second was inserted in between). -/
def elapsedRoute (taiEpoch offEpoch tai : Int) : Int := utcReading taiEpoch offEpoch + (tai - taiEpoch)

/-! ## The binding logic as a state machine

`Orbit.propagate` hands the orbit to its `Sgp4` object; the object keeps a satellite record (`self.tle`) and what it was
computed from (`self._bound_to = self._state(orbit)`).  `Sgp4.propagate` first compares `self._state(self._orbit)` with
`self._bound_to` and runs the setter again when they differ, then uses the record.  The orbit is a mutable object: between two
calls any of its values may have been edited in place.  `V` = everything the orbit currently holds, `stateKey` = `Sgp4._state`. -/

/-- what the propagator object keeps between calls -/
structure Bound (Key Sat : Type) where
  key : Key
  sat : Sat

structure Machine (V Key Lines Sat K : Type) extends Wrapper V Lines Sat K where
  stateKey : V → Key

/-- the `orbit` setter: regenerate the text from the CURRENT values, build the record, remember the key -/
def Machine.bind {V Key Lines Sat K : Type} (m : Machine V Key Lines Sat K) (v : V) : Bound Key Sat :=
  ⟨m.stateKey v, m.twoline2rv (m.regen v)⟩

/-- one call `orbit.propagate(date)` with current values `v`: the record in use afterwards, whether the setter ran, the reply.
`none` = no propagator bound to this orbit object yet (a new orbit, a copy) -/
def Machine.step {V Key Lines Sat K : Type} [DecidableEq Key] (m : Machine V Key Lines Sat K) (b : Option (Bound Key Sat)) (v : V) (us : Nat) :
    Bound Key Sat × Bool × List K :=
  let r : Bound Key Sat × Bool := match b with
    | some b => if m.stateKey v ≠ b.key then (m.bind v, true) else (b, false)
    | none => (m.bind v, true)
  let pv := m.propagate r.1.sat (utcFields us)
  (r.1, r.2, (pv.1 ++ pv.2).map m.scale)

/-- a history: in-place edits of the orbit's values and propagations -/
inductive Op (V : Type) where
  | edit (f : V → V)
  | propagate (us : Nat)

/-- replies of the propagations of a history, paired with the values the orbit held at that call -/
def Machine.history {V Key Lines Sat K : Type} [DecidableEq Key] (m : Machine V Key Lines Sat K) :
    Option (Bound Key Sat) → V → List (Op V) → List (V × Nat × List K)
  | _, _, [] => []
  | b, v, Op.edit f :: rest => m.history b (f v) rest
  | b, v, Op.propagate us :: rest =>
    let r := m.step b v us
    (v, us, r.2.2) :: m.history (some r.1) v rest

/-- label fields of the text: `twoline2rv` stores them, the propagation does not read them (oracle family `label-edit`) -/
def labelReads : List String := ["name", "norad_id", "cospar_id", "element_nb", "revolutions"]

/-- which compared values determine a value `Tle.from_orbit` reads: the six coordinates of the TEME/TLE copy are a function of
the buffer, the form, the frame and (frame changes) the date; every other value must be compared itself -/
def coveredBy (r : String) : List String :=
  if r = "coords" ∨ r = "copy" then ["tobytes", "form", "frame", "date"] else [r]

/-- the concrete machine the driver runs: values = (key id, version id), the "library" returns the version the record was built from -/
def idMachine : Machine (Nat × Nat) Nat Nat Nat Nat :=
  { regen := fun v => v.2, twoline2rv := id, propagate := fun s _ => ([s], []), scale := id, stateKey := fun v => v.1 }

/-- `wrapseq`: tokens `e<key>:<version>` (the orbit now holds these values) and `p` (propagate) ↦ per `p`: `<setter ran 0/1>:<version of the record used>` -/
def runSeq : Option (Bound Nat Nat) → Nat × Nat → List String → Option (List String)
  | _, _, [] => some []
  | b, v, tok :: rest =>
    if tok = "p" then
      let r := idMachine.step b v 0
      (runSeq (some r.1) v rest).map (fun l => ((if r.2.1 then "1:" else "0:") ++ toString r.1.sat) :: l)
    else if tok.startsWith "e" then
      match ((tok.drop 1).toString.splitOn ":").map String.toNat? with
      | [some k, some ver] => runSeq b (k, ver) rest
      | _ => none
    else none

end BeyondVerif.Sgp4Wrap
