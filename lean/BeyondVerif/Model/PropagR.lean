/- GENERATED from lean/templates/Propag.tpl by harness/instantiate.py — edit the template. Real instantiation. -/
import BeyondVerif.NumReal
import BeyondVerif.Generated.PropagR
noncomputable section
namespace BeyondVerif.R
open BeyondVerif.NumReal
open Classical
set_option linter.unusedVariables false

/-!
Element-level model of the two analytical propagators of beyond/propagators (kepler.py, j2.py).
Both convert the orbit to the `keplerian_mean` form (orbit setter), update the six mean elements and
convert the result to `cartesian`.  The update itself is *translated from the Python source* on every
run (Generated/Propag: `meanMotion`, `keplerNewM`, `j2Delta`, the constants of beyond/constants.py);
this file only adds the glue (`new = orbit.copy(); new[5] = …` and `new = orbit[:] + delta;
new[3:] = new[3:] % (2π)`), tied by the correspondence run of harness/props/C05.py.
The form conversions belong to C01 and are not modelled here.
-/

/-- `keplerian_mean` elements `[a, e, i, Ω, ω, M]` -/
structure Elts where
  a : R
  e : R
  i : R
  raan : R
  argp : R
  M : R

/-- `Kepler.propagate` between the two form conversions (no wrap of `M`, as in the code) -/
def keplerStep (mu : R) (x : Elts) (dt : R) : Elts :=
  { x with M := keplerNewM mu x.a x.M dt }

def twoPi : R := (2 : R) * pi

/-- `J2.propagate` between the two form conversions:
`new = orbit[:] + delta; new[3:] = new[3:] % (2 * np.pi)` -/
def j2Step (mu : R) (x : Elts) (dt : R) : Elts :=
  match j2Delta mu x.a x.e x.i dt with
  | [d0, d1, d2, d3, d4, d5] =>
    { a := x.a + d0, e := x.e + d1, i := x.i + d2,
      raan := fmod (x.raan + d3) twoPi, argp := fmod (x.argp + d4) twoPi, M := fmod (x.M + d5) twoPi }
  | _ => x

end BeyondVerif.R
