import BeyondVerif.Model.Node
/-!
Executable side of `Props/C20Small.lean` (no Mathlib: also part of the line-protocol driver, op `closed4`): enumeration of the
states reachable on the nodes 0..3 by any sequence of links taken from a list `ps`, and the Boolean certificate `closedB` — the
set contains the empty state, is closed under every link of `ps`, and none of its states holds a stale `steps` field.
`Props/C20Small.lean: shortest_of_closed` proves what the certificate implies for EVERY history.
-/
namespace BeyondVerif.C20
open BeyondVerif.Node

/-- the state of nodes 0..3 in a fixed order of the association list -/
def norm4 (g : Graph) : Graph := [(0, get g 0), (1, get g 1), (2, get g 2), (3, get g 3)]

/-- every link `a + b` on the nodes 0..3 -/
def pairs4 : List (Nat × Nat) :=
  [(0, 1), (0, 2), (0, 3), (1, 0), (1, 2), (1, 3), (2, 0), (2, 1), (2, 3), (3, 0), (3, 1), (3, 2)]

/-- every link `a + b` on the nodes 0..2 -/
def pairs3 : List (Nat × Nat) := [(0, 1), (0, 2), (1, 0), (1, 2), (2, 0), (2, 1)]

/-- a cheap key of a state (only used to spread the states over the buckets of the search tree) -/
def code (g : Graph) : Nat :=
  (g.foldl (fun h kv =>
    let h := kv.2.nbrs.foldl (fun h v => h * 31 + v + 1) (h * 31 + 7)
    kv.2.routes.foldl (fun h r => (h * 31 + r.dir) * 31 + r.steps) (h * 31 + 11)) 1) % 1021

/-- binary search tree over the bits of `code`; the leaves hold the states -/
inductive Trie where
  | leaf (l : List Graph)
  | node (l r : Trie)

def Trie.mem : Trie → Nat → Graph → Bool
  | .leaf l, _, g => l.contains g
  | .node l r, k, g => if k % 2 = 0 then l.mem (k / 2) g else r.mem (k / 2) g

def Trie.toList : Trie → List Graph
  | .leaf l => l
  | .node l r => l.toList ++ r.toList

def Trie.insert : Nat → Trie → Nat → Graph → Trie
  | 0, .leaf l, _, g => .leaf (g :: l)
  | 0, .node l r, _, _ => .node l r
  | d + 1, .leaf l, k, g =>
    if k % 2 = 0 then .node (Trie.insert d (.leaf l) (k / 2) g) (.leaf []) else .node (.leaf []) (Trie.insert d (.leaf l) (k / 2) g)
  | d + 1, .node l r, k, g => if k % 2 = 0 then .node (Trie.insert d l (k / 2) g) r else .node l (Trie.insert d r (k / 2) g)

/-- one round of the search: every link from every state of the frontier -/
def expand (ps : List (Nat × Nat)) (front : List Graph) (seen : Trie) : List Graph × Trie :=
  front.foldl (fun acc g => ps.foldl (fun acc e =>
    match link 6 g e.1 e.2 with
    | some g' =>
      let c := norm4 g'
      let k := code c
      if acc.2.mem k c then acc else (c :: acc.1, Trie.insert 10 acc.2 k c)
    | none => acc) acc) ([], seen)

def reach (ps : List (Nat × Nat)) : Nat → List Graph → Trie → Trie
  | 0, _, seen => seen
  | k + 1, front, seen =>
    match front with
    | [] => seen
    | _ => let r := expand ps front seen; reach ps k r.1 r.2

def reachable (ps : List (Nat × Nat)) : Trie := reach ps 40 [norm4 []] (Trie.insert 10 (Trie.leaf []) (code (norm4 [])) (norm4 []))

/-- no `steps` field of a state on 4 nodes is stale: an entry with `steps >= 2` has no direct link, one with `steps >= 3` no
chain of two links; `steps <= 3` -/
def freshAllB (c : Graph) : Bool :=
  (List.range 4).all (fun s => (get c s).routes.all (fun r =>
    r.target == s ||
      (decide (r.steps ≤ 3) && (decide (r.steps < 2) || !(get c s).nbrs.contains r.target) &&
        (decide (r.steps < 3) || (get c s).nbrs.all (fun x => !(get c x).nbrs.contains r.target)))))

def nbOK (c : Graph) : Bool := (List.range 4).all (fun u => (get c u).nbrs.all (fun v => decide (v < 4)))

/-- the kernel-checked certificate: the empty state is in the set, the set is closed under every link, no state has a stale field -/
def closedB (ps : List (Nat × Nat)) (t : Trie) : Bool :=
  ps.all (fun e => decide (e.1 < 4) && decide (e.2 < 4) && decide (e.1 ≠ e.2)) &&
  t.mem (code (norm4 [])) (norm4 []) &&
  t.toList.all (fun c => freshAllB c && nbOK c && ps.all (fun e =>
    match link 6 c e.1 e.2 with
    | some g' => t.mem (code (norm4 g')) (norm4 g')
    | none => false))

end BeyondVerif.C20
