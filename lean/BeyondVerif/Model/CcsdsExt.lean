import BeyondVerif.Generated.CcsdsExtTables
/-!
Extension of the structural CCSDS model (`Model/Ccsds.lean`, where every date is an opaque text) by the
*meaning* of the dates the writers print and by the constructor options of the objects they are given:

* `Stamp`     — a date = a clock reading labelled with a time scale; a message has ONE `TIME_SYSTEM`, the readers label every
                date of the message with it.  Whether the writers convert a secondary date (maneuver, ephemeris point,
                observation) to that scale before printing its clock is read from the source (`…ScaleConv`, regenerated).
* `segsBack`  — a message of several segments (OEM ephemerides, TDM signal paths), each with its own `TIME_SYSTEM` (the scale of its
                first date): in which scale the dates of a segment are printed — the segment's or the whole message's — is read
                from the source (`…ScaleOfSegment`, regenerated).
* `ManSrc`    — `ContinuousMan(date, duration, date_pos=…)`: `start / median / stop` as `man.py` computes them; which attribute
                the OPM writers print as `MAN_EPOCH_IGNITION` (`manIgnitionAttr`) and with which `date_pos` the readers rebuild
                the maneuver (`manReadDatePos`) are regenerated from the source.
* `oemDumpForm` — the OEM writers and the form of the points they are given (the XML writer reads `x … vz` directly).
* `kepManWritten` — Keplerian maneuvers (`da/di/dOmega`, no delta-v vector of their own) handed to the OPM writers.

* `centerWrite / centerRead` — CENTER_NAME of a frame centred elsewhere than on the Earth: CamelCase split + upper case against
                `title().replace(" ", "")`; which names the KVN / XML writers split is regenerated (`kvnCenterPats`, `xmlCenterPats`).
* `udKeyOut / udKeyIn` — the `USER_DEFINED_` prefix of the KVN keys (the structural model keeps user-defined fields in a sub-dict).

No Mathlib import: linked into the native driver.
-/
namespace BeyondVerif.CcsdsExt
open BeyondVerif.Generated

/-! ### dates: clock reading + label -/

structure Stamp where
  clock : Int        -- microseconds shown by the clock of `scale`
  scale : String
deriving DecidableEq, Repr

/-- the instant (microseconds of a reference clock); `off s` = reading of the clock of scale `s` minus the reference reading
(for the pairs of scales with a constant offset: TT − TAI = 32.184 s, GPS − TAI = −19 s) -/
def instant (off : String → Int) (s : Stamp) : Int := s.clock - off s.scale

/-- what a writer prints for a secondary date of a message whose `TIME_SYSTEM` is `msg`: the reading of its own clock, or —
when the writer converts (`conv`) — the reading of the message's clock at the same instant -/
def written (conv : Bool) (off : String → Int) (msg : String) (s : Stamp) : Int :=
  if conv then instant off s + off msg else s.clock

/-- the readers: `parse_date(text, TIME_SYSTEM)` -/
def readBack (msg : String) (clock : Int) : Stamp := ⟨clock, msg⟩

/-! ### messages made of several segments (OEM: one per ephemeris, TDM: one per signal path)

Every segment has its own `TIME_SYSTEM`: the scale of its first date (`collect_metadata` / `dump_*_meta_odm`: `….start.scale.name`).
The dates of a segment are printed after conversion to a *reference* scale; whether that reference is the label of the segment itself
or the scale of the first date of the whole message is read from the source (`…ScaleOfSegment`, regenerated). -/

/-- `TIME_SYSTEM` of a segment: the scale of its first date -/
def segLabel (seg : List Stamp) : String := (seg.head?.map (·.scale)).getD ""

/-- `data.start.scale` of the whole message: the scale of the first date of the first segment -/
def msgLabel (segs : List (List Stamp)) : String := segLabel (segs.head?.getD [])

/-- one segment as written: its `TIME_SYSTEM` and the clock readings printed; `ofSegment` = the reference scale is the segment's own label -/
def writeSeg (conv ofSegment : Bool) (off : String → Int) (msg : String) (seg : List Stamp) : String × List Int :=
  (segLabel seg, seg.map (written conv off (if ofSegment then segLabel seg else msg)))

/-- the readers: every date of a segment is `parse_date(text, TIME_SYSTEM of that segment)` -/
def readSeg (w : String × List Int) : List Stamp := w.2.map (readBack w.1)

/-- dump then load of a message of several segments -/
def segsBack (conv ofSegment : Bool) (off : String → Int) (segs : List (List Stamp)) : List (List Stamp) :=
  segs.map fun seg => readSeg (writeSeg conv ofSegment off (msgLabel segs) seg)

/-! ### continuous maneuvers: `ContinuousMan.__init__` -/

inductive DatePos
  | start | median | stop
deriving DecidableEq, Repr

def DatePos.ofString (s : String) : Option DatePos :=
  if s = "start" then some .start else if s = "median" then some .median else if s = "stop" then some .stop else none

structure ManSrc where
  date : Int       -- the `date` argument, microseconds
  dur : Int        -- duration, microseconds
  pos : DatePos
deriving DecidableEq, Repr

def ManSrc.start (m : ManSrc) : Int :=
  match m.pos with
  | .start => m.date
  | .median => m.date - m.dur / 2
  | .stop => m.date - m.dur

def ManSrc.stop (m : ManSrc) : Int := m.start + m.dur

/-- value of the attribute of a `ContinuousMan` named `attr` -/
def ManSrc.attr (m : ManSrc) (attr : String) : Option Int :=
  if attr = "start" then some m.start else if attr = "date" then some m.date else if attr = "stop" then some m.stop
  else if attr = "median" then some (m.start + m.dur / 2) else none

/-- `MAN_EPOCH_IGNITION` as the OPM writers print it for a continuous maneuver -/
def ignitionWritten (m : ManSrc) : Option Int := m.attr manIgnitionAttr

/-- the maneuver the OPM readers rebuild from `MAN_EPOCH_IGNITION` and `MAN_DURATION` -/
def manRead (ignition dur : Int) : Option ManSrc := (DatePos.ofString manReadDatePos).map fun p => ⟨ignition, dur, p⟩

/-- dump then load of a continuous maneuver: its thrust window `[start, stop)` -/
def manWindowBack (m : ManSrc) : Option (Int × Int) := do
  let ign ← ignitionWritten m
  let r ← manRead ign m.dur
  pure (r.start, r.stop)

/-! ### the form of the points given to the OEM writers -/

/-- `oem._dumps_kvn` sets `data.form = "cartesian"`; `oem._dumps_xml` reads `x, y, z, vx, vy, vz` from each point — which exist
only in cartesian form — unless it converts first (`oemXmlConvertsForm`, regenerated).  `true` = the writer succeeds. -/
def oemDumpForm (fmt form : String) : Bool :=
  form = "cartesian" ∨ (if fmt = "kvn" then oemKvnConvertsForm else oemXmlConvertsForm)

/-! ### Keplerian maneuvers given to the OPM writers -/

inductive KepOut
  | attrError          -- `KeplerianImpulsiveMan` has neither `frame` nor (before it was applied once) `_dv`
  | zeros              -- `KeplerianContinuousMan`: `_dv` is the `accel=np.zeros(3)` placeholder times the duration
  | dv                 -- the delta-v computed from `da / di / dOmega` is written
deriving DecidableEq, Repr

def kepManWritten (continuous : Bool) : KepOut :=
  if opmWritesKeplerian then .dv else if continuous then .zeros else .attrError

/-! ### the key of a user-defined field in KVN -/

/-- the writers: `f"USER_DEFINED_{k} = {v}"` (`udWritePrefix`, regenerated) -/
def udKeyOut (name : List Char) : List Char := udWritePrefix.toList ++ name

/-- the readers: `if k.startswith("USER_DEFINED"): ud[k[13:]] = …` (`udReadPrefix`, `udReadSkip`, regenerated) -/
def udKeyIn (key : List Char) : Option (List Char) :=
  if udReadPrefix.toList.isPrefixOf key then some (key.drop udReadSkip) else none

/-! ### CENTER_NAME: the writers' CamelCase split and the readers' `title().replace(" ", "")` -/

def isUp (c : Char) : Bool := 'A' ≤ c ∧ c ≤ 'Z'
def isLow (c : Char) : Bool := 'a' ≤ c ∧ c ≤ 'z'
def isDig (c : Char) : Bool := '0' ≤ c ∧ c ≤ '9'
def up (c : Char) : Char := if isLow c then Char.ofNat (c.toNat - 32) else c
def low (c : Char) : Char := if isUp c then Char.ofNat (c.toNat + 32) else c

/-- `" ".join(re.findall("[A-Z][^A-Z]*", s))`: what precedes the first capital is dropped, a blank goes before every later capital -/
def camelSplit : List Char → Bool → List Char
  | [], _ => []
  | c :: r, started =>
    if isUp c then (if started then [' ', c] else [c]) ++ camelSplit r true
    else if started then c :: camelSplit r true else camelSplit r false

def isInfix (p : List Char) : List Char → Bool
  | [] => p.isEmpty
  | c :: r => p.isPrefixOf (c :: r) || isInfix p r

/-- `L` followed by a digit somewhere (`re.search(r"L\d", s)`) -/
def hasLDigit : List Char → Bool
  | 'L' :: d :: r => isDig d || hasLDigit (d :: r)
  | _ :: r => hasLDigit r
  | [] => false

/-- one alternative of the writers' test (`re.search(r"Barycenter|L\d", name)` / `"Barycenter" in name`), as regenerated: the text
`L\d` stands for the pattern, any other text for itself -/
def patMatch (pat : String) (name : List Char) : Bool :=
  if pat = "L\\d" then hasLDigit name else isInfix pat.toList name

/-- CENTER_NAME as a writer prints it: split at the capitals when one of its patterns is found, then upper case -/
def centerWrite (pats : List String) (name : List Char) : List Char :=
  ((if pats.any (fun p => patMatch p name) then camelSplit name false else name).map up)

/-- `str.title()` on ASCII: a letter after a letter is lowered, any other letter is raised -/
def titleCase : List Char → Bool → List Char
  | [], _ => []
  | c :: r, prevLetter =>
    let letter := isUp c || isLow c
    (if letter then (if prevLetter then low c else up c) else c) :: titleCase r letter

/-- the readers: `center.title().replace(" ", "")` (used when `center.lower() != "earth"`) -/
def centerRead (text : List Char) : List Char := (titleCase text false).filter (· ≠ ' ')

end BeyondVerif.CcsdsExt
