import BeyondVerif.Model.Cov
/-!
Several `Cov` objects (and the state vectors they are attached to) alive in one process.

`Model/Cov.lean` describes ONE covariance object as a record.  The real objects are Python objects:
an ndarray buffer (possibly looked at by several arrays: `.T`, `c[:]`, `.view()` share it), a
`_data` dict (`frame`, `orb`) reached through the instance `__dict__`, the private state copy the
dict points to, and the instance attribute `_orb_frame`.  Which of these cells two `Cov` objects
share is decided by `Cov.__new__`, `Cov.copy`, `Cov.__array_finalize__` (what numpy calls for every
array it derives from a `Cov`: `k * c`, `a + b`, `c.T`, `c[:]`, `copy.copy(c)`, …),
`Cov.__reduce__/__setstate__` (pickle) and `StateVector.cov` setter.  This file models exactly that:
a heap of cells addressed by ids and objects that name their cells.

The frame-change arithmetic is NOT repeated here: `Heap.hop` reads the cells of one object into a
`Cov.St`, applies `Cov.setFrame` of Model/Cov.lean and writes the result back into the cells of
that object.  There is no memo of conversion matrices in the code, and none here: every hop
recomputes its matrix from the cells of the object it is applied to.

Cells are total maps `Nat → α` (ids at or above the allocation counter are unused); this keeps the
read-after-write lemmas one `if` deep.  No Mathlib import: linked into the native driver.
-/
namespace BeyondVerif.CovHeap
open BeyondVerif.Cov

/-- total-map update -/
def upd {α : Type} (f : Nat → α) (i : Nat) (v : α) : Nat → α := fun k => if k = i then v else f k

@[simp] theorem upd_same {α : Type} (f : Nat → α) (i : Nat) (v : α) : upd f i v i = v := by simp [upd]
theorem upd_other {α : Type} (f : Nat → α) {i k : Nat} (v : α) (h : k ≠ i) : upd f i v k = f k := by simp [upd, h]

/-- a private state copy (`_data["orb"]` of a `Cov`): a cartesian `StateVector` -/
structure OrbCell (F D Vec : Type) where
  date : D
  frame : F
  x : Vec

/-- the `_data` dict of a `Cov` -/
structure DataCell (F : Type) where
  /-- `_data["frame"]` -/
  tag : Tag F
  /-- `_data["orb"]`: id of the private state copy -/
  orb : Nat

/-- a `Cov` instance -/
structure Obj (F : Type) where
  /-- id of the memory the array looks at -/
  buf : Nat
  /-- the array sees that memory transposed (`c.T`) -/
  tr : Bool
  /-- id of its `_data` dict -/
  data : Nat
  /-- the instance attribute `_orb_frame`; set by `__new__`, carried over by `__array_finalize__`
  since /repo c5f38c8 (before, arrays made by numpy out of a `Cov` did not have it: `none`) -/
  orbFrame : Option F

/-- a `StateVector` as far as `Cov` is concerned: date, frame, cartesian coordinates, attached `Cov` object -/
structure SvCell (F D Vec : Type) where
  date : D
  frame : F
  x : Vec
  cov : Option Nat

structure Heap (F D Mat Vec : Type) where
  buf : Nat → Mat
  data : Nat → DataCell F
  orb : Nat → OrbCell F D Vec
  obj : Nat → Obj F
  sv : Nat → SvCell F D Vec
  nbuf : Nat
  ndata : Nat
  norb : Nat
  nobj : Nat

/-- numeric environment: the date-independent part (`mul`, `tr`, `one`, `apply`, `toLocal`; the
`conv` field of `base` is not used) and the orientation conversions at each date -/
structure HEnv (F D Mat Vec : Type) where
  base : Env F Mat Vec
  convAt : D → F → F → Mat

/-- the single-object environment at the date of a state -/
def HEnv.at {F D Mat Vec : Type} (E : HEnv F D Mat Vec) (d : D) : Env F Mat Vec := { E.base with conv := E.convAt d }

/-- what can be observed of one `Cov` object -/
structure View (F D Mat Vec : Type) where
  tag : Tag F
  orbFrame : Option F
  date : D
  orbCur : F
  orb : Vec
  mat : Mat

variable {F D Mat Vec : Type} [DecidableEq F]

/-- the single-object record of Model/Cov.lean for an observed object (`_orb_frame` is only read by
`setFrame` when the current tag or the target is a frame; when absent the slot is filled with the
frame of the private copy and `hopOk` keeps `setFrame` from reading it) -/
def View.st (v : View F D Mat Vec) : St F Mat Vec :=
  { tag := v.tag, orbFrame := v.orbFrame.getD v.orbCur, orbCur := v.orbCur, orb := v.orb, mat := v.mat }

def isLocTag : Tag F → Bool
  | .loc _ => true
  | .frame _ => false

/-- `np.array(obj)`: the values as the object sees them -/
def Heap.readMat (E : HEnv F D Mat Vec) (h : Heap F D Mat Vec) (o : Obj F) : Mat :=
  if o.tr then E.base.tr (h.buf o.buf) else h.buf o.buf

def Heap.view (E : HEnv F D Mat Vec) (h : Heap F D Mat Vec) (i : Nat) : View F D Mat Vec :=
  let o := h.obj i
  let d := h.data o.data
  let c := h.orb d.orb
  { tag := d.tag, orbFrame := o.orbFrame, date := c.date, orbCur := c.frame, orb := c.x, mat := h.readMat E o }

/-- does `obj.frame = t` run to completion?  `self._orb_frame` is evaluated (AttributeError when the
attribute is absent) as soon as the current tag or the target is a frame and they differ.  Since
/repo c5f38c8 every object the operations below can make has the attribute; the case is kept so
that the model says what the setter does if the attribute goes missing again -/
def hopOk (v : View F D Mat Vec) (t : Tag F) : Bool :=
  decide (t = v.tag) || v.orbFrame.isSome || (isLocTag v.tag && isLocTag t)

/-- `obj_i.frame = t`: the setter of Model/Cov.lean on the cells of object `i`
(`self.view(np.ndarray)[:] = cov` writes through the object's own strides; `self._data["frame"] = t`);
the heap is untouched when the setter raises -/
def Heap.hop (E : HEnv F D Mat Vec) (h : Heap F D Mat Vec) (i : Nat) (t : Tag F) : Heap F D Mat Vec :=
  let v := h.view E i
  if t = v.tag then h
  else if hopOk v t then
    let s := setFrame (E.at v.date) v.st t
    let o := h.obj i
    { h with buf := upd h.buf o.buf (if o.tr then E.base.tr s.mat else s.mat),
             data := upd h.data o.data { h.data o.data with tag := t } }
  else h

/-- a sequence of frame assignments addressed to several objects -/
def Heap.hops (E : HEnv F D Mat Vec) (h : Heap F D Mat Vec) (ops : List (Nat × Tag F)) : Heap F D Mat Vec :=
  ops.foldl (fun h op => h.hop E op.1 op.2) h

/-- `value.copy(form="cartesian")` of state `s`, stored as a new private copy; returns its id -/
def Heap.allocOrb (h : Heap F D Mat Vec) (c : OrbCell F D Vec) : Heap F D Mat Vec :=
  { h with orb := upd h.orb h.norb c, norb := h.norb + 1 }

/-- `Cov(sv_s, values, tag)`: new buffer, new dict, new private copy of the state, `_orb_frame = sv.frame` -/
def Heap.newCov (h : Heap F D Mat Vec) (s : Nat) (tag : Tag F) (c : Mat) : Heap F D Mat Vec :=
  let v := h.sv s
  { h with
    buf := upd h.buf h.nbuf c, nbuf := h.nbuf + 1,
    orb := upd h.orb h.norb { date := v.date, frame := v.frame, x := v.x }, norb := h.norb + 1,
    data := upd h.data h.ndata { tag := tag, orb := h.norb }, ndata := h.ndata + 1,
    obj := upd h.obj h.nobj { buf := h.nbuf, tr := false, data := h.ndata, orbFrame := some v.frame }, nobj := h.nobj + 1 }

/-- `Cov(sv_s, obj_i, <anything>)`: values and tag taken from `obj_i` -/
def Heap.fromCov (E : HEnv F D Mat Vec) (h : Heap F D Mat Vec) (s i : Nat) : Heap F D Mat Vec :=
  h.newCov s (h.view E i).tag (h.view E i).mat

/-- what `__array_finalize__` does for an array numpy made from template `obj_i`:
`self._data = obj._data.copy()` — a NEW dict with the same two values (the private state copy is
shared, it is never modified by `Cov`) — and `self._orb_frame = obj._orb_frame` (since /repo
c5f38c8).  `buf`/`tr` say which memory the new array looks at. -/
def Heap.finalize (h : Heap F D Mat Vec) (i : Nat) (buf : Nat) (tr : Bool) : Heap F D Mat Vec :=
  { h with
    data := upd h.data h.ndata (h.data (h.obj i).data), ndata := h.ndata + 1,
    obj := upd h.obj h.nobj { buf := buf, tr := tr, data := h.ndata, orbFrame := (h.obj i).orbFrame }, nobj := h.nobj + 1 }

/-- result of a numpy operation with `obj_i` as template and a fresh output buffer holding `val`
(`k * c`, `-c`, `c + d`, `c @ d`, `np.array(c, subok=True)`, `copy.copy(c)`, `copy.deepcopy(c)`, `c.astype(float)`) -/
def Heap.derive (h : Heap F D Mat Vec) (i : Nat) (val : Mat) : Heap F D Mat Vec :=
  ({ h with buf := upd h.buf h.nbuf val, nbuf := h.nbuf + 1 } : Heap F D Mat Vec).finalize i h.nbuf false

/-- unary numpy operation `g` on `obj_i` -/
def Heap.map (E : HEnv F D Mat Vec) (h : Heap F D Mat Vec) (i : Nat) (g : Mat → Mat) : Heap F D Mat Vec :=
  h.derive i (g (h.view E i).mat)

/-- binary numpy operation `g obj_i obj_j`: the template is the first operand -/
def Heap.map2 (E : HEnv F D Mat Vec) (h : Heap F D Mat Vec) (i j : Nat) (g : Mat → Mat → Mat) : Heap F D Mat Vec :=
  h.derive i (g (h.view E i).mat (h.view E j).mat)

/-- a view of `obj_i` (`c[:]`, `c.view()`, `c.reshape(6, 6)`; `flip` for `c.T`): same memory -/
def Heap.mkView (h : Heap F D Mat Vec) (i : Nat) (flip : Bool) : Heap F D Mat Vec :=
  h.finalize i (h.obj i).buf (if flip then !(h.obj i).tr else (h.obj i).tr)

/-- in-place numpy operation `obj_i *= k`: writes the buffer, no new object -/
def Heap.write (E : HEnv F D Mat Vec) (h : Heap F D Mat Vec) (i : Nat) (g : Mat → Mat) : Heap F D Mat Vec :=
  let o := h.obj i
  let m := g (h.readMat E o)
  { h with buf := upd h.buf o.buf (if o.tr then E.base.tr m else m) }

/-- `obj_i.copy()`: `Cov(self.orb, np.array(self), frame=self.frame)` — everything new, `_orb_frame`
is the frame of the private copy -/
def Heap.copyCov (E : HEnv F D Mat Vec) (h : Heap F D Mat Vec) (i : Nat) : Heap F D Mat Vec :=
  let v := h.view E i
  { h with
    buf := upd h.buf h.nbuf v.mat, nbuf := h.nbuf + 1,
    orb := upd h.orb h.norb { date := v.date, frame := v.orbCur, x := v.orb }, norb := h.norb + 1,
    data := upd h.data h.ndata { tag := v.tag, orb := h.norb }, ndata := h.ndata + 1,
    obj := upd h.obj h.nobj { buf := h.nbuf, tr := false, data := h.ndata, orbFrame := some v.orbCur }, nobj := h.nobj + 1 }

/-- `pickle.loads(pickle.dumps(obj_i))`: `__reduce__` carries the instance `__dict__`
(`_data`, and `_orb_frame` when present), everything is rebuilt -/
def Heap.pickle (E : HEnv F D Mat Vec) (h : Heap F D Mat Vec) (i : Nat) : Heap F D Mat Vec :=
  let v := h.view E i
  { h with
    buf := upd h.buf h.nbuf v.mat, nbuf := h.nbuf + 1,
    orb := upd h.orb h.norb { date := v.date, frame := v.orbCur, x := v.orb }, norb := h.norb + 1,
    data := upd h.data h.ndata { tag := v.tag, orb := h.norb }, ndata := h.ndata + 1,
    obj := upd h.obj h.nobj { buf := h.nbuf, tr := false, data := h.ndata, orbFrame := v.orbFrame }, nobj := h.nobj + 1 }

/-- `sv_s.cov = obj_i`: the state remembers the object; `Cov.orb` setter stores a new private copy
of the state in the object's dict and (since /repo eca9727) sets the object's `_orb_frame` to the frame of that copy -/
def Heap.attach (h : Heap F D Mat Vec) (s i : Nat) : Heap F D Mat Vec :=
  let v := h.sv s
  let o := h.obj i
  { h with
    sv := upd h.sv s { v with cov := some i },
    orb := upd h.orb h.norb { date := v.date, frame := v.frame, x := v.x }, norb := h.norb + 1,
    data := upd h.data o.data { h.data o.data with orb := h.norb },
    obj := upd h.obj i { o with orbFrame := some v.frame } }

/-- `sv_s.frame = g`: the state is re-expressed, then an attached covariance tagged with the frame
the state had follows; when that assignment raises, the state is put back where it was (since /repo
45ca5d0) and nothing has changed -/
def Heap.svHop (E : HEnv F D Mat Vec) (h : Heap F D Mat Vec) (s : Nat) (g : F) : Heap F D Mat Vec :=
  let v := h.sv s
  let h1 : Heap F D Mat Vec :=
    if g ≠ v.frame then { h with sv := upd h.sv s { v with frame := g, x := E.base.apply (E.convAt v.date v.frame g) v.x } } else h
  match v.cov with
  | none => h1
  | some i =>
    if (h1.view E i).tag = .frame v.frame then
      (if hopOk (h1.view E i) (.frame g) then h1.hop E i (.frame g) else h)
    else h1

/-- the caller overwrites state `s` IN PLACE: component assignment (`sv[i] = v`, `sv[:] = …`, `sv *= k`), another form
(`sv.form = …`: the same point, given to the model by its cartesian coordinates) or another date (`sv.date = d`).
No cell of any covariance is read or written: a `Cov` holds a private copy of the state it was made for
(`Cov.__new__` and `sv.cov = c` both go through the `orb` setter, which stores `value.copy(form="cartesian")`). -/
def Heap.svSet (h : Heap F D Mat Vec) (s : Nat) (d : D) (x : Vec) : Heap F D Mat Vec :=
  { h with sv := upd h.sv s { h.sv s with date := d, x := x } }

/-- the assignment inside `svHop` raised -/
def Heap.svHopOk (E : HEnv F D Mat Vec) (h : Heap F D Mat Vec) (s : Nat) (g : F) : Bool :=
  let v := h.sv s
  match v.cov with
  | none => true
  | some i => if (h.view E i).tag = .frame v.frame then hopOk (h.view E i) (.frame g) else true

/-! ### The variant `__array_finalize__` must not become

`self.__dict__.update(obj.__dict__)`: the derived array gets the template's attributes themselves,
i.e. the SAME `_data` dict (and `_orb_frame`).  Used only by Witness/C14.lean to show, kernel-checked,
what the oracle family `derived-alias` guards against. -/
def Heap.finalizeShared (h : Heap F D Mat Vec) (i : Nat) (buf : Nat) (tr : Bool) : Heap F D Mat Vec :=
  { h with obj := upd h.obj h.nobj { buf := buf, tr := tr, data := (h.obj i).data, orbFrame := (h.obj i).orbFrame }, nobj := h.nobj + 1 }

def Heap.deriveShared (h : Heap F D Mat Vec) (i : Nat) (val : Mat) : Heap F D Mat Vec :=
  ({ h with buf := upd h.buf h.nbuf val, nbuf := h.nbuf + 1 } : Heap F D Mat Vec).finalizeShared i h.nbuf false

/-! ### The variant the setter must not become: a memo of the hop matrix keyed by less than the state

`key = (orb.date, _orb_frame, current tag, target)` → matrix.  Used only by Witness/C14.lean. -/
structure MemoHeap (F D Mat Vec : Type) where
  heap : Heap F D Mat Vec
  memo : List ((D × F × Tag F × Tag F) × Mat)

def MemoHeap.hop [DecidableEq D] (E : HEnv F D Mat Vec) (m : MemoHeap F D Mat Vec) (i : Nat) (t : Tag F) : MemoHeap F D Mat Vec :=
  let h := m.heap
  let v := h.view E i
  if t = v.tag then m
  else match v.orbFrame with
    | none => m
    | some f =>
      let key := (v.date, f, v.tag, t)
      let (M, memo) := match m.memo.find? (fun e => decide (e.1 = key)) with
        | some e => (e.2, m.memo)
        | none => let M := hopMat (E.at v.date) v.st t; (M, (key, M) :: m.memo)
      let o := h.obj i
      let c := E.base.mul (E.base.mul M v.mat) (E.base.tr M)
      { heap := { h with buf := upd h.buf o.buf (if o.tr then E.base.tr c else c),
                         data := upd h.data o.data { h.data o.data with tag := t } },
        memo := memo }

end BeyondVerif.CovHeap
