/-!
Discrete model of the registration of orbit-attached frames (beyond/frames/frames.py `orbit2frame`,
`Frame.__init__`: `dynamic[name] = self`; beyond/frames/orient.py `LocalOrbitalOrientation.__init__`:
`setattr(Orientation, f"{name}_to_{parent}", self._to_parent)`; beyond/frames/center.py `add_link`:
`setattr(Center, f"{name}_to_{parent}", self._to_parent)`).

A name is bound to an orientation tag and a reference orbit (an id here).  Registering a name again
rebinds it; a conversion reads the binding current at the time of the call and leaves the registry
unchanged: nothing computed for an earlier binding or an earlier conversion may survive.

One thing does survive in the code as it is (open finding C17-reregistered-under-other-parent): every registration with a
local orientation adds a node called `name` to the graph of orientations, linked to the orientation of its `parent`
argument, and nothing ever removes it.  A conversion *into* the frame looks the name up in that graph from the orientation
of the state being converted and reaches the nearest node of that name: an earlier registration under a nearer parent
wins over the latest one (`lookupInto`).  The origin (the `Center` link, always re-attached to the same centre) and
conversions *out of* the frame use the latest registration (`lookup`).
-/
namespace BeyondVerif.FrameReg

/-- what a frame name is bound to: orientation tag ("QSW" / "TNW" / "-" = axes of the parent) and reference orbit -/
structure Entry where
  tag : String
  orbit : Nat
  /-- number of orientation links between the `parent` the frame was attached to and the orientation of the states that
  are converted into it (0 when both are EME2000, the default) -/
  pdist : Nat := 0
  deriving DecidableEq, Repr

abbrev Reg := List (String × Entry)

/-- `orbit2frame(name, ref, orientation=tag, exists_warning=False)` -/
def register (r : Reg) (name : String) (e : Entry) : Reg := (name, e) :: r

/-- the binding a conversion into / out of frame `name` uses -/
def lookup : Reg → String → Option Entry
  | [], _ => none
  | (n, e) :: rest, name => if n = name then some e else lookup rest name

/-- the registration whose *axes* a conversion into `name` uses: the latest one when it keeps the axes of its parent
(tag "-": no node is added); otherwise, among the registrations of `name` that added a node, the one attached nearest
(the latest of those) -/
def nearest : Reg → String → Option Entry
  | [], _ => none
  | (n, e) :: rest, name =>
    if n = name ∧ e.tag ≠ "-" then
      match nearest rest name with
      | some e' => if e'.pdist < e.pdist then some e' else some e
      | none => some e
    else nearest rest name

def lookupInto (r : Reg) (name : String) : Option Entry :=
  match lookup r name with
  | some e => if e.tag = "-" then some e else nearest r name
  | none => none

inductive Op where
  | reg (name : String) (e : Entry)
  | conv (name : String)

/-- registry after a sequence of operations -/
def state : Reg → List Op → Reg
  | r, [] => r
  | r, Op.reg n e :: ops => state (register r n e) ops
  | r, Op.conv _ :: ops => state r ops

/-- the binding used by each conversion of a sequence, in order -/
def run : Reg → List Op → List (Option Entry)
  | _, [] => []
  | r, Op.reg n e :: ops => run (register r n e) ops
  | r, Op.conv n :: ops => lookup r n :: run r ops

/-- the registration whose axes each conversion of a sequence uses when it goes *into* the frame -/
def runInto : Reg → List Op → List (Option Entry)
  | _, [] => []
  | r, Op.reg n e :: ops => runInto (register r n e) ops
  | r, Op.conv n :: ops => lookupInto r n :: runInto r ops

/-! ### The reference objects

`orbit2frame(name, ref, …)` keeps a *reference to* `ref` (an `Orbit` with a propagator, an `Ephem`, or a plain
`StateVector`; expressed in the parent frame or in any other one): `Center.offset` and
`LocalOrbitalOrientation.statevector` are that very object.  A conversion reads it (`propagate(date)` when it has
one, then `.copy(form="cartesian", frame=…)`) and must not write to it.  The world of a session is the registry plus
the store of reference objects as the conversions can observe them; no operation has a case that writes to the store. -/

/-- a reference object as a conversion observes it: its class, the frame and form it is expressed in and its six
coordinates (bit patterns of the doubles) -/
structure RefObj where
  kind : String
  frame : String
  form : String
  coords : List Nat
  deriving DecidableEq, Repr

structure World where
  reg : Reg
  refs : List RefObj

/-- what a conversion through `name` reads: the binding and the reference object bound -/
def readConv (w : World) (name : String) : Option (Entry × Option RefObj) :=
  (lookup w.reg name).map (fun e => (e, w.refs[e.orbit]?))

/-- one operation of a session -/
def stepW (w : World) : Op → World × Option (Option (Entry × Option RefObj))
  | Op.reg n e => ({ w with reg := register w.reg n e }, none)
  | Op.conv n => (w, some (readConv w n))

/-- world after a session -/
def stateW : World → List Op → World
  | w, [] => w
  | w, o :: ops => stateW (stepW w o).1 ops

/-- what each conversion of a session reads, in order -/
def runW : World → List Op → List (Option (Entry × Option RefObj))
  | _, [] => []
  | w, o :: ops => match (stepW w o).2 with
    | some r => r :: runW (stepW w o).1 ops
    | none => runW (stepW w o).1 ops

end BeyondVerif.FrameReg
