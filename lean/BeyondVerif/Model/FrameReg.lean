/-!
Discrete model of the registration of orbit-attached frames (beyond/frames/frames.py `orbit2frame`,
`Frame.__init__`: `dynamic[name] = self`; beyond/frames/orient.py `LocalOrbitalOrientation.__init__`:
`setattr(Orientation, f"{name}_to_{parent}", self._to_parent)`; beyond/frames/center.py `add_link`:
`setattr(Center, f"{name}_to_{parent}", self._to_parent)`).

A name is bound to an orientation tag and a reference orbit (an id here).  Registering a name again
rebinds it; a conversion reads the binding current at the time of the call and leaves the registry
unchanged: nothing computed for an earlier binding or an earlier conversion may survive.
-/
namespace BeyondVerif.FrameReg

/-- what a frame name is bound to: orientation tag ("QSW" / "TNW" / "-" = axes of the parent) and reference orbit -/
structure Entry where
  tag : String
  orbit : Nat
  deriving DecidableEq, Repr

abbrev Reg := List (String × Entry)

/-- `orbit2frame(name, ref, orientation=tag, exists_warning=False)` -/
def register (r : Reg) (name : String) (e : Entry) : Reg := (name, e) :: r

/-- the binding a conversion into / out of frame `name` uses -/
def lookup : Reg → String → Option Entry
  | [], _ => none
  | (n, e) :: rest, name => if n = name then some e else lookup rest name

inductive Op where
  | reg (name : String) (e : Entry)
  | conv (name : String)

/-- registry after a sequence of operations -/
def state : Reg → List Op → Reg
  | r, [] => r
  | r, Op.reg n e :: ops => state (register r n e) ops
  | r, Op.conv _ :: ops => state r ops

/-- the binding used by each conversion of a sequence, in order -/
def run : Reg → List Op → List (Option Entry)
  | _, [] => []
  | r, Op.reg n e :: ops => run (register r n e) ops
  | r, Op.conv n :: ops => lookup r n :: run r ops

end BeyondVerif.FrameReg
