/-
Model of the OBJECT side of beyond/propagators/sgp4beta.py: `Sgp4Beta` instances keep, between calls, the orbit they were
bound to (`self.tle`) and the constants the setter computed from it (`self._init`, an `Init()` object).  Several instances
may be alive at once, bound to different orbits, and used in any order.

`storage` says where the `Init()` object lives — read from the AST of the source on every run
(Generated/Sgp4BetaInst.lean): created by the setter (one per binding: `perInstance`) or in the class body (one for all
instances: `shared`).  The numeric content (`init`, `prop`) is a parameter here; it is `sgp4Init` / `sgp4Prop` of
Generated/Sgp4Beta*.lean.

No Mathlib import: part of the line-protocol driver.
-/
namespace BeyondVerif.Sgp4Inst

inductive Storage where
  | perInstance
  | shared
deriving DecidableEq, Repr

structure Native (O I T K : Type) where
  init : O → I
  prop : O → I → T → K

/-- what is kept: per instance the bound orbit and its own constants; plus the one `Init` object of the class -/
structure State (O I : Type) where
  bound : Nat → Option (O × I)
  cls : Option I

def State.empty {O I : Type} : State O I := ⟨fun _ => none, none⟩

inductive Op (O T : Type) where
  | bind (inst : Nat) (o : O)
  | propagate (inst : Nat) (t : T)

/-- `p.orbit = o`: the setter stores the orbit and fills the constants — into a new object of its own or into the class's -/
def bind {O I T K : Type} (m : Native O I T K) (s : State O I) (i : Nat) (o : O) : State O I :=
  ⟨fun j => if j = i then some (o, m.init o) else s.bound j, some (m.init o)⟩

/-- `p.propagate(t)`: reads `self.tle` and `self._init` -/
def reply {O I T K : Type} (m : Native O I T K) (st : Storage) (s : State O I) (i : Nat) (t : T) : Option K :=
  match s.bound i with
  | none => none
  | some (o, own) =>
    match st with
    | Storage.perInstance => some (m.prop o own t)
    | Storage.shared => s.cls.map (fun c => m.prop o c t)

/-- the orbit an instance is bound to -/
def boundOrbit {O I : Type} (s : State O I) (i : Nat) : Option O := (s.bound i).map (·.1)

/-- the propagations of a history: instance, time, the orbit the instance was bound to at that call, the reply -/
def run {O I T K : Type} (m : Native O I T K) (st : Storage) : State O I → List (Op O T) → List (Nat × T × Option O × Option K)
  | _, [] => []
  | s, Op.bind i o :: rest => run m st (bind m s i o) rest
  | s, Op.propagate i t :: rest => (i, t, boundOrbit s i, reply m st s i t) :: run m st s rest

/-- invariant of every reachable state: the constants kept for an instance are those of its orbit -/
def Consistent {O I T K : Type} (m : Native O I T K) (s : State O I) : Prop :=
  ∀ i o c, s.bound i = some (o, c) → c = m.init o

/-- the driver's instance: orbits are numbers, the "state vector" names (orbit whose elements were used, orbit whose constants were used) -/
def idNative : Native Nat Nat Nat (Nat × Nat) := ⟨id, fun o c _ => (o, c)⟩

/-- `natseq`: tokens `b<inst>:<orbit>` and `p<inst>` ↦ per `p`: `<orbit of the elements>:<orbit of the constants>` or `unbound` -/
def runSeq (st : Storage) : State Nat Nat → List String → Option (List String)
  | _, [] => some []
  | s, tok :: rest =>
    if tok.startsWith "b" then
      match ((tok.drop 1).toString.splitOn ":").map String.toNat? with
      | [some i, some o] => runSeq st (bind idNative s i o) rest
      | _ => none
    else if tok.startsWith "p" then
      match (tok.drop 1).toString.toNat? with
      | some i =>
        let r := match reply idNative st s i 0 with
          | some (o, c) => toString o ++ ":" ++ toString c
          | none => "unbound"
        (runSeq st s rest).map (r :: ·)
      | none => none
    else none

end BeyondVerif.Sgp4Inst
