/- GENERATED from lean/templates/Local.tpl by harness/instantiate.py — edit the template. Float instantiation. -/
import BeyondVerif.NumFloat
namespace BeyondVerif.F
open BeyondVerif.NumFloat
set_option linter.unusedVariables false

/-!
Model of beyond/frames/local.py (`to_qsw`, `to_tnw`, `to_local`) and of
beyond/utils/matrix.py `expand` without rate.  States are lists `[px, py, pz, vx, vy, vz]`,
matrices lists of rows.  Hand-written; tied to the source by the correspondence op `tolocal`.
-/

/-- `np.cross` -/
def cross3 (a b : List R) : List R :=
  match a, b with
  | [a0, a1, a2], [b0, b1, b2] => [a1 * b2 - a2 * b1, a2 * b0 - a0 * b2, a0 * b1 - a1 * b0]
  | _, _ => []

/-- `numpy.linalg.norm` of a 3-vector -/
def norm3 (a : List R) : R :=
  match a with
  | [a0, a1, a2] => sqrt (a0 * a0 + a1 * a1 + a2 * a2)
  | _ => 0

/-- `a / s` -/
def div3 (a : List R) (s : R) : List R := a.map (fun c => c / s)

/-- `to_qsw`: rows q = pos/|pos|, s = w × q, w = (pos × vel)/|pos × vel| -/
def toQsw (x : List R) : List (List R) :=
  let pos := x.take 3
  let vel := x.drop 3
  let q := div3 pos (norm3 pos)
  let h := cross3 pos vel
  let w := div3 h (norm3 h)
  let s := cross3 w q
  [q, s, w]

/-- `to_tnw`: rows t = vel/|vel|, n = w × t, w = (pos × vel)/|pos × vel| -/
def toTnw (x : List R) : List (List R) :=
  let pos := x.take 3
  let vel := x.drop 3
  let t := div3 vel (norm3 vel)
  let h := cross3 pos vel
  let w := div3 h (norm3 h)
  let n := cross3 w t
  [t, n, w]

/-- `expand(m)` with `rate=None`: block diagonal 6×6 -/
def expand3 (m : List (List R)) : List (List R) :=
  m.map (fun r => r ++ [0, 0, 0]) ++ m.map (fun r => [0, 0, 0] ++ r)

/-- `to_local(name, orbit)` with `expanded=True` -/
def toLocal6 (tnw : Bool) (x : List R) : List (List R) :=
  expand3 (if tnw then toTnw x else toQsw x)

end BeyondVerif.F
