/- GENERATED from lean/templates/Mission.tpl by harness/instantiate.py — edit the template. Float instantiation. -/
import BeyondVerif.NumFloat
import BeyondVerif.Generated.LambertFnF
import BeyondVerif.Generated.LeoFnF
import BeyondVerif.Generated.LtanFnF
import BeyondVerif.Generated.WalkerFnF
import BeyondVerif.Generated.BetaFnF
namespace BeyondVerif.F
open BeyondVerif.NumFloat
set_option linter.unusedVariables false

/-!
Model of the mission-design helpers of beyond/utils (lambert.py, constellation.py, beta.py,
interplanetary.py) on top of the scalar formulas translated from the source
(Generated/LambertFn incl. the direction / way selection `lamDthetaSrc`, LeoFn, LtanFn, WalkerFn, BetaFn).  Hand-written here:
3-vector algebra, the two loops of `_lambert`, the generator loops of the Walker classes, the J2 propagator object as a
state machine, and `bplane`.
-/

structure V3 where
  x : R
  y : R
  z : R

namespace V3
def dot (a b : V3) : R := a.x * b.x + a.y * b.y + a.z * b.z
def cross (a b : V3) : V3 := ⟨a.y * b.z - a.z * b.y, a.z * b.x - a.x * b.z, a.x * b.y - a.y * b.x⟩
def norm (a : V3) : R := sqrt (dot a a)
def smul (k : R) (a : V3) : V3 := ⟨k * a.x, k * a.y, k * a.z⟩
def sdiv (a : V3) (k : R) : V3 := ⟨a.x / k, a.y / k, a.z / k⟩
def add (a b : V3) : V3 := ⟨a.x + b.x, a.y + b.y, a.z + b.z⟩
def sub (a b : V3) : V3 := ⟨a.x - b.x, a.y - b.y, a.z - b.z⟩
end V3

/-! ## durations -/

/-- `timedelta.total_seconds()` of a normalised timedelta (`days`, `0 ≤ seconds < 86400`, `0 ≤ microseconds < 10⁶`):
`((days·86400 + seconds)·10⁶ + microseconds) / 10⁶` (CPython: one true division of two integers) — the number of seconds
that `_F` (lambert.py) and `J2.propagate` read from the durations they are given (`timedeltaReads`, Generated/LeoFn) -/
def tdTotal (days seconds microseconds : R) : R := ((days * 86400 + seconds) * 1000000 + microseconds) / 1000000

/-! ## `_lambert` -/

/-- transfer angle: `arccos(r0.r1 / (|r0||r1|))`, replaced by `2π - …` according to the requested direction and the sign
of the z component of `r0 × r1` — the head of `_lambert` as translated from the source (`lamDthetaSrc`, Generated/LambertFn):
which comparison is strict and what happens at `cr[2] = 0` is whatever the source says -/
def lamDtheta (r0 r1 : V3) (prograde : Bool) : R :=
  lamDthetaSrc r0.x r0.y r0.z r1.x r1.y r1.z prograde

/-- `z_low = -inf; while _F(z) < 0: z_low = z; z += 0.05` — unbounded in the code, hence the fuel;
`none` = fuel exhausted.  Returns `(z_low, z)`; `z_low = none` stands for `-inf` (the scan did not move). -/
def lamScan (nr0 nr1 A duration mu : R) : Nat → Option R → R → Option (Option R × R)
  | 0, _, _ => none
  | fuel + 1, lo, z =>
    if lamF nr0 nr1 A z duration mu < 0 then lamScan nr0 nr1 A duration mu fuel (some z) (z + 0.05) else some (lo, z)

/-- `z_low <= c <= z_high`, a missing bound being infinite -/
def lamInBracket (lo hi : Option R) (c : R) : Prop :=
  (match lo with | some l => l ≤ c | none => True) ∧ (match hi with | some h => c ≤ h | none => True)

instance (lo hi : Option R) (c : R) : Decidable (lamInBracket lo hi c) := by
  unfold lamInBracket; cases lo <;> cases hi <;> exact inferInstance

/-- `(z_low + z_high) / 2`.  With an infinite bound the code computes ∓inf or NaN (and everything after it is
NaN); `1/0`, `0/0` reproduce that in double precision, over ℝ they are junk values no theorem speaks about. -/
def lamMid (lo hi : Option R) : R :=
  match lo, hi with
  | some l, some h => (l + h) / 2
  | none, some _ => -(1 / 0)
  | some _, none => 1 / 0
  | none, none => 0 / 0

/-- the bracketed Newton loop (fix 5cfb34d):
`for n in range(nmax): F_z = F(z); z_low = z if F_z < 0 else z_high = z; ratio = F_z/dF(z);
 if not z_low <= z - ratio <= z_high: ratio = z - (z_low + z_high)/2; z -= ratio; if abs(ratio) < tol: break`.
Returns the final `z` and whether the loop was left through `break` (otherwise the code only logs
a warning and goes on with the last iterate). -/
def lamNewton (nr0 nr1 A duration mu tol : R) : Nat → Option R → Option R → R → R × Bool
  | 0, _, _, z => (z, false)
  | n + 1, lo, hi, z =>
    let Fz := lamF nr0 nr1 A z duration mu
    let lo' := if Fz < 0 then some z else lo
    let hi' := if Fz < 0 then hi else some z
    let newton := Fz / lamDF nr0 nr1 A z
    let ratio := if lamInBracket lo' hi' (z - newton) then newton else z - lamMid lo' hi'
    if absR ratio < tol then (z - ratio, true) else lamNewton nr0 nr1 A duration mu tol n lo' hi' (z - ratio)

/-- the velocities built from `f, g, gdot` -/
def lamVel (nr0 nr1 A z mu : R) (r0 r1 : V3) : V3 × V3 :=
  let fg := lamFG nr0 nr1 A z mu
  let f := fg.1
  let g := fg.2.1
  let gdot := fg.2.2
  (V3.smul (1 / g) (V3.sub r1 (V3.smul f r0)), V3.smul (1 / g) (V3.sub (V3.smul gdot r1) r0))

/-- `_lambert(r0, r1, duration, mu, prograde)`; `none` iff the bracketing scan needs more than `fuel` steps -/
def lambert (r0 r1 : V3) (duration mu : R) (prograde : Bool) (fuel : Nat) : Option (V3 × V3 × R × Bool) :=
  let nr0 := V3.norm r0
  let nr1 := V3.norm r1
  let A := lamA nr0 nr1 (lamDtheta r0 r1 prograde)
  match lamScan nr0 nr1 A duration mu fuel none 0 with
  | none => none
  | some (lo, z0) =>
    let hi : Option R := match lo with | some _ => some z0 | none => none
    let zc := lamNewton nr0 nr1 A duration mu 1e-8 5000 lo hi z0
    let vv := lamVel nr0 nr1 A zc.1 mu r0 r1
    some (vv.1, vv.2, zc.1, zc.2)

/-! ## the J2 propagator object behind `Orbit.propagate` / `Orbit.iter` (propagators/j2.py)

`Orbit.propagate(date)` hands the orbit to the propagator (`self.propagator.orbit = self`: the getter returns the
propagator's private copy, which never `is` the user's orbit, so the setter runs at every call), then calls
`J2.propagate`.  The setter (`j2OrbitSetter`, Generated/LeoFn, read from the source) stores a copy of the user's orbit
in mean elements; `J2.propagate` reads that copy only.  Modelled as a state machine over the user's orbit (six mean
elements and an epoch in seconds, which the user may change in place) and the propagator's private copy. -/

structure MeanEl where
  a : R
  e : R
  i : R
  raan : R
  argp : R
  M : R
  t : R

/-- `orb[k] = v` on an orbit in `keplerian_mean` form (an index ≥ 6 raises IndexError in numpy: no-op here, never generated) -/
def MeanEl.set (o : MeanEl) (k : Nat) (v : R) : MeanEl :=
  match k with
  | 0 => { o with a := v }
  | 1 => { o with e := v }
  | 2 => { o with i := v }
  | 3 => { o with raan := v }
  | 4 => { o with argp := v }
  | 5 => { o with M := v }
  | _ => o

/-- `J2.propagate(timedelta)` on the private copy `o`: `new = orbit[:] + [0,0,0,dΩ,dω,dM+n]·Δt; new[3:] %= 2π; new.date = date` -/
def j2Advance (mu re j2 : R) (o : MeanEl) (dt : R) : MeanEl :=
  let n := meanMotion mu o.a
  let rates := j2Rates n re o.a o.e o.i j2
  ⟨o.a, o.e, o.i, fmod (o.raan + rates.1 * dt) (2 * pi), fmod (o.argp + rates.2.1 * dt) (2 * pi),
   fmod (o.M + (rates.2.2 + n) * dt) (2 * pi), o.t + dt⟩

inductive J2Op where
  /-- `orb[k] = v` -/
  | setEl (k : Nat) (v : R)
  /-- `orb.date = t` -/
  | setDate (t : R)
  /-- `orb.propagate(timedelta(seconds=dt))` -/
  | prop (dt : R)

/-- the user's orbit and what the propagator object holds between two calls -/
structure J2Obj where
  user : MeanEl
  priv : Option MeanEl

/-- the setter of `J2.orbit`: the private copy is replaced by (a copy of) the orbit handed over, whatever it held before -/
def j2Setter (_priv : Option MeanEl) (orbit : MeanEl) : Option MeanEl := some orbit

def J2Obj.step (mu re j2 : R) (s : J2Obj) : J2Op → J2Obj × Option MeanEl
  | .setEl k v => ({ s with user := s.user.set k v }, none)
  | .setDate t => ({ s with user := { s.user with t := t } }, none)
  | .prop dt =>
    let priv := j2Setter s.priv s.user
    ({ s with priv := priv }, priv.map (fun o => j2Advance mu re j2 o dt))

/-- the values returned along a history of operations on ONE orbit object (one entry per `prop`) -/
def J2Obj.run (mu re j2 : R) : J2Obj → List J2Op → List MeanEl
  | _, [] => []
  | s, op :: ops =>
    match J2Obj.step mu re j2 s op with
    | (s', some out) => out :: J2Obj.run mu re j2 s' ops
    | (s', none) => J2Obj.run mu re j2 s' ops

/-- the user's orbit after a history (in-place writes only; propagations return new objects) -/
def J2Obj.userAfter (u : MeanEl) : List J2Op → MeanEl
  | [] => u
  | .setEl k v :: ops => J2Obj.userAfter (u.set k v) ops
  | .setDate t :: ops => J2Obj.userAfter { u with t := t } ops
  | .prop _ :: ops => J2Obj.userAfter u ops

/-! ## Walker constellations (`iter_raan`, `iter_nu`, `iter_fleet`) -/

/-- `iter_fleet` of WalkerStar (`delta = false`) / WalkerDelta (`delta = true`) for `total/planes/spacing`:
the list of `(raan, nu)` in generation order.  `per_plane = total // planes`. -/
def walkerRaan (delta : Bool) (planes : Nat) (raan0 : R) (i : Nat) : R :=
  if delta then deltaRaan (ofNat planes) raan0 (ofNat i) else starRaan (ofNat planes) raan0 (ofNat i)

def walkerNu (delta : Bool) (total planes spacing : Nat) (raan0 : R) (i j : Nat) : R :=
  if delta then deltaNu (ofNat planes) raan0 (ofNat (total / planes)) (ofNat spacing) (ofNat i) (ofNat j)
  else starNu (ofNat planes) raan0 (ofNat (total / planes)) (ofNat spacing) (ofNat i) (ofNat j)

def walkerFleet (delta : Bool) (total planes spacing : Nat) (raan0 : R) : List (R × R) :=
  (List.range planes).flatMap (fun i =>
    (List.range (total / planes)).map (fun j => (walkerRaan delta planes raan0 i, walkerNu delta total planes spacing raan0 i j)))

/-! ## beta angle -/

/-- `beta`: `arcsin(clip(w.ref / (|w||ref|), -1, 1))` with `w = p × v` (clip: fix 1d112fc) — the arithmetic of `beta` as
translated from the source (`betaSrc`, `clipR`: Generated/BetaFn); closed form: `betaAngle_eq` (Props/C19Geom) -/
def betaAngle (p v ref : V3) : R :=
  betaSrc p.x p.y p.z v.x v.y v.z ref.x ref.y ref.z

/-! ## B-plane -/

structure BPlane where
  B : V3
  theta : R
  S : V3
  T : V3
  Rv : V3
  e : V3
  h : V3

/-- eccentricity vector `(vn² r − (r·v) v)/µ − r/rn` -/
def eccVec (mu : R) (r v : V3) : V3 :=
  let rn := V3.norm r
  let vn := V3.norm v
  V3.sub (V3.sdiv (V3.sub (V3.smul (powi vn 2) r) (V3.smul (V3.dot r v) v)) mu) (V3.sdiv r rn)

/-- `S = ê cos β + (ĥ × ê) sin β` with `β = arccos(1/e)` -/
def bpS (en : R) (eh hh : V3) : V3 :=
  let β := acos (1 / en)
  V3.add (V3.smul (cos β) eh) (V3.smul (sin β) (V3.cross hh eh))

/-- `T = S × N / |S × N|`, `N = (0, 0, 1)` -/
def bpT (S : V3) : V3 :=
  let N : V3 := ⟨0, 0, 1⟩
  V3.sdiv (V3.cross S N) (V3.norm (V3.cross S N))

/-- `B = B_norm · S × ĥ`, `B_norm = |a| √(e² − 1)` -/
def bpB (aAbs en : R) (S hh : V3) : V3 :=
  let B_norm := aAbs * sqrt (powi en 2 - 1)
  V3.smul B_norm (V3.cross S hh)

/-- `bplane(orb)`; `aAbs` stands for `abs(orb.infos.kep.a)` (the cartesian → keplerian conversion belongs to C01) -/
def bplane (mu aAbs : R) (r v : V3) : BPlane :=
  let e := eccVec mu r v
  let e_norm := V3.norm e
  let eh := V3.sdiv e e_norm
  let h := V3.cross r v
  let hh := V3.sdiv h (V3.norm h)
  let S := bpS e_norm eh hh
  let T := bpT S
  let Rv := V3.cross S T
  let B := bpB aAbs e_norm S hh
  let θ := acos (V3.dot B T / (V3.norm B * V3.norm T))
  ⟨B, θ, S, T, Rv, e, h⟩

end BeyondVerif.F
