/-!
Model of the *date-handling layer* of the date-consuming operations of beyond, over integer
microseconds (C04).  A `Date` object stores its value in the reference scale TAI (`_d`, `_s`) together
with the offset and name of its own scale: that is, an instant and a label.

`off l` is the offset `l − TAI` in µs, constant over the interval considered (the property excludes the
2-minute windows around leap seconds; UT1 and TDB offsets vary by < 1 µs per 10 min).

No Mathlib import (linked into the driver).
-/
namespace BeyondVerif.DateUse

structure Date where
  inst : Int          -- µs in the reference scale (TAI) since MJD 0
  label : Nat         -- index of the scale in `scalesNames`
deriving Repr, DecidableEq

/-- clock reading of the date in its own scale (`Date.d`, `Date.s`, `Date.datetime`) -/
def reading (off : Nat → Int) (d : Date) : Int := d.inst + off d.label

/-- constructor from a reading in a given scale (`Date(datetime, scale=…)`) -/
def ofReading (off : Nat → Int) (r : Int) (l : Nat) : Date := ⟨r - off l, l⟩

/-- `Date.change_scale`: own reading + (new − own) offset, re-constructed in the new scale -/
def changeScale (off : Nat → Int) (d : Date) (l : Nat) : Date :=
  ofReading off (reading off d + (off l - off d.label)) l

/-- `Date.__sub__(Date)`: difference of the reference-scale datetimes -/
def sub (a b : Date) : Int := a.inst - b.inst

/-- `Date.__add__(timedelta)`: own reading + δ, re-constructed in the own scale -/
def add (off : Nat → Int) (d : Date) (δ : Int) : Date := ofReading off (reading off d + δ) d.label

/-- comparisons and hash use `_mjd`, the reference-scale value -/
def le (a b : Date) : Bool := a.inst ≤ b.inst
def eq (a b : Date) : Bool := a.inst = b.inst
def hashKey (a : Date) : Int := a.inst

/-- what the SGP4 wrapper hands to the library: the reading of `date.change_scale("UTC")` -/
def utcReading (off : Nat → Int) (utc : Nat) (d : Date) : Int := reading off (changeScale off d utc)

/-- native SGP4: minutes since epoch come from `(date − tle.date)` -/
def tdiff (date epoch : Date) : Int := sub date epoch

/-- TLE writer: the epoch field is the UTC reading of the orbit's date -/
def tleEpoch (off : Nat → Int) (utc : Nat) (d : Date) : Int := utcReading off utc d

/-- Kepler / J2 / numerical / CW: `Δt = (date − orbit.date)`; interpolation abscissa: `_mjd` -/
def dt (date epoch : Date) : Int := sub date epoch
def abscissa (d : Date) : Int := d.inst

/-- the EOP record is chosen by the day number of the UTC reading (since fix fc514f7; before it, by the day number
of the reading in the date's OWN scale — `eopDayOwnScale`, kept for the regression witness) -/
def eopDay (off : Nat → Int) (utc : Nat) (d : Date) : Int := utcReading off utc d / 86400000000
def eopDayOwnScale (off : Nat → Int) (d : Date) : Int := reading off d / 86400000000

end BeyondVerif.DateUse
