import BeyondVerif.Generated.ManWindow
/-!
Discrete model of how `KeplerNum._iter` / `_make_step` meet the maneuver windows
(beyond/propagators/keplernum.py).  Dates and steps are integer microseconds.

The main loop is `date = start; while date < stop: real_step, orb = _make_step(orb, step); date += real_step`,
and at the end of `_make_step(orb, step)` every `ImpulsiveMan` with `man.check(orb.date, step)` adds its Δv to the
new state (dated `orb.date + step`).  The step lengths are whatever the integrator chose (fixed or adapted):
the model takes the list of realised steps as given.  `impCheck` / `contCheck` are translated from the source.
-/
namespace BeyondVerif.ManWin
open BeyondVerif.Generated

/-- number of integration steps at whose end the impulse dated `tm` is applied;
`t0` = date of the state the first step starts from, `steps` = realised step lengths in order -/
def countFired (tm : Int) : Int → List Int → Nat
  | _, [] => 0
  | t0, h :: rest => (if impCheck tm t0 h then 1 else 0) + countFired tm (t0 + h) rest

/-- the steps `(start date, length)` at whose end the impulse dated `tm` is applied -/
def firedSteps (tm : Int) : Int → List Int → List (Int × Int)
  | _, [] => []
  | t0, h :: rest => (if impCheck tm t0 h then [(t0, h)] else []) ++ firedSteps tm (t0 + h) rest

/-- for several maneuvers: per step, the indices (positions in `orbit.maneuvers`) of the impulses applied at its end,
in list order (`for man in self.orbit.maneuvers`) -/
def appliedPerStep (mans : List Int) : Int → List Int → List (List Nat)
  | _, [] => []
  | t0, h :: rest =>
    ((List.range mans.length).filter (fun i => decide (impCheck (mans.getD i 0) t0 h))) :: appliedPerStep mans (t0 + h) rest

/-- stage dates of one Runge–Kutta step: `date + c * step` for the Butcher nodes `c = num/den`
(exact when `den ∣ num * step`; the harness only uses such steps) -/
def stageDates (cs : List (Int × Int)) (date step : Int) : List Int :=
  cs.map (fun c => date + c.1 * step / c.2)

/-- which stages of a step see the continuous maneuver `[start, stop)` switched on -/
def stagesOn (cs : List (Int × Int)) (start stop date step : Int) : List Bool :=
  (stageDates cs date step).map (fun d => decide (contCheck start stop d))

end BeyondVerif.ManWin
