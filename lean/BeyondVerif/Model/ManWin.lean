import BeyondVerif.Generated.ManWindow
/-!
Discrete model of how `KeplerNum._iter` / `_make_step` meet the maneuver windows
(beyond/propagators/keplernum.py).  Dates and steps are integer microseconds.

The main loop is `date = start; while date < stop: real_step, orb = _make_step(orb, step); date += real_step`,
and at the end of `_make_step(orb, step)` every `ImpulsiveMan` with `man.check(orb.date, step)` adds its Δv to the
new state (dated `orb.date + step`).  The step lengths are whatever the integrator chose (fixed or adapted):
the model takes the list of realised steps as given.  `impCheck` / `contCheck` are translated from the source.
-/
namespace BeyondVerif.ManWin
open BeyondVerif.Generated

/-- number of integration steps at whose end the impulse dated `tm` is applied;
`t0` = date of the state the first step starts from, `steps` = realised step lengths in order -/
def countFired (tm : Int) : Int → List Int → Nat
  | _, [] => 0
  | t0, h :: rest => (if impCheck tm t0 h then 1 else 0) + countFired tm (t0 + h) rest

/-- the steps `(start date, length)` at whose end the impulse dated `tm` is applied -/
def firedSteps (tm : Int) : Int → List Int → List (Int × Int)
  | _, [] => []
  | t0, h :: rest => (if impCheck tm t0 h then [(t0, h)] else []) ++ firedSteps tm (t0 + h) rest

/-- for several maneuvers: per step, the indices (positions in `orbit.maneuvers`) of the impulses applied at its end,
in list order (`for man in self.orbit.maneuvers`) -/
def appliedPerStep (mans : List Int) : Int → List Int → List (List Nat)
  | _, [] => []
  | t0, h :: rest =>
    ((List.range mans.length).filter (fun i => decide (impCheck (mans.getD i 0) t0 h))) :: appliedPerStep mans (t0 + h) rest

/-- Python's `datetime._divide_and_round(a, b)` for `b > 0`: the integer nearest to `a / b`, ties to even
(`q, r = divmod(a, b); r *= 2; if r > b or (r == b and q % 2 == 1): q += 1`) -/
def divRound (a b : Int) : Int :=
  let q := a / b
  let r := a % b
  if 2 * r > b ∨ (2 * r = b ∧ q % 2 = 1) then q + 1 else q

/-- `step * c` of `_make_step` (`timedelta.__mul__(float)`): the microseconds of `step` times the exact ratio
`c = num/den` of the float node, divided and rounded to the microsecond by `_divide_and_round` -/
def stageOffset (c : Int × Int) (step : Int) : Int := divRound (step * c.1) c.2

/-- stage dates of one Runge–Kutta step: `y_n_prime.date += step * c` for the Butcher nodes `c`
(regenerated as the exact ratios of the floats in `KeplerNum.BUTCHER`) -/
def stageDates (cs : List (Int × Int)) (date step : Int) : List Int :=
  cs.map (fun c => date + stageOffset c step)

/-- which stages of a step see the continuous maneuver `[start, stop)` switched on -/
def stagesOn (cs : List (Int × Int)) (start stop date step : Int) : List Bool :=
  (stageDates cs date step).map (fun d => decide (contCheck start stop d))

/-! ### Quadrature of the on/off switch by the step loop

`_make_step`: `y_n_1 = y_n + step.total_seconds() * bb @ ks` with `ks[i] = _accel(y_n_prime_i)`, and `_accel` adds
`man.accel(orb)` iff `man.check(orb.date)`.  The velocity part of a step therefore receives, from one burn,
`h · Σ_i b_i · [start ≤ date + c_i·h < stop] · accel_i`.  With the weights written `b_i = w_i / D` (integers, common
denominator `D`, regenerated), `thrustUnits` is `D ·` the *thrust time* `Σ_steps h · Σ_i b_i [on at stage i]` in µs. -/

/-- stages of a step of length `h`: (offset of the stage date from the step's start, weight numerator) -/
def stagesOf (cs : List (Int × Int)) (ws : List Int) (h : Int) : List (Int × Int) :=
  (cs.map (fun c => stageOffset c h)).zip ws

/-- `Σ_i w_i [burn on at stage i]` for the step starting at `date` -/
def stepWeight (start stop date : Int) : List (Int × Int) → Int
  | [] => 0
  | (o, w) :: rest => (if contCheck start stop (date + o) then w else 0) + stepWeight start stop date rest

/-- `D ·` thrust time (µs) delivered by the step loop over the realised steps `steps` from `t0` -/
def thrustUnits (cs : List (Int × Int)) (ws : List Int) (start stop : Int) : Int → List Int → Int
  | _, [] => 0
  | t, h :: rest => h * stepWeight start stop t (stagesOf cs ws h) + thrustUnits cs ws start stop (t + h) rest

/-- the same for `n` equal steps `h` with a fixed stage list -/
def thrustUnitsFixed (sts : List (Int × Int)) (start stop h : Int) : Int → Nat → Int
  | _, 0 => 0
  | t, n + 1 => h * stepWeight start stop t sts + thrustUnitsFixed sts start stop h (t + h) n

/-- number of the `n` steps `t, t+h, …` whose stage at offset `o` sees the burn on -/
def stageCount (start stop o h : Int) : Int → Nat → Int
  | _, 0 => 0
  | t, n + 1 => (if contCheck start stop (t + o) then 1 else 0) + stageCount start stop o h (t + h) n

end BeyondVerif.ManWin
