import BeyondVerif.Model.Date
/-!
Model of the IERS file readers of `beyond/dates/eop.py` (`TaiUtc.__init__`, `Finals2000A.__init__` — the columns that
time scales use) and of the assembly of `SimpleEopDatabase.__init__`, fed the **text of the files**: fixed columns,
decimal strings to integers of 10⁻⁷ s (no float).  Ties the regenerated tables of `Generated/EopTable.lean` and the real
readers to the same text (correspondence ops `d3ptai`, `d3pfin`).  No Mathlib.
-/
namespace BeyondVerif.EopFile

def isDigit (c : Char) : Bool := decide ('0' ≤ c) && decide (c ≤ '9')

def digitsVal (cs : List Char) : Nat := cs.foldl (fun acc c => acc * 10 + (c.toNat - 48)) 0

/-- Python's `str.strip()` restricted to the blanks that occur in the files -/
def strip (cs : List Char) : List Char :=
  ((cs.dropWhile (· == ' ')).reverse.dropWhile (· == ' ')).reverse

/-- what `float(txt)` yields for a plain decimal literal (`[+-]digits[.digits]`, blanks around it), as an integer number
of `10^-places`; `none` = `ValueError` (also for literals the files never contain: exponents, `inf`, `_`, and for more
non-zero decimals than `places`, so that nothing is silently rounded) -/
def decToInt? (cs : List Char) (places : Nat) : Option Int :=
  let t := strip cs
  let (neg, t) := match t with
    | '-' :: r => (true, r)
    | '+' :: r => (false, r)
    | r => (false, r)
  let ip := t.takeWhile isDigit
  let rest := t.dropWhile isDigit
  let fp? : Option (List Char) := match rest with
    | [] => some []
    | '.' :: f => if f.all isDigit then some f else none
    | _ => none
  match fp? with
  | none => none
  | some fp =>
    if ip.isEmpty && fp.isEmpty then none
    else if (fp.drop places).any (· != '0') then none
    else
      let fpad := (fp ++ List.replicate places '0').take places
      let v : Int := (digitsVal ip * 10 ^ places + digitsVal fpad : Nat)
      some (if neg then -v else v)

/-- `line.split()` -/
def fields (cs : List Char) : List (List Char) :=
  (cs.splitOnP (· == ' ')).filter (fun f => !f.isEmpty)

inductive TaiLine where
  | skip                          -- `if not line: continue`
  | entry (mjd : Int) (ticks : Int)
  | crash                         -- IndexError / ValueError: the reader (and the database) cannot be instantiated
deriving Repr, DecidableEq

/-- one line of `tai-utc.dat`: `mjd = int(float(line[4]) - 2400000.5)`, `value = float(line[6])` -/
def taiLine (line : List Char) : TaiLine :=
  if line.isEmpty then .skip
  else
    let f := fields line
    match f[4]?, f[6]? with
    | some jd, some v =>
      match decToInt? jd 1, decToInt? v 7 with
      | some jd10, some ticks => .entry (Int.tdiv (jd10 - 24000005) 10) ticks
      | _, _ => .crash
    | _, _ => .crash

/-- `line[a:b]` -/
def slice (cs : List Char) (a b : Nat) : List Char := (cs.take b).drop a

inductive FinLine where
  | row (mjd : Int) (ut1 : Int)   -- x, y and UT1−UTC present
  | stop (mjd : Int)              -- `except ValueError: break`
  | crash                         -- the MJD column does not parse (outside the `try`)
deriving Repr, DecidableEq

/-- python's `float()` on the x / y columns: only whether it parses matters (any number of decimals) -/
def parses (cs : List Char) : Bool := (decToInt? cs 12).isSome

/-- one line of `finals.*` / `finals2000A.*`: `mjd = int(float(line[7:15]))`, then x `[18:27]`, y `[37:46]`,
UT1−UTC `[58:68]` -/
def finLine (line0 : List Char) : FinLine :=
  let line := (line0.reverse.dropWhile (· == ' ')).reverse     -- `line.rstrip()`
  match decToInt? (slice line 7 15) 2 with
  | none => .crash
  | some m100 =>
    let mjd := Int.tdiv m100 100
    if parses (slice line 18 27) && parses (slice line 37 46) then
      match decToInt? (slice line 58 68) 7 with
      | some u => .row mjd u
      | none => .stop mjd
    else .stop mjd

/-- the `data` list of `TaiUtc` -/
def taiTable : List (List Char) → Option (List (Int × Int))
  | [] => some []
  | l :: ls =>
    match taiLine l with
    | .skip => taiTable ls
    | .crash => none
    | .entry m v => (taiTable ls).map ((m, v) :: ·)

/-- the `data` dict of a finals reader as an association list in file order (later lines of the same day override,
as in a dict: lookups use the last) -/
def finTable : List (List Char) → Option (List (Int × Int))
  | [] => some []
  | l :: ls =>
    match finLine l with
    | .crash => none
    | .stop _ => some []
    | .row m u => (finTable ls).map ((m, u) :: ·)

def lookupLast (t : List (Int × Int)) (day : Int) : Option Int :=
  (t.reverse.find? (fun e => e.1 == day)).map (·.2)

/-- `SimpleEopDatabase.__init__`: the days of `finals`, each record updated with (overridden by) the one of
`finals2000A` for that day — `none` when that file lacks a day (`KeyError`: the database cannot be instantiated) -/
def assemble (fin f2k : List (Int × Int)) : Option (List (Int × Int)) :=
  fin.mapM (fun e => (lookupLast f2k e.1).map (fun u => (e.1, u)))

end BeyondVerif.EopFile
