import BeyondVerif.Model.Date
/-!
Model of how a CCSDS epoch text becomes a `Date` (`beyond/io/ccsds/commons.py: parse_date`, called by the OPM, OEM,
OMM and TDM readers for every epoch of a message) — C04.

* `strptime fmt s`: `datetime.datetime.strptime` restricted to the directives the CCSDS formats use
  (`%Y %m %d %j %H %M %S %f` separated by literal characters).  `_strptime` turns the format into a regular expression,
  one alternation per directive, compiled with `IGNORECASE`, and demands a full match; as every directive of these
  formats is followed by a literal separator (or the end of the text) that no alternative can contain, the regular
  expression matches iff the text splits at the separators into fields each of which is, as a whole, one of the
  alternatives of its directive.  Values out of range for `datetime` (second 60 / 61, day 31 of a 30-day month, year 0)
  are `ValueError`s as well; a day-of-year is *not* checked against the length of the year (`_strptime` computes
  `date.fromordinal(julian - 1 + date(year, 1, 1).toordinal())`).
  The result is the clock reading in microseconds since the MJD origin; `none` = `ValueError`.
* `parseDate`: the cascade `try: Date.strptime(string, FMT₁, scale=scale) except ValueError: try: … FMT₂ …`; the list
  of `(format, is the scale argument handed on?)` is regenerated from the source (`Generated/CcsdsDates.lean`).

No Mathlib import: linked into the driver.
-/
namespace BeyondVerif.CcsdsDate
open BeyondVerif.Date

inductive Tok where
  | Y | m | d | j | H | M | S | f
  | lit (c : Char)
deriving Repr, DecidableEq

def dirOf? : Char → Option Tok
  | 'Y' => some .Y | 'm' => some .m | 'd' => some .d | 'j' => some .j
  | 'H' => some .H | 'M' => some .M | 'S' => some .S | 'f' => some .f
  | _ => none

/-- a format string as a token list; `none` = a directive this model does not know -/
def parseFormat : List Char → Option (List Tok)
  | [] => some []
  | '%' :: c :: rest =>
    match dirOf? c, parseFormat rest with
    | some t, some l => some (t :: l)
    | _, _ => none
  | c :: rest => if c = '%' then none else (parseFormat rest).map (Tok.lit c :: ·)

/-- what `_strptime` has collected; the defaults are those of `_strptime` -/
structure Fields where
  year : Nat := 1900
  month : Nat := 1
  day : Nat := 1
  jul : Option Nat := none
  hour : Nat := 0
  minute : Nat := 0
  second : Nat := 0
  micro : Nat := 0
deriving Repr, DecidableEq

def isDigit (c : Char) : Bool := decide ('0' ≤ c) && decide (c ≤ '9')

def digitsVal : List Char → Nat := fun cs => cs.foldl (fun acc c => acc * 10 + (c.toNat - 48)) 0

/-- a field of 1 … `maxLen` ASCII digits; its value -/
def numField (cs : List Char) (minLen maxLen : Nat) : Option Nat :=
  if minLen ≤ cs.length ∧ cs.length ≤ maxLen ∧ cs.all isDigit then some (digitsVal cs) else none

/-- one directive against the whole text of its field -/
def setField (t : Tok) (cs : List Char) (r : Fields) : Option Fields :=
  match t with
  | .Y => (numField cs 4 4).map (fun v => { r with year := v })
  | .m => (numField cs 1 2).bind (fun v => if 1 ≤ v ∧ v ≤ 12 then some { r with month := v } else none)
  | .d =>
    match cs with
    | [' ', c] => if decide ('1' ≤ c) && decide (c ≤ '9') then some { r with day := c.toNat - 48 } else none
    | _ => (numField cs 1 2).bind (fun v => if 1 ≤ v ∧ v ≤ 31 then some { r with day := v } else none)
  | .j => (numField cs 1 3).bind (fun v => if 1 ≤ v ∧ v ≤ 366 then some { r with jul := some v } else none)
  | .H => (numField cs 1 2).bind (fun v => if v ≤ 23 then some { r with hour := v } else none)
  | .M => (numField cs 1 2).bind (fun v => if v ≤ 59 then some { r with minute := v } else none)
  | .S => (numField cs 1 2).bind (fun v => if v ≤ 61 then some { r with second := v } else none)
  | .f => (numField cs 1 6).map (fun _ => { r with micro := digitsVal (cs ++ List.replicate (6 - cs.length) '0') })
  | .lit _ => none

/-- literal characters are compared without regard to case (`re.IGNORECASE`) -/
def sameLit (a b : Char) : Bool := a.toLower == b.toLower

/-- the text up to the first occurrence of the separator, and what follows it -/
def splitAt (sep : Char) : List Char → Option (List Char × List Char)
  | [] => none
  | c :: rest =>
    if sameLit c sep then some ([], rest)
    else (splitAt sep rest).map (fun p => (c :: p.1, p.2))

/-- full match of a token list against a text -/
def matchToks : List Tok → List Char → Fields → Option Fields
  | [], [], r => some r
  | [], _ :: _, _ => none                              -- "unconverted data remains"
  | .lit c :: ts, x :: xs, r => if sameLit x c then matchToks ts xs r else none
  | .lit _ :: _, [], _ => none
  | [t], cs, r => setField t cs r                      -- last directive: the rest of the text
  | t :: .lit c :: ts, cs, r =>
    match splitAt c cs with
    | none => none
    | some (fld, rest) =>
      match setField t fld r with
      | none => none
      | some r' => matchToks ts rest r'
  | _ :: _ :: _, _, _ => none                          -- two adjacent directives: not used by the CCSDS formats

def isLeap (y : Nat) : Bool := decide (y % 4 = 0) && (decide (y % 100 ≠ 0) || decide (y % 400 = 0))

def daysBeforeYear (y : Nat) : Nat := (y - 1) * 365 + (y - 1) / 4 - (y - 1) / 100 + (y - 1) / 400

def daysInMonth (y m : Nat) : Nat :=
  match m with
  | 2 => if isLeap y then 29 else 28
  | 4 | 6 | 9 | 11 => 30
  | _ => 31

def daysBeforeMonth (y m : Nat) : Nat := ((List.range (m - 1)).map (fun k => daysInMonth y (k + 1))).sum

/-- proleptic Gregorian ordinal of the MJD origin 1858-11-17 -/
def mjdOrigin : Int := 678576

/-- the `datetime` built from the collected fields, as microseconds since the MJD origin; `none` = `ValueError` -/
def Fields.toUs (r : Fields) : Option Int :=
  if r.year = 0 ∨ r.second > 59 then none
  else
    let ord? : Option Nat :=
      match r.jul with
      | some j => some (daysBeforeYear r.year + j)
      | none => if r.day ≤ daysInMonth r.year r.month then some (daysBeforeYear r.year + daysBeforeMonth r.year r.month + r.day) else none
    ord?.map (fun ord => ((ord : Int) - mjdOrigin) * DUS + (((r.hour * 60 + r.minute) * 60 + r.second) * 1000000 + r.micro : Nat))

/-- `datetime.strptime(s, fmt)` as a clock reading -/
def strptime (fmt s : String) : Option Int :=
  match parseFormat fmt.toList with
  | none => none
  | some toks => (matchToks toks s.toList {}).bind Fields.toUs

/-- one `Date.strptime(string, FMT, …)` call of `parse_date`: the format and whether `scale=scale` is handed on -/
structure Branch where
  fmt : String
  withScale : Bool
deriving Repr, DecidableEq

/-- the cascade of `try … except ValueError`: the first format that matches decides -/
def parseText : List Branch → String → Option (Branch × Int)
  | [], _ => none
  | b :: rest, s =>
    match strptime b.fmt s with
    | some us => some (b, us)
    | none => parseText rest s

/-- `parse_date(string, scale)`; `none` = `ValueError` (no format matches); errors of the `Date` constructor propagate.
`dflt` is `Date.DEFAULT_SCALE`, used by a call that does not hand the scale on -/
def parseDate (cfg : Cfg) (env : Env) (dflt : Nat) (brs : List Branch) (s : String) (sc : Nat) : Option (Except Err Date) :=
  match parseText brs s with
  | none => none
  | some (b, us) => some (ofDatetime cfg env (if b.withScale then sc else dflt) us)

/-! ### what the writers put on the wire

Every epoch of a message but the head's goes through `in_scale(date, head.scale)` (commons.py, since fix aa1842c):
a date labelled otherwise than the message's TIME_SYSTEM is converted with `change_scale`, then formatted with
`"{date:%Y-%m-%dT%H:%M:%S.%f}"` / `date.strftime(DATE_FMT_DEFAULT)`, i.e. as the clock reading `Date.datetime` of the
converted date.  Before the fix each epoch was printed as the clock reading of its OWN scale (`Message.dumpOwnScale`,
kept for the regression witness). -/

/-- the clock reading a date shows when formatted: its own-scale `datetime` in microseconds -/
def written (x : Date) : Int := x.datetime

/-- `in_scale(date, scale)`: `date.change_scale(scale.name)` when the names differ, the date itself otherwise -/
def inScale (cfg : Cfg) (env : Env) (x : Date) (ts : Nat) : Except Err Date :=
  if x.scale ≠ ts then changeScale cfg env x ts else .ok x

/-- a message as the writers see it: the date that decides `TIME_SYSTEM` (`data.date` of an OPM/OMM, `data.start` of an
OEM, `measure_set.start` of a TDM segment) and the other epochs (maneuvers, ephemeris points, covariance epochs,
STOP_TIME, observations) -/
structure Message where
  head : Date
  others : List Date

/-- `TIME_SYSTEM` and the epochs as written: the head as it is, every other epoch through `in_scale` -/
def Message.dump (cfg : Cfg) (env : Env) (m : Message) : Except Err (Nat × List Int) :=
  match m.others.mapM (fun x => inScale cfg env x m.head.scale) with
  | .ok l => .ok (m.head.scale, written m.head :: l.map written)
  | .error e => .error e

/-- the writers before aa1842c: every epoch as the clock reading of its own scale -/
def Message.dumpOwnScale (m : Message) : Nat × List Int := (m.head.scale, (m.head :: m.others).map written)

/-- a message of several objects (`dumps([ephem₁, ephem₂, …])`, a TDM over several paths): one segment per object, each
with its own metadata block, hence its own `TIME_SYSTEM`, each dumped with the scale of ITS head -/
def dumpSegments (cfg : Cfg) (env : Env) : List Message → Except Err (List (Nat × List Int))
  | [] => .ok []
  | m :: ms =>
    match Message.dump cfg env m with
    | .error e => .error e
    | .ok w =>
      match dumpSegments cfg env ms with
      | .error e => .error e
      | .ok ws => .ok (w :: ws)

/-- a writer that converts the epochs of a segment to a scale `ts` that is NOT the one its metadata prints (e.g. the
scale of the first segment of the message, hoisted out of the loop over segments: seeded change C04-m6) -/
def Message.dumpTo (cfg : Cfg) (env : Env) (ts : Nat) (m : Message) : Except Err (Nat × List Int) :=
  match (m.head :: m.others).mapM (fun x => inScale cfg env x ts) with
  | .ok l => .ok (m.head.scale, l.map written)
  | .error e => .error e

/-- every epoch read back in `TIME_SYSTEM` -/
def load (cfg : Cfg) (env : Env) (w : Nat × List Int) : List (Except Err Date) := w.2.map (ofDatetime cfg env w.1)

end BeyondVerif.CcsdsDate
