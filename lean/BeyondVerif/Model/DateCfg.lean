import BeyondVerif.Model.Date
import BeyondVerif.Model.NodeSpec
import BeyondVerif.Generated.Graphs
import BeyondVerif.Generated.Scales
import BeyondVerif.Generated.EopTable
/-!
The configuration of the date model that is regenerated from `/repo` on every run: the scale graph in
execution order (`Generated/Graphs.lean`), the `_scale_*` methods (`Generated/Scales.lean`), the IERS
tables shipped with the repository (`Generated/EopTable.lean`).  No Mathlib.
-/
namespace BeyondVerif.Date
open BeyondVerif.Generated

/-- the routing tables of the six `Timescale` nodes after the `+` chains executed at import -/
def scalesGraph : Node.Graph := (Node.build (scalesN + 2) scalesHist).getD []

def cfg : Cfg := ⟨scalesGraph, scalesN, scaleOps, refScale, utcScale⟩

def gapCell : Int := 899999999

/-- fixed-width decimal cells (9 digits, value + 10^8) -/
def parseCells (chunks : List String) : Array Int := Id.run do
  let mut out : Array Int := #[]
  for s in chunks do
    let mut acc : Nat := 0
    let mut k : Nat := 0
    for c in s.toList do
      acc := acc * 10 + (c.toNat - 48)
      k := k + 1
      if k = 9 then
        out := out.push ((acc : Int) - 100000000)
        acc := 0
        k := 0
  return out

def ut1Arr : Array Int := parseCells ut1Raw

/-- `SimpleEopDatabase._finals[day]["ut1_utc"]` in ticks; `none` = KeyError -/
def finalsLookup (day : Int) : Option Int :=
  if day < finalsFirst then none
  else match ut1Arr[(day - finalsFirst).toNat]? with
    | some v => if v = gapCell then none else some v
    | none => none

end BeyondVerif.Date
