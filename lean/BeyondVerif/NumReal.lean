import Mathlib.Analysis.SpecialFunctions.Trigonometric.Arctan
import Mathlib.Analysis.SpecialFunctions.Trigonometric.Inverse
import Mathlib.Analysis.SpecialFunctions.Complex.Arg
import Mathlib.Analysis.SpecialFunctions.Arsinh
import Mathlib.Analysis.SpecialFunctions.Artanh
import Mathlib.Analysis.SpecialFunctions.Pow.Real
import Mathlib.Analysis.Real.Sqrt
import Mathlib.Algebra.Order.Floor.Ring
/-
Mathematical number interface (`R := ℝ`): see NumFloat.lean.
-/
noncomputable section
namespace BeyondVerif.NumReal

abbrev R := ℝ

abbrev powi (x : R) (k : Nat) : R := x ^ k
abbrev rpow (x y : R) : R := Real.rpow x y
abbrev sqrt (x : R) : R := Real.sqrt x
abbrev sin (x : R) : R := Real.sin x
abbrev cos (x : R) : R := Real.cos x
abbrev tan (x : R) : R := Real.tan x
abbrev asin (x : R) : R := Real.arcsin x
abbrev acos (x : R) : R := Real.arccos x
abbrev atan (x : R) : R := Real.arctan x
/-- `atan2 y x` = the argument of `x + i y` in (-π, π] (Mathlib has no `arctan2`) -/
def atan2 (y x : R) : R := Complex.arg ⟨x, y⟩
abbrev sinh (x : R) : R := Real.sinh x
abbrev cosh (x : R) : R := Real.cosh x
abbrev tanh (x : R) : R := Real.tanh x
abbrev asinh (x : R) : R := Real.arsinh x
abbrev atanh (x : R) : R := Real.artanh x
abbrev exp (x : R) : R := Real.exp x
abbrev log (x : R) : R := Real.log x
abbrev absR (x : R) : R := |x|
abbrev floorR (x : R) : R := (⌊x⌋ : ℤ)
abbrev pi : R := Real.pi
def fmod (x m : R) : R := x - m * (⌊x / m⌋ : ℤ)
abbrev ofNat (n : Nat) : R := (n : ℝ)
abbrev ofInt (n : Int) : R := (n : ℝ)

end BeyondVerif.NumReal
