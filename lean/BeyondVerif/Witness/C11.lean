import BeyondVerif.Model.StationR
import Mathlib.Tactic.NormNum
import Mathlib.Tactic.Ring

/-!
# C11 — counter-witness: the ellipsoid on which stations are placed is not WGS-84

The property text compares with an independent **WGS-84** computation (a = 6378137 m,
1/f = 298.257223563).  The constants regenerated from beyond/constants.py have the WGS-84 flattening
but the EGM-96 equatorial radius: stations are placed 0.7 m too close to the geocentre
(known finding `C11-station-ellipsoid-radius`).  All theorems of Props/C11.lean are stated for the
constants as they are.
-/
noncomputable section
namespace BeyondVerif.C11W
open BeyondVerif.R BeyondVerif.NumReal

/-- the regenerated equatorial radius is 0.7 m short of the WGS-84 value, the flattening is WGS-84's -/
theorem earth_radius_is_not_wgs84 :
    earthR ≠ 6378137 ∧ 6378137 - earthR = 0.7 ∧ earthF = 1 / 298.257223563 := by
  refine ⟨?_, ?_, ?_⟩ <;> simp only [earthR, earthF] <;> norm_num

/-- concrete input: the station at latitude 0, longitude 0, altitude 0 is at x = 6378136.3 m, not 6378137 m -/
theorem equator_station_position : geodeticToCartesian 0 0 0 = [6378136.3, 0, 0] := by
  simp [geodeticToCartesian, earthR]

/-! ## regression witness: a mask given at creation as a numpy array is stored as given

Until /repo commit e7f290a `TopocentricFrame.__init__` evaluated `np.asarray(mask) if mask else None`, and
`create_station(name, latlonalt, mask=np.array([[az…], [el…]]))` — the "2D array of float" its docstring asks for — raised
ValueError (the truth value of an array is ambiguous; finding `C11-mask-ndarray-at-creation`, fixed).  The test is now
`mask is not None and len(mask)`.  `initMask` / `createStationMask` are translated from the source on every run: should the
truth-value test come back, these stop building. -/

/-- for every table: handed over at creation as an ndarray, it is stored as given -/
theorem mask_given_as_ndarray_is_stored (tbl : List (ℝ × ℝ)) :
    createStationMask (.arr tbl) = .stored (.table tbl) ∧ initMask (.arr tbl) = .stored (.table tbl) :=
  ⟨rfl, rfl⟩

/-- concrete input: the two-node table `[[π, 2π], [0.05, 0.4]]` as an array -/
example : createStationMask (.arr [(Real.pi, 0.05), (2 * Real.pi, 0.4)]) = .stored (.table [(Real.pi, 0.05), (2 * Real.pi, 0.4)]) := rfl

/-- … exactly as the same table given as a list of two rows -/
example : createStationMask (.seq [(Real.pi, 0.05), (2 * Real.pi, 0.4)]) = .stored (.table [(Real.pi, 0.05), (2 * Real.pi, 0.4)]) := rfl

end BeyondVerif.C11W
