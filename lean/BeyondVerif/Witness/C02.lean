import BeyondVerif.Model.Memo
/-!
Regression witnesses for the clause "the result of a conversion depends on the inputs of that call only" of C02.

Until deb035a `iau1980._nutation(date, eop_correction, terms)` was memoized by `beyond/utils/memoize.py` under the TEXT of the date
(`str(args)`), while its value also depended on what the Date carries without showing it (TAI−UTC of its EOP record through the TT
instant of a UTC text; δΔψ, δΔε of its EOP record when `eop_correction=True`): finding C02-nutation-memo-eop, now fixed — the memo sits
on `_nutation_series(ttt, terms)`, keyed by everything the series reads.

Discrete instance: an argument is (text, hidden value of the record).
* `text_keyed_memo_*`: the OLD key (the text alone) makes the memoized function history and order dependent — what the oracle family
  `nutation-eop-correction:after-other-configuration` and the mixed TAI−UTC histories of the correspondence (harness/props/C02.py) report
  again if the decoration moves back onto a function of the date (checked by reverting deb035a; the same for seeded change C02-m2).
* `full_key_memo_sound`: the NEW key (everything the value reads) answers the same history like the bare function
  (instance of `Memo.run_eq_map`; for the model itself: `C02.nutation_series_key_sound`, `C02.session_history_independent`).
-/
namespace BeyondVerif.C02W
open BeyondVerif

/-- old key: same text 7, records 32 then 0: the second call is answered with the value of the first -/
theorem text_keyed_memo_stale :
    Memo.run (fun (x : Nat × Nat) => x.1) (fun x => x.1 + x.2) [] [(7, 32), (7, 0)] = [39, 39] := by decide

/-- old key: … which is not what the bare function returns along that history -/
theorem text_keyed_memo_history_dependent :
    Memo.run (fun (x : Nat × Nat) => x.1) (fun x => x.1 + x.2) [] [(7, 32), (7, 0)]
      ≠ [(7, 32), (7, 0)].map (fun x => x.1 + x.2) := by decide

/-- old key: the order of the two calls decides what the call `(7, 0)` returns -/
theorem text_keyed_memo_order_dependent :
    (Memo.run (fun (x : Nat × Nat) => x.1) (fun x => x.1 + x.2) [] [(7, 32), (7, 0)]).getLast? = some 39 ∧
    (Memo.run (fun (x : Nat × Nat) => x.1) (fun x => x.1 + x.2) [] [(7, 0)]).getLast? = some 7 := by decide

/-- new key: keyed by everything the value reads, the same history (and its reverse) is answered like the bare function -/
theorem full_key_memo_sound :
    Memo.run (fun (x : Nat × Nat) => x) (fun x => x.1 + x.2) [] [(7, 32), (7, 0), (7, 32)] = [39, 7, 39] ∧
    Memo.run (fun (x : Nat × Nat) => x) (fun x => x.1 + x.2) [] [(7, 0), (7, 32), (7, 0)] = [7, 39, 7] := by decide

end BeyondVerif.C02W
