import BeyondVerif.Model.Memo
/-!
Counter-witness for the clause "the result of a conversion depends on the inputs of that call only" of C02, for a memo
keyed like `beyond/utils/memoize.py` keys `iau1980._nutation`: by the TEXT of the date (`str(args)`), while the value
also depends on what the Date carries without showing it (TAI−UTC of its EOP record through the TT instant of a UTC text;
δΔψ, δΔε of its EOP record when `eop_correction=True`).

Discrete instance: an argument is (text, hidden value of the record), the key keeps the text, the function reads both.
Replayed on the implementation by harness/props/C02.py: families `nutation-memo:*` (known finding C02-nutation-memo-eop)
and — for the same decoration put on `_sideral` — seeded change C02-m2.
-/
namespace BeyondVerif.C02W
open BeyondVerif

/-- same text 7, records 32 then 0: the second call is answered with the value of the first -/
theorem text_keyed_memo_stale :
    Memo.run (fun (x : Nat × Nat) => x.1) (fun x => x.1 + x.2) [] [(7, 32), (7, 0)] = [39, 39] := by decide

/-- … which is not what the bare function returns along that history: the memoized function is history dependent -/
theorem text_keyed_memo_history_dependent :
    Memo.run (fun (x : Nat × Nat) => x.1) (fun x => x.1 + x.2) [] [(7, 32), (7, 0)]
      ≠ [(7, 32), (7, 0)].map (fun x => x.1 + x.2) := by decide

/-- the order of the two calls decides what the call `(7, 0)` returns -/
theorem text_keyed_memo_order_dependent :
    (Memo.run (fun (x : Nat × Nat) => x.1) (fun x => x.1 + x.2) [] [(7, 32), (7, 0)]).getLast? = some 39 ∧
    (Memo.run (fun (x : Nat × Nat) => x.1) (fun x => x.1 + x.2) [] [(7, 0)]).getLast? = some 7 := by decide

/-- keyed by everything the value reads, the same history is answered like the bare function (instance of `Memo.run_eq_map`) -/
theorem full_key_memo_sound :
    Memo.run (fun (x : Nat × Nat) => x) (fun x => x.1 + x.2) [] [(7, 32), (7, 0), (7, 32)] = [39, 7, 39] := by decide

end BeyondVerif.C02W
