import BeyondVerif.Model.Iter
/-!
Kernel-checked regression witnesses (`decide`) for the clauses of C08 that the code falsified before the `fix:` commits named
in brackets (known_findings.d/C08.json, status `fixed`). Each is the formerly failing input of the corresponding finding, evaluated
on `Model/Iter.lean` as it follows the code NOW: the model yields the stream the property requires. The correspondence run shows the
code behaves the same, and the oracle in `harness/props/C08.py` replays the same inputs on the real API (family in brackets):
a failure there is reported as a VIOLATION again.
Units: seconds written as integers (the model is unit-free); `h = 60` is the integration step, order 8.
-/
namespace BeyondVerif.C08W
open BeyondVerif.Iter

/-- [num-iter-fwd-beyond-stop, 1267f6c] stop 90 s after the epoch, integration step 60 s, no `step`: 0, 60 — the date 120 s,
beyond stop, is no longer yielded -/
theorem numerical_nothing_beyond_stop : numIter 20 8 0 60 (fun _ => 60) true { stop := some (.at 90) } false = (true, ⟨[0, 60], .done⟩) := by decide

/-- [num-iter-fwd-beyond-stop, 1267f6c] the same with an explicit step: stop 450, step 30 → the last date is 450 (was 480) -/
theorem numerical_nothing_beyond_stop_step :
    (numIter 40 8 0 60 (fun _ => 60) true { stop := some (.at 450), step := some (some 30) } false).2.dates.getLast? = some 450 := by decide

/-- [num-iter-fwd-step-short-raises-value-error, d22f06a] a span of 200 s (4 integration points < order 8) with an explicit step
is resampled (was ValueError) -/
theorem numerical_short_span_resampled :
    numIter 20 8 0 60 (fun _ => 60) true { stop := some (.at 200), step := some (some 30) } false = (true, ⟨[0, 30, 60, 90, 120, 150, 180], .done⟩) := by decide

/-- [num-iter-fwd-step-short-raises-value-error, d22f06a] … and with a listener and no step the integration grid is padded but
only the dates up to stop are yielded -/
theorem numerical_short_span_listening : numIter 20 8 0 60 (fun _ => 60) true { stop := some (.at 200) } true = (true, ⟨[0, 60, 120, 180], .done⟩) := by decide

/-- [num-iter-bwd-raises-value-error, d22f06a] backward ranges are iterated (were ValueError): step given positive, … -/
theorem numerical_backward : numIter 20 8 0 60 (fun _ => 60) true { stop := some (.delta (-600)), step := some (some 60) } false
    = (true, ⟨[0, -60, -120, -180, -240, -300, -360, -420, -480, -540, -600], .done⟩) := by decide
/-- … no step (stop off the integration grid: nothing beyond it), … -/
theorem numerical_backward_nostep : numIter 20 8 0 60 (fun _ => 60) true { stop := some (.delta (-200)) } false = (true, ⟨[0, -60, -120, -180], .done⟩) := by decide
/-- … negative step not dividing the span, start after the epoch -/
theorem numerical_backward_negstep :
    numIter 20 8 0 60 (fun _ => 60) true { start := some (some 100), stop := some (.at (-100)), step := some (some (-45)) } false
      = (true, ⟨[100, 55, 10, -35, -80], .done⟩) := by decide

/-- [num-iter-dates-list-raises-attribute-error, c9fd5d8] an explicit list of dates is accepted by the numerical propagator
(was AttributeError) and yielded as given; the empty list yields nothing -/
theorem numerical_dates_list : numIter 20 8 0 60 (fun _ => 60) true { dates := some (.list [0, 60]) } false = (true, ⟨[0, 60], .done⟩) := by decide
theorem numerical_dates_list_unordered : numIter 20 8 0 60 (fun _ => 60) true { dates := some (.list [200, -45, 200, 7]) } false
    = (true, ⟨[200, -45, 200, 7], .done⟩) := by decide
theorem numerical_dates_list_empty : numIter 20 8 0 60 (fun _ => 60) true { dates := some (.list []) } false = (false, ⟨[], .done⟩) := by decide

/-- COUNTER-witness [num-iter-fwd-adaptive-default-step-wrong-dates, OPEN finding C08-num-adaptive-default-step]: with an adaptive
method whose step-size control takes steps of 33 s (nominal step 60 s), the DEFAULT step (absent, `None` or `propagator.step`
itself) yields the raw integration points up to stop instead of 0, 60, 120, 180; backward, and with any explicit step — of the
same value too — the contract grid is yielded -/
theorem numerical_default_step_raw_points :
    numIter 20 8 0 60 (fun _ => 33) true { stop := some (.at 200) } false = (true, ⟨[0, 33, 66, 99, 132, 165, 198], .done⟩) ∧
    numIter 20 8 0 60 (fun _ => 33) true { stop := some (.at 200), step := some (some 60), stepSame := true } false
      = (true, ⟨[0, 33, 66, 99, 132, 165, 198], .done⟩) ∧
    numIter 20 8 0 60 (fun _ => 33) true { stop := some (.at 200), step := some (some 60) } false = (true, ⟨[0, 60, 120, 180], .done⟩) ∧
    numIter 20 8 0 60 (fun _ => 33) true { stop := some (.delta (-200)) } false = (true, ⟨[0, -60, -120, -180], .done⟩) := by
  decide

/-- the seeded change C08-m5 (`step == self.step`, `ident = false`) extends this to an explicit step of the same value -/
theorem numerical_value_test_raw_points :
    numIter 20 8 0 60 (fun _ => 33) false { stop := some (.at 200), step := some (some 60) } false
      = (true, ⟨[0, 33, 66, 99, 132, 165, 198], .done⟩) := by
  decide

def pts : List Int := [0, 60, 120, 180, 240, 300, 360, 420, 480, 540, 600]

/-- [ephem-iter-bwd-yields-nothing, 0823162] a backward range over an ephemeris yields `start − k·|step|` (was: nothing) -/
theorem ephem_backward : ephemIter 20 8 pts none (some 400) (some (.at 30)) (some (-90)) true = ⟨[400, 310, 220, 130, 40], .done⟩ := by decide
theorem ephem_backward_posstep : ephemIter 20 8 pts none (some 400) (some (.at 30)) (some 90) true = ⟨[400, 310, 220, 130, 40], .done⟩ := by decide

/-- [ephem-iter-dates-list-empty-extra-dates, f7bd57e] `dates=[]` yields nothing (was: the whole ephemeris) -/
theorem ephem_empty_list_yields_nothing : ephemIter 20 8 pts (some (.list [])) none none none true = ⟨[], .done⟩ := by decide

/-- [analytical-iter-dates-list-empty-raises-value-error, 9fe3fcf] `dates=[]` yields nothing on analytical propagators
(was ValueError "Null step") -/
theorem analytical_empty_list_yields_nothing : analyticalIter 20 0 none { dates := some (.list []) } = (true, ⟨[], .done⟩) := by decide

/-- orbit values of the witnesses below: (object, (number of changes of its elements, number of changes of its drag term));
`Sgp4._state` sees both (since 3d341d9) -/
def world (k : Kind) : World (Nat × Nat × Nat) :=
  { kind := k, store := Prod.mk, sameState := fun a b => a == b, epoch := fun _ => 0 }

/-- the world of the code BEFORE 3d341d9: `Sgp4._state` did not see the drag term -/
def worldOld (k : Kind) : World (Nat × Nat × Nat) :=
  { kind := k, store := Prod.mk, sameState := fun a b => a.1 == b.1 && a.2.1 == b.2.1, epoch := fun _ => 0 }

/-- [sgp4-history-dependent-state-after-inplace-change, c604b3e] Sgp4 re-derives its satellite record when the bound orbit was
modified in place: after `propagate; modify`, `propagate` and `iter` return the trajectory of the NEW elements (`(0, 1, 0)` = orbit 0
after its modification; was `(0, 0, 0)`), as fresh objects do -/
theorem sgp4_follows_modify :
    let w := world .sgp4
    let s := runHist (R := Nat × Nat × Nat) w (fun v _ => v) (fun _ _ _ => false) 10 {} [.propagate 0 5, .modify 0]
    (exec w (fun v _ => v) (fun _ _ _ => false) 10 s (.propagate 0 7)).2.states = [(0, 1, 0)] ∧
    (exec w (fun v _ => v) (fun _ _ _ => false) 10 s (.iter 0 { stop := some (.at 20), step := some (some 10) } [] 5)).2.states
      = [(0, 1, 0), (0, 1, 0), (0, 1, 0)] ∧
    (exec w (fun v _ => v) (fun _ _ _ => false) 10 ({ ver := s.ver } : St (Nat × Nat × Nat)) (.propagate 0 7)).2.states = [(0, 1, 0)] := by
  decide

/-- [sgp4-history-dependent-state-after-inplace-drag-term-change, 3d341d9] after `propagate; orb.bstar = x`, Sgp4 rebuilds its
record: `propagate` and `iter` return the trajectory of the NEW drag term (`(0, 0, 1)`; was `(0, 0, 0)`), as fresh objects do -/
theorem sgp4_follows_drag_change :
    let w := world .sgp4
    let s := runHist (R := Nat × Nat × Nat) w (fun v _ => v) (fun _ _ _ => false) 10 {} [.propagate 0 5, .modifyMeta 0]
    (exec w (fun v _ => v) (fun _ _ _ => false) 10 s (.propagate 0 7)).2.states = [(0, 0, 1)] ∧
    (exec w (fun v _ => v) (fun _ _ _ => false) 10 s (.iter 0 { stop := some (.at 20), step := some (some 10) } [] 5)).2.states
      = [(0, 0, 1), (0, 0, 1), (0, 0, 1)] ∧
    (exec w (fun v _ => v) (fun _ _ _ => false) 10 ({ ver := s.ver } : St (Nat × Nat × Nat)) (.propagate 0 7)).2.states = [(0, 0, 1)] := by
  decide

/-- the hypothesis `Faithful` of `propagate_pure` is needed: in a world whose `sameState` does not see a component of the orbit
value (the code before 3d341d9) the old trajectory is returned -/
theorem stale_when_not_faithful :
    let w := worldOld .sgp4
    let s := runHist (R := Nat × Nat × Nat) w (fun v _ => v) (fun _ _ _ => false) 10 {} [.propagate 0 5, .modifyMeta 0]
    (exec w (fun v _ => v) (fun _ _ _ => false) 10 s (.propagate 0 7)).2.states = [(0, 0, 0)] ∧
    (exec w (fun v _ => v) (fun _ _ _ => false) 10 ({ ver := s.ver } : St (Nat × Nat × Nat)) (.propagate 0 7)).2.states = [(0, 0, 1)] := by
  decide

/-- … and any interleaving of the two kinds of changes is followed -/
theorem sgp4_follows_both_changes :
    let w := world .sgp4
    let s := runHist (R := Nat × Nat × Nat) w (fun v _ => v) (fun _ _ _ => false) 10 {} [.propagate 0 5, .modifyMeta 0, .modify 0]
    (exec w (fun v _ => v) (fun _ _ _ => false) 10 s (.propagate 0 7)).2.states = [(0, 1, 1)] := by
  decide

/-- the same histories under the copying setters and under NonePropagator follow every modification -/
theorem kepler_follows_modify :
    let w := world .kepler
    let s := runHist (R := Nat × Nat × Nat) w (fun v _ => v) (fun _ _ _ => false) 10 {} [.propagate 0 5, .modify 0, .modifyMeta 0]
    (exec w (fun v _ => v) (fun _ _ _ => false) 10 s (.propagate 0 7)).2.states = [(0, 1, 1)] := by
  decide

/-- NOT safe in the current code (NOT_COVERED of C08): generators of two DIFFERENT orbit objects (epochs 60 and 180) that the user
made hold the SAME propagator object, walked side by side — the first one is re-targeted by the creation of the second: it starts
at the other's epoch with the other's states. With propagators of their own each follows its receiver (`interleave_pure`). -/
theorem interleaved_shared_propagator_retargeted :
    let a : Args := { stop := some (.delta 120), step := some (some 60) }
    let ops := [IOp.create 0 a, IOp.create 1 a]
    let shared : IWorld := { kind := .kepler, propOf := fun _ => 0, epoch := fun o => if o = 0 then 60 else 180 }
    let own : IWorld := { kind := .kepler, propOf := id, epoch := fun o => if o = 0 then 60 else 180 }
    (istep shared 10 (irun shared 10 {} ops) (.advance 0 5)).2.1 = [(180, 1), (240, 1), (300, 1)] ∧
    (istep own 10 (irun own 10 {} ops) (.advance 0 5)).2.1 = [(60, 0), (120, 0), (180, 0)] := by
  decide

/-- [cw-interleave-zip-sibling-points-dates, 31423a7] two points of one Clohessy–Wiltshire iteration (epochs 60 and 240) own their
propagators: iterators created from them and advanced alternately (`zip`) each start at their own epoch (the first was
re-targeted to 240, 300, … before the fix) -/
theorem cw_sibling_points_interleaved :
    let a : Args := { stop := some (.delta 180), step := some (some 60) }
    let w : IWorld := { kind := .cw, propOf := id, epoch := fun o => if o = 0 then 60 else 240 }
    let s := irun w 10 {} [.create 0 a, .create 1 a, .advance 0 1, .advance 1 1, .advance 0 1, .advance 1 1]
    (istep w 10 s (.advance 0 5)).2.1 = [(180, 0), (240, 0)] ∧ (istep w 10 s (.advance 1 5)).2.1 = [(360, 1), (420, 1)] := by
  decide

/-- what a second walk of the caller's `dates` object costs (a check loop in front of the propagation loop, say): a list or a
`DateRange` survives it, a single-use iterator (generator expression, `iter(list)`, `reversed(list)`, `Ephem.dates`) has nothing
left for the loop that propagates — the iteration ends at once, without an error. With the one walk of the code (`Generated.datesWalks`)
both kinds of object yield their dates (`iter_dates_source`, `ephem_iter_dates_source`, `numerical_iter_dates_source`). -/
theorem second_walk_loses_single_use_dates :
    let w : World Nat := { kind := .ephem, store := fun i _ => i, sameState := fun _ _ => true, epoch := fun _ => 0, h := 60, order := 2,
                           pts := [0, 60, 120, 180] }
    iterRunSrc w 2 10 0 {} (.once [30, 90, 150]) false = ((true, ⟨[], .done⟩), .once []) ∧
    iterRunSrc w 2 10 0 {} (.again [30, 90, 150]) false = ((true, ⟨[30, 90, 150], .done⟩), .again [30, 90, 150]) ∧
    iterRunSrc w 1 10 0 {} (.once [30, 90, 150]) false = ((true, ⟨[30, 90, 150], .done⟩), .once []) := by
  decide

/-- [open finding C08-ephem-own-points-shared-cursor] two iterations over the own points of ONE ephemeris, advanced alternately
(`zip(e.iter(), e.iter())`; a plain `for orb in e` while a generator of `e.iter()` is suspended; nested plain loops): with the one
cursor `Ephem.__iter__` keeps on the object each consumer gets every other point and the first one to ask after the end stops early;
with a cursor per consumer (`iter(self._orbits)`, proposed_fixes/C08-j-ephem-iter-shared-cursor.diff) each gets all the points -/
theorem ephem_own_points_shared_cursor :
    let ops := [CurOp.start 0, .pull 0, .start 1, .pull 1, .pull 0, .pull 1, .pull 0, .pull 1]
    curRun true [0, 60, 120, 180] (fun _ => 0) ops = [(0, some 0), (1, some 0), (0, some 60), (1, some 120), (0, some 180), (1, none)] ∧
    curRun false [0, 60, 120, 180] (fun _ => 0) ops = [(0, some 0), (1, some 0), (0, some 60), (1, some 60), (0, some 120), (1, some 120)] := by
  decide

end BeyondVerif.C08W
