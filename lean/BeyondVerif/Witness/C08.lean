import BeyondVerif.Model.Iter
/-!
Kernel-checked counter-witnesses (`decide`) for the clauses of C08 that the current code falsifies.  They are statements
about `Model/Iter.lean`; the correspondence run shows the code behaves the same, and the oracle in `harness/props/C08.py`
replays each of them on the real API (family given in brackets; all are listed in `known_findings.d/C08.json`).
Units: seconds written as integers (the model is unit-free); `h = 60` is the integration step, order 8.
-/
namespace BeyondVerif.C08W
open BeyondVerif.Iter

/-- [num-iter-fwd-beyond-stop] stop 90 s after the epoch, integration step 60 s, no `step`: the date 120 s, beyond stop, is yielded -/
theorem numerical_beyond_stop : numIter 20 8 0 60 { stop := some (.at 90) } = (true, ⟨[0, 60, 120], .done⟩) := by decide

/-- [num-iter-fwd-beyond-stop] the same with an explicit step: stop 450, step 30 → 480 is yielded -/
theorem numerical_beyond_stop_step :
    (numIter 40 8 0 60 { stop := some (.at 450), step := some (some 30) }).2.dates.getLast? = some 480 := by decide

/-- [num-iter-fwd-step-short-raises-value-error] a span of 200 s (4 integration points < order 8) with an explicit step raises ValueError -/
theorem numerical_short_span_raises : numIter 20 8 0 60 { stop := some (.at 200), step := some (some 30) } = (true, Run.fail .value) := by decide

/-- [num-iter-bwd-raises-value-error] every backward range raises ValueError (one tabulated point, interpolation impossible) -/
theorem numerical_backward_raises : numIter 20 8 0 60 { stop := some (.delta (-600)), step := some (some 60) } = (true, Run.fail .value) := by decide
theorem numerical_backward_raises_nostep : numIter 20 8 0 60 { stop := some (.delta (-600)) } = (true, Run.fail .value) := by decide

/-- [num-iter-dates-list-raises-attribute-error] an explicit list of dates is not accepted by the numerical propagator -/
theorem numerical_dates_list_raises : numIter 20 8 0 60 { dates := some (.list [0, 60]) } = (false, Run.fail .attr) := by decide

def pts : List Int := [0, 60, 120, 180, 240, 300, 360, 420, 480, 540, 600]

/-- [ephem-iter-bwd-yields-nothing] a backward range over an ephemeris yields nothing, silently -/
theorem ephem_backward_yields_nothing : ephemIter 20 8 pts none (some 400) (some (.at 30)) (some (-90)) true = ⟨[], .done⟩ := by decide

/-- [ephem-iter-dates-list-empty-extra-dates] `dates=[]` yields the whole ephemeris instead of nothing -/
theorem ephem_empty_list_yields_all : ephemIter 20 8 pts (some (.list [])) none none none true = ⟨pts, .done⟩ := by decide

/-- [analytical-iter-dates-list-empty-raises-value-error] `dates=[]` raises ValueError ("Null step") on analytical propagators -/
theorem analytical_empty_list_raises : analyticalIter 20 0 none { dates := some (.list []) } = (true, Run.fail .value) := by decide

/-- [sgp4-history-dependent-propagate-state-after-inplace-change] Sgp4 keeps the satellite record computed when the orbit was
bound: after the user modifies the orbit in place, `propagate` still returns the trajectory of the old elements
(`(0, 0)` = orbit 0 before its modification) whereas fresh objects follow the new ones (`(0, 1)`) -/
theorem sgp4_stale_after_modify :
    let w : World (Nat × Nat) := { kind := .sgp4, store := Prod.mk, epoch := fun _ => 0 }
    let s := runHist (R := Nat × Nat) w (fun v _ => v) (fun _ _ _ => false) 10 {} [.propagate 0 5, .modify 0]
    (exec w (fun v _ => v) (fun _ _ _ => false) 10 s (.propagate 0 7)).2.states = [(0, 0)] ∧
    (exec w (fun v _ => v) (fun _ _ _ => false) 10 ({ ver := s.ver } : St (Nat × Nat)) (.propagate 0 7)).2.states = [(0, 1)] := by
  decide

/-- the same history under the copying setters and under NonePropagator follows the modification -/
theorem kepler_follows_modify :
    let w : World (Nat × Nat) := { kind := .kepler, store := Prod.mk, epoch := fun _ => 0 }
    let s := runHist (R := Nat × Nat) w (fun v _ => v) (fun _ _ _ => false) 10 {} [.propagate 0 5, .modify 0]
    (exec w (fun v _ => v) (fun _ _ _ => false) 10 s (.propagate 0 7)).2.states = [(0, 1)] := by
  decide

end BeyondVerif.C08W
