import BeyondVerif.Model.ManWin
import BeyondVerif.Model.FrameReg
/-!
# C17 — kernel-checked counter-witnesses

The clause "a continuous burn delivers its full Δv over its duration" is false of the current code for burns that
are not aligned with the integration steps: `KeplerNum._accel` asks `ContinuousMan.check` (translated:
`contCheck`) at the Runge–Kutta stage dates `date + c·step` only (`c` regenerated from `KeplerNum.BUTCHER`).
Dates are integer microseconds.  (Known finding C17-continuous-burn-step-sampling.)
-/
namespace BeyondVerif.C17W
open BeyondVerif.ManWin BeyondVerif.Generated

/-- a 7 s burn `[615 s, 622 s)` inside the 60 s step starting at 600 s: no stage date of the two
fixed-step methods (Euler, RK4) sees it switched on, in that step or its neighbours — it delivers nothing -/
theorem short_burn_delivers_nothing :
    ∀ cs ∈ [butcherC_euler, butcherC_rk4],
      ∀ date ∈ [540000000, 600000000, 660000000],
        stagesOn cs 615000000 622000000 date 60000000 = cs.map (fun _ => false) := by decide

/-- a 1.5 s burn `[599 s, 600.5 s)` across the grid date 600 s with RK4: the last stage of the step before
(weight 1/6) and the first stage of the step after (weight 1/6) both see it on — 20 s worth of thrust
for a 1.5 s burn -/
theorem straddling_burn_delivers_too_much :
    stagesOn butcherC_rk4 599000000 600500000 540000000 60000000 = [false, false, false, true] ∧
    stagesOn butcherC_rk4 599000000 600500000 600000000 60000000 = [true, false, false, false] := by decide

/-- a 30 s burn `[600 s, 630 s)` starting on the grid, RK4 with 60 s steps: stages with weights 1/6 (previous
step, c = 1) and 1/6 (c = 0) are on, the two midpoint stages at 630 s are already off: 20 s worth for 30 s -/
theorem half_step_burn_rk4 :
    stagesOn butcherC_rk4 600000000 630000000 540000000 60000000 = [false, false, false, true] ∧
    stagesOn butcherC_rk4 600000000 630000000 600000000 60000000 = [true, false, false, false] := by decide

/-- by contrast a burn lasting whole steps and starting on the grid is seen by every stage inside it
(and by the closing stage of the step before, which compensates the open end) -/
theorem whole_step_burn_rk4 :
    stagesOn butcherC_rk4 600000000 720000000 540000000 60000000 = [false, false, false, true] ∧
    stagesOn butcherC_rk4 600000000 720000000 600000000 60000000 = [true, true, true, true] ∧
    stagesOn butcherC_rk4 600000000 720000000 660000000 60000000 = [true, true, true, false] ∧
    stagesOn butcherC_rk4 600000000 720000000 720000000 60000000 = [false, false, false, false] := by decide

/-! ### A frame name registered again under a farther parent (open finding C17-reregistered-under-other-parent) -/
section reregistration
open BeyondVerif.FrameReg

/-- `orbit2frame("f", orbit 0, "QSW")` (parent EME2000), then `orbit2frame("f", orbit 1, "QSW", parent=TEME)` — three
orientation links away from the EME2000 states that are converted: the conversion out of the frame (and its origin) use
the latest registration, the conversion into it the axes of the first one -/
theorem stale_axes_after_reregistration_under_farther_parent :
    run [] [Op.reg "f" ⟨"QSW", 0, 0⟩, Op.reg "f" ⟨"QSW", 1, 3⟩, Op.conv "f"] = [some ⟨"QSW", 1, 3⟩] ∧
    runInto [] [Op.reg "f" ⟨"QSW", 0, 0⟩, Op.reg "f" ⟨"QSW", 1, 3⟩, Op.conv "f"] = [some ⟨"QSW", 0, 0⟩] := by decide

/-- registered again under the same parent, or under a nearer one, the latest registration is used both ways -/
theorem reregistration_under_same_or_nearer_parent_is_fine :
    runInto [] [Op.reg "f" ⟨"QSW", 0, 0⟩, Op.reg "f" ⟨"TNW", 1, 0⟩, Op.conv "f"] = [some ⟨"TNW", 1, 0⟩] ∧
    runInto [] [Op.reg "f" ⟨"QSW", 0, 3⟩, Op.reg "f" ⟨"TNW", 1, 1⟩, Op.conv "f"] = [some ⟨"TNW", 1, 1⟩] := by decide

end reregistration

end BeyondVerif.C17W
