import BeyondVerif.Model.DateCfg
import BeyondVerif.Model.CcsdsDate
import BeyondVerif.Model.DateIter
/-!
Kernel-checked witnesses for C04, on C03's model of `Date` with two days of IERS values (2015-03-03 / 04: UT1−UTC =
−0.5295713 s and −0.5306080 s, TAI−UTC = 35 s).

1. `ccsds_mixed_label_moves_instant` — **regression witness** of finding `ccsds-mixed-scale-epochs` (fixed by /repo
   commit aa1842c): the CCSDS writers used to emit every epoch (maneuver, ephemeris point, covariance) as the clock
   reading of that date's OWN scale while TIME_SYSTEM is the scale of the state's date (OPM/OMM) or of the first point
   (OEM); the readers construct every epoch in TIME_SYSTEM.  A TT-labelled maneuver date on a UTC-labelled orbit was
   read back 67.184 s later (`Message.dumpOwnScale`).  With the writers converting through `in_scale` (`Message.dump`,
   the current code) the same message reads back as the instants written: `ccsds_mixed_label_keeps_instant`.
1b. `foreign_segment_scale_moves_instants` — regression witness for a writer that converts the epochs of a segment to the
   scale of another segment (seeded change C04-m6): the segment is read back TT − UTC off.
2. `same_day_shortcut_keeps_wrong_record` — regression witness: a `+` that, when the sum stays in the same day of the
   date's own scale, re-uses the operand's offset and EOP record instead of going through the constructor (seeded change
   C04-m4) gives, 10 s after TAI midnight, the record of the previous UTC day.
3. `eop_day_own_scale_depends_on_label` — regression witness of the finding fixed by fc514f7 (record looked up by the day
   number of the label scale).
-/
namespace BeyondVerif.C04W
open BeyondVerif.Date BeyondVerif.Generated

def env2 : Env :=
  { finals := fun day => if day = 57084 then some (-5295713) else if day = 57085 then some (-5306080) else none
    leap := [(56109, 350000000)]
    policy := .pass
    tdb := fun _ => 0 }

def tai : Nat := scalesNames.idxOf "TAI"
def utc : Nat := scalesNames.idxOf "UTC"
def tt : Nat := scalesNames.idxOf "TT"

/-- 2015-03-04T12:00:00 and 2015-03-04T00:00:10 as microseconds since the MJD origin -/
def usNoon : Int := 4932187200000000
def us10 : Int := 4932144010000000

def bind (r : Except Err Date) (f : Date → Except Err Date) : Except Err Date :=
  match r with
  | .ok x => f x
  | .error e => .error e

def instOf (r : Except Err Date) : Option Int :=
  match r with
  | .ok x => some x.inst
  | .error _ => none

def ut1Of (r : Except Err Date) : Option Int :=
  match r with
  | .ok x => some x.eop.ut1Utc
  | .error _ => none

/-! ### 1. mixed labels in one CCSDS message -/

/-- the state's date: noon UTC -/
def head : Except Err Date := ofDatetime cfg env2 utc usNoon
/-- a maneuver 10 min later, its date labelled TT -/
def man : Except Err Date := bind (bind head (fun h => add cfg env2 h 600000000)) (fun a => changeScale cfg env2 a tt)

/-- instants of the epochs of the message `⟨head, [man]⟩` written as before aa1842c (own-scale readings), then read -/
def rereadOwnScale : Option (List (Option Int)) :=
  match head, man with
  | .ok h, .ok m => some ((CcsdsDate.load cfg env2 (CcsdsDate.Message.dumpOwnScale ⟨h, [m]⟩)).map instOf)
  | _, _ => none

/-- … and written as the current code does (`in_scale`), then read -/
def reread : Option (List (Option Int)) :=
  match head, man with
  | .ok h, .ok m =>
    match CcsdsDate.Message.dump cfg env2 ⟨h, [m]⟩ with
    | .ok w => some ((CcsdsDate.load cfg env2 w).map instOf)
    | .error _ => none
  | _, _ => none

/-- before the fix: the TT label does not move the maneuver (same instant as the UTC-labelled one), but writing it
under TIME_SYSTEM = UTC as its TT clock reading and reading it back moved it by TT − UTC = 67.184 s = 671 840 000 ticks;
the state's epoch was kept -/
theorem ccsds_mixed_label_moves_instant :
    instOf head = some 49321872350000000 ∧ instOf man = some 49321878350000000 ∧
    rereadOwnScale = some [some 49321872350000000, some (49321878350000000 + 671840000)] := by
  decide

/-- the current writers: the same message reads back as the instants written -/
theorem ccsds_mixed_label_keeps_instant :
    reread = some [instOf head, instOf man] ∧ instOf man = some 49321878350000000 := by
  decide

/-! ### 1b. a segment whose epochs are converted to ANOTHER segment's scale -/

/-- a second segment whose dates are all labelled TT (TIME_SYSTEM = TT), its epochs converted to UTC — the scale of the
first segment of the message — before printing (seeded change C04-m6): read back in TT, the whole segment is TT − UTC =
67.184 s early; converted to its own head's scale it is read back exactly -/
def seg2 : Option CcsdsDate.Message :=
  match bind head (fun h => changeScale cfg env2 h tt), man with
  | .ok h, .ok m => some ⟨h, [m]⟩
  | _, _ => none

def rereadSeg (f : CcsdsDate.Message → Except Err (Nat × List Int)) : Option (List (Option Int)) :=
  match seg2 with
  | some sg =>
    match f sg with
    | .ok w => some ((CcsdsDate.load cfg env2 w).map instOf)
    | .error _ => none
  | none => none

theorem foreign_segment_scale_moves_instants :
    rereadSeg (CcsdsDate.Message.dumpTo cfg env2 utc) = some [some (49321872350000000 - 671840000), some (49321878350000000 - 671840000)] ∧
    rereadSeg (CcsdsDate.Message.dump cfg env2) = some [some 49321872350000000, some 49321878350000000] := by
  decide

/-! ### 2. a same-day shortcut for `+` -/

/-- the sum built without the constructor: the operand's `_offset`, `scale` and `eop` re-used (only valid when the
seconds of the own-scale day stay in `[0, 86400)`) -/
def addSameDay (x : Date) (tUs : Int) : Date :=
  let ds := x.toScale
  let s := tUs * 10 + ds.2 + x.off
  ⟨ds.1 + s / D, s % D, x.off, x.scale, x.eop⟩

def x10 : Except Err Date := ofDatetime cfg env2 tai us10

def shortcut : Except Err Date := bind x10 (fun x => .ok (addSameDay x 60000000))

/-- 2015-03-04T00:00:10 TAI (= 23:59:35 UTC the day before) + 60 s stays in the TAI day and crosses UTC midnight: the
constructor gives the sum the record of March 4, the shortcut leaves it that of March 3 — same instant, other record -/
theorem same_day_shortcut_keeps_wrong_record :
    ut1Of x10 = some (-5295713) ∧ ut1Of (bind x10 (fun x => add cfg env2 x 60000000)) = some (-5306080) ∧
    ut1Of shortcut = some (-5295713) ∧ instOf shortcut = instOf (bind x10 (fun x => add cfg env2 x 60000000)) := by
  decide

/-! ### 3. record by own-scale day (before fc514f7) -/

/-- the record found at the TAI clock reading 00:00:10 is not the record of the UTC reading 23:59:35 of the same instant -/
theorem eop_day_own_scale_depends_on_label :
    eopRaw env2 (us10 * 10) = some ⟨350000000, -5306080⟩ ∧ eopRaw env2 (us10 * 10 - 350000000) = some ⟨350000000, -5295713⟩ := by
  decide

/-! ### 4. an index of nodes keyed by the clock reading -/

/-- a tabulated point: noon UTC; the request: the date that SHOWS noon under the label TAI (35 s earlier); the same
request relabelled UTC (shows 11:59:25) -/
def nodeU : Except Err Date := ofDatetime cfg env2 utc usNoon
def reqT : Except Err Date := ofDatetime cfg env2 tai usNoon
def reqU : Except Err Date := bind reqT (fun q => changeScale cfg env2 q utc)

def lookupBy {κ : Type} [DecidableEq κ] (key : Date → κ) (q : Except Err Date) : Option (Option Nat) :=
  match nodeU, q with
  | .ok n, .ok x => some (nodeLookup key [(n, 1)] x)
  | _, _ => none

/-- regression witness (seeded change C04-m8: `DatedInterp` hands back the recorded value of a node found in an index
keyed by `Date.datetime`): the TAI-labelled request is 35 s before the node and is taken for it; the same instant
labelled UTC is not; keyed by `_datetime` (what `hash(Date)` uses) neither is -/
theorem reading_key_confuses_labels :
    instOf reqT = (instOf nodeU).map (· - 350000000) ∧ instOf reqU = instOf reqT ∧
    lookupBy Date.datetime reqT = some (some 1) ∧ lookupBy Date.datetime reqU = some none ∧
    lookupBy Date.hashKey reqT = some none ∧ lookupBy Date.hashKey reqU = some none ∧
    lookupBy Date.hashKey nodeU = some (some 1) := by
  decide

end BeyondVerif.C04W
