import BeyondVerif.Model.InterpR
import Mathlib.Tactic.NormNum
/-!
Counter-witness for the clause "an interpolated point keeps the ephemeris' frame and form" of C09,
read as "the returned coordinates are expressed in the frame/form the point is labelled with".

`Ephem.interp` caches its interpolator; the interpolator holds a *copy* of the points' coordinates taken at
the first interpolation (`np.asarray(self._orbits)`).  The `frame` / `form` setters convert the points in
place and leave that copy alone.  In the model (`Eph`, which the correspondence shows to behave like the real
class on such sequences) an ephemeris that has been interpolated once returns, after a conversion, the *old*
coordinates under the *new* labels.  Replayed on the implementation by harness/props/C09.py
(families `stale-interpolator-after-frame-set`, `stale-interpolator-after-form-set`).
-/
namespace BeyondVerif.C09W
open BeyondVerif.R BeyondVerif.NumReal

/-- **General form of the defect**: once an ephemeris has been interpolated, a conversion of its points has no
effect whatsoever on the coordinates later interpolations return. -/
theorem stale_cache_ignores_conversion (e : Eph) (conv : Pt → Pt) (hdate : ∀ p, (conv p).mjd = p.mjd) (d1 d2 : ℝ) :
    (((e.interpolate d1).2.convert conv).interpolate d2).1.toOption.map (·.coord)
      = ((e.interpolate d1).2.interpolate d2).1.toOption.map (·.coord) := by
  have hmjd : (e.pts.map conv).map (·.mjd) = e.pts.map (·.mjd) := by
    rw [List.map_map]; apply List.map_congr_left; intro p _; exact hdate p
  have h2 : ∀ e' : Eph, e'.pts = e.pts → (e'.cache.isSome) →
      ((e'.convert conv).interpolate d2).1.toOption.map (·.coord) = (e'.interpolate d2).1.toOption.map (·.coord) := by
    intro e' hp hc
    obtain ⟨ys, hys⟩ := Option.isSome_iff_exists.mp hc
    unfold Eph.interpolate Eph.convert
    simp only [hys, Option.getD_some, hp, hmjd]
    cases interp e'.method (some e'.order) (e.pts.map (·.mjd)) ys d2 with
    | error err => rfl
    | ok v =>
      cases e.pts with
      | nil => rfl
      | cons p0 t => rfl
  apply h2
  · unfold Eph.interpolate; simp only; split <;> [skip; split] <;> rfl
  · unfold Eph.interpolate; simp only; split <;> [skip; split] <;> rfl

/-- two points, one coordinate, linear interpolation -/
def ephem0 : Eph :=
  { pts := [⟨0, [0], "cartesian", "A"⟩, ⟨1, [2], "cartesian", "A"⟩], method := .linear, order := 8, cache := none }

/-- a stand-in for a frame change: coordinates doubled, frame renamed -/
def toB (p : Pt) : Pt := { p with coord := p.coord.map (· * 2), frame := "B" }

theorem interp_two (y0 y1 : ℝ) :
    interp .linear (some 8) [0, 1] [[y0], [y1]] 1 = .ok [y0 + (y1 - y0) * (1 - 0) / (1 - 0)] := by
  simp [interp, increasing, interpCall, linearCall, prevIdx, prevIdxGo, pySlice, pyBound, linRow]

/-- **Concrete counter-witness**: interpolate, convert, interpolate at the node `1`: the result is labelled
with frame `B` but carries the frame-`A` coordinate 2, whereas a fresh ephemeris of the converted points gives 4. -/
theorem stale_cache_wrong_coordinates :
    (((ephem0.interpolate 1).2.convert toB).interpolate 1).1.toOption.map (fun p => (p.frame, p.coord)) = some ("B", [2]) ∧
    ((ephem0.convert toB).interpolate 1).1.toOption.map (fun p => (p.frame, p.coord)) = some ("B", [4]) := by
  have hm : ∀ p : Pt, (toB p).mjd = p.mjd := fun _ => rfl
  constructor
  · simp [Eph.interpolate, Eph.convert, ephem0, hm, interp_two, Except.toOption]
    simp [toB]
  · simp [Eph.interpolate, Eph.convert, ephem0, hm, Except.toOption]
    simp [toB, interp_two]; norm_num

end BeyondVerif.C09W
