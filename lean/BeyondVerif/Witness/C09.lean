import BeyondVerif.Model.InterpR
import Mathlib.Tactic.NormNum
/-!
History of the clause "an interpolated point keeps the ephemeris' frame and form" of C09, read as "the
returned coordinates are expressed in the frame/form the point is labelled with".

Until /repo commit 0a4f7b2 the `frame` / `form` setters of `Ephem` converted the points in place but left
alone the copy of the coordinates held by the cached interpolator (`np.asarray(self._orbits)` taken at the
first interpolation): an ephemeris interpolated once returned, after a conversion, the *old* coordinates
under the *new* labels.  This file then held the kernel-checked counter-witnesses
`stale_cache_ignores_conversion` and `stale_cache_wrong_coordinates` about the model of that code.  The setters
now call `_refresh_interp()`, the model (`Eph.convert`) follows the fixed code, those statements are false of
it and were removed; the full-strength theorem is `C09.interpolate_uses_current_coordinates`.  The oracle
families `stale-interpolator-after-{frame,form}-set` of harness/props/C09.py still replay the scenario on the
implementation.

What remains here is the old concrete scenario as a regression statement about the current model.
-/
namespace BeyondVerif.C09W
open BeyondVerif.R BeyondVerif.NumReal

/-- two points, one coordinate, linear interpolation -/
def ephem0 : Eph :=
  { pts := [⟨0, [0], "cartesian", "A"⟩, ⟨1, [2], "cartesian", "A"⟩], method := .linear, order := 8, cache := none }

/-- a stand-in for a frame change: coordinates doubled, frame renamed -/
def toB (p : Pt) : Pt := { p with coord := p.coord.map (· * 2), frame := "B" }

theorem interp_two (y0 y1 : ℝ) :
    interp .linear (some 8) [0, 1] [[y0], [y1]] 1 = .ok [y0 + (y1 - y0) * (1 - 0) / (1 - 0)] := by
  simp [interp, increasing, interpCall, callRefuses, linearCall, linearSlice, linearFormula, prevIdx, prevIdxGo, pySlice, pyBound, linRow]

/-- interpolate, convert, interpolate at the node `1`: frame `B` and the frame-`B` coordinate 4, the same as
on an ephemeris converted before its first interpolation (the stale value was 2) -/
theorem stale_scenario_now_consistent :
    (((ephem0.interpolate 1).2.convert toB).interpolate 1).1.toOption.map (fun p => (p.frame, p.coord)) = some ("B", [4]) ∧
    ((ephem0.convert toB).interpolate 1).1.toOption.map (fun p => (p.frame, p.coord)) = some ("B", [4]) := by
  have hm : ∀ p : Pt, (toB p).mjd = p.mjd := fun _ => rfl
  constructor
  · simp [Eph.interpolate, Eph.convert, ephem0, hm, Except.toOption]
    simp [toB, interp_two]; norm_num
  · simp [Eph.interpolate, Eph.convert, ephem0, hm, Except.toOption]
    simp [toB, interp_two]; norm_num

/-! ### aliases: `ephem[i]` is the recorded object, and converting it in place is not seen by an existing interpolator

`Ephem.__getitem__` (and plain iteration, which the frame/form setters themselves use) hands out the recorded
point.  A caller that converts such a point in place changes the table — but the array held by an interpolator
created earlier is refreshed by the `Ephem.frame` / `Ephem.form` setters only.  The model (`EphH.mutate`) says so, the
correspondence replays it on the real class (`W` operations on `rec` objects); the theorems of Props/C09Ephem.lean
quantify over histories in which the caller modifies only objects the ephemeris created for it
(`OnlyReplies`).  Not a clause of C09 (the property speaks of the ephemeris' own frame and form); recorded in
`ASSUMPTIONS` of harness/props/C09.py. -/

/-- `ephem0` with identities: recorded points are objects 0 and 1 -/
def h0 : EphH := { e := ephem0, ids := [0, 1], next := 2 }

/-- interpolate (the interpolator now holds `[[0],[2]]`), convert the second recorded point through its alias,
interpolate at its date: the old coordinate 2; on an ephemeris never interpolated before: the new coordinate 4 -/
theorem alias_mutation_not_refreshed :
    (((h0.interpolate 1).2.mutate 1 toB).interpolate 1).1.toOption.map (fun r => r.2.coord) = some [2] ∧
    ((h0.mutate 1 toB).interpolate 1).1.toOption.map (fun r => r.2.coord) = some [4] := by
  constructor
  · simp [EphH.interpolate, EphH.mutate, Eph.interpolate, h0, ephem0, Except.toOption]
    simp [toB, interp_two]
  · simp [EphH.interpolate, EphH.mutate, Eph.interpolate, h0, ephem0, Except.toOption]
    simp [toB, interp_two]; norm_num

end BeyondVerif.C09W
