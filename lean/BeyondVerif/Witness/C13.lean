import BeyondVerif.Model.Ccsds
/-!
Kernel-checked instances (`decide`) on concrete messages of the *model* (shown by the correspondence
run to behave as beyond/io/ccsds does).  The same inputs are replayed on the real `dumps`/`loads`
by harness/props/C13.py (`witness_specs`), families as in known_findings.d/C13.json.

History.  Until /repo commits 099db41, b4d12f5, dce331f, dfcb25d this file held counter-witnesses:
a one-point / one-covariance OEM, a one-observation TDM, a one-user-defined OPM/OMM could not be read
back from XML (lone dict / Field iterated), an empty user-defined dict crashed `xml2dict`, a QSW
maneuver came back tagged RSW, a loaded OMM could not be dumped in KVN (`data.tle`), Doppler was
written but not read, elevations without azimuths lacked ANGLE_TYPE.  Those fixes are in; the model
follows them through the regenerated tables, and the same inputs are now *positive* instances
(`…_ok`).  If a fix is reverted the regenerated tables flip and these theorems stop building.
Still a counter-witness: `tdm_two_paths_reload_as_list` (open finding C13-tdm-multi-path-reloads-as-list).
-/
namespace BeyondVerif.C13W
open BeyondVerif.Ccsds BeyondVerif.Generated

def st6 : List Txt := [.s "7000.000000", .s "100.000000", .s "-300.000000", .s "0.010000", .s "7.500000", .s "0.300000"]
def pt (e : String) : Point := { epoch := .s e, state := st6, cov := none }
def tri21 : List Txt := (List.range 21).map fun _ => .s "1.000000000000e-06"
def cov0 : CovM := { frame := none, tri := tri21 }
def seg (pts : List Point) : Seg :=
  { name := "SAT", id := "2020-001A", frame := "EME2000", scale := "UTC", method := "LAGRANGE", order := some (.s "8"), points := pts }

/-- (was lead 11a, fixed 099db41) an OEM with a single ephemeris point is read back from XML … -/
theorem oem_xml_one_point_ok : (oemXml [seg [pt "t0"]] >>= loadOemXml) = .ok [seg [pt "t0"]] := by decide
/-- … as it is from KVN, and as two points are from XML -/
theorem oem_kvn_one_point_ok : (oemKvn [seg [pt "t0"]] >>= loadOemKvn) = .ok [seg [pt "t0"]] := by decide
theorem oem_xml_two_points_ok : (oemXml [seg [pt "t0", pt "t1"]] >>= loadOemXml) = .ok [seg [pt "t0", pt "t1"]] := by decide

/-- (was lead 11b, fixed 099db41) a single covariance block in an XML OEM -/
theorem oem_xml_one_cov_ok :
    (oemXml [seg [{ pt "t0" with cov := some cov0 }, pt "t1"]] >>= loadOemXml) = .ok [seg [{ pt "t0" with cov := some cov0 }, pt "t1"]] := by
  decide
theorem oem_kvn_one_cov_ok :
    (oemKvn [seg [{ pt "t0" with cov := some cov0 }, pt "t1"]] >>= loadOemKvn) = .ok [seg [{ pt "t0" with cov := some cov0 }, pt "t1"]] := by
  decide

def opm0 : Opm :=
  { name := "SAT", id := "2020-001A", frame := "EME2000", scale := "UTC", epoch := .s "t0", state := st6, kep := none, cov := none,
    mans := [], ud := none }
def manQ (f : Option String) : Man := { dur := 0, epoch := .s "t1", frame := f, comment := some "burn", dv := [.s "0.001000", .s "0.002000", .s "0.003000"] }

/-- (was lead 12, fixed b4d12f5) a QSW maneuver is written `RSW` and comes back as QSW (both encodings) -/
theorem opm_qsw_man_ok :
    (opmKvn { opm0 with mans := [manQ (some "QSW")] } >>= loadOpmKvn) = .ok { opm0 with mans := [manQ (some "QSW")] } ∧
    (opmXml { opm0 with mans := [manQ (some "QSW")] } >>= loadOpmXml) = .ok { opm0 with mans := [manQ (some "QSW")] } := by
  decide
/-- TNW maneuvers and maneuvers in the orbit's own frame are restored -/
theorem opm_tnw_man_ok :
    (opmKvn { opm0 with mans := [manQ (some "TNW"), manQ none] } >>= loadOpmKvn) = .ok { opm0 with mans := [manQ (some "TNW"), manQ none] } ∧
    (opmXml { opm0 with mans := [manQ (some "TNW"), manQ none] } >>= loadOpmXml) = .ok { opm0 with mans := [manQ (some "TNW"), manQ none] } := by
  decide

/-- (fixed 099db41) a single user-defined parameter is read back from XML (OPM and OMM) -/
theorem opm_one_user_defined_ok :
    (opmXml { opm0 with ud := some [("FOO", "bar")] } >>= loadOpmXml) = .ok { opm0 with ud := some [("FOO", "bar")] } ∧
    (opmKvn { opm0 with ud := some [("FOO", "bar")] } >>= loadOpmKvn) = .ok { opm0 with ud := some [("FOO", "bar")] } ∧
    (opmXml { opm0 with ud := some [("FOO", "bar"), ("B", "c")] } >>= loadOpmXml) = .ok { opm0 with ud := some [("FOO", "bar"), ("B", "c")] } := by
  decide
/-- (fixed 099db41) an empty user-defined dict is not written: it reloads as "no user-defined fields" in both encodings -/
theorem opm_empty_user_defined_ok :
    (opmXml { opm0 with ud := some [] } >>= loadOpmXml) = .ok opm0 ∧ (opmKvn { opm0 with ud := some [] } >>= loadOpmKvn) = .ok opm0 := by decide

def omm0 : Omm :=
  { name := "SAT", id := "2020-001A", frame := "TEME", scale := "UTC", epoch := .s "t0",
    elems := [.s "15.72125391", .s "0.0006703", .s "51.6416", .s "247.4627", .s "130.5360", .s "325.0288"],
    tle := [.s "25544", .s "292", .s "56353", .s "-0.000011606", .s "-0.00002182", .s "0.0"], cov := none, ud := none, hasTle := true }

theorem omm_xml_one_user_defined_ok :
    (ommXml { omm0 with ud := some [("FOO", "bar")] } >>= loadOmmXml) = .ok { omm0 with ud := some [("FOO", "bar")], hasTle := false } := by decide

/-- (was lead 13a, fixed dce331f) what `loads` returns for an OMM has no `tle` attribute; it can be dumped
again in KVN and in XML, and reloads as itself -/
theorem omm_loaded_can_be_dumped_again :
    (ommKvn omm0 >>= loadOmmKvn) = .ok { omm0 with hasTle := false } ∧
    (ommKvn { omm0 with hasTle := false } >>= loadOmmKvn) = .ok { omm0 with hasTle := false } ∧
    (ommXml { omm0 with hasTle := false } >>= loadOmmXml) = .ok { omm0 with hasTle := false } := by
  decide

def ob (k : String) (e : String) : Obs := { kind := k, path := ["STA", "SAT", "STA"], epoch := .s e, value := .s "1234.500000" }

/-- (was lead 11c, fixed 099db41) a measurement set with one observation is read back from XML -/
theorem tdm_one_obs_ok :
    (tdmXml { scale := "UTC", obs := [ob "Range" "t0"] } >>= loadTdmXml) = .ok ("UTC", [[ob "Range" "t0"]]) ∧
    (tdmKvn { scale := "UTC", obs := [ob "Range" "t0"] } >>= loadTdmKvn) = .ok ("UTC", [[ob "Range" "t0"]]) ∧
    (tdmXml { scale := "UTC", obs := [ob "Range" "t0", ob "Range" "t1"] } >>= loadTdmXml) = .ok ("UTC", [[ob "Range" "t0", ob "Range" "t1"]]) := by
  decide

/-- (was lead 13b, fixed dfcb25d) Doppler measurements are written (`DOPPLER_INSTANTANEOUS`) and read by both readers -/
theorem tdm_doppler_ok :
    (tdmKvn { scale := "UTC", obs := [ob "Doppler" "t0", ob "Doppler" "t1"] } >>= loadTdmKvn) = .ok ("UTC", [[ob "Doppler" "t0", ob "Doppler" "t1"]]) ∧
    (tdmXml { scale := "UTC", obs := [ob "Doppler" "t0", ob "Doppler" "t1"] } >>= loadTdmXml) = .ok ("UTC", [[ob "Doppler" "t0", ob "Doppler" "t1"]]) := by
  decide

/-- (fixed dfcb25d) elevations without azimuths: `ANGLE_TYPE` is now written for them too -/
theorem tdm_elevation_without_azimuth_ok :
    (tdmKvn { scale := "UTC", obs := [ob "Elevation" "t0", ob "Elevation" "t1"] } >>= loadTdmKvn) = .ok ("UTC", [[ob "Elevation" "t0", ob "Elevation" "t1"]]) ∧
    (tdmXml { scale := "UTC", obs := [ob "Elevation" "t0", ob "Elevation" "t1"] } >>= loadTdmXml) = .ok ("UTC", [[ob "Elevation" "t0", ob "Elevation" "t1"]]) := by
  decide

def ob2 (e : String) : Obs := { kind := "Range", path := ["STB", "SAT"], epoch := .s e, value := .s "99.000000" }

/-- OPEN finding: a set with two paths is written as two segments and read as a *list* of two sets, which `dumps`
(`detect2dump`) does not accept: what was read cannot be written again -/
theorem tdm_two_paths_reload_as_list :
    (tdmKvn { scale := "UTC", obs := [ob "Range" "t0", ob "Range" "t1", ob2 "t0", ob2 "t1"] } >>= loadTdmKvn)
      = .ok ("UTC", [[ob "Range" "t0", ob "Range" "t1"], [ob2 "t0", ob2 "t1"]]) ∧
    tdmOfSets ("UTC", [[ob "Range" "t0", ob "Range" "t1"], [ob2 "t0", ob2 "t1"]]) = .error .typeError := by
  decide

end BeyondVerif.C13W
