import BeyondVerif.Model.Ccsds
/-!
Kernel-checked counter-witnesses (`decide`) for the clauses of C13 that the current code falsifies.
Each is a concrete message on which the *model* (shown by the correspondence run to behave as
beyond/io/ccsds does) fails to restore / reload / re-dump.  The same inputs are replayed on the
real `dumps`/`loads` by harness/props/C13.py (`witness_specs`), families as in known_findings.d/C13.json.
-/
namespace BeyondVerif.C13W
open BeyondVerif.Ccsds BeyondVerif.Generated

def st6 : List Txt := [.s "7000.000000", .s "100.000000", .s "-300.000000", .s "0.010000", .s "7.500000", .s "0.300000"]
def pt (e : String) : Point := { epoch := .s e, state := st6, cov := none }
def tri21 : List Txt := (List.range 21).map fun _ => .s "1.000000000000e-06"
def cov0 : CovM := { frame := none, tri := tri21 }
def seg (pts : List Point) : Seg :=
  { name := "SAT", id := "2020-001A", frame := "EME2000", scale := "UTC", method := "LAGRANGE", order := some (.s "8"), points := pts }

/-- lead 11a: an OEM with a single ephemeris point cannot be read back from XML (`TypeError`) … -/
theorem oem_xml_one_point_fails : (oemXml [seg [pt "t0"]] >>= loadOemXml) = .error .typeError := by decide
/-- … while the same message in KVN, and two points in XML, come back unchanged -/
theorem oem_kvn_one_point_ok : (oemKvn [seg [pt "t0"]] >>= loadOemKvn) = .ok [seg [pt "t0"]] := by decide
theorem oem_xml_two_points_ok : (oemXml [seg [pt "t0", pt "t1"]] >>= loadOemXml) = .ok [seg [pt "t0", pt "t1"]] := by decide

/-- lead 11b: a single covariance block in an XML OEM -/
theorem oem_xml_one_cov_fails :
    (oemXml [seg [{ pt "t0" with cov := some cov0 }, pt "t1"]] >>= loadOemXml) = .error .typeError := by decide
theorem oem_kvn_one_cov_ok :
    (oemKvn [seg [{ pt "t0" with cov := some cov0 }, pt "t1"]] >>= loadOemKvn) = .ok [seg [{ pt "t0" with cov := some cov0 }, pt "t1"]] := by
  decide

def opm0 : Opm :=
  { name := "SAT", id := "2020-001A", frame := "EME2000", scale := "UTC", epoch := .s "t0", state := st6, kep := none, cov := none,
    mans := [], ud := none }
def manQ (f : Option String) : Man := { dur := 0, epoch := .s "t1", frame := f, comment := some "burn", dv := [.s "0.001000", .s "0.002000", .s "0.003000"] }

/-- lead 12: a QSW maneuver is written `RSW` and comes back tagged `RSW` (both encodings) -/
theorem opm_qsw_man_reloads_rsw :
    (opmKvn { opm0 with mans := [manQ (some "QSW")] } >>= loadOpmKvn) = .ok { opm0 with mans := [manQ (some "RSW")] } ∧
    (opmXml { opm0 with mans := [manQ (some "QSW")] } >>= loadOpmXml) = .ok { opm0 with mans := [manQ (some "RSW")] } := by
  decide
/-- TNW maneuvers and maneuvers in the orbit's own frame are restored -/
theorem opm_tnw_man_ok :
    (opmKvn { opm0 with mans := [manQ (some "TNW"), manQ none] } >>= loadOpmKvn) = .ok { opm0 with mans := [manQ (some "TNW"), manQ none] } ∧
    (opmXml { opm0 with mans := [manQ (some "TNW"), manQ none] } >>= loadOpmXml) = .ok { opm0 with mans := [manQ (some "TNW"), manQ none] } := by
  decide

/-- a single user-defined parameter cannot be read back from XML (OPM and OMM): the lone `Field` is iterated -/
theorem opm_xml_one_user_defined_fails :
    (opmXml { opm0 with ud := some [("FOO", "bar")] } >>= loadOpmXml) = .error .attrError ∧
    (opmKvn { opm0 with ud := some [("FOO", "bar")] } >>= loadOpmKvn) = .ok { opm0 with ud := some [("FOO", "bar")] } ∧
    (opmXml { opm0 with ud := some [("FOO", "bar"), ("B", "c")] } >>= loadOpmXml) = .ok { opm0 with ud := some [("FOO", "bar"), ("B", "c")] } := by
  decide
/-- an empty user-defined dict gives an element without text: `xml2dict` itself fails -/
theorem opm_xml_empty_user_defined_fails : (opmXml { opm0 with ud := some [] } >>= loadOpmXml) = .error .attrError := by decide

def omm0 : Omm :=
  { name := "SAT", id := "2020-001A", frame := "TEME", scale := "UTC", epoch := .s "t0",
    elems := [.s "15.72125391", .s "0.0006703", .s "51.6416", .s "247.4627", .s "130.5360", .s "325.0288"],
    tle := [.s "25544", .s "292", .s "56353", .s "-0.000011606", .s "-0.00002182", .s "0.0"], cov := none, ud := none, hasTle := true }

theorem omm_xml_one_user_defined_fails : (ommXml { omm0 with ud := some [("FOO", "bar")] } >>= loadOmmXml) = .error .attrError := by decide

/-- lead 13a: what `loads` returns for an OMM has no `tle` attribute, so it cannot be dumped in KVN again
(XML works); the same holds for any Orbit not made from a `Tle` -/
theorem omm_loaded_cannot_be_dumped_kvn :
    (ommKvn omm0 >>= loadOmmKvn) = .ok { omm0 with hasTle := false } ∧
    (ommKvn { omm0 with hasTle := false }) = .error .attrError ∧
    ((ommXml { omm0 with hasTle := false }).toOption.isSome = true) := by
  decide

def ob (k : String) (e : String) : Obs := { kind := k, path := ["STA", "SAT", "STA"], epoch := .s e, value := .s "1234.500000" }

/-- lead 11c: a measurement set with one observation cannot be read back from XML -/
theorem tdm_xml_one_obs_fails :
    (tdmXml { scale := "UTC", obs := [ob "Range" "t0"] } >>= loadTdmXml) = .error .attrError ∧
    (tdmKvn { scale := "UTC", obs := [ob "Range" "t0"] } >>= loadTdmKvn) = .ok ("UTC", [[ob "Range" "t0"]]) ∧
    (tdmXml { scale := "UTC", obs := [ob "Range" "t0", ob "Range" "t1"] } >>= loadTdmXml) = .ok ("UTC", [[ob "Range" "t0", ob "Range" "t1"]]) := by
  decide

/-- lead 13b: Doppler measurements are written (`DOPPLER_INSTANTANEOUS`) but refused by both readers -/
theorem tdm_doppler_not_read :
    (tdmKvn { scale := "UTC", obs := [ob "Doppler" "t0", ob "Doppler" "t1"] } >>= loadTdmKvn) = .error .ccsdsError ∧
    (tdmXml { scale := "UTC", obs := [ob "Doppler" "t0", ob "Doppler" "t1"] } >>= loadTdmXml) = .error .ccsdsError := by
  decide

/-- elevations without azimuths: `ANGLE_TYPE` is only written when an azimuth is present, but needed to read `ANGLE_2` -/
theorem tdm_elevation_without_azimuth_fails :
    (tdmKvn { scale := "UTC", obs := [ob "Elevation" "t0", ob "Elevation" "t1"] } >>= loadTdmKvn) = .error .keyError ∧
    (tdmXml { scale := "UTC", obs := [ob "Elevation" "t0", ob "Elevation" "t1"] } >>= loadTdmXml) = .error .unboundLocal := by
  decide

def ob2 (e : String) : Obs := { kind := "Range", path := ["STB", "SAT"], epoch := .s e, value := .s "99.000000" }

/-- a set with two paths is written as two segments and read as a *list* of two sets, which `dumps` does not accept -/
theorem tdm_two_paths_reload_as_list :
    (tdmKvn { scale := "UTC", obs := [ob "Range" "t0", ob "Range" "t1", ob2 "t0", ob2 "t1"] } >>= loadTdmKvn)
      = .ok ("UTC", [[ob "Range" "t0", ob "Range" "t1"], [ob2 "t0", ob2 "t1"]]) := by
  decide

end BeyondVerif.C13W
