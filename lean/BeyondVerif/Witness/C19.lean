import BeyondVerif.Props.C19Kepler
import Mathlib.Analysis.SpecialFunctions.Complex.Arg

/-!
# C19 — kernel-checked witnesses about the direction / way selection of `_lambert`

The selection in the source (`lamDtheta_eq`) compares `cr[2]` with zero, `<` in the prograde branch and `>=` in the
retrograde one, so a branch is taken at `cr[2] = 0` (transfer plane containing the z axis of the frame: two positions
both in the x-z plane, both in the y-z plane, a hand-written polar transfer).  A selection that multiplies by
`sign(cr[2])` — `arctan2(±sign(cr[2]) |r0 × r1|, r0·r1) mod 2π`, equal to the former for every `cr[2] ≠ 0` — is NOT
equivalent: at `cr[2] = 0` it returns `0` (or `π`) for both requests, `A` is `0/0`, and no velocity exists.
-/
namespace BeyondVerif.C19W
open BeyondVerif.R BeyondVerif.NumReal BeyondVerif.C19

/-- the sign-based selection (not the code's) -/
noncomputable def dthetaSign (r0 r1 : V3) (prograde : Bool) : ℝ :=
  let crz := (V3.cross r0 r1).z
  let sgn : ℝ := if crz > 0 then 1 else if crz < 0 then -1 else 0
  let direction : ℝ := if prograde then sgn else -sgn
  fmod (atan2 (direction * V3.norm (V3.cross r0 r1)) (V3.dot r0 r1)) (2 * pi)

def rx : V3 := ⟨1, 0, 0⟩
def rz : V3 := ⟨0, 0, 1⟩

/-- x axis → z axis is a non-collinear geometry with `cr[2] = 0` -/
theorem polar_geometry : V3.dot (V3.cross rx rz) (V3.cross rx rz) ≠ 0 ∧ (V3.cross rx rz).z = 0 := by
  simp [rx, rz, V3.dot, V3.cross]

/-- **the sign-based selection fails there**: both requests get the angle 0 — outside (0, 2π), and not two ways round -/
theorem sign_selection_degenerate (pro : Bool) : dthetaSign rx rz pro = 0 := by
  have h : (V3.cross rx rz).z = 0 := polar_geometry.2
  have hd : V3.dot rx rz = 0 := by simp [rx, rz, V3.dot]
  simp only [dthetaSign, h, hd, atan2, fmod]
  cases pro <;> simp [Complex.arg_zero, show (⟨0, 0⟩ : ℂ) = 0 from rfl]

/-- **the code's selection does not**: π/2 for the prograde request, 3π/2 for the retrograde one -/
theorem code_selection_polar : lamDtheta rx rz true = Real.pi / 2 ∧ lamDtheta rx rz false = 3 * Real.pi / 2 := by
  have h : (V3.cross rx rz).z = 0 := polar_geometry.2
  have hd : V3.dot rx rz = 0 := by simp [rx, rz, V3.dot]
  constructor
  · rw [lamDtheta_eq]; simp [h, hd, Real.arccos_zero]
  · rw [lamDtheta_eq]; simp [h, hd, Real.arccos_zero]; ring

/-- hence the two selections differ on a geometry inside the property's domain -/
theorem sign_selection_not_equivalent : ∃ r0 r1 : V3, V3.dot (V3.cross r0 r1) (V3.cross r0 r1) ≠ 0 ∧
    ∀ pro, dthetaSign r0 r1 pro ≠ lamDtheta r0 r1 pro := by
  refine ⟨rx, rz, polar_geometry.1, fun pro => ?_⟩
  rw [sign_selection_degenerate]
  have hpi := Real.pi_pos
  cases pro
  · rw [code_selection_polar.2]; intro h; linarith
  · rw [code_selection_polar.1]; intro h; linarith

end BeyondVerif.C19W
