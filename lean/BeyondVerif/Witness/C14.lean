import BeyondVerif.Model.Cov
import BeyondVerif.Model.CovHeap

/-!
# C14 — kernel-checked witness for the regression guarded by the oracle

History.  Until /repo commit d229088 full path independence was FALSE of the code: the `Cov.frame`
setter re-framed its private state copy while `_orb_frame` kept naming the original frame, so
`[frame, QSW]` and `[QSW]` gave different matrices.  The theorems `local_after_reframe_differs`
and `frame_after_local_recovers` of this file were then statements about the model of the code
(`run`).  The setter has been repaired; the model of the code (`run`, Model/Cov.lean) no longer
re-frames, `BeyondVerif.C14.path_independent` is proved in full, and the former witnesses are
restated about `runOld` — the model of the setter *as it was* — so that what the oracle family
`path-dependent:local-after-reframe` would report if the defect returned stays documented and
kernel-checked.  `current_model_path_independent` (formerly `fixed_model_agrees`) is the same
experiment on the model of the current code.

The environment: the generic model instantiated with 2×2 integer matrices: two frames `false`
(the frame of the state) and `true`, related by a quarter turn; `toLocal` is the rotation that
takes the (unit, axis-aligned) state vector onto the first axis — the planar analogue of QSW, TNW
being QSW turned by a further quarter turn.  Every hypothesis of the theorems of Props/C14 holds
for this environment (`laws`, `loc_orth`, `loc_equivariant` below).
-/
namespace BeyondVerif.C14W
open BeyondVerif.Cov

structure M2 where
  a : Int
  b : Int
  c : Int
  d : Int
  deriving DecidableEq, Repr

def M2.mul (x y : M2) : M2 :=
  ⟨x.a * y.a + x.b * y.c, x.a * y.b + x.b * y.d, x.c * y.a + x.d * y.c, x.c * y.b + x.d * y.d⟩
def M2.tr (x : M2) : M2 := ⟨x.a, x.c, x.b, x.d⟩
def M2.one : M2 := ⟨1, 0, 0, 1⟩
def M2.apply (x : M2) (v : Int × Int) : Int × Int := (x.a * v.1 + x.b * v.2, x.c * v.1 + x.d * v.2)

/-- quarter turn: coordinates in frame `true` of a vector given in frame `false` -/
def rot : M2 := ⟨0, 1, -1, 0⟩

def conv (a b : Bool) : M2 := if a = b then M2.one else if b then rot else rot.tr

/-- rotation taking the unit vector `x` onto the first axis; TNW = a further quarter turn -/
def toLocal (k : Loc) (x : Int × Int) : M2 :=
  match k with
  | .qsw => ⟨x.1, x.2, -x.2, x.1⟩
  | .tnw => rot.mul ⟨x.1, x.2, -x.2, x.1⟩

def W : Env Bool M2 (Int × Int) where
  conv := conv
  toLocal := toLocal
  mul := M2.mul
  tr := M2.tr
  one := M2.one
  apply := M2.apply

/-- state along the first axis, covariance diag(2, 1), both given in frame `false` -/
def x0 : Int × Int := (1, 0)
def C0 : M2 := ⟨2, 0, 0, 1⟩
def start : St Bool M2 (Int × Int) := St.new false x0 (.frame false) C0

/-- the hypotheses of the theorems hold for this environment: identity and composition … -/
theorem laws : (∀ a, conv a a = M2.one) ∧ (∀ a b c, (conv b c).mul (conv a b) = conv a c) := by decide

/-- … `toLocal` is orthogonal on every image of the state … -/
theorem loc_orth : ∀ g, ((toLocal .qsw ((conv false g).apply x0)).tr).mul (toLocal .qsw ((conv false g).apply x0)) = M2.one ∧
    ((toLocal .tnw ((conv false g).apply x0)).tr).mul (toLocal .tnw ((conv false g).apply x0)) = M2.one := by
  decide

/-- … and equivariant: `toLocal (R x) = toLocal x · Rᵀ` -/
theorem loc_equivariant : ∀ g, toLocal .qsw ((conv false g).apply x0) = (toLocal .qsw x0).mul (conv false g).tr ∧
    toLocal .tnw ((conv false g).apply x0) = (toLocal .tnw x0).mul (conv false g).tr := by decide

/-- **The old setter (before d229088) was path dependent**: visiting the other frame first changed
the QSW (and TNW) covariance. -/
theorem old_setter_local_after_reframe_differs :
    (runOld W start [.frame true, .loc .qsw]).mat = ⟨1, 0, 0, 2⟩ ∧
    (runOld W start [.loc .qsw]).mat = ⟨2, 0, 0, 1⟩ ∧
    (runOld W start [.frame true, .loc .tnw]).mat ≠ (runOld W start [.loc .tnw]).mat ∧
    -- the bookkeeping that caused it: `_orb_frame` still named `false`, the private copy lived in `true`
    (runOld W start [.frame true]).orbFrame = false ∧ (runOld W start [.frame true]).orbCur = true ∧
    (runOld W start [.frame true]).orb = (0, -1) := by decide

/-- with the old setter the error was transient: a following frame target was right again -/
theorem old_setter_frame_after_local_recovers :
    (runOld W start [.frame true, .loc .qsw, .frame false]).mat = C0 ∧
    (runOld W start [.frame true, .loc .qsw, .frame true]).mat = (runOld W start [.frame true]).mat := by decide

/-- **The model of the current code is path independent on the same sequences**, never moves its
bookkeeping, and differs from the old setter exactly on the local-after-reframe sequence. -/
theorem current_model_path_independent :
    (run W start [.frame true, .loc .qsw]).mat = (run W start [.loc .qsw]).mat ∧
    (run W start [.frame true, .loc .tnw]).mat = (run W start [.loc .tnw]).mat ∧
    (run W start [.frame true, .loc .tnw, .frame false]).mat = C0 ∧
    (run W start [.frame true]).orbFrame = false ∧ (run W start [.frame true]).orbCur = false ∧
    (run W start [.frame true]).orb = x0 ∧
    (run W start [.loc .qsw]).mat = (runOld W start [.loc .qsw]).mat ∧
    (run W start [.frame true]).mat = (runOld W start [.frame true]).mat ∧
    (run W start [.frame true, .loc .qsw]).mat ≠ (runOld W start [.frame true, .loc .qsw]).mat := by decide

/-! ## `sv.cov = c` with the state expressed in another frame than the one the covariance was built in

History.  Until /repo commit eca9727 the clause "QSW/TNW being defined by that inertial position and velocity" was FALSE of
the code for covariances attached later (known finding C14-attach-stale-orb-frame, now fixed): `Cov.orb` held coordinates
of the frame the state was expressed in at `sv.cov = c` while `_orb_frame` still named the construction frame.  The model of
the code (`attach`) follows the repaired setter and `BeyondVerif.C14.attach_path_independent` is proved in full; the former
counter-witness is restated about `attachOld` — the model of the setter *as it was* — so that what the oracle family
`attached-later:reframed-state:local-target` would report if the defect returned stays documented and kernel-checked.
The covariance `C0` was built for the state `x0` in frame `false`; the same physical state, expressed in frame `true`
(coordinates `conv false true · x0`), gets it attached. -/

def attachedReframedOld : St Bool M2 (Int × Int) := attachOld start true ((conv false true).apply x0)
def attachedReframed : St Bool M2 (Int × Int) := attach start true ((conv false true).apply x0)

/-- **The old setter (before eca9727) gave the wrong QSW/TNW covariance after such an attachment** (`diag(1, 2)` where
the axes of the state require `diag(2, 1)`), although every regular target was right and a `Cov.copy()` of the object
converted correctly. -/
theorem old_attach_reframed_local_differs :
    (run W attachedReframedOld [.loc .qsw]).mat = ⟨1, 0, 0, 2⟩ ∧ (run W start [.loc .qsw]).mat = ⟨2, 0, 0, 1⟩ ∧
    (run W attachedReframedOld [.loc .tnw]).mat ≠ (run W start [.loc .tnw]).mat ∧
    attachedReframedOld.orbFrame = false ∧ attachedReframedOld.orbCur = true ∧ attachedReframedOld.orb = (0, -1) ∧
    (run W attachedReframedOld [.frame true]).mat = (run W start [.frame true]).mat ∧
    (run W attachedReframedOld [.loc .qsw, .frame false]).mat = C0 ∧
    (run W (copy attachedReframedOld) [.loc .qsw]).mat = (run W start [.loc .qsw]).mat := by decide

/-- **The model of the current code is right on the same inputs**, for every kind of target, and differs from the old
setter exactly on the local targets. -/
theorem current_attach_path_independent :
    (run W attachedReframed [.loc .qsw]).mat = (run W start [.loc .qsw]).mat ∧
    (run W attachedReframed [.loc .tnw]).mat = (run W start [.loc .tnw]).mat ∧
    (run W attachedReframed [.frame true]).mat = (run W start [.frame true]).mat ∧
    (run W attachedReframed [.loc .qsw, .frame false]).mat = C0 ∧
    attachedReframed.orbFrame = true ∧ attachedReframed.orbCur = true ∧
    (copy attachedReframed).orbFrame = attachedReframed.orbFrame ∧ (run W (copy attachedReframed) [.loc .tnw]).mat = (run W start [.loc .tnw]).mat ∧
    (run W attachedReframed [.loc .qsw]).mat ≠ (run W attachedReframedOld [.loc .qsw]).mat ∧
    (run W attachedReframed [.frame true]).mat = (run W attachedReframedOld [.frame true]).mat := by decide

/-- attached in the frame it was built in, nothing changes -/
theorem attached_home_same : attach start false x0 = start := rfl

/-! ## Several objects: the two regressions guarded by the heap correspondence and the oracle
families `multi-object` / `derived-alias`

The model of the code (Model/CovHeap.lean: `Heap.hop`, `Heap.derive`) has no memo and gives every
array made by numpy a `_data` dict of its own.  The two variants below are NOT the code; they are the
two changes a maintainer could make at these sites, and the kernel-checked statements show what
each one does to an object other than the one operated on. -/
section heap
open BeyondVerif.CovHeap

def HW : HEnv Bool Unit M2 (Int × Int) := { base := W, convAt := fun _ => conv }

/-- two states with the same date and frame, along the first and the second axis -/
def heap0 : Heap Bool Unit M2 (Int × Int) :=
  { buf := fun _ => M2.one, data := fun _ => { tag := .loc .qsw, orb := 0 },
    orb := fun _ => { date := (), frame := false, x := (0, 0) },
    obj := fun _ => { buf := 0, tr := false, data := 0, orbFrame := none },
    sv := fun k => { date := (), frame := false, x := if k = 0 then (1, 0) else (0, 1), cov := none },
    nbuf := 0, ndata := 0, norb := 0, nobj := 0 }

/-- `Cov(sv0, C0, sv0.frame)` and `Cov(sv1, C0, sv1.frame)` -/
def twoCovs : Heap Bool Unit M2 (Int × Int) := (heap0.newCov 0 (.frame false) C0).newCov 1 (.frame false) C0

/-- **A memo of the hop matrix keyed by (date, `_orb_frame`, current tag, target) gives the second
state the local axes of the first**: the second covariance comes out as `diag(2, 1)` (the axes of
state 0) where the code — no memo — gives `diag(1, 2)`; the first one is the same in both. -/
theorem memo_keyed_without_state_confuses_states :
    let m := ((⟨twoCovs, []⟩ : MemoHeap Bool Unit M2 (Int × Int)).hop HW 0 (.loc .qsw)).hop HW 1 (.loc .qsw)
    let h := twoCovs.hops HW [(0, .loc .qsw), (1, .loc .qsw)]
    (m.heap.view HW 1).mat = ⟨2, 0, 0, 1⟩ ∧ (h.view HW 1).mat = ⟨1, 0, 0, 2⟩ ∧
    (m.heap.view HW 0).mat = (h.view HW 0).mat ∧ (m.heap.view HW 1).tag = (h.view HW 1).tag := by decide

/-- **`__array_finalize__` handing the template's own `_data` dict to the derived array relabels the
source**: `c` in QSW, `e = k * c`, `e.frame = "TNW"`; with the shared dict `c` then claims TNW with
its QSW values untouched; with the code as it is `c` is exactly what it was. -/
theorem shared_dict_relabels_source :
    let c := heap0.newCov 0 (.loc .qsw) C0
    let shared := (c.deriveShared 0 ⟨18, 0, 0, 9⟩).hop HW 1 (.loc .tnw)
    let own := (c.derive 0 ⟨18, 0, 0, 9⟩).hop HW 1 (.loc .tnw)
    (shared.view HW 0).tag = .loc .tnw ∧ (shared.view HW 0).mat = C0 ∧
    (own.view HW 0).tag = .loc .qsw ∧ (own.view HW 0).mat = C0 ∧
    (own.view HW 1).tag = .loc .tnw ∧ (own.view HW 1).mat = ⟨9, 0, 0, 18⟩ ∧
    -- and the next conversion of the relabelled source is wrong: back to its state's frame
    ((shared.hop HW 0 (.frame false)).view HW 0).mat ≠ ((own.hop HW 0 (.frame false)).view HW 0).mat := by decide

end heap

end BeyondVerif.C14W
