import BeyondVerif.Lemmas.Jpl
/-!
Counter-witness for C18 on kernels in which a body is the target of segments from two centres (the hypothesis
`UniqueCenter` of `C18.spk_chain` cannot be dropped): with the segments 5 → 601 and 399 → 601 (a tree), the model
of the current code — which the correspondence run shows to be what `beyond` computes — returns, as the position of
601 relative to 399, the position of 601 relative to 5.  Replayed on the implementation by
harness/props/C18.py (`oracle_synthetic`, family `spk-synthetic-two-centres`); proposed repair in
proposed_fixes/C18-two-centres.diff.
-/
namespace BeyondVerif.C18W
open BeyondVerif.Node BeyondVerif.R.Jpl BeyondVerif.NumReal BeyondVerif.JplLemmas

def twoCentres : Pairs := [(5, 601), (399, 601)]

/-- raw segment values: 601 is at (1,0,0,0,0,0) km from 5 and at (0,0,0,0,0,0) from 399 -/
noncomputable def seg2 : Nat → Nat → V6 := fun c _ => if c = 5 then (fun i => if i.val = 0 then 1 else 0) else 0

/-- consistent positions: 5 at the origin, 601 = 399 at (1,0,0) km -/
noncomputable def pos2 : Nat → V6 := fun b => if b = 5 then 0 else (fun i => if i.val = 0 then 1 else 0)

theorem two_centres_consistent : Consistent twoCentres seg2 pos2 := by
  intro c t h
  simp only [twoCentres, List.mem_cons, Prod.mk.injEq, List.not_mem_nil, or_false] at h
  rcases h with ⟨rfl, rfl⟩ | ⟨rfl, rfl⟩ <;> simp [seg2, pos2]

/-- the chained vector of 601 relative to 399 is zero, the code's answer is 1 km along x -/
theorem two_centres_wrong :
    ∃ v, offsetIn 8 twoCentres seg2 601 399 = .ok v ∧ v ≠ si (pos2 601 - pos2 399) ∧ v ⟨0, by omega⟩ = 1000 := by
  obtain ⟨g, hb, hp⟩ : ∃ g, build 8 (linkHist twoCentres) = some g ∧ path 8 g 601 399 = .ok [601, 399] :=
    ⟨_, rfl, by decide⟩
  have hc : centerTo 8 twoCentres seg2 601 399 = sumSteps twoCentres seg2 vzero [601, 399] := by
    unfold centerTo; rw [hb]; simp only; rw [hp]
  have hs : sumSteps twoCentres seg2 vzero [601, 399] = .ok (vadd vzero (toSI 1 (seg2 5 601))) := by
    simp [sumSteps, stepOffset, provide, propCenter, propagate, twoCentres]
  refine ⟨vadd vzero (toSI 1 (seg2 5 601)), ?_, ?_, ?_⟩
  · unfold offsetIn reframe
    have h1 : hasFrame twoCentres 601 = true := by decide
    have h2 : hasFrame twoCentres 399 = true := by decide
    rw [h1, h2, hc, hs]
    simp [vadd_eq, vzero_eq]
  · intro h
    have := congrFun h ⟨0, by omega⟩
    simp [vadd, vzero, toSI, seg2, si, pos2] at this
  · simp [vadd, vzero, toSI, seg2]

end BeyondVerif.C18W
