import BeyondVerif.Lemmas.Jpl
/-!
Counter-witness for C18 on kernels in which a body is the target of segments from two centres (the hypothesis
`UniqueCenter` of `C18.spk_chain` cannot be dropped): with the segments 5 → 601 and 399 → 601 (a tree), the model
of the current code — which the correspondence run shows to be what `beyond` computes — returns, as the position of
601 relative to 399, the position of 601 relative to 5.  Replayed on the implementation by
harness/props/C18.py (`oracle_synthetic`, family `spk-synthetic-two-centres`); proposed repair in
proposed_fixes/C18-two-centres.diff.
-/
namespace BeyondVerif.C18W
open BeyondVerif.Node BeyondVerif.R.Jpl BeyondVerif.NumReal BeyondVerif.JplLemmas

def twoCentres : Pairs := [(5, 601), (399, 601)]

/-- raw segment values: 601 is at (1,0,0,0,0,0) km from 5 and at (0,0,0,0,0,0) from 399 -/
noncomputable def seg2 : Nat → Nat → V6 := fun c _ => if c = 5 then (fun i => if i.val = 0 then 1 else 0) else 0

/-- consistent positions: 5 at the origin, 601 = 399 at (1,0,0) km -/
noncomputable def pos2 : Nat → V6 := fun b => if b = 5 then 0 else (fun i => if i.val = 0 then 1 else 0)

theorem two_centres_consistent : Consistent twoCentres seg2 pos2 := by
  intro c t h
  simp only [twoCentres, List.mem_cons, Prod.mk.injEq, List.not_mem_nil, or_false] at h
  rcases h with ⟨rfl, rfl⟩ | ⟨rfl, rfl⟩ <;> simp [seg2, pos2]

/-- the chained vector of 601 relative to 399 is zero, the code's answer is 1 km along x -/
theorem two_centres_wrong :
    ∃ v, offsetIn 8 twoCentres seg2 601 399 = .ok v ∧ v ≠ si (pos2 601 - pos2 399) ∧ v ⟨0, by omega⟩ = 1000 := by
  obtain ⟨g, hb, hp⟩ : ∃ g, build 8 (linkHist twoCentres) = some g ∧ path 8 g 601 399 = .ok [601, 399] :=
    ⟨_, rfl, by decide⟩
  have hc : centerTo 8 twoCentres seg2 601 399 = sumSteps twoCentres seg2 vzero [601, 399] := by
    unfold centerTo; rw [hb]; simp only; rw [hp]
  have hs : sumSteps twoCentres seg2 vzero [601, 399] = .ok (vadd vzero (toSI 1 (seg2 5 601))) := by
    simp [sumSteps, stepOffset, provide, propCenter, propagate, twoCentres]
  refine ⟨vadd vzero (toSI 1 (seg2 5 601)), ?_, ?_, ?_⟩
  · unfold offsetIn reframe
    have h1 : hasFrame twoCentres 601 = true := by decide
    have h2 : hasFrame twoCentres 399 = true := by decide
    rw [h1, h2, hc, hs]
    simp [vadd_eq, vzero_eq]
  · intro h
    have := congrFun h ⟨0, by omega⟩
    simp [vadd, vzero, toSI, seg2, si, pos2] at this
  · simp [vadd, vzero, toSI, seg2]

/-! ## A frame made from a re-framed orbit (finding C18-asframe-reframed, fixed by commit 261fb0a): regression witness

`orb = jpl.get_orbit(3)` (body 3 relative to 0), `orb.frame = <frame of 10>` in place (or `orb.copy(frame=…)`), then
`orb.as_frame(7)`: `orbit2frame` hangs the new centre below the centre of the orbit's CURRENT frame (10); its offset is
`orb.propagate(date)`, which the propagator returns relative to ITS frame (0).  Before 261fb0a that vector was used as
it is and the new frame was displaced by the vector between the two centres (this file then held the counter-witness
`asframe_reframed_wrong`: 1 km instead of 0).  Now the centre remembers the frame of the link (`offset_frame`) and the
propagated state is expressed in it: the model of the current code returns the chained vector.  Replayed on the
implementation by harness/props/C18.py (`oracle_histories`, family `spk-asframe-reframed-orbit`). -/

def kern3 : Pairs := [(0, 3), (0, 10)]

/-- both bodies sit 1 km along x from body 0 -/
noncomputable def seg3 (_ _ : Nat) : V6 := fun i => if i.val = 0 then 1 else 0

noncomputable def pos3 : Nat → V6 := fun b => if b = 0 then 0 else (fun i => if i.val = 0 then 1 else 0)

def attReframed : List Att := [⟨7, 10, 3, 0⟩]

theorem asframe_reframed_consistent : Consistent kern3 seg3 pos3 := by
  intro c t h
  simp only [kern3, List.mem_cons, Prod.mk.injEq, List.not_mem_nil, or_false] at h
  rcases h with ⟨rfl, rfl⟩ | ⟨rfl, rfl⟩ <;> (funext i; simp [seg3, pos3])

/-- the new frame is centred on body 3, which coincides with body 10: the code answers, and its answer is the chained
vector (zero) — through the nested conversion 0 → 10 of the propagated state -/
theorem asframe_reframed_fixed :
    ∃ v, reframeA 8 kern3 attReframed seg3 7 10 vzero = .ok v ∧ v = si (pos3 3 - pos3 10) ∧ v ⟨0, by omega⟩ = 0 := by
  obtain ⟨g, hb, hp, hq⟩ : ∃ g, build 8 (linkHistA kern3 attReframed) = some g ∧ path 8 g 7 10 = .ok [7, 10] ∧
      path 8 g 0 10 = .ok [0, 10] := ⟨_, rfl, by decide, by decide⟩
  have hinner : centerWith 8 kern3 attReframed (stepOffsetD 8 kern3 attReframed seg3 1) 0 10
      = .ok (vadd vzero (vneg (toSI 1 (seg3 0 10)))) := by
    unfold centerWith; rw [hb]; simp only; rw [hq]
    simp [sumWith, stepOffsetD, attFind, attReframed, provide, propCenter, propagate, kern3, negRes]
  have hstep : stepOffsetA 8 kern3 attReframed seg3 7 10
      = .ok (vadd (toSI 1 (seg3 0 3)) (vadd vzero (vneg (toSI 1 (seg3 0 10))))) := by
    have h0 : attFind attReframed 7 10 = some ⟨7, 10, 3, 0⟩ := by simp [attFind, attReframed]
    have h1 : kern3.contains (10, 7) = false := by decide
    have h2 : propagate kern3 seg3 3 0 = .ok (toSI 1 (seg3 0 3)) := by simp [propagate, kern3]
    show stepOffsetD 8 kern3 attReframed seg3 (attReframed.length + 1) 7 10 = _
    have hlen : attReframed.length + 1 = 1 + 1 := rfl
    rw [hlen, stepOffsetD, h1, h0]
    simp only [Bool.false_eq_true, if_false, attOffset, h2, hinner]
    simp
  have hc : centerToA 8 kern3 attReframed seg3 7 10
      = .ok (vadd vzero (vadd (toSI 1 (seg3 0 3)) (vadd vzero (vneg (toSI 1 (seg3 0 10)))))) := by
    unfold centerToA centerWith; rw [hb]; simp only; rw [hp]
    simp [sumWith, hstep]
  have hval : ∀ i : Fin 6,
      vadd vzero (vadd vzero (vadd (toSI 1 (seg3 0 3)) (vadd vzero (vneg (toSI 1 (seg3 0 10)))))) i = 0 := by
    intro i; simp [vadd, vzero, vneg, toSI, seg3]
  refine ⟨vadd vzero (vadd vzero (vadd (toSI 1 (seg3 0 3)) (vadd vzero (vneg (toSI 1 (seg3 0 10)))))), ?_, ?_, hval _⟩
  · unfold reframeA
    have h1 : hasFrameA kern3 attReframed 7 = true := by decide
    have h2 : hasFrameA kern3 attReframed 10 = true := by decide
    rw [h1, h2, hc]
    simp
  · funext i
    rw [hval i]
    simp [si, pos3]

end BeyondVerif.C18W
