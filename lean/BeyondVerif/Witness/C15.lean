import BeyondVerif.Lemmas.Heap
/-!
Kernel-checked counter-witnesses for the clauses of C15 that the current code falsifies. The model is the
one the correspondence run shows to agree with /repo; every witness is replayed on the real API by the
oracle of harness/props/C15.py (families in known_findings.d/C15.json).
-/
namespace BeyondVerif.C15W
open BeyondVerif.Heap

/-- a state vector (cell 6) with one maneuver (cell 1, in the list 2) and a nested metadata container
(dict 4 holding the list 3) -/
def h0 : Heap :=
  [ .buf (.init 0), .man 0, .list [.addr 1], .list [.tok 1], .dict [("k", .addr 3)],
    .dict [("maneuvers", .addr 2), ("nested", .addr 4), ("date", .tok 100), ("form", .form "cartesian"),
           ("frame", .frame (.reg "EME2000"))],
    .sv false false 0 5 ]

/-- `copy()` is one level deep (finding C15-copy-shallow): the copy (cell 11) gets a new maneuver list (7) and a
new `nested` dict (8), but the list still holds the receiver's maneuver *object* 1 and the dict still holds
the receiver's inner list 3 — changing either through one object shows in the other -/
theorem copy_shares_maneuver_objects_and_nested_containers :
    copySV h0 6 = (h0 ++ [ .list [.addr 1], .dict [("k", .addr 3)], .buf (.init 0),
                           .dict [("maneuvers", .addr 7), ("nested", .addr 8), ("date", .tok 100), ("form", .form "cartesian"),
                                  ("frame", .frame (.reg "EME2000"))],
                           .sv false false 9 10 ], .ok 11) := by
  decide +kernel

/-- state vector (cell 2) in EME2000 without metadata -/
def h1 : Heap :=
  [ .buf (.init 0), .dict [("date", .tok 100), ("form", .form "cartesian"), ("frame", .frame (.reg "EME2000"))], .sv false false 0 1 ]

/-- frame of the state vector at `a` and frame of the covariance its `_data` refers to -/
def frames (h : Heap) (a : Nat) : Option (Fr × Fr) :=
  match getSV h a with
  | some s =>
    match lookup "cov" s.items with
    | some (.addr c) =>
      match h[c]? with
      | some (.cov _ _ fr _ _) => some (s.frame, fr)
      | _ => none
    | _ => none
  | none => none

/-- `sv.cov = Cov(…)`, `o = sv.as_orbit(p)`, `o.frame = "ITRF"`, then look at `sv` -/
def asOrbitThenFrame : Option (Fr × Fr) :=
  match setCov h1 2 1000 with
  | (h, .ok ()) =>
    let (h, p) := alloc h (.prop 0)
    match asOrbit h 2 p with
    | (h, .ok n) =>
      match setFrame h n "ITRF" with
      | (h, .ok ()) => frames h 2
      | _ => none
    | _ => none
  | _ => none

/-- `as_orbit` shares the covariance object (finding C15-as_orbit-shares): changing the frame of the new Orbit
converts the covariance of the *receiver*, which stays in EME2000 with a covariance now labelled ITRF -/
theorem as_orbit_shares_cov : asOrbitThenFrame = some (.reg "EME2000", .reg "ITRF") := by
  decide +kernel

/-- in cylindrical form the element names `theta`, `theta_dot` (slots 1 and 4) cannot be used: `Form.alt`
rewrites them to `θ`, `θ_dot`, which are names of the spherical form only (finding C15-cylindrical-theta) -/
theorem cylindrical_theta_refused :
    (namesOf "cylindrical")[1]? = some "theta" ∧ access "cylindrical" "theta" = .foreign ∧
    (namesOf "cylindrical")[4]? = some "theta_dot" ∧ access "cylindrical" "theta_dot" = .foreign ∧
    access "cylindrical" "θ" = .foreign := by
  decide +kernel

/-- what the operations of an unpickled object return -/
def afterPickle : Option (Except Err Nat × Except Err Unit × Except Err Unit × Except Err Nat × Option Cell) :=
  match setCov h1 2 1000 with
  | (h, .ok ()) =>
    match pickle h 2 with
    | (h, .ok n) =>
      match getSV h n with
      | some s =>
        some ((copySV h n).2, (setForm h n "keplerian").2, (setFrame h n "ITRF").2,
              (let (h, p) := alloc h (.prop 0); (asOrbit h n p).2),
              (match lookup "cov" s.items with | some (.addr c) => h[c]? | _ => none))
      | none => none
    | _ => none
  | _ => none

/-- a pickle round trip does not give back a working object (findings C15-pickle-base-none, C15-pickle-cov):
the array owns its memory, so `self.base` is `None` and `copy`, `as_orbit`, the form and frame setters raise;
the covariance comes back without its `_data` (frame, parent state) -/
theorem pickle_gives_unusable_object :
    afterPickle = some (.error .attr, .error .attr, .error .attr, .error .typeErr, some (.cov false (.init 1000) (.reg "EME2000") 0 (.reg "EME2000"))) := by
  decide +kernel

/-- the same without a covariance: `copy()` raises TypeError -/
theorem pickle_then_copy_raises :
    (match pickle h1 2 with | (h, .ok n) => (copySV h n).2 | _ => .ok 0) = .error .typeErr := by
  decide +kernel

end BeyondVerif.C15W
