import BeyondVerif.Lemmas.Heap
/-!
Kernel-checked witnesses for C15 on the heap model (the model is the one the correspondence run shows to agree
with /repo).

History. Until /repo commits 0cea58e, 27f7ad7 and 2927581 this file held four counter-witnesses that are no
longer true of the code and have been restated as their positive counterparts below (the defects are kept
alive as oracle families in harness/props/C15.py, so their return is reported as a VIOLATION):
  * `copy_shares_maneuver_objects_and_nested_containers` — the nested-container half is fixed (`copy()` deep-copies
    free metadata); the maneuver-object half is still true and stays an open finding;
  * `as_orbit_shares_cov` — `as_orbit` handed the receiver's covariance to the new Orbit; now separate;
  * `cylindrical_theta_refused` — now `access "cylindrical" "theta" = .slot 1` (Props/C15.lean, `access_name_index`);
  * `pickle_gives_unusable_object`, `pickle_then_copy_raises` — the unpickled object now works and keeps its covariance.
-/
namespace BeyondVerif.C15W
open BeyondVerif.Heap

/-- a state vector (cell 6) with one maneuver (cell 1, in the list 2) and a nested metadata container
(dict 4 holding the list 3) -/
def h0 : Heap :=
  [ .buf (.init 0), .man 0, .list [.addr 1], .list [.tok 1], .dict [("k", .addr 3)],
    .dict [("maneuvers", .addr 2), ("nested", .addr 4), ("date", .tok 100), ("form", .form "cartesian"),
           ("frame", .frame (.reg "EME2000" 0))],
    .sv false 0 5 ]

/-- OPEN finding C15-copy-shares-maneuver-objects (kept on purpose by the library): the copy (cell 12) gets a new
maneuver list (7) that still holds the receiver's maneuver *object* 1. The `nested` dict is now copied in depth:
new dict 8 holding a new inner list 9 — nothing of it is shared any more. -/
theorem copy_shares_maneuver_objects :
    copySV h0 6 = (h0 ++ [ .list [.addr 1], .dict [("k", .addr 9)], .list [.tok 1], .buf (.init 0),
                           .dict [("maneuvers", .addr 7), ("nested", .addr 8), ("date", .tok 100), ("form", .form "cartesian"),
                                  ("frame", .frame (.reg "EME2000" 0))],
                           .sv false 10 11 ], .ok 12) := by
  decide +kernel

/-- state vector (cell 2) in EME2000 without metadata -/
def h1 : Heap :=
  [ .buf (.init 0), .dict [("date", .tok 100), ("form", .form "cartesian"), ("frame", .frame (.reg "EME2000" 0))], .sv false 0 1 ]

/-- frame of the state vector at `a` and frame of the covariance its `_data` refers to -/
def frames (h : Heap) (a : Nat) : Option (Fr × Fr) :=
  match getSV h a with
  | some s =>
    match lookup "cov" s.items with
    | some (.addr c) =>
      match h[c]? with
      | some (.cov _ fr _ _) => some (s.frame, fr)
      | _ => none
    | _ => none
  | none => none

/-- `sv.cov = Cov(…)`, `o = sv.as_orbit(p)`, `o.frame = "ITRF"`, then the frames of `sv` and of `o` -/
def asOrbitThenFrame : Option ((Fr × Fr) × (Fr × Fr)) :=
  match setCov h1 2 1000 with
  | (h, .ok ()) =>
    let (h, p) := alloc h (.prop 0)
    match asOrbit h 2 p with
    | (h, .ok n) =>
      match setFrame h n "ITRF" with
      | (h, .ok ()) =>
        match frames h 2, frames h n with
        | some x, some y => some (x, y)
        | _, _ => none
      | _ => none
    | _ => none
  | _ => none

/-- fixed (27f7ad7): changing the frame of the Orbit `as_orbit` returned converts *its* covariance; the receiver
keeps state and covariance in EME2000 (before the fix: receiver in EME2000 with a covariance labelled ITRF) -/
theorem as_orbit_cov_separate :
    asOrbitThenFrame = some ((.reg "EME2000" 0, .reg "EME2000" 0), (.reg "ITRF" 0, .reg "ITRF" 0)) := by
  decide +kernel

/-- what the operations of an unpickled object return, and the covariance it carries -/
def afterPickle : Option ((Bool × Bool × Bool × Bool) × Option Cell × Option Cell) :=
  match setCov h1 2 1000 with
  | (h, .ok ()) =>
    match pickle h 2 with
    | (h, .ok n) =>
      match getSV h n with
      | some s =>
        let isOk {α : Type} (r : Except Err α) : Bool := match r with | .ok _ => true | .error _ => false
        some ((isOk (copySV h n).2, isOk (setForm h n "keplerian").2, isOk (setFrame h n "ITRF").2,
              (let (h, p) := alloc h (.prop 0); isOk (asOrbit h n p).2)),
              (match lookup "cov" s.items with | some (.addr c) => h[c]? | _ => none),
              (match lookup "cov" s.items with
               | some (.addr c) => (match h[c]? with | some (.cov b _ _ _) => h[b]? | _ => none)
               | _ => none))
      | none => none
    | _ => none
  | _ => none

/-- fixed (27f7ad7, 2927581): the unpickled object can be copied, converted and turned into an Orbit, and its
covariance keeps frame and parent state (the Frame objects are clones — pickle copies them by value — here
with identity 11; the private state is cell 14, the covariance's own 6x6 buffer the new cell 13) -/
theorem pickle_gives_working_object :
    afterPickle = some ((true, true, true, true), some (.cov 13 (.reg "EME2000" 11) 14 (.reg "EME2000" 11)), some (.buf (.init 1000))) := by
  decide +kernel

/-- everything reachable from the cells in `seen`, by `fuel` rounds of following the stored addresses -/
def closure (h : Heap) : Nat → List Nat → List Nat
  | 0, seen => seen
  | fuel + 1, seen =>
    closure h fuel ((seen ++ seen.flatMap (fun a => match h[a]? with | some c => refsOf c | none => [])).eraseDups)

/-- `h0` with a covariance attached (its private state carries a copy of the maneuver list, holding the same maneuver object 1),
then `copy.deepcopy` -/
def deepcopyOfH0 : Option (Nat × Nat × Heap) :=
  match setCov h0 6 1000 with
  | (h, .ok ()) =>
    match stdDeepcopy h 6 with
    | (h', .ok n) => some (h.length, n, h')
    | _ => none
  | _ => none

/-- REGRESSION witness (was the counter-witness `deepcopy_shares_data` of open finding C15-deepcopy-shares-data, fixed in /repo
fd4f2bf): nothing reachable from the result of `copy.deepcopy` — buffer, dict, nested containers, covariance, its buffer and
private state, both maneuver lists AND the maneuver objects in them — existed before; the receiver is untouched; and the result
does hold a maneuver object (the duplicate) -/
theorem deepcopy_shares_nothing :
    (match deepcopyOfH0 with
     | some (old, n, h') =>
       (closure h' 8 [n]).all (fun x => old ≤ x) && (h'.take old == (setCov h0 6 1000).1) &&
       (closure h' 8 [n]).any (fun x => match h'[x]? with | some (.man _) => true | _ => false) &&
       (closure h' 8 [6]).all (fun x => x < old)
     | none => false) = true := by
  decide +kernel

/-- a state vector (cell 2) in TOD whose covariance (cell 6, buffer 7) follows it (also labelled TOD) but was attached while
the state was in EME2000: its private state (cell 5) and `_orb_frame` are still EME2000 — what `sv.frame = "TOD"` leaves
behind on a state built in EME2000 -/
def h3 : Heap :=
  [ .buf (.init 0), .dict [("date", .tok 100), ("form", .form "cartesian"), ("frame", .frame (.reg "TOD" 0)), ("cov", .addr 6)], .sv false 0 1,
    .buf (.init 0), .dict [("date", .tok 100), ("form", .form "cartesian"), ("frame", .frame (.reg "EME2000" 0)), ("cov", .none)], .sv false 3 4,
    .cov 7 (.reg "TOD" 0) 5 (.reg "EME2000" 0), .buf (.init 1000) ]

/-- an environment in which the rotation TOD → MOD works and TOD → EME2000 raises (observed under `eop.missing_policy =
error`: the first reads the nutation values cached on the Date, the second needs the time-scale offsets) -/
def envTodEme : Env := fun x y => if x = "TOD" ∧ y = "EME2000" then some .eop else none

/-- REGRESSION witness (was the counter-witness of open finding C15-frame-change-not-atomic-with-cov, fixed in /repo 45ca5d0; then
the result was: frame label MOD over transformed values, covariance still TOD): `sv.frame = "MOD"` raises — the covariance that
has to follow cannot be rotated — and the `except` clause has put the state vector back: the heap is the one before the call -/
theorem frame_change_fails_after_state_moved :
    setFrame h3 2 "MOD" envTodEme = (h3, .error .eop) := by
  decide +kernel

/-- … while in an environment where nothing fails the same assignment moves both the state and its covariance -/
theorem frame_change_moves_state_and_covariance :
    (match setFrame h3 2 "MOD" with
     | (h, .ok ()) => frames h 2
     | _ => none) = some (.reg "MOD" 0, .reg "MOD" 0) := by
  decide +kernel

/-- the `infos` entry of the `_data` dict of the state vector at `a` -/
def infosEntry (h : Heap) (a : Nat) : Option Ref :=
  match getSV h a with
  | some s => lookup "infos" s.items
  | none => none

/-- `sv.infos` (read), `c = sv.copy()`: what the two `_data` dicts hold under `infos`, and whom the helper `c.infos` hands out is bound to,
under either cache test -/
def infosAfterCopy (t : InfosTest) : Option (Option Ref × Option Ref × Option Nat) :=
  match getInfos t h1 2 with
  | (h, some _) =>
    match copySV h 2 with
    | (h, .ok n) => some (infosEntry h 2, infosEntry h n, (getInfos t h n).2)
    | _ => none
  | _ => none

/-- `sv.infos` (read), then each converting method: what the NEW object's `_data` holds under `infos` -/
def infosAfter : List (Option Ref) :=
  match getInfos .never h1 2 with
  | (h, some _) =>
    let entry (r : Res Nat) : Option Ref := match r with | (h', .ok n) => infosEntry h' n | _ => some .none
    [ entry (copySV h 2), entry (copyForm h 2 "keplerian"), entry (copyFrame h 2 "ITRF"),
      entry (let (h, p) := alloc h (.prop 0); asOrbit h 2 p), entry (transformObj h 2 (.reg "ITRF" 0)), entry (stdDeepcopy h 2) ]
  | _ => []

/-- REGRESSION witness (was the counter-witness of open finding C15-copy-hands-over-infos-helper, fixed in /repo a12f060; then the copy
held `.infos 2 3`, the helper of the receiver): after a read of `infos` on the receiver (which keeps its helper), the object returned by
copy(), copy(form=), copy(frame=), as_orbit, Frame.transform and copy.deepcopy has no `infos` entry; its getter answers with its own -/
theorem copy_hands_over_infos_entry :
    infosAfterCopy .never = some (some (.infos 2 3), none, some 6) ∧ infosAfter = [none, none, none, none, none, none] := by
  decide +kernel

/-- … and even the getter test `"infos" not in self._data` now finds nothing to hand out in a fresh copy (it remains excluded by
`infosTest_never`: the copy would then keep a helper whose cached quantities go stale) -/
theorem cached_infos_test_would_answer_with_the_original :
    infosAfterCopy .inData = some (some (.infos 2 3), none, some 6) := by
  decide +kernel

/-! ### positive witnesses for the constructor / getter / failing-setter sites (each is a defect a maintainer could
introduce there; the correspondence run compares exactly these situations with /repo) -/

/-- value of the covariance buffer of the state vector at `a` -/
def covOf (h : Heap) (a : Nat) : Option (Val × Fr) :=
  match getSV h a with
  | some s =>
    match lookup "cov" s.items with
    | some (.addr c) =>
      match h[c]? with
      | some (.cov b fr _ _) => (match h[b]? with | some (.buf v) => some (v, fr) | _ => none)
      | _ => none
    | _ => none
  | none => none

/-- `a.cov = Cov(a, …)`, `b = a.copy()`, `b.cov = Cov(b, a.cov, None)`, `b.cov.frame = "TNW"`: the covariance built from the
one of `a` has its own buffer — converting it leaves `a.cov` (values and frame label) as it was -/
def covFromThenConvert : Option ((Option (Val × Fr)) × (Option (Val × Fr))) :=
  match setCov h1 2 1000 with
  | (h, .ok ()) =>
    match copySV h 2 with
    | (h, .ok n) =>
      match covFrom h n 2 with
      | (h, .ok ()) =>
        match covFrame h n "TNW" with
        | (h, .ok ()) => some (covOf h 2, covOf h n)
        | _ => none
      | _ => none
    | _ => none
  | _ => none

theorem cov_from_cov_has_own_buffer :
    covFromThenConvert = some (some (.init 1000, .reg "EME2000" 0),
      some (.covx (.reg "EME2000" 0) .tnw (.reg "EME2000" 0) (.reg "EME2000" 0) (.init 0) (.init 1000), .tnw)) := by
  decide +kernel

/-- the maneuver lists of the state vector at `a` -/
def mansOf (h : Heap) (a : Nat) : Option (List Ref) :=
  match getSV h a with
  | some s =>
    match lookup "maneuvers" s.items with
    | some (.addr l) => (match h[l]? with | some (.list ms) => some ms | _ => none)
    | _ => none
  | none => none

/-- `bool(sv.maneuvers)` (the getter creates the empty list), `c = sv.copy()`, `c.maneuvers.append(m)`: the empty list is
copied like any other — the maneuver appended to the copy does not appear in the original -/
def lazyManeuversThenCopy : Option (Option (List Ref) × Option (List Ref)) :=
  match readMan h1 2 with
  | (h, .ok ()) =>
    match copySV h 2 with
    | (h, .ok n) =>
      match addMan h n 7 with
      | (h, .ok ()) => some (mansOf h 2, mansOf h n)
      | _ => none
    | _ => none
  | _ => none

theorem lazily_created_maneuver_list_not_shared : lazyManeuversThenCopy = some (some [], some [.addr 8]) := by
  decide +kernel

/-- a keplerian state whose frame assignment fails inside the transformation (here: the environment raises, e.g. no
Earth-orientation data under the 'error' policy): label `keplerian` kept, values converted back from cartesian -/
def h2 : Heap :=
  [ .buf (.init 0), .dict [("date", .tok 100), ("form", .form "keplerian"), ("frame", .frame (.reg "EME2000" 0))], .sv false 0 1 ]

theorem failed_frame_change_from_keplerian :
    setFrame h2 2 "ITRF" (fun _ _ => some .eop) =
      ([ .buf (.conv "cartesian" "keplerian" (.conv "keplerian" "cartesian" (.init 0))),
         .dict [("date", .tok 100), ("form", .form "keplerian"), ("frame", .frame (.reg "EME2000" 0))], .sv false 0 1 ], .error .eop) := by
  decide +kernel

end BeyondVerif.C15W
