import BeyondVerif.Props.C16Seq
import BeyondVerif.Props.C16Frames

/-!
# C16 — kernel-checked counter-witnesses

`cwPropagate` (the sequencing of the current `ClohessyWiltshire.propagate`, tied to cw.py by the correspondence run) is NOT
the solution of Hill's equations `hillSol` outside the hypotheses of `propagate_eq_hillSol_partial` (`NoCut`) and
`propagate_backward_eq_hillSol_partial` (`Clear`).  Mean motion `n = π` so that the trigonometric entries are exact.
Open findings C16-return-inside-burn-drops-later-maneuvers and C16-backward-ignores-past-maneuvers.
-/
namespace BeyondVerif.C16W
open BeyondVerif.R BeyondVerif.NumReal BeyondVerif.C16

private theorem cos_pi_two : Real.cos (Real.pi * 2) = 1 := by rw [mul_comm]; exact Real.cos_two_pi
private theorem sin_pi_two : Real.sin (Real.pi * 2) = 0 := by rw [mul_comm]; exact Real.sin_two_pi
private theorem cos_pi_three : Real.cos (Real.pi * 3) = -1 := by
  have : Real.pi * 3 = Real.pi + 2 * Real.pi := by ring
  rw [this, Real.cos_add_two_pi, Real.cos_pi]
private theorem sin_pi_three : Real.sin (Real.pi * 3) = 0 := by
  have : Real.pi * 3 = Real.pi + 2 * Real.pi := by ring
  rw [this, Real.sin_add_two_pi, Real.sin_pi]

/-- An impulse fired during a burn and listed after it (a chronological list): at a date inside the burn `propagate`
returns from inside its loop and the impulse is never applied.  Burn `[1, 4)` with acceleration `(0,0,1)`, impulse `(0,0,1)`
at date 2, state at date 3 from rest at date 0: the cross-track velocity of the solution is `-1`, the code returns `0`. -/
theorem impulse_inside_burn_dropped :
    (cwPropagate false Real.pi [Man.cont 1 4 [0, 0, 1], Man.imp 2 [0, 0, 1]] 3 0 zero6).getD 5 0 = 0 ∧
    (hillSol Real.pi [Man.cont 1 4 [0, 0, 1], Man.imp 2 [0, 0, 1]] 3 0 zero6).getD 5 0 = -1 := by
  have e1 : (3 : ℝ) - 1 = 2 := by norm_num
  have e2 : (3 : ℝ) - 2 = 1 := by norm_num
  constructor
  · norm_num [cwPropagate, cwPropagate.go, cwStep, cwStepQSW, cwMats, matVec, dot, vadd, zero6, zero3, e1, cos_pi_two, sin_pi_two]
  · norm_num [hillSol, hillTerm, cwStepQSW, cwMats, matVec, dot, vadd, zero6, zero3, kick, e1, e2, cos_pi_two, sin_pi_two,
      cos_pi_three, sin_pi_three]

theorem impulse_inside_burn_violates :
    cwPropagate false Real.pi [Man.cont 1 4 [0, 0, 1], Man.imp 2 [0, 0, 1]] 3 0 zero6
      ≠ hillSol Real.pi [Man.cont 1 4 [0, 0, 1], Man.imp 2 [0, 0, 1]] 3 0 zero6 := by
  intro h
  have := impulse_inside_burn_dropped
  rw [h] at this
  linarith [this.1, this.2]

/-- the hypothesis `NoCut` of `propagate_eq_hillSol_partial` indeed fails there -/
theorem impulse_inside_burn_not_noCut : ¬ NoCut 3 0 [Man.cont 1 4 [0, 0, 1], Man.imp 2 [0, 0, 1]] := by
  intro h
  have := h.1 (by norm_num) (Man.imp 2 [0, 0, 1]) (by simp)
  exact this (by norm_num [activeFwd])

/-- Two overlapping burns in chronological order, `[1, 4)` and `[2, 5)`, both `(0,0,1)`; date 3 lies in the overlap: the
second burn is dropped.  Cross-track position of the solution `2/π²`, the code returns `0`. -/
theorem overlapping_burn_dropped :
    (cwPropagate false Real.pi [Man.cont 1 4 [0, 0, 1], Man.cont 2 5 [0, 0, 1]] 3 0 zero6).getD 2 0 = 0 ∧
    (hillSol Real.pi [Man.cont 1 4 [0, 0, 1], Man.cont 2 5 [0, 0, 1]] 3 0 zero6).getD 2 0 = 2 / Real.pi ^ 2 := by
  have e1 : (3 : ℝ) - 1 = 2 := by norm_num
  have e2 : (3 : ℝ) - 2 = 1 := by norm_num
  constructor
  · norm_num [cwPropagate, cwPropagate.go, cwStep, cwStepQSW, cwMats, matVec, dot, vadd, zero6, zero3, e1, cos_pi_two, sin_pi_two]
  · norm_num [hillSol, hillTerm, cwStepQSW, cwMats, matVec, dot, vadd, zero6, zero3, e1, e2, cos_pi_two, sin_pi_two,
      cos_pi_three, sin_pi_three, powi]

theorem overlapping_burn_violates :
    cwPropagate false Real.pi [Man.cont 1 4 [0, 0, 1], Man.cont 2 5 [0, 0, 1]] 3 0 zero6
      ≠ hillSol Real.pi [Man.cont 1 4 [0, 0, 1], Man.cont 2 5 [0, 0, 1]] 3 0 zero6 := by
  intro h
  have := overlapping_burn_dropped
  rw [h] at this
  have hp : (2 : ℝ) / Real.pi ^ 2 > 0 := by positivity
  linarith [this.1, this.2]

/-- A propagated orbit (dated 2, after the impulse `(0,0,1)` of date 1 which is part of its state) taken back to date 0:
the impulse is not undone.  Cross-track velocity of the solution `1` (from rest at date 2), the code returns `0`. -/
theorem backward_ignores_impulse :
    (cwPropagate false Real.pi [Man.imp 1 [0, 0, 1]] 0 2 zero6).getD 5 0 = 0 ∧
    (hillSol Real.pi [Man.imp 1 [0, 0, 1]] 0 2 zero6).getD 5 0 = 1 := by
  constructor
  · norm_num [cwPropagate, cwPropagate.go, cwStep, cwStepQSW, cwMats, matVec, dot, vadd, zero6, zero3]
  · norm_num [hillSol, hillTerm, cwStepQSW, cwMats, matVec, dot, vadd, zero6, zero3, kick, vneg]

theorem backward_violates :
    cwPropagate false Real.pi [Man.imp 1 [0, 0, 1]] 0 2 zero6 ≠ hillSol Real.pi [Man.imp 1 [0, 0, 1]] 0 2 zero6 := by
  intro h
  have := backward_ignores_impulse
  rw [h] at this
  linarith [this.1, this.2]

/-- the sequencing of the proposed fix is right on all three -/
theorem fixed_sequencing_on_the_witnesses :
    cwPropagateFixed Real.pi [Man.cont 1 4 [0, 0, 1], Man.imp 2 [0, 0, 1]] 3 0 zero6
      = hillSol Real.pi [Man.cont 1 4 [0, 0, 1], Man.imp 2 [0, 0, 1]] 3 0 zero6 ∧
    cwPropagateFixed Real.pi [Man.cont 1 4 [0, 0, 1], Man.cont 2 5 [0, 0, 1]] 3 0 zero6
      = hillSol Real.pi [Man.cont 1 4 [0, 0, 1], Man.cont 2 5 [0, 0, 1]] 3 0 zero6 ∧
    cwPropagateFixed Real.pi [Man.imp 1 [0, 0, 1]] 0 2 zero6 = hillSol Real.pi [Man.imp 1 [0, 0, 1]] 0 2 zero6 := by
  refine ⟨cwPropagateFixed_eq_hillSol _ Real.pi_ne_zero _ ?_ _ _ _ rfl, cwPropagateFixed_eq_hillSol _ Real.pi_ne_zero _ ?_ _ _ _ rfl,
    cwPropagateFixed_eq_hillSol _ Real.pi_ne_zero _ ?_ _ _ _ rfl⟩ <;> intro m hm <;> simp at hm <;> rcases hm with rfl | rfl <;> rfl

/-- open finding C16-mean-motion-memo-stale-after-write: read n (a = 1), write `sma = 4`, read again: the memoised read returns the mean
motion of the OLD target (1), not `meanMotionSrc 1 4` (= 1/8) -/
theorem memo_stale_after_write :
    (((⟨1, 1, none⟩ : Memo).read.2.write 1 4).read.1) ≠ meanMotionSrc 1 4 := by
  have h1 : Real.sqrt (1 / (1 : ℝ) ^ 3) = 1 := by norm_num
  have h2 : Real.sqrt (1 / (4 : ℝ) ^ 3) ^ 2 = 1 / (4 : ℝ) ^ 3 := Real.sq_sqrt (by norm_num)
  simp only [Memo.read, Memo.write, nMemoised, meanMotionSrc, powi, sqrt, if_true]
  intro h
  rw [h1] at h
  rw [← h] at h2
  norm_num at h2

end BeyondVerif.C16W
