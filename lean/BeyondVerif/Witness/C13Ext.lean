import BeyondVerif.Model.CcsdsExt
/-!
Kernel-checked instances for the clauses about dates, forms and Keplerian maneuvers (`Model/CcsdsExt.lean`).

History.  Until /repo aa1842c (time scales) and 1daca9c (OEM XML form) `mixed_scale_moves_instant` and `oem_xml_noncartesian_form`
were counter-witnesses; the fixes are in, the regenerated flags flipped, and the same inputs are now regression witnesses
(`…_ok`): if a fix is reverted the flags flip back and they stop building.  Likewise `xml_lagrange_centre_ok` (1063a10) and
`lagrange_multiword_body_ok` (b15e5e0).  Still a counter-witness:
`opm_keplerian_maneuver_lost` (open finding C13-opm-keplerian-maneuver), stated under the value its flag has now.
-/
namespace BeyondVerif.C13W
open BeyondVerif.CcsdsExt BeyondVerif.Generated

/-- TT − TAI = 32.184 s, GPS − TAI = −19 s; TAI, UTC, UT1 read alike when no leap-second table is loaded -/
def off0 (s : String) : Int := if s = "TT" then 32184000 else if s = "TDB" then 32184000 else if s = "GPS" then -19000000 else 0

/-- (was open: C13-mixed-scale-epoch-*, fixed aa1842c) a date labelled TT (GPS) inside a message whose TIME_SYSTEM is UTC comes back
as the same instant labelled UTC — OPM maneuver, OEM point (and its covariance epoch), TDM observation … -/
theorem mixed_scale_instant_ok :
    instant off0 (readBack "UTC" (written opmManScaleConv off0 "UTC" ⟨0, "TT"⟩)) = instant off0 ⟨0, "TT"⟩ ∧
    instant off0 (readBack "UTC" (written oemPointScaleConv off0 "UTC" ⟨0, "TT"⟩)) = instant off0 ⟨0, "TT"⟩ ∧
    instant off0 (readBack "UTC" (written tdmObsScaleConv off0 "UTC" ⟨0, "GPS"⟩)) = instant off0 ⟨0, "GPS"⟩ ∧
    readBack "UTC" (written opmManScaleConv off0 "UTC" ⟨0, "TT"⟩) = ⟨-32184000, "UTC"⟩ := by
  decide

/-- … whereas a writer that prints the date's own clock (the code before aa1842c) moves it by 32.184 s (−19 s) -/
theorem mixed_scale_moves_instant :
    instant off0 (readBack "UTC" (written false off0 "UTC" ⟨0, "TT"⟩)) - instant off0 ⟨0, "TT"⟩ = 32184000 ∧
    instant off0 (readBack "UTC" (written false off0 "UTC" ⟨0, "GPS"⟩)) - instant off0 ⟨0, "GPS"⟩ = -19000000 := by
  decide

/-- (was open: C13-oem-xml-dump-noncartesian-form, fixed 1daca9c) an ephemeris whose points are kept in Keplerian (spherical, …)
form is written in KVN and in XML -/
theorem oem_xml_noncartesian_form_ok :
    oemDumpForm "kvn" "keplerian" = true ∧ oemDumpForm "xml" "keplerian" = true ∧ oemDumpForm "xml" "spherical" = true ∧ oemDumpForm "xml" "cartesian" = true := by
  decide

/-- (open: C13-opm-keplerian-maneuver) a Keplerian impulsive maneuver makes the OPM writers fail, a Keplerian continuous one is
written with a zero delta-v -/
theorem opm_keplerian_maneuver_lost :
    opmWritesKeplerian = false → kepManWritten false = .attrError ∧ kepManWritten true = .zeros := by
  decide

/-- continuous maneuver dated by its stop: the window comes back (positive instance; `date_pos` is honoured by the writers) -/
theorem man_stop_dated_ok : manWindowBack ⟨1000000, 240000, .stop⟩ = some (760000, 1000000) ∧
    manWindowBack ⟨1000000, 240000, .median⟩ = some (880000, 1120000) := by decide

/-- (was open: C13-xml-lagrange-centre-name-glued, fixed 1063a10) the centre of a Lagrange-point frame is printed `EARTH MOON L1` by
the XML writers as by the KVN writers, and read back as `EarthMoonL1` … -/
theorem xml_lagrange_centre_ok :
    centerWrite xmlCenterPats "EarthMoonL1".toList = "EARTH MOON L1".toList ∧
    centerRead (centerWrite xmlCenterPats "EarthMoonL1".toList) = "EarthMoonL1".toList ∧
    centerRead (centerWrite kvnCenterPats "EarthMoonL1".toList) = "EarthMoonL1".toList := by
  decide

/-- … whereas a writer that only splits names containing `Barycenter` (the XML writer before 1063a10) prints it glued, and the readers
rebuild `Earthmoonl1` -/
theorem xml_lagrange_centre_glued :
    centerWrite ["Barycenter"] "EarthMoonL1".toList = "EARTHMOONL1".toList ∧
    centerRead (centerWrite ["Barycenter"] "EarthMoonL1".toList) = "Earthmoonl1".toList := by
  decide

/-- (was open: C13-lagrange-centre-of-multiword-body, fixed b15e5e0) the L2 point of Sun / Earth Barycenter is called
`SunEarthBarycenterL2` and comes back in both encodings; no centre name has a blank any more … -/
theorem lagrange_multiword_body_ok :
    "SunEarthBarycenterL2" ∈ lagrangeNames ∧ lagrangeBlankNames = [] ∧
    centerRead (centerWrite kvnCenterPats "SunEarthBarycenterL2".toList) = "SunEarthBarycenterL2".toList ∧
    centerRead (centerWrite xmlCenterPats "SunEarthBarycenterL2".toList) = "SunEarthBarycenterL2".toList := by
  decide

/-- … whereas the name `lagrange()` built before b15e5e0, with a blank inside, cannot come back from any CENTER_NAME text -/
theorem lagrange_multiword_body_name_lost :
    centerRead (centerWrite kvnCenterPats "SunEarth BarycenterL2".toList) = "SunEarthBarycenterL2".toList ∧
    centerRead (centerWrite kvnCenterPats "SunEarth BarycenterL2".toList) ≠ "SunEarth BarycenterL2".toList := by
  decide

/-- three-word centre of the JPL kernels, both encodings (regression instance for the word split) -/
theorem solar_system_barycenter_ok :
    centerWrite kvnCenterPats "SolarSystemBarycenter".toList = "SOLAR SYSTEM BARYCENTER".toList ∧
    centerRead (centerWrite kvnCenterPats "SolarSystemBarycenter".toList) = "SolarSystemBarycenter".toList ∧
    centerRead (centerWrite xmlCenterPats "SolarSystemBarycenter".toList) = "SolarSystemBarycenter".toList := by
  decide

end BeyondVerif.C13W
