import BeyondVerif.Model.CcsdsExt
/-!
Kernel-checked counter-witnesses for the clauses the current writers falsify (open findings in known_findings.d/C13.json).
Each is stated under the value the regenerated flag has *now*; when the library is fixed the flag flips, the hypothesis
becomes false and the positive theorem of Props/C13Ext.lean applies instead (both keep building).
-/
namespace BeyondVerif.C13W
open BeyondVerif.CcsdsExt BeyondVerif.Generated

/-- TT − TAI = 32.184 s, GPS − TAI = −19 s; TAI, UTC, UT1 read alike when no leap-second table is loaded -/
def off0 (s : String) : Int := if s = "TT" then 32184000 else if s = "TDB" then 32184000 else if s = "GPS" then -19000000 else 0

/-- (open: C13-mixed-scale-epoch-opm-maneuver / -oem-point / -tdm-observation) a date labelled TT inside a message whose
TIME_SYSTEM is UTC is printed as its TT reading and read back as UTC: the instant moves by 32.184 s.  Same for an OPM maneuver,
an OEM point (and its covariance epoch) and a TDM observation — all three writers print the date's own clock. -/
theorem mixed_scale_moves_instant :
    (opmManScaleConv = false → instant off0 (readBack "UTC" (written opmManScaleConv off0 "UTC" ⟨0, "TT"⟩)) - instant off0 ⟨0, "TT"⟩ = 32184000) ∧
    (oemPointScaleConv = false → instant off0 (readBack "UTC" (written oemPointScaleConv off0 "UTC" ⟨0, "TT"⟩)) - instant off0 ⟨0, "TT"⟩ = 32184000) ∧
    (tdmObsScaleConv = false → instant off0 (readBack "UTC" (written tdmObsScaleConv off0 "UTC" ⟨0, "GPS"⟩)) - instant off0 ⟨0, "GPS"⟩ = -19000000) := by
  decide

/-- (open: C13-oem-xml-dump-noncartesian-form) an ephemeris whose points are kept in Keplerian (spherical, …) form is written in
KVN but not in XML -/
theorem oem_xml_noncartesian_form :
    oemDumpForm "kvn" "keplerian" = true ∧ (oemXmlConvertsForm = false → oemDumpForm "xml" "keplerian" = false) ∧ oemDumpForm "xml" "cartesian" = true := by
  decide

/-- (open: C13-opm-keplerian-maneuver) a Keplerian impulsive maneuver makes the OPM writers fail, a Keplerian continuous one is
written with a zero delta-v -/
theorem opm_keplerian_maneuver_lost :
    opmWritesKeplerian = false → kepManWritten false = .attrError ∧ kepManWritten true = .zeros := by
  decide

/-- continuous maneuver dated by its stop: the window comes back (positive instance; `date_pos` is honoured by the writers) -/
theorem man_stop_dated_ok : manWindowBack ⟨1000000, 240000, .stop⟩ = some (760000, 1000000) ∧
    manWindowBack ⟨1000000, 240000, .median⟩ = some (880000, 1120000) := by decide

end BeyondVerif.C13W
