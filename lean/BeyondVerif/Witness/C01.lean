import BeyondVerif.Model.FormsR
import BeyondVerif.Lemmas.Angle
import Mathlib.Analysis.Real.Pi.Bounds
import Mathlib.Tactic.NormNum
import Mathlib.Tactic.Linarith

/-!
# C01 — witnesses where the current code falsifies a clause of the property

Both are statements about the functions *translated from the source* (`Generated/FormsR.lean`), checked by the kernel.

* `m2e_start_overflows`: for the hyperbolic orbit e = 1.2, M = 720 (true H ≈ 7.09, inside the property's domain) the
  start value chosen by `Form.M2E` is 718.8; `sinh`/`cosh` of that overflow IEEE doubles (> 709.78), the first Newton
  update is `(M − inf + H)/(inf − 1) = NaN`, the loop test `abs(NaN − H) >= tol` is false and NaN is returned.
  (The overflow itself is a floating-point fact, replayed on the implementation by the oracle.)
* `mean_circular_shifts_hyperbolic_M`: mean → mean-circular → mean returns `M − 2π` instead of `M` for ω = 0, M = 7;
  for a hyperbola the mean anomaly is not an angle, so this is a different orbit state.
-/
namespace BeyondVerif.C01W
open BeyondVerif.R BeyondVerif.NumReal BeyondVerif.Ang

theorem m2e_start_overflows : m2eStart (1.2 : ℝ) 720 = 718.8 ∧ (709.78 : ℝ) < 718.8 := by
  have hpi : Real.pi < 4 := Real.pi_lt_four
  have h1 : ¬ ((1.2 : ℝ) < 1) := by norm_num
  have h2 : (1.2 : ℝ) < 1.6 := by norm_num
  have h3 : ((-pi < (720 : ℝ) ∧ (720 : ℝ) < 0) ∨ (720 : ℝ) > pi) := Or.inr (by simp only [pi]; linarith)
  refine ⟨?_, by norm_num⟩
  simp only [m2eStart, if_neg h1, if_pos h2, if_pos h3]
  norm_num

theorem mean_circular_shifts_hyperbolic_M (mu a i Ω : ℝ) :
    app6 mcircToMean mu (meanToMcirc mu a 2 i Ω 0 7) = [a, 2, i, Ω, 0, 7 - 2 * Real.pi] ∧ (7 - 2 * Real.pi ≠ 7) := by
  have hpi3 : 3 < Real.pi := Real.pi_gt_three
  have hpi4 : Real.pi < 3.15 := Real.pi_lt_d2
  have hfl : ⌊(7 : ℝ) / (2 * Real.pi)⌋ = 1 := by
    rw [Int.floor_eq_iff]
    constructor
    · rw [le_div_iff₀ (by positivity)]; push_cast; linarith
    · rw [div_lt_iff₀ (by positivity)]; push_cast; linarith
  have hs : Real.sqrt ((2 : ℝ) ^ 2 + 0 ^ 2) = 2 := by
    rw [show ((2 : ℝ) ^ 2 + 0 ^ 2) = 2 ^ 2 by norm_num, Real.sqrt_sq (by norm_num)]
  have hat : atan2 (0 : ℝ) 1 = 0 := by
    unfold atan2
    have : (⟨1, 0⟩ : ℂ) = 1 := by apply Complex.ext <;> simp
    rw [this, Complex.arg_one]
  refine ⟨?_, by intro h; linarith⟩
  simp only [meanToMcirc, app6, mcircToMean, powi, sqrt, cos, sin, Real.cos_zero, Real.sin_zero, mul_one, mul_zero, hs, zero_div,
    fmod, pi, zero_add, hfl]
  norm_num [hat]

end BeyondVerif.C01W
