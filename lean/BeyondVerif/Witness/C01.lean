import BeyondVerif.Model.FormsR
namespace BeyondVerif.C01W
end BeyondVerif.C01W
