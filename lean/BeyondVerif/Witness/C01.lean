import BeyondVerif.Model.FormsR
import BeyondVerif.Lemmas.Angle
import Mathlib.Analysis.Real.Pi.Bounds
import Mathlib.Tactic.NormNum
import Mathlib.Tactic.Linarith

/-!
# C01 — the inputs on which the code used to falsify the property, re-checked on the current source

History (both were genuine defects found by this property's oracle; the statements below were *counter*-witnesses
until the fixes landed and are now kernel-checked facts about the functions translated from the fixed source):

* until fix 31f549a `m2eStart 1.2 720 = 718.8` (`m2e_start_overflows`): `sinh`/`cosh` of the start value overflowed
  IEEE doubles and `Form.M2E` returned NaN silently.  Now the start value is clamped to the asymptotic solution
  `ln(2·720/1.2 + 1.8) ≈ 7.09 < 30` (`m2e_start_clamped`).
* until fix 3686717 mean → mean-circular → mean returned `M − 2π` for the hyperbolic state e = 2, ω = 0, M = 7
  (`mean_circular_shifts_hyperbolic_M`).  Now it returns `M` itself (`mean_circular_keeps_hyperbolic_M`; the general
  statement is `C01.mean_mcirc_mean_hyperbolic`).

If either defect returns, these theorems stop compiling (the definitions are regenerated from the source on every run)
and the oracle families `m2e-hyperbolic-start-overflow` / `mean-circular-hyperbolic-M-mod-2pi` report the inputs.
-/
namespace BeyondVerif.C01W
open BeyondVerif.R BeyondVerif.NumReal BeyondVerif.Ang

/-- e = 1.2, M = 720 (true H ≈ 7.09): the Newton iteration starts from `ln(2M/e + 1.8)`, well inside the range of `sinh` -/
theorem m2e_start_clamped : m2eStart (1.2 : ℝ) 720 = Real.log (2 * 720 / 1.2 + 1.8) ∧ Real.log (2 * 720 / 1.2 + 1.8) < 30 := by
  have hpi : Real.pi < 4 := Real.pi_lt_four
  have h1 : ¬ ((1.2 : ℝ) < 1) := by norm_num
  have h2 : (1.2 : ℝ) < 1.6 := by norm_num
  have h3 : ((-pi < (720 : ℝ) ∧ (720 : ℝ) < 0) ∨ (720 : ℝ) > pi) := Or.inr (by simp only [pi]; linarith)
  have h4 : absR ((720 : ℝ) - 1.2) > 30 := by simp only [absR]; rw [abs_of_pos (by norm_num)]; norm_num
  have h5 : (720 : ℝ) > 0 := by norm_num
  have h6 : absR (720 : ℝ) = 720 := by simp only [absR]; exact abs_of_pos h5
  refine ⟨?_, ?_⟩
  · simp only [m2eStart, if_neg h1, if_pos h2, if_pos h3, if_pos h4, if_pos h5, h6, log, one_mul]
  · have hE : (1203 : ℝ) ≤ Real.exp 30 := by
      have h10 := Real.add_one_le_exp (10 : ℝ)
      have h30 : Real.exp 30 = Real.exp 10 * Real.exp 10 * Real.exp 10 := by rw [← Real.exp_add, ← Real.exp_add]; norm_num
      have hp : (0 : ℝ) < Real.exp 10 := Real.exp_pos 10
      rw [h30]; nlinarith [mul_pos hp hp]
    calc Real.log (2 * 720 / 1.2 + 1.8) < Real.log 1203 := Real.log_lt_log (by norm_num) (by norm_num)
      _ ≤ Real.log (Real.exp 30) := Real.log_le_log (by norm_num) hE
      _ = 30 := Real.log_exp 30

/-- e = 2, ω = 0, M = 7: the hyperbolic mean anomaly survives the mean-circular form unchanged -/
theorem mean_circular_keeps_hyperbolic_M (mu a i Ω : ℝ) :
    app6 mcircToMean mu (meanToMcirc mu a 2 i Ω 0 7) = [a, 2, i, Ω, 0, 7] := by
  have hs : Real.sqrt ((2 : ℝ) ^ 2 + 0 ^ 2) = 2 := by
    rw [show ((2 : ℝ) ^ 2 + 0 ^ 2) = 2 ^ 2 by norm_num, Real.sqrt_sq (by norm_num)]
  have hat : atan2 (0 : ℝ) 1 = 0 := by
    unfold atan2
    have : (⟨1, 0⟩ : ℂ) = 1 := by apply Complex.ext <;> simp
    rw [this, Complex.arg_one]
  have h2 : ¬ ((2 : ℝ) < 1) := by norm_num
  have hf : fmod (0 : ℝ) (2 * pi) = 0 := fmod_eq_self two_pi_pos le_rfl two_pi_pos
  simp only [meanToMcirc, app6, mcircToMean, powi, sqrt, cos, sin, Real.cos_zero, Real.sin_zero, mul_one, mul_zero, hs, zero_div,
    if_neg h2, hf, zero_add]
  norm_num [hat, hf]

end BeyondVerif.C01W
