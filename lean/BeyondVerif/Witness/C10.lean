/-
Kernel-checked concrete runs of the model for BACKWARD iterations (decreasing sample dates, which
`AnalyticalPropagator.iter` supports by negating the step) and one observation about exact zeros.

History: until /repo commits e2c987e (events of one step sorted in the direction of the iteration) and eddcf76
(apsis / mask / light labels keep their physical meaning backward) this file held COUNTER-witnesses:
`backward_not_chronological` (stream 1000, 300, 700, 0), `backward_apside_label` (a periapsis labelled "Apoapsis"
when iterating backward) and `backward_light_label` (a shadow exit labelled "Umbra entry").  The code was fixed, the
model follows it, the general statements are now theorems (`C10.stream_chronological_backward`,
`C10.label_prev_compare`, `C10.label_light`), and the same inputs are kept here as positive regression witnesses.
-/
import BeyondVerif.Model.ListenKinds
namespace BeyondVerif.C10W
open BeyondVerif.Listen

def lin (r : Int) : Lst := ⟨fun t => t - r, fun _ _ => true, fun _ _ => "x"⟩

/-- two listeners firing in the same backward step (sample 1000 then sample 0, crossings at 300 and 700): the stream
runs 1000, 700, 300, 0 — ordered in the direction of the iteration (was 1000, 300, 700, 0 before e2c987e). -/
theorem backward_chronological :
    (iter [lin 700, lin 300] [none, none] [1000, 0]).map Item.t = [1000, 700, 300, 0] := by decide +kernel

/-- the same two listeners in a forward iteration -/
theorem forward_chronological :
    (iter [lin 700, lin 300] [none, none] [0, 1000]).map Item.t = [0, 300, 700, 1000] := by decide +kernel

def chan (rdot : Int → Int) : Chan := ⟨fun _ => 0, fun _ => 0, rdot, fun _ => 0, 0⟩

/-- a radial velocity that increases with time through zero at t = 500 (a periapsis) is labelled "Periapsis" whether
the iteration runs forward or backward over it (backward it was "Apoapsis" before eddcf76). -/
theorem apside_label_both_directions :
    iter [mkLst .apside (chan (fun t => t - 500))] [none] [0, 1000] = [⟨0, none⟩, ⟨500, some (0, "Periapsis")⟩, ⟨1000, none⟩] ∧
    iter [mkLst .apside (chan (fun t => t - 500))] [none] [1000, 0] = [⟨1000, none⟩, ⟨500, some (0, "Periapsis")⟩, ⟨0, none⟩] := by
  constructor <;> decide +kernel

/-- `LightListener`: the watched quantity t − 500 is negative (shadow) before 500 and positive after; iterating backward
the event is labelled "Umbra exit", the physical meaning of the instant (it was "Umbra entry" before eddcf76). -/
theorem light_label_backward :
    iter [mkLst (.light true) ⟨fun t => t - 500, fun _ => 0, fun _ => 0, fun _ => 0, 0⟩] [none] [1000, 0] =
      [⟨1000, none⟩, ⟨500, some (0, "Umbra exit")⟩, ⟨0, none⟩] := by decide +kernel

/-- observation (three-valued sign, unchanged by the fixes): a crossing that passes through an exact zero AT a sample date
produces two events, one dated at that sample (it is the sample object itself, which is then yielded twice) and one
1 µs later. -/
theorem exact_zero_at_sample_two_events :
    iter [lin 10] [none] [0, 10, 20] =
      [⟨0, none⟩, ⟨10, some (0, "x")⟩, ⟨10, some (0, "x")⟩, ⟨11, some (0, "x")⟩, ⟨20, none⟩] := by decide +kernel

end BeyondVerif.C10W
