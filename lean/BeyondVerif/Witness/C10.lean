/-
Kernel-checked concrete runs of the model for BACKWARD iterations (decreasing sample dates, which
`AnalyticalPropagator.iter` supports by negating the step) and one observation about exact zeros.

History: until /repo commits e2c987e (events of one step sorted in the direction of the iteration) and eddcf76
(apsis / mask / light labels keep their physical meaning backward) this file held COUNTER-witnesses:
`backward_not_chronological` (stream 1000, 300, 700, 0), `backward_apside_label` (a periapsis labelled "Apoapsis"
when iterating backward) and `backward_light_label` (a shadow exit labelled "Umbra entry").  The code was fixed, the
model follows it, the general statements are now theorems (`C10.stream_chronological_backward`,
`C10.label_prev_compare`, `C10.label_light`), and the same inputs are kept here as positive regression witnesses.

Until /repo commit d3db55e (visibility converts a copy of each point to the station frame) the property was also false of
`TopocentricFrame.visibility` with a listener created without a frame: the yielded point was re-framed IN PLACE while still
`listener.prev`, so `ApsideListener()` compared a topocentric range rate (prev) with the radial velocity in the orbit's
own frame (new state) and fired 1 µs after every in-view sample.  The model then gave every listener a fixed frame and the
defect was visible to the oracle only; now `frame=None` is part of the model (`Listen.Spec`), the general statement is
`C10.visibility_stream_spec` / `C10.frameless_reads_own_frame`, and the inputs on which the old code failed are the
positive regression witnesses `visibility_frameless_*` below (the harness replays them on the real method on every run).
-/
import BeyondVerif.Model.ListenKinds
import BeyondVerif.Props.C10
namespace BeyondVerif.C10W
open BeyondVerif.Listen

def lin (r : Int) : Lst := ⟨fun t => t - r, fun _ _ => true, fun _ _ => "x"⟩

/-- two listeners firing in the same backward step (sample 1000 then sample 0, crossings at 300 and 700): the stream
runs 1000, 700, 300, 0 — ordered in the direction of the iteration (was 1000, 300, 700, 0 before e2c987e). -/
theorem backward_chronological :
    (iter [lin 700, lin 300] [none, none] [1000, 0]).map Item.t = [1000, 700, 300, 0] := by decide +kernel

/-- the same two listeners in a forward iteration -/
theorem forward_chronological :
    (iter [lin 700, lin 300] [none, none] [0, 1000]).map Item.t = [0, 300, 700, 1000] := by decide +kernel

def chan (rdot : Int → Int) : Chan := ⟨fun _ => 0, fun _ => 0, rdot, fun _ => 0, 0⟩

/-- a radial velocity that increases with time through zero at t = 500 (a periapsis) is labelled "Periapsis" whether
the iteration runs forward or backward over it (backward it was "Apoapsis" before eddcf76). -/
theorem apside_label_both_directions :
    iter [mkLst .apside (chan (fun t => t - 500))] [none] [0, 1000] = [⟨0, none⟩, ⟨500, some (0, "Periapsis")⟩, ⟨1000, none⟩] ∧
    iter [mkLst .apside (chan (fun t => t - 500))] [none] [1000, 0] = [⟨1000, none⟩, ⟨500, some (0, "Periapsis")⟩, ⟨0, none⟩] := by
  constructor <;> decide +kernel

/-- `LightListener`: the watched quantity t − 500 is negative (shadow) before 500 and positive after; iterating backward
the event is labelled "Umbra exit", the physical meaning of the instant (it was "Umbra entry" before eddcf76). -/
theorem light_label_backward :
    iter [mkLst (.light true) ⟨fun t => t - 500, fun _ => 0, fun _ => 0, fun _ => 0, 0⟩] [none] [1000, 0] =
      [⟨1000, none⟩, ⟨500, some (0, "Umbra exit")⟩, ⟨0, none⟩] := by decide +kernel

/-- observation (three-valued sign, unchanged by the fixes): a crossing that passes through an exact zero AT a sample date
produces two events, one dated at that sample (it is the sample object itself, which is then yielded twice) and one
1 µs later. -/
theorem exact_zero_at_sample_two_events :
    iter [lin 10] [none] [0, 10, 20] =
      [⟨0, none⟩, ⟨10, some (0, "x")⟩, ⟨10, some (0, "x")⟩, ⟨11, some (0, "x")⟩, ⟨20, none⟩] := by decide +kernel

/-! ### `visibility` with `frame=None` listeners (regression witnesses for d3db55e) -/

/-- station in view all along (elevation 1), topocentric range rate −5 -/
def staInView : Chan := ⟨fun _ => 1, fun _ => 0, fun _ => -5, fun _ => 0, 0⟩

/-- radial velocity in the orbit's own frame constant +5 (no apsis anywhere) while the topocentric range rate is −5:
`visibility(events=[ApsideListener()])` yields the three samples and NO event.  (Before d3db55e the real method yielded
`0, 1 Periapsis, 1000, 1001 Periapsis, 2000`: a bogus event 1 µs after every in-view sample.) -/
theorem visibility_frameless_no_spurious :
    visibility ⟨fun _ => 0, fun _ => 0, fun _ => 5, fun _ => 0, 0⟩ [(.apside, none)] staInView false true
      [none, none, none] [0, 1000, 2000] = [⟨0, none⟩, ⟨1000, none⟩, ⟨2000, none⟩] := by decide +kernel

/-- own radial velocity `t − 500`: the one genuine periapsis, at 500 µs, is reported (before d3db55e it was dated 1 µs
after the first sample, `prev` being read as the topocentric −5). -/
theorem visibility_frameless_genuine :
    visibility ⟨fun _ => 0, fun _ => 0, fun t => t - 500, fun _ => 0, 0⟩ [(.apside, none)] staInView false true
      [none, none, none] [0, 1000] = [⟨0, none⟩, ⟨500, some (0, "Periapsis")⟩, ⟨1000, none⟩] := by decide +kernel

/-- `NodeListener()` next to the station's own listeners: latitude in the own frame `t − 1500`, elevation `2500 − t`:
the ascending node at 1500 (in view), the LOS at 2500 from the station's AOS/LOS listener (index 1), and the sample at
3000 (below the horizon) dropped. -/
theorem visibility_frameless_node_and_los :
    visibility ⟨fun t => t - 1500, fun _ => 1, fun _ => 0, fun _ => 0, 0⟩ [(.node, none)]
      ⟨fun t => 2500 - t, fun _ => -1, fun _ => 0, fun _ => 0, 0⟩ false true [none, none, none] [0, 1000, 2000, 3000] =
      [⟨0, none⟩, ⟨1000, none⟩, ⟨1500, some (0, "Asc Node")⟩, ⟨2000, none⟩, ⟨2500, some (1, "LOS")⟩] := by decide +kernel

/-! ### open finding C10-penumbra-half-angle: COUNTER-witness on the formulas translated from the source -/

theorem sqrt_16_25 : Real.sqrt (1 - (3 / 5 : ℝ) ^ 2) = 4 / 5 := by
  rw [show (1 - (3 / 5 : ℝ) ^ 2) = (4 / 5) ^ 2 by norm_num]
  exact Real.sqrt_sq (by norm_num)

theorem sqrt_9_25 : Real.sqrt (1 - (4 / 5 : ℝ) ^ 2) = 3 / 5 := by
  rw [show (1 - (4 / 5 : ℝ) ^ 2) = (3 / 5) ^ 2 by norm_num]
  exact Real.sqrt_sq (by norm_num)

/-- A geometry (in units where everything is rational: R_sun = 7/2, R_body = 1/2, |x_sun| = 5, |x_sat| = 5,
x_sun · x_sat = −15, i.e. 3 behind the body and 4 off the axis) for which `LightListener("penumbra")` — the formulas
of `Generated/LightSrc`, translated from the current source — reports FULL LIGHT (+1), although the point lies inside the
penumbra cone of the property text, the cone tangent to the body with `sin α = (R_sun + R_body) / d = 4/5`
(bound 29/6 ≥ 4 at that distance; the code's cone, `sin α = (R_sun − R_body) / d = 3/5`, stops at 23/8 < 4).
This is the penumbra clause of C10 falsified by the code: the listener uses the umbra half-angle for both cones.
When /repo is fixed (`proposed_fixes/C10-penumbra-half-angle.diff`) this theorem stops checking and the model follows. -/
theorem penumbra_half_angle_witness :
    R.lightValue true (7 / 2) (1 / 2) 5 5 (-15) = 1 ∧
      (5 : ℝ) * Real.sqrt (1 - (3 / 5 : ℝ) ^ 2) ≤ C10.coneBound ((7 / 2 + 1 / 2) / 5) (1 / 2) 3 1 := by
  constructor
  · have key := C10.light_geometry true (7 / 2) (1 / 2) 5 5 (-15) (by norm_num) (by norm_num)
      (by rw [abs_of_neg (by norm_num)]; norm_num) (by norm_num) (by norm_num)
    have e1 : ((7 / 2 : ℝ) - 1 / 2) / 5 = 3 / 5 := by norm_num
    have e2 : -(-15 : ℝ) / (5 * 5) = 3 / 5 := by norm_num
    simp only [e1, e2] at key
    rcases C10.light_value_pm_one true (7 / 2) (1 / 2) 5 5 (-15) with h | h
    · exfalso
      have h2 := (key.1 h).2.1
      unfold C10.coneBound at h2
      rw [sqrt_16_25] at h2
      norm_num at h2
    · exact h
  · unfold C10.coneBound
    rw [sqrt_16_25, show ((7 / 2 + 1 / 2 : ℝ) / 5) = 4 / 5 by norm_num, sqrt_9_25]
    norm_num

end BeyondVerif.C10W
