/-
Kernel-checked counter-witnesses: clauses of C10 that the current code (hence the model) falsifies
for BACKWARD iterations (decreasing sample dates, which `AnalyticalPropagator.iter` supports by
negating the step), and one observation about exact zeros.
-/
import BeyondVerif.Model.ListenKinds
namespace BeyondVerif.C10W
open BeyondVerif.Listen

def lin (r : Int) : Lst := ⟨fun t => t - r, fun _ => true, fun _ _ => "x"⟩

/-- `sorted(results, key=date)` is ascending whatever the direction of the iteration: with two listeners firing in
the same backward step (sample 1000 then sample 0, crossings at 300 and 700) the stream is 1000, 300, 700, 0 —
not monotone in the direction of the iteration. -/
theorem backward_not_chronological :
    (iter [lin 700, lin 300] [none, none] [1000, 0]).map Item.t = [1000, 300, 700, 0] := by decide +kernel

/-- the same two listeners in a forward iteration: chronological -/
theorem forward_chronological :
    (iter [lin 700, lin 300] [none, none] [0, 1000]).map Item.t = [0, 300, 700, 1000] := by decide +kernel

def chan (rdot : Int → Int) : Chan := ⟨fun _ => 0, fun _ => 0, rdot, fun _ => 0, 0⟩

/-- `ApsideListener.info` compares with `listener.prev`, which in a backward iteration is the LATER state: a radial
velocity that increases with time through zero at t = 500 (a periapsis) is labelled "Periapsis" when iterating
forward and "Apoapsis" when iterating backward over the same instants. -/
theorem backward_apside_label :
    iter [mkLst .apside (chan (fun t => t - 500))] [none] [0, 1000] = [⟨0, none⟩, ⟨500, some (0, "Periapsis")⟩, ⟨1000, none⟩] ∧
    iter [mkLst .apside (chan (fun t => t - 500))] [none] [1000, 0] = [⟨1000, none⟩, ⟨500, some (0, "Apoapsis")⟩, ⟨0, none⟩] := by
  constructor <;> decide +kernel

/-- same for `LightListener` (value at the event state): leaving the shadow at t = 500 is "Umbra exit" forward and
"Umbra entry" backward. -/
theorem backward_light_label :
    iter [mkLst (.light true) ⟨fun t => t - 500, fun _ => 0, fun _ => 0, fun _ => 0, 0⟩] [none] [1000, 0] =
      [⟨1000, none⟩, ⟨500, some (0, "Umbra entry")⟩, ⟨0, none⟩] := by decide +kernel

/-- observation (three-valued sign): a crossing that passes through an exact zero AT a sample date produces two events,
one dated at that sample (it is the sample object itself, which is then yielded twice) and one 1 µs later. -/
theorem exact_zero_at_sample_two_events :
    iter [lin 10] [none] [0, 10, 20] =
      [⟨0, none⟩, ⟨10, some (0, "x")⟩, ⟨10, some (0, "x")⟩, ⟨11, some (0, "x")⟩, ⟨20, none⟩] := by decide +kernel

end BeyondVerif.C10W
