import BeyondVerif.Model.NodeSpec
/-!
Counter-witness for the clause "a shortest chain in general" of C20: on a 5-ring the
incremental tables of the *model* (which the correspondence shows to be those of the code)
return a 3-step path between nodes at distance 2.  Replayed on the implementation by
harness/props/C20.py (family `cyclic-nonshortest`).
-/
namespace BeyondVerif.C20W
open BeyondVerif.Node

def pentagon : List (Nat × Nat) := [(0, 1), (0, 2), (1, 3), (2, 4), (3, 4)]

/-- nodes 2 and 3 of the 5-ring are two links apart (2–4–3) but are routed along 2–0–1–3 -/
theorem pentagon_not_shortest :
    ∃ g, build 7 pentagon = some g ∧ path 7 g 2 3 = .ok [2, 0, 1, 3] ∧
      linkedB pentagon 2 4 = true ∧ linkedB pentagon 4 3 = true := by
  refine ⟨_, rfl, ?_⟩
  decide

end BeyondVerif.C20W
