import BeyondVerif.Model.NodeSpec
import BeyondVerif.Model.Registry
import BeyondVerif.Generated.RegSites
/-!
Counter-witness for the clause "a shortest chain in general" of C20: on a 5-ring the
incremental tables of the *model* (which the correspondence shows to be those of the code)
return a 3-step path between nodes at distance 2.  Replayed on the implementation by
harness/props/C20.py (family `cyclic-nonshortest`).
-/
namespace BeyondVerif.C20W
open BeyondVerif.Node

def pentagon : List (Nat × Nat) := [(0, 1), (0, 2), (1, 3), (2, 4), (3, 4)]

/-- nodes 2 and 3 of the 5-ring are two links apart (2–4–3) but are routed along 2–0–1–3 -/
theorem pentagon_not_shortest :
    ∃ g, build 7 pentagon = some g ∧ path 7 g 2 3 = .ok [2, 0, 1, 3] ∧
      linkedB pentagon 2 4 = true ∧ linkedB pentagon 4 3 = true := by
  refine ⟨_, rfl, ?_⟩
  decide

/-- the stale entry behind the detour: node 2 holds `(3, 0, 3)` — three steps via node 0 — although node 3 is two links
away; node 2 was refreshed before its neighbour 4 had learnt about the new link 3–4
(`Props/C20Graph.lean: shortest_if_steps_not_stale` — a non-shortest route needs a stale entry at its source) -/
theorem pentagon_stale_entry :
    ∃ g, build 7 pentagon = some g ∧ lookupRoute (get g 2).routes 3 = some ⟨3, 0, 3⟩ := by
  refine ⟨_, rfl, ?_⟩
  decide

/-- the `n`-ring assembled as two arms from node 0 (`0–1–3–5–…`, `0–2–4–…`) and closed LAST by the link `(n-2) + (n-1)` -/
def ringHist (n : Nat) : List (Nat × Nat) :=
  [(0, 1), (0, 2)] ++ (List.range (n - 3)).map (fun k => (k + 1, k + 3)) ++ [(n - 2, n - 1)]

/-- the detour grows with the ring: `n - 3` and `n - 2` are two links apart (through `n - 1`) but are routed the long way
round, `n - 2` hops.  With `graph_path_simple` (at most `n - 1` hops on `n` nodes) this brackets the worst case:
stretch between `(n - 2) / 2` and `(n - 1) / 2`. -/
def ringDetour (n : Nat) : Bool :=
  match build (n + 2) (ringHist n) with
  | none => false
  | some g =>
    match path (n + 2) g (n - 3) (n - 2) with
    | .ok p => p.length == n - 1 && linkedB (ringHist n) (n - 3) (n - 1) && linkedB (ringHist n) (n - 1) (n - 2)
    | _ => false

theorem ring_detours : (ringDetour 5 && ringDetour 6 && ringDetour 7 && ringDetour 8) = true := by decide +kernel

example : ringHist 5 = pentagon := by decide

/-! ## registry layer: where the link method is stored matters

`convert_resolves` (Props/C20Registry.lean) needs every executed site to store the method of each link it inserts
on the BASE class (`registersRoot`).  Outside that hypothesis a connected pair is reported `Unknown transformation`.
-/
open BeyondVerif.Reg

/-- objects 0 (class 0 = base), 1 (class 2 ⊂ 0), 2 (class 1 ⊂ 0); every node its own name -/
def world3 : World where
  nm := fun i => i
  cls := fun i => [0, 2, 1].getD i 0
  mro := fun c => if c = 0 then [0] else [c, 0]

/-- the constructor `TopocentricOrientation.__init__` as it was before the fix of finding
C20-topocentric-ctor-instance-only: `<station>_to_<parent>` stored in the instance dict of the new object only -/
def siteInstanceOnly : List SiteOp := [.setattr (.inst .self) .self .parent .self, .link .parent .self]

/-- **regression witness for the fixed finding C20-topocentric-ctor-instance-only.**  With the former constructor the two
nodes are linked and routed, the station converts to its parent, but from the parent (and from everywhere else)
`convert_to` raises `Unknown transformation 0 <-> 2`.  The constructor of the CURRENT source (site regenerated from the
AST) registers on the base class and resolves in both directions. -/
theorem topo_ctor_instance_only_regression :
    (registersRoot siteInstanceOnly = false ∧
      ∃ st, runSites world3 0 6 {} [(siteInstanceOnly, ⟨2, 0, 0⟩)] = some st ∧
        Reg.path world3.nm 6 st.g 0 2 = .ok [0, 2] ∧
        convert world3 6 st 0 2 = .unknownTransformation 0 2 ∧
        convert world3 6 st 2 0 = .ok [⟨2, 0, true, some 2⟩]) ∧
    (registersRoot BeyondVerif.Generated.siteTopocentricOrientationCtor = true ∧
      ∃ st, runSites world3 0 6 {} [(BeyondVerif.Generated.siteTopocentricOrientationCtor, ⟨2, 0, 0⟩)] = some st ∧
        convert world3 6 st 0 2 = .ok [⟨0, 2, false, some 2⟩] ∧
        convert world3 6 st 2 0 = .ok [⟨2, 0, true, some 2⟩]) := by
  refine ⟨⟨by decide, _, rfl, ?_⟩, ⟨by decide, _, rfl, ?_⟩⟩ <;> decide

/-- a site that stores the method on `type(parent)`: fine when the parent is a plain base-class object, but below a
parent of a SUBCLASS (object 1, class 2) the method is invisible from base-class objects: 0 — 1 — 2 are linked and
routed, yet `0 → 2` raises `Unknown transformation 1 <-> 2` while `1 → 2` resolves. -/
def siteTypeOfParent : List SiteOp := [.setattr (.typeOf .parent) .self .parent .self, .link .parent .self]

theorem subclass_registration_unresolvable :
    registersRoot siteTypeOfParent = false ∧
    ∃ st, runSites world3 0 6 {} [(BeyondVerif.Generated.siteLagrangeOrientCtor, ⟨1, 0, 0⟩), (siteTypeOfParent, ⟨2, 1, 0⟩)] = some st ∧
      Reg.path world3.nm 6 st.g 0 2 = .ok [0, 1, 2] ∧
      convert world3 6 st 0 2 = .unknownTransformation 1 2 ∧
      convert world3 6 st 1 2 = .ok [⟨1, 2, false, some 2⟩] := by
  refine ⟨by decide, _, rfl, ?_⟩
  decide

end BeyondVerif.C20W
