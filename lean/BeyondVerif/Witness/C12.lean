import BeyondVerif.Model.Tle
import BeyondVerif.Model.TleOrb
import BeyondVerif.Model.TleQuant

/-!
Kernel-checked facts (`decide`) about concrete inputs on which an earlier version of beyond/io/tle.py falsified a
clause of C12. The four defects were repaired in /repo (1de1dcf, 7d01f12, 900dafc, f1c2a4f); the model follows the
repaired code, so each former counter-witness is now restated as the positive fact, on the same input.

History (statements that were proved here against the old code and are now false):
* `leading_blank_accepted_misparsed` : `parseTle [l1, ' ' :: l2]` had revolution number 15635 instead of 56353
  (validity was checked on the stripped line, the columns were cut from the unstripped one).
* `from_string_loses_valid_entry` : `fromString [l1, '1' :: l2.drop 1, m1, m2]` yielded nothing
  (an orphan line 1 stayed in the cache and spoiled the next entry).
* `ecc_rounds_to_zero` : `fromOrbit almostParabolic` was a valid TLE with eccentricity field `0000000`.
* (no theorem) `checkValidity [l1] = .error .indexError`.
-/
namespace BeyondVerif.C12W
open BeyondVerif.Tle

def l1 : Str := "1 25544U 98067A   08264.51782528 -.00002182  00000-0 -11606-4 0  2927".toList
def l2 : Str := "2 25544  51.6416 247.4627 0006703 130.5360 325.0288 15.72125391563537".toList
def m1 : Str := "1 00014U          19071.50347758  .00025823  00000-0  22146-2 0  9999".toList
def m2 : Str := "2 00014  51.3262 117.7468 2910898 126.0686 264.6106  9.45290855184708".toList

/-- the reference TLE reads revolution number 56353 -/
theorem reference_revs : (parseTle [l1, l2]).toOption.map (·.revs) = some 56353 := by decide

/-- blanks around a line are harmless: the text is accepted and read from the stripped lines (1de1dcf) -/
theorem leading_blank_now_harmless :
    (parseTle [l1, ' ' :: l2]).toOption.map (fun p => (p.revs, p.text)) = some (56353, [l1, l2]) ∧
    (parseTle [' ' :: ' ' :: l1 ++ [' '], l2]).toOption.map (fun p => (p.norad, p.text)) = some (25544, [l1, l2]) := by decide

theorem from_string_two_entries : ((fromString [l1, l2, m1, m2]).out.map (·.norad)) = [25544, 14] := by decide

/-- the entry after one whose second line number was corrupted from `2` to `1` is yielded (7d01f12) -/
theorem from_string_keeps_valid_entry :
    ((fromString [l1, '1' :: l2.drop 1, m1, m2]).out.map (fun p => (p.norad, p.name))) = [(14, [])] := by decide

def almostParabolic : Rec :=
  { name := [], norad := 25544, cospar := "98067A".toList, yy := 8, day8 := 26451782528, ndotNeg := true, ndot8 := 2182,
    ndd := .zero, bstar := .val true 11606 (-4), elnb := 292, inc4 := 516416, raan4 := 2474627, ecc7 := 10000000,
    argp4 := 1305360, ma4 := 3250288, mm8 := 1572125391, revs := 56353 }

/-- an eccentricity that prints as 1.0000000 is refused (900dafc); one unit below it is written as 9999999 -/
theorem ecc_one_refused :
    (match fromOrbit almostParabolic with | .error .eccentricity => true | _ => false) = true ∧
    (fromOrbit { almostParabolic with ecc7 := 9999999 }).toOption.map (·.ecc.mant) = some 9999999 := by decide

/-- a text with fewer than two lines is a parse error, not an IndexError (f1c2a4f) -/
theorem missing_line_is_parse_error :
    (match parseTle [l1] with | .error (.lineCount 1) => true | _ => false) = true ∧
    (match parseTle [] with | .error (.lineCount 0) => true | _ => false) = true := by decide

/-! ### repaired finding C12-blank-drag-field-indexerror (3f7f532) — regression witness

History: `blank_drag_field_ends_generator` proved, against the code before 3f7f532, that `parseTle [l1BlankBstar, l2]` was
`.error .indexError` and that `fromString [l1BlankBstar, l2, m1, m2]` yielded nothing and ended with `some .indexError`. -/

/-- line 1 of the reference TLE with a blank B* field; the checksum is still 7 -/
def l1BlankBstar : Str := "1 25544U 98067A   08264.51782528 -.00002182  00000-0          0  2927".toList

/-- a blank drag field is refused with a `ValueError` although length, line numbers and checksums are right; `from_string`
skips the entry and goes on: the valid entry `m1, m2` that follows is yielded -/
theorem blank_drag_field_skipped :
    (checkValidity [l1BlankBstar, l2]).toOption.isSome = true ∧
    (match parseTle [l1BlankBstar, l2] with | .error .valueError => true | _ => false) = true ∧
    ((fromString [l1BlankBstar, l2, m1, m2]).out.map (·.norad)) = [14] ∧ (fromString [l1BlankBstar, l2, m1, m2]).abort = none := by decide

/-! ### catalogue numbers outside the quantifier (`Model/TleOrb.lean`; `Props/C12Orb.lean` proves the general statements) -/

def refRec : Rec := { almostParabolic with ecc7 := 6703 }

/-- an alpha-5 catalogue number is refused (`int("A0001")` fails although the line is well formed), a six-digit one makes
the line 70 characters long, catalogue number 0 is written `00000` -/
theorem alpha5_refused :
    (match fromOrbitN "A0001".toList refRec with | .error .valueError => true | _ => false) = true ∧
    (match fromOrbitN (intStr 100000) refRec with | .error (.size 1 70) => true | _ => false) = true ∧
    (fromOrbitN (intStr 0) refRec).toOption.map (fun p => (p.norad, (p.text.head?.getD []).take 8)) = some (0, "1 00000U".toList) := by decide

/-- a curiosity of `"{:0>5}"` and `int()`: the sign of a four-digit negative number fills the fifth column and is read back;
shorter negative numbers get zeros in front of the sign and are refused -/
theorem negative_norad :
    (fromOrbitN (intStr (-1234)) refRec).toOption.map (·.norad) = some (-1234) ∧
    (match fromOrbitN (intStr (-5)) refRec with | .error .valueError => true | _ => false) = true := by decide

/-! ### the wrap of an angle must be Python's `%`, not C's `fmod` (`Model/TleQuant.lean`) -/

/-- −28.5° and −170°: `%` gives 331.5 and 190 (printed `331.5000`, `190.0000`); the truncated `fmod` keeps the sign, the
field would read `-28.5000` (not an angle of the format) and `-170.0000` (nine columns: a 70-character line) -/
theorem wrap_is_floor_modulo :
    fixQ 4 (wrapDeg ⟨-57, 2⟩) = 3315000 ∧ fixQ 4 (wrapDeg ⟨-170, 1⟩) = 1900000 ∧ fixQ 4 (wrapDeg ⟨1000, 1⟩) = 2800000 ∧
    fixQ 4 (fmodDeg ⟨-57, 2⟩) = -285000 ∧ fixQ 4 (fmodDeg ⟨-170, 1⟩) = -1700000 := by decide

end BeyondVerif.C12W
