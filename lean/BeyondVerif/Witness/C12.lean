import BeyondVerif.Model.Tle

/-!
Kernel-checked counter-witnesses (`decide`) for clauses of C12 that the current code — and therefore the model,
which is faithful to it — falsifies. Each is replayed on the implementation by the oracle of `harness/props/C12.py`
and recorded in `known_findings.d/C12.json`.
-/
namespace BeyondVerif.C12W
open BeyondVerif.Tle

def l1 : Str := "1 25544U 98067A   08264.51782528 -.00002182  00000-0 -11606-4 0  2927".toList
def l2 : Str := "2 25544  51.6416 247.4627 0006703 130.5360 325.0288 15.72125391563537".toList
def m1 : Str := "1 00014U          19071.50347758  .00025823  00000-0  22146-2 0  9999".toList
def m2 : Str := "2 00014  51.3262 117.7468 2910898 126.0686 264.6106  9.45290855184708".toList

/-- the reference TLE reads revolution number 56353 … -/
theorem reference_revs : (parseTle [l1, l2]).toOption.map (·.revs) = some 56353 := by decide

/-- … and with one blank in front of its second line (a line of the wrong length, 70 characters) the text is still
accepted and the revolution number becomes 15635 (finding C12-leading-blank-misparsed): `_check_validity` strips,
the column slices do not. -/
theorem leading_blank_accepted_misparsed :
    (' ' :: l2).length = 70 ∧ (parseTle [l1, ' ' :: l2]).toOption.map (·.revs) = some 15635 := by decide

/-- two valid entries are both yielded … -/
theorem from_string_two_entries : ((fromString [l1, l2, m1, m2]).out.map (·.norad)) = [25544, 14] := by decide

/-- … but when the line number of the first entry's second line is corrupted from `2` to `1`, the valid second
entry is lost as well (finding C12-from-string-stale-line1) -/
theorem from_string_loses_valid_entry :
    (parseTle [m1, m2]).toOption.isSome = true ∧ (fromString [l1, '1' :: l2.drop 1, m1, m2]).out = [] := by decide

/-- an orbit whose eccentricity rounds to 1.0000000 is written with the field `0000000` … -/
theorem ecc_field_of_one : fmtEcc 10000000 = "0000000".toList ∧ fmtEcc 0 = "0000000".toList := by decide

def almostParabolic : Rec :=
  { name := [], norad := 25544, cospar := "98067A".toList, yy := 8, day8 := 26451782528, ndotNeg := true, ndot8 := 2182,
    ndd := .zero, bstar := .val true 11606 (-4), elnb := 292, inc4 := 516416, raan4 := 2474627, ecc7 := 10000000,
    argp4 := 1305360, ma4 := 3250288, mm8 := 1572125391, revs := 56353 }

/-- … so `from_orbit` returns a valid TLE of a circular orbit (finding C12-eccentricity-rounds-to-one) -/
theorem ecc_rounds_to_zero : (fromOrbit almostParabolic).toOption.map (·.ecc.mant) = some 0 := by decide

end BeyondVerif.C12W
