import BeyondVerif.Model.DateCfg
/-!
Kernel-checked witnesses for C03, with the IERS values of 2015-03-03 / 04 (UT1−UTC = −0.5295713 s and −0.5306080 s,
TAI−UTC = 35 s).

History.  Until /repo commit fc514f7 `Date.__init__` took the EOP record of the day number of the clock reading in the
date's *own* scale: 2015-03-04T00:00:10 TAI (= 2015-03-03T23:59:35 UTC) got the record of March 4, its conversion to
UT1 the record of March 3, and the theorem `label_day_changes_instant` of this file stated (by `decide`) that the two
were 10 367 ticks = 1036.7 µs apart.  With the second lookup by UTC day (model: `eopFor`) that statement is false; its
place is taken by `label_day_keeps_instant`: the same input is now the same instant up to 0.3 µs of rounding.

Still a counter-witness to "same instant within 1 µs when UT1 is involved": UT1−UTC is a step function of the UTC day,
so UT1 jumps at UTC midnight and clock readings within one day's change of UT1−UTC of that jump are ambiguous.
2015-03-04T00:00:00 UTC converted to UT1 reads 2015-03-03T23:59:59.469392 UT1, which the constructor attributes to
March 3 (`utc_midnight_band_changes_instant`; known finding `ut1-step-at-utc-midnight`, replayed on the real `Date`
by the harness).
-/
namespace BeyondVerif.C03W
open BeyondVerif.Date BeyondVerif.Generated

/-- two days of `finals.all` and the leap second in force -/
def env2 : Env :=
  { finals := fun day => if day = 57084 then some (-5295713) else if day = 57085 then some (-5306080) else none
    leap := [(56109, 350000000)]
    policy := .pass
    tdb := fun _ => 0 }

/-- 2015-03-04T00:00:10 as microseconds since the MJD origin -/
def us0 : Int := 4932144010000000
/-- 2015-03-04T00:00:00 -/
def usMidnight : Int := 4932144000000000

def instOf (r : Except Err Date) : Option Int :=
  match r with
  | .ok x => some x.inst
  | .error _ => none

def ut1Of (r : Except Err Date) : Option Int :=
  match r with
  | .ok x => some x.eop.ut1Utc
  | .error _ => none

def tai : Nat := scalesNames.idxOf "TAI"
def ut1 : Nat := scalesNames.idxOf "UT1"
def utc : Nat := scalesNames.idxOf "UTC"

def convert (frm : Nat) (us : Int) (to : Nat) : Except Err Date :=
  match ofDatetime cfg env2 frm us with
  | .ok x => changeScale cfg env2 x to
  | .error e => .error e

/-- since fc514f7: the TAI date 10 s after TAI midnight carries the record of its UTC day (March 3), so does its
conversion to UT1, and the instant is kept up to the rounding of the offset (3 ticks) -/
theorem label_day_keeps_instant :
    ut1Of (ofDatetime cfg env2 tai us0) = some (-5295713) ∧ ut1Of (convert tai us0 ut1) = some (-5295713) ∧
    instOf (ofDatetime cfg env2 tai us0) = some 49321440100000000 ∧ instOf (convert tai us0 ut1) = some 49321440100000003 := by
  decide

/-- the same conversion at noon keeps the instant to the tick -/
theorem noon_keeps_instant :
    instOf (convert tai (us0 + 43200000000) ut1) = instOf (ofDatetime cfg env2 tai (us0 + 43200000000)) := by
  decide

/-- still false of the code: UTC midnight of March 4 converted to UT1 is attributed to March 3 and moves by
−10 367 ticks = −1036.7 µs, the change of UT1−UTC between the two days -/
theorem utc_midnight_band_changes_instant :
    instOf (ofDatetime cfg env2 utc usMidnight) = some 49321440350000000 ∧
    instOf (convert utc usMidnight ut1) = some 49321440349989633 ∧
    ut1Of (ofDatetime cfg env2 utc usMidnight) = some (-5306080) ∧ ut1Of (convert utc usMidnight ut1) = some (-5295713) := by
  decide

end BeyondVerif.C03W
