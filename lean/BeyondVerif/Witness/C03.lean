import BeyondVerif.Model.DateCfg
/-!
Kernel-checked counter-witness for C03: with the IERS values of 2015-03-03 / 04 (UT1−UTC = −0.5295713 s and
−0.5306080 s, TAI−UTC = 35 s) the date 2015-03-04T00:00:10 TAI — which is 2015-03-03T23:59:35 UTC — gets the EOP
record of its *label* day (March 4); converted to UT1 it becomes a date of March 3 with that day's record, and the two
are not the same instant: 1037 µs apart (the property allows 1 µs).  The harness replays the same input on the real
`Date` (known finding `eop-record-by-label-day:UT1`).
-/
namespace BeyondVerif.C03W
open BeyondVerif.Date BeyondVerif.Generated

/-- two days of `finals.all` and the leap second in force -/
def env2 : Env :=
  { finals := fun day => if day = 57084 then some (-5295713) else if day = 57085 then some (-5306080) else none
    leap := [(56109, 350000000)]
    policy := .pass
    tdb := fun _ => 0 }

/-- 2015-03-04T00:00:10 as microseconds since the MJD origin -/
def us0 : Int := 4932144010000000

def instOf (r : Except Err Date) : Option Int :=
  match r with
  | .ok x => some x.inst
  | .error _ => none

def tai : Nat := scalesNames.idxOf "TAI"
def ut1 : Nat := scalesNames.idxOf "UT1"

def converted : Except Err Date :=
  match ofDatetime cfg env2 tai us0 with
  | .ok x => changeScale cfg env2 x ut1
  | .error e => .error e

/-- the conversion TAI → UT1 moves the instant by −10 367 ticks = −1036.7 µs -/
theorem label_day_changes_instant :
    instOf (ofDatetime cfg env2 tai us0) = some 49321440100000000 ∧ instOf converted = some 49321440099989633 := by
  decide

/-- the same conversion at noon (label day = UTC day) keeps the instant to the tick -/
theorem noon_keeps_instant :
    instOf (match ofDatetime cfg env2 tai (us0 + 43200000000) with
      | .ok x => changeScale cfg env2 x ut1
      | .error e => .error e) = instOf (ofDatetime cfg env2 tai (us0 + 43200000000)) := by
  decide

end BeyondVerif.C03W
