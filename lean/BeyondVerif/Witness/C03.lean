import BeyondVerif.Model.DateCfg
import BeyondVerif.Model.DateDbl
/-!
Kernel-checked witnesses for C03, with the IERS values of 2015-03-03 / 04 (UT1−UTC = −0.5295713 s and −0.5306080 s,
TAI−UTC = 35 s).

History.  Until /repo commit fc514f7 `Date.__init__` took the EOP record of the day number of the clock reading in the
date's *own* scale: 2015-03-04T00:00:10 TAI (= 2015-03-03T23:59:35 UTC) got the record of March 4, its conversion to
UT1 the record of March 3, and the theorem `label_day_changes_instant` of this file stated (by `decide`) that the two
were 10 367 ticks = 1036.7 µs apart.  With the second lookup by UTC day (model: `eopFor`) that statement is false; its
place is taken by `label_day_keeps_instant`: the same input is now the same instant up to 0.3 µs of rounding.

Still a counter-witness to "same instant within 1 µs when UT1 is involved": UT1−UTC is a step function of the UTC day,
so UT1 jumps at UTC midnight and clock readings within one day's change of UT1−UTC of that jump are ambiguous.
2015-03-04T00:00:00 UTC converted to UT1 reads 2015-03-03T23:59:59.469392 UT1, which the constructor attributes to
March 3 (`utc_midnight_band_changes_instant`; known finding `ut1-step-at-utc-midnight`, replayed on the real `Date`
by the harness).
-/
namespace BeyondVerif.C03W
open BeyondVerif.Date BeyondVerif.Generated

/-- two days of `finals.all` and the leap second in force -/
def env2 : Env :=
  { finals := fun day => if day = 57084 then some (-5295713) else if day = 57085 then some (-5306080) else none
    leap := [(56109, 350000000)]
    policy := .pass
    tdb := fun _ => 0 }

/-- 2015-03-04T00:00:10 as microseconds since the MJD origin -/
def us0 : Int := 4932144010000000
/-- 2015-03-04T00:00:00 -/
def usMidnight : Int := 4932144000000000

def instOf (r : Except Err Date) : Option Int :=
  match r with
  | .ok x => some x.inst
  | .error _ => none

def ut1Of (r : Except Err Date) : Option Int :=
  match r with
  | .ok x => some x.eop.ut1Utc
  | .error _ => none

def tai : Nat := scalesNames.idxOf "TAI"
def ut1 : Nat := scalesNames.idxOf "UT1"
def utc : Nat := scalesNames.idxOf "UTC"

def convert (frm : Nat) (us : Int) (to : Nat) : Except Err Date :=
  match ofDatetime cfg env2 frm us with
  | .ok x => changeScale cfg env2 x to
  | .error e => .error e

/-- since fc514f7: the TAI date 10 s after TAI midnight carries the record of its UTC day (March 3), so does its
conversion to UT1, and the instant is kept up to the rounding of the offset (3 ticks) -/
theorem label_day_keeps_instant :
    ut1Of (ofDatetime cfg env2 tai us0) = some (-5295713) ∧ ut1Of (convert tai us0 ut1) = some (-5295713) ∧
    instOf (ofDatetime cfg env2 tai us0) = some 49321440100000000 ∧ instOf (convert tai us0 ut1) = some 49321440100000003 := by
  decide

/-- the same conversion at noon keeps the instant to the tick -/
theorem noon_keeps_instant :
    instOf (convert tai (us0 + 43200000000) ut1) = instOf (ofDatetime cfg env2 tai (us0 + 43200000000)) := by
  decide

/-- still false of the code: UTC midnight of March 4 converted to UT1 is attributed to March 3 and moves by
−10 367 ticks = −1036.7 µs, the change of UT1−UTC between the two days -/
theorem utc_midnight_band_changes_instant :
    instOf (ofDatetime cfg env2 utc usMidnight) = some 49321440350000000 ∧
    instOf (convert utc usMidnight ut1) = some 49321440349989633 ∧
    ut1Of (ofDatetime cfg env2 utc usMidnight) = some (-5306080) ∧ ut1Of (convert utc usMidnight ut1) = some (-5295713) := by
  decide

/-- the change of UT1−UTC from March 3 to March 4 is 10 367 ticks = 1036.7 µs: **the band is sharp** — a UTC date 1036 µs
after midnight of March 4 converted to UT1 moves by the whole difference, one microsecond later (1037 µs) by nothing
(`Props/C03b.lean to_ut1_step`, `to_ut1_safe_zone`) -/
theorem band_edge_is_sharp :
    instOf (ofDatetime cfg env2 utc (usMidnight + 1036)) = some 49321440350010360 ∧
    instOf (convert utc (usMidnight + 1036) ut1) = some (49321440350010360 - 10367) ∧
    instOf (ofDatetime cfg env2 utc (usMidnight + 1037)) = some 49321440350010370 ∧
    instOf (convert utc (usMidnight + 1037) ut1) = some 49321440350010370 := by
  decide

def tdb : Nat := scalesNames.idxOf "TDB"

/-- the same two days with a constant TDB−TT term of 1.2345 ms (no drift) -/
def env3 : Env := { env2 with tdb := fun _ => 12345 }

/-- the shift of the instant by `Date(d, s, scale=frm).change_scale(to)`, ticks -/
def shift (env : Env) (frm : Nat) (d s : Int) (to : Nat) : Option Int :=
  match mk cfg env frm d s with
  | .ok x =>
    match changeScale cfg env x to with
    | .ok y => some (y.inst - x.inst)
    | .error _ => none
  | .error _ => none

/-- **"within one microsecond" is not what three roundings give in the internal representation**: a TDB date whose clock
reading is not a whole microsecond (`Date(57084, 43200.000001, scale="TDB")`), converted to UT1 with the same EOP record and
a constant TDB term, moves by 12 ticks = 1.2 µs — `_s`, `_offset` and the offset are rounded to the microsecond separately.
(`Props/C03b.lean`: at most 1.6 µs, `changeScale_instant_bound_all`; and never more than 1 µs in `date2 - date1`,
`changeScale_observed_us`.  On the real `Date` the float noise at the ties of the 0.1-µs UT1−UTC column gives up to 1.49 µs also
between UT1 and the uniform scales: oracle family `instant-internal`.) -/
theorem three_roundings_exceed_1us : shift env3 tdb 57084 432000000010 ut1 = some (-12) := by decide

/-- **the day number comes from a double**: `Date(57085, 34.9999997, scale="TAI")` is 0.3 µs *before* 00:00:00 UTC of
March 4 — the exact-day model gives it the record of March 3, the binary64 computation of `Date.__init__`
(`Model/DateDbl.lean`: `mjd_utc` rounds up to 57085.0) the record of March 4.  Outside 0.7 µs of UTC midnight the two agree
(`Props/C03d.lean day_of_double_utc`, `eopForF_record_of_utc_day`). -/
theorem sub_microsecond_band_differs :
    ut1Of (mk cfg env2 tai 57085 349999997) = some (-5295713) ∧
    eopForF cfg env2 tai 57085 (fl (349999997 / 10000000)) = .ok ⟨350000000, -5306080⟩ 57085 (some 57085) ∧
    eopForF cfg env2 tai 57085 (fl (349999990 / 10000000)) = .ok ⟨350000000, -5295713⟩ 57085 (some 57084) ∧
    ut1Of (mk cfg env2 tai 57085 349999990) = some (-5295713) := by
  decide +kernel

end BeyondVerif.C03W
