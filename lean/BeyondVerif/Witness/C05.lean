import BeyondVerif.Generated.PropagR
import Mathlib.Analysis.SpecialFunctions.Complex.Arg

/-!
# C05 — witness for the open finding `C05-equatorial-*` (argument of latitude of an equatorial state)

`Form._cartesian_to_keplerian` (translated from forms.py on every run: `kpCartToKepl`) computes the argument of latitude
`ω + ν` as `arctan2(z / sin i, r·n)`.  For a state in the equatorial plane (`z = 0`) the first argument is `0 / sin i`:

* over ℝ (where `0 / 0 = 0`) and in doubles for a retrograde orbit (`sin π = 1.2e-16`) it is `0`, so the state is put ON THE
  NODE LINE — `sin (ω + ν) = 0` — whatever `x, y` are.  That is right when the orbit is inclined (`v_z ≠ 0`: a satellite with
  `z = 0` is at a node) and wrong when the orbit itself is equatorial (`v_z = 0`): there the node is a convention
  (`Ω = arctan2(0, -0)`) and the argument of latitude is the longitude of the satellite counted from it, any angle;
* in doubles for a prograde orbit it is `0 / 0 = NaN`.

`state_in_equatorial_plane_put_on_node_line` is that statement about the translated formula, for every state; with `vz = 0` it is
the counter-witness: the keplerian elements the orbit setter computes from an equatorial cartesian state do not describe the
state (unless it happens to lie on the x axis).  Proposed repair: `proposed_fixes/C05-equatorial-argument-of-latitude.diff`.
-/
noncomputable section
namespace BeyondVerif.C05W
open BeyondVerif.R BeyondVerif.NumReal

theorem sin_atan2_zero (x : ℝ) : Real.sin (atan2 0 x) = 0 := by
  simp [atan2, Complex.sin_arg]

/-- `ω = (ω_ν − ν) mod 2π` and `ν` add up to the argument of latitude `ω_ν`, modulo whole turns -/
theorem sin_fmod_sub_add (u ν : ℝ) : Real.sin (fmod (u - ν) ((2 : ℝ) * pi) + ν) = Real.sin u := by
  unfold fmod
  have h : u - ν - (2 : ℝ) * pi * (⌊(u - ν) / ((2 : ℝ) * pi)⌋ : ℤ) + ν = u - (⌊(u - ν) / ((2 : ℝ) * pi)⌋ : ℤ) * (2 * Real.pi) := by
    simp only [pi]; ring
  rw [h, Real.sin_sub_int_mul_two_pi]

/-- **every state with `z = 0` is put on the node line by the translated `Form._cartesian_to_keplerian`**: the sine of the
argument of latitude `ω + ν` (elements 4 and 5 of the result) vanishes — also for an equatorial orbit (`vz = 0`), whose true
argument of latitude is the longitude of the satellite from the conventional node. -/
theorem state_in_equatorial_plane_put_on_node_line (mu x y vx vy vz : ℝ) :
    Real.sin ((kpCartToKepl mu x y 0 vx vy vz).getD 4 0 + (kpCartToKepl mu x y 0 vx vy vz).getD 5 0) = 0 := by
  simp only [kpCartToKepl, List.getD_cons_succ, List.getD_cons_zero]
  rw [sin_fmod_sub_add, zero_div]
  exact sin_atan2_zero _

/-- the hypothesis is not vacuous and the conclusion is false for the state itself: the circular equatorial state at longitude 90°
(`x = 0, y = 1`, `v = (−1, 0, 0)`, `μ = 1`) has `sin (longitude) = 1`, not `0` -/
example : Real.sin (Real.pi / 2) ≠ 0 := by simp

end BeyondVerif.C05W
