import BeyondVerif.Model.LinkKey
/-! how the link-method names are formed at every registration and lookup site, read from the AST (harness/c20_sites.py);
strings are lists of code points -/
namespace BeyondVerif.Generated
open BeyondVerif.LinkKey
/-- (site, shape of the attribute name) for every `setattr` of the registration sites -/
def keyShapes : List (String × KeyShape) := [("Center.add_link", ⟨[95, 116, 111, 95], none⟩), ("TopocentricOrientation.__init__", ⟨[95, 116, 111, 95], none⟩), ("LocalOrbitalOrientation.__init__", ⟨[95, 116, 111, 95], none⟩), ("LagrangeOrient.__init__", ⟨[95, 116, 111, 95], none⟩), ("create_station[orient]", ⟨[95, 116, 111, 95], none⟩), ("create_station[center]", ⟨[95, 116, 111, 95], none⟩)]
/-- (convert_to, `direct` is built from (a, b), `reverse` from (b, a), shape of direct, shape of reverse) -/
def lookupShapes : List (String × Bool × Bool × KeyShape × KeyShape) := [("Center.convert_to", true, true, ⟨[95, 116, 111, 95], none⟩, ⟨[95, 116, 111, 95], none⟩), ("Orientation.convert_to", true, true, ⟨[95, 116, 111, 95], none⟩, ⟨[95, 116, 111, 95], none⟩)]
end BeyondVerif.Generated
