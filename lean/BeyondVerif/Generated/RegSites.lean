import BeyondVerif.Model.Registry
/-! registration sites of the frame registry, read from the AST of the anchored files (harness/c20_sites.py) -/
namespace BeyondVerif.Generated
open BeyondVerif.Reg
/-- `Center.add_link` -/
def siteCenterAddLink : List SiteOp := [.link .self .parent, .setattr .root .self .parent .self]
/-- `JplCenter.add_link` -/
def siteJplCenterAddLink : List SiteOp := [.link .self .parent, .setattr .root .self .parent .self]
/-- `TopocentricOrientation.__init__` -/
def siteTopocentricOrientationCtor : List SiteOp := [.setattr .root .self .parent .self, .link .parent .self]
/-- `LocalOrbitalOrientation.__init__` -/
def siteLocalOrbitalOrientationCtor : List SiteOp := [.setattr .root .self .parent .self, .link .parent .self]
/-- `LagrangeOrient.__init__` -/
def siteLagrangeOrientCtor : List SiteOp := [.setattr .root .self .parent .self, .link .parent .self]
/-- `create_station[orient]` -/
def siteCreateStationOrient : List SiteOp := [.setattr .root .self .parent .self, .link .parent .self, .setattr .root .self .parent .self, .link .self .parent]
/-- `create_station[center]` -/
def siteCreateStationCenter : List SiteOp := [.link .self .parent, .setattr .root .self .parent .self]
/-- `orbit2frame[orient]` -/
def siteOrbit2frameOrient : List SiteOp := [.setattr .root .self .parent .self, .link .parent .self]
/-- `orbit2frame[center]` -/
def siteOrbit2frameCenter : List SiteOp := [.link .self .parent, .setattr .root .self .parent .self]
/-- `lagrange[orient]` -/
def siteLagrangeOrient : List SiteOp := [.setattr .root .self .parent .self, .link .parent .self]
/-- `lagrange[center]` -/
def siteLagrangeCenter : List SiteOp := [.link .self .parent, .setattr .root .self .parent .self]
/-- `solarsystem.get_frame[center]` -/
def siteSolarsystemGetFrameCenter : List SiteOp := [.link .self .parent, .setattr .root .self .parent .self]
/-- `jpl.create_frames[center#bodies]` -/
def siteJplCreateFramesCenterBodies : List SiteOp := [.link .self .parent, .setattr .root .self .parent .self]
/-- `jpl.create_frames[center#earth]` -/
def siteJplCreateFramesCenterEarth : List SiteOp := [.link .self .parent, .setattr .root .self .parent .self]
def regSites : List (String × List SiteOp) := [("Center.add_link", siteCenterAddLink), ("JplCenter.add_link", siteJplCenterAddLink), ("TopocentricOrientation.__init__", siteTopocentricOrientationCtor), ("LocalOrbitalOrientation.__init__", siteLocalOrbitalOrientationCtor), ("LagrangeOrient.__init__", siteLagrangeOrientCtor), ("create_station[orient]", siteCreateStationOrient), ("create_station[center]", siteCreateStationCenter), ("orbit2frame[orient]", siteOrbit2frameOrient), ("orbit2frame[center]", siteOrbit2frameCenter), ("lagrange[orient]", siteLagrangeOrient), ("lagrange[center]", siteLagrangeCenter), ("solarsystem.get_frame[center]", siteSolarsystemGetFrameCenter), ("jpl.create_frames[center#bodies]", siteJplCreateFramesCenterBodies), ("jpl.create_frames[center#earth]", siteJplCreateFramesCenterEarth)]
/-- every site that `sites_register_root` requires to register on the base class: all of them (including the bare `TopocentricOrientation.__init__`) -/
def publicSites : List (String × List SiteOp) := [("Center.add_link", siteCenterAddLink), ("JplCenter.add_link", siteJplCenterAddLink), ("TopocentricOrientation.__init__", siteTopocentricOrientationCtor), ("LocalOrbitalOrientation.__init__", siteLocalOrbitalOrientationCtor), ("LagrangeOrient.__init__", siteLagrangeOrientCtor), ("create_station[orient]", siteCreateStationOrient), ("create_station[center]", siteCreateStationCenter), ("orbit2frame[orient]", siteOrbit2frameOrient), ("orbit2frame[center]", siteOrbit2frameCenter), ("lagrange[orient]", siteLagrangeOrient), ("lagrange[center]", siteLagrangeCenter), ("solarsystem.get_frame[center]", siteSolarsystemGetFrameCenter), ("jpl.create_frames[center#bodies]", siteJplCreateFramesCenterBodies), ("jpl.create_frames[center#earth]", siteJplCreateFramesCenterEarth)]
/-- `def <a>_to_<b>` of the class body of `Orientation`, as indices into `orientNames` -/
def orientMethods : List (Nat × Nat) := [(6, 2), (1, 2), (2, 3), (3, 4), (0, 1), (0, 7), (7, 8), (8, 9), (5, 4), (9, 4)]
end BeyondVerif.Generated
