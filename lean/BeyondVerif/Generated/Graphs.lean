namespace BeyondVerif.Generated
def scalesNames : List String := ["GPS", "TAI", "UTC", "UT1", "TDB", "TT"]
def scalesN : Nat := 6
def scalesHist : List (Nat × Nat) := [(0, 1), (1, 2), (2, 3), (4, 5), (5, 1)]
def formsNames : List String := ["spherical", "cartesian", "keplerian", "keplerian_eccentric", "keplerian_mean", "tle", "equinoctial", "keplerian_circular", "keplerian_mean_circular", "cylindrical"]
def formsN : Nat := 10
def formsHist : List (Nat × Nat) := [(0, 1), (1, 2), (2, 3), (3, 4), (4, 5), (6, 2), (2, 7), (4, 8), (1, 9)]
def orientNames : List String := ["ITRF", "PEF", "TOD", "MOD", "EME2000", "G50", "TEME", "TIRF", "CIRF", "GCRF"]
def orientN : Nat := 10
def orientHist : List (Nat × Nat) := [(0, 1), (1, 2), (2, 3), (3, 4), (4, 5), (2, 6), (0, 7), (7, 8), (8, 9)]
end BeyondVerif.Generated
