/-
Executable number interface: the model texts are elaborated once against this namespace
(`R := Float`, libm functions) for the driver, and once against `NumReal` (`R := ℝ`, Mathlib
functions) for the theorems.  Same text, two semantics.
-/
namespace BeyondVerif.NumFloat

abbrev R := Float

def powi (x : R) (k : Nat) : R :=
  match k with
  | 0 => 1.0
  | k + 1 => if k = 0 then x else powi x k * x
def rpow (x y : R) : R := Float.pow x y
def sqrt (x : R) : R := Float.sqrt x
def sin (x : R) : R := Float.sin x
def cos (x : R) : R := Float.cos x
def tan (x : R) : R := Float.tan x
def asin (x : R) : R := Float.asin x
def acos (x : R) : R := Float.acos x
def atan (x : R) : R := Float.atan x
def atan2 (y x : R) : R := Float.atan2 y x
def sinh (x : R) : R := Float.sinh x
def cosh (x : R) : R := Float.cosh x
def tanh (x : R) : R := Float.tanh x
def asinh (x : R) : R := Float.asinh x
def atanh (x : R) : R := Float.atanh x
def exp (x : R) : R := Float.exp x
def log (x : R) : R := Float.log x
def absR (x : R) : R := Float.abs x
def floorR (x : R) : R := Float.floor x
def pi : R := 3.141592653589793
/-- Python's float `%`: result has the sign of the divisor -/
def fmod (x m : R) : R := x - m * Float.floor (x / m)
def ofNat (n : Nat) : R := n.toFloat
def ofInt (n : Int) : R := Float.ofInt n

end BeyondVerif.NumFloat
