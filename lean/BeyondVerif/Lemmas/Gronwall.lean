import Mathlib.Analysis.SpecialFunctions.Exp
import Mathlib.Algebra.Field.GeomSum
import Mathlib.Tactic.Ring
import Mathlib.Tactic.FieldSimp
import Mathlib.Tactic.Linarith
import Mathlib.Tactic.Positivity

/-!
Discrete Gronwall inequality and the global error of a one-step method (C06).

`e (k+1) ≤ (1 + hΛ) e k + C h^{p+1}`  ⇒  `e n ≤ e^{Λ n h} e 0 + C h^p (e^{Λ n h} − 1)/Λ`.

Pure induction on `n`; nothing here knows about Runge–Kutta methods.
-/
namespace BeyondVerif.Gronwall
open Finset

/-- `e (k+1) ≤ a e k + b` for `k < n`, `a ≥ 0` ⇒ `e n ≤ aⁿ e 0 + b Σ_{k<n} aᵏ` -/
theorem geom_bound (a b : ℝ) (ha : 0 ≤ a) (e : ℕ → ℝ) :
    ∀ n : ℕ, (∀ k < n, e (k + 1) ≤ a * e k + b) → e n ≤ a ^ n * e 0 + b * ∑ k ∈ range n, a ^ k := by
  intro n
  induction n with
  | zero => intro _; simp
  | succ m ih =>
    intro h
    have h1 := h m (Nat.lt_succ_self m)
    have h2 := ih (fun k hk => h k (Nat.lt_succ_of_lt hk))
    have h3 : a * e m ≤ a * (a ^ m * e 0 + b * ∑ k ∈ range m, a ^ k) := mul_le_mul_of_nonneg_left h2 ha
    have h4 : ∑ k ∈ range (m + 1), a ^ k = 1 + a * ∑ k ∈ range m, a ^ k := by
      rw [Finset.sum_range_succ', Finset.mul_sum]
      simp [pow_succ, mul_comm, add_comm]
    rw [h4, pow_succ]
    nlinarith [h1, h3]

/-- `(1 + x)ⁿ ≤ e^{n x}` for `x ≥ 0` (indeed for `x ≥ −1`) -/
theorem one_add_pow_le_exp (x : ℝ) (hx : 0 ≤ x) (n : ℕ) : (1 + x) ^ n ≤ Real.exp (n * x) := by
  have h1 : 1 + x ≤ Real.exp x := by linarith [Real.add_one_le_exp x]
  calc (1 + x) ^ n ≤ Real.exp x ^ n := pow_le_pow_left₀ (by linarith) h1 n
    _ = Real.exp (n * x) := by rw [← Real.exp_nat_mul]

/-- geometric sum of the amplification factor: `Σ_{k<n} (1 + x)ᵏ = ((1 + x)ⁿ − 1)/x` -/
theorem geom_sum_amp (x : ℝ) (hx : x ≠ 0) (n : ℕ) : ∑ k ∈ range n, (1 + x) ^ k = ((1 + x) ^ n - 1) / x := by
  have h : (1 + x) ≠ 1 := by intro h; apply hx; linarith
  rw [geom_sum_eq h]
  congr 1; ring

/-- **discrete Gronwall, order form.**  If the error of a one-step method obeys
`e (k+1) ≤ (1 + hΛ) e k + C h^{p+1}` over `n` steps of size `h > 0` (`Λ > 0`, `C ≥ 0`, `e 0 ≥ 0`) then
`e n ≤ e^{Λ (n h)} e 0 + C h^p (e^{Λ (n h)} − 1)/Λ`: the global error is one power of `h` below the local one, with a
constant depending on the span `T = n h` only. -/
theorem discrete_gronwall (Λ h C : ℝ) (p : ℕ) (hΛ : 0 < Λ) (hh : 0 < h) (hC : 0 ≤ C) (e : ℕ → ℝ) (n : ℕ)
    (h0 : 0 ≤ e 0) (hstep : ∀ k < n, e (k + 1) ≤ (1 + h * Λ) * e k + C * h ^ (p + 1)) :
    e n ≤ Real.exp (Λ * (n * h)) * e 0 + C * h ^ p * (Real.exp (Λ * (n * h)) - 1) / Λ := by
  have hx : 0 < h * Λ := mul_pos hh hΛ
  have hb := geom_bound (1 + h * Λ) (C * h ^ (p + 1)) (by linarith) e n hstep
  rw [geom_sum_amp (h * Λ) hx.ne' n] at hb
  have hexp : (1 + h * Λ) ^ n ≤ Real.exp (Λ * (n * h)) := by
    have := one_add_pow_le_exp (h * Λ) hx.le n
    rwa [show (n : ℝ) * (h * Λ) = Λ * (n * h) by ring] at this
  have h1 : (1 + h * Λ) ^ n * e 0 ≤ Real.exp (Λ * (n * h)) * e 0 := mul_le_mul_of_nonneg_right hexp h0
  have h2 : C * h ^ (p + 1) * (((1 + h * Λ) ^ n - 1) / (h * Λ)) = C * h ^ p * ((1 + h * Λ) ^ n - 1) / Λ := by
    field_simp
    ring
  have h3 : C * h ^ p * ((1 + h * Λ) ^ n - 1) / Λ ≤ C * h ^ p * (Real.exp (Λ * (n * h)) - 1) / Λ := by
    apply div_le_div_of_nonneg_right _ hΛ.le
    apply mul_le_mul_of_nonneg_left (by linarith)
    positivity
  linarith

/-- the case `Λ = 0` (the step map does not amplify): errors add up, `e n ≤ e 0 + n C h^{p+1} = e 0 + C h^p (n h)` -/
theorem discrete_gronwall_zero (h C : ℝ) (p : ℕ) (e : ℕ → ℝ) (n : ℕ)
    (hstep : ∀ k < n, e (k + 1) ≤ e k + C * h ^ (p + 1)) : e n ≤ e 0 + C * h ^ p * (n * h) := by
  have hb := geom_bound 1 (C * h ^ (p + 1)) zero_le_one e n (by simpa using hstep)
  simp only [one_pow, one_mul, Finset.sum_const, Finset.card_range, nsmul_eq_mul, mul_one] at hb
  calc e n ≤ e 0 + C * h ^ (p + 1) * n := hb
    _ = e 0 + C * h ^ p * (n * h) := by ring

/-- **global error of a one-step method** in any normed space.  `Φ k` is the step map used for the `k`-th step (it may depend on
`k`: non-autonomous problems, variable coefficients), `y k` the exact solution at the `k`-th node, `u k` the numerical one.
If along the exact solution the local error is at most `C h^{p+1}` and each step map does not separate the exact from the
numerical state by more than the factor `1 + hΛ`, the global error after `n` steps is at most
`e^{Λ n h} ‖y 0 − u 0‖ + C h^p (e^{Λ n h} − 1)/Λ`. -/
theorem one_step_global_error {E : Type*} [NormedAddCommGroup E] (Φ : ℕ → E → E) (y u : ℕ → E) (Λ h C : ℝ) (p n : ℕ)
    (hΛ : 0 < Λ) (hh : 0 < h) (hC : 0 ≤ C)
    (hu : ∀ k < n, u (k + 1) = Φ k (u k))
    (hloc : ∀ k < n, ‖y (k + 1) - Φ k (y k)‖ ≤ C * h ^ (p + 1))
    (hlip : ∀ k < n, ‖Φ k (y k) - Φ k (u k)‖ ≤ (1 + h * Λ) * ‖y k - u k‖) :
    ‖y n - u n‖ ≤ Real.exp (Λ * (n * h)) * ‖y 0 - u 0‖ + C * h ^ p * (Real.exp (Λ * (n * h)) - 1) / Λ := by
  apply discrete_gronwall Λ h C p hΛ hh hC (fun k => ‖y k - u k‖) n (norm_nonneg _)
  intro k hk
  have : y (k + 1) - u (k + 1) = (y (k + 1) - Φ k (y k)) + (Φ k (y k) - Φ k (u k)) := by rw [hu k hk]; abel
  calc ‖y (k + 1) - u (k + 1)‖ = ‖(y (k + 1) - Φ k (y k)) + (Φ k (y k) - Φ k (u k))‖ := by rw [this]
    _ ≤ ‖y (k + 1) - Φ k (y k)‖ + ‖Φ k (y k) - Φ k (u k)‖ := norm_add_le _ _
    _ ≤ C * h ^ (p + 1) + (1 + h * Λ) * ‖y k - u k‖ := add_le_add (hloc k hk) (hlip k hk)
    _ = (1 + h * Λ) * ‖y k - u k‖ + C * h ^ (p + 1) := add_comm _ _

/-- the same with a common start (`u 0 = y 0`): `‖y n − u n‖ ≤ C h^p (e^{Λ T} − 1)/Λ`, `T = n h` -/
theorem one_step_convergence {E : Type*} [NormedAddCommGroup E] (Φ : ℕ → E → E) (y u : ℕ → E) (Λ h C : ℝ) (p n : ℕ)
    (hΛ : 0 < Λ) (hh : 0 < h) (hC : 0 ≤ C) (h0 : u 0 = y 0)
    (hu : ∀ k < n, u (k + 1) = Φ k (u k))
    (hloc : ∀ k < n, ‖y (k + 1) - Φ k (y k)‖ ≤ C * h ^ (p + 1))
    (hlip : ∀ k < n, ‖Φ k (y k) - Φ k (u k)‖ ≤ (1 + h * Λ) * ‖y k - u k‖) :
    ‖y n - u n‖ ≤ C * h ^ p * (Real.exp (Λ * (n * h)) - 1) / Λ := by
  have := one_step_global_error Φ y u Λ h C p n hΛ hh hC hu hloc hlip
  simpa [h0] using this

end BeyondVerif.Gronwall
