import BeyondVerif.Model.Registry
import BeyondVerif.Lemmas.Node
import BeyondVerif.Model.NodeSpec

/-! Helper lemmas about the named routing model and the method table (`Model/Registry.lean`). -/
set_option linter.unusedSimpArgs false
namespace BeyondVerif.Reg
open BeyondVerif.Node (Route NodeSt Graph get set lookupRoute setRoute addNbr PathRes get_set mem_setRoute)

variable (nm : Nat → Nat)

/-! ### with `nm = id` the named model IS `Model/Node.lean` -/

theorem mergeFrom_id (u : Nat) (unbrs : List Nat) (d : Nat) (dr acc : List Route) :
    mergeFrom id u unbrs d dr acc = Node.mergeFrom u unbrs d dr acc := by
  simp only [mergeFrom, Node.mergeFrom, id_eq, List.map_id, List.contains_eq_mem, decide_eq_true_eq]
  congr 1

theorem refreshRoutes_id (g : Graph) (u : Nat) : refreshRoutes id g u = Node.refreshRoutes g u := by
  simp [refreshRoutes, Node.refreshRoutes, mergeFrom_id]

theorem refresh_id (g : Graph) (u : Nat) : refresh id g u = Node.refresh g u := by
  simp [refresh, Node.refresh, refreshRoutes_id]

theorem update_id : ∀ (fuel : Nat) (g : Graph) (vis : List Nat) (u : Nat),
    update id fuel g vis u = Node.update fuel g vis u := by
  intro fuel
  induction fuel with
  | zero => intro g vis u; rfl
  | succ fuel ih =>
    intro g vis u
    unfold update Node.update
    simp only [refresh_id]
    congr 1
    funext st d
    cases st with
    | none => rfl
    | some p => obtain ⟨g', v'⟩ := p; simp only [ih]

theorem link_id (fuel : Nat) (g : Graph) (a b : Nat) : link id fuel g a b = Node.link fuel g a b := by
  simp [link, Node.link, update_id]

theorem build_id (fuel : Nat) (hist : List (Nat × Nat)) : build id fuel hist = Node.build fuel hist := by
  simp [build, Node.build, link_id]

theorem walk_id (g : Graph) (goal : Nat) : ∀ (fuel cur : Nat) (acc : List Nat),
    walk id g goal fuel cur acc = Node.walk g goal fuel cur acc := by
  intro fuel
  induction fuel with
  | zero => intro cur acc; rfl
  | succ fuel ih =>
    intro cur acc
    simp only [walk, Node.walk, id_eq]
    cases lookupRoute (get g cur).routes goal with
    | none => rfl
    | some r => simp only [ih]

theorem path_id (fuel : Nat) (g : Graph) (s goal : Nat) : path id fuel g s goal = Node.path fuel g s goal := by
  simp only [path, Node.path, id_eq, walk_id]
  split
  · rfl
  · cases lookupRoute (get g s).routes goal <;> rfl

/-! ### directions are neighbours (any names) -/

theorem mem_mergeFrom {u : Nat} {unbrs : List Nat} {d : Nat} {droutes acc : List Route} {r : Route}
    (h : r ∈ mergeFrom nm u unbrs d droutes acc) : r.dir = d ∨ r ∈ acc := by
  unfold mergeFrom at h
  induction droutes generalizing acc with
  | nil => exact Or.inr h
  | cons x rest ih =>
    simp only [List.foldl_cons] at h
    rcases ih h with h | h
    · exact Or.inl h
    · split at h
      · exact Or.inr h
      · split at h
        · split at h
          · exact Or.inr h
          · rcases mem_setRoute h with h | h
            · exact Or.inl (by rw [h])
            · exact Or.inr h
        · rcases mem_setRoute h with h | h
          · exact Or.inl (by rw [h])
          · exact Or.inr h

theorem refreshRoutes_dir (g : Graph) (u : Nat) {r : Route} (h : r ∈ refreshRoutes nm g u) :
    r.dir ∈ (get g u).nbrs := by
  unfold refreshRoutes at h
  have key : ∀ (l : List Nat) (acc : List Route),
      r ∈ l.foldl (fun acc d =>
        let acc := setRoute acc ⟨nm d, d, 1⟩
        mergeFrom nm u (get g u).nbrs d (get g d).routes acc) acc → r.dir ∈ l ∨ r ∈ acc := by
    intro l
    induction l with
    | nil => intro acc h; exact Or.inr h
    | cons d rest ih =>
      intro acc h
      simp only [List.foldl_cons] at h
      rcases ih _ h with h | h
      · exact Or.inl (List.mem_cons_of_mem _ h)
      · rcases mem_mergeFrom nm h with h | h
        · exact Or.inl (h ▸ List.mem_cons_self)
        · rcases mem_setRoute h with h | h
          · exact Or.inl (by rw [h]; exact List.mem_cons_self)
          · exact Or.inr h
  rcases key _ _ h with h | h
  · exact h
  · simp at h

theorem get_refresh_nbrs (g : Graph) (u v : Nat) : (get (refresh nm g u) v).nbrs = (get g v).nbrs := by
  unfold refresh; rw [get_set]; split
  · next h => subst h; rfl
  · rfl

theorem dirInv_refresh {g : Graph} (h : Node.DirInv g) (u : Nat) : Node.DirInv (refresh nm g u) := by
  intro v r hr
  rw [get_refresh_nbrs]
  unfold refresh at hr
  rw [get_set] at hr
  split at hr
  · next hv => subst hv; exact refreshRoutes_dir nm g v hr
  · exact h v r hr

theorem update_preserves (P : Graph → Prop) (hP : ∀ g u, P g → P (refresh nm g u)) :
    ∀ (fuel : Nat) (g : Graph) (vis : List Nat) (u : Nat) (g' : Graph) (vis' : List Nat),
      P g → update nm fuel g vis u = some (g', vis') → P g' := by
  intro fuel
  induction fuel with
  | zero => intro g vis u g' vis' _ h; simp [update] at h
  | succ fuel ih =>
    intro g vis u g' vis' hg h
    unfold update at h
    simp only at h
    have key : ∀ (l : List Nat) (st : Option (Graph × List Nat)) (g' : Graph) (vis' : List Nat),
        (∀ g0 v0, st = some (g0, v0) → P g0) →
        l.foldl (fun st d =>
          match st with
          | none => none
          | some (g, visited) =>
            if visited.contains d then some (g, visited) else update nm fuel g visited d) st = some (g', vis') →
        P g' := by
      intro l
      induction l with
      | nil => intro st g' vis' hst h; exact hst _ _ h
      | cons d rest ihl =>
        intro st g' vis' hst h
        simp only [List.foldl_cons] at h
        refine ihl _ g' vis' ?_ h
        intro g0 v0 h0
        match st, hst with
        | none, _ => simp at h0
        | some (g1, v1), hst =>
          simp only at h0
          split at h0
          · cases h0; exact hst _ _ rfl
          · exact ih g1 v1 d g0 v0 (hst _ _ rfl) h0
    exact key _ _ g' vis' (by intro g0 v0 h0; cases h0; exact hP _ _ hg) h

theorem get_update_nbrs :
    ∀ (fuel : Nat) (g : Graph) (vis : List Nat) (u : Nat) (g' : Graph) (vis' : List Nat),
      update nm fuel g vis u = some (g', vis') → ∀ v, (get g' v).nbrs = (get g v).nbrs := by
  intro fuel g vis u g' vis' h v
  have := update_preserves nm (fun x => (get x v).nbrs = (get g v).nbrs)
    (by intro x w hx; show (get (refresh nm x w) v).nbrs = _; rw [get_refresh_nbrs]; exact hx) fuel g vis u g' vis' rfl h
  exact this

theorem mem_addNbr {ns : List Nat} {v x : Nat} : x ∈ addNbr ns v ↔ x ∈ ns ∨ x = v := by
  unfold addNbr
  split
  · next h =>
    have hv : v ∈ ns := by simpa using h
    constructor
    · intro hx; exact Or.inl hx
    · rintro (hx | hx)
      · exact hx
      · exact hx ▸ hv
  · simp

/-- `a + b` adds exactly the pair `a — b` to the neighbour sets, whatever the names -/
theorem link_nbrs {fuel : Nat} {g g' : Graph} {a b : Nat} (h : link nm fuel g a b = some g') (u v : Nat) :
    v ∈ (get g' u).nbrs ↔ v ∈ (get g u).nbrs ∨ (u = a ∧ v = b) ∨ (u = b ∧ v = a) := by
  unfold link at h
  simp only [Option.map_eq_some_iff] at h
  obtain ⟨⟨g1, vis⟩, hup, rfl⟩ := h
  rw [get_update_nbrs nm _ _ _ _ _ _ hup u]
  rw [get_set]
  by_cases hub : u = b
  · subst hub
    simp only [if_true]
    rw [mem_addNbr, get_set]
    by_cases hua : u = a
    · subst hua; simp only [if_true]; rw [mem_addNbr]; tauto
    · simp only [hua, if_false]; tauto
  · simp only [hub, if_false]
    rw [get_set]
    by_cases hua : u = a
    · subst hua; simp only [if_true]; rw [mem_addNbr]; tauto
    · simp only [hua, if_false]; tauto

theorem set_nbrs_routes (g : Graph) (a u : Nat) (ns : List Nat) :
    (get (set g a { get g a with nbrs := ns }) u).routes = (get g u).routes := by
  rw [get_set]; split
  · next h => subst h; rfl
  · rfl

theorem set_nbrs_nbrs (g : Graph) (a b u v : Nat) (h : v ∈ (get g u).nbrs) :
    v ∈ (get (set g a { get g a with nbrs := addNbr (get g a).nbrs b }) u).nbrs := by
  rw [get_set]; split
  · next h' => subst h'; exact mem_addNbr.mpr (Or.inl h)
  · exact h

theorem dirInv_link {fuel : Nat} {g g' : Graph} {a b : Nat} (hg : Node.DirInv g) (h : link nm fuel g a b = some g') :
    Node.DirInv g' := by
  unfold link at h
  simp only [Option.map_eq_some_iff] at h
  obtain ⟨⟨g1, vis⟩, hup, rfl⟩ := h
  refine update_preserves nm Node.DirInv (fun g u h => dirInv_refresh nm h u) _ _ _ _ _ _ ?_ hup
  intro u r hr
  rw [set_nbrs_routes, set_nbrs_routes] at hr
  exact set_nbrs_nbrs _ _ _ _ _ (set_nbrs_nbrs _ _ _ _ _ (hg u r hr))

theorem lookupRoute_some {rs : List Route} {t : Nat} {r : Route} (h : lookupRoute rs t = some r) :
    r ∈ rs ∧ r.target = t := by
  unfold lookupRoute at h
  exact ⟨List.mem_of_find?_eq_some h, by simpa using List.find?_some h⟩

/-- the `while` loop of `path`: whatever it returns is a chain of neighbour hops, its last node carries the goal
name, and no node before the last one does (after the start) -/
theorem walk_chain {g : Graph} (hg : Node.DirInv g) (goal : Nat) :
    ∀ (fuel cur : Nat) (acc p : List Nat),
      (cur :: acc).IsChain (fun a b => a ∈ (get g b).nbrs) →
      walk nm g goal fuel cur (cur :: acc) = .ok p →
      p.IsChain (fun a b => b ∈ (get g a).nbrs) ∧ (∃ t, p.getLast? = some t ∧ nm t = goal) ∧
        p.head? = (cur :: acc).getLast? := by
  intro fuel
  induction fuel with
  | zero => intro cur acc p _ h; simp [walk] at h
  | succ fuel ih =>
    intro cur acc p hc h
    unfold walk at h
    split at h
    · cases h
    · next r hr =>
      obtain ⟨hmem, _⟩ := lookupRoute_some hr
      have hdir := hg cur r hmem
      have hc' : (r.dir :: cur :: acc).IsChain (fun a b => a ∈ (get g b).nbrs) :=
        List.IsChain.cons_cons hdir hc
      split at h
      · next hgoal =>
        cases h
        refine ⟨List.isChain_reverse.mpr ?_, ⟨r.dir, ?_, hgoal⟩, ?_⟩
        · exact hc'
        · simp
        · simp [List.head?_reverse, List.getLast?_cons]
      · have := ih r.dir (cur :: acc) p hc' h
        refine ⟨this.1, this.2.1, ?_⟩
        rw [this.2.2]
        simp [List.getLast?_cons_cons]

/-- consecutive pairs of a chain satisfy the relation -/
theorem isChain_zip_tail {α : Type} {R : α → α → Prop} : ∀ {p : List α}, p.IsChain R →
    ∀ a b, (a, b) ∈ p.zip p.tail → R a b
  | [], _, a, b, h => by simp at h
  | [_], _, a, b, h => by simp at h
  | x :: y :: rest, hc, a, b, h => by
    have hc' := List.isChain_cons_cons.mp hc
    simp only [List.tail_cons, List.zip_cons_cons, List.mem_cons, Prod.mk.injEq] at h
    rcases h with ⟨rfl, rfl⟩ | h
    · exact hc'.1
    · exact isChain_zip_tail hc'.2 a b (by simpa using h)

/-! ### the method table -/

/-- some entry of `attrs` sits in holder `h` under key `(ka, kb)` -/
def HasKey (attrs : List Attr) (h : Holder) (ka kb : Nat) : Prop :=
  ∃ x ∈ attrs, x.holder = h ∧ x.ka = ka ∧ x.kb = kb

theorem findIn_isSome {attrs : List Attr} {h : Holder} {ka kb : Nat} :
    (findIn attrs h ka kb).isSome ↔ HasKey attrs h ka kb := by
  unfold findIn HasKey
  rw [List.find?_isSome]
  constructor
  · rintro ⟨x, hx, hp⟩; exact ⟨x, hx, by simpa using hp⟩
  · rintro ⟨x, hx, hp⟩; exact ⟨x, hx, by simpa using hp⟩

/-- a key held by a class of the MRO of the start object's class is found by `getattr` -/
theorem getattr_isSome_of_cls {w : World} {attrs : List Attr} {o c ka kb : Nat}
    (hc : c ∈ w.mro (w.cls o)) (hk : HasKey attrs (.cls c) ka kb) : (getattr w attrs o ka kb).isSome := by
  unfold getattr
  split
  · simp
  · rw [List.findSome?_isSome_iff]
    exact ⟨c, hc, findIn_isSome.mpr hk⟩

theorem findIn_cons_ne {attrs : List Attr} {x : Attr} {h : Holder} {ka kb : Nat}
    (hne : ¬ (x.ka = ka ∧ x.kb = kb)) : findIn (x :: attrs) h ka kb = findIn attrs h ka kb := by
  unfold findIn
  rw [List.find?_cons_of_neg]
  simp only [decide_eq_true_eq]
  tauto

theorem getattr_cons_ne {w : World} {attrs : List Attr} {x : Attr} {o ka kb : Nat}
    (hne : ¬ (x.ka = ka ∧ x.kb = kb)) : getattr w (x :: attrs) o ka kb = getattr w attrs o ka kb := by
  unfold getattr
  simp only [findIn_cons_ne hne]

end BeyondVerif.Reg
