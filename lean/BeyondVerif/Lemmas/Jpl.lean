import BeyondVerif.Model.JplR
import BeyondVerif.Props.C20
/-!
Lemmas about the model of SPK chaining (`Model/JplR.lean`): unit conversion is linear, every step of
`Center.convert_to` contributes the difference of two potentials, the loop telescopes.
-/
namespace BeyondVerif.JplLemmas
open BeyondVerif.Node BeyondVerif.R.Jpl BeyondVerif.NumReal

/-- raw jplephem units (km, km/day) to SI (m, m/s), component by component -/
noncomputable def si (v : V6) : V6 := fun i => if i.val < 3 then v i * 1000 else v i / 86400 * 1000

theorem vadd_eq (a b : V6) : vadd a b = a + b := rfl
theorem vneg_eq (a : V6) : vneg a = -a := rfl
theorem vzero_eq : vzero = 0 := rfl

theorem toSI_one (v : V6) : toSI 1 v = si v := by
  funext i; simp [toSI, si]

theorem toSI_neg_one (v : V6) : toSI (-1) v = si (-v) := by
  funext i; simp only [toSI, si, Pi.neg_apply]; split <;> ring

theorem si_add (u v : V6) : si (u + v) = si u + si v := by
  funext i; simp only [si, Pi.add_apply]; split <;> ring

theorem si_neg (u : V6) : si (-u) = -si u := by
  funext i; simp only [si, Pi.neg_apply]; split <;> ring

theorem si_sub (u v : V6) : si (u - v) = si u - si v := by
  funext i; simp only [si, Pi.sub_apply]; split <;> ring

theorem si_zero : si 0 = 0 := by
  funext i; simp [si]

/-- the segment values derive from one position per body: `seg c t` = target relative to centre -/
def Consistent (ps : Pairs) (seg : Nat → Nat → V6) (P : Nat → V6) : Prop :=
  ∀ c t, (c, t) ∈ ps → seg c t = P t - P c

/-- no body is the target of segments from two different centres -/
def UniqueCenter (ps : Pairs) : Prop :=
  ∀ c c' t, (c, t) ∈ ps → (c', t) ∈ ps → c = c'

/-- the link relation of the centre graph, in terms of the kernel pairs -/
def Linked (ps : Pairs) (a b : Nat) : Prop := (b, a) ∈ ps ∨ (a, b) ∈ ps

theorem propCenter_mem {ps : Pairs} {t c : Nat} (h : propCenter ps t = some c) : (c, t) ∈ ps := by
  unfold propCenter at h
  cases hf : ps.find? (fun p => p.2 = t) with
  | none => rw [hf] at h; cases h
  | some p =>
    rw [hf] at h
    simp only [Option.map_some, Option.some.injEq] at h
    have hm := List.mem_of_find?_eq_some hf
    have hp := List.find?_some hf
    simp only [decide_eq_true_eq] at hp
    rw [← h, ← hp]; exact hm

theorem propCenter_isSome {ps : Pairs} {t c : Nat} (h : (c, t) ∈ ps) : ∃ c', propCenter ps t = some c' := by
  unfold propCenter
  cases hf : ps.find? (fun p => p.2 = t) with
  | none =>
    rw [List.find?_eq_none] at hf
    have := hf (c, t) h
    simp at this
  | some p => exact ⟨p.1, rfl⟩

theorem propCenter_eq {ps : Pairs} (hu : UniqueCenter ps) {t c : Nat} (h : (c, t) ∈ ps) :
    propCenter ps t = some c := by
  obtain ⟨c', hc'⟩ := propCenter_isSome h
  rw [hc', hu c c' t h (propCenter_mem hc')]

theorem contains_iff {ps : Pairs} {x : Nat × Nat} : ps.contains x = true ↔ x ∈ ps := by
  simp

/-- `JplPropagator.propagate`: whichever way the segment is stored, the result is the body relative to
the centre of its frame, in SI units -/
theorem propagate_eq {ps : Pairs} {seg : Nat → Nat → V6} {P : Nat → V6} (hP : Consistent ps seg P)
    {t c : Nat} (h : (c, t) ∈ ps) : propagate ps seg t c = .ok (si (P t - P c)) := by
  unfold propagate
  by_cases h1 : (t, c) ∈ ps
  · rw [if_pos (contains_iff.mpr h1), toSI_neg_one, hP t c h1]; congr 2; abel
  · have h1' : ¬ (ps.contains (t, c) = true) := fun hh => h1 (contains_iff.mp hh)
    rw [if_neg h1', if_pos (contains_iff.mpr h), toSI_one, hP c t h]

theorem provide_eq {ps : Pairs} {seg : Nat → Nat → V6} {P : Nat → V6} (hP : Consistent ps seg P)
    (hu : UniqueCenter ps) {t c : Nat} (h : (c, t) ∈ ps) : provide ps seg t = .ok (si (P t - P c)) := by
  unfold provide
  rw [propCenter_eq hu h]
  exact propagate_eq hP h

/-- one step of `Center.convert_to` adds the position of `a` relative to `b` -/
theorem stepOffset_eq {ps : Pairs} {seg : Nat → Nat → V6} {P : Nat → V6} (hP : Consistent ps seg P)
    (hu : UniqueCenter ps) {a b : Nat} (h : Linked ps a b) :
    stepOffset ps seg a b = .ok (si (P a - P b)) := by
  unfold stepOffset
  by_cases h1 : (b, a) ∈ ps
  · rw [if_pos (contains_iff.mpr h1)]; exact provide_eq hP hu h1
  · have h1' : ¬ (ps.contains (b, a) = true) := fun hh => h1 (contains_iff.mp hh)
    have h2 : (a, b) ∈ ps := h.resolve_left h1
    rw [if_neg h1', if_pos (contains_iff.mpr h2), provide_eq hP hu h2]
    simp only [negRes, vneg_eq, ← si_neg]; congr 2; abel

/-- the loop of `Center.convert_to` telescopes along any chain of links -/
theorem sumSteps_eq {ps : Pairs} {seg : Nat → Nat → V6} {P : Nat → V6} (hP : Consistent ps seg P)
    (hu : UniqueCenter ps) :
    ∀ (rest : List Nat) (x : Nat) (acc : V6), (x :: rest).IsChain (Linked ps) →
      sumSteps ps seg acc (x :: rest) = .ok (acc + si (P x - P ((x :: rest).getLast (by simp)))) := by
  intro rest
  induction rest with
  | nil => intro x acc _; simp [sumSteps, si_zero]
  | cons y r ih =>
    intro x acc hc
    have hxy : Linked ps x y := by
      cases hc with | cons_cons h _ => exact h
    have hr : (y :: r).IsChain (Linked ps) := by
      cases hc with | cons_cons _ h => exact h
    unfold sumSteps
    rw [stepOffset_eq hP hu hxy]
    simp only
    rw [ih y _ hr, vadd_eq]
    congr 1
    rw [List.getLast_cons (by simp : y :: r ≠ []), add_assoc, ← si_add]
    congr 2; abel

theorem linked_linkHist (ps : Pairs) (u v : Nat) : C20.linked (linkHist ps) u v ↔ Linked ps u v := by
  unfold C20.linked linkHist Linked
  simp only [List.mem_map, Prod.mk.injEq, Prod.exists]
  constructor
  · rintro (⟨a, b, h, rfl, rfl⟩ | ⟨a, b, h, rfl, rfl⟩)
    · exact Or.inl h
    · exact Or.inr h
  · rintro (h | h)
    · exact Or.inl ⟨v, u, h, rfl, rfl⟩
    · exact Or.inr ⟨u, v, h, rfl, rfl⟩

/-- `Center.convert_to`: whenever the routing returns a path, the result is the position of `a` relative
to `b` -/
theorem centerTo_of_path {ps : Pairs} {seg : Nat → Nat → V6} {P : Nat → V6} (hP : Consistent ps seg P)
    (hu : UniqueCenter ps) {fuel : Nat} {g : Graph} (hb : build fuel (linkHist ps) = some g) {a b : Nat}
    {p : List Nat} (hp : path fuel g a b = .ok p) :
    centerTo fuel ps seg a b = .ok (si (P a - P b)) := by
  obtain ⟨hh, hl, hc⟩ := C20.path_valid_chain fuel fuel (linkHist ps) g hb a b p hp
  unfold centerTo
  rw [hb]; simp only; rw [hp]; simp only
  cases p with
  | nil => simp at hh
  | cons x rest =>
    simp only [List.head?_cons, Option.some.injEq] at hh
    subst hh
    have hc' : (x :: rest).IsChain (Linked ps) := List.IsChain.imp (fun u v h => (linked_linkHist ps u v).mp h) hc
    rw [sumSteps_eq hP hu rest x vzero hc', vzero_eq, zero_add]
    have : (x :: rest).getLast (by simp) = b := by
      have := List.getLast?_eq_some_getLast (l := x :: rest) (by simp)
      rw [hl] at this
      exact (Option.some.inj this).symm
    rw [this]

theorem centerTo_ok {ps : Pairs} {seg : Nat → Nat → V6} {P : Nat → V6} (hP : Consistent ps seg P)
    (hu : UniqueCenter ps) {fuel : Nat} {a b : Nat} {v : V6} (h : centerTo fuel ps seg a b = .ok v) :
    v = si (P a - P b) := by
  unfold centerTo at h
  cases hb : build fuel (linkHist ps) with
  | none => rw [hb] at h; cases h
  | some g =>
    cases hp : path fuel g a b with
    | ok p =>
      have := centerTo_of_path hP hu hb hp
      unfold centerTo at this
      rw [this] at h
      exact (Res.ok.inj h).symm
    | unknown => rw [hb] at h; simp only [hp] at h; cases h
    | keyError => rw [hb] at h; simp only [hp] at h; cases h
    | loop => rw [hb] at h; simp only [hp] at h; cases h

end BeyondVerif.JplLemmas
