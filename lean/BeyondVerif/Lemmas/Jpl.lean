import BeyondVerif.Model.JplR
import BeyondVerif.Props.C20
/-!
Lemmas about the model of SPK chaining (`Model/JplR.lean`): unit conversion is linear, every step of
`Center.convert_to` contributes the difference of two potentials, the loop telescopes.
-/
namespace BeyondVerif.JplLemmas
open BeyondVerif.Node BeyondVerif.R.Jpl BeyondVerif.NumReal

/-- raw jplephem units (km, km/day) to SI (m, m/s), component by component -/
noncomputable def si (v : V6) : V6 := fun i => if i.val < 3 then v i * 1000 else v i / 86400 * 1000

theorem vadd_eq (a b : V6) : vadd a b = a + b := rfl
theorem vneg_eq (a : V6) : vneg a = -a := rfl
theorem vzero_eq : vzero = 0 := rfl

theorem toSI_one (v : V6) : toSI 1 v = si v := by
  funext i; simp [toSI, si]

theorem toSI_neg_one (v : V6) : toSI (-1) v = si (-v) := by
  funext i; simp only [toSI, si, Pi.neg_apply]; split <;> ring

theorem si_add (u v : V6) : si (u + v) = si u + si v := by
  funext i; simp only [si, Pi.add_apply]; split <;> ring

theorem si_neg (u : V6) : si (-u) = -si u := by
  funext i; simp only [si, Pi.neg_apply]; split <;> ring

theorem si_sub (u v : V6) : si (u - v) = si u - si v := by
  funext i; simp only [si, Pi.sub_apply]; split <;> ring

theorem si_zero : si 0 = 0 := by
  funext i; simp [si]

/-- the segment values derive from one position per body: `seg c t` = target relative to centre -/
def Consistent (ps : Pairs) (seg : Nat → Nat → V6) (P : Nat → V6) : Prop :=
  ∀ c t, (c, t) ∈ ps → seg c t = P t - P c

/-- no body is the target of segments from two different centres -/
def UniqueCenter (ps : Pairs) : Prop :=
  ∀ c c' t, (c, t) ∈ ps → (c', t) ∈ ps → c = c'

/-- the link relation of the centre graph, in terms of the kernel pairs -/
def Linked (ps : Pairs) (a b : Nat) : Prop := (b, a) ∈ ps ∨ (a, b) ∈ ps

theorem propCenter_mem {ps : Pairs} {t c : Nat} (h : propCenter ps t = some c) : (c, t) ∈ ps := by
  unfold propCenter at h
  cases hf : ps.find? (fun p => p.2 = t) with
  | none => rw [hf] at h; cases h
  | some p =>
    rw [hf] at h
    simp only [Option.map_some, Option.some.injEq] at h
    have hm := List.mem_of_find?_eq_some hf
    have hp := List.find?_some hf
    simp only [decide_eq_true_eq] at hp
    rw [← h, ← hp]; exact hm

theorem propCenter_isSome {ps : Pairs} {t c : Nat} (h : (c, t) ∈ ps) : ∃ c', propCenter ps t = some c' := by
  unfold propCenter
  cases hf : ps.find? (fun p => p.2 = t) with
  | none =>
    rw [List.find?_eq_none] at hf
    have := hf (c, t) h
    simp at this
  | some p => exact ⟨p.1, rfl⟩

theorem propCenter_eq {ps : Pairs} (hu : UniqueCenter ps) {t c : Nat} (h : (c, t) ∈ ps) :
    propCenter ps t = some c := by
  obtain ⟨c', hc'⟩ := propCenter_isSome h
  rw [hc', hu c c' t h (propCenter_mem hc')]

theorem contains_iff {ps : Pairs} {x : Nat × Nat} : ps.contains x = true ↔ x ∈ ps := by
  simp

/-- `JplPropagator.propagate`: whichever way the segment is stored, the result is the body relative to
the centre of its frame, in SI units -/
theorem propagate_eq {ps : Pairs} {seg : Nat → Nat → V6} {P : Nat → V6} (hP : Consistent ps seg P)
    {t c : Nat} (h : (c, t) ∈ ps) : propagate ps seg t c = .ok (si (P t - P c)) := by
  unfold propagate
  by_cases h1 : (t, c) ∈ ps
  · rw [if_pos (contains_iff.mpr h1), toSI_neg_one, hP t c h1]; congr 2; abel
  · have h1' : ¬ (ps.contains (t, c) = true) := fun hh => h1 (contains_iff.mp hh)
    rw [if_neg h1', if_pos (contains_iff.mpr h), toSI_one, hP c t h]

theorem provide_eq {ps : Pairs} {seg : Nat → Nat → V6} {P : Nat → V6} (hP : Consistent ps seg P)
    (hu : UniqueCenter ps) {t c : Nat} (h : (c, t) ∈ ps) : provide ps seg t = .ok (si (P t - P c)) := by
  unfold provide
  rw [propCenter_eq hu h]
  exact propagate_eq hP h

/-- one step of `Center.convert_to` adds the position of `a` relative to `b` -/
theorem stepOffset_eq {ps : Pairs} {seg : Nat → Nat → V6} {P : Nat → V6} (hP : Consistent ps seg P)
    (hu : UniqueCenter ps) {a b : Nat} (h : Linked ps a b) :
    stepOffset ps seg a b = .ok (si (P a - P b)) := by
  unfold stepOffset
  by_cases h1 : (b, a) ∈ ps
  · rw [if_pos (contains_iff.mpr h1)]; exact provide_eq hP hu h1
  · have h1' : ¬ (ps.contains (b, a) = true) := fun hh => h1 (contains_iff.mp hh)
    have h2 : (a, b) ∈ ps := h.resolve_left h1
    rw [if_neg h1', if_pos (contains_iff.mpr h2), provide_eq hP hu h2]
    simp only [negRes, vneg_eq, ← si_neg]; congr 2; abel

/-- the loop of `Center.convert_to` telescopes along any chain of links -/
theorem sumSteps_eq {ps : Pairs} {seg : Nat → Nat → V6} {P : Nat → V6} (hP : Consistent ps seg P)
    (hu : UniqueCenter ps) :
    ∀ (rest : List Nat) (x : Nat) (acc : V6), (x :: rest).IsChain (Linked ps) →
      sumSteps ps seg acc (x :: rest) = .ok (acc + si (P x - P ((x :: rest).getLast (by simp)))) := by
  intro rest
  induction rest with
  | nil => intro x acc _; simp [sumSteps, si_zero]
  | cons y r ih =>
    intro x acc hc
    have hxy : Linked ps x y := by
      cases hc with | cons_cons h _ => exact h
    have hr : (y :: r).IsChain (Linked ps) := by
      cases hc with | cons_cons _ h => exact h
    unfold sumSteps
    rw [stepOffset_eq hP hu hxy]
    simp only
    rw [ih y _ hr, vadd_eq]
    congr 1
    rw [List.getLast_cons (by simp : y :: r ≠ []), add_assoc, ← si_add]
    congr 2; abel

theorem linked_linkHist (ps : Pairs) (u v : Nat) : C20.linked (linkHist ps) u v ↔ Linked ps u v := by
  unfold C20.linked linkHist Linked
  simp only [List.mem_map, Prod.mk.injEq, Prod.exists]
  constructor
  · rintro (⟨a, b, h, rfl, rfl⟩ | ⟨a, b, h, rfl, rfl⟩)
    · exact Or.inl h
    · exact Or.inr h
  · rintro (h | h)
    · exact Or.inl ⟨v, u, h, rfl, rfl⟩
    · exact Or.inr ⟨u, v, h, rfl, rfl⟩

/-- `Center.convert_to`: whenever the routing returns a path, the result is the position of `a` relative
to `b` -/
theorem centerTo_of_path {ps : Pairs} {seg : Nat → Nat → V6} {P : Nat → V6} (hP : Consistent ps seg P)
    (hu : UniqueCenter ps) {fuel : Nat} {g : Graph} (hb : build fuel (linkHist ps) = some g) {a b : Nat}
    {p : List Nat} (hp : path fuel g a b = .ok p) :
    centerTo fuel ps seg a b = .ok (si (P a - P b)) := by
  obtain ⟨hh, hl, hc⟩ := C20.path_valid_chain fuel fuel (linkHist ps) g hb a b p hp
  unfold centerTo
  rw [hb]; simp only; rw [hp]; simp only
  cases p with
  | nil => simp at hh
  | cons x rest =>
    simp only [List.head?_cons, Option.some.injEq] at hh
    subst hh
    have hc' : (x :: rest).IsChain (Linked ps) := List.IsChain.imp (fun u v h => (linked_linkHist ps u v).mp h) hc
    rw [sumSteps_eq hP hu rest x vzero hc', vzero_eq, zero_add]
    have : (x :: rest).getLast (by simp) = b := by
      have := List.getLast?_eq_some_getLast (l := x :: rest) (by simp)
      rw [hl] at this
      exact (Option.some.inj this).symm
    rw [this]

theorem centerTo_ok {ps : Pairs} {seg : Nat → Nat → V6} {P : Nat → V6} (hP : Consistent ps seg P)
    (hu : UniqueCenter ps) {fuel : Nat} {a b : Nat} {v : V6} (h : centerTo fuel ps seg a b = .ok v) :
    v = si (P a - P b) := by
  unfold centerTo at h
  cases hb : build fuel (linkHist ps) with
  | none => rw [hb] at h; cases h
  | some g =>
    cases hp : path fuel g a b with
    | ok p =>
      have := centerTo_of_path hP hu hb hp
      unfold centerTo at this
      rw [this] at h
      exact (Res.ok.inj h).symm
    | unknown => rw [hb] at h; simp only [hp] at h; cases h
    | keyError => rw [hb] at h; simp only [hp] at h; cases h
    | loop => rw [hb] at h; simp only [hp] at h; cases h

/-! ## Frames attached to orbits (`orbit2frame`) -/

/-- `JplPropagator(obj, frame of cen).propagate` answers only for two bodies that a segment joins -/
theorem propagate_ok_linked {ps : Pairs} {seg : Nat → Nat → V6} {o c : Nat} {v : V6}
    (h : propagate ps seg o c = .ok v) : Linked ps o c := by
  unfold propagate at h
  by_cases h1 : ps.contains (o, c) = true
  · exact Or.inr (contains_iff.mp h1)
  · rw [if_neg h1] at h
    by_cases h2 : ps.contains (c, o) = true
    · exact Or.inl (contains_iff.mp h2)
    · rw [if_neg h2] at h; cases h

/-- **Either direction of a segment, position and velocity**: a propagator built for the two ends of a segment
returns the first body relative to the second one in SI units, whichever way round the file stores the segment -/
theorem propagate_linked {ps : Pairs} {seg : Nat → Nat → V6} {P : Nat → V6} (hP : Consistent ps seg P)
    {o c : Nat} (h : Linked ps o c) : propagate ps seg o c = .ok (si (P o - P c)) := by
  unfold propagate
  by_cases h1 : (o, c) ∈ ps
  · rw [if_pos (contains_iff.mpr h1), toSI_neg_one, hP o c h1]; congr 2; abel
  · have h1' : ¬ (ps.contains (o, c) = true) := fun hh => h1 (contains_iff.mp hh)
    have h2 : (c, o) ∈ ps := h.resolve_right h1
    rw [if_neg h1', if_pos (contains_iff.mpr h2), toSI_one, hP c o h2]

/-- link relation of the centre graph once frames have been attached to orbits -/
def LinkedA (ps : Pairs) (att : List Att) (a b : Nat) : Prop :=
  Linked ps a b ∨ (∃ t ∈ att, t.x = a ∧ t.link = b) ∨ (∃ t ∈ att, t.x = b ∧ t.link = a)

/-- the position given to the centre of a frame made from an orbit is the position of the orbit's body (a convention
for the names of the new centres, not a restriction: see `C18.attach_potential`) -/
def AttPos (att : List Att) (P : Nat → V6) : Prop := ∀ t ∈ att, P t.x = P t.obj

theorem attFind_some {att : List Att} {u v : Nat} {t : Att} (h : attFind att u v = some t) :
    t ∈ att ∧ t.x = u ∧ t.link = v := by
  unfold attFind at h
  have hm := List.mem_of_find?_eq_some h
  have hp := List.find?_some h
  simp only [Bool.and_eq_true, beq_iff_eq] at hp
  exact ⟨hm, hp.1, hp.2⟩

theorem attFind_none {att : List Att} {u v : Nat} (h : attFind att u v = none) :
    ¬ ∃ t ∈ att, t.x = u ∧ t.link = v := by
  unfold attFind at h
  rw [List.find?_eq_none] at h
  rintro ⟨t, ht, h1, h2⟩
  have := h t ht
  simp [h1, h2] at this

/-- a step function is right wherever it answers -/
def StepOK (ps : Pairs) (att : List Att) (P : Nat → V6) (stepf : Nat → Nat → Res) : Prop :=
  ∀ a b v, LinkedA ps att a b → stepf a b = .ok v → v = si (P a - P b)

theorem sumWith_ok {ps : Pairs} {att : List Att} {P : Nat → V6} {stepf : Nat → Nat → Res}
    (hs : StepOK ps att P stepf) :
    ∀ (rest : List Nat) (x : Nat) (acc v : V6), (x :: rest).IsChain (LinkedA ps att) →
      sumWith stepf acc (x :: rest) = .ok v → v = acc + si (P x - P ((x :: rest).getLast (by simp))) := by
  intro rest
  induction rest with
  | nil => intro x acc v _ h; simp only [sumWith] at h; cases h; simp [si_zero]
  | cons y r ih =>
    intro x acc v hc h
    have hxy : LinkedA ps att x y := by
      cases hc with | cons_cons h _ => exact h
    have hr : (y :: r).IsChain (LinkedA ps att) := by
      cases hc with | cons_cons _ h => exact h
    unfold sumWith at h
    cases hst : stepf x y with
    | ok o =>
      rw [hst] at h
      simp only at h
      rw [ih y _ _ hr h, hs x y o hxy hst, vadd_eq]
      rw [List.getLast_cons (by simp : y :: r ≠ []), add_assoc, ← si_add]
      congr 2; abel
    | unknownBody => rw [hst] at h; cases h
    | unknownFrame => rw [hst] at h; cases h
    | noRoute => rw [hst] at h; cases h
    | keyError => rw [hst] at h; cases h
    | noProvider => rw [hst] at h; cases h
    | fuel => rw [hst] at h; cases h

theorem linked_linkHistA (ps : Pairs) (att : List Att) (u v : Nat) :
    C20.linked (linkHistA ps att) u v ↔ LinkedA ps att u v := by
  unfold C20.linked linkHistA LinkedA
  simp only [List.mem_append, List.mem_map, Prod.mk.injEq]
  have hl := linked_linkHist ps u v
  unfold C20.linked at hl
  constructor
  · rintro ((h | ⟨t, ht, h1, h2⟩) | (h | ⟨t, ht, h1, h2⟩))
    · exact Or.inl (hl.mp (Or.inl h))
    · exact Or.inr (Or.inl ⟨t, ht, h1, h2⟩)
    · exact Or.inl (hl.mp (Or.inr h))
    · exact Or.inr (Or.inr ⟨t, ht, h1, h2⟩)
  · rintro (h | ⟨t, ht, h1, h2⟩ | ⟨t, ht, h1, h2⟩)
    · rcases hl.mpr h with h | h
      · exact Or.inl (Or.inl h)
      · exact Or.inr (Or.inl h)
    · exact Or.inl (Or.inr ⟨t, ht, h1, h2⟩)
    · exact Or.inr (Or.inr ⟨t, ht, h1, h2⟩)

/-- `Center.convert_to` over kernel links and attached centres with a step function that is right wherever it
answers: whenever a vector is returned it is the position of `a` relative to `b` -/
theorem centerWith_ok {ps : Pairs} {att : List Att} {P : Nat → V6} {stepf : Nat → Nat → Res}
    (hs : StepOK ps att P stepf) {fuel : Nat} {a b : Nat} {v : V6}
    (h : centerWith fuel ps att stepf a b = .ok v) : v = si (P a - P b) := by
  unfold centerWith at h
  cases hb : build fuel (linkHistA ps att) with
  | none => rw [hb] at h; cases h
  | some g =>
    rw [hb] at h
    simp only at h
    cases hp : path fuel g a b with
    | ok p =>
      rw [hp] at h
      simp only at h
      obtain ⟨hh, hl, hc⟩ := C20.path_valid_chain fuel fuel (linkHistA ps att) g hb a b p hp
      cases p with
      | nil => simp at hh
      | cons x rest =>
        simp only [List.head?_cons, Option.some.injEq] at hh
        subst hh
        have hc' : (x :: rest).IsChain (LinkedA ps att) :=
          List.IsChain.imp (fun u v h => (linked_linkHistA ps att u v).mp h) hc
        have hv := sumWith_ok hs rest x vzero v hc' h
        rw [vzero_eq, zero_add] at hv
        have : (x :: rest).getLast (by simp) = b := by
          have := List.getLast?_eq_some_getLast (l := x :: rest) (by simp)
          rw [hl] at this
          exact (Option.some.inj this).symm
        rw [this] at hv
        exact hv
    | unknown => rw [hp] at h; cases h
    | keyError => rw [hp] at h; cases h
    | loop => rw [hp] at h; cases h

/-- the offset of an attached centre: the body of the orbit relative to the centre of the link — the propagated state is
expressed in the frame of the link (commit 261fb0a) -/
theorem attOffset_ok {ps : Pairs} {seg : Nat → Nat → V6} {P : Nat → V6} (hP : Consistent ps seg P)
    {convert : Nat → Nat → Res} (hconv : ∀ a b v, convert a b = .ok v → v = si (P a - P b)) {t : Att} {v : V6}
    (h : attOffset ps seg convert t = .ok v) : v = si (P t.obj - P t.link) := by
  unfold attOffset at h
  cases hp : propagate ps seg t.obj t.cen with
  | ok u =>
    rw [hp] at h
    simp only at h
    have hu : u = si (P t.obj - P t.cen) := by
      have := propagate_linked hP (propagate_ok_linked hp)
      rw [this] at hp
      exact (Res.ok.inj hp).symm
    by_cases hcl : t.cen = t.link
    · rw [if_pos hcl] at h
      rw [← Res.ok.inj h, hu, hcl]
    · rw [if_neg hcl] at h
      cases hc : convert t.cen t.link with
      | ok off =>
        rw [hc] at h
        simp only at h
        rw [← Res.ok.inj h, hu, hconv _ _ _ hc, vadd_eq, ← si_add]
        congr 1; abel
      | unknownBody => rw [hc] at h; cases h
      | unknownFrame => rw [hc] at h; cases h
      | noRoute => rw [hc] at h; cases h
      | keyError => rw [hc] at h; cases h
      | noProvider => rw [hc] at h; cases h
      | fuel => rw [hc] at h; cases h
  | unknownBody => rw [hp] at h; cases h
  | unknownFrame => rw [hp] at h; cases h
  | noRoute => rw [hp] at h; cases h
  | keyError => rw [hp] at h; cases h
  | noProvider => rw [hp] at h; cases h
  | fuel => rw [hp] at h; cases h

theorem negRes_ok {r : Res} {v : V6} (h : negRes r = .ok v) : ∃ u, r = .ok u ∧ v = -u := by
  cases r with
  | ok u => exact ⟨u, rfl, by simp only [negRes, vneg_eq] at h; exact (Res.ok.inj h).symm⟩
  | unknownBody => cases h
  | unknownFrame => cases h
  | noRoute => cases h
  | keyError => cases h
  | noProvider => cases h
  | fuel => cases h

/-- one step of `Center.convert_to`, attached centres included and to any nesting depth: wherever it answers, it adds
the position of `a` relative to `b` -/
theorem stepOffsetD_ok {ps : Pairs} {att : List Att} {seg : Nat → Nat → V6} {P : Nat → V6}
    (hP : Consistent ps seg P) (hu : UniqueCenter ps) (hA : AttPos att P) (fuel : Nat) :
    ∀ d, StepOK ps att P (stepOffsetD fuel ps att seg d) := by
  intro d
  induction d with
  | zero => intro a b v _ h; simp [stepOffsetD] at h
  | succ d ih =>
    intro a b v hl h
    have hconv : ∀ a b v, centerWith fuel ps att (stepOffsetD fuel ps att seg d) a b = .ok v → v = si (P a - P b) :=
      fun a b v h => centerWith_ok ih h
    unfold stepOffsetD at h
    by_cases h1 : (b, a) ∈ ps
    · rw [if_pos (contains_iff.mpr h1), provide_eq hP hu h1] at h
      exact (Res.ok.inj h).symm
    · have h1' : ¬ (ps.contains (b, a) = true) := fun hh => h1 (contains_iff.mp hh)
      rw [if_neg h1'] at h
      cases hf : attFind att a b with
      | some t =>
        obtain ⟨ht, hx, hlk⟩ := attFind_some hf
        rw [hf] at h
        simp only at h
        rw [attOffset_ok hP hconv h, ← hA t ht, hx, hlk]
      | none =>
        rw [hf] at h
        simp only at h
        by_cases h2 : (a, b) ∈ ps
        · rw [if_pos (contains_iff.mpr h2), provide_eq hP hu h2] at h
          simp only [negRes, vneg_eq] at h
          rw [← Res.ok.inj h, ← si_neg]; congr 1; abel
        · have h2' : ¬ (ps.contains (a, b) = true) := fun hh => h2 (contains_iff.mp hh)
          rw [if_neg h2'] at h
          cases hg : attFind att b a with
          | some t =>
            obtain ⟨ht, hx, hlk⟩ := attFind_some hg
            rw [hg] at h
            simp only at h
            obtain ⟨u, hu', hv⟩ := negRes_ok h
            rw [hv, attOffset_ok hP hconv hu', ← hA t ht, hx, hlk, ← si_neg]; congr 1; abel
          | none =>
            exfalso
            rcases hl with hl | hl | hl
            · rcases hl with hl | hl
              · exact h1 hl
              · exact h2 hl
            · exact attFind_none hf hl
            · exact attFind_none hg hl

/-- `Center.convert_to` with attached frames: whenever a vector is returned it is the position of `a` relative to `b` -/
theorem centerToA_ok {ps : Pairs} {att : List Att} {seg : Nat → Nat → V6} {P : Nat → V6}
    (hP : Consistent ps seg P) (hu : UniqueCenter ps) (hA : AttPos att P) {fuel : Nat} {a b : Nat} {v : V6}
    (h : centerToA fuel ps att seg a b = .ok v) : v = si (P a - P b) :=
  centerWith_ok (stepOffsetD_ok hP hu hA fuel _) h

/-- `Frame.transform` between any two frames, kernel bodies or attached ones -/
theorem reframeA_ok {ps : Pairs} {att : List Att} {seg : Nat → Nat → V6} {P : Nat → V6}
    (hP : Consistent ps seg P) (hu : UniqueCenter ps) (hA : AttPos att P) {fuel : Nat} {a b : Nat} {x v : V6}
    (h : reframeA fuel ps att seg a b x = .ok v) : v = x + si (P a - P b) := by
  unfold reframeA at h
  split at h
  · cases h
  · split at h
    · next hab => subst hab; cases h; simp [si_zero]
    · cases hc : centerToA fuel ps att seg a b with
      | ok off =>
        rw [hc] at h; cases h
        rw [centerToA_ok hP hu hA hc, vadd_eq]
      | unknownBody => rw [hc] at h; cases h
      | unknownFrame => rw [hc] at h; cases h
      | noRoute => rw [hc] at h; cases h
      | keyError => rw [hc] at h; cases h
      | noProvider => rw [hc] at h; cases h
      | fuel => rw [hc] at h; cases h

end BeyondVerif.JplLemmas
