import BeyondVerif.Model.Chain
import Mathlib.Logic.Basic
import Mathlib.Data.List.Chain

/-!
Path independence of `Chain.chain` (the loop of `Orientation.convert_to`) for an arbitrary carrier with an
associative product: along link histories in which every link brings in a new node (forests grown leaf by leaf —
what `+` between orientations builds), every node gets a *potential* `φ n` (with inverse `ψ n`) such that the
element used for a step `a → b` is `ψ b * φ a`.  The product along any walk from `A` to `B` then telescopes to
`ψ B * φ A`, whatever the walk.
-/
namespace BeyondVerif.Chain

variable {α : Type}

/-- the algebra needed: an associative product with unit; `inv` is only required to invert the edge elements -/
structure Alg (α : Type) where
  mul : α → α → α
  one : α
  inv : α → α
  assoc : ∀ a b c, mul (mul a b) c = mul a (mul b c)
  one_mul : ∀ a, mul one a = a
  mul_one : ∀ a, mul a one = a

/-- every provided edge element is inverted by `inv`, and a link is provided in one direction only -/
structure EdgesOK (A : Alg α) (edge : Nat → Nat → Option α) : Prop where
  inv_mul : ∀ a b M, edge a b = some M → A.mul (A.inv M) M = A.one
  mul_inv : ∀ a b M, edge a b = some M → A.mul M (A.inv M) = A.one
  oneDir : ∀ a b M, edge a b = some M → edge b a = none

def occurs (n : Nat) (links : List (Nat × Nat)) : Bool := links.any (fun l => l.1 == n || l.2 == n)

/-- newest link first: each link has an endpoint that no earlier link mentions (and is not a loop) -/
def leafGrown : List (Nat × Nat) → Bool
  | [] => true
  | (a, b) :: rest => leafGrown rest && (a != b) && (!occurs b rest || !occurs a rest)

/-- `φ, ψ` is a potential for the links: mutually inverse at every node, and every step element along a link,
in either direction, is `ψ (target) * φ (source)` -/
def IsPot (A : Alg α) (edge : Nat → Nat → Option α) (links : List (Nat × Nat)) (φ ψ : Nat → α) : Prop :=
  (∀ n, A.mul (ψ n) (φ n) = A.one ∧ A.mul (φ n) (ψ n) = A.one) ∧
  ∀ a b, ((a, b) ∈ links ∨ (b, a) ∈ links) → ∀ M, stepElem A.inv edge a b = some M → M = A.mul (ψ b) (φ a)

theorem not_occurs {n : Nat} {links : List (Nat × Nat)} (h : occurs n links = false) {a b : Nat}
    (hm : (a, b) ∈ links) : a ≠ n ∧ b ≠ n := by
  unfold occurs at h
  rw [List.any_eq_false] at h
  have := h (a, b) hm
  simp at this
  exact this

/-- attaching a new node `n` to any node `p` (in either orientation of the provider) extends a potential -/
theorem pot_extend (A : Alg α) (edge : Nat → Nat → Option α) (hE : EdgesOK A edge) (links : List (Nat × Nat))
    (φ ψ : Nat → α) (h : IsPot A edge links φ ψ) (n p : Nat) (hnp : n ≠ p) (hn : occurs n links = false) :
    ∃ φ' ψ', IsPot A edge ((n, p) :: links) φ' ψ' ∧ IsPot A edge ((p, n) :: links) φ' ψ' := by
  obtain ⟨hinv, hedge⟩ := h
  -- the step element p → n, if any
  have key : ∃ x y : α, (A.mul y x = A.one ∧ A.mul x y = A.one) ∧
      (∀ M, stepElem A.inv edge p n = some M → M = A.mul y (φ p)) ∧
      (∀ M, stepElem A.inv edge n p = some M → M = A.mul (ψ p) x) := by
    cases hpn : edge p n with
    | some M =>
      have hnp' : edge n p = none := hE.oneDir p n M hpn
      refine ⟨A.mul (φ p) (A.inv M), A.mul M (ψ p), ⟨?_, ?_⟩, ?_, ?_⟩
      · rw [A.assoc, ← A.assoc (ψ p), (hinv p).1, A.one_mul, hE.mul_inv p n M hpn]
      · rw [A.assoc, ← A.assoc (A.inv M), hE.inv_mul p n M hpn, A.one_mul, (hinv p).2]
      · intro M' hM'
        simp only [stepElem, hpn, Option.some.injEq, Generated.Glue.orientDirect, Generated.Glue.orientReverse] at hM'
        rw [← hM', A.assoc, (hinv p).1, A.mul_one]
      · intro M' hM'
        simp only [stepElem, hnp', hpn, Option.some.injEq, Generated.Glue.orientDirect, Generated.Glue.orientReverse] at hM'
        rw [← hM', ← A.assoc, (hinv p).1, A.one_mul]
    | none =>
      cases hnp' : edge n p with
      | some M =>
        refine ⟨A.mul (φ p) M, A.mul (A.inv M) (ψ p), ⟨?_, ?_⟩, ?_, ?_⟩
        · rw [A.assoc, ← A.assoc (ψ p), (hinv p).1, A.one_mul, hE.inv_mul n p M hnp']
        · rw [A.assoc, ← A.assoc M, hE.mul_inv n p M hnp', A.one_mul, (hinv p).2]
        · intro M' hM'
          simp only [stepElem, hpn, hnp', Option.some.injEq, Generated.Glue.orientDirect, Generated.Glue.orientReverse] at hM'
          rw [← hM', A.assoc, (hinv p).1, A.mul_one]
        · intro M' hM'
          simp only [stepElem, hnp', Option.some.injEq, Generated.Glue.orientDirect, Generated.Glue.orientReverse] at hM'
          rw [← hM', ← A.assoc, (hinv p).1, A.one_mul]
      | none =>
        refine ⟨A.one, A.one, ⟨A.one_mul _, A.one_mul _⟩, ?_, ?_⟩
        · intro M' hM'; simp [stepElem, hpn, hnp'] at hM'
        · intro M' hM'; simp [stepElem, hpn, hnp'] at hM'
  obtain ⟨x, y, hxy, hpn, hnp'⟩ := key
  refine ⟨fun k => if k = n then x else φ k, fun k => if k = n then y else ψ k, ?_, ?_⟩ <;>
  · refine ⟨?_, ?_⟩
    · intro k
      by_cases hk : k = n
      · simp only [hk, if_true]; exact hxy
      · simp only [hk, if_false]; exact hinv k
    · intro a b hab M hM
      have old : ((a, b) ∈ links ∨ (b, a) ∈ links) → M = A.mul (if b = n then y else ψ b) (if a = n then x else φ a) := by
        intro hl
        have : a ≠ n ∧ b ≠ n := by
          rcases hl with hl | hl
          · exact not_occurs hn hl
          · exact (not_occurs hn hl).symm
        simp only [this.1, this.2, if_false]
        exact hedge a b hl M hM
      have new1 : a = n → b = p → M = A.mul (if b = n then y else ψ b) (if a = n then x else φ a) := by
        intro ha hb
        subst ha hb
        simp only [if_true, Ne.symm hnp, if_false]
        exact hnp' M hM
      have new2 : a = p → b = n → M = A.mul (if b = n then y else ψ b) (if a = n then x else φ a) := by
        intro ha hb
        subst ha hb
        simp only [if_true, Ne.symm hnp, if_false]
        exact hpn M hM
      simp only [List.mem_cons, Prod.mk.injEq] at hab
      rcases hab with (⟨ha, hb⟩ | hl) | (⟨hb, ha⟩ | hl)
      all_goals first | exact new1 ha hb | exact new2 ha hb | exact old (Or.inl hl) | exact old (Or.inr hl)

/-- **every leaf-grown history of links has a potential** (induction over the history) -/
theorem potential_exists (A : Alg α) (edge : Nat → Nat → Option α) (hE : EdgesOK A edge) :
    ∀ links : List (Nat × Nat), leafGrown links = true → ∃ φ ψ, IsPot A edge links φ ψ
  | [], _ => ⟨fun _ => A.one, fun _ => A.one, fun _ => ⟨A.one_mul _, A.one_mul _⟩, by intro a b h; simp at h⟩
  | (a, b) :: rest, h => by
    simp only [leafGrown, Bool.and_eq_true, Bool.or_eq_true, Bool.not_eq_true', bne_iff_ne, ne_eq] at h
    obtain ⟨⟨hr, hab⟩, hfresh⟩ := h
    obtain ⟨φ, ψ, hp⟩ := potential_exists A edge hE rest hr
    rcases hfresh with hb | ha
    · obtain ⟨φ', ψ', _, h2⟩ := pot_extend A edge hE rest φ ψ hp b a (Ne.symm hab) hb
      exact ⟨φ', ψ', h2⟩
    · obtain ⟨φ', ψ', h1, _⟩ := pot_extend A edge hE rest φ ψ hp a b hab ha
      exact ⟨φ', ψ', h1⟩

/-- `p` is a walk along the links -/
def IsWalk (links : List (Nat × Nat)) (p : List Nat) : Prop :=
  p.IsChain (fun u v => (u, v) ∈ links ∨ (v, u) ∈ links)

/-- **telescoping**: along any walk `s :: p` the loop of `convert_to` yields `ψ(last) * φ(s) * m` -/
theorem chain_walk (A : Alg α) (edge : Nat → Nat → Option α) (links : List (Nat × Nat)) (φ ψ : Nat → α)
    (hp : IsPot A edge links φ ψ) :
    ∀ (p : List Nat) (s : Nat) (m r : α), IsWalk links (s :: p) →
      chain A.mul A.inv edge ((s :: p).zip p) m = some r →
      r = A.mul (A.mul (ψ ((s :: p).getLast (List.cons_ne_nil _ _))) (φ s)) m
  | [], s, m, r, _, h => by
    simp only [List.zip_nil_right, chain, Option.some.injEq] at h
    simp only [List.getLast_singleton]
    rw [(hp.1 s).1, A.one_mul, h]
  | t :: p, s, m, r, hw, h => by
    simp only [List.zip_cons_cons, chain, Generated.Glue.orientUpdate] at h
    have hw' : IsWalk links (t :: p) := by
      unfold IsWalk at hw ⊢
      exact (List.isChain_cons_cons.mp hw).2
    have hst : (s, t) ∈ links ∨ (t, s) ∈ links := (List.isChain_cons_cons.mp hw).1
    cases hM : stepElem A.inv edge s t with
    | none => simp [hM] at h
    | some M =>
      simp only [hM] at h
      have hMe := hp.2 s t hst M hM
      have ih := chain_walk A edge links φ ψ hp p t (A.mul M m) r hw' h
      rw [ih, hMe, List.getLast_cons (List.cons_ne_nil _ _)]
      rw [A.assoc, ← A.assoc (φ t), ← A.assoc (φ t), (hp.1 t).2, A.one_mul, ← A.assoc]


/-- `chain_walk` for a path given as `Node.path` returns it (head, last, `zip` with its tail) -/
theorem chain_of_path (A : Alg α) (edge : Nat → Nat → Option α) (links : List (Nat × Nat)) (φ ψ : Nat → α)
    (hp : IsPot A edge links φ ψ) (p : List Nat) (s t : Nat) (hh : p.head? = some s) (hl : p.getLast? = some t)
    (hw : IsWalk links p) (m r : α) (hc : chain A.mul A.inv edge (p.zip p.tail) m = some r) :
    r = A.mul (A.mul (ψ t) (φ s)) m := by
  cases p with
  | nil => simp at hh
  | cons s' p' =>
    simp only [List.head?_cons, Option.some.injEq] at hh
    subst hh
    have hlast : (s' :: p').getLast (List.cons_ne_nil _ _) = t := by
      rw [List.getLast?_eq_some_getLast (List.cons_ne_nil _ _)] at hl
      exact Option.some.inj hl
    have := chain_walk A edge links φ ψ hp p' s' m r hw (by simpa using hc)
    rw [this, hlast]

end BeyondVerif.Chain
