import BeyondVerif.Model.Sgp4RefR
import Mathlib.Tactic.LinearCombination
import Mathlib.Tactic.NormNum
import Mathlib.Tactic.FieldSimp
import Mathlib.Tactic.Positivity
import Mathlib.Tactic.NormNum.OfScientific

/-!
Helper lemmas for `Props/C07Native.lean`: real powers with the literal exponents the two SGP4 implementations use,
periodicity of `%` and of the sine, and the unit-vector identity behind `atan2(sinu, cosu)`.
-/
namespace BeyondVerif.C07
open BeyondVerif.R

/-- `pow(x, 4.0)` of the reference is the fourth power -/
theorem rpow_four (x : ℝ) : Real.rpow x (4.0 : ℝ) = x ^ 4 := by
  have h : (4.0 : ℝ) = ((4 : ℕ) : ℝ) := by norm_num
  show x ^ (4.0 : ℝ) = x ^ 4
  rw [h, Real.rpow_natCast]

/-- `y ** (-7 / 2)` of the native model is `1 / pow(y, 3.5)` of the reference, for positive `y` -/
theorem rpow_m72 {y : ℝ} (hy : 0 < y) : Real.rpow y (-(7 : ℝ) / 2) = (Real.rpow y (3.5 : ℝ))⁻¹ := by
  have h : (-(7 : ℝ) / 2) = -(3.5 : ℝ) := by norm_num
  show y ^ (-(7 : ℝ) / 2) = (y ^ (3.5 : ℝ))⁻¹
  rw [h, Real.rpow_neg hy.le]

/-- `x ** (3.0 / 2.0)` of the native model is `sqrt(x) * x` of the reference (`rteosq * omeosq`), for `x ≥ 0` -/
theorem rpow_three_half {x : ℝ} (hx : 0 ≤ x) : Real.rpow x ((3.0 : ℝ) / (2.0 : ℝ)) = Real.sqrt x * x := by
  have h : ((3.0 : ℝ) / (2.0 : ℝ)) = 1 / 2 + 1 := by norm_num
  show x ^ ((3.0 : ℝ) / (2.0 : ℝ)) = Real.sqrt x * x
  rw [h, Real.rpow_add' hx (by norm_num), Real.rpow_one, Real.sqrt_eq_rpow]

/-- the sine does not see the reduction modulo 2π (`Mp = (…) % (2 * np.pi)` in the native model, unreduced `mm` in the reference) -/
theorem sin_fmod (x : ℝ) : Real.sin (NumReal.fmod x (2 * Real.pi)) = Real.sin x := by
  unfold NumReal.fmod
  rw [show x - 2 * Real.pi * ((⌊x / (2 * Real.pi)⌋ : ℤ) : ℝ) = x - ((⌊x / (2 * Real.pi)⌋ : ℤ) : ℝ) * (2 * Real.pi) by ring]
  exact Real.sin_sub_int_mul_two_pi x _

/-- Python's `% (2π)` is 2π-periodic -/
theorem fmod_add_int_mul (x : ℝ) (k : ℤ) :
    NumReal.fmod (x + 2 * Real.pi * k) (2 * Real.pi) = NumReal.fmod x (2 * Real.pi) := by
  unfold NumReal.fmod
  have hp : (2 * Real.pi) ≠ 0 := by positivity
  have h : (x + 2 * Real.pi * k) / (2 * Real.pi) = x / (2 * Real.pi) + k := by field_simp
  rw [h, Int.floor_add_intCast]
  push_cast
  ring

/-- `xke` of WGS-72 is positive -/
theorem w_xke_pos : 0 < w_xke := by
  simp only [w_xke, w_re, w_mu, NumReal.sqrt]
  apply div_pos (by norm_num)
  apply Real.sqrt_pos.mpr
  norm_num

/-- on a unit vector `arctan2` is inverted by sine and cosine -/
theorem atan2_unit {x y : ℝ} (h : y ^ 2 + x ^ 2 = 1) :
    Real.sin (NumReal.atan2 y x) = y ∧ Real.cos (NumReal.atan2 y x) = x := by
  unfold NumReal.atan2
  have hn : ‖(⟨x, y⟩ : ℂ)‖ = 1 := by
    rw [Complex.norm_def, Complex.normSq_mk, show x * x + y * y = 1 by nlinarith, Real.sqrt_one]
  have hz : (⟨x, y⟩ : ℂ) ≠ 0 := by
    intro h0
    rw [h0, norm_zero] at hn
    exact zero_ne_one hn
  constructor
  · rw [Complex.sin_arg, hn]; simp
  · rw [Complex.cos_arg hz, hn]; simp

/-- The vector `(sinu, cosu)` both implementations hand to `atan2` is a unit vector, for every eccentric longitude — an algebraic
identity of the equinoctial form of the orbit equation (`r = a(1 - e cos E)`), independent of how well Kepler's equation was solved. -/
theorem kepler_unit (x y s c b a : ℝ) (hsc : s ^ 2 + c ^ 2 = 1) (hb : b ^ 2 = 1 - (x ^ 2 + y ^ 2)) (hb0 : 0 ≤ b)
    (ha : a ≠ 0) (hr : 1 - (x * c + y * s) ≠ 0) :
    (a / (a * (1 - (x * c + y * s))) * (s - y - x * (x * s - y * c) / (1 + b))) ^ 2
      + (a / (a * (1 - (x * c + y * s))) * (c - x + y * (x * s - y * c) / (1 + b))) ^ 2 = 1 := by
  have hT : 1 + b ≠ 0 := by positivity
  have key : (s - y - x * ((x * s - y * c) / (1 + b))) ^ 2 + (c - x + y * ((x * s - y * c) / (1 + b))) ^ 2 = (1 - (x * c + y * s)) ^ 2 := by
    generalize ht : (x * s - y * c) / (1 + b) = t
    have ht' : x * s - y * c = t * (1 + b) := by rw [← ht]; field_simp
    linear_combination (1 - x ^ 2 - y ^ 2) * hsc + t ^ 2 * hb + ((x * s - y * c) + t * (1 + b) - 2 * t) * ht'
  have e1 : a / (a * (1 - (x * c + y * s))) = 1 / (1 - (x * c + y * s)) := by field_simp
  rw [e1, mul_pow, mul_pow, ← mul_add, mul_div_assoc, mul_div_assoc, key]
  field_simp

end BeyondVerif.C07
