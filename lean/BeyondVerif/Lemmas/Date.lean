import BeyondVerif.Model.DateCfg
import Mathlib.Tactic.Ring
import Mathlib.Tactic.Linarith
/-!
Helper lemmas about `Model/Date.lean`: the constructor, the rounding to microseconds, the signed sum of
`Timescale.offset` as a linear form in the EOP columns (coefficients computed from the regenerated graph).
-/
namespace BeyondVerif.Date

/-! ### rounding to microseconds -/

theorem roundUs_bound (t : Int) : -5 ≤ 10 * roundUs t - t ∧ 10 * roundUs t - t ≤ 5 := by
  unfold roundUs
  simp only
  split
  · omega
  · split
    · omega
    · split <;> omega

theorem roundUs_exact {t : Int} (h : t % 10 = 0) : 10 * roundUs t = t := by
  unfold roundUs
  simp only
  split
  · omega
  · omega

/-- two tick counts that differ by whole microseconds round alike, unless they sit on a tie -/
theorem roundUs_shift {a b : Int} (h : (a - b) % 10 = 0) (hb : b % 10 ≠ 5) :
    10 * roundUs a - a = 10 * roundUs b - b := by
  unfold roundUs
  simp only
  have : a % 10 = b % 10 := by omega
  split <;> split <;> (try split) <;> (try split) <;> omega

/-- two tick counts that differ by a whole *even* number of microseconds round alike, ties included (half to even looks at
the parity of the microsecond) -/
theorem roundUs_shift20 {a b : Int} (h : (a - b) % 20 = 0) : 10 * roundUs a - a = 10 * roundUs b - b := by
  unfold roundUs
  simp only
  have h1 : a % 10 = b % 10 := by omega
  have h2 : (a / 10) % 2 = (b / 10) % 2 := by omega
  split <;> split <;> (try split) <;> (try split) <;> (try split) <;> (try split) <;> omega

/-! ### the constructor -/

theorem mk_ok {cfg : Cfg} {env : Env} {sc : Nat} {d s : Int} {x : Date} (h : mk cfg env sc d s = .ok x) :
    ∃ eop off, eopFor cfg env sc (d * D + s) = .ok eop ∧ offset cfg env sc cfg.ref (d * D + s) eop = .ok off ∧
      x = ⟨d + (s + off) / D, (s + off) % D, off, sc, eop⟩ := by
  unfold mk at h
  simp only at h
  split at h
  · cases h
  · next eop he =>
    split at h
    · cases h
    · next off ho =>
      refine ⟨eop, off, he, ho, ?_⟩
      simp only [normalise] at h
      cases h; rfl

/-- which record `eopFor` returns: the one found at the date's own clock reading `num` for a UTC date or when the UTC
reading computed with that record, `num + offset(scale→UTC)`, has the same day number; otherwise the one found at
that UTC reading -/
theorem eopFor_spec {cfg : Cfg} {env : Env} {sc : Nat} {num : Int} {eop : Eop} (h : eopFor cfg env sc num = .ok eop) :
    ∃ eop0, (eopGet env num).value = some eop0 ∧
      ((sc = cfg.utc ∧ eop = eop0) ∨
       (sc ≠ cfg.utc ∧ ∃ offU, offset cfg env sc cfg.utc num eop0 = .ok offU ∧
          ((Int.tdiv (num + offU) D = Int.tdiv num D ∧ eop = eop0) ∨
           (Int.tdiv (num + offU) D ≠ Int.tdiv num D ∧ (eopGet env (num + offU)).value = some eop)))) := by
  unfold eopFor at h
  split at h
  · cases h
  · next eop0 h0 =>
    refine ⟨eop0, h0, ?_⟩
    split at h
    · next hu => left; exact ⟨hu, by cases h; rfl⟩
    · next hu =>
      right
      refine ⟨hu, ?_⟩
      split at h
      · cases h
      · next offU ho =>
        refine ⟨offU, ho, ?_⟩
        split at h
        · next hd =>
          right
          refine ⟨hd, ?_⟩
          split at h
          · cases h
          · next e he => cases h; exact he
        · next hd =>
          left
          exact ⟨by simpa using hd, by cases h; rfl⟩

/-- two clock readings of the same day, with the same leap-second entry in force, find the same record -/
theorem eopRaw_same_day {env : Env} {n m : Int} (hd : Int.tdiv n D = Int.tdiv m D)
    (hl : taiUtcAt env.leap n = taiUtcAt env.leap m) : eopRaw env n = eopRaw env m := by
  unfold eopRaw; rw [hd, hl]

/-- **the record of a date is the one tabulated for its UTC reading** (first-guess UTC reading `num + offset(scale→UTC)`
computed with the record of the label day): whenever both readings are covered by the tables and the same
leap-second entry is in force at both (no leap second in between) -/
theorem eopFor_record {cfg : Cfg} {env : Env} {sc : Nat} {num offU : Int} {eop e0 eU : Eop}
    (h : eopFor cfg env sc num = .ok eop) (h0 : eopRaw env num = some e0)
    (ho : offset cfg env sc cfg.utc num e0 = .ok offU) (hU : eopRaw env (num + offU) = some eU)
    (hl : taiUtcAt env.leap (num + offU) = taiUtcAt env.leap num) (hs : sc ≠ cfg.utc) : eop = eU := by
  obtain ⟨eop0, hv, hc⟩ := eopFor_spec h
  have hv0 : eop0 = e0 := by
    simp only [eopGet, h0, EopRes.value, Option.some.injEq] at hv; exact hv.symm
  subst hv0
  rcases hc with ⟨hu, _⟩ | ⟨_, offU', ho', hc⟩
  · exact (hs hu).elim
  · rw [ho] at ho'
    have : offU' = offU := (Except.ok.inj ho').symm
    subst this
    rcases hc with ⟨hd, he⟩ | ⟨_, he⟩
    · have := eopRaw_same_day (env := env) hd hl
      rw [hU, h0] at this
      rw [he]; exact (Option.some.inj this).symm
    · simp only [eopGet, hU, EopRes.value, Option.some.injEq] at he; exact he.symm

/-- a date as the constructor leaves it: seconds of day in range, `_offset` is the offset of its scale to the
reference scale for its own EOP record (at some `mjd`) -/
structure WF (cfg : Cfg) (env : Env) (x : Date) : Prop where
  s_nonneg : 0 ≤ x.s
  s_lt : x.s < D
  off_eq : ∃ num, offset cfg env x.scale cfg.ref num x.eop = .ok x.off

theorem mk_spec {cfg : Cfg} {env : Env} {sc : Nat} {d s : Int} {x : Date} (h : mk cfg env sc d s = .ok x) :
    WF cfg env x ∧ x.scale = sc ∧ x.inst = d * D + s + x.off ∧ eopFor cfg env sc (d * D + s) = .ok x.eop := by
  obtain ⟨eop, off, he, ho, rfl⟩ := mk_ok h
  refine ⟨⟨?_, ?_, ⟨_, ho⟩⟩, rfl, ?_, he⟩
  · exact Int.emod_nonneg _ (by decide)
  · exact Int.emod_lt_of_pos _ (by decide)
  · simp only [Date.inst]
    simp only [D] at *
    omega

theorem ofDatetime_spec {cfg : Cfg} {env : Env} {sc : Nat} {us : Int} {x : Date} (h : ofDatetime cfg env sc us = .ok x) :
    WF cfg env x ∧ x.scale = sc ∧ x.inst = 10 * us + x.off := by
  unfold ofDatetime at h
  obtain ⟨hw, hs, hi, _⟩ := mk_spec h
  refine ⟨hw, hs, ?_⟩
  rw [hi]
  simp only [D, DUS]
  omega

/-- the `_offset` of a constructed date is `scale.offset` evaluated **at the date's own clock reading** `inst − _offset`
(the `mjd` argument of the constructor) with the date's own record -/
theorem mk_off_at {cfg : Cfg} {env : Env} {sc : Nat} {d s : Int} {x : Date} (h : mk cfg env sc d s = .ok x) :
    offset cfg env x.scale cfg.ref (x.inst - x.off) x.eop = .ok x.off := by
  obtain ⟨_, hs, hi, _⟩ := mk_spec h
  obtain ⟨eop, off, _, ho, rfl⟩ := mk_ok h
  have : (Date.inst ⟨d + (s + off) / D, (s + off) % D, off, sc, eop⟩) - off = d * D + s := by
    simp only at hi; omega
  simp only at this ⊢
  rw [this]; exact ho

theorem ofDatetime_off_at {cfg : Cfg} {env : Env} {sc : Nat} {us : Int} {x : Date} (h : ofDatetime cfg env sc us = .ok x) :
    offset cfg env x.scale cfg.ref (x.inst - x.off) x.eop = .ok x.off := mk_off_at h

theorem ofDatetime_eop {cfg : Cfg} {env : Env} {sc : Nat} {us : Int} {x : Date} (h : ofDatetime cfg env sc us = .ok x) :
    eopFor cfg env sc (10 * us) = .ok x.eop := by
  unfold ofDatetime at h
  obtain ⟨_, _, _, he⟩ := mk_spec h
  have : us / DUS * D + us % DUS * 10 = 10 * us := by simp only [D, DUS]; omega
  rwa [this] at he

/-- `_convert_to_scale` recovers the clock reading of the date's own scale: `inst − offset`, split in day and ticks -/
theorem toScale_spec (x : Date) (h0 : 0 ≤ x.s) (h1 : x.s < D) :
    x.toScale.1 * D + x.toScale.2 = x.inst - x.off ∧ 0 ≤ x.toScale.2 ∧ x.toScale.2 < D := by
  simp only [Date.toScale, Date.inst, D] at *
  omega

/-! ### offsets as linear forms -/

/-- coefficients of a signed step list: constant part, multiples of TAI−UTC, UT1−UTC, TDB−TT -/
structure Coef where
  c : Int
  tai : Int
  ut1 : Int
  tdb : Int
deriving DecidableEq, Repr

def Coef.add (p q : Coef) : Coef := ⟨p.c + q.c, p.tai + q.tai, p.ut1 + q.ut1, p.tdb + q.tdb⟩
def Coef.neg (p : Coef) : Coef := ⟨-p.c, -p.tai, -p.ut1, -p.tdb⟩

def coefOf : List (Int × OpKind) → Coef
  | [] => ⟨0, 0, 0, 0⟩
  | (sg, k) :: l =>
    let r := coefOf l
    match k with
    | .const v => ⟨sg * v + r.c, r.tai, r.ut1, r.tdb⟩
    | .taiUtc => ⟨r.c, sg + r.tai, r.ut1, r.tdb⟩
    | .ut1Utc => ⟨r.c, r.tai, sg + r.ut1, r.tdb⟩
    | .tdbTt => ⟨r.c, r.tai, r.ut1, sg + r.tdb⟩

def Coef.eval (p : Coef) (num : Int) (eop : Eop) (tdb : Int → Int) : Int :=
  p.c + p.tai * eop.taiUtc + p.ut1 * eop.ut1Utc + p.tdb * tdb num

theorem sumSteps_eq_eval (l : List (Int × OpKind)) (num : Int) (eop : Eop) (tdb : Int → Int) :
    sumSteps l num eop tdb = (coefOf l).eval num eop tdb := by
  induction l with
  | nil => simp [sumSteps, coefOf, Coef.eval]
  | cons st l ih =>
    obtain ⟨sg, k⟩ := st
    have hs : sumSteps ((sg, k) :: l) num eop tdb = sg * opValue k num eop tdb + sumSteps l num eop tdb := by
      simp [sumSteps]
    rw [hs, ih]
    cases k <;> simp only [coefOf, Coef.eval, opValue] <;> ring

theorem Coef.eval_add (p q : Coef) (num : Int) (eop : Eop) (tdb : Int → Int) :
    (p.add q).eval num eop tdb = p.eval num eop tdb + q.eval num eop tdb := by
  simp only [Coef.add, Coef.eval]; ring

theorem Coef.eval_neg (p : Coef) (num : Int) (eop : Eop) (tdb : Int → Int) :
    p.neg.eval num eop tdb = - p.eval num eop tdb := by
  simp only [Coef.neg, Coef.eval]; ring

/-- the signed steps between two scales of a configuration, `none` when the code would raise -/
def stepsOf (cfg : Cfg) (a b : Nat) : Option (List (Int × OpKind)) :=
  match signedSteps cfg a b with
  | .ok l => some l
  | .error _ => none

def coefAB (cfg : Cfg) (a b : Nat) : Option Coef := (stepsOf cfg a b).map coefOf

theorem offset_eq_eval {cfg : Cfg} {a b : Nat} {p : Coef} (h : coefAB cfg a b = some p) (env : Env) (num : Int) (eop : Eop) :
    offset cfg env a b num eop = .ok (p.eval num eop env.tdb) := by
  unfold coefAB stepsOf at h
  unfold offset
  split at h
  · next l hl =>
    simp only [Option.map_some, Option.some.injEq] at h
    rw [hl]; simp only; rw [sumSteps_eq_eval, h]
  · simp at h

theorem offset_ok_coef {cfg : Cfg} {env : Env} {a b : Nat} {num : Int} {eop : Eop} {v : Int}
    (h : offset cfg env a b num eop = .ok v) : ∃ p, coefAB cfg a b = some p ∧ v = p.eval num eop env.tdb := by
  unfold offset at h
  split at h
  · next l hl =>
    refine ⟨coefOf l, ?_, ?_⟩
    · simp [coefAB, stepsOf, hl]
    · cases h; exact sumSteps_eq_eval _ _ _ _
  · cases h

end BeyondVerif.Date
