import BeyondVerif.Model.DateCfg
import Mathlib.Tactic.Ring
import Mathlib.Tactic.Linarith
/-!
Helper lemmas about `Model/Date.lean`: the constructor, the rounding to microseconds, the signed sum of
`Timescale.offset` as a linear form in the EOP columns (coefficients computed from the regenerated graph).
-/
namespace BeyondVerif.Date

/-! ### rounding to microseconds -/

theorem roundUs_bound (t : Int) : -5 ≤ 10 * roundUs t - t ∧ 10 * roundUs t - t ≤ 5 := by
  unfold roundUs
  simp only
  split
  · omega
  · split
    · omega
    · split <;> omega

theorem roundUs_exact {t : Int} (h : t % 10 = 0) : 10 * roundUs t = t := by
  unfold roundUs
  simp only
  split
  · omega
  · omega

/-- two tick counts that differ by whole microseconds round alike, unless they sit on a tie -/
theorem roundUs_shift {a b : Int} (h : (a - b) % 10 = 0) (hb : b % 10 ≠ 5) :
    10 * roundUs a - a = 10 * roundUs b - b := by
  unfold roundUs
  simp only
  have : a % 10 = b % 10 := by omega
  split <;> split <;> (try split) <;> (try split) <;> omega

/-! ### the constructor -/

theorem mk_ok {cfg : Cfg} {env : Env} {sc : Nat} {d s : Int} {x : Date} (h : mk cfg env sc d s = .ok x) :
    ∃ eop off, (eopGet env (d * D + s)).value = some eop ∧ offset cfg env sc cfg.ref (d * D + s) eop = .ok off ∧
      x = ⟨d + (s + off) / D, (s + off) % D, off, sc, eop⟩ := by
  unfold mk at h
  simp only at h
  split at h
  · cases h
  · next eop he =>
    split at h
    · cases h
    · next off ho =>
      refine ⟨eop, off, he, ho, ?_⟩
      simp only [normalise] at h
      cases h; rfl

/-- a date as the constructor leaves it: seconds of day in range, `_offset` is the offset of its scale to the
reference scale for its own EOP record (at some `mjd`) -/
structure WF (cfg : Cfg) (env : Env) (x : Date) : Prop where
  s_nonneg : 0 ≤ x.s
  s_lt : x.s < D
  off_eq : ∃ num, offset cfg env x.scale cfg.ref num x.eop = .ok x.off

theorem mk_spec {cfg : Cfg} {env : Env} {sc : Nat} {d s : Int} {x : Date} (h : mk cfg env sc d s = .ok x) :
    WF cfg env x ∧ x.scale = sc ∧ x.inst = d * D + s + x.off ∧ (eopGet env (d * D + s)).value = some x.eop := by
  obtain ⟨eop, off, he, ho, rfl⟩ := mk_ok h
  refine ⟨⟨?_, ?_, ⟨_, ho⟩⟩, rfl, ?_, he⟩
  · exact Int.emod_nonneg _ (by decide)
  · exact Int.emod_lt_of_pos _ (by decide)
  · simp only [Date.inst]
    simp only [D] at *
    omega

theorem ofDatetime_spec {cfg : Cfg} {env : Env} {sc : Nat} {us : Int} {x : Date} (h : ofDatetime cfg env sc us = .ok x) :
    WF cfg env x ∧ x.scale = sc ∧ x.inst = 10 * us + x.off := by
  unfold ofDatetime at h
  obtain ⟨hw, hs, hi, _⟩ := mk_spec h
  refine ⟨hw, hs, ?_⟩
  rw [hi]
  simp only [D, DUS]
  omega

/-- `_convert_to_scale` recovers the clock reading of the date's own scale: `inst − offset`, split in day and ticks -/
theorem toScale_spec (x : Date) (h0 : 0 ≤ x.s) (h1 : x.s < D) :
    x.toScale.1 * D + x.toScale.2 = x.inst - x.off ∧ 0 ≤ x.toScale.2 ∧ x.toScale.2 < D := by
  simp only [Date.toScale, Date.inst, D] at *
  omega

/-! ### offsets as linear forms -/

/-- coefficients of a signed step list: constant part, multiples of TAI−UTC, UT1−UTC, TDB−TT -/
structure Coef where
  c : Int
  tai : Int
  ut1 : Int
  tdb : Int
deriving DecidableEq, Repr

def Coef.add (p q : Coef) : Coef := ⟨p.c + q.c, p.tai + q.tai, p.ut1 + q.ut1, p.tdb + q.tdb⟩
def Coef.neg (p : Coef) : Coef := ⟨-p.c, -p.tai, -p.ut1, -p.tdb⟩

def coefOf : List (Int × OpKind) → Coef
  | [] => ⟨0, 0, 0, 0⟩
  | (sg, k) :: l =>
    let r := coefOf l
    match k with
    | .const v => ⟨sg * v + r.c, r.tai, r.ut1, r.tdb⟩
    | .taiUtc => ⟨r.c, sg + r.tai, r.ut1, r.tdb⟩
    | .ut1Utc => ⟨r.c, r.tai, sg + r.ut1, r.tdb⟩
    | .tdbTt => ⟨r.c, r.tai, r.ut1, sg + r.tdb⟩

def Coef.eval (p : Coef) (num : Int) (eop : Eop) (tdb : Int → Int) : Int :=
  p.c + p.tai * eop.taiUtc + p.ut1 * eop.ut1Utc + p.tdb * tdb num

theorem sumSteps_eq_eval (l : List (Int × OpKind)) (num : Int) (eop : Eop) (tdb : Int → Int) :
    sumSteps l num eop tdb = (coefOf l).eval num eop tdb := by
  induction l with
  | nil => simp [sumSteps, coefOf, Coef.eval]
  | cons st l ih =>
    obtain ⟨sg, k⟩ := st
    have hs : sumSteps ((sg, k) :: l) num eop tdb = sg * opValue k num eop tdb + sumSteps l num eop tdb := by
      simp [sumSteps]
    rw [hs, ih]
    cases k <;> simp only [coefOf, Coef.eval, opValue] <;> ring

theorem Coef.eval_add (p q : Coef) (num : Int) (eop : Eop) (tdb : Int → Int) :
    (p.add q).eval num eop tdb = p.eval num eop tdb + q.eval num eop tdb := by
  simp only [Coef.add, Coef.eval]; ring

theorem Coef.eval_neg (p : Coef) (num : Int) (eop : Eop) (tdb : Int → Int) :
    p.neg.eval num eop tdb = - p.eval num eop tdb := by
  simp only [Coef.neg, Coef.eval]; ring

/-- the signed steps between two scales of a configuration, `none` when the code would raise -/
def stepsOf (cfg : Cfg) (a b : Nat) : Option (List (Int × OpKind)) :=
  match signedSteps cfg a b with
  | .ok l => some l
  | .error _ => none

def coefAB (cfg : Cfg) (a b : Nat) : Option Coef := (stepsOf cfg a b).map coefOf

theorem offset_eq_eval {cfg : Cfg} {a b : Nat} {p : Coef} (h : coefAB cfg a b = some p) (env : Env) (num : Int) (eop : Eop) :
    offset cfg env a b num eop = .ok (p.eval num eop env.tdb) := by
  unfold coefAB stepsOf at h
  unfold offset
  split at h
  · next l hl =>
    simp only [Option.map_some, Option.some.injEq] at h
    rw [hl]; simp only; rw [sumSteps_eq_eval, h]
  · simp at h

theorem offset_ok_coef {cfg : Cfg} {env : Env} {a b : Nat} {num : Int} {eop : Eop} {v : Int}
    (h : offset cfg env a b num eop = .ok v) : ∃ p, coefAB cfg a b = some p ∧ v = p.eval num eop env.tdb := by
  unfold offset at h
  split at h
  · next l hl =>
    refine ⟨coefOf l, ?_, ?_⟩
    · simp [coefAB, stepsOf, hl]
    · cases h; exact sumSteps_eq_eval _ _ _ _
  · cases h

end BeyondVerif.Date
