import BeyondVerif.Props.C16

/-!
# Linear algebra of the Clohessy–Wiltshire step on lists (helper lemmas for Props/C16Seq.lean)

`cwStepQSW n τ x a = Φ(τ) x + Γ(τ) a` on lists: it is linear in `(x, a)`, free flows compose, `Φ(0) = 1`.
States are lists of length 6, accelerations lists of length 3.
-/
namespace BeyondVerif.C16
open BeyondVerif.R BeyondVerif.NumReal

theorem len6 {x : List ℝ} (h : x.length = 6) : ∃ a b c d e f, x = [a, b, c, d, e, f] := by
  rcases x with _ | ⟨a, _ | ⟨b, _ | ⟨c, _ | ⟨d, _ | ⟨e, _ | ⟨f, _ | ⟨g, r⟩⟩⟩⟩⟩⟩⟩ <;>
    first | exact ⟨_, _, _, _, _, _, rfl⟩ | (simp at h) | (simp at h; omega)

theorem len3 {x : List ℝ} (h : x.length = 3) : ∃ a b c, x = [a, b, c] := by
  rcases x with _ | ⟨a, _ | ⟨b, _ | ⟨c, _ | ⟨g, r⟩⟩⟩⟩ <;>
    first | exact ⟨_, _, _, rfl⟩ | (simp at h) | (simp at h; omega)

/-- free flow `Φ(τ) x` -/
local macro "flow" n:term:max τ:term:max x:term:max : term => `(cwStepQSW $n $τ $x zero3)

@[simp] theorem step_length (n τ : ℝ) (x a : List ℝ) : (cwStepQSW n τ x a).length = 6 := by
  simp [cwStepQSW, cwMats, matVec, vadd]

@[simp] theorem zero6_length : (zero6 : List ℝ).length = 6 := rfl
@[simp] theorem zero3_length : (zero3 : List ℝ).length = 3 := rfl

theorem kick_length {dv : List ℝ} (h : dv.length = 3) : (kick dv).length = 6 := by simp [kick, h]
theorem vneg_length (v : List ℝ) : (vneg v).length = v.length := by simp [vneg]

theorem vadd_length {x y : List ℝ} (hx : x.length = 6) (hy : y.length = 6) : (vadd x y).length = 6 := by
  obtain ⟨a, b, c, d, e, f, rfl⟩ := len6 hx
  obtain ⟨a', b', c', d', e', f', rfl⟩ := len6 hy
  simp [vadd]

theorem vadd_length3 {x y : List ℝ} (hx : x.length = 3) (hy : y.length = 3) : (vadd x y).length = 3 := by
  obtain ⟨a, b, c, rfl⟩ := len3 hx
  obtain ⟨a', b', c', rfl⟩ := len3 hy
  simp [vadd]

theorem vadd_zero6 {x : List ℝ} (hx : x.length = 6) : vadd x zero6 = x := by
  obtain ⟨a, b, c, d, e, f, rfl⟩ := len6 hx
  simp [vadd, zero6]

theorem zero6_vadd {x : List ℝ} (hx : x.length = 6) : vadd zero6 x = x := by
  obtain ⟨a, b, c, d, e, f, rfl⟩ := len6 hx
  simp [vadd, zero6]

theorem zero3_vadd {x : List ℝ} (hx : x.length = 3) : vadd zero3 x = x := by
  obtain ⟨a, b, c, rfl⟩ := len3 hx
  simp [vadd, zero3]

theorem vadd_comm6 {x y : List ℝ} (hx : x.length = 6) (hy : y.length = 6) : vadd x y = vadd y x := by
  obtain ⟨a, b, c, d, e, f, rfl⟩ := len6 hx
  obtain ⟨a', b', c', d', e', f', rfl⟩ := len6 hy
  simp [vadd, add_comm]

theorem vadd_assoc6 {x y z : List ℝ} (hx : x.length = 6) (hy : y.length = 6) (hz : z.length = 6) :
    vadd (vadd x y) z = vadd x (vadd y z) := by
  obtain ⟨a, b, c, d, e, f, rfl⟩ := len6 hx
  obtain ⟨a', b', c', d', e', f', rfl⟩ := len6 hy
  obtain ⟨a'', b'', c'', d'', e'', f'', rfl⟩ := len6 hz
  simp [vadd, add_assoc]

theorem getD_vadd {x y : List ℝ} (hx : x.length = 6) (hy : y.length = 6) (i : Nat) :
    (vadd x y).getD i 0 = x.getD i 0 + y.getD i 0 := by
  obtain ⟨a, b, c, d, e, f, rfl⟩ := len6 hx
  obtain ⟨a', b', c', d', e', f', rfl⟩ := len6 hy
  rcases i with _ | _ | _ | _ | _ | _ | i <;> simp [vadd]

/-- `addDv x dv = x + (0, dv)` -/
theorem addDv_eq {x dv : List ℝ} (hx : x.length = 6) (hd : dv.length = 3) : addDv x dv = vadd x (kick dv) := by
  obtain ⟨a, b, c, d, e, f, rfl⟩ := len6 hx
  obtain ⟨a', b', c', rfl⟩ := len3 hd
  simp [addDv, vadd, kick]

/-- `Φ(τ) x + Γ(τ) a = Φ(τ) x + (Φ(τ) 0 + Γ(τ) a)` -/
theorem step_split (n τ : ℝ) {x a : List ℝ} (hx : x.length = 6) (ha : a.length = 3) :
    cwStepQSW n τ x a = vadd (flow n τ x) (cwStepQSW n τ zero6 a) := by
  obtain ⟨x1, x2, x3, x4, x5, x6, rfl⟩ := len6 hx
  obtain ⟨a1, a2, a3, rfl⟩ := len3 ha
  simp only [cwStepQSW, cwMats, matVec, dot, vadd, zero3, zero6, List.map, List.cons.injEq, and_true]
  refine ⟨?_, ?_, ?_, ?_, ?_, ?_⟩ <;> ring

theorem flow_add (n τ : ℝ) {x y : List ℝ} (hx : x.length = 6) (hy : y.length = 6) :
    flow n τ (vadd x y) = vadd (flow n τ x) (flow n τ y) := by
  obtain ⟨x1, x2, x3, x4, x5, x6, rfl⟩ := len6 hx
  obtain ⟨y1, y2, y3, y4, y5, y6, rfl⟩ := len6 hy
  simp only [cwStepQSW, cwMats, matVec, dot, vadd, zero3, List.map, List.cons.injEq, and_true]
  refine ⟨?_, ?_, ?_, ?_, ?_, ?_⟩ <;> ring

theorem flow_zero6 (n τ : ℝ) : flow n τ zero6 = zero6 := by
  simp [cwStepQSW, cwMats, matVec, dot, vadd, zero3, zero6]

theorem flow_flow (n : ℝ) (hn : n ≠ 0) (τ₁ τ₂ : ℝ) {x : List ℝ} (hx : x.length = 6) :
    flow n τ₂ (flow n τ₁ x) = flow n (τ₁ + τ₂) x := by
  obtain ⟨x1, x2, x3, x4, x5, x6, rfl⟩ := len6 hx
  exact cw_compose n hn x1 x2 x3 x4 x5 x6 0 0 0 τ₁ τ₂

theorem flow_zero (n : ℝ) (hn : n ≠ 0) {x : List ℝ} (hx : x.length = 6) : flow n 0 x = x := by
  obtain ⟨x1, x2, x3, x4, x5, x6, rfl⟩ := len6 hx
  exact cw_zero n hn x1 x2 x3 x4 x5 x6 0 0 0

theorem step_zero (n : ℝ) (hn : n ≠ 0) {x a : List ℝ} (hx : x.length = 6) (ha : a.length = 3) : cwStepQSW n 0 x a = x := by
  obtain ⟨x1, x2, x3, x4, x5, x6, rfl⟩ := len6 hx
  obtain ⟨a1, a2, a3, rfl⟩ := len3 ha
  exact cw_zero n hn x1 x2 x3 x4 x5 x6 a1 a2 a3

/-- the running state after a thrust leg, carried to the target date: the free flow of the state before the leg plus
the leg's own contribution -/
theorem advance_thrust (n : ℝ) (hn : n ≠ 0) (t e s tc : ℝ) {x a : List ℝ} (hx : x.length = 6) (ha : a.length = 3) :
    flow n (t - e) (cwStepQSW n (e - s) (flow n (s - tc) x) a)
      = vadd (flow n (t - tc) x) (flow n (t - e) (cwStepQSW n (e - s) zero6 a)) := by
  rw [step_split n (e - s) (step_length ..) ha, flow_add n _ (step_length ..) (step_length ..),
    flow_flow n hn _ _ hx, flow_flow n hn _ _ hx]
  congr 2; ring

theorem advance_impulse (n : ℝ) (hn : n ≠ 0) (t tm tc : ℝ) {x dv : List ℝ} (hx : x.length = 6) (hd : dv.length = 3) :
    flow n (t - tm) (addDv (flow n (tm - tc) x) dv) = vadd (flow n (t - tc) x) (flow n (t - tm) (kick dv)) := by
  rw [addDv_eq (step_length ..) hd, flow_add n _ (step_length ..) (kick_length hd), flow_flow n hn _ _ hx]
  congr 2; ring

end BeyondVerif.C16
