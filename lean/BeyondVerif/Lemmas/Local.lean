import BeyondVerif.Model.LocalR
namespace BeyondVerif.C14
end BeyondVerif.C14
