import BeyondVerif.Model.LocalR
import Mathlib.Tactic.LinearCombination
import Mathlib.Tactic.FieldSimp
import Mathlib.Tactic.Ring

/-!
Lemmas about the model of beyond/frames/local.py over ℝ (Model/LocalR.lean, instantiated from
templates/Local.tpl): the rows of `to_qsw` / `to_tnw` are orthonormal.
-/
namespace BeyondVerif.C14
open BeyondVerif.R BeyondVerif.NumReal

/-- scalar product of two 3-lists -/
def dot3 : List ℝ → List ℝ → ℝ
  | [a0, a1, a2], [b0, b1, b2] => a0 * b0 + a1 * b1 + a2 * b2
  | _, _ => 0

/-- `a`, `w` unit and orthogonal ⇒ `a, w × a, w` orthonormal (Lagrange identity) -/
theorem triad (a0 a1 a2 w0 w1 w2 : ℝ) (ha : a0 * a0 + a1 * a1 + a2 * a2 = 1) (hw : w0 * w0 + w1 * w1 + w2 * w2 = 1)
    (haw : a0 * w0 + a1 * w1 + a2 * w2 = 0) :
    dot3 (cross3 [w0, w1, w2] [a0, a1, a2]) (cross3 [w0, w1, w2] [a0, a1, a2]) = 1 ∧
    dot3 [a0, a1, a2] (cross3 [w0, w1, w2] [a0, a1, a2]) = 0 ∧
    dot3 (cross3 [w0, w1, w2] [a0, a1, a2]) [w0, w1, w2] = 0 := by
  simp only [cross3, dot3]
  refine ⟨?_, ?_, ?_⟩
  · linear_combination (a0 * a0 + a1 * a1 + a2 * a2) * hw + ha - (a0 * w0 + a1 * w1 + a2 * w2) * haw
  · ring
  · ring

/-- `u / |u|` is a unit vector -/
theorem unit_div (u0 u1 u2 : ℝ) (h : u0 * u0 + u1 * u1 + u2 * u2 ≠ 0) :
    u0 / Real.sqrt (u0 * u0 + u1 * u1 + u2 * u2) * (u0 / Real.sqrt (u0 * u0 + u1 * u1 + u2 * u2)) +
    u1 / Real.sqrt (u0 * u0 + u1 * u1 + u2 * u2) * (u1 / Real.sqrt (u0 * u0 + u1 * u1 + u2 * u2)) +
    u2 / Real.sqrt (u0 * u0 + u1 * u1 + u2 * u2) * (u2 / Real.sqrt (u0 * u0 + u1 * u1 + u2 * u2)) = 1 := by
  have hnn : 0 ≤ u0 * u0 + u1 * u1 + u2 * u2 := by nlinarith [mul_self_nonneg u0, mul_self_nonneg u1, mul_self_nonneg u2]
  have hn : Real.sqrt (u0 * u0 + u1 * u1 + u2 * u2) * Real.sqrt (u0 * u0 + u1 * u1 + u2 * u2) = u0 * u0 + u1 * u1 + u2 * u2 :=
    Real.mul_self_sqrt hnn
  generalize Real.sqrt (u0 * u0 + u1 * u1 + u2 * u2) = n at hn
  have hn0 : n ≠ 0 := by rintro rfl; simp at hn; exact h hn.symm
  field_simp
  linear_combination (-1 : ℝ) * hn

/-- **`to_qsw` and `to_tnw` return orthonormal rows** for every state with non-zero position,
velocity and angular momentum (the last implies the other two; they are kept as hypotheses to
keep the proof short).  This discharges the hypothesis `LocOrth` of the sequence theorems for the
concrete `to_local` of beyond/frames/local.py. -/
theorem local_orthonormal (tnw : Bool) (px py pz vx vy vz : ℝ)
    (hp : px * px + py * py + pz * pz ≠ 0) (hv : vx * vx + vy * vy + vz * vz ≠ 0)
    (hh : (py * vz - pz * vy) * (py * vz - pz * vy) + (pz * vx - px * vz) * (pz * vx - px * vz)
        + (px * vy - py * vx) * (px * vy - py * vx) ≠ 0) :
    ∃ a s w : List ℝ, (if tnw then toTnw [px, py, pz, vx, vy, vz] else toQsw [px, py, pz, vx, vy, vz]) = [a, s, w] ∧
      dot3 a a = 1 ∧ dot3 s s = 1 ∧ dot3 w w = 1 ∧ dot3 a s = 0 ∧ dot3 a w = 0 ∧ dot3 s w = 0 := by
  have hw := unit_div _ _ _ hh
  cases tnw
  · have ha := unit_div _ _ _ hp
    have haw : px / Real.sqrt (px * px + py * py + pz * pz) * ((py * vz - pz * vy) / Real.sqrt ((py * vz - pz * vy) * (py * vz - pz * vy) + (pz * vx - px * vz) * (pz * vx - px * vz) + (px * vy - py * vx) * (px * vy - py * vx)))
        + py / Real.sqrt (px * px + py * py + pz * pz) * ((pz * vx - px * vz) / Real.sqrt ((py * vz - pz * vy) * (py * vz - pz * vy) + (pz * vx - px * vz) * (pz * vx - px * vz) + (px * vy - py * vx) * (px * vy - py * vx)))
        + pz / Real.sqrt (px * px + py * py + pz * pz) * ((px * vy - py * vx) / Real.sqrt ((py * vz - pz * vy) * (py * vz - pz * vy) + (pz * vx - px * vz) * (pz * vx - px * vz) + (px * vy - py * vx) * (px * vy - py * vx))) = 0 := by
      ring
    obtain ⟨t1, t2, t3⟩ := triad _ _ _ _ _ _ ha hw haw
    exact ⟨_, _, _, rfl, ha, t1, hw, t2, haw, t3⟩
  · have ha := unit_div _ _ _ hv
    have haw : vx / Real.sqrt (vx * vx + vy * vy + vz * vz) * ((py * vz - pz * vy) / Real.sqrt ((py * vz - pz * vy) * (py * vz - pz * vy) + (pz * vx - px * vz) * (pz * vx - px * vz) + (px * vy - py * vx) * (px * vy - py * vx)))
        + vy / Real.sqrt (vx * vx + vy * vy + vz * vz) * ((pz * vx - px * vz) / Real.sqrt ((py * vz - pz * vy) * (py * vz - pz * vy) + (pz * vx - px * vz) * (pz * vx - px * vz) + (px * vy - py * vx) * (px * vy - py * vx)))
        + vz / Real.sqrt (vx * vx + vy * vy + vz * vz) * ((px * vy - py * vx) / Real.sqrt ((py * vz - pz * vy) * (py * vz - pz * vy) + (pz * vx - px * vz) * (pz * vx - px * vz) + (px * vy - py * vx) * (px * vy - py * vx))) = 0 := by
      ring
    obtain ⟨t1, t2, t3⟩ := triad _ _ _ _ _ _ ha hw haw
    exact ⟨_, _, _, rfl, ha, t1, hw, t2, haw, t3⟩

example : (1 : ℝ) * 1 + 0 * 0 + 0 * 0 ≠ 0 ∧ (0 : ℝ) * 0 + 1 * 1 + 0 * 0 ≠ 0 ∧
    ((0 : ℝ) * 0 - 0 * 1) * (0 * 0 - 0 * 1) + (0 * 0 - 1 * 0) * (0 * 0 - 1 * 0) + (1 * 1 - 0 * 0) * (1 * 1 - 0 * 0) ≠ 0 := by
  norm_num

/-! ## Equivariance under rotations -/

/-- `R ∈ SO(3)`, written on the entries: orthonormal columns and `R` equal to its own cofactor
matrix (`R = cof R` ⇔ `adj R = Rᵀ`, which together with `RᵀR = 1` is `det R = 1`) -/
structure IsRot (r00 r01 r02 r10 r11 r12 r20 r21 r22 : ℝ) : Prop where
  c00 : r00 * r00 + r10 * r10 + r20 * r20 = 1
  c11 : r01 * r01 + r11 * r11 + r21 * r21 = 1
  c22 : r02 * r02 + r12 * r12 + r22 * r22 = 1
  c01 : r00 * r01 + r10 * r11 + r20 * r21 = 0
  c02 : r00 * r02 + r10 * r12 + r20 * r22 = 0
  c12 : r01 * r02 + r11 * r12 + r21 * r22 = 0
  k00 : r00 = r11 * r22 - r12 * r21
  k01 : r01 = r12 * r20 - r10 * r22
  k02 : r02 = r10 * r21 - r11 * r20
  k10 : r10 = r21 * r02 - r22 * r01
  k11 : r11 = r22 * r00 - r20 * r02
  k12 : r12 = r20 * r01 - r21 * r00
  k20 : r20 = r01 * r12 - r02 * r11
  k21 : r21 = r02 * r10 - r00 * r12
  k22 : r22 = r00 * r11 - r01 * r10

/-- a quarter turn about the third axis is such a rotation -/
example : IsRot 0 1 0 (-1) 0 0 0 0 1 := by constructor <;> norm_num

section equivariance
variable {r00 r01 r02 r10 r11 r12 r20 r21 r22 : ℝ} (hR : IsRot r00 r01 r02 r10 r11 r12 r20 r21 r22)
include hR

theorem rot_cross (u0 u1 u2 w0 w1 w2 : ℝ) :
    cross3 [r00 * u0 + r01 * u1 + r02 * u2, r10 * u0 + r11 * u1 + r12 * u2, r20 * u0 + r21 * u1 + r22 * u2] [r00 * w0 + r01 * w1 + r02 * w2, r10 * w0 + r11 * w1 + r12 * w2, r20 * w0 + r21 * w1 + r22 * w2] = [r00 * (u1 * w2 - u2 * w1) + r01 * (u2 * w0 - u0 * w2) + r02 * (u0 * w1 - u1 * w0), r10 * (u1 * w2 - u2 * w1) + r11 * (u2 * w0 - u0 * w2) + r12 * (u0 * w1 - u1 * w0), r20 * (u1 * w2 - u2 * w1) + r21 * (u2 * w0 - u0 * w2) + r22 * (u0 * w1 - u1 * w0)] := by
  simp only [cross3, List.cons.injEq, and_true]
  refine ⟨?_, ?_, ?_⟩
  · linear_combination (-(u1 * w2 - u2 * w1)) * hR.k00 + (-(u2 * w0 - u0 * w2)) * hR.k01 + (-(u0 * w1 - u1 * w0)) * hR.k02
  · linear_combination (-(u1 * w2 - u2 * w1)) * hR.k10 + (-(u2 * w0 - u0 * w2)) * hR.k11 + (-(u0 * w1 - u1 * w0)) * hR.k12
  · linear_combination (-(u1 * w2 - u2 * w1)) * hR.k20 + (-(u2 * w0 - u0 * w2)) * hR.k21 + (-(u0 * w1 - u1 * w0)) * hR.k22

theorem rot_norm (u0 u1 u2 : ℝ) : norm3 [r00 * u0 + r01 * u1 + r02 * u2, r10 * u0 + r11 * u1 + r12 * u2, r20 * u0 + r21 * u1 + r22 * u2] = norm3 [u0, u1, u2] := by
  simp only [norm3]
  congr 1
  linear_combination (u0 * u0) * hR.c00 + (u1 * u1) * hR.c11 + (u2 * u2) * hR.c22 + (2 * u0 * u1) * hR.c01
    + (2 * u0 * u2) * hR.c02 + (2 * u1 * u2) * hR.c12

omit hR in
theorem rot_div (u0 u1 u2 c : ℝ) : div3 [r00 * u0 + r01 * u1 + r02 * u2, r10 * u0 + r11 * u1 + r12 * u2, r20 * u0 + r21 * u1 + r22 * u2] c = [r00 * (u0 / c) + r01 * (u1 / c) + r02 * (u2 / c), r10 * (u0 / c) + r11 * (u1 / c) + r12 * (u2 / c), r20 * (u0 / c) + r21 * (u1 / c) + r22 * (u2 / c)] := by
  simp only [div3, List.map, List.cons.injEq, and_true]
  refine ⟨?_, ?_, ?_⟩ <;> ring

/-- `R` applied to every row of a 3×3 matrix given as a list of rows: the matrix `m · Rᵀ` -/
def mulRt (r00 r01 r02 r10 r11 r12 r20 r21 r22 : ℝ) (m : List (List ℝ)) : List (List ℝ) :=
  m.map (fun row => match row with
    | [u0, u1, u2] => [r00 * u0 + r01 * u1 + r02 * u2, r10 * u0 + r11 * u1 + r12 * u2, r20 * u0 + r21 * u1 + r22 * u2]
    | _ => [])

/-- **`to_local` is equivariant under rotations of the inertial axes**:
`to_qsw (R p, R v) = to_qsw (p, v) · Rᵀ`, likewise `to_tnw` — for every state, every `R ∈ SO(3)`. -/
theorem local_equivariant (tnw : Bool) (px py pz vx vy vz : ℝ) :
    (if tnw then toTnw ([r00 * px + r01 * py + r02 * pz, r10 * px + r11 * py + r12 * pz, r20 * px + r21 * py + r22 * pz] ++ [r00 * vx + r01 * vy + r02 * vz, r10 * vx + r11 * vy + r12 * vz, r20 * vx + r21 * vy + r22 * vz])
      else toQsw ([r00 * px + r01 * py + r02 * pz, r10 * px + r11 * py + r12 * pz, r20 * px + r21 * py + r22 * pz] ++ [r00 * vx + r01 * vy + r02 * vz, r10 * vx + r11 * vy + r12 * vz, r20 * vx + r21 * vy + r22 * vz]))
    = mulRt r00 r01 r02 r10 r11 r12 r20 r21 r22 (if tnw then toTnw [px, py, pz, vx, vy, vz] else toQsw [px, py, pz, vx, vy, vz]) := by
  cases tnw
  · simp only [toQsw, List.cons_append, List.nil_append, List.take, List.drop, Bool.false_eq_true, if_false]
    simp only [rot_cross hR, rot_norm hR, rot_div]
    simp only [mulRt, div3, cross3, List.map]
  · simp only [toTnw, List.cons_append, List.nil_append, List.take, List.drop, if_true]
    simp only [rot_cross hR, rot_norm hR, rot_div]
    simp only [mulRt, div3, cross3, List.map]

end equivariance

end BeyondVerif.C14
