import BeyondVerif.Lemmas.NodeForestMore

/-!
The executable side of `Model/NodeSpec.lean` (`components`, `isForestHist`, `chainB`, `goodPath`)
agrees with the propositional notions (`Conn`, `Forest`, `IsChain`, `Nodup`).
-/
set_option linter.unusedSimpArgs false
set_option linter.unusedVariables false
namespace BeyondVerif.Node

/-- `comp` labels the nodes `< n` by connected component of the (reversed) history `F` -/
def CompInv (n : Nat) (F : List (Nat × Nat)) (comp : List Nat) : Prop :=
  comp.length = n ∧ ∀ i j, i < n → j < n → (comp.getD i i = comp.getD j j ↔ Conn F i j)

theorem mergeComp_length (comp : List Nat) (a b : Nat) : (mergeComp comp a b).length = comp.length := by
  simp [mergeComp]

theorem mergeComp_getD (comp : List Nat) (a b i : Nat) (hi : i < comp.length) :
    (mergeComp comp a b).getD i i =
      if comp.getD i i = comp.getD b b then comp.getD a a else comp.getD i i := by
  unfold mergeComp
  simp [List.getD_eq_getElem?_getD, List.getElem?_map, List.getElem?_eq_getElem hi]

theorem compInv_step {n : Nat} {F : List (Nat × Nat)} {comp : List Nat} (hinv : CompInv n F comp)
    {a b : Nat} (ha : a < n) (hb : b < n) : CompInv n ((a, b) :: F) (mergeComp comp a b) := by
  obtain ⟨hlen, hc⟩ := hinv
  refine ⟨by rw [mergeComp_length, hlen], ?_⟩
  intro i j hi hj
  rw [mergeComp_getD _ _ _ _ (by omega), mergeComp_getD _ _ _ _ (by omega), conn_cons]
  have hib := hc i b hi hb
  have hjb := hc j b hj hb
  have hia := hc i a hi ha
  have hja := hc j a hj ha
  have haj := hc a j ha hj
  have hij := hc i j hi hj
  by_cases h1 : comp.getD i i = comp.getD b b
  · have ci : Conn F i b := hib.mp h1
    rw [if_pos h1]
    by_cases h2 : comp.getD j j = comp.getD b b
    · have cj : Conn F j b := hjb.mp h2
      rw [if_pos h2]
      exact ⟨fun _ => Or.inl (ci.trans cj.symm), fun _ => rfl⟩
    · rw [if_neg h2]
      constructor
      · intro e; exact Or.inr (Or.inr ⟨ci, haj.mp e⟩)
      · rintro (h | ⟨_, h⟩ | ⟨_, h⟩)
        · exact absurd (hjb.mpr (h.symm.trans ci)) h2
        · exact absurd (hjb.mpr h.symm) h2
        · exact haj.mpr h
  · rw [if_neg h1]
    by_cases h2 : comp.getD j j = comp.getD b b
    · have cj : Conn F j b := hjb.mp h2
      rw [if_pos h2]
      constructor
      · intro e; exact Or.inr (Or.inl ⟨hia.mp e, cj.symm⟩)
      · rintro (h | ⟨h, _⟩ | ⟨h, _⟩)
        · exact absurd (hib.mpr (h.trans cj)) h1
        · exact hia.mpr h
        · exact absurd (hib.mpr h) h1
    · rw [if_neg h2]
      constructor
      · intro e; exact Or.inl (hij.mp e)
      · rintro (h | ⟨_, h⟩ | ⟨h, _⟩)
        · exact hij.mpr h
        · exact absurd (hjb.mpr h.symm) h2
        · exact absurd (hib.mpr h) h1

theorem components_snoc (n : Nat) (hist : List (Nat × Nat)) (e : Nat × Nat) :
    components n (hist ++ [e]) = mergeComp (components n hist) e.1 e.2 := by
  simp [components, List.foldl_append]

theorem compInv_components (n : Nat) : ∀ (rh : List (Nat × Nat)), (∀ e ∈ rh, e.1 < n ∧ e.2 < n) →
    CompInv n rh (components n rh.reverse) := by
  intro rh
  induction rh with
  | nil =>
    intro _
    refine ⟨by simp [components], ?_⟩
    intro i j hi hj
    simp only [components, List.reverse_nil, List.foldl_nil]
    simp only [List.getD_eq_getElem?_getD, List.getElem?_range hi, List.getElem?_range hj,
      Option.getD_some]
    exact ⟨fun e => e ▸ Conn.refl _ _, conn_nil⟩
  | cons e rest ih =>
    obtain ⟨a, b⟩ := e
    intro hn
    rw [List.reverse_cons, components_snoc]
    have hab := hn (a, b) List.mem_cons_self
    exact compInv_step (ih (fun e he => hn e (List.mem_cons_of_mem _ he))) hab.1 hab.2

theorem isForestHist_fold_snd (n : Nat) (l : List (Nat × Nat)) (st : Bool × List Nat) :
    (l.foldl (fun (st : Bool × List Nat) e =>
      let comp := st.2
      (st.1 && e.1 < n && e.2 < n && comp.getD e.1 e.1 != comp.getD e.2 e.2, mergeComp comp e.1 e.2))
      st).2 = l.foldl (fun comp e => mergeComp comp e.1 e.2) st.2 := by
  induction l generalizing st with
  | nil => rfl
  | cons e rest ih => simp only [List.foldl_cons]; rw [ih]

theorem isForestHist_snoc (n : Nat) (hist : List (Nat × Nat)) (e : Nat × Nat) :
    isForestHist n (hist ++ [e]) =
      (isForestHist n hist && decide (e.1 < n) && decide (e.2 < n) &&
        ((components n hist).getD e.1 e.1 != (components n hist).getD e.2 e.2)) := by
  unfold isForestHist
  rw [List.foldl_append]
  simp only [List.foldl_cons, List.foldl_nil]
  rw [isForestHist_fold_snd]
  rfl

/-- the executable forest test implies the propositional one (and the node bound) -/
theorem isForestHist_sound (n : Nat) : ∀ (rh : List (Nat × Nat)), isForestHist n rh.reverse = true →
    Forest rh ∧ ∀ e ∈ rh, e.1 < n ∧ e.2 < n := by
  intro rh
  induction rh with
  | nil => intro _; exact ⟨trivial, by simp⟩
  | cons e rest ih =>
    obtain ⟨a, b⟩ := e
    intro h
    rw [List.reverse_cons, isForestHist_snoc] at h
    simp only [Bool.and_eq_true, decide_eq_true_eq, bne_iff_ne, ne_eq] at h
    obtain ⟨⟨⟨h0, ha⟩, hb⟩, hne⟩ := h
    obtain ⟨hf, hn⟩ := ih h0
    have hinv := compInv_components n rest hn
    refine ⟨⟨fun hc => hne ((hinv.2 a b ha hb).mpr hc), hf⟩, ?_⟩
    intro e he
    rcases List.mem_cons.mp he with he | he
    · subst he; exact ⟨ha, hb⟩
    · exact hn e he

theorem linkedB_iff (hist : List (Nat × Nat)) (u v : Nat) : linkedB hist u v = true ↔ Lk hist.reverse u v := by
  unfold linkedB Lk; simp

theorem chainB_iff (hist : List (Nat × Nat)) : ∀ (p : List Nat),
    chainB hist p = true ↔ p.IsChain (Lk hist.reverse) := by
  intro p
  induction p with
  | nil => simp [chainB]
  | cons a rest ih =>
    cases rest with
    | nil => simp [chainB]
    | cons b l =>
      rw [List.isChain_cons_cons, ← ih, ← linkedB_iff]
      simp [chainB]

end BeyondVerif.Node
