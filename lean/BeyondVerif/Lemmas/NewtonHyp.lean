import Mathlib.Analysis.SpecialFunctions.Trigonometric.DerivHyp
import Mathlib.Analysis.Calculus.Deriv.MeanValue
import Mathlib.Topology.Order.IntermediateValue
import Mathlib.Tactic.Ring
import Mathlib.Tactic.FieldSimp
import Mathlib.Tactic.Linarith

/-!
Newton's iteration for the hyperbolic Kepler equation `e sinh H − H = M`, `e > 1`, from ANY start value.
For `M ≥ 0` the root `r` is non-negative and the function is increasing everywhere and convex on `[0, ∞)`: an iterate below
the root moves up (the step is positive), an iterate at or above the root moves down and stays at or above the root.  So the
iterates cannot keep making steps of at least `tol`: going up they would pass the root, going down they would fall below it.
`M < 0` is the mirror image.  No property of the start value is used — the clamped start value of `Form.M2E` (31f549a) and
every other one terminate.
-/
noncomputable section
namespace BeyondVerif.NewtonHyp
open Real

/-- the hyperbolic Kepler function -/
def F (e M H : ℝ) : ℝ := e * sinh H - H - M
/-- the Newton update, in the form written in forms.py (`next_H`) -/
def G (e M H : ℝ) : ℝ := H + (M - e * sinh H + H) / (e * cosh H - 1)

/-- the iterates -/
def iter (e M : ℝ) (H0 : ℝ) : ℕ → ℝ
  | 0 => H0
  | n + 1 => G e M (iter e M H0 n)

variable {e M : ℝ}

theorem denom_pos (he : 1 < e) (u : ℝ) : 0 < e * cosh u - 1 := by
  have := Real.one_le_cosh u
  nlinarith

theorem G_eq (he : 1 < e) (H : ℝ) : G e M H = H - F e M H / (e * cosh H - 1) := by
  have := (denom_pos he H).ne'
  unfold G F; field_simp; ring

theorem F_strictMono (he : 1 < e) : StrictMono (F e M) := by
  intro a b hab
  have h1 : sinh a - a < sinh b - b := Real.sinh_sub_id_strictMono hab
  have h2 : sinh a < sinh b := Real.sinh_lt_sinh.mpr hab
  unfold F
  nlinarith

/-- a non-negative root for `M ≥ 0` -/
theorem exists_root (he : 1 < e) (hM : 0 ≤ M) : ∃ r, 0 ≤ r ∧ F e M r = 0 := by
  have he1 : 0 < e - 1 := by linarith
  have hb : 0 ≤ M / (e - 1) := div_nonneg hM he1.le
  have hcont : ContinuousOn (F e M) (Set.Icc 0 (M / (e - 1))) := by unfold F; fun_prop
  have hlo : F e M 0 ≤ 0 := by unfold F; simp; exact hM
  have hhi : 0 ≤ F e M (M / (e - 1)) := by
    have hs : M / (e - 1) ≤ sinh (M / (e - 1)) := Real.self_le_sinh_iff.mpr hb
    have hmul : (e - 1) * (M / (e - 1)) = M := by field_simp
    unfold F
    nlinarith
  obtain ⟨r, hr, hfr⟩ := intermediate_value_Icc hb hcont ⟨hlo, hhi⟩
  exact ⟨r, hr.1, hfr⟩

/-- convexity of `sinh` on `[0, ∞)` as a tangent bound -/
theorem sinh_tangent {r H : ℝ} (hr0 : 0 ≤ r) (hrH : r ≤ H) : sinh H - sinh r ≤ cosh H * (H - r) := by
  rcases eq_or_lt_of_le hrH with h | h
  · subst h; simp
  · obtain ⟨c, hc, hd⟩ := exists_deriv_eq_slope sinh h Real.continuous_sinh.continuousOn
      Real.differentiable_sinh.differentiableOn
    rw [Real.deriv_sinh] at hd
    have hcosh : cosh c ≤ cosh H := by
      rw [Real.cosh_le_cosh, abs_of_nonneg (by linarith [hc.1]), abs_of_nonneg (by linarith)]
      exact hc.2.le
    have hpos : 0 < H - r := sub_pos.mpr h
    have : sinh H - sinh r = cosh c * (H - r) := by rw [hd]; field_simp
    rw [this]; exact mul_le_mul_of_nonneg_right hcosh hpos.le

/-- at or above a non-negative root: the step goes down and stays at or above the root -/
theorem step_right (he : 1 < e) {r H : ℝ} (hr0 : 0 ≤ r) (hroot : F e M r = 0) (hrH : r ≤ H) :
    r ≤ G e M H ∧ G e M H ≤ H := by
  have hD := denom_pos he H
  have hF0 : 0 ≤ F e M H := by
    have := (F_strictMono (M := M) he).monotone hrH; rw [hroot] at this; exact this
  have htan := sinh_tangent hr0 hrH
  have hFle : F e M H ≤ (e * cosh H - 1) * (H - r) := by
    have : F e M H = F e M H - F e M r := by rw [hroot]; ring
    rw [this]; unfold F; nlinarith
  rw [G_eq he]
  constructor
  · have : F e M H / (e * cosh H - 1) ≤ H - r := by rw [div_le_iff₀ hD]; linarith
    linarith
  · have : 0 ≤ F e M H / (e * cosh H - 1) := div_nonneg hF0 hD.le
    linarith

/-- below the root: the step goes up -/
theorem step_left (he : 1 < e) {r H : ℝ} (hroot : F e M r = 0) (hHr : H < r) : H < G e M H := by
  have hD := denom_pos he H
  have hF : F e M H < 0 := by have := F_strictMono (M := M) he hHr; rwa [hroot] at this
  rw [G_eq he]
  have : F e M H / (e * cosh H - 1) < 0 := div_neg_of_neg_of_pos hF hD
  linarith

theorem iter_add (e M H0 : ℝ) (k j : ℕ) : iter e M H0 (k + j) = iter e M (iter e M H0 k) j := by
  induction j with
  | zero => rfl
  | succ j ih => rw [← add_assoc, iter, ih]; rfl

/-- **a short step occurs, `M ≥ 0`, any start value** -/
theorem exists_short_step_nonneg (he : 1 < e) (hM : 0 ≤ M) (H0 : ℝ) {tol : ℝ} (htol : 0 < tol) :
    ∃ n : ℕ, |iter e M H0 (n + 1) - iter e M H0 n| < tol := by
  obtain ⟨r, hr0, hroot⟩ := exists_root he hM
  by_contra hno
  simp only [not_exists, not_lt] at hno
  -- descending phase: once at or above the root, `j` long steps descend by `j tol` while staying above the root
  have hdesc : ∀ (X : ℝ), r ≤ X → (∀ j, tol ≤ |iter e M X (j + 1) - iter e M X j|) →
      ∀ j, r ≤ iter e M X j ∧ iter e M X j ≤ X - j * tol := by
    intro X hX hl j
    induction j with
    | zero => exact ⟨hX, by simp [iter]⟩
    | succ j ih =>
      have hs := step_right he hr0 hroot ih.1
      have hj := hl j
      have he1 : iter e M X (j + 1) = G e M (iter e M X j) := rfl
      rw [he1, abs_sub_comm, abs_of_nonneg (sub_nonneg.mpr hs.2)] at hj
      rw [he1]
      refine ⟨hs.1, ?_⟩
      push_cast; linarith [ih.2]
  -- the iterates reach the root side: otherwise `k` long steps ascend by `k tol` while staying below the root
  have hreach : ∃ k, r ≤ iter e M H0 k := by
    by_contra hbelow
    simp only [not_exists, not_le] at hbelow
    have hasc : ∀ k, H0 + k * tol ≤ iter e M H0 k := by
      intro k
      induction k with
      | zero => simp [iter]
      | succ k ih =>
        have hs := step_left he hroot (hbelow k)
        have hk := hno k
        have he1 : iter e M H0 (k + 1) = G e M (iter e M H0 k) := rfl
        rw [he1, abs_of_pos (sub_pos.mpr hs)] at hk
        rw [he1]; push_cast; linarith
    obtain ⟨N, hN⟩ := exists_nat_gt ((r - H0) / tol)
    rw [div_lt_iff₀ htol] at hN
    linarith [hasc N, hbelow N]
  obtain ⟨k, hk⟩ := hreach
  have hl : ∀ j, tol ≤ |iter e M (iter e M H0 k) (j + 1) - iter e M (iter e M H0 k) j| := by
    intro j
    rw [← iter_add, ← iter_add, ← add_assoc]; exact hno (k + j)
  obtain ⟨N, hN⟩ := exists_nat_gt ((iter e M H0 k - r) / tol)
  rw [div_lt_iff₀ htol] at hN
  have := hdesc _ hk hl N
  linarith [this.1, this.2]

theorem G_neg (e M H : ℝ) : G e (-M) (-H) = -G e M H := by
  unfold G; rw [Real.sinh_neg, Real.cosh_neg]; ring

theorem iter_neg (e M H0 : ℝ) (k : ℕ) : iter e (-M) (-H0) k = -iter e M H0 k := by
  induction k with
  | zero => rfl
  | succ k ih => rw [iter, ih, G_neg]; rfl

/-- **a short step occurs: every `e > 1`, every `M`, every start value, every positive tolerance** -/
theorem exists_short_step (he : 1 < e) (M H0 : ℝ) {tol : ℝ} (htol : 0 < tol) :
    ∃ n : ℕ, |iter e M H0 (n + 1) - iter e M H0 n| < tol := by
  rcases le_total 0 M with hM | hM
  · exact exists_short_step_nonneg he hM H0 htol
  · obtain ⟨n, hn⟩ := exists_short_step_nonneg (M := -M) he (by linarith) (-H0) htol
    refine ⟨n, ?_⟩
    have h1 := iter_neg e (-M) (-H0) (n + 1)
    have h2 := iter_neg e (-M) (-H0) n
    rw [neg_neg, neg_neg] at h1 h2
    rw [h1, h2]
    rw [← abs_neg]; convert hn using 2; ring

end BeyondVerif.NewtonHyp
