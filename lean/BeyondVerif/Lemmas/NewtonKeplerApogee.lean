import BeyondVerif.Lemmas.NewtonKepler
import Mathlib.Analysis.SpecialFunctions.Trigonometric.Deriv
import Mathlib.Analysis.SpecialFunctions.Trigonometric.Bounds
import Mathlib.Analysis.Calculus.Deriv.MeanValue
import Mathlib.Analysis.SpecificLimits.Basic
import Mathlib.Analysis.Real.Pi.Bounds
import Mathlib.Tactic.Ring
import Mathlib.Tactic.FieldSimp
import Mathlib.Tactic.Linarith

/-!
Newton's iteration for Kepler's equation near the apogee: the start value `M ± e` of `Form.M2E` for a reduced mean anomaly
within `e` of `±π` lies beyond `±π`, where Kepler's function changes curvature, so the monotone argument of
Lemmas/NewtonKepler.lean does not apply.  There the derivative `1 − e cos E` is at least 1 (`cos E ≤ 0`) and the second
derivative at most `e`, so one Newton step maps an error `d` to at most `e d²/2`: from `d₀ ≤ e < 1` the errors at least
halve with every step and the iterates stay within `3/2 < π/2` of `±π`.
-/
noncomputable section
namespace BeyondVerif.NewtonKepler
open Real

/-- second-order Taylor bound for the sine, lower half -/
theorem sin_taylor2_lower (x y : ℝ) : -((y - x) ^ 2 / 2) ≤ sin y - sin x - cos x * (y - x) := by
  -- ψ z = sin z − sin x − cos x (z − x) + (z − x)²/2 has its minimum 0 at z = x
  let ψ : ℝ → ℝ := fun z => sin z - sin x - cos x * (z - x) + (z - x) ^ 2 / 2
  have hψd : ∀ z, HasDerivAt ψ (cos z - cos x + (z - x)) z := by
    intro z
    have h1 : HasDerivAt (fun z : ℝ => z - x) 1 z := (hasDerivAt_id z).sub_const x
    have h2 : HasDerivAt (fun z : ℝ => (z - x) ^ 2 / 2) (z - x) z := by
      have := (h1.pow 2).div_const 2
      exact this.congr_deriv (by simp)
    have h3 := (((Real.hasDerivAt_sin z).sub_const (sin x)).sub (h1.const_mul (cos x))).add h2
    exact h3.congr_deriv (by ring)
  have hcont : Continuous ψ := continuous_iff_continuousAt.mpr (fun z => (hψd z).continuousAt)
  have hdiff : Differentiable ℝ ψ := fun z => (hψd z).differentiableAt
  have hcc : ∀ z, |cos z - cos x| ≤ |z - x| := fun z => Real.abs_cos_sub_cos_le z x
  have hψx : ψ x = 0 := by simp [ψ]
  have hkey : 0 ≤ ψ y := by
    rcases le_total x y with hxy | hxy
    · have hmono : MonotoneOn ψ (Set.Ici x) := by
        refine monotoneOn_of_deriv_nonneg (convex_Ici x) hcont.continuousOn hdiff.differentiableOn ?_
        intro z hz
        rw [interior_Ici] at hz
        rw [(hψd z).deriv]
        have := hcc z
        rw [abs_of_pos (show 0 < z - x from sub_pos.mpr hz)] at this
        linarith [neg_abs_le (cos z - cos x)]
      have := hmono (Set.mem_Ici.mpr le_rfl) hxy hxy
      rwa [hψx] at this
    · have hanti : AntitoneOn ψ (Set.Iic x) := by
        refine antitoneOn_of_deriv_nonpos (convex_Iic x) hcont.continuousOn hdiff.differentiableOn ?_
        intro z hz
        rw [interior_Iic] at hz
        rw [(hψd z).deriv]
        have := hcc z
        rw [abs_of_neg (show z - x < 0 from sub_neg.mpr hz)] at this
        linarith [le_abs_self (cos z - cos x)]
      have := hanti hxy (Set.mem_Iic.mpr le_rfl) hxy
      rwa [hψx] at this
  simp only [ψ] at hkey
  linarith

/-- **second-order Taylor bound for the sine**: `|sin y − sin x − cos x (y − x)| ≤ (y − x)²/2` -/
theorem sin_taylor2 (x y : ℝ) : |sin y - sin x - cos x * (y - x)| ≤ (y - x) ^ 2 / 2 := by
  rw [abs_le]
  refine ⟨sin_taylor2_lower x y, ?_⟩
  have h := sin_taylor2_lower (x + π) (y + π)
  rw [Real.sin_add_pi, Real.sin_add_pi, Real.cos_add_pi] at h
  have : y + π - (x + π) = y - x := by ring
  rw [this] at h
  linarith

variable {e M : ℝ}

/-- **one Newton step where `cos E ≤ 0`** (so that the derivative `1 − e cos E ≥ 1`): the error is squared, times `e/2` -/
theorem newton_error (he0 : 0 ≤ e) {r E : ℝ} (hroot : F e M r = 0) (hc : cos E ≤ 0) :
    |G e M E - r| ≤ e / 2 * (E - r) ^ 2 := by
  have hD : 1 ≤ 1 - e * cos E := by nlinarith
  have hD0 : 0 < 1 - e * cos E := by linarith
  have hM : M = r - e * sin r := by unfold F at hroot; linarith
  have hG : G e M E - r = -(e * (sin r - sin E - cos E * (r - E))) / (1 - e * cos E) := by
    unfold G; rw [hM]; field_simp; ring
  rw [hG, abs_div, abs_of_pos hD0, abs_neg, abs_mul, abs_of_nonneg he0, div_le_iff₀ hD0]
  have ht := sin_taylor2 E r
  have h2 : (r - E) ^ 2 = (E - r) ^ 2 := by ring
  rw [h2] at ht
  have h3 : 0 ≤ e / 2 * (E - r) ^ 2 := by positivity
  calc e * |sin r - sin E - cos E * (r - E)| ≤ e * ((E - r) ^ 2 / 2) := by gcongr
    _ = e / 2 * (E - r) ^ 2 * 1 := by ring
    _ ≤ e / 2 * (E - r) ^ 2 * (1 - e * cos E) := by gcongr

/-- **the iterates near the apogee**: `c = ±π` (any point around which the cosine is non-positive within `π/2`), a root `r`
within 1 of `c`, a start value within 1 of `c` and within `e` of the root: the errors at least halve with every step and every
iterate stays within `3/2` of `c`. -/
theorem apogee_bounds (he0 : 0 ≤ e) (he : e < 1) {c r E0 : ℝ} (hcos : ∀ u, |u| ≤ π / 2 → cos (c + u) ≤ 0)
    (hroot : F e M r = 0) (hrc : |r - c| ≤ 1) (hE0c : |E0 - c| ≤ 1) (hE0r : |E0 - r| ≤ e) (k : ℕ) :
    |iter e M E0 k - r| ≤ (1 / 2) ^ k ∧ |iter e M E0 k - c| ≤ 3 / 2 := by
  induction k with
  | zero => exact ⟨by simpa [iter] using hE0r.trans he.le, by simpa [iter] using hE0c.trans (by norm_num)⟩
  | succ k ih =>
    obtain ⟨hd, hcen⟩ := ih
    have hpi : (3 : ℝ) / 2 ≤ π / 2 := by have := Real.pi_gt_three; linarith
    have hcE : cos (iter e M E0 k) ≤ 0 := by
      have := hcos (iter e M E0 k - c) (hcen.trans hpi)
      rwa [add_sub_cancel] at this
    have herr := newton_error (M := M) he0 hroot hcE
    have hd1 : |iter e M E0 k - r| ≤ 1 := hd.trans (pow_le_one₀ (by norm_num) (by norm_num))
    have hsq : (iter e M E0 k - r) ^ 2 = |iter e M E0 k - r| ^ 2 := (sq_abs _).symm
    have hnn := abs_nonneg (iter e M E0 k - r)
    have hstep : |iter e M E0 (k + 1) - r| ≤ 1 / 2 * |iter e M E0 k - r| := by
      have : iter e M E0 (k + 1) = G e M (iter e M E0 k) := rfl
      rw [this]
      refine herr.trans ?_
      rw [hsq]
      nlinarith [mul_nonneg he0 hnn]
    have h1 : |iter e M E0 (k + 1) - r| ≤ (1 / 2) ^ (k + 1) := by
      rw [pow_succ]; nlinarith
    refine ⟨h1, ?_⟩
    have h2 : |iter e M E0 (k + 1) - r| ≤ 1 / 2 := by
      refine h1.trans ?_
      rw [pow_succ]
      have : ((1 : ℝ) / 2) ^ k ≤ 1 := pow_le_one₀ (by norm_num) (by norm_num)
      nlinarith
    calc |iter e M E0 (k + 1) - c| = |(iter e M E0 (k + 1) - r) + (r - c)| := by ring_nf
      _ ≤ |iter e M E0 (k + 1) - r| + |r - c| := abs_add_le _ _
      _ ≤ 3 / 2 := by linarith

/-- … hence two consecutive iterates come closer than any positive `tol` -/
theorem apogee_short_step (he0 : 0 ≤ e) (he : e < 1) {c r E0 : ℝ} (hcos : ∀ u, |u| ≤ π / 2 → cos (c + u) ≤ 0)
    (hroot : F e M r = 0) (hrc : |r - c| ≤ 1) (hE0c : |E0 - c| ≤ 1) (hE0r : |E0 - r| ≤ e) {tol : ℝ} (htol : 0 < tol) :
    ∃ n : ℕ, |iter e M E0 (n + 1) - iter e M E0 n| < tol := by
  obtain ⟨n, hn⟩ := exists_pow_lt_of_lt_one (show (0 : ℝ) < tol / 2 by positivity) (show (1 : ℝ) / 2 < 1 by norm_num)
  refine ⟨n, ?_⟩
  have h0 := (apogee_bounds he0 he hcos hroot hrc hE0c hE0r n).1
  have h1 := (apogee_bounds he0 he hcos hroot hrc hE0c hE0r (n + 1)).1
  have hp : ((1 : ℝ) / 2) ^ (n + 1) ≤ (1 / 2) ^ n := by
    rw [pow_succ]; have : (0 : ℝ) ≤ (1 / 2) ^ n := by positivity
    nlinarith
  calc |iter e M E0 (n + 1) - iter e M E0 n| = |(iter e M E0 (n + 1) - r) - (iter e M E0 n - r)| := by ring_nf
    _ ≤ |iter e M E0 (n + 1) - r| + |iter e M E0 n - r| := abs_sub _ _
    _ < tol := by linarith

/-- a short step exists ⇒ there is a FIRST short step (what the `while` loop of `Form.M2E` stops at) -/
theorem first_short_step {u : ℕ → ℝ} {tol : ℝ} (h : ∃ n, |u (n + 1) - u n| < tol) :
    ∃ n, (∀ j < n, tol ≤ |u (j + 1) - u j|) ∧ |u (n + 1) - u n| < tol := by
  classical
  exact ⟨Nat.find h, fun j hj => not_lt.mp (Nat.find_min h hj), Nat.find_spec h⟩

/-- a root of Kepler's function in `[M, π]` for every reduced anomaly `0 ≤ M ≤ π` -/
theorem exists_root_le_pi (he0 : 0 ≤ e) (hM0 : 0 ≤ M) (hMpi : M ≤ π) : ∃ r, M ≤ r ∧ r ≤ π ∧ F e M r = 0 := by
  have hcont : ContinuousOn (F e M) (Set.Icc M π) := by unfold F; fun_prop
  have hlo : F e M M ≤ 0 := by
    have : 0 ≤ sin M := Real.sin_nonneg_of_nonneg_of_le_pi hM0 hMpi
    unfold F; nlinarith
  have hhi : 0 ≤ F e M π := by unfold F; rw [Real.sin_pi]; linarith
  obtain ⟨r, hr, hfr⟩ := intermediate_value_Icc hMpi hcont ⟨hlo, hhi⟩
  exact ⟨r, hr.1, hr.2, hfr⟩

theorem cos_pi_add_le (u : ℝ) (hu : |u| ≤ π / 2) : cos (π + u) ≤ 0 := by
  rw [add_comm, Real.cos_add_pi]
  have := abs_le.mp hu
  have := Real.cos_nonneg_of_neg_pi_div_two_le_of_le (by linarith) this.2
  linarith

theorem cos_neg_pi_add_le (u : ℝ) (hu : |u| ≤ π / 2) : cos (-π + u) ≤ 0 := by
  have : -π + u = (π + u) - 2 * π := by ring
  rw [this, Real.cos_sub_two_pi]; exact cos_pi_add_le u hu

/-- **the gap `π − e < M ≤ π`** (start value `M + e` beyond `π`): a short step occurs -/
theorem exists_short_step_apogee (he0 : 0 ≤ e) (he : e < 1) (hM0 : 0 ≤ M) (hMpi : M ≤ π) (hgap : π ≤ M + e)
    {tol : ℝ} (htol : 0 < tol) : ∃ n : ℕ, |iter e M (M + e) (n + 1) - iter e M (M + e) n| < tol := by
  obtain ⟨r, hMr, hrpi, hroot⟩ := exists_root_le_pi he0 hM0 hMpi
  refine apogee_short_step (c := π) he0 he cos_pi_add_le hroot ?_ ?_ ?_ htol
  · rw [abs_le]; constructor <;> linarith
  · rw [abs_le]; constructor <;> linarith
  · rw [abs_le]; constructor <;> linarith

/-- **`M = −π` exactly** (the one reduced anomaly whose start value `M + e` is not the mirror image of a non-negative one):
root `−π`, start `−π + e` -/
theorem exists_short_step_neg_pi (he0 : 0 ≤ e) (he : e < 1) {tol : ℝ} (htol : 0 < tol) :
    ∃ n : ℕ, |iter e (-π) (-π + e) (n + 1) - iter e (-π) (-π + e) n| < tol := by
  have hroot : F e (-π) (-π) = 0 := by unfold F; rw [Real.sin_neg, Real.sin_pi]; ring
  refine apogee_short_step (c := -π) he0 he cos_neg_pi_add_le hroot ?_ ?_ ?_ htol
  · simp
  · rw [abs_le]; constructor <;> linarith
  · rw [abs_le]; constructor <;> linarith

end BeyondVerif.NewtonKepler
