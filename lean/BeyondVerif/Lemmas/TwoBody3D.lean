import Mathlib.Analysis.SpecialFunctions.Trigonometric.Deriv
import Mathlib.Analysis.SpecialFunctions.Sqrt
import Mathlib.Tactic.Ring
import Mathlib.Tactic.Linarith
import Mathlib.Tactic.LinearCombination

/-!
From the orbital plane to space.  The keplerian → cartesian conversion places the perifocal coordinates `(X, Y)` of the
orbital plane into the frame along two constant vectors `P` (towards the periapsis) and `Q` (90° ahead in the plane) that
depend on `Ω, ω, i` only.  `P, Q` are orthonormal, so the rotation preserves the norm, and it is constant in time, so it
commutes with time derivatives: a planar solution of `r̈ = −µ r/|r|³` stays a solution in space.
-/
noncomputable section
set_option linter.unusedVariables false
namespace BeyondVerif.TwoBody3D
open Real

/-- components of the unit vector towards the periapsis, `R₃(−Ω) R₁(−i) R₃(−ω) e₁` -/
def P1 (i Ω ω : ℝ) : ℝ := cos Ω * cos ω - sin Ω * sin ω * cos i
def P2 (i Ω ω : ℝ) : ℝ := sin Ω * cos ω + cos Ω * sin ω * cos i
def P3 (i Ω ω : ℝ) : ℝ := sin i * sin ω
/-- components of the in-plane unit vector 90° ahead of the periapsis, `R₃(−Ω) R₁(−i) R₃(−ω) e₂` -/
def Q1 (i Ω ω : ℝ) : ℝ := -(cos Ω * sin ω) - sin Ω * cos ω * cos i
def Q2 (i Ω ω : ℝ) : ℝ := -(sin Ω * sin ω) + cos Ω * cos ω * cos i
def Q3 (i Ω ω : ℝ) : ℝ := sin i * cos ω

theorem P_unit (i Ω ω : ℝ) : P1 i Ω ω ^ 2 + P2 i Ω ω ^ 2 + P3 i Ω ω ^ 2 = 1 := by
  have h1 := sin_sq_add_cos_sq Ω; have h2 := sin_sq_add_cos_sq ω; have h3 := sin_sq_add_cos_sq i
  unfold P1 P2 P3
  linear_combination (cos ω ^ 2 + sin ω ^ 2 * cos i ^ 2) * h1 + sin ω ^ 2 * h3 + h2

theorem Q_unit (i Ω ω : ℝ) : Q1 i Ω ω ^ 2 + Q2 i Ω ω ^ 2 + Q3 i Ω ω ^ 2 = 1 := by
  have h1 := sin_sq_add_cos_sq Ω; have h2 := sin_sq_add_cos_sq ω; have h3 := sin_sq_add_cos_sq i
  unfold Q1 Q2 Q3
  linear_combination (sin ω ^ 2 + cos ω ^ 2 * cos i ^ 2) * h1 + cos ω ^ 2 * h3 + h2

theorem PQ_orth (i Ω ω : ℝ) : P1 i Ω ω * Q1 i Ω ω + P2 i Ω ω * Q2 i Ω ω + P3 i Ω ω * Q3 i Ω ω = 0 := by
  have h1 := sin_sq_add_cos_sq Ω; have h3 := sin_sq_add_cos_sq i
  unfold P1 P2 P3 Q1 Q2 Q3
  linear_combination (-(cos ω * sin ω) + sin ω * cos ω * cos i ^ 2) * h1 + sin ω * cos ω * h3

/-- **the rotation preserves the norm**: `|X P + Y Q|² = X² + Y²` -/
theorem norm_sq_lift (i Ω ω X Y : ℝ) :
    (X * P1 i Ω ω + Y * Q1 i Ω ω) ^ 2 + (X * P2 i Ω ω + Y * Q2 i Ω ω) ^ 2 + (X * P3 i Ω ω + Y * Q3 i Ω ω) ^ 2
      = X ^ 2 + Y ^ 2 := by
  linear_combination X ^ 2 * P_unit i Ω ω + Y ^ 2 * Q_unit i Ω ω + 2 * X * Y * PQ_orth i Ω ω

/-- **the rotation preserves the scalar product**: `(X P + Y Q)·(U P + V Q) = X U + Y V` -/
theorem dot_lift (i Ω ω X Y U V : ℝ) :
    (X * P1 i Ω ω + Y * Q1 i Ω ω) * (U * P1 i Ω ω + V * Q1 i Ω ω)
      + (X * P2 i Ω ω + Y * Q2 i Ω ω) * (U * P2 i Ω ω + V * Q2 i Ω ω)
      + (X * P3 i Ω ω + Y * Q3 i Ω ω) * (U * P3 i Ω ω + V * Q3 i Ω ω) = X * U + Y * V := by
  linear_combination X * U * P_unit i Ω ω + Y * V * Q_unit i Ω ω + (X * V + Y * U) * PQ_orth i Ω ω

/-- a constant linear combination of two differentiable functions -/
theorem hasDerivAt_comb {X Y : ℝ → ℝ} {X' Y' t : ℝ} (hX : HasDerivAt X X' t) (hY : HasDerivAt Y Y' t) (p q : ℝ) :
    HasDerivAt (fun t => X t * p + Y t * q) (X' * p + Y' * q) t :=
  (hX.mul_const p).add (hY.mul_const q)

/-- **a planar solution of Newton's equation, rotated by a constant rotation, is a solution in space**: if
`Ẋ = U, Ẏ = V, U̇ = −µ X/ρ³, V̇ = −µ Y/ρ³` with `ρ = √(X² + Y²)`, then each component `r_j = X p_j + Y q_j` of the rotated
position has the rotated velocity `v_j = U p_j + V q_j` as derivative, and `v̇_j = −µ r_j / |r|³` with `|r|` the norm of the
rotated position. -/
theorem lift_newton {X Y U V : ℝ → ℝ} {mu t : ℝ} (i Ω ω : ℝ)
    (hX : HasDerivAt X (U t) t) (hY : HasDerivAt Y (V t) t)
    (hU : HasDerivAt U (-mu * X t / sqrt (X t ^ 2 + Y t ^ 2) ^ 3) t)
    (hV : HasDerivAt V (-mu * Y t / sqrt (X t ^ 2 + Y t ^ 2) ^ 3) t) (p q : ℝ) :
    HasDerivAt (fun t => X t * p + Y t * q) (U t * p + V t * q) t ∧
    HasDerivAt (fun t => U t * p + V t * q)
      (-mu * (X t * p + Y t * q) /
        sqrt ((X t * P1 i Ω ω + Y t * Q1 i Ω ω) ^ 2 + (X t * P2 i Ω ω + Y t * Q2 i Ω ω) ^ 2
          + (X t * P3 i Ω ω + Y t * Q3 i Ω ω) ^ 2) ^ 3) t := by
  refine ⟨hasDerivAt_comb hX hY p q, ?_⟩
  rw [norm_sq_lift]
  exact (hasDerivAt_comb hU hV p q).congr_deriv (by ring)

end BeyondVerif.TwoBody3D
