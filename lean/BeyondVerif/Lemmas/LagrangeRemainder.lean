import Mathlib.LinearAlgebra.Lagrange
import Mathlib.Analysis.Calculus.LocalExtr.Rolle
import Mathlib.Analysis.Calculus.Deriv.Polynomial
import Mathlib.Analysis.SpecialFunctions.Trigonometric.Deriv
import Mathlib.Analysis.Real.Pi.Bounds
import Mathlib.Data.Finset.Sort
import Mathlib.Tactic.Linarith
import Mathlib.Tactic.Positivity
import Mathlib.Tactic.Ring
import Mathlib.Tactic.FieldSimp
import Mathlib.Tactic.NormNum
import Mathlib.Tactic.GCongr

/-! Classical Lagrange interpolation remainder, stated with an explicit derivative chain
(`F 0 = f`, `F (i+1)` the derivative of `F i`), a bound of the nodal product for a sorted
table with steps `≤ H`, and the instance for a sinusoid (one coordinate of a circular orbit). -/

namespace BeyondVerif.C09

open Polynomial

/-- generalized Rolle: n+1 increasing zeros of G 0 give a zero of G n between the first and
the last -/
theorem rolle_iter (n : ℕ) (G : ℕ → ℝ → ℝ) (hG : ∀ i < n, ∀ t, HasDerivAt (G i) (G (i+1) t) t)
    (z : ℕ → ℝ) (hz : ∀ i < n, z i < z (i+1)) (h0 : ∀ i ≤ n, G 0 (z i) = 0) :
    ∃ ξ, z 0 ≤ ξ ∧ ξ ≤ z n ∧ G n ξ = 0 := by
  induction n generalizing G z with
  | zero => exact ⟨z 0, le_rfl, le_rfl, h0 0 le_rfl⟩
  | succ n ih =>
    have key : ∀ i, ∃ c, i < n + 1 → (z i < c ∧ c < z (i+1) ∧ G 1 c = 0) := by
      intro i
      by_cases hi : i < n + 1
      · have hcont : ContinuousOn (G 0) (Set.Icc (z i) (z (i+1))) :=
          fun t _ => (hG 0 (Nat.succ_pos n) t).continuousAt.continuousWithinAt
        obtain ⟨c, hc, hc0⟩ := exists_hasDerivAt_eq_zero (hz i hi) hcont
          ((h0 i hi.le).trans (h0 (i+1) hi).symm) (fun t _ => hG 0 (Nat.succ_pos n) t)
        exact ⟨c, fun _ => ⟨hc.1, hc.2, hc0⟩⟩
      · exact ⟨0, fun h => absurd h hi⟩
    choose c hc using key
    obtain ⟨ξ, h1, h2, h3⟩ := ih (fun j => G (j+1)) (fun i hi t => hG (i+1) (by omega) t) c
      (fun i hi => (hc i (by omega)).2.1.trans (hc (i+1) (by omega)).1)
      (fun i hi => (hc i (by omega)).2.2)
    exact ⟨ξ, ((hc 0 (by omega)).1.le.trans h1), h2.trans (hc n (by omega)).2.1.le, h3⟩

example : ∃ ξ : ℝ, (0 : ℝ) ≤ ξ ∧ ξ ≤ 1 ∧ (2 * ξ - 1 : ℝ) = 0 := by
  have h := rolle_iter 1
    (fun j => if j = 0 then (fun t : ℝ => t * t - t) else (fun t : ℝ => 2 * t - 1))
    (by
      intro i hi t
      obtain rfl : i = 0 := by omega
      have h1 : HasDerivAt (fun t : ℝ => t * t - t) (2 * t - 1) t := by
        have h2 := ((hasDerivAt_id' t).fun_mul (hasDerivAt_id' t)).fun_sub (hasDerivAt_id' t)
        exact h2.congr_deriv (by ring)
      simpa using h1)
    (fun i => (i : ℝ))
    (by intro i _; push_cast; linarith)
    (by
      intro i hi
      obtain rfl | rfl : i = 0 ∨ i = 1 := by omega
      all_goals norm_num)
  norm_num at h
  exact h

/-- `k`-th derivative of a monic polynomial of degree `k` is the constant `k!`. -/
lemma eval_iterate_derivative_monic (w : ℝ[X]) (k : ℕ) (hm : w.Monic) (hd : w.natDegree = k)
    (ξ : ℝ) : eval ξ (derivative^[k] w) = (k.factorial : ℝ) := by
  have h1 : (derivative^[k] w).natDegree ≤ 0 := by
    have := Polynomial.natDegree_iterate_derivative w k
    omega
  rw [Polynomial.eq_C_of_natDegree_le_zero h1, eval_C, Polynomial.coeff_iterate_derivative,
    zero_add, Nat.descFactorial_self]
  have : w.coeff k = 1 := by
    have := hm.coeff_natDegree
    rwa [hd] at this
  rw [this]; simp

/-- Lagrange remainder: nodes v 0 … v (k-1) pairwise distinct, all nodes and x in [a,b],
|f^(k)| ≤ M on [a,b] -/
theorem lagrange_remainder (k : ℕ) (v : ℕ → ℝ) (hv : Set.InjOn v (Finset.range k : Set ℕ))
    (F : ℕ → ℝ → ℝ)
    (hF : ∀ i < k, ∀ t, HasDerivAt (F i) (F (i+1) t) t) (a b M : ℝ)
    (hnodes : ∀ i < k, v i ∈ Set.Icc a b) (x : ℝ) (hx : x ∈ Set.Icc a b)
    (hM : ∀ t ∈ Set.Icc a b, |F k t| ≤ M) :
    |F 0 x - eval x (Lagrange.interpolate (Finset.range k) v (fun i => F 0 (v i)))|
      ≤ M / (k.factorial : ℝ) * ∏ i ∈ Finset.range k, |x - v i| := by
  have hM0 : 0 ≤ M := (abs_nonneg _).trans (hM x hx)
  have hprod0 : 0 ≤ ∏ i ∈ Finset.range k, |x - v i| :=
    Finset.prod_nonneg fun i _ => abs_nonneg _
  by_cases hnode : ∃ j < k, x = v j
  · obtain ⟨j, hj, rfl⟩ := hnode
    rw [Lagrange.eval_interpolate_at_node _ hv (Finset.mem_range.2 hj), sub_self, abs_zero]
    positivity
  · push Not at hnode
    set P : ℝ[X] := Lagrange.interpolate (Finset.range k) v (fun i => F 0 (v i)) with hP
    set w : ℝ[X] := Lagrange.nodal (Finset.range k) v with hw
    have hwx : eval x w ≠ 0 :=
      Lagrange.eval_nodal_not_at_node (fun i hi => hnode i (Finset.mem_range.1 hi))
    set C : ℝ := (F 0 x - eval x P) / eval x w with hC
    let G : ℕ → ℝ → ℝ :=
      fun j t => F j t - eval t (derivative^[j] P) - C * eval t (derivative^[j] w)
    have hG : ∀ i < k, ∀ t, HasDerivAt (G i) (G (i+1) t) t := by
      intro i hi t
      simp only [G, Function.iterate_succ_apply']
      exact ((hF i hi t).fun_sub (Polynomial.hasDerivAt _ t)).fun_sub
        ((Polynomial.hasDerivAt _ t).const_mul C)
    have hGnode : ∀ i < k, G 0 (v i) = 0 := by
      intro i hi
      simp only [G, Function.iterate_zero, id]
      rw [hP, Lagrange.eval_interpolate_at_node _ hv (Finset.mem_range.2 hi), hw,
        Lagrange.eval_nodal_at_node (Finset.mem_range.2 hi)]
      ring
    have hGx : G 0 x = 0 := by
      simp only [G, Function.iterate_zero, id, hC]
      field_simp
      ring
    -- the k+1 zeros, sorted
    classical
    let S : Finset ℝ := insert x ((Finset.range k).image v)
    have hxS : x ∉ (Finset.range k).image v := by
      intro h
      obtain ⟨j, hj, hjx⟩ := Finset.mem_image.1 h
      exact hnode j (Finset.mem_range.1 hj) hjx.symm
    have hcard : S.card = k + 1 := by
      rw [Finset.card_insert_of_notMem hxS, Finset.card_image_of_injOn hv, Finset.card_range]
    have hS0 : ∀ y ∈ S, G 0 y = 0 ∧ y ∈ Set.Icc a b := by
      intro y hy
      rcases Finset.mem_insert.1 hy with rfl | hy
      · exact ⟨hGx, hx⟩
      · obtain ⟨j, hj, rfl⟩ := Finset.mem_image.1 hy
        exact ⟨hGnode j (Finset.mem_range.1 hj), hnodes j (Finset.mem_range.1 hj)⟩
    let e := S.orderEmbOfFin hcard
    let z : ℕ → ℝ := fun i => if h : i < k + 1 then e ⟨i, h⟩ else 0
    have hzS : ∀ i ≤ k, z i ∈ S := by
      intro i hi
      have : i < k + 1 := by omega
      simp only [z, dif_pos this]
      exact Finset.orderEmbOfFin_mem S hcard _
    have hz : ∀ i < k, z i < z (i+1) := by
      intro i hi
      have h1 : i < k + 1 := by omega
      have h2 : i + 1 < k + 1 := by omega
      simp only [z, dif_pos h1, dif_pos h2]
      exact e.strictMono (Fin.mk_lt_mk.2 (Nat.lt_succ_self i))
    obtain ⟨ξ, hξ0, hξ1, hξ⟩ := rolle_iter k G hG z hz (fun i hi => (hS0 _ (hzS i hi)).1)
    have hξab : ξ ∈ Set.Icc a b :=
      ⟨(hS0 _ (hzS 0 (Nat.zero_le k))).2.1.trans hξ0, hξ1.trans (hS0 _ (hzS k le_rfl)).2.2⟩
    have hPk : derivative^[k] P = 0 := by
      apply Polynomial.iterate_derivative_eq_zero_of_degree_lt
      have := Lagrange.degree_interpolate_lt (r := fun i => F 0 (v i)) hv
      rwa [Finset.card_range] at this
    have hwk : eval ξ (derivative^[k] w) = (k.factorial : ℝ) :=
      eval_iterate_derivative_monic w k Lagrange.nodal_monic
        (by rw [hw, Lagrange.natDegree_nodal, Finset.card_range]) ξ
    have hfac : (0 : ℝ) < (k.factorial : ℝ) := by exact_mod_cast k.factorial_pos
    have hCval : C = F k ξ / (k.factorial : ℝ) := by
      simp only [G, hPk, hwk, eval_zero, sub_zero] at hξ
      field_simp
      linarith
    have hmain : F 0 x - eval x P = C * eval x w := by
      rw [hC]; field_simp
    rw [hmain, abs_mul, hCval, abs_div, abs_of_pos hfac, hw, Lagrange.eval_nodal,
      Finset.abs_prod]
    gcongr
    exact hM ξ hξab

/-- strict monotonicity of a table from the strict monotonicity of consecutive entries -/
lemma table_strictMono (k : ℕ) (v : ℕ → ℝ) (hmono : ∀ i, i + 1 < k → v i < v (i+1)) :
    ∀ i j, i < j → j < k → v i < v j := by
  intro i j hij
  induction j, hij using Nat.le_induction with
  | base => exact fun h => hmono i h
  | succ j hj ih => exact fun h => (ih (by omega)).trans (hmono j h)

lemma table_mono (k : ℕ) (v : ℕ → ℝ) (hmono : ∀ i, i + 1 < k → v i < v (i+1)) :
    ∀ i j, i ≤ j → j < k → v i ≤ v j := by
  intro i j hij hj
  rcases Nat.eq_or_lt_of_le hij with rfl | h
  · exact le_rfl
  · exact (table_strictMono k v hmono i j h hj).le

/-- telescoping of the steps -/
lemma table_tele (k : ℕ) (v : ℕ → ℝ) (H : ℝ) (hstep : ∀ i, i + 1 < k → v (i+1) - v i ≤ H) :
    ∀ i j, i ≤ j → j < k → v j - v i ≤ ((j : ℝ) - i) * H := by
  intro i j hij
  induction j, hij using Nat.le_induction with
  | base => intro _; simp
  | succ j hj ih =>
    intro h
    have h1 := ih (by omega)
    have h2 := hstep j h
    push_cast
    linarith

lemma prod_range_add_two (n : ℕ) :
    ∏ j ∈ Finset.range n, ((j : ℝ) + 2) = ((n + 1).factorial : ℝ) := by
  induction n with
  | zero => simp
  | succ n ih =>
    rw [Finset.prod_range_succ, ih, Nat.factorial_succ (n + 1)]
    push_cast
    ring

lemma factorial_mul_factorial_le (a b : ℕ) :
    (a + 1).factorial * (b + 1).factorial ≤ (a + b + 1).factorial := by
  induction b with
  | zero => simp
  | succ b ih =>
    calc (a + 1).factorial * (b + 1 + 1).factorial
        = (b + 2) * ((a + 1).factorial * (b + 1).factorial) := by
          rw [Nat.factorial_succ (b + 1)]; ring
      _ ≤ (a + b + 2) * (a + b + 1).factorial :=
          Nat.mul_le_mul (by omega) ih
      _ = (a + (b + 1) + 1).factorial := by
          rw [show a + (b + 1) + 1 = (a + b + 1) + 1 by ring, Nat.factorial_succ (a + b + 1)]

/-- nodal product for a sorted window with steps ≤ H, x in the interval [v m, v (m+1)] of the
window -/
theorem nodal_prod_bound (k m : ℕ) (v : ℕ → ℝ) (H x : ℝ) (hk : m + 2 ≤ k)
    (hmono : ∀ i, i + 1 < k → v i < v (i+1)) (hstep : ∀ i, i + 1 < k → v (i+1) - v i ≤ H)
    (hx0 : v m ≤ x) (hx1 : x ≤ v (m+1)) :
    ∏ i ∈ Finset.range k, |x - v i| ≤ H ^ k * ((k-1).factorial : ℝ) / 4 := by
  obtain ⟨r, rfl⟩ : ∃ r, k = m + 2 + r := ⟨k - (m + 2), by omega⟩
  have hH : 0 < H := by
    have h1 := hmono m (by omega)
    have h2 := hstep m (by omega)
    linarith
  have hmon := table_mono _ v hmono
  have htele := table_tele _ v H hstep
  -- left factors
  have hA : ∏ i ∈ Finset.range m, |x - v i|
      ≤ ∏ i ∈ Finset.range m, ((((m - 1 - i : ℕ) : ℝ) + 2) * H) := by
    apply Finset.prod_le_prod (fun i _ => abs_nonneg _)
    intro i hi
    have him : i < m := Finset.mem_range.1 hi
    have h1 := hmon i m him.le (by omega)
    have h2 := htele i (m + 1) (by omega) (by omega)
    have h3 : (((m - 1 - i : ℕ) : ℝ) + 2) = ((m + 1 : ℕ) : ℝ) - i := by
      have : ((m - 1 - i : ℕ) : ℝ) + 2 + i = ((m + 1 : ℕ) : ℝ) := by
        exact_mod_cast (by omega : m - 1 - i + 2 + i = m + 1)
      linarith
    rw [h3, abs_of_nonneg (by linarith)]
    linarith
  -- right factors
  have hB : ∏ j ∈ Finset.range r, |x - v (m + 2 + j)|
      ≤ ∏ j ∈ Finset.range r, (((j : ℝ) + 2) * H) := by
    apply Finset.prod_le_prod (fun i _ => abs_nonneg _)
    intro j hj
    have hjr : j < r := Finset.mem_range.1 hj
    have h1 := hmon (m + 1) (m + 2 + j) (by omega) (by omega)
    have h2 := htele m (m + 2 + j) (by omega) (by omega)
    rw [abs_of_nonpos (by linarith)]
    push_cast at h2
    have : ((m : ℝ) + 2 + j - m) * H = ((j : ℝ) + 2) * H := by ring
    linarith
  -- middle factors
  have hmid : |x - v m| * |x - v (m + 1)| ≤ H ^ 2 / 4 := by
    have h2 := hstep m (by omega)
    rw [abs_of_nonneg (by linarith), abs_of_nonpos (by linarith)]
    nlinarith [sq_nonneg (x - v m - (v (m + 1) - x)), sq_nonneg (H - (v (m + 1) - v m)),
      mul_nonneg (sub_nonneg.2 hx0) (sub_nonneg.2 hx1)]
  have hA' : ∏ i ∈ Finset.range m, ((((m - 1 - i : ℕ) : ℝ) + 2) * H)
      = ((m + 1).factorial : ℝ) * H ^ m := by
    rw [Finset.prod_mul_distrib, Finset.prod_const, Finset.card_range,
      Finset.prod_range_reflect (fun j => ((j : ℝ) + 2)) m, prod_range_add_two]
  have hB' : ∏ j ∈ Finset.range r, (((j : ℝ) + 2) * H) = ((r + 1).factorial : ℝ) * H ^ r := by
    rw [Finset.prod_mul_distrib, Finset.prod_const, Finset.card_range, prod_range_add_two]
  rw [hA'] at hA
  rw [hB'] at hB
  have hfac : ((m + 1).factorial : ℝ) * ((r + 1).factorial : ℝ) ≤ ((m + r + 1).factorial : ℝ) := by
    exact_mod_cast factorial_mul_factorial_le m r
  have hA0 : 0 ≤ ∏ i ∈ Finset.range m, |x - v i| := Finset.prod_nonneg fun i _ => abs_nonneg _
  have hB0 : 0 ≤ ∏ j ∈ Finset.range r, |x - v (m + 2 + j)| :=
    Finset.prod_nonneg fun i _ => abs_nonneg _
  have hmid0 : 0 ≤ |x - v m| * |x - v (m + 1)| := by positivity
  rw [Finset.prod_range_add, Finset.prod_range_succ, Finset.prod_range_succ,
    show m + 2 + r - 1 = m + r + 1 by omega]
  calc (∏ i ∈ Finset.range m, |x - v i|) * |x - v m| * |x - v (m + 1)|
        * ∏ j ∈ Finset.range r, |x - v (m + 2 + j)|
      = (∏ i ∈ Finset.range m, |x - v i|) * (|x - v m| * |x - v (m + 1)|)
        * ∏ j ∈ Finset.range r, |x - v (m + 2 + j)| := by ring
    _ ≤ (((m + 1).factorial : ℝ) * H ^ m) * (H ^ 2 / 4) * (((r + 1).factorial : ℝ) * H ^ r) := by
        gcongr
    _ = H ^ (m + 2 + r) * (((m + 1).factorial : ℝ) * ((r + 1).factorial : ℝ)) / 4 := by ring
    _ ≤ H ^ (m + 2 + r) * ((m + r + 1).factorial : ℝ) / 4 := by
        gcongr

example : ∏ i ∈ Finset.range 4, |(3/2 : ℝ) - (i : ℝ)| ≤ (1 : ℝ) ^ 4 * ((4 - 1).factorial : ℝ) / 4 :=
  nodal_prod_bound 4 1 (fun i => (i : ℝ)) 1 (3/2) (by norm_num)
    (fun i _ => by push_cast; linarith) (fun i _ => by push_cast; linarith)
    (by norm_num) (by norm_num)

/-- the two together: error ≤ M H^k / (4k) -/
theorem lagrange_remainder_steps (k m : ℕ) (v : ℕ → ℝ) (F : ℕ → ℝ → ℝ) (H M x : ℝ)
    (hk : m + 2 ≤ k)
    (hmono : ∀ i, i + 1 < k → v i < v (i+1)) (hstep : ∀ i, i + 1 < k → v (i+1) - v i ≤ H)
    (hF : ∀ i < k, ∀ t, HasDerivAt (F i) (F (i+1) t) t)
    (hM : ∀ t ∈ Set.Icc (v 0) (v (k-1)), |F k t| ≤ M)
    (hx0 : v m ≤ x) (hx1 : x ≤ v (m+1)) :
    |F 0 x - eval x (Lagrange.interpolate (Finset.range k) v (fun i => F 0 (v i)))|
      ≤ M * H ^ k / (4 * k) := by
  have hsm := table_strictMono k v hmono
  have hmon := table_mono k v hmono
  have hv : Set.InjOn v (Finset.range k : Set ℕ) := by
    intro i hi j hj hij
    have hi' : i < k := by simpa using hi
    have hj' : j < k := by simpa using hj
    rcases lt_trichotomy i j with h | h | h
    · exact absurd hij (hsm i j h hj').ne
    · exact h
    · exact absurd hij (hsm j i h hi').ne'
  have hnodes : ∀ i < k, v i ∈ Set.Icc (v 0) (v (k-1)) := fun i hi =>
    ⟨hmon 0 i (Nat.zero_le i) hi, hmon i (k-1) (by omega) (by omega)⟩
  have hx : x ∈ Set.Icc (v 0) (v (k-1)) :=
    ⟨(hmon 0 m (Nat.zero_le m) (by omega)).trans hx0,
      hx1.trans (hmon (m+1) (k-1) (by omega) (by omega))⟩
  have hM0 : 0 ≤ M := (abs_nonneg _).trans (hM x hx)
  have h1 := lagrange_remainder k v hv F hF (v 0) (v (k-1)) M hnodes x hx hM
  have h2 := nodal_prod_bound k m v H x hk hmono hstep hx0 hx1
  have hkpos : (0 : ℝ) < k := by exact_mod_cast (by omega : 0 < k)
  have hfpos : (0 : ℝ) < ((k-1).factorial : ℝ) := by exact_mod_cast (k-1).factorial_pos
  have hfac : (k.factorial : ℝ) = k * ((k-1).factorial : ℝ) := by
    obtain ⟨n, rfl⟩ : ∃ n, k = n + 1 := ⟨k - 1, by omega⟩
    rw [Nat.factorial_succ, Nat.add_sub_cancel]
    push_cast; ring
  calc |F 0 x - eval x (Lagrange.interpolate (Finset.range k) v (fun i => F 0 (v i)))|
      ≤ M / (k.factorial : ℝ) * ∏ i ∈ Finset.range k, |x - v i| := h1
    _ ≤ M / (k.factorial : ℝ) * (H ^ k * ((k-1).factorial : ℝ) / 4) := by
        gcongr
    _ = M * H ^ k / (4 * k) := by
        rw [hfac]; field_simp

/-- derivative chain of a sinusoid A cos(ω t + φ) -/
noncomputable def cosChain (A ω φ : ℝ) (j : ℕ) (t : ℝ) : ℝ :=
  A * ω ^ j * Real.cos (ω * t + φ + j * (Real.pi / 2))

theorem cosChain_hasDerivAt (A ω φ : ℝ) (j : ℕ) (t : ℝ) :
    HasDerivAt (cosChain A ω φ j) (cosChain A ω φ (j+1) t) t := by
  have h1 : HasDerivAt (fun t : ℝ => ω * t + φ + j * (Real.pi / 2)) ω t := by
    have := (((hasDerivAt_id' t).const_mul ω).add_const φ).add_const ((j : ℝ) * (Real.pi / 2))
    simpa using this
  have h2 := h1.cos.const_mul (A * ω ^ j)
  refine h2.congr_deriv ?_
  have h3 : ω * t + φ + ((j + 1 : ℕ) : ℝ) * (Real.pi / 2)
      = (ω * t + φ + j * (Real.pi / 2)) + Real.pi / 2 := by push_cast; ring
  simp only [cosChain]
  rw [h3, Real.cos_add_pi_div_two]
  ring

theorem cosChain_bound (A ω φ : ℝ) (j : ℕ) (t : ℝ) : |cosChain A ω φ j t| ≤ |A| * |ω| ^ j := by
  simp only [cosChain]
  rw [abs_mul, abs_mul, abs_pow]
  have := Real.abs_cos_le_one (ω * t + φ + j * (Real.pi / 2))
  have h0 : 0 ≤ |A| * |ω| ^ j := by positivity
  nlinarith

example : |cosChain 1 1 0 0 (1/2)
      - eval (1/2) (Lagrange.interpolate (Finset.range 3) (fun i => (i : ℝ))
          (fun i => cosChain 1 1 0 0 (i : ℝ)))| ≤ 1 * (1 : ℝ) ^ 3 / (4 * (3 : ℕ)) :=
  lagrange_remainder_steps 3 0 (fun i => (i : ℝ)) (cosChain 1 1 0) 1 1 (1/2) (by norm_num)
    (fun i _ => by push_cast; linarith) (fun i _ => by push_cast; linarith)
    (fun i _ t => cosChain_hasDerivAt 1 1 0 i t)
    (fun t _ => by simpa using cosChain_bound 1 1 0 3 t)
    (by norm_num) (by norm_num)

example : |cosChain 1 1 0 0 (1/2)
      - eval (1/2) (Lagrange.interpolate (Finset.range 2) (fun i => (i : ℝ))
          (fun i => cosChain 1 1 0 0 (i : ℝ)))|
      ≤ 1 / ((2 : ℕ).factorial : ℝ) * ∏ i ∈ Finset.range 2, |(1/2 : ℝ) - (i : ℝ)| :=
  lagrange_remainder 2 (fun i => (i : ℝ)) (Nat.cast_injective.injOn) (cosChain 1 1 0)
    (fun i _ t => cosChain_hasDerivAt 1 1 0 i t) 0 1 1
    (fun i hi => by
      obtain rfl | rfl : i = 0 ∨ i = 1 := by omega
      all_goals simp)
    (1/2) (by constructor <;> norm_num)
    (fun t _ => by simpa using cosChain_bound 1 1 0 2 t)

/-- numbers: orbit radius up to GEO (4.3e7 m), step ≤ period/100 (ω H ≤ 2π/100), order 8 :
below 1 mm per coordinate -/
theorem circular_bound_order8 (A ω H : ℝ) (hA : |A| ≤ 43000000) (hω : 0 ≤ ω) (hH : 0 ≤ H)
    (hstep : ω * H ≤ 2 * Real.pi / 100) :
    |A| * |ω| ^ 8 * H ^ 8 / (4 * 8) ≤ 0.001 := by
  have h1 : ω * H ≤ 0.063 := by
    have := Real.pi_lt_d2
    linarith
  have h2 : (ω * H) ^ 8 ≤ (0.063 : ℝ) ^ 8 := pow_le_pow_left₀ (mul_nonneg hω hH) h1 8
  rw [abs_of_nonneg hω]
  calc |A| * ω ^ 8 * H ^ 8 / (4 * 8) = |A| * (ω * H) ^ 8 / 32 := by ring
    _ ≤ 43000000 * (0.063 : ℝ) ^ 8 / 32 := by gcongr
    _ ≤ 0.001 := by norm_num

example : |(42164000 : ℝ)| * |(7.292e-5 : ℝ)| ^ 8 * (600 : ℝ) ^ 8 / (4 * 8) ≤ 0.001 :=
  circular_bound_order8 42164000 7.292e-5 600 (by norm_num [abs_of_nonneg]) (by norm_num)
    (by norm_num) (by
      have := Real.pi_gt_d2
      norm_num at this ⊢
      linarith)

/-- the chain instance: interpolating one coordinate `A cos(ω t + φ)` of a circular orbit on a
sorted window of `k` nodes with steps `≤ H` -/
theorem cosChain_interp_bound (A ω φ : ℝ) (k m : ℕ) (v : ℕ → ℝ) (H x : ℝ) (hk : m + 2 ≤ k)
    (hmono : ∀ i, i + 1 < k → v i < v (i+1)) (hstep : ∀ i, i + 1 < k → v (i+1) - v i ≤ H)
    (hx0 : v m ≤ x) (hx1 : x ≤ v (m+1)) :
    |cosChain A ω φ 0 x - eval x (Lagrange.interpolate (Finset.range k) v
        (fun i => cosChain A ω φ 0 (v i)))| ≤ |A| * |ω| ^ k * H ^ k / (4 * k) :=
  lagrange_remainder_steps k m v (cosChain A ω φ) H (|A| * |ω| ^ k) x hk hmono hstep
    (fun i _ t => cosChain_hasDerivAt A ω φ i t) (fun t _ => cosChain_bound A ω φ k t) hx0 hx1

theorem cosChain_zero (A ω φ t : ℝ) : cosChain A ω φ 0 t = A * Real.cos (ω * t + φ) := by
  simp [cosChain]

end BeyondVerif.C09
