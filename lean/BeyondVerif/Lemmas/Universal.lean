import Mathlib.Analysis.SpecialFunctions.Trigonometric.Basic
import Mathlib.Analysis.SpecialFunctions.Sqrt
import Mathlib.Analysis.SpecialFunctions.Trigonometric.DerivHyp
import Mathlib.Tactic.Ring
import Mathlib.Tactic.FieldSimp
import Mathlib.Tactic.Linarith
import Mathlib.Tactic.LinearCombination

/-!
The universal-variable formulation of the two-body problem (Bate–Mueller–White / Curtis) reduces to Kepler's equations.
With the Stumpff functions `C, S` (`stumpC`, `stumpS` below: the textbook definitions by cases `z > 0`, `z < 0`, `z = 0` —
the same case split and closed forms as `lamC`, `lamS` of C19, which are translated from beyond/utils/lambert.py; C19's
modules cannot be imported next to C05's because Generated/LeoFnR and Generated/PropagR both define `BeyondVerif.R.meanMotion`,
and the reference solution of this property is meant to be independent of the library anyway) and `z = α χ²`:

* ellipse, `a = s² > 0`, `χ = s (E − E₀)`, `z = (E − E₀)²`: the universal Kepler function
  `σ₀ χ² C(z) + (1 − α r₀) χ³ S(z) + r₀ χ` equals `s³ [(E − e sin E) − (E₀ − e sin E₀)]`;
* hyperbola, `a = −s² < 0`, `χ = s (H − H₀)`, `z = −(H − H₀)²`: it equals `s³ [(e sinh H − H) − (e sinh H₀ − H₀)]`;
* the Lagrange coefficients `f = 1 − χ² C/r₀`, `g = Δt − χ³ S/√µ` carry the perifocal state at `E₀` to the perifocal
  position at `E`.
-/
noncomputable section
set_option linter.unusedVariables false
namespace BeyondVerif.Universal

/-- Stumpff function `C(z) = (1 − cos √z)/z`, `(cosh √−z − 1)/(−z)`, `1/2` -/
def stumpC (z : ℝ) : ℝ :=
  if 0 < z then (1 - Real.cos (Real.sqrt z)) / z
  else if z < 0 then (Real.cosh (Real.sqrt (-z)) - 1) / (-z) else 1 / 2

/-- Stumpff function `S(z) = (√z − sin √z)/√z³`, `(sinh √−z − √−z)/√−z³`, `1/6` -/
def stumpS (z : ℝ) : ℝ :=
  if 0 < z then (Real.sqrt z - Real.sin (Real.sqrt z)) / Real.sqrt z ^ 3
  else if z < 0 then (Real.sinh (Real.sqrt (-z)) - Real.sqrt (-z)) / Real.sqrt (-z) ^ 3 else 1 / 6

theorem stumpC_pos {z : ℝ} (hz : 0 < z) : stumpC z = (1 - Real.cos (Real.sqrt z)) / z := by
  simp only [stumpC, if_pos hz]
theorem stumpC_neg {z : ℝ} (hz : z < 0) : stumpC z = (Real.cosh (Real.sqrt (-z)) - 1) / (-z) := by
  simp only [stumpC, if_neg (not_lt.mpr hz.le), if_pos hz]
theorem stumpS_pos {z : ℝ} (hz : 0 < z) : stumpS z = (Real.sqrt z - Real.sin (Real.sqrt z)) / Real.sqrt z ^ 3 := by
  simp only [stumpS, if_pos hz]
theorem stumpS_neg {z : ℝ} (hz : z < 0) :
    stumpS z = (Real.sinh (Real.sqrt (-z)) - Real.sqrt (-z)) / Real.sqrt (-z) ^ 3 := by
  simp only [stumpS, if_neg (not_lt.mpr hz.le), if_pos hz]

/-! ### Stumpff functions at `z = ±d²` -/

theorem stumpC_sq {d : ℝ} (hd : d ≠ 0) : stumpC (d ^ 2) = (1 - Real.cos d) / d ^ 2 := by
  rw [stumpC_pos (by positivity), Real.sqrt_sq_eq_abs, Real.cos_abs]

theorem stumpS_sq {d : ℝ} (hd : d ≠ 0) : stumpS (d ^ 2) = (d - Real.sin d) / d ^ 3 := by
  rw [stumpS_pos (by positivity), Real.sqrt_sq_eq_abs]
  rcases lt_or_gt_of_ne hd with h | h
  · rw [abs_of_neg h, Real.sin_neg, show (-d) ^ 3 = -(d ^ 3) by ring,
      show (-d - -Real.sin d) = -(d - Real.sin d) by ring, neg_div_neg_eq]
  · rw [abs_of_pos h]

theorem stumpC_neg_sq {d : ℝ} (hd : d ≠ 0) : stumpC (-(d ^ 2)) = (Real.cosh d - 1) / d ^ 2 := by
  have : -(d ^ 2) < 0 := by have := sq_pos_of_ne_zero hd; linarith
  rw [stumpC_neg this, neg_neg, Real.sqrt_sq_eq_abs, Real.cosh_abs]

theorem stumpS_neg_sq {d : ℝ} (hd : d ≠ 0) : stumpS (-(d ^ 2)) = (Real.sinh d - d) / d ^ 3 := by
  have : -(d ^ 2) < 0 := by have := sq_pos_of_ne_zero hd; linarith
  rw [stumpS_neg this, neg_neg, Real.sqrt_sq_eq_abs]
  rcases lt_or_gt_of_ne hd with h | h
  · rw [abs_of_neg h, Real.sinh_neg, show (-d) ^ 3 = -(d ^ 3) by ring,
      show (-Real.sinh d - -d) = -(Real.sinh d - d) by ring, neg_div_neg_eq]
  · rw [abs_of_pos h]

/-! ### the universal Kepler function and the Lagrange coefficients -/

/-- the right-hand side of the universal Kepler equation `√µ Δt = σ₀ χ² C(αχ²) + (1 − α r₀) χ³ S(αχ²) + r₀ χ`
(`σ₀ = r₀·v₀/√µ`) -/
def uF (alpha r0 sigma0 chi : ℝ) : ℝ :=
  sigma0 * chi ^ 2 * stumpC (alpha * chi ^ 2) + (1 - alpha * r0) * chi ^ 3 * stumpS (alpha * chi ^ 2) + r0 * chi

/-- Lagrange coefficient `f = 1 − χ² C(αχ²)/r₀` -/
def lagF (alpha r0 chi : ℝ) : ℝ := 1 - chi ^ 2 / r0 * stumpC (alpha * chi ^ 2)
/-- Lagrange coefficient `g = Δt − χ³ S(αχ²)/√µ` -/
def lagG (alpha sqrtmu dt chi : ℝ) : ℝ := dt - chi ^ 3 / sqrtmu * stumpS (alpha * chi ^ 2)

/-- **ellipse**: the universal Kepler function along `χ = s (E − E₀)` is `s³` times the difference of Kepler's function -/
theorem uF_elliptic (s e E0 E : ℝ) (hs : 0 < s) :
    uF (1 / s ^ 2) (s ^ 2 * (1 - e * Real.cos E0)) (s * e * Real.sin E0) (s * (E - E0))
      = s ^ 3 * ((E - e * Real.sin E) - (E0 - e * Real.sin E0)) := by
  have hs' := hs.ne'
  by_cases hd : E - E0 = 0
  · have : E = E0 := by linarith
    subst this; simp [uF]
  · have hz : 1 / s ^ 2 * (s * (E - E0)) ^ 2 = (E - E0) ^ 2 := by field_simp
    unfold uF
    rw [hz, stumpC_sq hd, stumpS_sq hd]
    obtain ⟨d, rfl⟩ : ∃ d, E = E0 + d := ⟨E - E0, by ring⟩
    have hd' : d ≠ 0 := by simpa using hd
    rw [add_sub_cancel_left, Real.sin_add]
    field_simp
    ring

/-- **hyperbola**: the universal Kepler function along `χ = s (H − H₀)`, `a = −s²` -/
theorem uF_hyperbolic (s e H0 H : ℝ) (hs : 0 < s) :
    uF (1 / (-(s ^ 2))) (-(s ^ 2) * (1 - e * Real.cosh H0)) (s * e * Real.sinh H0) (s * (H - H0))
      = s ^ 3 * ((e * Real.sinh H - H) - (e * Real.sinh H0 - H0)) := by
  have hs' := hs.ne'
  by_cases hd : H - H0 = 0
  · have : H = H0 := by linarith
    subst this; simp [uF]
  · have hz : 1 / (-(s ^ 2)) * (s * (H - H0)) ^ 2 = -((H - H0) ^ 2) := by field_simp
    unfold uF
    rw [hz, stumpC_neg_sq hd, stumpS_neg_sq hd]
    obtain ⟨d, rfl⟩ : ∃ d, H = H0 + d := ⟨H - H0, by ring⟩
    have hd' : d ≠ 0 := by simpa using hd
    rw [add_sub_cancel_left, Real.sinh_add]
    field_simp
    ring

/-- **ellipse: `f, g` carry the perifocal state at `E₀` to the perifocal position at `E`** (`q` stands for `√(1−e²)`) -/
theorem fg_elliptic (s n e q E0 E dt : ℝ) (hs : 0 < s) (hn : n ≠ 0) (hD : 1 - e * Real.cos E0 ≠ 0)
    (hK : (E - e * Real.sin E) - (E0 - e * Real.sin E0) = n * dt) :
    s ^ 2 * (Real.cos E - e) =
        lagF (1 / s ^ 2) (s ^ 2 * (1 - e * Real.cos E0)) (s * (E - E0)) * (s ^ 2 * (Real.cos E0 - e))
        + lagG (1 / s ^ 2) (n * s ^ 3) dt (s * (E - E0)) * (s ^ 2 * (-Real.sin E0 * (n / (1 - e * Real.cos E0)))) ∧
    s ^ 2 * q * Real.sin E =
        lagF (1 / s ^ 2) (s ^ 2 * (1 - e * Real.cos E0)) (s * (E - E0)) * (s ^ 2 * q * Real.sin E0)
        + lagG (1 / s ^ 2) (n * s ^ 3) dt (s * (E - E0)) * (s ^ 2 * q * (Real.cos E0 * (n / (1 - e * Real.cos E0)))) := by
  have hs' := hs.ne'
  have hdt : dt = ((E - e * Real.sin E) - (E0 - e * Real.sin E0)) / n := by field_simp; linarith
  by_cases hd : E - E0 = 0
  · have hE : E = E0 := by linarith
    subst hE
    have : dt = 0 := by rw [hdt]; simp
    subst this
    simp [lagF, lagG]
  · have hz : 1 / s ^ 2 * (s * (E - E0)) ^ 2 = (E - E0) ^ 2 := by field_simp
    unfold lagF lagG
    rw [hz, stumpC_sq hd, stumpS_sq hd, hdt]
    obtain ⟨d, rfl⟩ : ∃ d, E = E0 + d := ⟨E - E0, by ring⟩
    have hd' : d ≠ 0 := by simpa using hd
    rw [add_sub_cancel_left, Real.sin_add, Real.cos_add]
    have h0 := Real.sin_sq_add_cos_sq E0
    have hD2 : 1 - Real.cos E0 * e ≠ 0 := by rwa [mul_comm]
    constructor
    · field_simp
      linear_combination (e * (1 - Real.cos d)) * h0
    · field_simp
      ring

/-- **hyperbola: `f, g` carry the perifocal state at `H₀` to the perifocal position at `H`** (`a = −s²`, `q` for `√(e²−1)`) -/
theorem fg_hyperbolic (s n e q H0 H dt : ℝ) (hs : 0 < s) (hn : n ≠ 0) (hD : e * Real.cosh H0 - 1 ≠ 0)
    (hK : (e * Real.sinh H - H) - (e * Real.sinh H0 - H0) = n * dt) :
    -(s ^ 2) * (Real.cosh H - e) =
        lagF (1 / (-(s ^ 2))) (-(s ^ 2) * (1 - e * Real.cosh H0)) (s * (H - H0)) * (-(s ^ 2) * (Real.cosh H0 - e))
        + lagG (1 / (-(s ^ 2))) (n * s ^ 3) dt (s * (H - H0)) * (-(s ^ 2) * (Real.sinh H0 * (n / (e * Real.cosh H0 - 1)))) ∧
    -(-(s ^ 2)) * q * Real.sinh H =
        lagF (1 / (-(s ^ 2))) (-(s ^ 2) * (1 - e * Real.cosh H0)) (s * (H - H0)) * (-(-(s ^ 2)) * q * Real.sinh H0)
        + lagG (1 / (-(s ^ 2))) (n * s ^ 3) dt (s * (H - H0)) *
            (-(-(s ^ 2)) * q * (Real.cosh H0 * (n / (e * Real.cosh H0 - 1)))) := by
  have hs' := hs.ne'
  have hD' : 1 - e * Real.cosh H0 ≠ 0 := fun h => hD (by linarith)
  have hdt : dt = ((e * Real.sinh H - H) - (e * Real.sinh H0 - H0)) / n := by field_simp; linarith
  by_cases hd : H - H0 = 0
  · have hE : H = H0 := by linarith
    subst hE
    have : dt = 0 := by rw [hdt]; simp
    subst this
    simp [lagF, lagG]
  · have hz : 1 / (-(s ^ 2)) * (s * (H - H0)) ^ 2 = -((H - H0) ^ 2) := by field_simp
    unfold lagF lagG
    rw [hz, stumpC_neg_sq hd, stumpS_neg_sq hd, hdt, show e * Real.cosh H0 - 1 = -(1 - e * Real.cosh H0) by ring]
    obtain ⟨d, rfl⟩ : ∃ d, H = H0 + d := ⟨H - H0, by ring⟩
    have hd' : d ≠ 0 := by simpa using hd
    rw [add_sub_cancel_left, Real.sinh_add, Real.cosh_add]
    have h0 := Real.cosh_sq H0
    have hD2 : 1 - Real.cosh H0 * e ≠ 0 := by rwa [mul_comm]
    constructor
    · field_simp
      linear_combination (e * (Real.cosh d - 1)) * h0
    · field_simp
      ring

end BeyondVerif.Universal
