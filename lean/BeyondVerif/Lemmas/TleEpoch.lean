import BeyondVerif.Lemmas.Calendar
import BeyondVerif.Lemmas.TleQuant
/-! Calendar lemmas for the epoch of a TLE: CPython's `ord2ymd` (shared with `Model/Sgp4Wrap.lean`) returns the year and the
day of the year of every day of every year; `epochOfAbs` is within half a printed unit of the instant. -/
namespace BeyondVerif.Tle
open BeyondVerif.Sgp4Wrap (daysBeforeYear yearDay yearDay_spec)

theorem isLeap_bridge (y : Nat) : Tle.isLeap y = true ↔ Sgp4Wrap.isLeap y := by
  unfold Tle.isLeap Sgp4Wrap.isLeap
  simp

theorem dBY_succ (y : Nat) (hy : 1 ≤ y) :
    daysBeforeYear (y + 1) = daysBeforeYear y + (if Sgp4Wrap.isLeap y then 366 else 365) := by
  unfold daysBeforeYear
  have e : y + 1 - 1 = (y - 1) + 1 := by omega
  rw [e]
  generalize y - 1 = z at *
  have hz : y = z + 1 := by omega
  subst hz
  have q4 : (z + 1) / 4 = z / 4 + (if (z + 1) % 4 = 0 then 1 else 0) := by split <;> omega
  have q100 : (z + 1) / 100 = z / 100 + (if (z + 1) % 100 = 0 then 1 else 0) := by split <;> omega
  have q400 : (z + 1) / 400 = z / 400 + (if (z + 1) % 400 = 0 then 1 else 0) := by split <;> omega
  have l100 : z / 100 ≤ z / 4 := by omega
  have l100' : z / 100 ≤ z * 365 := by omega
  rw [q4, q100, q400]
  by_cases h : Sgp4Wrap.isLeap (z + 1)
  · rw [if_pos h]; unfold Sgp4Wrap.isLeap at h
    obtain ⟨h4, h1 | h1⟩ := h
    · have : ¬ ((z + 1) % 400 = 0) := by omega
      simp only [h4, h1, this, if_true, if_false]; omega
    · have : (z + 1) % 100 = 0 := by omega
      simp only [h4, h1, this, if_true]; omega
  · rw [if_neg h]; unfold Sgp4Wrap.isLeap at h
    by_cases h4 : (z + 1) % 4 = 0
    · have h100 : (z + 1) % 100 = 0 := by
        refine Decidable.byContradiction fun hc => h ⟨h4, Or.inl hc⟩
      have h400 : ¬ (z + 1) % 400 = 0 := fun hc => h ⟨h4, Or.inr hc⟩
      simp only [h4, h100, h400, if_true, if_false]; omega
    · have h100 : ¬ (z + 1) % 100 = 0 := by omega
      have h400 : ¬ (z + 1) % 400 = 0 := by omega
      simp only [h4, h100, h400, if_false]; omega

theorem dBY_mono {a b : Nat} (ha : 1 ≤ a) (h : a ≤ b) : daysBeforeYear a ≤ daysBeforeYear b := by
  induction b with
  | zero => omega
  | succ b ih =>
    by_cases hb : a = b + 1
    · subst hb; exact Nat.le_refl _
    · have := ih (by omega)
      have h2 := dBY_succ b (by omega)
      omega

theorem yearDay_of_year (Y d : Nat) (hY : 1 ≤ Y) (hd : d < (if Sgp4Wrap.isLeap Y then 366 else 365)) :
    (yearDay (daysBeforeYear Y + d + 1)).1 = Y ∧ (yearDay (daysBeforeYear Y + d + 1)).2.2 = d := by
  obtain ⟨h1, h2, h3, h4⟩ := yearDay_spec (daysBeforeYear Y + d + 1) (by omega)
  generalize (yearDay (daysBeforeYear Y + d + 1)).1 = y' at *
  generalize (yearDay (daysBeforeYear Y + d + 1)).2.2 = d' at *
  generalize (yearDay (daysBeforeYear Y + d + 1)).2.1 = lp at *
  have hlen : d' < (if Sgp4Wrap.isLeap y' then 366 else 365) := by
    cases lp with
    | true => have := h3.mp rfl; simp [this] at h2 ⊢; exact h2
    | false =>
      have : ¬ Sgp4Wrap.isLeap y' := fun h => by have := h3.mpr h; cases this
      simp [this] at h2 ⊢; exact h2
  have hy : y' = Y := by
    rcases Nat.lt_trichotomy y' Y with hlt | heq | hgt
    · exfalso
      have m := dBY_mono (a := y' + 1) (b := Y) (by omega) (by omega)
      have s := dBY_succ y' h4
      omega
    · exact heq
    · exfalso
      have m := dBY_mono (a := Y + 1) (b := y') (by omega) (by omega)
      have s := dBY_succ Y hY
      omega
  subst hy
  exact ⟨rfl, by omega⟩

theorem absOfYear_eq (Y : Nat) (us : Int) : absOfYear Y us = (daysBeforeYear Y : Int) * 86400000000 + us := rfl

/-- the epoch written for the instant `us` microseconds into year `Y` (any year CPython's calendar knows): the two-digit
year is `Y % 100`, the day field is `day of year + f · 1e-8` with `f` the day fraction rounded to within half a unit -/
theorem epochOfAbs_spec (Y us : Nat) (hY : 1 ≤ Y) (hus : us < (if Sgp4Wrap.isLeap Y then 366 else 365) * 86400000000) :
    (epochOfAbs (absOfYear Y us)).1 = Y % 100 ∧
    ∃ f : Nat, f ≤ 100000000 ∧ (epochOfAbs (absOfYear Y us)).2 = (us / 86400000000 + 1) * 100000000 + f ∧
      2 * (f * 864) ≤ 2 * (us % 86400000000) + 864 ∧ 2 * (us % 86400000000) ≤ 2 * (f * 864) + 864 := by
  have hd : us / 86400000000 < (if Sgp4Wrap.isLeap Y then 366 else 365) := by split at hus <;> simp_all <;> omega
  obtain ⟨y1, y2⟩ := yearDay_of_year Y (us / 86400000000) hY hd
  have ht : (absOfYear Y us).toNat = daysBeforeYear Y * 86400000000 + us := by
    rw [absOfYear_eq]
    have : (daysBeforeYear Y : Int) * 86400000000 + (us : Int) = ((daysBeforeYear Y * 86400000000 + us : Nat) : Int) := by
      simp
    rw [this, Int.toNat_natCast]
  have hdiv : (daysBeforeYear Y * 86400000000 + us) / 86400000000 = daysBeforeYear Y + us / 86400000000 := by omega
  have hmod : (daysBeforeYear Y * 86400000000 + us) % 86400000000 = us % 86400000000 := by omega
  unfold epochOfAbs
  simp only [ht, hdiv, hmod, y1, y2]
  refine ⟨trivial, (roundDiv ((us % 86400000000 * 100000000 : Nat) : Int) 86400000000).toNat, ?_, rfl, ?_⟩
  · have hm : us % 86400000000 < 86400000000 := Nat.mod_lt _ (by omega)
    exact rdN_le _ 86400000000 100000000 (by omega) (by omega)
  · obtain ⟨b1, b2⟩ := roundDiv_bounds ((us % 86400000000 * 100000000 : Nat) : Int) 86400000000 (by omega)
    have hn := roundDiv_nonneg ((us % 86400000000 * 100000000 : Nat) : Int) 86400000000 (by omega) (by omega)
    generalize us % 86400000000 = u at *
    generalize roundDiv ((u * 100000000 : Nat) : Int) 86400000000 = R at *
    omega

end BeyondVerif.Tle
