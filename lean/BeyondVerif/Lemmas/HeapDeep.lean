import BeyondVerif.Lemmas.Heap
/-! Deep copies (`copy.deepcopy` of a metadata container, pickle round trip): everything the copy refers to is new. -/
namespace BeyondVerif.Heap

/-- invariant of a deep copy in progress, relative to the heap `h0` it started from: `h0` is intact, every
address stored in a new cell satisfies `P`, and the memo only points to new cells -/
structure DeepInv (P : Nat → Prop) (h0 : Heap) (st : DState) : Prop where
  pres : Pres h0 st.h
  closed : ClosedP P h0 st.h
  memo : ∀ p ∈ st.m, h0.length ≤ p.2

def DeepOK (P : Nat → Prop) (h0 : Heap) (f : DState → Ref → DState × Option Ref) : Prop :=
  ∀ st r, DeepInv P h0 st → DeepInv P h0 (f st r).1 ∧ ∀ x, (f st r).2 = some (.addr x) → h0.length ≤ x

theorem cloneFr_inv {P h0} (st : DState) (f : Fr) (inv : DeepInv P h0 st) : DeepInv P h0 (cloneFr st f).1 := by
  unfold cloneFr
  split
  · exact inv
  · split
    · exact inv
    · exact ⟨inv.pres.alloc .clone, inv.closed.alloc .clone (by simp [refsOf]), inv.memo⟩

theorem placeholder_inv {P h0} (st : DState) (a : Nat) (inv : DeepInv P h0 st) : DeepInv P h0 (placeholder st a) := by
  refine ⟨inv.pres.alloc (.arr 0), inv.closed.alloc (.arr 0) (by simp [refsOf]), ?_⟩
  intro p hp
  simp [placeholder] at hp
  rcases hp with rfl | hp
  · exact inv.pres.1
  · exact inv.memo p hp

theorem finish_inv {P h0} (st : DState) (n : Nat) (c : Cell) (inv : DeepInv P h0 st) (hn : h0.length ≤ n)
    (hc : ∀ x ∈ refsOf c, P x) : DeepInv P h0 (finish st n c) :=
  ⟨inv.pres.wr hn c, inv.closed.wr n c hc, inv.memo⟩

theorem deepList_inv {P h0 f} (hf : DeepOK P h0 f) (rs : List Ref) (st : DState) (inv : DeepInv P h0 st) :
    DeepInv P h0 (deepList f st rs).1 ∧
    ∀ rs', (deepList f st rs).2 = some rs' → rs'.length = rs.length ∧ ∀ x, Ref.addr x ∈ rs' → h0.length ≤ x := by
  induction rs generalizing st with
  | nil =>
    simp only [deepList]
    refine ⟨inv, fun rs' h => ?_⟩
    simp at h; subst h; simp
  | cons r rest ih =>
    have h1 := hf st r inv
    unfold deepList
    split
    · rename_i st1 he
      rw [he] at h1
      exact ⟨h1.1, fun rs' h => by simp at h⟩
    · rename_i st1 r' he
      rw [he] at h1
      have h2 := ih st1 h1.1
      split
      · rename_i st2 he2
        rw [he2] at h2
        exact ⟨h2.1, fun rs' h => by simp at h⟩
      · rename_i st2 rest' he2
        rw [he2] at h2
        refine ⟨h2.1, fun rs' h => ?_⟩
        simp at h; subst h
        obtain ⟨hl, hx⟩ := h2.2 rest' rfl
        refine ⟨by simp [hl], fun x hm => ?_⟩
        rcases List.mem_cons.mp hm with heq | hm
        · exact h1.2 x (by simp [heq])
        · exact hx x hm

theorem mem_zip_snd {α β : Type} {ks : List α} {vs : List β} {k : α} {v : β} (h : (k, v) ∈ ks.zip vs) : v ∈ vs :=
  (List.of_mem_zip h).2

theorem deepRef_step {P : Nat → Prop} {h0 : Heap} (hP : ∀ x, h0.length ≤ x → P x) (fuel : Nat)
    (ih : DeepOK P h0 (deepRef fuel)) : DeepOK P h0 (deepRef (fuel + 1)) := by
  intro st r inv
  unfold deepRef
  split
  · -- a Frame object
    exact ⟨cloneFr_inv st _ inv, fun x h => by simp at h⟩
  · -- an Infos helper: a marker cell is allocated and entered in the memo, then the object it is bound to is duplicated (or found in the memo)
    rename_i o g
    split
    · have h1 := ih st (.addr o) inv
      split
      · rename_i st2 o' he
        rw [he] at h1
        exact ⟨h1.1, fun x h => by simp at h⟩
      · rename_i st2 r' hne he
        rw [he] at h1
        exact ⟨h1.1, fun x h => by simp at h⟩
    · have inv1 : DeepInv P h0 { st with h := st.h ++ [.clone], m := (g, st.h.length) :: st.m } := by
        refine ⟨inv.pres.alloc .clone, inv.closed.alloc .clone (by simp [refsOf]), ?_⟩
        intro p hp
        simp at hp
        rcases hp with rfl | hp
        · exact inv.pres.1
        · exact inv.memo p hp
      have h1 := ih _ (.addr o) inv1
      split
      · rename_i st2 o' he
        rw [he] at h1
        exact ⟨h1.1, fun x h => by simp at h⟩
      · rename_i st2 r' hne he
        rw [he] at h1
        exact ⟨h1.1, fun x h => by simp at h⟩
  · rename_i a
    split
    · rename_i a' hl
      exact ⟨inv, fun x h => by simp at h; subst h; exact inv.memo _ (lookup_mem _ _ _ hl)⟩
    · have hn : h0.length ≤ st.h.length := inv.pres.1
      have inv1 := placeholder_inv (P := P) st a inv
      simp only
      split
      · exact ⟨finish_inv _ _ _ inv1 hn (by simp [refsOf]), fun x h => by simp at h; omega⟩
      · exact ⟨finish_inv _ _ _ inv1 hn (by simp [refsOf]), fun x h => by simp at h; omega⟩
      · exact ⟨finish_inv _ _ _ inv1 hn (by simp [refsOf]), fun x h => by simp at h; omega⟩
      · exact ⟨finish_inv _ _ _ inv1 hn (by simp [refsOf]), fun x h => by simp at h; omega⟩
      · rename_i items hc
        have hl := deepList_inv ih items (placeholder st a) inv1
        split
        · rename_i st2 items' he
          rw [he] at hl
          refine ⟨finish_inv _ _ _ hl.1 hn ?_, fun x h => by simp at h; omega⟩
          intro x hx
          exact hP x ((hl.2 items' rfl).2 x (mem_refs_list.mp hx))
        · rename_i st2 he
          rw [he] at hl
          exact ⟨hl.1, fun x h => by simp at h⟩
      · rename_i items hc
        have hl := deepList_inv ih (items.map (·.2)) (placeholder st a) inv1
        split
        · rename_i st2 vs he
          rw [he] at hl
          refine ⟨finish_inv _ _ _ hl.1 hn ?_, fun x h => by simp at h; omega⟩
          intro x hx
          obtain ⟨k, hk⟩ := mem_refs_dict.mp hx
          exact hP x ((hl.2 vs rfl).2 x (mem_zip_snd hk))
        · rename_i st2 he
          rw [he] at hl
          exact ⟨hl.1, fun x h => by simp at h⟩
      · rename_i o b d hc
        have hl := deepList_inv ih [.addr b, .addr d] (placeholder st a) inv1
        split
        · rename_i st2 rs he
          rw [he] at hl
          split
          · rename_i b' d'
            refine ⟨finish_inv _ _ _ hl.1 hn ?_, fun x h => by simp at h; omega⟩
            intro x hx
            have hh := (hl.2 _ rfl).2
            simp [refsOf] at hx
            rcases hx with rfl | rfl
            · exact hP _ (hh _ (by simp))
            · exact hP _ (hh _ (by simp))
          · exact ⟨hl.1, fun x h => by simp at h⟩
        · rename_i st2 he
          rw [he] at hl
          exact ⟨hl.1, fun x h => by simp at h⟩
      · rename_i b fr orb ofr hc
        have i1 := cloneFr_inv (placeholder st a) fr inv1
        have i2 := cloneFr_inv (cloneFr (placeholder st a) fr).1 ofr i1
        have hl := deepList_inv ih [.addr b, .addr orb] (cloneFr (cloneFr (placeholder st a) fr).1 ofr).1 i2
        split
        · rename_i st2 rs he
          rw [he] at hl
          split
          · rename_i b' orb'
            refine ⟨finish_inv _ _ _ hl.1 hn ?_, fun x h => by simp at h; omega⟩
            intro x hx
            have hh := (hl.2 _ rfl).2
            simp [refsOf] at hx
            rcases hx with rfl | rfl
            · exact hP _ (hh _ (by simp))
            · exact hP _ (hh _ (by simp))
          · exact ⟨hl.1, fun x h => by simp at h⟩
        · rename_i st2 he
          rw [he] at hl
          exact ⟨hl.1, fun x h => by simp at h⟩
      · exact ⟨inv1, fun x h => by simp at h⟩
  · rename_i hnf hna
    exact ⟨inv, fun x h => by simp at h; exact absurd h (hna x)⟩

theorem deepRef_ok {P : Nat → Prop} {h0 : Heap} (hP : ∀ x, h0.length ≤ x → P x) : ∀ fuel, DeepOK P h0 (deepRef fuel)
  | 0 => fun st r inv => by unfold deepRef; exact ⟨inv, fun x h => by simp at h⟩
  | fuel + 1 => deepRef_step hP fuel (deepRef_ok hP fuel)

end BeyondVerif.Heap
