import BeyondVerif.Lemmas.Local
import BeyondVerif.Lemmas.Mat3
import BeyondVerif.Model.Cov
import Mathlib.Data.Matrix.Block
import Mathlib.LinearAlgebra.Matrix.Notation
import Mathlib.Tactic.FinCases
import Mathlib.Tactic.Linarith
import Mathlib.LinearAlgebra.Matrix.NonsingularInverse

/-!
Bridges between the three shapes a 6×6 matrix / a state has in this framework, for C14:

* `T6 = [[r, 0], [b, r]]` over `M3` (Model/Mat3R.lean: what C02's `orientConvert` returns),
* lists of rows over ℝ (Model/LocalR.lean, instantiated from templates/Local.tpl: `toLocal6`, the same text the
  native driver runs on floats),
* Mathlib's `Matrix (Fin 3 ⊕ Fin 3) (Fin 3 ⊕ Fin 3) ℝ` (what the theorems of Props/C14.lean are about).

`t6Mat` is a monoid homomorphism; `realLocal` is `to_local` read as a Mathlib matrix; `realLocal_orth` is
`local_orthonormal` in matrix form (the hypothesis `LocOrth` of the sequence theorems, discharged) and
`realLocal_equivariant` is `local_equivariant` in matrix form.
-/
namespace BeyondVerif.C14
open BeyondVerif.R BeyondVerif.Cov Matrix

/-- index type of a state `(position, velocity)` -/
abbrev I6 := Fin 3 ⊕ Fin 3

/-! ## `M3`, `T6` as Mathlib matrices -/

def m3Mat (a : M3) : Matrix (Fin 3) (Fin 3) ℝ :=
  !![a.a11, a.a12, a.a13; a.a21, a.a22, a.a23; a.a31, a.a32, a.a33]

theorem m3Mat_mul (a b : M3) : m3Mat (M3.mul a b) = m3Mat a * m3Mat b := by
  ext i j; fin_cases i <;> fin_cases j <;> simp [m3Mat, M3.mul, Matrix.mul_apply, Fin.sum_univ_three]

theorem m3Mat_add (a b : M3) : m3Mat (M3.add a b) = m3Mat a + m3Mat b := by
  ext i j; fin_cases i <;> fin_cases j <;> simp [m3Mat, M3.add]

theorem m3Mat_one : m3Mat M3.one = 1 := by
  ext i j; fin_cases i <;> fin_cases j <;> simp [m3Mat, M3.one]

theorem m3Mat_zero : m3Mat M3.zero = 0 := by
  ext i j; fin_cases i <;> fin_cases j <;> simp [m3Mat, M3.zero]

theorem m3Mat_tr (a : M3) : m3Mat (M3.tr a) = (m3Mat a)ᵀ := by
  ext i j; fin_cases i <;> fin_cases j <;> simp [m3Mat, M3.tr]

/-- the 6×6 matrix `[[r, 0], [b, r]]` -/
def t6Mat (m : T6) : Matrix I6 I6 ℝ := fromBlocks (m3Mat m.r) 0 (m3Mat m.b) (m3Mat m.r)

theorem t6Mat_mul (n m : T6) : t6Mat (T6.mul n m) = t6Mat n * t6Mat m := by
  simp [t6Mat, T6.mul, fromBlocks_multiply, m3Mat_mul, m3Mat_add]

theorem t6Mat_one : t6Mat T6.one = 1 := by
  simp [t6Mat, T6.one, m3Mat_one, m3Mat_zero, fromBlocks_one]

/-- a state as the pair the `T6` model uses -/
def pv (x : I6 → ℝ) : V3 × V3 := (⟨x (.inl 0), x (.inl 1), x (.inl 2)⟩, ⟨x (.inr 0), x (.inr 1), x (.inr 2)⟩)

/-- the pair as a state -/
def unpv (q : V3 × V3) : I6 → ℝ
  | .inl i => ![q.1.x, q.1.y, q.1.z] i
  | .inr i => ![q.2.x, q.2.y, q.2.z] i

/-- **`m @ x`** (`Frame.transform` between frames sharing their centre): the Mathlib product with `t6Mat m` is
`T6.apply` of C02's model -/
theorem t6Mat_mulVec (m : T6) (x : I6 → ℝ) : (t6Mat m).mulVec x = unpv (m.apply (pv x).1 (pv x).2) := by
  ext i
  rcases i with i | i <;> fin_cases i <;>
    simp [t6Mat, m3Mat, Matrix.mulVec, dotProduct, Fintype.sum_sum_type, Fin.sum_univ_three, unpv, pv, T6.apply,
      M3.apply, V3.add, fromBlocks]

/-! ## rows-as-lists ↔ Mathlib matrices -/

/-- a state as the list `[px, py, pz, vx, vy, vz]` the list model of `to_local` takes -/
def vec6 (x : I6 → ℝ) : List ℝ := [x (.inl 0), x (.inl 1), x (.inl 2), x (.inr 0), x (.inr 1), x (.inr 2)]

def idx6 : I6 → Nat
  | .inl i => i.val
  | .inr i => 3 + i.val

/-- a list of rows read as a 6×6 matrix (missing entries read 0; `toLocal6` never has any) -/
def listMat (l : List (List ℝ)) : Matrix I6 I6 ℝ := Matrix.of fun i j => (l.getD (idx6 i) []).getD (idx6 j) 0

/-- **`to_local(name, orb)` of beyond/frames/local.py as a Mathlib matrix**: the R instantiation of
templates/Local.tpl (`toLocal6`, the text the driver runs on floats) read through `listMat` -/
noncomputable def realLocal (k : Loc) (x : I6 → ℝ) : Matrix I6 I6 ℝ := listMat (toLocal6 (k == Loc.tnw) (vec6 x))

theorem listMat_expand3 (a0 a1 a2 s0 s1 s2 w0 w1 w2 : ℝ) :
    listMat (expand3 [[a0, a1, a2], [s0, s1, s2], [w0, w1, w2]]) =
      fromBlocks !![a0, a1, a2; s0, s1, s2; w0, w1, w2] 0 0 !![a0, a1, a2; s0, s1, s2; w0, w1, w2] := by
  ext i j
  rcases i with i | i <;> rcases j with j | j <;> fin_cases i <;> fin_cases j <;>
    simp [listMat, idx6, expand3]

theorem dot3_len {a b : List ℝ} (h : dot3 a b ≠ 0) :
    (∃ a0 a1 a2, a = [a0, a1, a2]) ∧ (∃ b0 b1 b2, b = [b0, b1, b2]) := by
  unfold dot3 at h
  split at h
  · exact ⟨⟨_, _, _, rfl⟩, ⟨_, _, _, rfl⟩⟩
  · exact absurd rfl h

/-- the state is not degenerate: non-zero position, velocity and angular momentum (the hypotheses of
`local_orthonormal`; the third implies the other two) -/
def NonDeg (x : I6 → ℝ) : Prop :=
  x (.inl 0) * x (.inl 0) + x (.inl 1) * x (.inl 1) + x (.inl 2) * x (.inl 2) ≠ 0 ∧
  x (.inr 0) * x (.inr 0) + x (.inr 1) * x (.inr 1) + x (.inr 2) * x (.inr 2) ≠ 0 ∧
  (x (.inl 1) * x (.inr 2) - x (.inl 2) * x (.inr 1)) * (x (.inl 1) * x (.inr 2) - x (.inl 2) * x (.inr 1))
    + (x (.inl 2) * x (.inr 0) - x (.inl 0) * x (.inr 2)) * (x (.inl 2) * x (.inr 0) - x (.inl 0) * x (.inr 2))
    + (x (.inl 0) * x (.inr 1) - x (.inl 1) * x (.inr 0)) * (x (.inl 0) * x (.inr 1) - x (.inl 1) * x (.inr 0)) ≠ 0

/-- `to_local` is block diagonal with twice the same 3×3 block whose rows are orthonormal -/
theorem realLocal_blocks (k : Loc) (x : I6 → ℝ) (hx : NonDeg x) :
    ∃ A : Matrix (Fin 3) (Fin 3) ℝ, realLocal k x = fromBlocks A 0 0 A ∧ A * Aᵀ = 1 := by
  obtain ⟨a, s, w, h, haa, hss, hww, has, haw, hsw⟩ :=
    local_orthonormal (k == Loc.tnw) (x (.inl 0)) (x (.inl 1)) (x (.inl 2)) (x (.inr 0)) (x (.inr 1)) (x (.inr 2)) hx.1 hx.2.1 hx.2.2
  obtain ⟨⟨a0, a1, a2, rfl⟩, _⟩ := dot3_len (a := a) (b := a) (by rw [haa]; exact one_ne_zero)
  obtain ⟨⟨s0, s1, s2, rfl⟩, _⟩ := dot3_len (a := s) (b := s) (by rw [hss]; exact one_ne_zero)
  obtain ⟨⟨w0, w1, w2, rfl⟩, _⟩ := dot3_len (a := w) (b := w) (by rw [hww]; exact one_ne_zero)
  refine ⟨!![a0, a1, a2; s0, s1, s2; w0, w1, w2], ?_, ?_⟩
  · unfold realLocal toLocal6 vec6
    rw [h]
    exact listMat_expand3 _ _ _ _ _ _ _ _ _
  · simp only [dot3] at haa hss hww has haw hsw
    ext i j
    fin_cases i <;> fin_cases j <;> simp [Matrix.mul_apply, Fin.sum_univ_three] <;> linarith

/-- **`to_local` is an orthogonal matrix at every non-degenerate state** — `local_orthonormal` in matrix form; this
is the hypothesis `LocOrth` of the sequence theorems of Props/C14.lean -/
theorem realLocal_orth (k : Loc) (x : I6 → ℝ) (hx : NonDeg x) :
    (realLocal k x)ᵀ * realLocal k x = 1 ∧ realLocal k x * (realLocal k x)ᵀ = 1 := by
  obtain ⟨A, hA, hAA⟩ := realLocal_blocks k x hx
  have hAA' : Aᵀ * A = 1 := mul_eq_one_comm.mp hAA
  rw [hA]
  constructor
  · rw [fromBlocks_transpose, fromBlocks_multiply]
    simp [hAA', fromBlocks_one]
  · rw [fromBlocks_transpose, fromBlocks_multiply]
    simp [hAA, fromBlocks_one]

/-- shape of `to_local`: no position/velocity coupling, orthogonal position block -/
theorem realLocal_posShape (k : Loc) (x : I6 → ℝ) (hx : NonDeg x) :
    (realLocal k x).toBlocks₁₂ = 0 ∧ (realLocal k x).toBlocks₁₁ * ((realLocal k x).toBlocks₁₁)ᵀ = 1 := by
  obtain ⟨A, hA, hAA⟩ := realLocal_blocks k x hx
  rw [hA, toBlocks_fromBlocks₁₂, toBlocks_fromBlocks₁₁]
  exact ⟨rfl, hAA⟩

/-! ## equivariance of `to_local` under a rotation of the inertial axes, in matrix form -/

/-- the adjugate of a proper rotation is its transpose -/
theorem M3.adj_eq_tr_of_rot {a : M3} (h : M3.IsRotation a) : M3.adj a = M3.tr a := by
  calc M3.adj a = M3.mul (M3.adj a) M3.one := (M3.mul_one _).symm
    _ = M3.mul (M3.adj a) (M3.mul a (M3.tr a)) := by rw [h.1]
    _ = M3.mul (M3.mul (M3.adj a) a) (M3.tr a) := (M3.mul_assoc _ _ _).symm
    _ = M3.tr a := by rw [M3.adj_mul, h.2.2, M3.smul_mul, M3.one_mul, M3.one_smul]

/-- `M3.IsRotation` (C02: `a aᵀ = aᵀ a = 1`, `det a = 1`) gives the entry-wise `IsRot` of Lemmas/Local.lean -/
theorem isRot_of_isRotation {a : M3} (h : M3.IsRotation a) :
    IsRot a.a11 a.a12 a.a13 a.a21 a.a22 a.a23 a.a31 a.a32 a.a33 := by
  have hc := h.2.1
  have hk := M3.adj_eq_tr_of_rot h
  have c11 := congrArg M3.a11 hc; have c12 := congrArg M3.a12 hc; have c13 := congrArg M3.a13 hc
  have c22 := congrArg M3.a22 hc; have c23 := congrArg M3.a23 hc; have c33 := congrArg M3.a33 hc
  have k11 := congrArg M3.a11 hk; have k12 := congrArg M3.a12 hk; have k13 := congrArg M3.a13 hk
  have k21 := congrArg M3.a21 hk; have k22 := congrArg M3.a22 hk; have k23 := congrArg M3.a23 hk
  have k31 := congrArg M3.a31 hk; have k32 := congrArg M3.a32 hk; have k33 := congrArg M3.a33 hk
  simp only [M3.mul, M3.tr, M3.one] at c11 c12 c13 c22 c23 c33
  simp only [M3.adj, M3.tr] at k11 k12 k13 k21 k22 k23 k31 k32 k33
  constructor <;> linarith

/-- a rate-free conversion (`expand(m, None)`, an inertial → inertial link) applied to a state -/
theorem t6Mat_mulVec_norate (r : M3) (x : I6 → ℝ) :
    vec6 ((t6Mat ⟨r, M3.zero⟩).mulVec x) =
      [r.a11 * x (.inl 0) + r.a12 * x (.inl 1) + r.a13 * x (.inl 2), r.a21 * x (.inl 0) + r.a22 * x (.inl 1) + r.a23 * x (.inl 2),
        r.a31 * x (.inl 0) + r.a32 * x (.inl 1) + r.a33 * x (.inl 2)] ++
      [r.a11 * x (.inr 0) + r.a12 * x (.inr 1) + r.a13 * x (.inr 2), r.a21 * x (.inr 0) + r.a22 * x (.inr 1) + r.a23 * x (.inr 2),
        r.a31 * x (.inr 0) + r.a32 * x (.inr 1) + r.a33 * x (.inr 2)] := by
  rw [t6Mat_mulVec]
  simp [vec6, unpv, pv, T6.apply, M3.apply, V3.add, M3.zero]

theorem listMat_expand3_mulRt (r : M3) (a0 a1 a2 s0 s1 s2 w0 w1 w2 : ℝ) :
    listMat (expand3 (mulRt r.a11 r.a12 r.a13 r.a21 r.a22 r.a23 r.a31 r.a32 r.a33 [[a0, a1, a2], [s0, s1, s2], [w0, w1, w2]])) =
      listMat (expand3 [[a0, a1, a2], [s0, s1, s2], [w0, w1, w2]]) * (t6Mat ⟨r, M3.zero⟩)ᵀ := by
  simp only [mulRt, List.map]
  rw [listMat_expand3, listMat_expand3, t6Mat, fromBlocks_transpose, fromBlocks_multiply]
  simp only [m3Mat_zero, transpose_zero, Matrix.mul_zero, Matrix.zero_mul, add_zero, zero_add]
  congr 1 <;>
  · ext i j
    fin_cases i <;> fin_cases j <;> simp [m3Mat, Matrix.mul_apply, Fin.sum_univ_three] <;> ring

/-- **`to_local` is equivariant under a rotation of the inertial axes** (`local_equivariant` in matrix form): for a
rate-free conversion `M = [[R, 0], [0, R]]`, `R ∈ SO(3)`, and every state, `to_local(k, M x) = to_local(k, x) Mᵀ` —
the QSW/TNW axes of a state do not depend on the inertial frame its coordinates are given in. -/
theorem realLocal_equivariant (k : Loc) (r : M3) (hr : M3.IsRotation r) (x : I6 → ℝ) :
    realLocal k ((t6Mat ⟨r, M3.zero⟩).mulVec x) = realLocal k x * (t6Mat ⟨r, M3.zero⟩)ᵀ := by
  have hR := isRot_of_isRotation hr
  have h := local_equivariant hR (k == Loc.tnw) (x (.inl 0)) (x (.inl 1)) (x (.inl 2)) (x (.inr 0)) (x (.inr 1)) (x (.inr 2))
  unfold realLocal toLocal6
  rw [t6Mat_mulVec_norate, h]
  cases (k == Loc.tnw)
  · simp only [vec6, Bool.false_eq_true, if_false, toQsw, List.take, List.drop, div3, cross3, List.map]
    exact listMat_expand3_mulRt r _ _ _ _ _ _ _ _ _
  · simp only [vec6, if_true, toTnw, List.take, List.drop, div3, cross3, List.map]
    exact listMat_expand3_mulRt r _ _ _ _ _ _ _ _ _

example : NonDeg (unpv (⟨1, 0, 0⟩, ⟨0, 1, 0⟩)) := by
  refine ⟨?_, ?_, ?_⟩ <;> simp [unpv]

end BeyondVerif.C14
