import BeyondVerif.Lemmas.RegSim
import BeyondVerif.Lemmas.NodeForestMore

/-!
What the simulation `J` (`Lemmas/RegSim.lean`) gives for `path` between nodes sharing names.

* `named_desc`      : the named tables descend (any graph): the direction carries the goal name or holds an entry for it
  with fewer steps.
* `walk_named`      : hence the loop of `path` terminates on a path without repeated node whose last node — and no
  earlier one — carries the goal name.
* `dist_triangle`, `dist_le_chain` : in a forest, `dist` is at most the length of ANY chain of links.
* `named_entry_forest` : in a forest the steps of a named entry are the distance to a NEAREST node of the name.
-/
set_option linter.unusedSimpArgs false
set_option linter.unusedVariables false
namespace BeyondVerif.Reg
open BeyondVerif.Node (Route NodeSt Graph get set lookupRoute PathRes keys lookupRoute_eq_some Lk Conn Forest dist hop)

variable (nm : Nat → Nat)

/-- directions of the named tables are neighbours -/
theorem dirInv_of_J {gN gU : Graph} (hJ : J nm gN gU) : Node.DirInv gN := by
  intro u r hr
  have hl := (Node.mem_iff_lookupRoute (hJ.keysN u) r).mp hr
  obtain ⟨v, _, hv⟩ := ((hJ.sim u) r.target).1 r hl
  have := hJ.ginv.dir u _ (lookupRoute_eq_some hv).1
  rw [hJ.nbrs u]
  exact this

/-- **the named tables descend** — any graph, any names -/
theorem named_desc {gN gU : Graph} (hJ : J nm gN gU) (cur x : Nat) (r : Route)
    (hr : lookupRoute (get gN cur).routes x = some r) :
    1 ≤ r.steps ∧ (nm r.dir = x ∨ ∃ r', lookupRoute (get gN r.dir).routes x = some r' ∧ r'.steps < r.steps) := by
  obtain ⟨v, hv, hl⟩ := ((hJ.sim cur) x).1 r hr
  obtain ⟨_, h1, h2⟩ := hJ.ginv.desc cur v _ hl
  refine ⟨h1, ?_⟩
  rcases h2 with h2 | ⟨r2, hr2, hlt⟩
  · left; rw [h2]; exact hv
  · by_cases hd : nm r.dir = x
    · exact Or.inl hd
    · right
      obtain ⟨r', hr', hle⟩ := ((hJ.sim r.dir) x).2 (fun e => hd e.symm) v r2 hv hr2
      exact ⟨r', hr', by simp only at hlt; omega⟩

/-- the loop of the named `path`: terminates within `steps` hops on distinct nodes; the last one carries the goal name,
no earlier one does -/
theorem walk_named {gN gU : Graph} (hJ : J nm gN gU) (x : Nat) :
    ∀ (fuel cur : Nat) (acc : List Nat) (r : Route), lookupRoute (get gN cur).routes x = some r →
      r.steps ≤ fuel →
      ∃ q, walk nm gN x fuel cur acc = .ok (acc.reverse ++ q) ∧ (∃ t, q.getLast? = some t ∧ nm t = x) ∧ q.Nodup ∧
        q.length ≤ r.steps ∧ (∀ y ∈ q.dropLast, nm y ≠ x) ∧
        ∀ y ∈ q, nm y = x ∨ ∃ ry, lookupRoute (get gN y).routes x = some ry ∧ ry.steps < r.steps := by
  intro fuel
  induction fuel with
  | zero =>
    intro cur acc r hr hf
    have := (named_desc nm hJ cur x r hr).1
    omega
  | succ fuel ih =>
    intro cur acc r hr hf
    obtain ⟨hst, hdesc⟩ := named_desc nm hJ cur x r hr
    unfold walk
    rw [hr]
    simp only
    by_cases hd : nm r.dir = x
    · rw [if_pos hd]
      refine ⟨[r.dir], by simp, ⟨r.dir, rfl, hd⟩, by simp, by simpa using hst, by simp, ?_⟩
      intro y hy
      simp at hy
      exact Or.inl (hy ▸ hd)
    · rw [if_neg hd]
      rcases hdesc with hdesc | ⟨r', hr', hlt⟩
      · exact absurd hdesc hd
      · obtain ⟨q, hw, hlast, hnd, hlen, hdrop, hall⟩ := ih r.dir (r.dir :: acc) r' hr' (by omega)
        have hqne : q ≠ [] := by
          obtain ⟨t, ht, _⟩ := hlast
          intro e; rw [e] at ht; simp at ht
        refine ⟨r.dir :: q, by rw [hw]; simp, ?_, ?_, ?_, ?_, ?_⟩
        · obtain ⟨t, ht, hnt⟩ := hlast
          refine ⟨t, ?_, hnt⟩
          cases q with
          | nil => exact absurd rfl hqne
          | cons y ys => rw [List.getLast?_cons_cons]; exact ht
        · rw [List.nodup_cons]
          refine ⟨?_, hnd⟩
          intro hm
          rcases hall _ hm with e | ⟨rx, hrx, hlt'⟩
          · exact hd e
          · rw [hr'] at hrx; cases hrx; omega
        · simp only [List.length_cons]; omega
        · intro y hy
          rw [List.dropLast_cons_of_ne_nil hqne] at hy
          rcases List.mem_cons.mp hy with e | hy
          · rw [e]; exact hd
          · exact hdrop y hy
        · intro y hy
          rcases List.mem_cons.mp hy with e | hy
          · subst e; exact Or.inr ⟨r', hr', hlt⟩
          · rcases hall y hy with e | ⟨ry, hry, hlt'⟩
            · exact Or.inl e
            · exact Or.inr ⟨ry, hry, by omega⟩

/-- the result of the named loop does not depend on the fuel once it is at least the number of hops -/
theorem walk_enough (g : Graph) (x : Nat) :
    ∀ (fuel cur : Nat) (acc p : List Nat), walk nm g x fuel cur acc = .ok p →
      acc.length < p.length ∧ ∀ fuel', p.length ≤ fuel' + acc.length → walk nm g x fuel' cur acc = .ok p := by
  intro fuel
  induction fuel with
  | zero => intro cur acc p h; simp [walk] at h
  | succ fuel ih =>
    intro cur acc p h
    unfold walk at h
    split at h
    · cases h
    · next r hr =>
      split at h
      · next hd =>
        cases h
        refine ⟨by simp, ?_⟩
        intro fuel' hf
        simp only [List.length_reverse, List.length_cons] at hf
        obtain ⟨f, rfl⟩ : ∃ f, fuel' = f + 1 := ⟨fuel' - 1, by omega⟩
        unfold walk
        rw [hr]
        simp only
        rw [if_pos hd]
      · next hd =>
        obtain ⟨h1, h2⟩ := ih _ _ _ h
        simp only [List.length_cons] at h1 h2
        refine ⟨by omega, ?_⟩
        intro fuel' hf
        obtain ⟨f, rfl⟩ : ∃ f, fuel' = f + 1 := ⟨fuel' - 1, by omega⟩
        unfold walk
        rw [hr]
        simp only
        rw [if_neg hd]
        exact h2 f (by omega)

/-- **the named `path` from a table entry**: a simple path to the first node carrying the goal name, of at most `steps`
hops, for every fuel at least its number of hops -/
theorem path_named {gN gU : Graph} (hJ : J nm gN gU) (s x : Nat) (r : Route) (hxs : x ≠ nm s)
    (hr : lookupRoute (get gN s).routes x = some r) :
    ∃ p, p.head? = some s ∧ (∃ t, p.getLast? = some t ∧ nm t = x) ∧ p.Nodup ∧ p.length ≤ r.steps + 1 ∧
      (∀ y ∈ p.dropLast, nm y ≠ x) ∧ ∀ fuel', p.length ≤ fuel' + 1 → path nm fuel' gN s x = .ok p := by
  obtain ⟨q, hw, hlast, hnd, hlen, hdrop, hall⟩ := walk_named nm hJ x r.steps s [s] r hr (Nat.le_refl _)
  simp only [List.reverse_cons, List.reverse_nil, List.nil_append, List.singleton_append] at hw
  have hqne : q ≠ [] := by
    obtain ⟨t, ht, _⟩ := hlast
    intro e; rw [e] at ht; simp at ht
  refine ⟨s :: q, rfl, ?_, ?_, by simp only [List.length_cons]; omega, ?_, ?_⟩
  · obtain ⟨t, ht, hnt⟩ := hlast
    refine ⟨t, ?_, hnt⟩
    cases q with
    | nil => exact absurd rfl hqne
    | cons y ys => rw [List.getLast?_cons_cons]; exact ht
  · rw [List.nodup_cons]
    refine ⟨?_, hnd⟩
    intro hm
    rcases hall s hm with e | ⟨rx, hrx, hlt⟩
    · exact hxs e.symm
    · rw [hr] at hrx; cases hrx; omega
  · intro y hy
    rw [List.dropLast_cons_of_ne_nil hqne] at hy
    rcases List.mem_cons.mp hy with e | hy
    · rw [e]; exact fun h => hxs h.symm
    · exact hdrop y hy
  · intro fuel' hf
    unfold path
    rw [if_neg hxs, hr]
    simp only
    exact (walk_enough nm gN x _ s [s] _ hw).2 fuel' (by simpa using hf)

theorem path_enough {g : Graph} {fuel s x : Nat} {p : List Nat} (h : path nm fuel g s x = .ok p) :
    ∀ fuel', p.length ≤ fuel' + 1 → path nm fuel' g s x = .ok p := by
  intro fuel' hf
  unfold path at h ⊢
  split
  · next hts => rw [if_pos hts] at h; exact h
  · next hts =>
    rw [if_neg hts] at h
    split at h
    · cases h
    · next r hr =>
      exact (walk_enough nm g x _ s [s] p h).2 fuel' (by simpa using hf)

/-! ### forests: the steps of a named entry are the distance to a nearest node of the name -/

theorem dist_triangle {F : List (Nat × Nat)} (hf : Forest F) {u d v : Nat} (hl : Lk F u d) (hc : Conn F u v) :
    dist F u v ≤ dist F d v + 1 := by
  by_cases huv : u = v
  · subst huv; rw [Node.dist_self]; omega
  · by_cases hd : d = hop F u v
    · rw [hd]; exact Nat.le_of_eq (Node.tree_step hf hc huv).2
    · have := (Node.tree_other hf hc huv hl hd).2
      omega

/-- in a forest `dist` is at most the number of hops of any chain of links (simple or not) -/
theorem dist_le_chain {F : List (Nat × Nat)} (hf : Forest F) : ∀ (l : List Nat) (u v : Nat),
    (u :: l).IsChain (Lk F) → (u :: l).getLast? = some v → dist F u v ≤ l.length := by
  intro l
  induction l with
  | nil =>
    intro u v _ hl
    simp at hl
    subst hl
    rw [Node.dist_self]
    exact Nat.zero_le _
  | cons w rest ih =>
    intro u v hc hl
    have hcv : Conn F u v := Node.conn_of_chain _ u v hc hl
    rw [List.isChain_cons_cons] at hc
    rw [List.getLast?_cons_cons] at hl
    have := ih w v hc.2 hl
    have := dist_triangle hf hc.1 hcv
    simp only [List.length_cons]
    omega

/-- **in a forest a named entry points to a nearest node of the name**: its steps are the distance to some node `v1`
of the name, its direction is the first hop towards `v1`, and no node of the name is nearer -/
theorem named_entry_forest {F : List (Nat × Nat)} {gN gU : Graph} (hJ : J nm gN gU) (hex : Node.Exact F gU)
    (cur x : Nat) (hx : x ≠ nm cur) (r : Route) (hr : lookupRoute (get gN cur).routes x = some r) :
    ∃ v1, nm v1 = x ∧ Conn F cur v1 ∧ r.dir = hop F cur v1 ∧ r.steps = dist F cur v1 ∧
      ∀ v, nm v = x → Conn F cur v → r.steps ≤ dist F cur v := by
  obtain ⟨v1, hv1, hl⟩ := ((hJ.sim cur) x).1 r hr
  have hs := (hex.2 cur _).mp (lookupRoute_eq_some hl).1
  refine ⟨v1, hv1, hs.1, hs.2.2.1, hs.2.2.2, ?_⟩
  intro v hv hc
  have hne : cur ≠ v := fun e => hx (by rw [← hv, e])
  have hlu : lookupRoute (get gU cur).routes v = some ⟨v, hop F cur v, dist F cur v⟩ := by
    rw [Node.lookup_of_exact (hex.2 cur) v, Node.specLookup_pos hc hne]
  obtain ⟨r', hr', hle⟩ := ((hJ.sim cur) x).2 hx v _ hv hlu
  rw [hr] at hr'
  cases hr'
  exact hle

/-- a named entry exists as soon as some node of the name has a plain entry -/
theorem named_entry_exists {gN gU : Graph} (hJ : J nm gN gU) (cur x v : Nat) (hx : x ≠ nm cur) (hv : nm v = x)
    (rv : Route) (hl : lookupRoute (get gU cur).routes v = some rv) :
    ∃ r, lookupRoute (get gN cur).routes x = some r := by
  obtain ⟨r, hr, _⟩ := ((hJ.sim cur) x).2 hx v rv hv hl
  exact ⟨r, hr⟩

end BeyondVerif.Reg
