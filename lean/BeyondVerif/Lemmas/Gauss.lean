import BeyondVerif.Lemmas.Vec3
import BeyondVerif.Lemmas.Dkep
import BeyondVerif.Generated.KepPlaneR
import Mathlib.Analysis.SpecialFunctions.Trigonometric.InverseDeriv
import Mathlib.Analysis.SpecialFunctions.Trigonometric.ArctanDeriv
import Mathlib.Analysis.SpecialFunctions.Sqrt

/-!
Geometry behind the Gauss equations for an out-of-plane impulse (C17): a state at radius `r`, argument of latitude `u`
in the plane of inclination `i` and node `Ω`, with radial speed `vr` and transverse speed `vt`, receives `w` along the
`W` axis of its TNW frame (`to_tnw`, translated); its new inclination and node direction are read off by the translated
slices `kepInc`, `kepNodeX`, `kepNodeY` of `Form._cartesian_to_keplerian`.
-/
namespace BeyondVerif.Lemmas.Gauss
open BeyondVerif.R BeyondVerif.NumReal BeyondVerif.Lemmas.Vec3

/-- unit vector towards the satellite (as `_keplerian_to_cartesian` builds it) -/
noncomputable def rHat (i Ω u : ℝ) : V3 :=
  ⟨Real.cos u * Real.cos Ω - Real.sin u * Real.cos i * Real.sin Ω,
   Real.cos u * Real.sin Ω + Real.sin u * Real.cos i * Real.cos Ω,
   Real.sin u * Real.sin i⟩

/-- unit vector of the transverse direction (in the plane, 90° ahead) -/
noncomputable def tHat (i Ω u : ℝ) : V3 :=
  ⟨-(Real.sin u * Real.cos Ω) - Real.cos u * Real.cos i * Real.sin Ω,
   -(Real.sin u * Real.sin Ω) + Real.cos u * Real.cos i * Real.cos Ω,
   Real.cos u * Real.sin i⟩

/-- unit normal of the plane `(i, Ω)` -/
noncomputable def wHat (i Ω : ℝ) : V3 := ⟨Real.sin i * Real.sin Ω, -(Real.sin i * Real.cos Ω), Real.cos i⟩

noncomputable def posAt (r i Ω u : ℝ) : V3 := V3.smul r (rHat i Ω u)
noncomputable def velAt (vr vt i Ω u : ℝ) : V3 := V3.add (V3.smul vr (rHat i Ω u)) (V3.smul vt (tHat i Ω u))

/-! ### polynomial identities (`a b` = cos, sin of `u`; `c s` of `i`; `p q` of `Ω`) -/
section poly
variable {a b c s p q : ℝ} (hU : b ^ 2 + a ^ 2 = 1) (hI : s ^ 2 + c ^ 2 = 1) (hO : q ^ 2 + p ^ 2 = 1) (r vr vt w : ℝ)
include hU hI hO
set_option linter.unusedSectionVars false

theorem h0_poly :
    (r * (a * q + b * c * p)) * (vr * (b * s) + vt * (a * s) + w * c)
      - (r * (b * s)) * (vr * (a * q + b * c * p) + vt * (-(b * q) + a * c * p) + w * (-(s * p)))
    = r * vt * (s * q) + w * r * (b * p + a * c * q) := by
  linear_combination (r * vt * s * q) * hU + (r * w * b * p) * hI

theorem h1_poly :
    (r * (b * s)) * (vr * (a * p - b * c * q) + vt * (-(b * p) - a * c * q) + w * (s * q))
      - (r * (a * p - b * c * q)) * (vr * (b * s) + vt * (a * s) + w * c)
    = -(r * vt * (s * p)) + w * r * (b * q - a * c * p) := by
  linear_combination (-(r * vt * s * p)) * hU + (r * w * b * q) * hI

theorem h2_poly :
    (r * (a * p - b * c * q)) * (vr * (a * q + b * c * p) + vt * (-(b * q) + a * c * p) + w * (-(s * p)))
      - (r * (a * q + b * c * p)) * (vr * (a * p - b * c * q) + vt * (-(b * p) - a * c * q) + w * (s * q))
    = r * vt * c - w * r * (a * s) := by
  linear_combination (r * vt * c * (q ^ 2 + p ^ 2)) * hU + (r * vt * c - r * w * a * s) * hO

theorem hnorm_poly :
    (r * vt * (s * q) + w * r * (b * p + a * c * q)) ^ 2 + (-(r * vt * (s * p)) + w * r * (b * q - a * c * p)) ^ 2
      + (r * vt * c - w * r * (a * s)) ^ 2 = (r * vt) ^ 2 + (w * r) ^ 2 := by
  linear_combination ((r * vt) ^ 2 * s ^ 2 + (w * r) ^ 2 * (b ^ 2 + a ^ 2 * c ^ 2) + 2 * (r * vt) * (w * r) * a * c * s) * hO
    + ((r * vt) ^ 2 + (w * r) ^ 2 * a ^ 2) * hI + (w * r) ^ 2 * hU

end poly

section geometry
variable (r vr vt i Ω u : ℝ)

theorem hU' : Real.sin u ^ 2 + Real.cos u ^ 2 = 1 := Real.sin_sq_add_cos_sq u

/-- the angular momentum of the state is `r · vt` along the plane normal -/
theorem cross_pos_vel : V3.cross (posAt r i Ω u) (velAt vr vt i Ω u) = V3.smul (r * vt) (wHat i Ω) := by
  have e0 := h0_poly (Real.sin_sq_add_cos_sq u) (Real.sin_sq_add_cos_sq i) (Real.sin_sq_add_cos_sq Ω) r vr vt 0
  have e1 := h1_poly (Real.sin_sq_add_cos_sq u) (Real.sin_sq_add_cos_sq i) (Real.sin_sq_add_cos_sq Ω) r vr vt 0
  have e2 := h2_poly (Real.sin_sq_add_cos_sq u) (Real.sin_sq_add_cos_sq i) (Real.sin_sq_add_cos_sq Ω) r vr vt 0
  ext <;> simp only [V3.cross, posAt, velAt, V3.smul, V3.add, rHat, tHat, wHat]
  · linear_combination e0
  · linear_combination e1
  · linear_combination e2

theorem wHat_unit : V3.dot (wHat i Ω) (wHat i Ω) = 1 := by
  simp only [V3.dot, wHat]
  linear_combination (Real.sin i ^ 2) * Real.sin_sq_add_cos_sq Ω + Real.sin_sq_add_cos_sq i

theorem norm_cross_pos_vel (hr : 0 < r) (hvt : 0 < vt) : V3.norm (V3.cross (posAt r i Ω u) (velAt vr vt i Ω u)) = r * vt := by
  rw [cross_pos_vel]
  have hk : 0 ≤ r * vt := (mul_pos hr hvt).le
  have hw := wHat_unit i Ω
  simp only [V3.dot] at hw
  unfold V3.norm
  simp only [V3.smul]
  have : r * vt * (wHat i Ω).x * (r * vt * (wHat i Ω).x) + r * vt * (wHat i Ω).y * (r * vt * (wHat i Ω).y)
      + r * vt * (wHat i Ω).z * (r * vt * (wHat i Ω).z) = (r * vt) ^ 2 := by
    linear_combination ((r * vt) ^ 2) * hw
  rw [this]
  exact Real.sqrt_sq hk

/-- **the `W` axis of `to_tnw` (translated from local.py) is the normal of the orbital plane** -/
theorem tnw_w_axis (hr : 0 < r) (hvt : 0 < vt) : (toTnw (posAt r i Ω u) (velAt vr vt i Ω u)).r2 = wHat i Ω := by
  have hk : r * vt ≠ 0 := (mul_pos hr hvt).ne'
  show V3.divS (V3.cross (posAt r i Ω u) (velAt vr vt i Ω u)) (V3.norm (V3.cross (posAt r i Ω u) (velAt vr vt i Ω u))) = wHat i Ω
  rw [norm_cross_pos_vel r vr vt i Ω u hr hvt, cross_pos_vel]
  ext <;> simp only [V3.divS, V3.smul] <;> field_simp

/-- the out-of-plane part `[0, 0, w]` of a Keplerian maneuver (`to_tnw(orb).T @ [dv_t, 0, dv_w]`) is `w` along the plane normal -/
theorem kepManDv_normal (hr : 0 < r) (hvt : 0 < vt) (w : ℝ) :
    kepManDv (posAt r i Ω u) (velAt vr vt i Ω u) 0 w = V3.smul w (wHat i Ω) := by
  have h2 := tnw_w_axis r vr vt i Ω u hr hvt
  unfold kepManDv M3.tMulVec
  simp only [mul_zero, add_zero, zero_add]
  rw [h2]
  ext <;> simp only [V3.smul] <;> ring

end geometry

/-! ### the elements after the impulse, as the cartesian → keplerian conversion computes them -/

/-- inclination after an out-of-plane impulse `w` (translated `kepInc` on position, velocity + Keplerian Δv `[0, 0, w]`) -/
noncomputable def incAfter (r vr vt i Ω u w : ℝ) : ℝ :=
  kepInc (posAt r i Ω u).x (posAt r i Ω u).y (posAt r i Ω u).z
    ((velAt vr vt i Ω u).x + (kepManDv (posAt r i Ω u) (velAt vr vt i Ω u) 0 w).x)
    ((velAt vr vt i Ω u).y + (kepManDv (posAt r i Ω u) (velAt vr vt i Ω u) 0 w).y)
    ((velAt vr vt i Ω u).z + (kepManDv (posAt r i Ω u) (velAt vr vt i Ω u) 0 w).z)

/-- the node direction `(X, Y)` (`Ω = arctan2(Y, X) mod 2π` in the conversion) after the impulse -/
noncomputable def nodeXAfter (r vr vt i Ω u w : ℝ) : ℝ :=
  kepNodeX (posAt r i Ω u).x (posAt r i Ω u).y (posAt r i Ω u).z
    ((velAt vr vt i Ω u).x + (kepManDv (posAt r i Ω u) (velAt vr vt i Ω u) 0 w).x)
    ((velAt vr vt i Ω u).y + (kepManDv (posAt r i Ω u) (velAt vr vt i Ω u) 0 w).y)
    ((velAt vr vt i Ω u).z + (kepManDv (posAt r i Ω u) (velAt vr vt i Ω u) 0 w).z)

noncomputable def nodeYAfter (r vr vt i Ω u w : ℝ) : ℝ :=
  kepNodeY (posAt r i Ω u).x (posAt r i Ω u).y (posAt r i Ω u).z
    ((velAt vr vt i Ω u).x + (kepManDv (posAt r i Ω u) (velAt vr vt i Ω u) 0 w).x)
    ((velAt vr vt i Ω u).y + (kepManDv (posAt r i Ω u) (velAt vr vt i Ω u) 0 w).y)
    ((velAt vr vt i Ω u).z + (kepManDv (posAt r i Ω u) (velAt vr vt i Ω u) 0 w).z)

section after
variable (r vr vt i Ω u : ℝ) (hr : 0 < r) (hvt : 0 < vt)
include hr hvt

theorem nodeYAfter_eq (w : ℝ) : nodeYAfter r vr vt i Ω u w
    = r * vt * (Real.sin i * Real.sin Ω) + w * r * (Real.sin u * Real.cos Ω + Real.cos u * Real.cos i * Real.sin Ω) := by
  unfold nodeYAfter kepNodeY
  rw [kepManDv_normal r vr vt i Ω u hr hvt]
  simp only [posAt, velAt, V3.add, V3.smul, rHat, tHat, wHat]
  linear_combination h0_poly (Real.sin_sq_add_cos_sq u) (Real.sin_sq_add_cos_sq i) (Real.sin_sq_add_cos_sq Ω) r vr vt w

theorem nodeXAfter_eq (w : ℝ) : nodeXAfter r vr vt i Ω u w
    = r * vt * (Real.sin i * Real.cos Ω) - w * r * (Real.sin u * Real.sin Ω - Real.cos u * Real.cos i * Real.cos Ω) := by
  unfold nodeXAfter kepNodeX
  rw [kepManDv_normal r vr vt i Ω u hr hvt]
  simp only [posAt, velAt, V3.add, V3.smul, rHat, tHat, wHat]
  linear_combination (-1 : ℝ) * h1_poly (Real.sin_sq_add_cos_sq u) (Real.sin_sq_add_cos_sq i) (Real.sin_sq_add_cos_sq Ω) r vr vt w

theorem incAfter_eq (w : ℝ) : incAfter r vr vt i Ω u w
    = Real.arccos ((r * vt * Real.cos i - w * r * (Real.cos u * Real.sin i)) / Real.sqrt ((r * vt) ^ 2 + (w * r) ^ 2)) := by
  have e0 := h0_poly (Real.sin_sq_add_cos_sq u) (Real.sin_sq_add_cos_sq i) (Real.sin_sq_add_cos_sq Ω) r vr vt w
  have e1 := h1_poly (Real.sin_sq_add_cos_sq u) (Real.sin_sq_add_cos_sq i) (Real.sin_sq_add_cos_sq Ω) r vr vt w
  have e2 := h2_poly (Real.sin_sq_add_cos_sq u) (Real.sin_sq_add_cos_sq i) (Real.sin_sq_add_cos_sq Ω) r vr vt w
  have en := hnorm_poly (Real.sin_sq_add_cos_sq u) (Real.sin_sq_add_cos_sq i) (Real.sin_sq_add_cos_sq Ω) r vt w
  unfold incAfter kepInc
  rw [kepManDv_normal r vr vt i Ω u hr hvt]
  simp only [posAt, velAt, V3.add, V3.smul, rHat, tHat, wHat]
  have key : ∀ A B A' B' : ℝ, A = A' → B = B' → Real.arccos (A / Real.sqrt B) = Real.arccos (A' / Real.sqrt B') := by
    intro A B A' B' h1 h2; rw [h1, h2]
  apply key
  · linear_combination e2
  · rw [← e0, ← e1, ← e2] at en
    simp only [powi]
    linear_combination en

end after

end BeyondVerif.Lemmas.Gauss
