import BeyondVerif.Model.Node
import Mathlib.Data.List.Chain

/-! Helper lemmas about the routing model (`Model/Node.lean`). -/
set_option linter.unusedSimpArgs false
namespace BeyondVerif.Node

theorem get_set (g : Graph) (u v : Nat) (s : NodeSt) :
    get (set g u s) v = if v = u then s else get g v := by
  induction g with
  | nil =>
    by_cases h : v = u
    · subst h; simp [set, get, List.lookup]
    · have : (v == u) = false := by simpa using h
      simp [set, get, List.lookup, this, h]
  | cons kv rest ih =>
    obtain ⟨k, w⟩ := kv
    unfold set
    by_cases hk : k = u
    · subst hk
      by_cases h : v = k
      · subst h; simp [get, List.lookup]
      · have : (v == k) = false := by simpa using h
        simp [get, List.lookup, this, h]
    · simp only [hk, if_false]
      by_cases hvk : v = k
      · subst hvk
        have : ¬ v = u := hk
        simp [get, List.lookup, this]
      · have hb : (v == k) = false := by simpa using hvk
        have := ih
        simp only [get, List.lookup, hb] at this ⊢
        exact this

theorem mem_setRoute {rs : List Route} {x r : Route} (h : r ∈ setRoute rs x) : r = x ∨ r ∈ rs := by
  induction rs with
  | nil => simp [setRoute] at h; exact Or.inl h
  | cons y rest ih =>
    unfold setRoute at h
    split at h
    · rcases List.mem_cons.mp h with h | h
      · exact Or.inl h
      · exact Or.inr (List.mem_cons_of_mem _ h)
    · rcases List.mem_cons.mp h with h | h
      · exact Or.inr (h ▸ List.mem_cons_self)
      · rcases ih h with h | h
        · exact Or.inl h
        · exact Or.inr (List.mem_cons_of_mem _ h)

theorem mem_mergeFrom {u : Nat} {unbrs : List Nat} {d : Nat} {droutes acc : List Route} {r : Route}
    (h : r ∈ mergeFrom u unbrs d droutes acc) : r.dir = d ∨ r ∈ acc := by
  unfold mergeFrom at h
  induction droutes generalizing acc with
  | nil => exact Or.inr h
  | cons x rest ih =>
    simp only [List.foldl_cons] at h
    rcases ih h with h | h
    · exact Or.inl h
    · split at h
      · exact Or.inr h
      · split at h
        · split at h
          · exact Or.inr h
          · rcases mem_setRoute h with h | h
            · exact Or.inl (by rw [h])
            · exact Or.inr h
        · rcases mem_setRoute h with h | h
          · exact Or.inl (by rw [h])
          · exact Or.inr h

/-- every route produced by the table rebuild points to a neighbour -/
theorem refreshRoutes_dir (g : Graph) (u : Nat) {r : Route} (h : r ∈ refreshRoutes g u) :
    r.dir ∈ (get g u).nbrs := by
  unfold refreshRoutes at h
  have key : ∀ (l : List Nat) (acc : List Route),
      r ∈ l.foldl (fun acc d =>
        let acc := setRoute acc ⟨d, d, 1⟩
        mergeFrom u (get g u).nbrs d (get g d).routes acc) acc → r.dir ∈ l ∨ r ∈ acc := by
    intro l
    induction l with
    | nil => intro acc h; exact Or.inr h
    | cons d rest ih =>
      intro acc h
      simp only [List.foldl_cons] at h
      rcases ih _ h with h | h
      · exact Or.inl (List.mem_cons_of_mem _ h)
      · rcases mem_mergeFrom h with h | h
        · exact Or.inl (h ▸ List.mem_cons_self)
        · rcases mem_setRoute h with h | h
          · exact Or.inl (by rw [h]; exact List.mem_cons_self)
          · exact Or.inr h
  rcases key _ _ h with h | h
  · exact h
  · simp at h

/-- invariant: in every table, the direction is a neighbour of the table's owner -/
def DirInv (g : Graph) : Prop := ∀ u r, r ∈ (get g u).routes → r.dir ∈ (get g u).nbrs

theorem get_refresh_nbrs (g : Graph) (u v : Nat) : (get (refresh g u) v).nbrs = (get g v).nbrs := by
  unfold refresh; rw [get_set]; split
  · next h => subst h; rfl
  · rfl

theorem dirInv_refresh {g : Graph} (h : DirInv g) (u : Nat) : DirInv (refresh g u) := by
  intro v r hr
  rw [get_refresh_nbrs]
  unfold refresh at hr
  rw [get_set] at hr
  split at hr
  · next hv => subst hv; exact refreshRoutes_dir g v hr
  · exact h v r hr

/-- a predicate on graphs preserved by `refresh` is preserved by the whole recursive `_update` -/
theorem update_preserves (P : Graph → Prop) (hP : ∀ g u, P g → P (refresh g u)) :
    ∀ (fuel : Nat) (g : Graph) (vis : List Nat) (u : Nat) (g' : Graph) (vis' : List Nat),
      P g → update fuel g vis u = some (g', vis') → P g' := by
  intro fuel
  induction fuel with
  | zero => intro g vis u g' vis' _ h; simp [update] at h
  | succ fuel ih =>
    intro g vis u g' vis' hg h
    unfold update at h
    simp only at h
    have key : ∀ (l : List Nat) (st : Option (Graph × List Nat)) (g' : Graph) (vis' : List Nat),
        (∀ g0 v0, st = some (g0, v0) → P g0) →
        l.foldl (fun st d =>
          match st with
          | none => none
          | some (g, visited) =>
            if visited.contains d then some (g, visited) else update fuel g visited d) st = some (g', vis') →
        P g' := by
      intro l
      induction l with
      | nil => intro st g' vis' hst h; exact hst _ _ h
      | cons d rest ihl =>
        intro st g' vis' hst h
        simp only [List.foldl_cons] at h
        refine ihl _ g' vis' ?_ h
        intro g0 v0 h0
        match st, hst with
        | none, _ => simp at h0
        | some (g1, v1), hst =>
          simp only at h0
          split at h0
          · cases h0; exact hst _ _ rfl
          · exact ih g1 v1 d g0 v0 (hst _ _ rfl) h0
    exact key _ _ g' vis' (by intro g0 v0 h0; cases h0; exact hP _ _ hg) h

theorem get_update_nbrs :
    ∀ (fuel : Nat) (g : Graph) (vis : List Nat) (u : Nat) (g' : Graph) (vis' : List Nat),
      update fuel g vis u = some (g', vis') → ∀ v, (get g' v).nbrs = (get g v).nbrs := by
  intro fuel g vis u g' vis' h v
  have := update_preserves (fun x => (get x v).nbrs = (get g v).nbrs)
    (by intro x w hx; show (get (refresh x w) v).nbrs = _; rw [get_refresh_nbrs]; exact hx) fuel g vis u g' vis' rfl h
  exact this

end BeyondVerif.Node
