import BeyondVerif.Model.Heap
/-! Helper lemmas about the heap model (no Mathlib needed). -/
namespace BeyondVerif.Heap

instance {α : Type} [DecidableEq α] : DecidableEq (Except Err α) := fun a b =>
  match a, b with
  | .ok x, .ok y => if h : x = y then isTrue (by rw [h]) else isFalse (by intro h'; cases h'; exact h rfl)
  | .error x, .error y => if h : x = y then isTrue (by rw [h]) else isFalse (by intro h'; cases h'; exact h rfl)
  | .ok _, .error _ => isFalse (by intro h; cases h)
  | .error _, .ok _ => isFalse (by intro h; cases h)

/-- `h'` extends `h`: at least as long and identical on every address of `h` -/
def Pres (h h' : Heap) : Prop := h.length ≤ h'.length ∧ ∀ a, a < h.length → h'[a]? = h[a]?

theorem Pres.refl (h : Heap) : Pres h h := ⟨Nat.le_refl _, fun _ _ => rfl⟩

theorem Pres.trans {h1 h2 h3 : Heap} (p : Pres h1 h2) (q : Pres h2 h3) : Pres h1 h3 :=
  ⟨Nat.le_trans p.1 q.1, fun a ha => by rw [q.2 a (Nat.lt_of_lt_of_le ha p.1), p.2 a ha]⟩

theorem alloc_length (h : Heap) (c : Cell) : (alloc h c).1.length = h.length + 1 := by simp [alloc]
theorem alloc_addr (h : Heap) (c : Cell) : (alloc h c).2 = h.length := rfl

theorem alloc_pres (h : Heap) (c : Cell) : Pres h (alloc h c).1 := by
  refine ⟨by simp [alloc], fun a ha => ?_⟩
  simp [alloc, List.getElem?_append_left ha]

theorem alloc_get (h : Heap) (c : Cell) : (alloc h c).1[h.length]? = some c := by simp [alloc]

theorem write_length (h : Heap) (a : Nat) (c : Cell) : (write h a c).length = h.length := by simp [write]

theorem write_other (h : Heap) (a b : Nat) (c : Cell) (hne : b ≠ a) : (write h a c)[b]? = h[b]? := by
  simp [write, Ne.symm hne]

/-- a write at an address that did not exist in `h0` keeps `h0` intact -/
theorem Pres.wr {h0 h : Heap} (p : Pres h0 h) {a : Nat} (ha : h0.length ≤ a) (c : Cell) : Pres h0 (write h a c) := by
  refine ⟨by rw [write_length]; exact p.1, fun b hb => ?_⟩
  have hne : b ≠ a := by omega
  have := write_other h a b c hne
  rw [this]; exact p.2 b hb

theorem Pres.alloc {h0 h : Heap} (p : Pres h0 h) (c : Cell) : Pres h0 (alloc h c).1 := p.trans (alloc_pres h c)

theorem write_same (h : Heap) (a : Nat) (c : Cell) (ha : a < h.length) : (write h a c)[a]? = some c := by
  simp [write, ha]

/-- the addresses stored in a cell -/
def refsOf : Cell → List Nat
  | .dict items => items.filterMap (fun kv => match kv.2 with | .addr x => some x | _ => none)
  | .list items => items.filterMap (fun r => match r with | .addr x => some x | _ => none)
  | .sv _ b d => [b, d]
  | .cov b _ orb _ => [b, orb]
  | _ => []

theorem mem_refs_list {items : List Ref} {x : Nat} : x ∈ refsOf (.list items) ↔ Ref.addr x ∈ items := by
  unfold refsOf
  simp only [List.mem_filterMap]
  constructor
  · rintro ⟨r, hr, hx⟩
    split at hx
    · simp at hx; subst hx; exact hr
    · simp at hx
  · intro hm; exact ⟨_, hm, rfl⟩

theorem mem_refs_dict {items : Items} {x : Nat} : x ∈ refsOf (.dict items) ↔ ∃ k, (k, Ref.addr x) ∈ items := by
  unfold refsOf
  simp only [List.mem_filterMap]
  constructor
  · rintro ⟨⟨k, r⟩, hr, hx⟩
    split at hx
    · rename_i y hy
      simp at hx hy; subst hx; subst hy; exact ⟨k, hr⟩
    · simp at hx
  · rintro ⟨k, hm⟩; exact ⟨_, hm, rfl⟩

/-- every address stored in a cell of `h` that did not exist in `h0` satisfies `P` -/
def ClosedP (P : Nat → Prop) (h0 h : Heap) : Prop :=
  ∀ a c, h0.length ≤ a → h[a]? = some c → ∀ x ∈ refsOf c, P x

theorem ClosedP.refl (P : Nat → Prop) (h : Heap) : ClosedP P h h := by
  intro a c ha hc
  have := (List.getElem?_eq_some_iff.mp hc).1
  omega

theorem ClosedP.alloc {P : Nat → Prop} {h0 h : Heap} (q : ClosedP P h0 h) (c : Cell) (hc : ∀ x ∈ refsOf c, P x) :
    ClosedP P h0 (alloc h c).1 := by
  intro a c' ha hc'
  by_cases hlt : a < h.length
  · have : (Heap.alloc h c).1[a]? = h[a]? := by simp [Heap.alloc, List.getElem?_append_left hlt]
    rw [this] at hc'; exact q a c' ha hc'
  · by_cases heq : a = h.length
    · subst heq
      rw [alloc_get] at hc'
      simp at hc'; subst hc'; exact hc
    · have : (Heap.alloc h c).1[a]? = none := by
        simp [Heap.alloc]; omega
      rw [this] at hc'; simp at hc'

theorem ClosedP.wr {P : Nat → Prop} {h0 h : Heap} (q : ClosedP P h0 h) (a : Nat) (c : Cell) (hc : ∀ x ∈ refsOf c, P x) :
    ClosedP P h0 (write h a c) := by
  intro b c' hb hc'
  by_cases heq : b = a
  · subst heq
    by_cases hlt : b < h.length
    · rw [write_same _ _ _ hlt] at hc'
      simp at hc'; subst hc'; exact hc
    · have : (write h b c)[b]? = none := by simp [write]; omega
      rw [this] at hc'; simp at hc'
  · rw [write_other _ _ _ _ heq] at hc'
    exact q b c' hb hc'

theorem lookup_mem (m : List (Nat × Nat)) (a a' : Nat) (hl : m.lookup a = some a') : (a, a') ∈ m := by
  induction m with
  | nil => simp [List.lookup] at hl
  | cons p rest ih =>
    obtain ⟨k, v⟩ := p
    by_cases hk : a = k
    · subst hk
      simp [List.lookup] at hl
      subst hl; exact List.mem_cons_self
    · have : (a == k) = false := by simp [hk]
      simp [List.lookup, this] at hl
      exact List.mem_cons_of_mem _ (ih hl)

/-- the physical state behind a symbolic value: form conversions erased (they do not move the point) -/
def phys : Val → Val
  | .init k => .init k
  | .conv _ _ v => phys v
  | .xform a b v => .xform a b (phys v)
  | .set f i x v => .set f i x (phys v)
  | .covx c t o r ov v => .covx c t o r ov v

theorem phys_mkConv (f g : String) (v : Val) : phys (mkConv f g v) = phys v := by
  unfold mkConv; split <;> simp [phys]

theorem erase_insert (k : String) (v : Ref) (items : Items) (hk : lookup k items = none) :
    erase k (insert k v items) = items := by
  induction items with
  | nil => simp [insert, erase]
  | cons kv rest ih =>
    obtain ⟨k', v'⟩ := kv
    by_cases h : k' = k
    · simp [lookup, h] at hk
    · simp [lookup, h] at hk
      simp [insert, erase, h, ih hk]

theorem lookup_insert_ne (k k' : String) (v : Ref) (items : Items) (hne : k' ≠ k) :
    lookup k' (insert k v items) = lookup k' items := by
  induction items with
  | nil => simp [insert, lookup, Ne.symm hne]
  | cons kv rest ih =>
    obtain ⟨k2, v2⟩ := kv
    by_cases h : k2 = k
    · subst h; simp [insert, lookup, Ne.symm hne]
    · by_cases h2 : k2 = k'
      · subst h2; simp [insert, lookup, h]
      · simp [insert, lookup, h, h2, ih]

theorem lookup_insert_self (k : String) (v : Ref) (items : Items) : lookup k (insert k v items) = some v := by
  induction items with
  | nil => simp [insert, lookup]
  | cons kv rest ih =>
    obtain ⟨k2, v2⟩ := kv
    by_cases h : k2 = k <;> simp [insert, lookup, h, ih]

end BeyondVerif.Heap
