import BeyondVerif.Model.InterpR
import Mathlib.Tactic.Linarith
import Mathlib.Tactic.NormNum
import Mathlib.Data.List.Basic
/-!
C09: the Lagrange formula of `Interp._lagrange`, *translated from the numpy source on every run*
(`lagrangeFormula`, Generated/InterpLagR.lean: tile / reshape / diag / repeat / ~identity / boolean mask /
broadcast `-` and `/` / prod(axis=1) / `@`, each one operation of Model/NpArrR.lean), is the textbook formula
`lagrangeEval` (`Σ_j y_j Π_{m≠j} (x - x_m)/(x_j - x_m)`, Model/InterpR.lean) on every window whose abscissae and
ordinates both have `order ≥ 1` rows — and numpy refuses (`none`) a window whose abscissae are not `order` many.

A change of the formula in the source (other axis, mask without the negation, numerator and denominator
exchanged, `x_m - x_j` …) changes the regenerated term, and `lagrangeFormula_eq` stops checking.
-/
namespace BeyondVerif.C09
open BeyondVerif.R BeyondVerif.NumReal

/-! ### the translated guards, slice bounds and linear formula mean what the model's theorems take them to mean

(each of these definitions is regenerated from interp.py; a changed comparison, bound or formula breaks the lemma) -/

/-- `Interp.__call__` refuses exactly the abscissae outside `[xs[0], xs[-1]]` -/
theorem callRefuses_iff (x0 xl x : ℝ) : callRefuses x0 xl x = true ↔ ¬ (x0 ≤ x ∧ x ≤ xl) := by
  unfold callRefuses
  exact decide_eq_true_iff

/-- `_lagrange` refuses exactly the windows whose length is not the order -/
theorem lagrangeRefuses_iff (n k : Int) : lagrangeRefuses n k = true ↔ n ≠ k := by
  simp [lagrangeRefuses]

theorem lagrangeRefuses_self (n : Int) : lagrangeRefuses n n = false := by
  simp [lagrangeRefuses]

/-- `_linear` takes the two rows `prev_idx`, `prev_idx + 1` -/
theorem linearSlice_eq (p : Int) : linearSlice p = (p, p + 2) := rfl

/-- `_linear` returns `y0 + (y1 - y0) (x - x0) / (x1 - x0)` -/
theorem linearFormula_eq (x x0 x1 y0 y1 : ℝ) : linearFormula x x0 x1 y0 y1 = y0 + (y1 - y0) * (x - x0) / (x1 - x0) := rfl

/-! ### one lemma per numpy operation -/

theorem npTile_nat (v : List ℝ) (k : ℕ) : npTile v (k : Int) = some ((List.replicate k v).flatten) := by
  unfold npTile
  rw [if_neg (by omega)]
  simp

theorem npRepeat0_nat (v : List ℝ) (k : ℕ) : npRepeat0 v (k : Int) = some ((v.map (fun a => List.replicate k a)).flatten) := by
  unfold npRepeat0
  rw [if_neg (by omega)]
  simp [List.flatMap_def]

theorem chunk_flatten (c : ℕ) : ∀ rows : List (List ℝ), (∀ row ∈ rows, row.length = c) →
    (List.range rows.length).map (fun i => (rows.flatten.drop (i * c)).take c) = rows
  | [], _ => rfl
  | row :: rest, h => by
    have hrow : row.length = c := h row List.mem_cons_self
    have ih := chunk_flatten c rest (fun r hr => h r (List.mem_cons_of_mem _ hr))
    rw [List.length_cons, List.range_succ_eq_map, List.map_cons, List.map_map]
    congr 1
    · simp [hrow.symm]
    · conv_rhs => rw [← ih]
      apply List.map_congr_left
      intro i _
      simp only [Function.comp, List.flatten_cons]
      have : (i + 1) * c = row.length + i * c := by rw [hrow]; ring
      rw [this, List.drop_append, List.drop_eq_nil_of_le (by omega), List.nil_append]
      congr 2
      omega

theorem length_flatten_const (c : ℕ) : ∀ rows : List (List ℝ), (∀ row ∈ rows, row.length = c) →
    rows.flatten.length = rows.length * c
  | [], _ => by simp
  | row :: rest, h => by
    rw [List.flatten_cons, List.length_append, length_flatten_const c rest (fun r hr => h r (List.mem_cons_of_mem _ hr)),
      h row List.mem_cons_self, List.length_cons]
    ring

theorem npReshape2_flatten (rows : List (List ℝ)) (r c : ℕ) (hr : rows.length = r) (hc : ∀ row ∈ rows, row.length = c) :
    npReshape2 rows.flatten (r : Int) (c : Int) = some rows := by
  unfold npReshape2
  have hl := length_flatten_const c rows hc
  rw [if_neg (by
    rintro (h | h | h)
    · omega
    · omega
    · apply h; rw [hl, hr]; push_cast; ring)]
  simp only [Int.toNat_natCast]
  rw [← hr, chunk_flatten c rows hc]

theorem npReshape2_refuses (v : List ℝ) (r c : ℕ) (h : v.length ≠ r * c) : npReshape2 v (r : Int) (c : Int) = none := by
  unfold npReshape2
  rw [if_pos (by right; right; intro h'; apply h; exact_mod_cast h')]

theorem range_map_getD0 (l : List ℝ) : (List.range l.length).map (fun c => l.getD c 0) = l := by
  apply List.ext_getElem
  · simp
  · intro i h1 h2
    simp at h1
    simp [List.getD_eq_getElem?_getD, List.getElem?_eq_getElem h1]

theorem replicate_eq_map_range {α : Type} (k : ℕ) (a : α) : List.replicate k a = (List.range k).map (fun _ => a) := by
  apply List.ext_getElem <;> simp

/-- the tiled and reshaped abscissae: row `j`, column `m` holds `x_m` -/
theorem xm_eq (xs : List ℝ) (k : ℕ) (hx : xs.length = k) :
    List.replicate k xs = (List.range k).map (fun _ => (List.range k).map (fun m => xs.getD m 0)) := by
  rw [replicate_eq_map_range]
  subst hx
  rw [range_map_getD0]

/-- the repeated diagonal: row `j`, column `m` holds `x_j` -/
theorem xj_eq (xs : List ℝ) (k : ℕ) (hx : xs.length = k) :
    xs.map (fun a => List.replicate k a) = (List.range k).map (fun j => (List.range k).map (fun _ => xs.getD j 0)) := by
  conv_lhs => rw [← range_map_getD0 xs]
  rw [List.map_map, hx]
  apply List.map_congr_left
  intro j _
  exact replicate_eq_map_range k (xs.getD j 0)

theorem npDiag_xm (xs : List ℝ) (k : ℕ) (hx : xs.length = k) : npDiag (List.replicate k xs) = some xs := by
  unfold npDiag
  congr 1
  rw [List.length_replicate]
  conv_rhs => rw [← range_map_getD0 xs, hx]
  apply List.map_congr_left
  intro i hi
  have hi' : i < k := List.mem_range.mp hi
  simp [List.getD_eq_getElem?_getD, hi']

theorem maskRow_map {ι : Type} (g : ι → ℝ) (p : ι → Bool) : ∀ l : List ι,
    maskRow (l.map g) (l.map p) = (l.filter p).map g
  | [] => rfl
  | a :: l => by
    have ih := maskRow_map g p l
    unfold maskRow at ih ⊢
    simp only [List.map_cons, List.zip_cons_cons, List.filter_cons]
    cases hp : p a <;> simp [ih]

theorem npMask2_tab (k : ℕ) (g : ℕ → ℕ → ℝ) (p : ℕ → ℕ → Bool) :
    npMask2 ((List.range k).map (fun i => (List.range k).map (g i))) ((List.range k).map (fun i => (List.range k).map (p i)))
      = some (((List.range k).map (fun i => ((List.range k).filter (p i)).map (g i))).flatten) := by
  unfold npMask2
  rw [if_pos (by
    constructor
    · simp
    · rw [List.zipWith_map, List.zipWith_self]
      simp)]
  congr 2
  rw [List.zipWith_map, List.zipWith_self]
  apply List.map_congr_left
  intro i _
  exact maskRow_map (g i) (p i) (List.range k)

theorem zipWith_flatten_tab {ι κ : Type} (f : ℝ → ℝ → ℝ) (S : ι → List κ) (a b : ι → κ → ℝ) : ∀ L : List ι,
    List.zipWith f ((L.map (fun i => (S i).map (a i))).flatten) ((L.map (fun i => (S i).map (b i))).flatten)
      = (L.map (fun i => (S i).map (fun j => f (a i j) (b i j)))).flatten
  | [] => rfl
  | i :: L => by
    simp only [List.map_cons, List.flatten_cons]
    rw [List.zipWith_append (by simp), zipWith_flatten_tab f S a b L]
    congr 1
    rw [List.zipWith_map, List.zipWith_self]

theorem length_flatten_tab {ι κ : Type} (S : ι → List κ) (a b : ι → κ → ℝ) : ∀ L : List ι,
    ((L.map (fun i => (S i).map (a i))).flatten).length = ((L.map (fun i => (S i).map (b i))).flatten).length
  | [] => rfl
  | i :: L => by
    simp only [List.map_cons, List.flatten_cons, List.length_append, List.length_map]
    rw [length_flatten_tab S a b L]

theorem offdiag_length (k i : ℕ) (hi : i < k) : ((List.range k).filter (fun j => !(i == j))).length = k - 1 := by
  have h1 : (List.range k).filter (fun j => !(i == j)) = (List.range k).erase i := by
    rw [List.Nodup.erase_eq_filter List.nodup_range]
    apply List.filter_congr
    intro j _
    by_cases h : i = j
    · subst h; simp
    · have h' : j ≠ i := fun e => h e.symm
      have e1 : (i == j) = false := beq_false_of_ne h
      have e2 : (j != i) = true := bne_iff_ne.mpr h'
      simp only [e1, e2, Bool.not_false]
  rw [h1, List.length_erase_of_mem (List.mem_range.mpr hi), List.length_range]

/-- `l_j @ ys` with the weights tabulated over `range k` is the specification's column sum -/
theorem vecmat_cols (w : ℕ → ℝ) (k : ℕ) (ys : List (List ℝ)) (hy : ys.length = k) :
    (columns ys).map (fun col => (((List.range k).map w).zip col).foldl (fun acc p => acc + p.1 * p.2) (0 : ℝ))
      = (columns ys).map (fun col => (List.range k).foldl (fun acc j => acc + w j * col.getD j 0) (0 : ℝ)) := by
  apply List.map_congr_left
  intro col hcol
  have hlen : col.length = k := by
    unfold columns at hcol
    obtain ⟨c, _, rfl⟩ := List.mem_map.mp hcol
    simp [hy]
  conv_lhs => rw [← range_map_getD0 col, hlen, List.zip_map', List.foldl_map]

/-! ### the translated formula is the textbook formula -/

/-- **The numpy formula of `Interp._lagrange` is the Lagrange formula** `Σ_j y_j Π_{m ≠ j} (x - x_m) / (x_j - x_m)`
(product over the *other* nodes, numerator `x - x_m`, denominator `x_j - x_m`, one weight per row `j` of the
window, weights applied to the rows of the ordinates).  `lagrangeFormula` is regenerated from interp.py on every run. -/
theorem lagrangeFormula_eq (k : ℕ) (xs : List ℝ) (ys : List (List ℝ)) (x : ℝ) (hk : 1 ≤ k)
    (hx : xs.length = k) (hy : ys.length = k) :
    lagrangeFormula (k : Int) xs ys x = some (lagrangeEval xs ys x) := by
  have h1 := npTile_nat xs k
  have h2 : npReshape2 (List.replicate k xs).flatten (k : Int) (k : Int) = some (List.replicate k xs) :=
    npReshape2_flatten _ k k (by simp) (by intro row hrow; rw [(List.mem_replicate.mp hrow).2, hx])
  have h3 := npDiag_xm xs k hx
  have h4 := npRepeat0_nat xs k
  have h5 : npReshape2 (xs.map (fun a => List.replicate k a)).flatten (k : Int) (k : Int) = some (xs.map (fun a => List.replicate k a)) :=
    npReshape2_flatten _ k k (by simp [hx]) (by intro row hrow; obtain ⟨a, _, rfl⟩ := List.mem_map.mp hrow; simp)
  have h6 : npIdentityBool (k : Int) = some ((List.range k).map (fun i => (List.range k).map (fun j => i == j))) := by
    unfold npIdentityBool; rw [if_neg (by omega)]; simp
  have h7 : npNotB ((List.range k).map (fun i => (List.range k).map (fun j => i == j)))
      = some ((List.range k).map (fun i => (List.range k).map (fun j => !(i == j)))) := by
    unfold npNotB; simp [List.map_map, Function.comp_def]
  have hsel (g : ℕ → ℕ → ℝ) := npMask2_tab k g (fun i j => !(i == j))
  have hkc : ((k : Int) - (1 : Int)) = ((k - 1 : ℕ) : Int) := by omega
  unfold lagrangeFormula
  simp only [h1, h2, h3, h4, h5, h6, h7, Option.bind_some, bind]
  rw [xm_eq xs k hx, xj_eq xs k hx]
  simp only [hsel, Option.bind_some]
  simp only [npSubSV, npSubVV, npDivVV, Option.bind_some, List.map_flatten, List.map_map, Function.comp_def]
  rw [if_pos (length_flatten_tab _ _ _ _)]
  simp only [Option.bind_some]
  rw [zipWith_flatten_tab (fun p q => p - q)]
  rw [if_pos (length_flatten_tab _ _ _ _)]
  simp only [Option.bind_some]
  rw [zipWith_flatten_tab (fun p q => p / q)]
  rw [hkc, npReshape2_flatten _ k (k - 1) (by simp) (by
    intro row hrow
    obtain ⟨i, hi, rfl⟩ := List.mem_map.mp hrow
    rw [List.length_map]
    exact offdiag_length k i (List.mem_range.mp hi))]
  simp only [Option.bind_some, npProdAxis1, List.map_map, Function.comp_def, List.foldl_map]
  unfold npVecMat
  rw [if_pos (by simp [hy])]
  congr 1
  rw [vecmat_cols _ k ys hy]
  unfold lagrangeEval
  apply List.map_congr_left
  intro col _
  unfold lagrangeCol
  rw [hx]
  apply List.foldl_ext
  intro acc j hj
  congr 2
  unfold lagWeight
  rw [hx]
  congr 1
  apply List.filter_congr
  intro m _
  by_cases h : j = m
  · subst h; simp
  · have h' : m ≠ j := fun e => h e.symm
    simp [h, h']

/-- the hypotheses are met, and the translated chain computes: two nodes 0, 1 with ordinates 1, 3 give 2 at 1/2 -/
example : lagrangeFormula ((2 : ℕ) : Int) [(0 : ℝ), 1] [[1], [3]] (1 / 2) = some [2] := by
  rw [lagrangeFormula_eq 2 _ _ _ (by omega) rfl rfl]
  simp [lagrangeEval, columns, lagrangeCol, lagWeight, List.range_succ]
  norm_num

/-- numpy refuses (`reshape(order, order)`) a window whose abscissae are not `order` many -/
theorem lagrangeFormula_refuses (k : ℕ) (xs : List ℝ) (ys : List (List ℝ)) (x : ℝ) (hk : 1 ≤ k) (hx : xs.length ≠ k) :
    lagrangeFormula (k : Int) xs ys x = none := by
  unfold lagrangeFormula
  rw [npTile_nat]
  have : npReshape2 (List.replicate k xs).flatten (k : Int) (k : Int) = none := by
    apply npReshape2_refuses
    rw [length_flatten_const xs.length _ (by intro row hrow; rw [(List.mem_replicate.mp hrow).2]), List.length_replicate]
    intro h
    apply hx
    have hk0 : 0 < k := hk
    exact Nat.eq_of_mul_eq_mul_left hk0 h
  simp [this]

end BeyondVerif.C09
