import BeyondVerif.Lemmas.HeapSet
/-! The mirror of the separation invariant: a region `[lo, hi)` of the heap (the cells a copy created) that no cell outside it
refers to. In-place operations on an object outside the region never write into it and never store an address of it. -/
namespace BeyondVerif.Heap

/-- outside the region -/
def Off (lo hi x : Nat) : Prop := x < lo ∨ hi ≤ x

structure Out (lo hi : Nat) (h1 h : Heap) : Prop where
  len : hi ≤ h.length
  same : ∀ x, lo ≤ x → x < hi → h[x]? = h1[x]?
  closed : ∀ x c, Off lo hi x → h[x]? = some c → ∀ y ∈ refsOf c, Off lo hi y

theorem Out.wr {lo hi : Nat} {h1 h : Heap} (o : Out lo hi h1 h) {a : Nat} (ha : Off lo hi a) (c : Cell)
    (hc : ∀ y ∈ refsOf c, Off lo hi y) : Out lo hi h1 (write h a c) := by
  refine ⟨by rw [write_length]; exact o.len, fun x hl hh => ?_, fun x c' hx hc' y hy => ?_⟩
  · have hne : x ≠ a := by unfold Off at ha; omega
    rw [write_other _ _ _ _ hne]; exact o.same x hl hh
  · by_cases heq : x = a
    · subst heq
      by_cases hlt : x < h.length
      · rw [write_same _ _ _ hlt] at hc'; simp at hc'; subst hc'; exact hc y hy
      · have : (write h x c)[x]? = none := by simp [write]; omega
        rw [this] at hc'; simp at hc'
    · rw [write_other _ _ _ _ heq] at hc'; exact o.closed x c' hx hc' y hy

theorem Out.al {lo hi : Nat} {h1 h : Heap} (o : Out lo hi h1 h) (c : Cell) (hc : ∀ y ∈ refsOf c, Off lo hi y) :
    Out lo hi h1 (alloc h c).1 := by
  have hl := o.len
  refine ⟨by simp [alloc]; omega, fun x hlo hh => ?_, fun x c' hx hc' y hy => ?_⟩
  · have hlt : x < h.length := by omega
    simp [alloc, List.getElem?_append_left hlt]; exact o.same x hlo hh
  · by_cases hlt : x < h.length
    · have : (alloc h c).1[x]? = h[x]? := by simp [alloc, List.getElem?_append_left hlt]
      rw [this] at hc'; exact o.closed x c' hx hc' y hy
    · by_cases heq : x = h.length
      · subst heq; rw [alloc_get] at hc'; simp at hc'; subst hc'; exact hc y hy
      · have : (alloc h c).1[x]? = none := by simp [alloc]; omega
        rw [this] at hc'; simp at hc'

/-- a freshly allocated address is outside the region -/
theorem Out.fresh {lo hi : Nat} {h1 h : Heap} (o : Out lo hi h1 h) : Off lo hi h.length := Or.inr o.len

theorem outSV {lo hi : Nat} {h1 h : Heap} (o : Out lo hi h1 h) {a : Nat} (ha : Off lo hi a) {s : SV} (hs : getSV h a = some s) :
    Off lo hi s.buf ∧ Off lo hi s.data ∧ ∀ y ∈ refsOf (.dict s.items), Off lo hi y := by
  obtain ⟨hc, _, hd⟩ := getSV_cells h a s hs
  have hb' := o.closed a _ ha hc s.buf (by simp [refsOf])
  have hd' := o.closed a _ ha hc s.data (by simp [refsOf])
  exact ⟨hb', hd', o.closed s.data _ hd' hd⟩

theorem outEntry {lo hi : Nat} {h1 h : Heap} (o : Out lo hi h1 h) {a : Nat} (ha : Off lo hi a) {s : SV} (hs : getSV h a = some s)
    {k : String} {x : Nat} (hl : lookup k s.items = some (.addr x)) : Off lo hi x :=
  (outSV o ha hs).2.2 x (mem_refs_dict.mpr ⟨k, lookup_mem_items _ _ _ hl⟩)

theorem setFormTo_out {lo hi : Nat} {h1 h : Heap} (o : Out lo hi h1 h) {a : Nat} (ha : Off lo hi a) (g : String) :
    Out lo hi h1 (setFormTo h a g).1 := by
  unfold setFormTo
  split
  · exact o
  · rename_i s hs
    obtain ⟨hb, hd, hg⟩ := outSV o ha hs
    refine (o.wr hb _ (by simp [refsOf])).wr hd _ ?_
    intro y hy
    rcases refs_insert hy with h | h
    · simp at h
    · exact hg y h

theorem setForm_out {lo hi : Nat} {h1 h : Heap} (o : Out lo hi h1 h) {a : Nat} (ha : Off lo hi a) (name : String) :
    Out lo hi h1 (setForm h a name).1 := by
  unfold setForm
  split
  · exact o
  · exact setFormTo_out o ha _

theorem setFrameBasic_out {lo hi : Nat} {h1 h : Heap} (o : Out lo hi h1 h) {a : Nat} (ha : Off lo hi a) (fr : Fr) (env : Env) :
    Out lo hi h1 (setFrameBasic h a fr env).1 := by
  unfold setFrameBasic
  split
  · exact o
  · rename_i s hs
    obtain ⟨hb, hd, hg⟩ := outSV o ha hs
    have hins : ∀ y ∈ refsOf (.dict (insert "frame" (.frame fr) s.items)), Off lo hi y := by
      intro y hy
      rcases refs_insert hy with h | h
      · simp at h
      · exact hg y h
    simp only
    split
    · exact o
    · split
      · split
        · exact o.wr hb _ (by simp [refsOf])
        · exact (o.wr hb _ (by simp [refsOf])).wr hd _ hins
      · exact o.wr hb _ (by simp [refsOf])
      · exact o.wr hb _ (by simp [refsOf])
      · exact o

theorem covSetFrame_out {lo hi : Nat} {h1 h : Heap} (o : Out lo hi h1 h) {c : Nat} (hc : Off lo hi c) (fr : Fr) (env : Env) :
    Out lo hi h1 (covSetFrame h c fr env).1 := by
  unfold covSetFrame
  split
  · rename_i b cfr orb ofr hcell
    split
    · exact o
    · split
      · exact o
      · split
        · have hg := o.closed c _ hc hcell
          exact (o.wr (hg b (by simp [refsOf])) _ (by simp [refsOf])).wr hc _ (fun y hy => hg y (by simpa [refsOf] using hy))
        · exact o
  · exact o

theorem restoreSV_out {lo hi : Nat} {h1 h : Heap} (o : Out lo hi h1 h) (s : SV) (hb : Off lo hi s.buf) (hd : Off lo hi s.data) :
    Out lo hi h1 (restoreSV h s) := by
  unfold restoreSV
  have o1 := o.wr hb (.buf s.val) (by simp [refsOf])
  simp only
  split
  · rename_i items hc
    refine o1.wr hd _ ?_
    intro y hy
    rcases refs_insert hy with h | h
    · simp at h
    · exact o1.closed s.data _ hd hc y h
  · exact o1

theorem setFrame_out {lo hi : Nat} {h1 h : Heap} (o : Out lo hi h1 h) {a : Nat} (ha : Off lo hi a) (name : String) (env : Env) :
    Out lo hi h1 (setFrame h a name env).1 := by
  unfold setFrame
  split
  · exact o
  · rename_i fr _
    unfold setFrameTo
    split
    · exact o
    · rename_i s hs
      obtain ⟨hb, hd, _⟩ := outSV o ha hs
      have ob := setFrameBasic_out o ha fr env
      split
      · rename_i h2 e he; rw [he] at ob; exact ob
      · rename_i h2 he
        rw [he] at ob
        split
        · rename_i c hcov
          have hc := outEntry o ha hs hcov
          split
          · split
            · have oc := covSetFrame_out ob hc fr env
              split
              · rename_i h3 e he3; rw [he3] at oc; exact restoreSV_out oc s hb hd
              · rename_i h3 he3; rw [he3] at oc; exact oc
            · exact ob
          · exact restoreSV_out ob s hb hd
        · exact ob

theorem setAttr_out {lo hi : Nat} {h1 h : Heap} (o : Out lo hi h1 h) {a : Nat} (ha : Off lo hi a) (name : String) (x : Nat) :
    Out lo hi h1 (setAttr h a name x).1 := by
  unfold setAttr
  split
  · exact o
  · rename_i s hs
    obtain ⟨hb, hd, hg⟩ := outSV o ha hs
    split
    · exact o
    · split
      · exact o.wr hb _ (by simp [refsOf])
      · exact o
      · exact o.wr hd _ (refs_insert_tok hg)

theorem setIdx_out {lo hi : Nat} {h1 h : Heap} (o : Out lo hi h1 h) {a : Nat} (ha : Off lo hi a) (i x : Nat) :
    Out lo hi h1 (setIdx h a i x).1 := by
  unfold setIdx
  split
  · exact o
  · rename_i s hs
    obtain ⟨hb, _, _⟩ := outSV o ha hs
    split
    · exact o.wr hb _ (by simp [refsOf])
    · exact o

theorem covFrame_out {lo hi : Nat} {h1 h : Heap} (o : Out lo hi h1 h) {a : Nat} (ha : Off lo hi a) (name : String) :
    Out lo hi h1 (covFrame h a name).1 := by
  unfold covFrame
  split
  · exact o
  · rename_i s hs
    split
    · rename_i c hl
      have key : ∀ fr, Out lo hi h1 (covSetFrame h c fr).1 := fun fr => covSetFrame_out o (outEntry o ha hs hl) fr noEnv
      dsimp only
      generalize (if name = "TNW" then some Fr.tnw else if name = "QSW" then some Fr.qsw else resolveFrame name) = ofr
      cases ofr with
      | none => exact o
      | some fr => exact key fr
    · exact o

theorem getMans_out {lo hi : Nat} {h1 h : Heap} (o : Out lo hi h1 h) {a : Nat} (ha : Off lo hi a) :
    Out lo hi h1 (getMans h a).1 ∧ ∀ l, (getMans h a).2 = .ok l → Off lo hi l := by
  unfold getMans
  split
  · exact ⟨o, fun l hl => by simp at hl⟩
  · rename_i s hs
    obtain ⟨_, hd, hg⟩ := outSV o ha hs
    split
    · rename_i l hl
      exact ⟨o, fun l' hl' => by simp at hl'; subst hl'; exact outEntry o ha hs hl⟩
    · exact ⟨o, fun l hl => by simp at hl⟩
    · refine ⟨(o.al (.list []) (by simp [refsOf])).wr hd _ ?_, fun l hl => ?_⟩
      · intro y hy
        rcases refs_insert hy with h | h
        · injection h with h; subst h; exact o.fresh
        · exact hg y h
      · simp [alloc] at hl; subst hl; exact o.fresh

theorem readMan_out {lo hi : Nat} {h1 h : Heap} (o : Out lo hi h1 h) {a : Nat} (ha : Off lo hi a) : Out lo hi h1 (readMan h a).1 := by
  have := (getMans_out o ha).1
  unfold readMan
  split
  · rename_i h2 l he; rw [he] at this; exact this
  · rename_i h2 e he; rw [he] at this; exact this

theorem addMan_out {lo hi : Nat} {h1 h : Heap} (o : Out lo hi h1 h) {a : Nat} (ha : Off lo hi a) (t : Nat) : Out lo hi h1 (addMan h a t).1 := by
  have hm := getMans_out o ha
  unfold addMan
  split
  · rename_i h2 e he; rw [he] at hm; exact hm.1
  · rename_i h2 l he
    rw [he] at hm
    split
    · rename_i ms hc
      have hl := hm.2 l rfl
      have hgl := hm.1.closed l _ hl hc
      refine (hm.1.al (.man t) (by simp [refsOf])).wr hl _ ?_
      intro y hy
      have := mem_refs_list.mp hy
      simp at this
      rcases this with h2' | h2'
      · exact hgl y (mem_refs_list.mpr h2')
      · subst h2'; exact hm.1.fresh
    · exact hm.1

theorem metaAppend_out {lo hi : Nat} {h1 h : Heap} (o : Out lo hi h1 h) {a : Nat} (ha : Off lo hi a) (key : String) (x : Nat) :
    Out lo hi h1 (metaAppend h a key x).1 := by
  unfold metaAppend
  split
  · exact o
  · rename_i s hs
    split
    · rename_i l hl
      split
      · rename_i xs hc
        have hoff := outEntry o ha hs hl
        exact o.wr hoff _ (refs_append_tok (o.closed l _ hoff hc))
      · exact o
    · exact o

theorem metaSetItem_out {lo hi : Nat} {h1 h : Heap} (o : Out lo hi h1 h) {a : Nat} (ha : Off lo hi a) (key : String) (x : Nat) :
    Out lo hi h1 (metaSetItem h a key x).1 := by
  unfold metaSetItem
  split
  · exact o
  · rename_i s hs
    split
    · rename_i d hl
      split
      · rename_i items hc
        have hoff := outEntry o ha hs hl
        exact o.wr hoff _ (refs_insert_tok (o.closed d _ hoff hc))
      · exact o
    · exact o
    · exact o

theorem nestedAppend_out {lo hi : Nat} {h1 h : Heap} (o : Out lo hi h1 h) {a : Nat} (ha : Off lo hi a) (x : Nat) :
    Out lo hi h1 (nestedAppend h a x).1 := by
  unfold nestedAppend
  split
  · exact o
  · rename_i s hs
    split
    · rename_i d hl
      split
      · rename_i items hc
        have hd := outEntry o ha hs hl
        split
        · rename_i l hk
          split
          · rename_i xs hcl
            have hoff : Off lo hi l := o.closed d _ hd hc l (mem_refs_dict.mpr ⟨"k", lookup_mem_items _ _ _ hk⟩)
            exact o.wr hoff _ (refs_append_tok (o.closed l _ hoff hcl))
          · exact o
        · exact o
      · exact o
    · exact o

theorem arrSet_out {lo hi : Nat} {h1 h : Heap} (o : Out lo hi h1 h) {a : Nat} (ha : Off lo hi a) : Out lo hi h1 (arrSet h a).1 := by
  unfold arrSet
  split
  · exact o
  · rename_i s hs
    split
    · rename_i r hl
      split
      · exact o.wr (outEntry o ha hs hl) _ (by simp [refsOf])
      · exact o
    · exact o

theorem readInfos_out {lo hi : Nat} {h1 h : Heap} (o : Out lo hi h1 h) {a : Nat} (ha : Off lo hi a) : Out lo hi h1 (readInfos h a).1 := by
  have key : ∀ t, Out lo hi h1 (getInfos t h a).1 := by
    intro t
    unfold getInfos
    split
    · exact o
    · rename_i s hs
      obtain ⟨_, hd, hg⟩ := outSV o ha hs
      split
      · exact o
      · exact (o.al .clone (by simp [refsOf])).wr hd _ (refs_insert_weak (by intro x; simp) hg)
  have := key infosTest
  unfold readInfos
  split
  · rename_i h2 ow he; rw [he] at this; exact this
  · rename_i h2 he; rw [he] at this; exact this

end BeyondVerif.Heap
