import BeyondVerif.Lemmas.FrameEdges
import BeyondVerif.Props.C20

/-!
Helper lemmas for C02 about the model of `Center.convert_to` (Model/FramesR.lean `centerConvert`, `centreStep`):

* the states (position, velocity) with `S6.add / S6.neg / S6.zero` are an additive instance `algS6` of the algebra of Lemmas/Chain.lean,
  `T6.app` is linear on them;
* `centreFold_chain`: the signed sum along the centre route is the loop `Chain.chain` of that algebra over the edge function `cedge`
  (the offset of the link `a_to_b`, rotated to the target orientation) — so the potential argument of Lemmas/Chain.lean applies;
* `centerConvert_spec`: what `centerConvert` returns is that chain along a walk of the centre history;
* `centreFold_retarget`: the same route summed in another target orientation is the image under the rotation between the two targets.
-/
namespace BeyondVerif.R
open BeyondVerif.NumReal BeyondVerif.Chain

namespace S6

theorem add_assoc (a b c : V3 × V3) : add (add a b) c = add a (add b c) := by
  refine Prod.ext ?_ ?_ <;> ext <;> simp only [add, V3.add] <;> ring
theorem add_comm (a b : V3 × V3) : add a b = add b a := by
  refine Prod.ext ?_ ?_ <;> ext <;> simp only [add, V3.add] <;> ring
theorem zero_add (a : V3 × V3) : add zero a = a := by
  refine Prod.ext ?_ ?_ <;> ext <;> simp [add, zero, V3.add, V3.zero]
theorem add_zero (a : V3 × V3) : add a zero = a := by
  refine Prod.ext ?_ ?_ <;> ext <;> simp [add, zero, V3.add, V3.zero]
theorem neg_add_self (a : V3 × V3) : add (neg a) a = zero := by
  refine Prod.ext ?_ ?_ <;> ext <;> simp [add, neg, zero, V3.add, V3.neg, V3.zero]
theorem add_neg_self (a : V3 × V3) : add a (neg a) = zero := by
  refine Prod.ext ?_ ?_ <;> ext <;> simp [add, neg, zero, V3.add, V3.neg, V3.zero]

end S6

/-- numpy's length-6 arrays under `+`: the additive instance of the algebra of Lemmas/Chain.lean -/
noncomputable def algS6 : Alg (V3 × V3) := ⟨S6.add, S6.zero, S6.neg, S6.add_assoc, S6.zero_add, S6.add_zero⟩

namespace T6

theorem app_add (m : T6) (a b : V3 × V3) : app m (S6.add a b) = S6.add (app m a) (app m b) := by
  refine Prod.ext ?_ ?_ <;> ext <;> simp only [app, apply, S6.add, V3.add, M3.apply] <;> ring
theorem app_neg (m : T6) (a : V3 × V3) : app m (S6.neg a) = S6.neg (app m a) := by
  refine Prod.ext ?_ ?_ <;> ext <;> simp only [app, apply, S6.neg, V3.neg, V3.add, M3.apply] <;> ring
theorem app_zero (m : T6) : app m S6.zero = S6.zero := by
  refine Prod.ext ?_ ?_ <;> ext <;> simp [app, apply, S6.zero, V3.zero, V3.add, M3.apply]
theorem app_mul (n m : T6) (a : V3 × V3) : app (mul n m) a = app n (app m a) := by
  simp only [app]; exact T6.apply_mul n m a.1 a.2
theorem app_one (a : V3 × V3) : app one a = a := by
  simp only [app]; exact T6.apply_one a.1 a.2

end T6

/-- the edge function of the centre graph for a target orientation `T`: the offset of the link `a_to_b`, as `Center._to_parent(date, T)`
returns it -/
noncomputable def cedge (D : DateArgs) (names : List String) (hist : List (Nat × Nat)) (extras : List Extra) (clinks : List CLink)
    (T : Nat) (a b : Nat) : Option (V3 × V3) :=
  match clinks.find? (fun (l : CLink) => l.child = a ∧ l.parent = b) with
  | some l => linkOffset D names hist extras T l
  | none => none

/-- no pair of centres is linked in both directions (`Center.add_link` hangs a NEW centre below an existing one) -/
def CLinksOneDir (clinks : List CLink) : Prop :=
  ∀ a b l, clinks.find? (fun (l : CLink) => l.child = a ∧ l.parent = b) = some l →
    clinks.find? (fun (l : CLink) => l.child = b ∧ l.parent = a) = none

theorem edgesOK_cedge (D : DateArgs) (names : List String) (hist : List (Nat × Nat)) (extras : List Extra) (clinks : List CLink)
    (T : Nat) (h1 : CLinksOneDir clinks) : EdgesOK algS6 (cedge D names hist extras clinks T) := by
  refine ⟨fun _ _ M _ => S6.neg_add_self M, fun _ _ M _ => S6.add_neg_self M, ?_⟩
  intro a b M h
  unfold cedge at h ⊢
  split at h
  · next l hl => rw [h1 a b l hl]
  · cases h

theorem centreFold_none (D : DateArgs) (names : List String) (hist : List (Nat × Nat)) (extras : List Extra) (clinks : List CLink)
    (T : Nat) (steps : List (Nat × Nat)) : steps.foldl (centreStep D names hist extras clinks T) none = none := by
  induction steps with
  | nil => rfl
  | cons st rest ih => simpa [List.foldl, centreStep] using ih

/-- **the signed sum of `Center.convert_to` is the loop of Lemmas/Chain.lean over the additive algebra** -/
theorem centreFold_chain (D : DateArgs) (names : List String) (hist : List (Nat × Nat)) (extras : List Extra) (clinks : List CLink)
    (T : Nat) : ∀ (steps : List (Nat × Nat)) (out r : V3 × V3),
      steps.foldl (centreStep D names hist extras clinks T) (some out) = some r →
      chain S6.add S6.neg (cedge D names hist extras clinks T) steps out = some r := by
  intro steps
  induction steps with
  | nil => intro out r h; simpa [chain] using h
  | cons st rest ih =>
    intro out r h
    obtain ⟨a, b⟩ := st
    simp only [List.foldl] at h
    cases hd : clinks.find? (fun (l : CLink) => l.child = a ∧ l.parent = b) with
    | some l =>
      cases ho : linkOffset D names hist extras T l with
      | none =>
        simp only [centreStep, hd, ho, Option.map_none] at h
        rw [centreFold_none] at h
        cases h
      | some o =>
        simp only [centreStep, hd, ho, Option.map_some, Generated.Glue.centreUpdate, Generated.Glue.centreDirect] at h
        have hc : cedge D names hist extras clinks T a b = some o := by simp only [cedge, hd, ho]
        simp only [chain, stepElem, hc, Generated.Glue.orientDirect, Generated.Glue.orientUpdate]
        rw [S6.add_comm]
        exact ih _ _ h
    | none =>
      cases hr : clinks.find? (fun (l : CLink) => l.child = b ∧ l.parent = a) with
      | some l =>
        cases ho : linkOffset D names hist extras T l with
        | none =>
          simp only [centreStep, hd, hr, ho, Option.map_none] at h
          rw [centreFold_none] at h
          cases h
        | some o =>
          simp only [centreStep, hd, hr, ho, Option.map_some, Generated.Glue.centreUpdate, Generated.Glue.centreReverse] at h
          have hc : cedge D names hist extras clinks T a b = none := by simp only [cedge, hd]
          have hc' : cedge D names hist extras clinks T b a = some o := by simp only [cedge, hr, ho]
          simp only [chain, stepElem, hc, hc', Generated.Glue.orientReverse, Generated.Glue.orientUpdate]
          rw [S6.add_comm]
          exact ih _ _ h
      | none =>
        simp only [centreStep, hd, hr] at h
        rw [centreFold_none] at h
        cases h

/-- what `Center.convert_to` returns in the model, unfolded: a walk of the centre history and the additive chain along it -/
theorem centerConvert_spec (D : DateArgs) (names : List String) (hist : List (Nat × Nat)) (extras : List Extra)
    (chist : List (Nat × Nat)) (clinks : List CLink) (a b T : Nat) (x : V3 × V3)
    (h : centerConvert D names hist extras chist clinks a b T = some x) :
    ∃ p : List Nat, p.head? = some a ∧ p.getLast? = some b ∧ IsWalk chist.reverse p ∧
      chain S6.add S6.neg (cedge D names hist extras clinks T) (p.zip p.tail) S6.zero = some x := by
  unfold centerConvert at h
  simp only at h
  split at h
  · split at h
    · next hab =>
      cases h
      subst hab
      exact ⟨[a], rfl, rfl, by simp [IsWalk], by simp [chain]⟩
    · cases h
  · next g hg =>
    split at h
    · next p hp =>
      obtain ⟨h1, h2, h3⟩ := C20.path_valid_chain _ _ chist g hg a b p hp
      refine ⟨p, h1, h2, ?_, centreFold_chain D names hist extras clinks T _ _ _ h⟩
      unfold IsWalk
      refine List.IsChain.imp ?_ h3
      intro u v huv
      simpa [C20.linked, List.mem_reverse] using huv
    · cases h

/-- **Re-targeting**: when the rotation `M` carries the offset of every centre link from the target orientation `T` to the target
orientation `T'` (`hM`: `convert_to(l.ori → T') = M · convert_to(l.ori → T)`, which `orientConvert_compose` provides), the loop of
`Center.convert_to` over the same route in `T'` is defined and returns the image under `M` of what it returns in `T`. -/
theorem centreFold_retarget (D : DateArgs) (names : List String) (hist : List (Nat × Nat)) (extras : List Extra) (clinks : List CLink)
    (T T' : Nat) (M : T6)
    (hM : ∀ l ∈ clinks, ∃ X, orientConvert D names hist extras l.ori T = some X ∧
      orientConvert D names hist extras l.ori T' = some (T6.mul M X)) :
    ∀ (steps : List (Nat × Nat)) (out r : V3 × V3),
      steps.foldl (centreStep D names hist extras clinks T) (some out) = some r →
      steps.foldl (centreStep D names hist extras clinks T') (some (T6.app M out)) = some (T6.app M r) := by
  have hlink : ∀ l ∈ clinks, ∀ o, linkOffset D names hist extras T l = some o →
      linkOffset D names hist extras T' l = some (T6.app M o) := by
    intro l hl o ho
    obtain ⟨X, hX, hX'⟩ := hM l hl
    simp only [linkOffset, hX, hX', Option.map_some, Generated.Glue.centreToParent, Option.some.injEq] at ho ⊢
    rw [← ho, T6.app_mul]
  intro steps
  induction steps with
  | nil => intro out r h; simp only [List.foldl, Option.some.injEq] at h ⊢; rw [h]
  | cons st rest ih =>
    intro out r h
    obtain ⟨a, b⟩ := st
    simp only [List.foldl] at h ⊢
    cases hd : clinks.find? (fun (l : CLink) => l.child = a ∧ l.parent = b) with
    | some l =>
      have hl := List.mem_of_find?_eq_some hd
      cases ho : linkOffset D names hist extras T l with
      | none =>
        simp only [centreStep, hd, ho, Option.map_none] at h
        rw [centreFold_none] at h
        cases h
      | some o =>
        simp only [centreStep, hd, ho, Option.map_some, Generated.Glue.centreUpdate, Generated.Glue.centreDirect] at h
        simp only [centreStep, hd, hlink l hl o ho, Option.map_some, Generated.Glue.centreUpdate, Generated.Glue.centreDirect]
        rw [← T6.app_add]
        exact ih _ _ h
    | none =>
      cases hr : clinks.find? (fun (l : CLink) => l.child = b ∧ l.parent = a) with
      | some l =>
        have hl := List.mem_of_find?_eq_some hr
        cases ho : linkOffset D names hist extras T l with
        | none =>
          simp only [centreStep, hd, hr, ho, Option.map_none] at h
          rw [centreFold_none] at h
          cases h
        | some o =>
          simp only [centreStep, hd, hr, ho, Option.map_some, Generated.Glue.centreUpdate, Generated.Glue.centreReverse] at h
          simp only [centreStep, hd, hr, hlink l hl o ho, Option.map_some, Generated.Glue.centreUpdate, Generated.Glue.centreReverse]
          rw [← T6.app_neg, ← T6.app_add]
          exact ih _ _ h
      | none =>
        simp only [centreStep, hd, hr] at h
        rw [centreFold_none] at h
        cases h

/-- `centreFold_retarget` for `centerConvert` itself (the route does not depend on the target orientation) -/
theorem centerConvert_retarget (D : DateArgs) (names : List String) (hist : List (Nat × Nat)) (extras : List Extra)
    (chist : List (Nat × Nat)) (clinks : List CLink) (T T' : Nat) (M : T6)
    (hM : ∀ l ∈ clinks, ∃ X, orientConvert D names hist extras l.ori T = some X ∧
      orientConvert D names hist extras l.ori T' = some (T6.mul M X))
    (a b : Nat) (x : V3 × V3) (h : centerConvert D names hist extras chist clinks a b T = some x) :
    centerConvert D names hist extras chist clinks a b T' = some (T6.app M x) := by
  unfold centerConvert at h ⊢
  simp only at h ⊢
  split at h
  · split at h
    · cases h
      next hab => simp only [hab, if_true, T6.app_zero]
    · cases h
  · split at h
    · have := centreFold_retarget D names hist extras clinks T T' M hM _ _ _ h
      rw [T6.app_zero] at this
      exact this
    · cases h

end BeyondVerif.R
