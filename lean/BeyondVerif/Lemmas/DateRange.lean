import BeyondVerif.Model.Date
import Mathlib.Tactic.Ring
import Mathlib.Tactic.Linarith
/-! Lemmas about the `DateRange` model: counting of the arithmetic progression, for positive steps; the
negative steps are obtained by the mirror symmetry `x ↦ -x`. -/
namespace BeyondVerif.Date

/-- `__len__` of the range that starts at `cur` -/
def Range.lenFrom (r : Range) (cur : Int) : Int := Range.len { r with start := cur }

theorem lenFrom_start (r : Range) : r.lenFrom r.start = r.len := rfl

section pos
variable (r : Range) (hs : 0 < r.step)
include hs

theorem lenFrom_pos_eq (cur : Int) :
    r.lenFrom cur = -((-(r.stop - cur)) / r.step) + (if r.incl = true ∧ (r.stop - cur) % r.step = 0 then 1 else 0) := by
  simp [Range.lenFrom, Range.len, ceilDiv, hs]

omit hs in
theorem neg_emod_zero_iff (a b : Int) : (-a) % b = 0 ↔ a % b = 0 := by
  constructor
  · intro h
    have := Int.dvd_of_emod_eq_zero h
    exact Int.emod_eq_zero_of_dvd ((Int.dvd_neg).mp this)
  · intro h
    have := Int.dvd_of_emod_eq_zero h
    exact Int.emod_eq_zero_of_dvd ((Int.dvd_neg).mpr this)

/-- while the loop condition holds the remaining length is at least one -/
theorem lenFrom_pos_of_cond (cur : Int) (hc : r.cond cur = true) : 1 ≤ r.lenFrom cur := by
  rw [lenFrom_pos_eq r hs]
  have h1 := Int.mul_ediv_add_emod (-(r.stop - cur)) r.step
  have h2 := Int.emod_nonneg (-(r.stop - cur)) (ne_of_gt hs)
  have h3 := Int.emod_lt_of_pos (-(r.stop - cur)) hs
  have hz := neg_emod_zero_iff (r.stop - cur) r.step
  simp only [Range.cond, hs, if_true] at hc
  set q := (-(r.stop - cur)) / r.step with hq
  set rr := (-(r.stop - cur)) % r.step with hrr
  cases hi : r.incl
  · simp only [hi, Bool.false_eq_true, false_and, if_false] at hc ⊢
    have hc' : cur < r.stop := by simpa using hc
    have : q ≤ -1 := by
      by_contra hcon
      have hq0 : 0 ≤ q := by omega
      have := mul_nonneg (le_of_lt hs) hq0
      omega
    omega
  · simp only [hi, if_true] at hc
    have hc' : cur ≤ r.stop := by simpa using hc
    by_cases hd : (r.stop - cur) % r.step = 0
    · simp only [hd, and_self, if_true]
      have : q ≤ 0 := by
        by_contra hcon
        have hq0 : 1 ≤ q := by omega
        have := mul_le_mul_of_nonneg_left hq0 (le_of_lt hs)
        omega
      omega
    · simp only [hd, and_false, if_false]
      have hrr0 : rr ≠ 0 := fun h => hd (hz.mp h)
      have : q ≤ -1 := by
        by_contra hcon
        have hq0 : 0 ≤ q := by omega
        have := mul_nonneg (le_of_lt hs) hq0
        omega
      omega

/-- when the loop condition fails nothing remains -/
theorem lenFrom_nonpos_of_not_cond (cur : Int) (hc : r.cond cur = false) : r.lenFrom cur ≤ 0 := by
  rw [lenFrom_pos_eq r hs]
  have h1 := Int.mul_ediv_add_emod (-(r.stop - cur)) r.step
  have h2 := Int.emod_nonneg (-(r.stop - cur)) (ne_of_gt hs)
  have h3 := Int.emod_lt_of_pos (-(r.stop - cur)) hs
  have hz := neg_emod_zero_iff (r.stop - cur) r.step
  simp only [Range.cond, hs, if_true] at hc
  set q := (-(r.stop - cur)) / r.step with hq
  set rr := (-(r.stop - cur)) % r.step with hrr
  cases hi : r.incl
  · simp only [hi, Bool.false_eq_true, false_and, if_false] at hc ⊢
    have hc' : ¬ cur < r.stop := by simpa using hc
    have : 0 ≤ q := by
      by_contra hcon
      have hq0 : q ≤ -1 := by omega
      have := mul_le_mul_of_nonneg_left hq0 (le_of_lt hs)
      omega
    omega
  · simp only [hi, if_true] at hc
    have hc' : ¬ cur ≤ r.stop := by simpa using hc
    by_cases hd : (r.stop - cur) % r.step = 0
    · simp only [hd, and_self, if_true]
      have hrr0 : rr = 0 := hz.mpr hd
      have : 1 ≤ q := by
        by_contra hcon
        have hq0 : q ≤ 0 := by omega
        have := mul_le_mul_of_nonneg_left hq0 (le_of_lt hs)
        omega
      omega
    · simp only [hd, and_false, if_false]
      have : 0 ≤ q := by
        by_contra hcon
        have hq0 : q ≤ -1 := by omega
        have := mul_le_mul_of_nonneg_left hq0 (le_of_lt hs)
        omega
      omega

/-- one step consumes exactly one unit of length -/
theorem lenFrom_step (cur : Int) : r.lenFrom (cur + r.step) = r.lenFrom cur - 1 := by
  rw [lenFrom_pos_eq r hs, lenFrom_pos_eq r hs]
  have e1 : -(r.stop - (cur + r.step)) = -(r.stop - cur) + 1 * r.step := by ring
  have e2 : r.stop - (cur + r.step) = (r.stop - cur) + (-1) * r.step := by ring
  rw [e1, Int.add_mul_ediv_right _ _ (ne_of_gt hs), e2, Int.add_mul_emod_self_right]
  ring

theorem iterFrom_progression : ∀ (fuel : Nat) (cur : Int) (l : List Int), r.iterFrom fuel cur = some l →
    l = (List.range (r.lenFrom cur).toNat).map (fun (k : Nat) => cur + (k : Int) * r.step) := by
  intro fuel
  induction fuel with
  | zero => intro cur l h; simp [Range.iterFrom] at h
  | succ fuel ih =>
    intro cur l h
    simp only [Range.iterFrom] at h
    by_cases hc : r.cond cur = true
    · simp only [hc, if_true, Option.map_eq_some_iff] at h
      obtain ⟨l', hl', rfl⟩ := h
      have := ih _ _ hl'
      have h1 := lenFrom_pos_of_cond r hs cur hc
      have h2 := lenFrom_step r hs cur
      have hn : (r.lenFrom cur).toNat = (r.lenFrom (cur + r.step)).toNat + 1 := by omega
      rw [hn, List.range_succ_eq_map, List.map_cons, List.map_map, this]
      congr 1
      · simp
      · apply List.map_congr_left
        intro k _
        simp only [Function.comp, Nat.succ_eq_add_one, Nat.cast_add, Nat.cast_one]
        ring
    · have hc' : r.cond cur = false := by simpa using hc
      simp only [hc', Bool.false_eq_true, if_false, Option.some.injEq] at h
      have := lenFrom_nonpos_of_not_cond r hs cur hc'
      have hn : (r.lenFrom cur).toNat = 0 := by omega
      rw [hn]; simp [← h]

end pos

/-! ### mirror symmetry -/

def Range.mirror (r : Range) : Range := ⟨-r.start, -r.stop, -r.step, r.incl⟩

theorem mirror_cond (r : Range) (hs : r.step < 0) (x : Int) : r.mirror.cond (-x) = r.cond x := by
  have h1 : ¬ (0 < r.step) := by omega
  have h2 : 0 < -r.step := by omega
  simp only [Range.cond, Range.mirror, h1, h2, if_true, if_false, gt_iff_lt, ge_iff_le]
  by_cases hi : r.incl = true <;> simp [hi]

theorem mirror_iterFrom (r : Range) (hs : r.step < 0) : ∀ (fuel : Nat) (cur : Int),
    r.mirror.iterFrom fuel (-cur) = (r.iterFrom fuel cur).map (List.map (fun x => -x)) := by
  intro fuel
  induction fuel with
  | zero => intro cur; simp [Range.iterFrom]
  | succ fuel ih =>
    intro cur
    simp only [Range.iterFrom, mirror_cond r hs]
    by_cases hc : r.cond cur = true
    · simp only [hc, if_true]
      have e : -cur + r.mirror.step = -(cur + r.step) := by simp [Range.mirror]; ring
      rw [e, ih]
      cases r.iterFrom fuel (cur + r.step) <;> simp
    · have hc' : r.cond cur = false := by simpa using hc
      simp [hc']

theorem mirror_lenFrom (r : Range) (hs : r.step < 0) (cur : Int) : r.mirror.lenFrom (-cur) = r.lenFrom cur := by
  have h1 : ¬ (0 < r.step) := by omega
  have h2 : 0 < -r.step := by omega
  simp only [Range.lenFrom, Range.len, Range.mirror, ceilDiv, h1, h2, if_true, if_false]
  have e1 : -(-r.stop - -cur) = r.stop - cur := by ring
  have e2 : (-r.stop - -cur) = -(r.stop - cur) := by ring
  have hz : (-(r.stop - cur)) % (-r.step) = 0 ↔ (r.stop - cur) % r.step = 0 := by
    rw [Int.emod_neg]
    constructor
    · intro h
      exact Int.emod_eq_zero_of_dvd ((Int.dvd_neg).mp (Int.dvd_of_emod_eq_zero h))
    · intro h
      exact Int.emod_eq_zero_of_dvd ((Int.dvd_neg).mpr (Int.dvd_of_emod_eq_zero h))
  simp only [e2, hz, neg_neg]

/-- the progression law for either sign of the step -/
theorem iterFrom_progression_any (r : Range) (hs : r.step ≠ 0) (fuel : Nat) (cur : Int) (l : List Int)
    (h : r.iterFrom fuel cur = some l) :
    l = (List.range (r.lenFrom cur).toNat).map (fun (k : Nat) => cur + (k : Int) * r.step) := by
  rcases lt_or_gt_of_ne hs with hneg | hpos
  · have hm := mirror_iterFrom r hneg fuel cur
    rw [h] at hm
    simp only [Option.map_some] at hm
    have hp : 0 < r.mirror.step := by simp [Range.mirror]; omega
    have := iterFrom_progression r.mirror hp fuel (-cur) _ hm
    rw [mirror_lenFrom r hneg] at this
    have hl : l = (l.map (fun x => -x)).map (fun x => -x) := by simp [List.map_map]
    rw [hl, this, List.map_map]
    apply List.map_congr_left
    intro k _
    simp only [Function.comp, Range.mirror]
    ring
  · exact iterFrom_progression r hpos fuel cur l h

/-- every yielded instant satisfied the loop condition and lies on the start side -/
theorem iterFrom_mem (r : Range) : ∀ (fuel : Nat) (cur : Int) (l : List Int), r.iterFrom fuel cur = some l →
    ∀ x ∈ l, r.cond x = true ∧ (0 < r.step → cur ≤ x) ∧ (r.step < 0 → x ≤ cur) := by
  intro fuel
  induction fuel with
  | zero => intro cur l h; simp [Range.iterFrom] at h
  | succ fuel ih =>
    intro cur l h x hx
    simp only [Range.iterFrom] at h
    by_cases hc : r.cond cur = true
    · simp only [hc, if_true, Option.map_eq_some_iff] at h
      obtain ⟨l', hl', rfl⟩ := h
      rcases List.mem_cons.mp hx with rfl | hx'
      · exact ⟨hc, fun _ => le_refl _, fun _ => le_refl _⟩
      · obtain ⟨a, b, c⟩ := ih _ _ hl' x hx'
        exact ⟨a, fun h => by have := b h; omega, fun h => by have := c h; omega⟩
    · have hc' : r.cond cur = false := by simpa using hc
      simp only [hc', Bool.false_eq_true, if_false, Option.some.injEq] at h
      subst h; cases hx

/-! ### termination: `len + 1` iterations suffice -/

theorem iterFrom_fuel_pos (r : Range) (hs : 0 < r.step) : ∀ (fuel : Nat) (cur : Int),
    (r.lenFrom cur).toNat < fuel → ∃ l, r.iterFrom fuel cur = some l := by
  intro fuel
  induction fuel with
  | zero => intro cur h; omega
  | succ fuel ih =>
    intro cur h
    simp only [Range.iterFrom]
    by_cases hc : r.cond cur = true
    · simp only [hc, if_true]
      have h1 := lenFrom_pos_of_cond r hs cur hc
      have h2 := lenFrom_step r hs cur
      obtain ⟨l, hl⟩ := ih (cur + r.step) (by omega)
      exact ⟨cur :: l, by rw [hl]; rfl⟩
    · have hc' : r.cond cur = false := by simpa using hc
      exact ⟨[], by simp [hc']⟩

/-- **the loop of `__iter__` ends**: started at `cur`, it returns within `lenFrom cur + 1` evaluations of its condition,
for either sign of the step -/
theorem iterFrom_fuel (r : Range) (hs : r.step ≠ 0) (fuel : Nat) (cur : Int)
    (h : (r.lenFrom cur).toNat < fuel) : ∃ l, r.iterFrom fuel cur = some l := by
  rcases lt_or_gt_of_ne hs with hneg | hpos
  · have hp : 0 < r.mirror.step := by simp [Range.mirror]; omega
    obtain ⟨l, hl⟩ := iterFrom_fuel_pos r.mirror hp fuel (-cur) (by rw [mirror_lenFrom r hneg]; exact h)
    rw [mirror_iterFrom r hneg] at hl
    cases hr : r.iterFrom fuel cur with
    | none => rw [hr] at hl; simp at hl
    | some l' => exact ⟨l', rfl⟩
  · exact iterFrom_fuel_pos r hpos fuel cur h

/-- more fuel never changes the result -/
theorem iterFrom_mono (r : Range) : ∀ (fuel : Nat) (cur : Int) (l : List Int), r.iterFrom fuel cur = some l →
    r.iterFrom (fuel + 1) cur = some l := by
  intro fuel
  induction fuel with
  | zero => intro cur l h; simp [Range.iterFrom] at h
  | succ fuel ih =>
    intro cur l h
    rw [Range.iterFrom] at h ⊢
    by_cases hc : r.cond cur = true
    · simp only [hc, if_true, Option.map_eq_some_iff] at h ⊢
      obtain ⟨l', hl', rfl⟩ := h
      exact ⟨l', ih _ _ hl', rfl⟩
    · have hc' : r.cond cur = false := by simpa using hc
      simpa [hc'] using h

end BeyondVerif.Date
