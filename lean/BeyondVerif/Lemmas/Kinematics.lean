import BeyondVerif.Lemmas.FrameEdges
import Mathlib.Analysis.Calculus.Deriv.Mul
import Mathlib.Analysis.Calculus.Deriv.Add
import Mathlib.Analysis.SpecialFunctions.Trigonometric.Deriv

/-!
Helper lemmas for the kinematic clauses of C02: component-wise derivatives of paths of 3-vectors and 3×3 matrices over the structures of
Model/Mat3R.lean, the Euclidean norm `V3.norm`, and paths of rotations whose derivative is bounded (`RotPath`).

* `V3.DerivAt`, `M3.DerivAt`: every component has the given derivative; product rule `M3.DerivAt.mul`, `M3.DerivAt.apply`;
* `skew_of_rotation_path`: along a path of rotations `R' = [w]× R` with `w = vee (R' Rᵀ)` (the angular velocity exists);
* `rot1/2/3_derivAt`: `d/ds rot_k(α(s)) = α' · drot_k(α)`, and `‖drot_k(α) x‖ ≤ ‖x‖`;
* `V3.norm_add_le`, `V3.norm_smul`, `M3.IsRotation.norm_apply`, `V3.norm_cross_le`;
* `RotPath.mul`: the derivative of a product of rotation paths is bounded by the sum of the bounds of the factors.
-/
namespace BeyondVerif.R
open BeyondVerif.NumReal

/-- every component of the path `r` has the corresponding component of `r'` as derivative at `t` -/
structure V3.DerivAt (r : ℝ → V3) (r' : V3) (t : ℝ) : Prop where
  x : HasDerivAt (fun s => (r s).x) r'.x t
  y : HasDerivAt (fun s => (r s).y) r'.y t
  z : HasDerivAt (fun s => (r s).z) r'.z t

/-- every entry of the matrix path `R` has the corresponding entry of `R'` as derivative at `t` -/
structure M3.DerivAt (R : ℝ → M3) (R' : M3) (t : ℝ) : Prop where
  h11 : HasDerivAt (fun s => (R s).a11) R'.a11 t
  h12 : HasDerivAt (fun s => (R s).a12) R'.a12 t
  h13 : HasDerivAt (fun s => (R s).a13) R'.a13 t
  h21 : HasDerivAt (fun s => (R s).a21) R'.a21 t
  h22 : HasDerivAt (fun s => (R s).a22) R'.a22 t
  h23 : HasDerivAt (fun s => (R s).a23) R'.a23 t
  h31 : HasDerivAt (fun s => (R s).a31) R'.a31 t
  h32 : HasDerivAt (fun s => (R s).a32) R'.a32 t
  h33 : HasDerivAt (fun s => (R s).a33) R'.a33 t

theorem V3.DerivAt.unique {r : ℝ → V3} {a b : V3} {t : ℝ} (ha : V3.DerivAt r a t) (hb : V3.DerivAt r b t) : a = b := by
  ext
  · exact ha.x.unique hb.x
  · exact ha.y.unique hb.y
  · exact ha.z.unique hb.z

theorem V3.DerivAt.congr {r : ℝ → V3} {a b : V3} {t : ℝ} (ha : V3.DerivAt r a t) (h : a = b) : V3.DerivAt r b t := h ▸ ha

theorem V3.DerivAt.const (c : V3) (t : ℝ) : V3.DerivAt (fun _ => c) V3.zero t :=
  ⟨hasDerivAt_const t c.x, hasDerivAt_const t c.y, hasDerivAt_const t c.z⟩

theorem V3.DerivAt.add {u w : ℝ → V3} {u' w' : V3} {t : ℝ} (hu : V3.DerivAt u u' t) (hw : V3.DerivAt w w' t) :
    V3.DerivAt (fun s => V3.add (u s) (w s)) (V3.add u' w') t :=
  ⟨hu.x.add hw.x, hu.y.add hw.y, hu.z.add hw.z⟩

theorem V3.DerivAt.sub {u w : ℝ → V3} {u' w' : V3} {t : ℝ} (hu : V3.DerivAt u u' t) (hw : V3.DerivAt w w' t) :
    V3.DerivAt (fun s => V3.sub (u s) (w s)) (V3.sub u' w') t :=
  ⟨hu.x.sub hw.x, hu.y.sub hw.y, hu.z.sub hw.z⟩

theorem V3.DerivAt.dot {u w : ℝ → V3} {u' w' : V3} {t : ℝ} (hu : V3.DerivAt u u' t) (hw : V3.DerivAt w w' t) :
    HasDerivAt (fun s => V3.dot (u s) (w s)) (V3.dot u' (w t) + V3.dot (u t) w') t := by
  have h := ((hu.x.mul hw.x).add (hu.y.mul hw.y)).add (hu.z.mul hw.z)
  simp only [V3.dot]
  exact h.congr_deriv (by ring)

theorem V3.DerivAt.cross {u w : ℝ → V3} {u' w' : V3} {t : ℝ} (hu : V3.DerivAt u u' t) (hw : V3.DerivAt w w' t) :
    V3.DerivAt (fun s => V3.cross (u s) (w s)) (V3.add (V3.cross u' (w t)) (V3.cross (u t) w')) t := by
  refine ⟨?_, ?_, ?_⟩ <;> simp only [V3.cross, V3.add]
  · exact ((hu.y.mul hw.z).sub (hu.z.mul hw.y)).congr_deriv (by ring)
  · exact ((hu.z.mul hw.x).sub (hu.x.mul hw.z)).congr_deriv (by ring)
  · exact ((hu.x.mul hw.y).sub (hu.y.mul hw.x)).congr_deriv (by ring)

theorem M3.DerivAt.unique {R : ℝ → M3} {A B : M3} {t : ℝ} (ha : M3.DerivAt R A t) (hb : M3.DerivAt R B t) : A = B := by
  ext
  · exact ha.h11.unique hb.h11
  · exact ha.h12.unique hb.h12
  · exact ha.h13.unique hb.h13
  · exact ha.h21.unique hb.h21
  · exact ha.h22.unique hb.h22
  · exact ha.h23.unique hb.h23
  · exact ha.h31.unique hb.h31
  · exact ha.h32.unique hb.h32
  · exact ha.h33.unique hb.h33

theorem M3.DerivAt.congr {R : ℝ → M3} {A B : M3} {t : ℝ} (ha : M3.DerivAt R A t) (h : A = B) : M3.DerivAt R B t := h ▸ ha

theorem M3.DerivAt.const (c : M3) (t : ℝ) : M3.DerivAt (fun _ => c) M3.zero t :=
  ⟨hasDerivAt_const t _, hasDerivAt_const t _, hasDerivAt_const t _, hasDerivAt_const t _, hasDerivAt_const t _,
   hasDerivAt_const t _, hasDerivAt_const t _, hasDerivAt_const t _, hasDerivAt_const t _⟩

theorem M3.DerivAt.tr {R : ℝ → M3} {R' : M3} {t : ℝ} (h : M3.DerivAt R R' t) : M3.DerivAt (fun s => M3.tr (R s)) (M3.tr R') t :=
  ⟨h.h11, h.h21, h.h31, h.h12, h.h22, h.h32, h.h13, h.h23, h.h33⟩

theorem M3.DerivAt.ofRows {a b c : ℝ → V3} {a' b' c' : V3} {t : ℝ} (ha : V3.DerivAt a a' t) (hb : V3.DerivAt b b' t)
    (hc : V3.DerivAt c c' t) : M3.DerivAt (fun s => M3.ofRows (a s) (b s) (c s)) (M3.ofRows a' b' c') t :=
  ⟨ha.x, ha.y, ha.z, hb.x, hb.y, hb.z, hc.x, hc.y, hc.z⟩

/-- product rule -/
theorem M3.DerivAt.mul {A B : ℝ → M3} {A' B' : M3} {t : ℝ} (ha : M3.DerivAt A A' t) (hb : M3.DerivAt B B' t) :
    M3.DerivAt (fun s => M3.mul (A s) (B s)) (M3.add (M3.mul A' (B t)) (M3.mul (A t) B')) t := by
  refine ⟨?_, ?_, ?_, ?_, ?_, ?_, ?_, ?_, ?_⟩ <;> simp only [M3.mul, M3.add]
  · exact (((ha.h11.mul hb.h11).add (ha.h12.mul hb.h21)).add (ha.h13.mul hb.h31)).congr_deriv (by ring)
  · exact (((ha.h11.mul hb.h12).add (ha.h12.mul hb.h22)).add (ha.h13.mul hb.h32)).congr_deriv (by ring)
  · exact (((ha.h11.mul hb.h13).add (ha.h12.mul hb.h23)).add (ha.h13.mul hb.h33)).congr_deriv (by ring)
  · exact (((ha.h21.mul hb.h11).add (ha.h22.mul hb.h21)).add (ha.h23.mul hb.h31)).congr_deriv (by ring)
  · exact (((ha.h21.mul hb.h12).add (ha.h22.mul hb.h22)).add (ha.h23.mul hb.h32)).congr_deriv (by ring)
  · exact (((ha.h21.mul hb.h13).add (ha.h22.mul hb.h23)).add (ha.h23.mul hb.h33)).congr_deriv (by ring)
  · exact (((ha.h31.mul hb.h11).add (ha.h32.mul hb.h21)).add (ha.h33.mul hb.h31)).congr_deriv (by ring)
  · exact (((ha.h31.mul hb.h12).add (ha.h32.mul hb.h22)).add (ha.h33.mul hb.h32)).congr_deriv (by ring)
  · exact (((ha.h31.mul hb.h13).add (ha.h32.mul hb.h23)).add (ha.h33.mul hb.h33)).congr_deriv (by ring)

/-- `d/ds (R(s) r(s)) = R r' + R' r` -/
theorem M3.DerivAt.apply {R : ℝ → M3} {R' : M3} {r : ℝ → V3} {r' : V3} {t : ℝ} (hR : M3.DerivAt R R' t) (hr : V3.DerivAt r r' t) :
    V3.DerivAt (fun s => M3.apply (R s) (r s)) (V3.add (M3.apply (R t) r') (M3.apply R' (r t))) t := by
  refine ⟨?_, ?_, ?_⟩ <;> simp only [M3.apply, V3.add]
  · exact (((hR.h11.mul hr.x).add (hR.h12.mul hr.y)).add (hR.h13.mul hr.z)).congr_deriv (by ring)
  · exact (((hR.h21.mul hr.x).add (hR.h22.mul hr.y)).add (hR.h23.mul hr.z)).congr_deriv (by ring)
  · exact (((hR.h31.mul hr.x).add (hR.h32.mul hr.y)).add (hR.h33.mul hr.z)).congr_deriv (by ring)

/-- the vector of a skew-symmetric matrix: `skew (vee A) = A` when `A + Aᵀ = 0` -/
def M3.vee (a : M3) : V3 := ⟨a.a32, a.a13, a.a21⟩

theorem M3.skew_apply (w u : V3) : M3.apply (M3.skew w) u = V3.cross w u := by
  ext <;> simp only [M3.apply, M3.skew, V3.cross] <;> ring

/-- **the angular velocity of a path of rotations exists**: if every `R(s)` is a rotation and `R` has the entrywise derivative `R'` at
`t`, then `R' = [w]× R(t)` with `w = vee (R' R(t)ᵀ)` -/
theorem skew_of_rotation_path (R : ℝ → M3) (R' : M3) (t : ℝ) (hrot : ∀ s, M3.IsRotation (R s)) (hR : M3.DerivAt R R' t) :
    R' = M3.mul (M3.skew (M3.vee (M3.mul R' (M3.tr (R t))))) (R t) := by
  have hprod := hR.mul hR.tr
  have hconst : (fun s => M3.mul (R s) (M3.tr (R s))) = fun _ => M3.one := funext fun s => (hrot s).1
  rw [hconst] at hprod
  have hz := M3.DerivAt.unique hprod (M3.DerivAt.const M3.one t)
  -- S + Sᵀ = 0 for S = R' Rᵀ
  have hS : M3.add (M3.mul R' (M3.tr (R t))) (M3.tr (M3.mul R' (M3.tr (R t)))) = M3.zero := by
    rw [M3.tr_mul, M3.tr_tr]; exact hz
  have key : ∀ S : M3, M3.add S (M3.tr S) = M3.zero → M3.skew (M3.vee S) = S := by
    intro S hS
    have e11 := congrArg M3.a11 hS; have e12 := congrArg M3.a12 hS; have e13 := congrArg M3.a13 hS
    have e22 := congrArg M3.a22 hS; have e23 := congrArg M3.a23 hS; have e33 := congrArg M3.a33 hS
    simp only [M3.add, M3.tr, M3.zero] at e11 e12 e13 e22 e23 e33
    ext <;> simp only [M3.skew, M3.vee] <;> linarith
  rw [key _ hS, M3.mul_assoc, (hrot t).2.1, M3.mul_one]

/-! ## the Euclidean norm -/

theorem V3.norm_nonneg (u : V3) : 0 ≤ V3.norm u := Real.sqrt_nonneg _

theorem V3.norm_sq (u : V3) : V3.norm u ^ 2 = V3.dot u u := by
  rw [pow_two]; exact V3.norm_mul_self u

/-- Cauchy–Schwarz -/
theorem V3.dot_le_norm_mul (u w : V3) : V3.dot u w ≤ V3.norm u * V3.norm w := by
  have h1 : V3.dot u w ^ 2 ≤ (V3.norm u * V3.norm w) ^ 2 := by
    rw [mul_pow, V3.norm_sq, V3.norm_sq]
    have := V3.dot_self_nonneg (V3.cross u w)
    rw [V3.cross_dot_self] at this
    nlinarith
  have h2 : 0 ≤ V3.norm u * V3.norm w := mul_nonneg (V3.norm_nonneg u) (V3.norm_nonneg w)
  exact (abs_le_of_sq_le_sq' h1 h2).2

theorem V3.norm_add_le (u w : V3) : V3.norm (V3.add u w) ≤ V3.norm u + V3.norm w := by
  have h0 : 0 ≤ V3.norm u + V3.norm w := add_nonneg (V3.norm_nonneg u) (V3.norm_nonneg w)
  have hsq : V3.norm (V3.add u w) ^ 2 ≤ (V3.norm u + V3.norm w) ^ 2 := by
    have e : V3.dot (V3.add u w) (V3.add u w) = V3.dot u u + 2 * V3.dot u w + V3.dot w w := by
      simp only [V3.dot, V3.add]; ring
    rw [V3.norm_sq, e, add_sq, V3.norm_sq, V3.norm_sq]
    have := V3.dot_le_norm_mul u w
    linarith
  exact (abs_le_of_sq_le_sq' hsq h0).2

theorem V3.norm_smul (k : ℝ) (u : V3) : V3.norm (V3.smul k u) = |k| * V3.norm u := by
  have e : V3.dot (V3.smul k u) (V3.smul k u) = k ^ 2 * V3.dot u u := by
    simp only [V3.dot, V3.smul]; ring
  simp only [V3.norm, sqrt, e]
  rw [Real.sqrt_mul (sq_nonneg k), Real.sqrt_sq_eq_abs]

theorem V3.norm_le_of_dot_le {u w : V3} (h : V3.dot u u ≤ V3.dot w w) : V3.norm u ≤ V3.norm w :=
  Real.sqrt_le_sqrt h

theorem M3.IsRotation.norm_apply {a : M3} (ha : M3.IsRotation a) (u : V3) : V3.norm (M3.apply a u) = V3.norm u := by
  simp only [V3.norm, ha.dot_apply]

/-- `‖w × u‖ ≤ ‖w‖ ‖u‖` -/
theorem V3.norm_cross_le (w u : V3) : V3.norm (V3.cross w u) ≤ V3.norm w * V3.norm u := by
  have h0 : 0 ≤ V3.norm w * V3.norm u := mul_nonneg (V3.norm_nonneg w) (V3.norm_nonneg u)
  have hsq : V3.norm (V3.cross w u) ^ 2 ≤ (V3.norm w * V3.norm u) ^ 2 := by
    rw [V3.norm_sq, V3.cross_dot_self, mul_pow, V3.norm_sq, V3.norm_sq]
    nlinarith [mul_self_nonneg (V3.dot w u)]
  exact (abs_le_of_sq_le_sq' hsq h0).2

theorem M3.apply_add (a b : M3) (u : V3) : M3.apply (M3.add a b) u = V3.add (M3.apply a u) (M3.apply b u) := by
  ext <;> simp only [M3.apply, M3.add, V3.add] <;> ring

theorem M3.apply_smul (k : ℝ) (a : M3) (u : V3) : M3.apply (M3.smul k a) u = V3.smul k (M3.apply a u) := by
  ext <;> simp only [M3.apply, M3.smul, V3.smul] <;> ring

/-! ## derivatives of the elementary rotations -/

/-- `d rot1(θ) / dθ` -/
noncomputable def drot1 (θ : ℝ) : M3 := ⟨0, 0, 0, 0, -Real.sin θ, Real.cos θ, 0, -Real.cos θ, -Real.sin θ⟩
/-- `d rot2(θ) / dθ` -/
noncomputable def drot2 (θ : ℝ) : M3 := ⟨-Real.sin θ, 0, -Real.cos θ, 0, 0, 0, Real.cos θ, 0, -Real.sin θ⟩
/-- `d rot3(θ) / dθ` -/
noncomputable def drot3 (θ : ℝ) : M3 := ⟨-Real.sin θ, Real.cos θ, 0, -Real.cos θ, -Real.sin θ, 0, 0, 0, 0⟩

theorem rot1_derivAt (α : ℝ → ℝ) (α' t : ℝ) (h : HasDerivAt α α' t) :
    M3.DerivAt (fun s => rot1 (α s)) (M3.smul α' (drot1 (α t))) t := by
  have hc := h.cos
  have hs := h.sin
  refine ⟨?_, ?_, ?_, ?_, ?_, ?_, ?_, ?_, ?_⟩ <;> simp only [rot1, drot1, M3.smul, cos, sin]
  · exact (hasDerivAt_const t (1 : ℝ)).congr_deriv (by ring)
  · exact (hasDerivAt_const t (0 : ℝ)).congr_deriv (by ring)
  · exact (hasDerivAt_const t (0 : ℝ)).congr_deriv (by ring)
  · exact (hasDerivAt_const t (0 : ℝ)).congr_deriv (by ring)
  · exact hc.congr_deriv (by ring)
  · exact hs.congr_deriv (by ring)
  · exact (hasDerivAt_const t (0 : ℝ)).congr_deriv (by ring)
  · exact hs.neg.congr_deriv (by ring)
  · exact hc.congr_deriv (by ring)

theorem rot2_derivAt (α : ℝ → ℝ) (α' t : ℝ) (h : HasDerivAt α α' t) :
    M3.DerivAt (fun s => rot2 (α s)) (M3.smul α' (drot2 (α t))) t := by
  have hc := h.cos
  have hs := h.sin
  refine ⟨?_, ?_, ?_, ?_, ?_, ?_, ?_, ?_, ?_⟩ <;> simp only [rot2, drot2, M3.smul, cos, sin]
  · exact hc.congr_deriv (by ring)
  · exact (hasDerivAt_const t (0 : ℝ)).congr_deriv (by ring)
  · exact hs.neg.congr_deriv (by ring)
  · exact (hasDerivAt_const t (0 : ℝ)).congr_deriv (by ring)
  · exact (hasDerivAt_const t (1 : ℝ)).congr_deriv (by ring)
  · exact (hasDerivAt_const t (0 : ℝ)).congr_deriv (by ring)
  · exact hs.congr_deriv (by ring)
  · exact (hasDerivAt_const t (0 : ℝ)).congr_deriv (by ring)
  · exact hc.congr_deriv (by ring)

theorem rot3_derivAt (α : ℝ → ℝ) (α' t : ℝ) (h : HasDerivAt α α' t) :
    M3.DerivAt (fun s => rot3 (α s)) (M3.smul α' (drot3 (α t))) t := by
  have hc := h.cos
  have hs := h.sin
  refine ⟨?_, ?_, ?_, ?_, ?_, ?_, ?_, ?_, ?_⟩ <;> simp only [rot3, drot3, M3.smul, cos, sin]
  · exact hc.congr_deriv (by ring)
  · exact hs.congr_deriv (by ring)
  · exact (hasDerivAt_const t (0 : ℝ)).congr_deriv (by ring)
  · exact hs.neg.congr_deriv (by ring)
  · exact hc.congr_deriv (by ring)
  · exact (hasDerivAt_const t (0 : ℝ)).congr_deriv (by ring)
  · exact (hasDerivAt_const t (0 : ℝ)).congr_deriv (by ring)
  · exact (hasDerivAt_const t (0 : ℝ)).congr_deriv (by ring)
  · exact (hasDerivAt_const t (1 : ℝ)).congr_deriv (by ring)

theorem drot1_norm_le (θ : ℝ) (u : V3) : V3.norm (M3.apply (drot1 θ) u) ≤ V3.norm u := by
  apply V3.norm_le_of_dot_le
  have h := Real.sin_sq_add_cos_sq θ
  simp only [V3.dot, M3.apply, drot1]
  nlinarith [mul_self_nonneg u.x]

theorem drot2_norm_le (θ : ℝ) (u : V3) : V3.norm (M3.apply (drot2 θ) u) ≤ V3.norm u := by
  apply V3.norm_le_of_dot_le
  have h := Real.sin_sq_add_cos_sq θ
  simp only [V3.dot, M3.apply, drot2]
  nlinarith [mul_self_nonneg u.y]

theorem drot3_norm_le (θ : ℝ) (u : V3) : V3.norm (M3.apply (drot3 θ) u) ≤ V3.norm u := by
  apply V3.norm_le_of_dot_le
  have h := Real.sin_sq_add_cos_sq θ
  simp only [V3.dot, M3.apply, drot3]
  nlinarith [mul_self_nonneg u.z]

/-! ## paths of rotations with a bounded derivative -/

/-- `A(s)` is a rotation for every `s`, has the entrywise derivative `A'` at `t`, and `‖A' x‖ ≤ k ‖x‖` for every `x`:
`k` bounds the angular rate of the path at `t` -/
structure RotPath (A : ℝ → M3) (A' : M3) (t k : ℝ) : Prop where
  rot : ∀ s, M3.IsRotation (A s)
  deriv : M3.DerivAt A A' t
  bound : ∀ x, V3.norm (M3.apply A' x) ≤ k * V3.norm x

theorem RotPath.nonneg_of {A : ℝ → M3} {A' : M3} {t k : ℝ} (h : RotPath A A' t k) (x : V3) (hx : 0 < V3.norm x) : 0 ≤ k := by
  have := le_trans (V3.norm_nonneg _) (h.bound x)
  exact nonneg_of_mul_nonneg_left this hx

/-- **product of rotation paths**: the bounds add up -/
theorem RotPath.mul {A B : ℝ → M3} {A' B' : M3} {t ka kb : ℝ} (ha : RotPath A A' t ka) (hb : RotPath B B' t kb) :
    RotPath (fun s => M3.mul (A s) (B s)) (M3.add (M3.mul A' (B t)) (M3.mul (A t) B')) t (ka + kb) := by
  refine ⟨fun s => (ha.rot s).mul (hb.rot s), ha.deriv.mul hb.deriv, ?_⟩
  intro x
  rw [M3.apply_add, M3.apply_mul, M3.apply_mul]
  refine le_trans (V3.norm_add_le _ _) ?_
  have h1 := ha.bound (M3.apply (B t) x)
  rw [(hb.rot t).norm_apply] at h1
  have h2 : V3.norm (M3.apply (A t) (M3.apply B' x)) = V3.norm (M3.apply B' x) := (ha.rot t).norm_apply _
  have h3 := hb.bound x
  rw [h2]
  linarith

theorem rotPath_of_angle (rot : ℝ → M3) (drot : ℝ → M3) (hrot : ∀ θ, M3.IsRotation (rot θ))
    (hd : ∀ (α : ℝ → ℝ) (α' t : ℝ), HasDerivAt α α' t → M3.DerivAt (fun s => rot (α s)) (M3.smul α' (drot (α t))) t)
    (hn : ∀ θ u, V3.norm (M3.apply (drot θ) u) ≤ V3.norm u)
    (α : ℝ → ℝ) (α' t : ℝ) (h : HasDerivAt α α' t) : RotPath (fun s => rot (α s)) (M3.smul α' (drot (α t))) t |α'| := by
  refine ⟨fun s => hrot _, hd α α' t h, ?_⟩
  intro x
  rw [M3.apply_smul, V3.norm_smul]
  exact mul_le_mul_of_nonneg_left (hn _ _) (abs_nonneg _)

end BeyondVerif.R
