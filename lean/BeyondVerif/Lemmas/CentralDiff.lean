import Mathlib.Analysis.Calculus.Deriv.MeanValue
import Mathlib.Analysis.Calculus.Deriv.Pow
import Mathlib.Analysis.Calculus.Deriv.Shift

/-! Error bound for the symmetric (central) difference quotient, proved by three
successive integrations of a derivative bound (no Taylor machinery). -/

namespace BeyondVerif.CentralDiff

open Set

/-- Derivative of `s ↦ C * s^(k+1) / (k+1)`. -/
lemma hasDerivAt_monomial (C : ℝ) (k : ℕ) (s : ℝ) :
    HasDerivAt (fun s : ℝ => C * s ^ (k + 1) / ((k : ℝ) + 1)) (C * s ^ k) s := by
  have hk : ((k : ℝ) + 1) ≠ 0 := by positivity
  have h1 : HasDerivAt (fun s : ℝ => s ^ (k + 1)) (((k + 1 : ℕ) : ℝ) * s ^ (k + 1 - 1)) s :=
    hasDerivAt_pow (k + 1) s
  have h2 := (h1.const_mul C).div_const ((k : ℝ) + 1)
  refine h2.congr_deriv ?_
  simp only [Nat.add_sub_cancel, Nat.cast_add, Nat.cast_one]
  field_simp

/-- One-sided integration step: `u ≤ C s^(k+1)/(k+1)` from `u' ≤ C s^k`, `u 0 = 0`. -/
lemma upper_step (u u' : ℝ → ℝ) (h C : ℝ) (k : ℕ)
    (hu : ∀ s ∈ Icc 0 h, HasDerivAt u (u' s) s)
    (h0 : u 0 = 0) (hb : ∀ s ∈ Icc 0 h, u' s ≤ C * s ^ k) :
    ∀ s ∈ Icc 0 h, u s ≤ C * s ^ (k + 1) / ((k : ℝ) + 1) := by
  intro s hs
  have hd : ∀ x ∈ Icc 0 h,
      HasDerivAt (fun x => C * x ^ (k + 1) / ((k : ℝ) + 1) - u x) (C * x ^ k - u' x) x :=
    fun x hx => (hasDerivAt_monomial C k x).sub (hu x hx)
  have hmono : MonotoneOn (fun x => C * x ^ (k + 1) / ((k : ℝ) + 1) - u x) (Icc 0 h) := by
    refine monotoneOn_of_hasDerivWithinAt_nonneg (f' := fun x => C * x ^ k - u' x)
      (convex_Icc 0 h) ?_ ?_ ?_
    · exact fun x hx => (hd x hx).continuousAt.continuousWithinAt
    · intro x hx
      exact (hd x (interior_subset hx)).hasDerivWithinAt
    · intro x hx
      have := hb x (interior_subset hx)
      linarith
  have h0mem : (0 : ℝ) ∈ Icc 0 h := ⟨le_refl 0, hs.1.trans hs.2⟩
  have := hmono h0mem hs hs.1
  simp only [h0] at this
  have hz : C * (0 : ℝ) ^ (k + 1) / ((k : ℝ) + 1) = 0 := by simp
  rw [hz] at this
  linarith

/-- Integration step: `|u'| ≤ C s^k` and `u 0 = 0` give `|u s| ≤ C s^(k+1)/(k+1)` on `[0,h]`. -/
lemma bound_step (u u' : ℝ → ℝ) (h C : ℝ) (k : ℕ)
    (hu : ∀ s ∈ Icc 0 h, HasDerivAt u (u' s) s)
    (h0 : u 0 = 0) (hb : ∀ s ∈ Icc 0 h, |u' s| ≤ C * s ^ k) :
    ∀ s ∈ Icc 0 h, |u s| ≤ C * s ^ (k + 1) / ((k : ℝ) + 1) := by
  intro s hs
  have hup := upper_step u u' h C k hu h0 (fun x hx => (abs_le.mp (hb x hx)).2) s hs
  have hlo := upper_step (fun x => -u x) (fun x => -u' x) h C k
    (fun x hx => (hu x hx).neg) (by simp [h0])
    (fun x hx => by have := (abs_le.mp (hb x hx)).1; linarith) s hs
  rw [abs_le]
  constructor <;> linarith

/-- Error of the symmetric difference quotient: for f three times differentiable on [t-h, t+h]
with |f'''| ≤ M there,  |(f(t+h) - f(t-h)) / (2h) - f'(t)| ≤ h^2/6 * M. -/
theorem central_difference_error (f f1 f2 f3 : ℝ → ℝ) (t h M : ℝ) (hh : 0 < h)
    (d0 : ∀ x ∈ Set.Icc (t - h) (t + h), HasDerivAt f (f1 x) x)
    (d1 : ∀ x ∈ Set.Icc (t - h) (t + h), HasDerivAt f1 (f2 x) x)
    (d2 : ∀ x ∈ Set.Icc (t - h) (t + h), HasDerivAt f2 (f3 x) x)
    (hM : ∀ x ∈ Set.Icc (t - h) (t + h), |f3 x| ≤ M) :
    |(f (t + h) - f (t - h)) / (2 * h) - f1 t| ≤ h ^ 2 / 6 * M := by
  have hp : ∀ s ∈ Icc 0 h, t + s ∈ Icc (t - h) (t + h) := by
    intro s hs; constructor <;> linarith [hs.1, hs.2]
  have hm : ∀ s ∈ Icc 0 h, t - s ∈ Icc (t - h) (t + h) := by
    intro s hs; constructor <;> linarith [hs.1, hs.2]
  -- the three auxiliary functions and their derivatives
  have dg2 : ∀ s ∈ Icc 0 h,
      HasDerivAt (fun s => f2 (t + s) - f2 (t - s)) (f3 (t + s) + f3 (t - s)) s := by
    intro s hs
    have a := (d2 _ (hp s hs)).comp_const_add t s
    have b := (d2 _ (hm s hs)).comp_const_sub t s
    exact (a.sub b).congr_deriv (by ring)
  have dg1 : ∀ s ∈ Icc 0 h,
      HasDerivAt (fun s => f1 (t + s) + f1 (t - s) - 2 * f1 t) (f2 (t + s) - f2 (t - s)) s := by
    intro s hs
    have a := (d1 _ (hp s hs)).comp_const_add t s
    have b := (d1 _ (hm s hs)).comp_const_sub t s
    exact ((a.add b).sub_const (2 * f1 t)).congr_deriv (by ring)
  have dg0 : ∀ s ∈ Icc 0 h,
      HasDerivAt (fun s => f (t + s) - f (t - s) - 2 * s * f1 t)
        (f1 (t + s) + f1 (t - s) - 2 * f1 t) s := by
    intro s hs
    have a := (d0 _ (hp s hs)).comp_const_add t s
    have b := (d0 _ (hm s hs)).comp_const_sub t s
    have c : HasDerivAt (fun s : ℝ => 2 * s * f1 t) (2 * f1 t) s := by
      have := ((hasDerivAt_id s).const_mul (2 : ℝ)).mul_const (f1 t)
      simpa using this
    exact ((a.sub b).sub c).congr_deriv (by ring)
  -- level 2
  have b2 : ∀ s ∈ Icc 0 h, |f2 (t + s) - f2 (t - s)| ≤ 2 * M * s := by
    intro s hs
    have := bound_step (fun s => f2 (t + s) - f2 (t - s)) (fun s => f3 (t + s) + f3 (t - s))
      h (2 * M) 0 dg2 (by simp) (fun x hx => by
        have h1 := hM _ (hp x hx)
        have h2 := hM _ (hm x hx)
        have := abs_add_le (f3 (t + x)) (f3 (t - x))
        simp only [pow_zero, mul_one]
        linarith) s hs
    simpa using this
  -- level 1
  have b1 : ∀ s ∈ Icc 0 h, |f1 (t + s) + f1 (t - s) - 2 * f1 t| ≤ M * s ^ 2 := by
    intro s hs
    have := bound_step (fun s => f1 (t + s) + f1 (t - s) - 2 * f1 t)
      (fun s => f2 (t + s) - f2 (t - s)) h (2 * M) 1 dg1 (by simp; ring)
      (fun x hx => by simpa using b2 x hx) s hs
    have e : 2 * M * s ^ (1 + 1) / (((1 : ℕ) : ℝ) + 1) = M * s ^ 2 := by
      norm_num; ring
    rw [e] at this
    exact this
  -- level 0
  have b0 : ∀ s ∈ Icc 0 h, |f (t + s) - f (t - s) - 2 * s * f1 t| ≤ M * s ^ 3 / 3 := by
    intro s hs
    have := bound_step (fun s => f (t + s) - f (t - s) - 2 * s * f1 t)
      (fun s => f1 (t + s) + f1 (t - s) - 2 * f1 t) h M 2 dg0 (by simp)
      (fun x hx => b1 x hx) s hs
    have e : M * s ^ (2 + 1) / (((2 : ℕ) : ℝ) + 1) = M * s ^ 3 / 3 := by
      norm_num
    rw [e] at this
    exact this
  have hfin := b0 h ⟨hh.le, le_refl h⟩
  have h2h : (0 : ℝ) < 2 * h := by linarith
  have e : (f (t + h) - f (t - h)) / (2 * h) - f1 t
      = (f (t + h) - f (t - h) - 2 * h * f1 t) / (2 * h) := by
    field_simp
  rw [e, abs_div, abs_of_pos h2h, div_le_iff₀ h2h]
  calc |f (t + h) - f (t - h) - 2 * h * f1 t| ≤ M * h ^ 3 / 3 := hfin
    _ = h ^ 2 / 6 * M * (2 * h) := by ring

/-- The symmetric difference quotient is exact on quadratics. -/
theorem central_difference_exact_quadratic (a b c t h : ℝ) (hh : h ≠ 0) :
    ((a * (t + h) ^ 2 + b * (t + h) + c) - (a * (t - h) ^ 2 + b * (t - h) + c)) / (2 * h)
      = 2 * a * t + b := by
  field_simp
  ring

/-- Non-vacuity: the cubic `x ↦ x^3` at `t = 1`, `h = 1/2`, with `M = 6`. -/
example :
    |(((1 : ℝ) + 1 / 2) ^ 3 - ((1 : ℝ) - 1 / 2) ^ 3) / (2 * (1 / 2)) - 3 * (1 : ℝ) ^ 2|
      ≤ (1 / 2 : ℝ) ^ 2 / 6 * 6 := by
  refine central_difference_error (fun x => x ^ 3) (fun x => 3 * x ^ 2) (fun x => 6 * x)
    (fun _ => 6) 1 (1 / 2) 6 (by norm_num) ?_ ?_ ?_ ?_
  · intro x _
    simpa using hasDerivAt_pow 3 x
  · intro x _
    have := (hasDerivAt_pow 2 x).const_mul (3 : ℝ)
    refine this.congr_deriv ?_
    norm_num; ring
  · intro x _
    simpa using (hasDerivAt_id x).const_mul (6 : ℝ)
  · intro x _
    norm_num

end BeyondVerif.CentralDiff
