import BeyondVerif.Model.InterpR
import Mathlib.LinearAlgebra.Lagrange
import Mathlib.Tactic.Linarith
import Mathlib.Tactic.IntervalCases
/-!
Helper lemmas for C09 about the model of beyond/utils/interp.py (Model/InterpR.lean):
the invariant of the slicing binary search, the window arithmetic translated from the source,
Python slices, and the bridge from the list-based Lagrange formula of the code to
Mathlib's `Lagrange.interpolate`.
-/
namespace BeyondVerif.C09
open BeyondVerif.R BeyondVerif.NumReal
open Polynomial

/-! ### `_prev_idx` -/

theorem prevIdxGo_inv (x : ℝ) (L : List ℝ) :
    ∀ (fuel : Nat) (cur : List ℝ) (acc i : Nat),
      (∀ k, k < cur.length → cur[k]? = L[acc + k]?) → acc + cur.length ≤ L.length →
      (acc = 0 ∨ L.getD acc 0 < x) →
      (acc + cur.length = L.length ∨ x ≤ L.getD (acc + cur.length) 0) →
      prevIdxGo x fuel cur acc = some i →
      i < L.length ∧ (i = 0 ∨ L.getD i 0 < x) ∧ (i + 1 = L.length ∨ x ≤ L.getD (i + 1) 0) := by
  intro fuel
  induction fuel with
  | zero => intro cur acc i _ _ _ _ h; simp [prevIdxGo] at h
  | succ fuel ih =>
    intro cur acc i hlink hlen hl hr h
    unfold prevIdxGo at h
    split_ifs at h with h1
    · -- length 1
      simp only [Option.some.injEq] at h
      subst h
      rw [h1] at hr hlen
      exact ⟨by omega, hl, hr⟩
    · -- split on xs[k]?
      cases hk : cur[cur.length / 2]? with
      | none => simp [hk] at h
      | some xk =>
        simp only [hk] at h
        have hklt : cur.length / 2 < cur.length := by
          rcases List.getElem?_eq_some_iff.mp hk with ⟨hlt, _⟩; exact hlt
        have hLk : L.getD (acc + cur.length / 2) 0 = xk := by
          have := hlink _ hklt
          rw [hk] at this
          simp [List.getD_eq_getElem?_getD, ← this]
        split_ifs at h with hx
        · -- x > xk : right part
          refine ih (cur.drop (cur.length / 2)) (acc + cur.length / 2) i ?_ ?_ ?_ ?_ h
          · intro k hk'
            rw [List.getElem?_drop]
            rw [List.length_drop] at hk'
            rw [hlink _ (by omega)]; congr 1; omega
          · rw [List.length_drop]; omega
          · right; rw [hLk]; exact hx
          · rw [List.length_drop]
            have : acc + cur.length / 2 + (cur.length - cur.length / 2) = acc + cur.length := by omega
            rw [this]; exact hr
        · -- x ≤ xk : left part
          refine ih (cur.take (cur.length / 2)) acc i ?_ ?_ hl ?_ h
          · intro k hk'
            rw [List.length_take] at hk'
            rw [List.getElem?_take]
            rw [if_pos (by omega)]
            exact hlink _ (by omega)
          · rw [List.length_take]; omega
          · rw [List.length_take]
            have : min (cur.length / 2) cur.length = cur.length / 2 := by omega
            rw [this]; right; rw [hLk]; exact not_lt.mp hx

theorem prevIdxGo_total (x : ℝ) :
    ∀ (fuel : Nat) (cur : List ℝ) (acc : Nat), cur ≠ [] → cur.length ≤ fuel →
      ∃ i, prevIdxGo x fuel cur acc = some i := by
  intro fuel
  induction fuel with
  | zero =>
    intro cur acc hne hlen
    exact absurd (List.length_eq_zero_iff.mp (Nat.le_zero.mp hlen)) hne
  | succ fuel ih =>
    intro cur acc hne hlen
    have hpos : 0 < cur.length := List.length_pos_iff.mpr hne
    unfold prevIdxGo
    split_ifs with h1
    · exact ⟨acc, rfl⟩
    · have hklt : cur.length / 2 < cur.length := by omega
      rw [List.getElem?_eq_getElem hklt]
      simp only
      split_ifs with hx
      · apply ih
        · intro h; have := congrArg List.length h; rw [List.length_drop, List.length_nil] at this; omega
        · rw [List.length_drop]; omega
      · apply ih
        · intro h; have := congrArg List.length h; rw [List.length_take, List.length_nil] at this; omega
        · rw [List.length_take]; omega

/-! ### window arithmetic (`windowRaw` is regenerated from the source) -/

theorem windowRaw_eq (p order n : Int) :
    windowRaw p order n =
      if p + 1 + order / 2 + order % 2 ≥ n then (p - order / 2 + 1 - (p + 1 + order / 2 + order % 2 - n), p + 1 + order / 2 + order % 2)
      else if p - order / 2 + 1 < 0 then (0, p + 1 + order / 2 + order % 2 - (p - order / 2 + 1))
      else (p - order / 2 + 1, p + 1 + order / 2 + order % 2) := by
  unfold windowRaw
  simp only [Int.fdiv_eq_ediv_of_nonneg _ (show (0:Int) ≤ 2 by decide), Int.fmod_eq_emod_of_nonneg _ (show (0:Int) ≤ 2 by decide)]


/-! ### lists, slices -/

theorem increasing_cons (a b : ℝ) (rest : List ℝ) :
    increasing (a :: b :: rest) = true ↔ a < b ∧ increasing (b :: rest) = true := by
  simp [increasing]

theorem increasing_pairwise : ∀ xs : List ℝ, increasing xs = true → xs.Pairwise (· < ·)
  | [], _ => List.Pairwise.nil
  | [a], _ => by simp
  | a :: b :: rest, h => by
    rw [increasing_cons] at h
    have ih := increasing_pairwise (b :: rest) h.2
    refine List.Pairwise.cons ?_ ih
    intro c hc
    rcases List.mem_cons.mp hc with rfl | hc
    · exact h.1
    · exact lt_trans h.1 (List.rel_of_pairwise_cons ih hc)

theorem pairwise_increasing : ∀ xs : List ℝ, xs.Pairwise (· < ·) → increasing xs = true
  | [], _ => rfl
  | [a], _ => rfl
  | a :: b :: rest, h => by
    rw [increasing_cons]
    exact ⟨List.rel_of_pairwise_cons h (List.mem_cons_self), pairwise_increasing _ (List.Pairwise.of_cons h)⟩

theorem getD_lt_of_pairwise (xs : List ℝ) (h : xs.Pairwise (· < ·)) (i j : ℕ) (hij : i < j) (hj : j < xs.length) :
    xs.getD i 0 < xs.getD j 0 := by
  have hi : i < xs.length := lt_trans hij hj
  simp only [List.getD_eq_getElem?_getD, List.getElem?_eq_getElem hi, List.getElem?_eq_getElem hj, Option.getD_some]
  exact List.pairwise_iff_getElem.mp h i j hi hj hij

theorem pyBound_of_nonneg (n : ℕ) (i : Int) (h : 0 ≤ i) : pyBound n i = min i.toNat n := by
  unfold pyBound
  split_ifs <;> omega

theorem pySlice_window {α : Type} (l : List α) (s e : Int) (k : ℕ) (hs : 0 ≤ s) (hk : s + k ≤ l.length)
    (he : min e l.length = s + k) : pySlice l s e = (l.take (s.toNat + k)).drop s.toNat := by
  unfold pySlice
  have h1 : pyBound l.length s = s.toNat := by rw [pyBound_of_nonneg _ _ hs]; omega
  have h2 : pyBound l.length e = s.toNat + k := by rw [pyBound_of_nonneg _ _ (by omega)]; omega
  rw [h1, h2]

theorem window_length {α : Type} (l : List α) (a k : ℕ) (h : a + k ≤ l.length) : ((l.take (a + k)).drop a).length = k := by
  rw [List.length_drop, List.length_take]; omega

theorem window_getD (l : List ℝ) (a k i : ℕ) (hi : i < k) : ((l.take (a + k)).drop a).getD i 0 = l.getD (a + i) 0 := by
  simp only [List.getD_eq_getElem?_getD, List.getElem?_drop, List.getElem?_take]
  rw [if_pos (by omega)]

theorem window_sublist {α : Type} (l : List α) (a k : ℕ) : ((l.take (a + k)).drop a).Sublist l :=
  (List.drop_sublist _ _).trans (List.take_sublist _ _)

theorem head?_eq_getD (xs : List ℝ) (x0 : ℝ) (h : xs.head? = some x0) : xs.getD 0 0 = x0 := by
  cases xs with
  | nil => simp at h
  | cons a t => simp at h; simp [h]

theorem getLast?_eq_getD (xs : List ℝ) (xl : ℝ) (h : xs.getLast? = some xl) : xs.getD (xs.length - 1) 0 = xl := by
  rw [List.getLast?_eq_getElem?] at h
  simp [List.getD_eq_getElem?_getD, h]

/-! ### the Lagrange formula -/

theorem foldl_add_eq {α : Type} (f : α → ℝ) (l : List α) (a : ℝ) :
    l.foldl (fun acc j => acc + f j) a = a + (l.map f).sum := by
  induction l generalizing a with
  | nil => simp
  | cons h t ih => simp [ih, add_assoc]

theorem foldl_mul_eq {α : Type} (f : α → ℝ) (l : List α) (a : ℝ) :
    l.foldl (fun acc j => acc * f j) a = a * (l.map f).prod := by
  induction l generalizing a with
  | nil => simp
  | cons h t ih => simp [ih, mul_assoc]

theorem sum_map_range (f : ℕ → ℝ) (k : ℕ) : ((List.range k).map f).sum = ∑ i ∈ Finset.range k, f i := by
  induction k with
  | zero => simp
  | succ k ih => simp [List.range_succ, Finset.sum_range_succ, ih]

theorem prod_map_filter_range (g : ℕ → ℝ) (k j : ℕ) :
    (((List.range k).filter (fun m => m ≠ j)).map g).prod = ∏ m ∈ (Finset.range k).erase j, g m := by
  rw [← List.prod_toFinset g ((List.nodup_range (n := k)).filter _)]
  congr 1
  ext m
  simp [and_comm]

/-- the abscissa function of a table -/
def nodeFn (xs : List ℝ) : ℕ → ℝ := fun i => xs.getD i 0

theorem lagWeight_eq (xs : List ℝ) (x : ℝ) (j : ℕ) :
    lagWeight xs x j = ∏ m ∈ (Finset.range xs.length).erase j, (x - nodeFn xs m) / (nodeFn xs j - nodeFn xs m) := by
  unfold lagWeight
  rw [foldl_mul_eq (fun m => (x - xs.getD m 0) / (xs.getD j 0 - xs.getD m 0)), one_mul, prod_map_filter_range]
  rfl

theorem lagWeight_eq_eval_basis (xs : List ℝ) (x : ℝ) (j : ℕ) :
    lagWeight xs x j = eval x (Lagrange.basis (Finset.range xs.length) (nodeFn xs) j) := by
  rw [lagWeight_eq, Lagrange.basis, eval_prod]
  apply Finset.prod_congr rfl
  intro m _
  simp [Lagrange.basisDivisor, div_eq_inv_mul, mul_comm]

/-- **the code's Lagrange formula is Mathlib's Lagrange interpolant evaluated at `x`** -/
theorem lagrangeCol_eq_eval_interpolate (xs col : List ℝ) (x : ℝ) :
    lagrangeCol xs col x
      = eval x (Lagrange.interpolate (Finset.range xs.length) (nodeFn xs) (fun i => col.getD i 0)) := by
  unfold lagrangeCol
  rw [foldl_add_eq (fun j => lagWeight xs x j * col.getD j 0), zero_add, sum_map_range,
    Lagrange.interpolate_apply, eval_finsetSum]
  apply Finset.sum_congr rfl
  intro j _
  rw [eval_mul, eval_C, lagWeight_eq_eval_basis, mul_comm]

theorem nodeFn_injOn (xs : List ℝ) (h : xs.Nodup) : Set.InjOn (nodeFn xs) (Finset.range xs.length : Set ℕ) := by
  intro i hi j hj hij
  simp only [Finset.coe_range, Set.mem_Iio] at hi hj
  simp only [nodeFn, List.getD_eq_getElem?_getD, List.getElem?_eq_getElem hi, List.getElem?_eq_getElem hj, Option.getD_some] at hij
  exact (List.Nodup.getElem_inj_iff h).mp hij

/-- at a node the interpolant returns the tabulated ordinate -/
theorem lagrangeCol_node (xs col : List ℝ) (h : xs.Nodup) (j : ℕ) (hj : j < xs.length) :
    lagrangeCol xs col (xs.getD j 0) = col.getD j 0 := by
  rw [lagrangeCol_eq_eval_interpolate]
  exact Lagrange.eval_interpolate_at_node (v := nodeFn xs) (fun i => col.getD i 0) (nodeFn_injOn xs h) (Finset.mem_range.mpr hj)

/-- polynomials of degree < number of nodes are reproduced -/
theorem lagrangeCol_poly (xs : List ℝ) (h : xs.Nodup) (P : ℝ[X]) (hdeg : P.degree < xs.length) (x : ℝ) :
    lagrangeCol xs (xs.map (fun t => eval t P)) x = eval x P := by
  rw [lagrangeCol_eq_eval_interpolate]
  have h1 := Lagrange.eq_interpolate (s := Finset.range xs.length) (v := nodeFn xs) (f := P) (nodeFn_injOn xs h)
    (by simpa using hdeg)
  conv_rhs => rw [h1]
  congr 1
  apply Lagrange.interpolate_eq_of_values_eq_on
  intro i hi
  have hi' : i < xs.length := Finset.mem_range.mp hi
  simp [nodeFn, List.getD_eq_getElem?_getD, List.getElem?_map, List.getElem?_eq_getElem hi']

/-! ### shapes -/

theorem lagrangeEval_rect (xw : List ℝ) (yw : List (List ℝ)) (d : ℕ) (hne : yw ≠ [])
    (hrect : ∀ row ∈ yw, row.length = d) (x : ℝ) :
    lagrangeEval xw yw x = (List.range d).map (fun c => lagrangeCol xw (yw.map (fun row => row.getD c 0)) x) := by
  unfold lagrangeEval columns
  cases yw with
  | nil => exact absurd rfl hne
  | cons r t =>
    have : (List.headD (r :: t) []).length = d := by simpa using hrect r (List.mem_cons_self)
    rw [this, List.map_map]; rfl

theorem range_map_getD {α β : Type} (l : List α) (f : α → β) (dflt : α) :
    (List.range l.length).map (fun c => f (l.getD c dflt)) = l.map f := by
  apply List.ext_getElem
  · simp
  · intro i h1 h2
    simp at h1
    simp [List.getD_eq_getElem?_getD, List.getElem?_eq_getElem h1]

theorem range_map_getD' (l : List ℝ) : (List.range l.length).map (fun c => l.getD c 0) = l := by
  have := range_map_getD l id 0
  simpa using this

theorem window_two {α : Type} (l : List α) (dflt : α) (p : ℕ) (h : p + 2 ≤ l.length) :
    (l.take (p + 2)).drop p = [l.getD p dflt, l.getD (p + 1) dflt] := by
  apply List.ext_getElem
  · rw [window_length l p 2 h]; rfl
  · intro i h1 h2
    simp only [List.length_cons, List.length_nil] at h2
    have hi : i < 2 := by omega
    simp only [List.getElem_drop, List.getElem_take]
    interval_cases i
    · simp [List.getD_eq_getElem?_getD, List.getElem?_eq_getElem (show p < l.length by omega)]
    · simp [List.getD_eq_getElem?_getD, List.getElem?_eq_getElem (show p + 1 < l.length by omega)]

theorem pySlice_length_le {α : Type} (l : List α) (s e : Int) : (pySlice l s e).length ≤ l.length := by
  unfold pySlice
  rw [List.length_drop, List.length_take]; omega

end BeyondVerif.C09
